(* C01 and C12 for bcrypt, sunmd5 and argon2 (same five statements per scheme as in FreshPlain.v). *)
Require Import GC.Schemes.FreshBase GC.Schemes.FreshPlain.
Require Import GC.Schemes.RandProofs GC.Schemes.NoPanic GC.Schemes.RecogPArgon2.

Local Notation salt_ok s := (in_alpha EncHash s = true).

(* ================================================================== bcrypt *)
Definition canon_bcrypt (cost : Z) (salt sum : bytes) : bytes :=
  m_bcrypt_Prefix2b ++ cost_text cost ++ dollar :: salt ++ sum.

(* the two-digit cost text, over the documented cost range *)
Lemma cost_text_facts cost : 4 <= cost <= 31 ->
  length (cost_text cost) = 2%nat /\ is_digits (cost_text cost) = true /\ ParseUint (cost_text cost) 10 8 = inl cost.
Proof.
  intros H.
  assert (cost = 4 \/ cost = 5 \/ cost = 6 \/ cost = 7 \/ cost = 8 \/ cost = 9 \/ cost = 10 \/ cost = 11 \/ cost = 12 \/
          cost = 13 \/ cost = 14 \/ cost = 15 \/ cost = 16 \/ cost = 17 \/ cost = 18 \/ cost = 19 \/ cost = 20 \/
          cost = 21 \/ cost = 22 \/ cost = 23 \/ cost = 24 \/ cost = 25 \/ cost = 26 \/ cost = 27 \/ cost = 28 \/
          cost = 29 \/ cost = 30 \/ cost = 31) as D by lia.
  repeat (destruct D as [-> | D]; [vm_compute; auto|]). subst cost. vm_compute. auto.
Qed.

Lemma marshal_bcrypt cost salt sum :
  4 <= cost <= 31 -> length salt = 22%nat -> salt_ok salt -> length sum = 31%nat -> salt_ok sum ->
  marshal_n m_layout_bcrypt [([0%nat], VStr m_bcrypt_Prefix2b); ([1%nat], VUint cost); ([2%nat], VBytes salt);
                             ([3%nat], VArr sum)]
  = NOk (canon_bcrypt cost salt sum).
Proof.
  intros Hc Hls Hs Hl Hd. apply in_alpha_fi_none in Hs, Hd.
  destruct (cost_text_facts cost Hc) as (Hcl & Hcd & _).
  pose proof (in_alpha_fi_none _ _ (is_digits_alpha _ Hcd)) as Hca.
  marshal_eval ti_bcrypt TI_bcrypt. unfold canon_bcrypt. cbn. rewrite <- !app_assoc. reflexivity.
Qed.

Lemma recog_bcrypt_canon cost salt sum :
  4 <= cost <= 31 -> length salt = 22%nat -> salt_ok salt -> length sum = 31%nat -> salt_ok sum ->
  recog_bcrypt (canon_bcrypt cost salt sum) = Some (mk_r salt [cost] m_bcrypt_Prefix2b false sum).
Proof.
  intros Hc Hls Hs Hl Hd. unfold recog_bcrypt, canon_bcrypt.
  change p_bcrypt_2b with m_bcrypt_Prefix2b. rewrite has_prefix_app.
  unfold recog_bcrypt_body. rewrite skipn_app_exact. cbv zeta.
  destruct (cost_text_facts cost Hc) as (Hcl & Hcd & Hcp).
  pose proof (is_digits_alpha _ Hcd) as Hca.
  assert (salt_ok (salt ++ sum)) as Ha by (rewrite in_alpha_app, Hs, Hd; reflexivity).
  repeat (rewrite has_comma_app || rewrite has_comma_cons_dollar).
  rewrite (valid_no_comma _ Hs), (valid_no_comma _ Hd), (valid_no_comma _ Hca). cbn [orb].
  unfold plain_frags.
  rewrite pieces_step0 by (apply valid_no_dollar; exact Hca).
  rewrite pieces_last.
  2:{ apply valid_no_dollar; exact Ha. }
  2:{ destruct salt. discriminate Hls. discriminate. }
  unfold slen. rewrite Hcl, Hcd, app_length, Hls, Hl, Ha, Hcp. cbn [Nat.add].
  change (Z.of_nat 2 =? 2) with true. change (Z.of_nat 53 =? 53) with true. cbn [andb].
  rewrite (firstn_len_app salt sum 22 Hls), (skipn_len_app salt sum 22 Hls). reflexivity.
Qed.

Lemma bcrypt_params_canon cost salt sum :
  4 <= cost <= 31 -> length salt = 22%nat -> salt_ok salt -> length sum = 31%nat -> salt_ok sum ->
  params_bcrypt (canon_bcrypt cost salt sum) = POkP salt [cost] m_bcrypt_Prefix2b false.
Proof.
  intros Hc Hls Hs Hl Hd. apply pview_some. rewrite params_bcrypt_recognised, recog_bcrypt_canon by assumption.
  reflexivity.
Qed.

Lemma bcrypt_check_canon L kdf pw cost salt key :
  (forall bs ns k, kdf T_bcrypt bs ns = Some k -> length k = 23%nat) ->
  4 <= cost <= 31 -> length salt = 22%nat -> salt_ok salt ->
  key_bcrypt L kdf pw salt cost (Some m_bcrypt_Prefix2b) = KOk key -> wf_bytes key = true ->
  check_bcrypt L kdf (canon_bcrypt cost salt (be64_encode bcrypt_std_alphabet key)) pw = VMatch.
Proof.
  intros Hk Hc Hls Hs Hkey Hw. apply class_of_0. rewrite (bcrypt_classified L kdf _ pw Hk). unfold spec_bcrypt.
  rewrite recog_bcrypt_canon;
    [|exact Hc|exact Hls|exact Hs|apply be64_23; eapply key_bcrypt_len; eauto
     |apply bcrypt_valid, be64_over; [reflexivity|exact Hw]].
  cbn [mk_r r_salt r_sum num0 r_nums nth r_prefix]. rewrite Hkey. apply class_key_ok.
Qed.

Lemma bcrypt_prefix rest : prefix_of (m_bcrypt_Prefix2b ++ rest) = Some m_bcrypt_Prefix2b.
Proof. reflexivity. Qed.

(* Key with the $2b$ prefix: the password rewriting never produces an empty Blowfish key (a NUL is appended) *)
Lemma key_bcrypt_2b kdf pw salt cost :
  length salt = 22%nat -> salt_ok salt -> L_bcrypt_MinCost L0 <= cost <= L_bcrypt_MaxCost L0 ->
  exists k, key_bcrypt L0 kdf pw salt cost (Some m_bcrypt_Prefix2b) = run_kdf kdf T_bcrypt [k; salt] [cost].
Proof.
  intros Hls Hs Hc. unfold key_bcrypt. cbv zeta.
  change (bytes_eqb m_bcrypt_Prefix2b m_bcrypt_Prefix2) with false.
  change (bytes_eqb m_bcrypt_Prefix2b m_bcrypt_Prefix2a) with false.
  change (bytes_eqb m_bcrypt_Prefix2b m_bcrypt_Prefix2b) with true. cbn [orb negb andb].
  unfold len. rewrite Hls. change (negb (Z.of_nat 22 =? L_bcrypt_Salt L0)) with false. cbv iota.
  unfold first_bad_hash. rewrite (in_alpha_fi_none _ _ Hs).
  destruct (cost <? L_bcrypt_MinCost L0) eqn:E1. apply Z.ltb_lt in E1. lia.
  destruct (L_bcrypt_MaxCost L0 <? cost) eqn:E2. apply Z.ltb_lt in E2. lia. cbn [orb].
  match goal with |- context [?p ++ [0]] => set (pw' := p) end.
  destruct (pw' ++ [0]) as [|a r] eqn:E.
  - apply app_eq_nil in E. destruct E as [_ E]. discriminate E.
  - exists (a :: r). reflexivity.
Qed.

Section BCRYPT.
Variables (kdf : kdf_t) (stream pw : bytes) (cost : Z).
Hypothesis Hk : kdf_ok kdf T_bcrypt 23.
Hypothesis Hs : good_stream stream 16.
Hypothesis Hc : L_bcrypt_MinCost L0 <= cost <= L_bcrypt_MaxCost L0.
Let salt := be64_encode bcrypt_std_alphabet (firstn 16 stream).

Lemma bcrypt_cost_range : 4 <= cost <= 31.
Proof. exact Hc. Qed.

Lemma bcrypt_salt_length : length salt = 22%nat.
Proof.
  unfold salt. rewrite be64_length, firstn_length_le by (destruct Hs; assumption). reflexivity.
Qed.

Lemma bcrypt_salt_over : over bcrypt_std_alphabet salt.
Proof. apply be64_over. reflexivity. apply wf_bytes_firstn. destruct Hs; assumption. Qed.

Lemma bcrypt_fresh_facts :
  exists key, key_bcrypt L0 kdf pw salt cost (Some m_bcrypt_Prefix2b) = KOk key /\ length key = 23%nat /\
              wf_bytes key = true /\ salt_ok salt /\
              newhash_bcrypt L0 kdf stream pw cost =
              NOk (canon_bcrypt cost salt (be64_encode bcrypt_std_alphabet key)).
Proof.
  pose proof bcrypt_salt_length as Hls.
  assert (salt_ok salt) as Hsalt by (apply bcrypt_valid, bcrypt_salt_over).
  destruct (key_bcrypt_2b kdf pw salt cost Hls Hsalt Hc) as (k & Ekey).
  destruct (kdf_ok_run kdf T_bcrypt 23 [k; salt] [cost] Hk) as (key & Er & Hl & Hw).
  assert (key_bcrypt L0 kdf pw salt cost (Some m_bcrypt_Prefix2b) = KOk key) as Ek by (rewrite Ekey; exact Er).
  exists key. repeat (split; [assumption|]).
  unfold newhash_bcrypt. cbv zeta. fold salt. rewrite Ek.
  rewrite fit0_exact by (apply be64_23, Hl).
  apply marshal_bcrypt; [exact Hc|exact Hls|exact Hsalt|apply be64_23, Hl
                        |apply bcrypt_valid, be64_over; [reflexivity|exact Hw]].
Qed.

Theorem bcrypt_canonical :
  exists key, key_bcrypt L0 kdf pw (be64_encode bcrypt_std_alphabet (firstn 16 stream)) cost (Some m_bcrypt_Prefix2b) = KOk key /\
    newhash_bcrypt L0 kdf stream pw cost =
      NOk (canon_bcrypt cost (be64_encode bcrypt_std_alphabet (firstn 16 stream)) (be64_encode bcrypt_std_alphabet key)) /\
    len (be64_encode bcrypt_std_alphabet (firstn 16 stream)) = m_bcrypt_SaltLength /\
    over bcrypt_std_alphabet (be64_encode bcrypt_std_alphabet (firstn 16 stream)) /\
    len (be64_encode bcrypt_std_alphabet key) = m_bcrypt_sumLength /\
    over bcrypt_std_alphabet (be64_encode bcrypt_std_alphabet key) /\
    length (cost_text cost) = 2%nat /\ is_digits (cost_text cost) = true.
Proof.
  destruct bcrypt_fresh_facts as (key & Ek & Hl & Hw & Hsalt & En). exists key.
  split. exact Ek. split. exact En.
  split. unfold len. fold salt. rewrite bcrypt_salt_length. reflexivity.
  split. apply bcrypt_salt_over.
  split. unfold len. rewrite (be64_23 _ key Hl). reflexivity.
  split. apply be64_over. reflexivity. exact Hw.
  destruct (cost_text_facts cost Hc) as (A & B & _). auto.
Qed.

Theorem bcrypt_fresh_verifies :
  exists h, newhash_bcrypt L0 kdf stream pw cost = NOk h /\ check_bcrypt L0 kdf h pw = VMatch /\
            prefix_of h = Some m_bcrypt_Prefix2b /\ In (m_bcrypt_Prefix2b, S_bcrypt) documented_registrations.
Proof.
  destruct bcrypt_fresh_facts as (key & Ek & Hl & Hw & Hsalt & En).
  exists (canon_bcrypt cost salt (be64_encode bcrypt_std_alphabet key)). split. exact En.
  split. apply bcrypt_check_canon; auto using bcrypt_salt_length. apply (kdf_ok_len _ _ _ Hk).
  split. apply bcrypt_prefix. cbn. tauto.
Qed.

Theorem bcrypt_params_of_fresh : forall h,
  newhash_bcrypt L0 kdf stream pw cost = NOk h ->
  params_bcrypt h = POkP (be64_encode bcrypt_std_alphabet (firstn 16 stream)) [cost] m_bcrypt_Prefix2b false.
Proof.
  intros h Eh. destruct bcrypt_fresh_facts as (key & Ek & Hl & Hw & Hsalt & En).
  rewrite En in Eh. injection Eh as <-.
  apply bcrypt_params_canon; [exact Hc|apply bcrypt_salt_length|exact Hsalt|apply be64_23, Hl
                             |apply bcrypt_valid, be64_over; [reflexivity|exact Hw]].
Qed.

Theorem bcrypt_reassemble : forall h s c pf key,
  newhash_bcrypt L0 kdf stream pw cost = NOk h -> params_bcrypt h = POkP s [c] pf false ->
  key_bcrypt L0 kdf pw s c (Some pf) = KOk key ->
  pf = m_bcrypt_Prefix2b /\ h = canon_bcrypt c s (be64_encode bcrypt_std_alphabet key).
Proof.
  intros h s c pf key Eh Ep Ek. pose proof (bcrypt_params_of_fresh h Eh) as Ep'. rewrite Ep in Ep'.
  injection Ep' as -> -> ->.
  destruct bcrypt_fresh_facts as (key' & Ek' & _ & _ & _ & En). fold salt in Ek. rewrite Ek in Ek'. injection Ek' as <-.
  rewrite En in Eh. injection Eh as <-. split; reflexivity.
Qed.
End BCRYPT.


(* ================================================================== sunmd5 *)
Definition sunmd5_prefix_for (rounds : Z) : bytes :=
  if rounds =? 0 then m_sunmd5_PrefixZeroRounds else m_sunmd5_PrefixNonZeroRounds.
Definition canon_sunmd5 (rounds : Z) (salt sum : bytes) : bytes :=
  sunmd5_prefix_for rounds ++ k_rounds ++ FormatUint rounds 10 ++ dollar :: salt ++
  (if rounds =? 0 then [dollar] else [dollar; dollar]) ++ sum.

Lemma marshal_sunmd5_zero salt sum :
  salt <> [] -> salt_ok salt -> length sum = 22%nat -> salt_ok sum ->
  marshal_n m_layout_sunmd5
      [([0%nat; 0%nat], VStr m_sunmd5_PrefixZeroRounds); ([0%nat; 1%nat], VUint 0); ([0%nat; 2%nat], VBytes salt);
       ([0%nat; 3%nat], VNil); ([1%nat], VArr sum)]
  = NOk (canon_sunmd5 0 salt sum).
Proof.
  intros Hne Hs Hl Hd. destruct salt as [|c salt]. contradiction. apply in_alpha_fi_none in Hs, Hd.
  pose proof (in_alpha_fi_none _ _ (FormatUint10_alpha 0 ltac:(lia))) as Hf.
  marshal_eval ti_sunmd5 TI_sunmd5. unfold canon_sunmd5, sunmd5_prefix_for. cbn. rewrite <- !app_assoc. reflexivity.
Qed.

Lemma marshal_sunmd5_nz rounds salt sum :
  0 < rounds -> salt <> [] -> salt_ok salt -> length sum = 22%nat -> salt_ok sum ->
  marshal_n m_layout_sunmd5
      [([0%nat; 0%nat], VStr m_sunmd5_PrefixNonZeroRounds); ([0%nat; 1%nat], VUint rounds);
       ([0%nat; 2%nat], VBytes salt); ([0%nat; 3%nat], VStr []); ([1%nat], VArr sum)]
  = NOk (canon_sunmd5 rounds salt sum).
Proof.
  intros Hr Hne Hs Hl Hd. destruct salt as [|c salt]. contradiction. apply in_alpha_fi_none in Hs, Hd.
  pose proof (in_alpha_fi_none _ _ (FormatUint10_alpha rounds ltac:(lia))) as Hf.
  assert (first_invalid EncHash [] = None) as Hnil by reflexivity.
  marshal_eval ti_sunmd5 TI_sunmd5. unfold canon_sunmd5, sunmd5_prefix_for.
  destruct (rounds =? 0) eqn:E1. apply Z.eqb_eq in E1. lia.
  cbn. rewrite <- !app_assoc. reflexivity.
Qed.

Lemma recog_sunmd5_canon rounds salt sum :
  0 <= rounds < 2 ^ 32 -> salt_ok salt -> length sum = 22%nat -> salt_ok sum ->
  recog_sunmd5 (canon_sunmd5 rounds salt sum) =
  Some (mk_r salt [rounds] (sunmd5_prefix_for rounds) (rounds =? 0) sum).
Proof.
  intros Hr Hs Hl Hd. unfold recog_sunmd5, canon_sunmd5, sunmd5_prefix_for.
  pose proof (FormatUint10_alpha rounds ltac:(lia)) as Hf.
  assert (no_dollar (k_rounds ++ FormatUint rounds 10)) as Hnd.
  { apply no_dollar_app. split. reflexivity. apply valid_no_dollar, Hf. }
  destruct (rounds =? 0) eqn:E0.
  - change (has_prefix p_sunmd5_c (m_sunmd5_PrefixZeroRounds ++ ?x)) with false. cbv iota.
    change p_sunmd5_d with m_sunmd5_PrefixZeroRounds. rewrite has_prefix_app.
    unfold recog_sunmd5_body. rewrite (skipn_len_app m_sunmd5_PrefixZeroRounds _ 5 eq_refl). cbv zeta.
    rewrite (app_assoc k_rounds).
    repeat (rewrite has_comma_app || rewrite has_comma_cons_dollar).
    rewrite (valid_no_comma _ Hs), (valid_no_comma _ Hd), (valid_no_comma _ Hf).
    change (has_comma k_rounds) with false. change (has_comma [dollar]) with false. cbn [orb].
    unfold plain_frags. rewrite pieces_step0 by exact Hnd.
    cbn [app]. rewrite pieces_step0 by (apply valid_no_dollar; exact Hs).
    rewrite pieces_last by (try (apply valid_no_dollar; exact Hd); eapply length_nonnil; exact Hl).
    rewrite has_prefix_app. change 7%nat with (length k_rounds). rewrite skipn_app_exact.
    rewrite Hf, ParseUint_FormatUint32 by lia. cbn [andb].
    unfold salt_sum_ok, slen. rewrite Hs, Hd, Hl. reflexivity.
  - change p_sunmd5_c with m_sunmd5_PrefixNonZeroRounds. rewrite has_prefix_app.
    unfold recog_sunmd5_body. rewrite (skipn_len_app m_sunmd5_PrefixNonZeroRounds _ 5 eq_refl). cbv zeta.
    rewrite (app_assoc k_rounds).
    repeat (rewrite has_comma_app || rewrite has_comma_cons_dollar).
    rewrite (valid_no_comma _ Hs), (valid_no_comma _ Hd), (valid_no_comma _ Hf).
    change (has_comma k_rounds) with false. change (has_comma [dollar; dollar]) with false. cbn [orb].
    unfold plain_frags. rewrite pieces_step0 by exact Hnd.
    cbn [app]. rewrite pieces_step0 by (apply valid_no_dollar; exact Hs).
    change (pieces dollar [] (dollar :: sum)) with ([] :: pieces dollar [] sum).
    rewrite pieces_last by (try (apply valid_no_dollar; exact Hd); eapply length_nonnil; exact Hl).
    rewrite has_prefix_app. change 7%nat with (length k_rounds). rewrite skipn_app_exact.
    rewrite Hf, ParseUint_FormatUint32 by lia. cbn [andb nil_b].
    unfold salt_sum_ok, slen. rewrite Hs, Hd, Hl. reflexivity.
Qed.

Lemma sunmd5_params_canon rounds salt sum :
  0 <= rounds < 2 ^ 32 -> salt_ok salt -> length sum = 22%nat -> salt_ok sum ->
  params_sunmd5 (canon_sunmd5 rounds salt sum) = POkP salt [rounds] (sunmd5_prefix_for rounds) (rounds =? 0).
Proof.
  intros Hr Hs Hl Hd. apply pview_some. rewrite params_sunmd5_recognised, recog_sunmd5_canon by assumption.
  reflexivity.
Qed.

Lemma sunmd5_check_canon L kdf pw rounds salt key :
  (forall bs ns k, kdf T_sunmd5 bs ns = Some k -> length k = 16%nat) ->
  0 <= rounds < 2 ^ 32 -> salt_ok salt ->
  key_sunmd5 L kdf pw salt rounds (Some (sunmd5_prefix_for rounds, rounds =? 0)) = KOk key -> wf_bytes key = true ->
  check_sunmd5 L kdf (canon_sunmd5 rounds salt (le64 key)) pw = VMatch.
Proof.
  intros Hk Hr Hs Hkey Hw. apply class_of_0. rewrite (sunmd5_classified L kdf _ pw Hk). unfold spec_sunmd5.
  rewrite recog_sunmd5_canon;
    [|exact Hr|exact Hs|apply le64_16; eapply key_sunmd5_len; eauto|apply crypt_valid, le64_over, Hw].
  cbn [mk_r r_salt r_sum num0 r_nums nth r_prefix r_flag]. rewrite Hkey. apply class_key_ok.
Qed.

Lemma sunmd5_prefix rounds rest : prefix_of (sunmd5_prefix_for rounds ++ rest) = Some (sunmd5_prefix_for rounds).
Proof. unfold sunmd5_prefix_for. destruct (rounds =? 0); reflexivity. Qed.

Lemma sunmd5_registered rounds : In (sunmd5_prefix_for rounds, S_sunmd5) documented_registrations.
Proof. unfold sunmd5_prefix_for. destruct (rounds =? 0); cbn; tauto. Qed.

Section SUNMD5.
Variables (kdf : kdf_t) (stream pw : bytes) (rounds : Z).
Hypothesis Hk : kdf_ok kdf T_sunmd5 16.
Hypothesis Hs : good_stream stream 8.
Hypothesis Hpw : len pw <= L_sunmd5_MaxPw L0.
Hypothesis Hr : 0 <= rounds <= L_sunmd5_MaxRounds L0.
Let salt := salt_hash 8 stream.

Lemma sunmd5_rounds32 : 0 <= rounds < 2 ^ 32.
Proof. change (L_sunmd5_MaxRounds L0) with 4294963199 in Hr. change (2 ^ 32) with 4294967296. lia. Qed.

Lemma newhash_sunmd5_opts :
  newhash_sunmd5 L0 kdf stream pw rounds =
  match key_sunmd5 L0 kdf pw salt rounds (Some (sunmd5_prefix_for rounds, rounds =? 0)) with
  | KErr e => NKeyErr e
  | KOk key => marshal_n m_layout_sunmd5
      [([0%nat; 0%nat], VStr (sunmd5_prefix_for rounds)); ([0%nat; 1%nat], VUint rounds); ([0%nat; 2%nat], VBytes salt);
       ([0%nat; 3%nat], if rounds =? 0 then VNil else VStr []); ([1%nat], VArr (fit0 22 (le64 key)))]
  end.
Proof. reflexivity. Qed.

Lemma sunmd5_fresh_facts :
  exists key, key_sunmd5 L0 kdf pw salt rounds (Some (sunmd5_prefix_for rounds, rounds =? 0)) = KOk key /\
              length key = 16%nat /\ wf_bytes key = true /\ salt_ok salt /\
              newhash_sunmd5 L0 kdf stream pw rounds = NOk (canon_sunmd5 rounds salt (le64 key)).
Proof.
  assert (salt_ok salt) as Hsalt by (apply crypt_valid, salt_hash_over, Hs).
  assert (length salt = 8%nat) as Hls by (apply salt_hash_length, Hs).
  assert (key_sunmd5 L0 kdf pw salt rounds (Some (sunmd5_prefix_for rounds, rounds =? 0)) =
          run_kdf kdf T_sunmd5 [pw; salt; sunmd5_prefix_for rounds] [rounds; if rounds =? 0 then 1 else 0]) as Ekey.
  { unfold key_sunmd5, first_bad_hash. rewrite (in_alpha_fi_none _ _ Hsalt).
    destruct (L_sunmd5_MaxPw L0 <? len pw) eqn:E1. apply Z.ltb_lt in E1. lia.
    unfold len at 1. rewrite Hls. change (L_sunmd5_MaxSalt L0 <? Z.of_nat 8) with false. cbv iota.
    destruct (L_sunmd5_MaxRounds L0 <? rounds) eqn:E2. apply Z.ltb_lt in E2. lia.
    unfold sunmd5_prefix_for. destruct (rounds =? 0); reflexivity. }
  destruct (kdf_ok_run kdf T_sunmd5 16 [pw; salt; sunmd5_prefix_for rounds] [rounds; if rounds =? 0 then 1 else 0] Hk)
    as (key & Er & Hl & Hw).
  assert (key_sunmd5 L0 kdf pw salt rounds (Some (sunmd5_prefix_for rounds, rounds =? 0)) = KOk key) as Ek
    by (rewrite Ekey; exact Er).
  exists key. repeat (split; [assumption|]).
  rewrite newhash_sunmd5_opts, Ek.
  rewrite fit0_exact by (apply le64_16, Hl).
  assert (salt <> []) as Hne by (eapply length_nonnil; exact Hls).
  unfold sunmd5_prefix_for. destruct (rounds =? 0) eqn:E0.
  - apply Z.eqb_eq in E0. rewrite E0.
    apply marshal_sunmd5_zero; [exact Hne|exact Hsalt|apply le64_16, Hl|apply crypt_valid, le64_over, Hw].
  - apply Z.eqb_neq in E0.
    apply marshal_sunmd5_nz; [lia|exact Hne|exact Hsalt|apply le64_16, Hl|apply crypt_valid, le64_over, Hw].
Qed.

Theorem sunmd5_canonical :
  exists key, key_sunmd5 L0 kdf pw (salt_hash 8 stream) rounds (Some (sunmd5_prefix_for rounds, rounds =? 0)) = KOk key /\
    newhash_sunmd5 L0 kdf stream pw rounds = NOk (canon_sunmd5 rounds (salt_hash 8 stream) (le64 key)) /\
    len (salt_hash 8 stream) = m_sunmd5_DefaultSaltLength /\ over crypt_alphabet (salt_hash 8 stream) /\
    len (le64 key) = m_sunmd5_sumLength /\ over crypt_alphabet (le64 key).
Proof.
  destruct sunmd5_fresh_facts as (key & Ek & Hl & Hw & Hsalt & En). exists key.
  split. exact Ek. split. exact En.
  split. unfold len. rewrite (salt_hash_length 8 stream Hs). reflexivity.
  split. apply salt_hash_over, Hs.
  split. unfold len. rewrite (le64_16 key Hl). reflexivity.
  apply le64_over, Hw.
Qed.

Theorem sunmd5_fresh_verifies :
  exists h, newhash_sunmd5 L0 kdf stream pw rounds = NOk h /\ check_sunmd5 L0 kdf h pw = VMatch /\
            prefix_of h = Some (sunmd5_prefix_for rounds) /\
            In (sunmd5_prefix_for rounds, S_sunmd5) documented_registrations.
Proof.
  destruct sunmd5_fresh_facts as (key & Ek & Hl & Hw & Hsalt & En).
  exists (canon_sunmd5 rounds salt (le64 key)). split. exact En.
  split. apply sunmd5_check_canon; auto using sunmd5_rounds32. apply (kdf_ok_len _ _ _ Hk).
  split. apply sunmd5_prefix. apply sunmd5_registered.
Qed.

Theorem sunmd5_params_of_fresh : forall h,
  newhash_sunmd5 L0 kdf stream pw rounds = NOk h ->
  params_sunmd5 h = POkP (salt_hash 8 stream) [rounds] (sunmd5_prefix_for rounds) (rounds =? 0).
Proof.
  intros h Eh. destruct sunmd5_fresh_facts as (key & Ek & Hl & Hw & Hsalt & En).
  rewrite En in Eh. injection Eh as <-.
  apply sunmd5_params_canon; [apply sunmd5_rounds32|exact Hsalt|apply le64_16, Hl|apply crypt_valid, le64_over, Hw].
Qed.

Theorem sunmd5_reassemble : forall h s r pf fl key,
  newhash_sunmd5 L0 kdf stream pw rounds = NOk h -> params_sunmd5 h = POkP s [r] pf fl ->
  key_sunmd5 L0 kdf pw s r (Some (pf, fl)) = KOk key ->
  pf = sunmd5_prefix_for r /\ fl = (r =? 0) /\ h = canon_sunmd5 r s (le64 key).
Proof.
  intros h s r pf fl key Eh Ep Ek. pose proof (sunmd5_params_of_fresh h Eh) as Ep'. rewrite Ep in Ep'.
  injection Ep' as -> -> -> ->.
  destruct sunmd5_fresh_facts as (key' & Ek' & _ & _ & _ & En). fold salt in Ek. rewrite Ek in Ek'. injection Ek' as <-.
  rewrite En in Eh. injection Eh as <-. repeat split; reflexivity.
Qed.
End SUNMD5.

(* ================================================================== argon2 *)
Definition k_m : bytes := [109; 61].      (* "m=" *)
Definition k_t : bytes := [116; 61].      (* "t=" *)
Definition k_p : bytes := [112; 61].      (* "p=" *)
Definition canon_argon2 (memory time : Z) (salt sum : bytes) : bytes :=
  m_argon2_Prefix2id ++ k_v ++ FormatUint m_argon2_Version13 10 ++ dollar ::
  k_m ++ FormatUint memory 10 ++ comma :: k_t ++ FormatUint time 10 ++ comma :: k_p ++ FormatUint m_argon2_DefaultThreads 10
  ++ dollar :: salt ++ dollar :: sum.

Local Notation b64_ok s := (in_alpha EncBase64 s = true).

Lemma marshal_argon2 memory time salt sum :
  0 < memory -> 0 < time -> b64_ok salt -> b64_ok sum ->
  marshal_n m_layout_argon2
      [([0%nat], VStr m_argon2_Prefix2id); ([1%nat], VUint m_argon2_Version13); ([2%nat], VUint memory);
       ([3%nat], VUint time); ([4%nat], VUint m_argon2_DefaultThreads); ([5%nat], VBytes salt); ([6%nat], VBytes sum)]
  = NOk (canon_argon2 memory time salt sum).
Proof.
  intros Hm Ht Hs Hd. apply in_alpha_fi_none in Hs, Hd.
  pose proof (in_alpha_fi_none _ _ (FormatUint10_alpha memory ltac:(lia))) as Hfm.
  pose proof (in_alpha_fi_none _ _ (FormatUint10_alpha time ltac:(lia))) as Hft.
  unfold canon_argon2.
  change m_argon2_Version13 with 19. change m_argon2_DefaultThreads with 1.
  assert (first_invalid EncHash (FormatUint 19 10) = None) as Hfv by reflexivity.
  assert (first_invalid EncHash (FormatUint 1 10) = None) as Hfp by reflexivity.
  marshal_eval ti_argon2 TI_argon2. cbn. repeat (rewrite <- !app_assoc; cbn). reflexivity.
Qed.

(* strings.Split on ',' *)
Lemma split_on_step : forall a cur rest, has_comma a = false ->
  split_on comma cur (a ++ comma :: rest) = (rev cur ++ a) :: split_on comma [] rest.
Proof.
  induction a as [|c a IH]; intros cur rest H.
  - cbn [app split_on]. rewrite Z.eqb_refl, app_nil_r. reflexivity.
  - cbn [has_comma existsb] in H. apply orb_false_iff in H. destruct H as [Hc Ha]. cbn [app split_on].
    rewrite Hc. rewrite IH by exact Ha. cbn [rev]. rewrite <- app_assoc. reflexivity.
Qed.

Lemma split_on_last : forall a cur, has_comma a = false -> split_on comma cur a = [rev cur ++ a].
Proof.
  induction a as [|c a IH]; intros cur H.
  - cbn [split_on]. rewrite app_nil_r. reflexivity.
  - cbn [has_comma existsb] in H. apply orb_false_iff in H. destruct H as [Hc Ha]. cbn [split_on].
    rewrite Hc. rewrite IH by exact Ha. cbn [rev]. rewrite <- app_assoc. reflexivity.
Qed.

Lemma member_num_m r v : salt_ok r -> ParseUint r 10 32 = inl v -> member_num (k_m ++ r) = Some (109, v).
Proof.
  intros Ha Hp. unfold member_num, member_kv, k_m. cbn [app].
  change ((61 =? equals) && negb (109 =? equals)) with true. cbv iota.
  change ((109 =? 109) || (109 =? 116) || (109 =? 112)) with true. rewrite Ha. cbn [andb].
  change (if 109 =? 112 then 8 else 32) with 32. rewrite Hp. reflexivity.
Qed.
Lemma member_num_t r v : salt_ok r -> ParseUint r 10 32 = inl v -> member_num (k_t ++ r) = Some (116, v).
Proof.
  intros Ha Hp. unfold member_num, member_kv, k_t. cbn [app].
  change ((61 =? equals) && negb (116 =? equals)) with true. cbv iota.
  change ((116 =? 109) || (116 =? 116) || (116 =? 112)) with true. rewrite Ha. cbn [andb].
  change (if 116 =? 112 then 8 else 32) with 32. rewrite Hp. reflexivity.
Qed.

Lemma no_dollar_params fm ft :
  no_dollar fm -> no_dollar ft -> no_dollar (k_m ++ fm ++ comma :: k_t ++ ft ++ comma :: k_p ++ FormatUint 1 10).
Proof.
  intros H1 H2. repeat (apply no_dollar_app; split); try assumption; try reflexivity.
  all: change (comma :: ?x) with ([comma] ++ x); repeat (apply no_dollar_app; split); try assumption; reflexivity.
Qed.

Lemma recog_argon2_canon memory time salt sum :
  0 <= memory < 2 ^ 32 -> 0 <= time < 2 ^ 32 -> over base64_std_alphabet salt -> over base64_std_alphabet sum -> sum <> [] ->
  recog_argon2 (canon_argon2 memory time salt sum) =
  Some (mk_r salt [memory; time; m_argon2_DefaultThreads; m_argon2_Version13] m_argon2_Prefix2id false sum).
Proof.
  intros Hm Ht Hs Hd Hne. unfold recog_argon2, canon_argon2.
  change p_argon2id with m_argon2_Prefix2id. rewrite has_prefix_app.
  unfold recog_argon2_body. rewrite skipn_app_exact.
  change m_argon2_Version13 with 19. change m_argon2_DefaultThreads with 1.
  pose proof (FormatUint10_alpha memory ltac:(lia)) as Hfm.
  pose proof (FormatUint10_alpha time ltac:(lia)) as Hft.
  destruct (std_no_delims _ Hs) as [Hsd Hsc]. destruct (std_no_delims _ Hd) as [Hdd Hdc].
  rewrite (app_assoc k_v).
  rewrite pieces_step0 by reflexivity.
  replace (k_m ++ FormatUint memory 10 ++ comma :: k_t ++ FormatUint time 10 ++ comma :: k_p ++ FormatUint 1 10 ++
           dollar :: salt ++ dollar :: sum)
    with ((k_m ++ FormatUint memory 10 ++ comma :: k_t ++ FormatUint time 10 ++ comma :: k_p ++ FormatUint 1 10) ++
           dollar :: salt ++ dollar :: sum)
    by (rewrite <- !app_assoc; cbn [app]; rewrite <- !app_assoc; cbn [app]; rewrite <- !app_assoc; reflexivity).
  rewrite pieces_step0 by (apply no_dollar_params; apply valid_no_dollar; assumption).
  rewrite pieces_step0 by exact Hsd.
  rewrite pieces_last by assumption.
  change (has_prefix k_v (k_v ++ FormatUint 19 10) && negb (has_comma (k_v ++ FormatUint 19 10)) &&
          in_alpha EncHash (skipn 2 (k_v ++ FormatUint 19 10))) with true. cbv iota.
  change (ParseUint (skipn 2 (k_v ++ FormatUint 19 10)) 10 8) with (@inl Z perr 19). cbv iota.
  change (if 19 =? 0 then 16 else 19) with 19.
  unfold recog_argon2_rest.
  rewrite (app_assoc k_m), split_on_step
    by (rewrite has_comma_app; rewrite (valid_no_comma _ Hfm); reflexivity).
  rewrite (app_assoc k_t), split_on_step
    by (rewrite has_comma_app; rewrite (valid_no_comma _ Hft); reflexivity).
  rewrite split_on_last by reflexivity. cbn [rev app].
  rewrite (member_num_m _ memory Hfm) by (apply ParseUint_FormatUint32; exact Hm).
  rewrite (member_num_t _ time Hft) by (apply ParseUint_FormatUint32; exact Ht).
  change (member_num (k_p ++ FormatUint 1 10)) with (Some (112, 1)). cbv iota.
  rewrite Hsc, Hdc, (std_valid _ Hs), (std_valid _ Hd).
  reflexivity.
Qed.

Lemma argon2_check_canon L kdf pw memory time salt key :
  0 <= memory < 2 ^ 32 -> 0 <= time < 2 ^ 32 -> over base64_std_alphabet salt ->
  key_argon2 L kdf pw salt memory time m_argon2_DefaultThreads (Some (m_argon2_Prefix2id, m_argon2_Version13)) = KOk key ->
  wf_bytes key = true -> key <> [] ->
  check_argon2 L kdf (canon_argon2 memory time salt (be64_encode base64_std_alphabet key)) pw = VMatch.
Proof.
  intros Hm Ht Hs Hkey Hw Hne. apply class_of_0. rewrite (argon2_classified L kdf _ pw). unfold spec_argon2.
  rewrite recog_argon2_canon; [|exact Hm|exact Ht|exact Hs|apply be64_over; [reflexivity|exact Hw]|].
  - cbn [mk_r r_salt r_sum r_nums nth r_prefix]. apply class_key_0. exists key. split. exact Hkey. reflexivity.
  - destruct key as [|a [|b [|c r]]]; try contradiction; discriminate.
Qed.

Lemma argon2_prefix rest : prefix_of (m_argon2_Prefix2id ++ rest) = Some m_argon2_Prefix2id.
Proof. reflexivity. Qed.

Section ARGON2.
Variables (kdf : kdf_t) (stream pw : bytes) (memory time : Z).
Hypothesis Hk : kdf_ok kdf T_argon2 32.
Hypothesis Hs : good_stream stream 8.
Hypothesis Hm : L_argon2_MinMemory L0 <= memory < 2 ^ 32.
Hypothesis Ht : L_argon2_MinTime L0 <= time < 2 ^ 32.
Let salt := be64_encode base64_std_alphabet (firstn 8 stream).

Lemma argon2_salt_length : length salt = 11%nat.
Proof. unfold salt. rewrite be64_length, firstn_length_le by (destruct Hs; assumption). reflexivity. Qed.

Lemma argon2_salt_over : over base64_std_alphabet salt.
Proof. apply be64_over. reflexivity. apply wf_bytes_firstn. destruct Hs; assumption. Qed.

Lemma argon2_mem32 : 0 <= memory < 2 ^ 32.
Proof. change (L_argon2_MinMemory L0) with 8 in Hm. lia. Qed.
Lemma argon2_time32 : 0 <= time < 2 ^ 32.
Proof. change (L_argon2_MinTime L0) with 1 in Ht. lia. Qed.

Lemma argon2_fresh_facts :
  exists key, key_argon2 L0 kdf pw salt memory time m_argon2_DefaultThreads
                         (Some (m_argon2_Prefix2id, m_argon2_Version13)) = KOk key /\
              length key = 32%nat /\ wf_bytes key = true /\
              newhash_argon2 L0 kdf stream pw memory time =
              NOk (canon_argon2 memory time salt (be64_encode base64_std_alphabet key)).
Proof.
  pose proof argon2_salt_length as Hls. pose proof argon2_salt_over as Hso.
  pose proof argon2_mem32 as Hm32. pose proof argon2_time32 as Ht32.
  assert (key_argon2 L0 kdf pw salt memory time m_argon2_DefaultThreads (Some (m_argon2_Prefix2id, m_argon2_Version13)) =
          run_kdf kdf T_argon2 [pw; salt; m_argon2_Prefix2id] [m_argon2_Version13; memory; time; m_argon2_DefaultThreads])
    as Ekey.
  { unfold key_argon2.
    change (negb (bytes_eqb m_argon2_Prefix2id m_argon2_Prefix2d || bytes_eqb m_argon2_Prefix2id m_argon2_Prefix2i
                  || bytes_eqb m_argon2_Prefix2id m_argon2_Prefix2id)) with false. cbv iota.
    change (negb ((m_argon2_Version13 =? m_argon2_Version10) || (m_argon2_Version13 =? m_argon2_Version13))) with false.
    cbv iota. unfold len. rewrite Hls. change (Z.of_nat 11 <? L_argon2_MinSalt L0) with false. cbv iota.
    unfold first_bad_b64. rewrite (in_alpha_fi_none _ _ (std_valid _ Hso)).
    destruct (memory <? L_argon2_MinMemory L0) eqn:E1. apply Z.ltb_lt in E1. lia.
    destruct (time <? L_argon2_MinTime L0) eqn:E2. apply Z.ltb_lt in E2. lia.
    change (m_argon2_DefaultThreads <? L_argon2_MinThreads L0) with false. reflexivity. }
  destruct (kdf_ok_run kdf T_argon2 32 [pw; salt; m_argon2_Prefix2id]
                       [m_argon2_Version13; memory; time; m_argon2_DefaultThreads] Hk) as (key & Er & Hl & Hw).
  assert (key_argon2 L0 kdf pw salt memory time m_argon2_DefaultThreads (Some (m_argon2_Prefix2id, m_argon2_Version13))
          = KOk key) as Ek by (rewrite Ekey; exact Er).
  exists key. repeat (split; [assumption|]).
  unfold newhash_argon2. cbv zeta. fold salt. rewrite Ek.
  apply marshal_argon2.
  - change (L_argon2_MinMemory L0) with 8 in Hm. lia.
  - change (L_argon2_MinTime L0) with 1 in Ht. lia.
  - apply std_valid, Hso.
  - apply std_valid, be64_over. reflexivity. exact Hw.
Qed.

Theorem argon2_canonical :
  exists key, key_argon2 L0 kdf pw (be64_encode base64_std_alphabet (firstn 8 stream)) memory time m_argon2_DefaultThreads
                         (Some (m_argon2_Prefix2id, m_argon2_Version13)) = KOk key /\
    newhash_argon2 L0 kdf stream pw memory time =
      NOk (canon_argon2 memory time (be64_encode base64_std_alphabet (firstn 8 stream))
                        (be64_encode base64_std_alphabet key)) /\
    len (be64_encode base64_std_alphabet (firstn 8 stream)) = m_argon2_DefaultSaltLength /\
    over base64_std_alphabet (be64_encode base64_std_alphabet (firstn 8 stream)) /\
    length (be64_encode base64_std_alphabet key) = 43%nat /\
    over base64_std_alphabet (be64_encode base64_std_alphabet key).
Proof.
  destruct argon2_fresh_facts as (key & Ek & Hl & Hw & En). exists key.
  split. exact Ek. split. exact En.
  split. unfold len. fold salt. rewrite argon2_salt_length. reflexivity.
  split. apply argon2_salt_over.
  split. rewrite be64_length, Hl. reflexivity.
  apply be64_over. reflexivity. exact Hw.
Qed.

Theorem argon2_fresh_verifies :
  exists h, newhash_argon2 L0 kdf stream pw memory time = NOk h /\ check_argon2 L0 kdf h pw = VMatch /\
            prefix_of h = Some m_argon2_Prefix2id /\ In (m_argon2_Prefix2id, S_argon2) documented_registrations.
Proof.
  destruct argon2_fresh_facts as (key & Ek & Hl & Hw & En).
  exists (canon_argon2 memory time salt (be64_encode base64_std_alphabet key)). split. exact En.
  split. apply argon2_check_canon; auto using argon2_mem32, argon2_time32, argon2_salt_over.
  intros ->. discriminate Hl.
  split. apply argon2_prefix. cbn. tauto.
Qed.

(* argon2 has no Params theorem against the recogniser; the recogniser itself plays that part *)
Theorem argon2_recog_of_fresh : forall h,
  newhash_argon2 L0 kdf stream pw memory time = NOk h ->
  exists key, key_argon2 L0 kdf pw (be64_encode base64_std_alphabet (firstn 8 stream)) memory time m_argon2_DefaultThreads
                         (Some (m_argon2_Prefix2id, m_argon2_Version13)) = KOk key /\
  recog_argon2 h = Some (mk_r (be64_encode base64_std_alphabet (firstn 8 stream))
                              [memory; time; m_argon2_DefaultThreads; m_argon2_Version13] m_argon2_Prefix2id false
                              (be64_encode base64_std_alphabet key)).
Proof.
  intros h Eh. destruct argon2_fresh_facts as (key & Ek & Hl & Hw & En).
  rewrite En in Eh. injection Eh as <-. exists key. split. exact Ek.
  apply recog_argon2_canon; auto using argon2_mem32, argon2_time32, argon2_salt_over.
  apply be64_over. reflexivity. exact Hw.
  destruct key as [|a [|b [|c r]]]; discriminate.
Qed.

Theorem argon2_reassemble : forall h r key,
  newhash_argon2 L0 kdf stream pw memory time = NOk h -> recog_argon2 h = Some r ->
  key_argon2 L0 kdf pw (r_salt r) (nth 0 (r_nums r) 0) (nth 1 (r_nums r) 0) (nth 2 (r_nums r) 0)
             (Some (r_prefix r, nth 3 (r_nums r) 0)) = KOk key ->
  h = canon_argon2 (nth 0 (r_nums r) 0) (nth 1 (r_nums r) 0) (r_salt r) (be64_encode base64_std_alphabet key).
Proof.
  intros h r key Eh Er Ek. destruct (argon2_recog_of_fresh h Eh) as (key' & Ek' & Er'). rewrite Er in Er'.
  injection Er' as ->. cbn [mk_r r_salt r_nums r_prefix nth] in *.
  destruct argon2_fresh_facts as (key'' & Ek'' & _ & _ & En).
  assert (KOk key = KOk key'') as E by (rewrite <- Ek, <- Ek''; reflexivity). injection E as ->.
  rewrite En in Eh. injection Eh as <-. reflexivity.
Qed.
End ARGON2.

Print Assumptions bcrypt_fresh_verifies.
Print Assumptions bcrypt_canonical.
Print Assumptions bcrypt_params_of_fresh.
Print Assumptions bcrypt_reassemble.
Print Assumptions sunmd5_fresh_verifies.
Print Assumptions sunmd5_canonical.
Print Assumptions sunmd5_params_of_fresh.
Print Assumptions sunmd5_reassemble.
Print Assumptions argon2_fresh_verifies.
Print Assumptions argon2_canonical.
Print Assumptions argon2_recog_of_fresh.
Print Assumptions argon2_reassemble.
