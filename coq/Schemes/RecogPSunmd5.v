(* C06 classification of sunmd5: $md5$ / $md5, rounds=N, optional salt, optional empty separator, digest. *)
Require Import GC.Schemes.RecogPBase GC.Schemes.RecogPPlain.

Definition TI_sunmd5 : tinfo := Eval vm_compute in ti_or_dummy (type_info m_layout_sunmd5).
Lemma ti_sunmd5 : type_info m_layout_sunmd5 = Ok TI_sunmd5.
Proof. vm_compute. reflexivity. Qed.

Lemma parse_sunmd5_c body : parse (p_sunmd5_c ++ body) = POk (body_tree (Some p_sunmd5_c) 5 body).
Proof. rewrite parse_eq. reflexivity. Qed.
Lemma parse_sunmd5_d body : parse (p_sunmd5_d ++ body) = POk (body_tree (Some p_sunmd5_d) 5 body).
Proof. rewrite parse_eq. reflexivity. Qed.

Section B.
Variable L : limits.
Variable kdf : kdf_t.
Hypothesis Hk : forall bs ns k, kdf T_sunmd5 bs ns = Some k -> length k = 16%nat.

Lemma sunmd5_body pre body pw :
  parse (pre ++ body) = POk (body_tree (Some pre) 5 body) ->
  In pre [p_sunmd5_c; p_sunmd5_d] ->
  class_of (check_sunmd5 L kdf (pre ++ body) pw) =
  match recog_sunmd5_body pre (pre ++ body) with
  | None => 2%nat
  | Some r => class_key le64 (key_sunmd5 L kdf pw (r_salt r) (num0 r) (Some (r_prefix r, r_flag r))) (r_sum r)
  end.
Proof.
  intros HP Hin.
  unfold check_sunmd5, with_layout, unmarshal_top. rewrite HP, ti_sunmd5. unfold TI_sunmd5.
  cbn [bind]. unfold body_tree.
  unfold recog_sunmd5_body.
  replace (skipn 5 (pre ++ body)) with body by (destruct Hin as [<-|[<-|[]]]; reflexivity). cbv zeta.
  pose proof (sc_plain body [] 5 5) as HF. unfold plain_frags.
  destruct (sc [] 5 5 body None) as [|[[p1 t1]|g1] [|[[p2 t2]|g2] [|[[p3 t3]|g3] [|[[p4 t4]|g4] [|[[p5 t5]|g5] r]]]]];
    split_frags HF body.
  all: destruct Hin as [<-|[<-|[]]]; eval_prefix.
  all: unfold salt_sum_ok, slen, num0, k_rounds, sunmd5_opts; rewrite ?in_alpha_fi.
  all: try match goal with HF : [_; _; ?x; _] = _ |- _ => destruct x end.
  all: crunch. all: try reflexivity. all: try uint_alpha.
  all: arr_fix; apply finish_class; intros key Hkey; eapply le64_len; [eapply key_sunmd5_len; eauto | reflexivity].
Qed.

Theorem sunmd5_classified_ : forall h pw, class_of (check_sunmd5 L kdf h pw) = spec_sunmd5 L kdf h pw.
Proof.
  intros h pw. unfold spec_sunmd5, recog_sunmd5.
  destruct (has_prefix p_sunmd5_c h) eqn:Hc.
  { apply has_prefix_spec in Hc. destruct Hc as [body ->].
    apply (sunmd5_body p_sunmd5_c body pw (parse_sunmd5_c body)). cbn; auto. }
  destruct (has_prefix p_sunmd5_d h) eqn:Hd.
  { apply has_prefix_spec in Hd. destruct Hd as [body ->].
    apply (sunmd5_body p_sunmd5_d body pw (parse_sunmd5_d body)). cbn; auto. }
  unfold check_sunmd5.
  eapply foreign_prefix with (id := 19%nat); try exact ti_sunmd5; try reflexivity.
  intros q [<-|[<-|[]]]; assumption.
Qed.
End B.

Theorem sunmd5_classified : forall L kdf h pw,
  (forall bs ns k, kdf T_sunmd5 bs ns = Some k -> length k = 16%nat) ->
  class_of (check_sunmd5 L kdf h pw) = spec_sunmd5 L kdf h pw.
Proof. intros L kdf h pw Hk. apply sunmd5_classified_. exact Hk. Qed.
