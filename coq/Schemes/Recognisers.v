(* Independent recognisers of the ten documented hash layouts (C06's oracle), translated from
   /verif/harness/cmd/harness/recognise.go.  They work on the byte string with their own splitting and know
   nothing of the codec model (no type_info, no unmarshal, no parse).  Definitions only.

   A recogniser decides WELL-FORMEDNESS only: prefix, number of fragments, field alphabets, fixed lengths,
   integer syntax (strconv.ParseUint with the field's bit size), explicit zero of an optional number =
   absent.  Range checks (salt length limits, rounds/cost ranges, version set, memory/time/threads minima)
   are the guards of the Key functions (Schemes/Keys.v) and are not repeated here. *)
Require Import GC.Base.Bytes GC.Codec.Types GC.Codec.Strconv GC.Codec.Marshal GC.Schemes.Consts.

Record rfields := { r_salt : bytes; r_nums : list Z; r_prefix : bytes; r_flag : bool; r_sum : bytes }.

(* ---- string helpers ---- *)
Definition slen (s : bytes) : Z := Z.of_nat (length s).
Definition in_alpha (e : enc_kind) (s : bytes) : bool := forallb (valid_char e) s.        (* inAlpha *)
Definition has_comma (s : bytes) : bool := existsb (fun c => c =? comma) s.               (* strings.Contains(s, ",") *)
Definition is_digit (c : Z) : bool := (48 <=? c) && (c <=? 57).
Definition is_digits (s : bytes) : bool := forallb is_digit s.                            (* inAlpha(s, "0123456789") *)
Definition nil_b (s : bytes) : bool := match s with [] => true | _ => false end.

(* strings.Split(s, sep) with a final empty piece dropped: "split on sep, one bare trailing sep tolerated".
   cur is the current piece, reversed. *)
Fixpoint pieces (sep : Z) (cur : bytes) (s : bytes) : list bytes :=
  match s with
  | [] => match cur with [] => [] | _ => [rev cur] end
  | c :: r => if c =? sep then rev cur :: pieces sep [] r else pieces sep (c :: cur) r
  end.
(* strings.Split(s, sep) proper *)
Fixpoint split_on (sep : Z) (cur : bytes) (s : bytes) : list bytes :=
  match s with
  | [] => [rev cur]
  | c :: r => if c =? sep then rev cur :: split_on sep [] r else split_on sep (c :: cur) r
  end.

(* plainFrags: the '$'-separated fragments of the body, one bare trailing '$' tolerated.
   (The Go helper maps the body "$" to no fragment, this one to one empty fragment; no layout accepts
   either.) *)
Definition plain_frags (body : bytes) : list bytes := pieces dollar [] body.

(* strings.HasSuffix(t, "$") -> t[:len(t)-1] *)
Definition strip_dollar (s : bytes) : bytes :=
  match rev s with
  | c :: r => if c =? dollar then rev r else s
  | [] => s
  end.

(* ---- literals ---- *)
Definition p_md5 : bytes := [36;49;36].                          (* "$1$" *)
Definition p_sha256 : bytes := [36;53;36].                       (* "$5$" *)
Definition p_sha512 : bytes := [36;54;36].                       (* "$6$" *)
Definition p_sha1 : bytes := [36;115;104;97;49;36].              (* "$sha1$" *)
Definition p_sunmd5_c : bytes := [36;109;100;53;44].             (* "$md5," *)
Definition p_sunmd5_d : bytes := [36;109;100;53;36].             (* "$md5$" *)
Definition p_bcrypt_2 : bytes := [36;50;36].                     (* "$2$" *)
Definition p_bcrypt_2a : bytes := [36;50;97;36].                 (* "$2a$" *)
Definition p_bcrypt_2b : bytes := [36;50;98;36].                 (* "$2b$" *)
Definition p_nthash : bytes := [36;51;36].                       (* "$3$" *)
Definition p_argon2d : bytes := [36;97;114;103;111;110;50;100;36].
Definition p_argon2i : bytes := [36;97;114;103;111;110;50;105;36].
Definition p_argon2id : bytes := [36;97;114;103;111;110;50;105;100;36].
Definition k_rounds : bytes := [114;111;117;110;100;115;61].     (* "rounds=" *)
Definition k_v : bytes := [118;61].                              (* "v=" *)

Definition mk_r (salt : bytes) (nums : list Z) (prefix : bytes) (flag : bool) (sum : bytes) : rfields :=
  {| r_salt := salt; r_nums := nums; r_prefix := prefix; r_flag := flag; r_sum := sum |}.

(* salt and digest of the crypt alphabet, digest of fixed length *)
Definition salt_sum_ok (salt sum : bytes) (sumlen : Z) : bool :=
  in_alpha EncHash salt && (slen sum =? sumlen) && in_alpha EncHash sum.

(* ---- md5: $1$salt$sum22 ---- *)
Definition recog_md5 (h : bytes) : option rfields :=
  if has_prefix p_md5 h then
    let body := skipn 3 h in
    if has_comma body then None else
    match plain_frags body with
    | [salt; sum] => if salt_sum_ok salt sum 22 then Some (mk_r salt [] [] false sum) else None
    | _ => None
    end
  else None.

(* ---- sha256 / sha512: $5$[rounds=N$]salt$sum ---- *)
Definition recog_sha2 (pre : bytes) (sumlen impl : Z) (h : bytes) : option rfields :=
  if has_prefix pre h then
    let body := skipn 3 h in
    if has_comma body then None else
    match plain_frags body with
    | [salt; sum] => if salt_sum_ok salt sum sumlen then Some (mk_r salt [impl] [] false sum) else None
    | [ro; salt; sum] =>
      if has_prefix k_rounds ro then
        match ParseUint (skipn 7 ro) 10 32 with
        | inl v => if salt_sum_ok salt sum sumlen
                   then Some (mk_r salt [if v =? 0 then impl else v] [] false sum) else None
        | inr _ => None
        end
      else None
    | _ => None
    end
  else None.
Definition recog_sha256 : bytes -> option rfields := recog_sha2 p_sha256 43 5000.
Definition recog_sha512 : bytes -> option rfields := recog_sha2 p_sha512 86 5000.

(* ---- sha1: $sha1$rounds$salt$sum28 ---- *)
Definition recog_sha1 (h : bytes) : option rfields :=
  if has_prefix p_sha1 h then
    let body := skipn 6 h in
    if has_comma body then None else
    match plain_frags body with
    | [ro; salt; sum] =>
      if in_alpha EncHash ro then
        match ParseUint ro 10 32 with
        | inl v => if salt_sum_ok salt sum 28 then Some (mk_r salt [v] [] false sum) else None
        | inr _ => None
        end
      else None
    | _ => None
    end
  else None.

(* ---- sunmd5: $md5$rounds=N$[salt$[$]]sum22 or $md5,rounds=... ---- *)
Definition recog_sunmd5_body (pre : bytes) (h : bytes) : option rfields :=
  let body := skipn 5 h in
  if has_comma body then None else
  match plain_frags body with
  | ro :: rest =>
    if has_prefix k_rounds ro && in_alpha EncHash (skipn 7 ro) then
      match ParseUint (skipn 7 ro) 10 32 with
      | inl v =>
        let fin (salt : bytes) (flag : bool) (sum : bytes) :=
          if salt_sum_ok salt sum 22 then Some (mk_r salt [v] pre flag sum) else None in
        match rest with
        | [sum] => fin [] true sum
        | [salt; sum] => fin salt true sum
        | [salt; sep; sum] => if nil_b sep then fin salt false sum else None
        | _ => None
        end
      | inr _ => None
      end
    else None
  | [] => None
  end.
Definition recog_sunmd5 (h : bytes) : option rfields :=
  if has_prefix p_sunmd5_c h then recog_sunmd5_body p_sunmd5_c h
  else if has_prefix p_sunmd5_d h then recog_sunmd5_body p_sunmd5_d h
  else None.

(* ---- des: salt2 sum11, no prefix ---- *)
Definition recog_des (h : bytes) : option rfields :=
  let t := strip_dollar h in
  if (slen t =? 13) && in_alpha EncHash t then Some (mk_r (firstn 2 t) [] [] false (skipn 2 t)) else None.

(* ---- desext: _ rounds4 salt4 sum11 ---- *)
(* strings.IndexByte(alphaCrypt, c) *)
Fixpoint index_byte (alpha : bytes) (c : Z) (i : Z) : Z :=
  match alpha with
  | [] => -1
  | a :: r => if a =? c then i else index_byte r c (i + 1)
  end.
(* sum of index << 6i, least significant first *)
Fixpoint decode_le6 (s : bytes) (i : Z) : Z :=
  match s with
  | [] => 0
  | c :: r => index_byte crypt_alphabet c 0 * 2 ^ (6 * i) + decode_le6 r (i + 1)
  end.
Definition recog_desext (h : bytes) : option rfields :=
  match h with
  | c :: t0 =>
    if c =? underscore then
      let t := strip_dollar t0 in
      if (slen t =? 19) && in_alpha EncHash t
      then Some (mk_r (firstn 4 (skipn 4 t)) [decode_le6 (firstn 4 t) 0] [] false (skipn 8 t))
      else None
    else None
  | [] => None
  end.

(* ---- bcrypt: $2b$cc$salt22sum31 ---- *)
Definition recog_bcrypt_body (pre : bytes) (h : bytes) : option rfields :=
  let body := skipn (length pre) h in
  if has_comma body then None else
  match plain_frags body with
  | [cost; rest] =>
    if (slen cost =? 2) && is_digits cost && (slen rest =? 53) && in_alpha EncHash rest then
      match ParseUint cost 10 8 with
      | inl c => Some (mk_r (firstn 22 rest) [c] pre false (skipn 22 rest))
      | inr _ => None
      end
    else None
  | _ => None
  end.
Definition recog_bcrypt (h : bytes) : option rfields :=
  if has_prefix p_bcrypt_2b h then recog_bcrypt_body p_bcrypt_2b h
  else if has_prefix p_bcrypt_2a h then recog_bcrypt_body p_bcrypt_2a h
  else if has_prefix p_bcrypt_2 h then recog_bcrypt_body p_bcrypt_2 h
  else None.

(* ---- nthash: $3$$sum32 ---- *)
Definition recog_nthash (h : bytes) : option rfields :=
  if has_prefix p_nthash h then
    let body := skipn 3 h in
    if has_comma body then None else
    match plain_frags body with
    | [e; sum] => if nil_b e && (slen sum =? 32) && in_alpha EncHash sum
                  then Some (mk_r [] [] [] false sum) else None
    | _ => None
    end
  else None.

(* ---- argon2: $argon2id$[v=N$]m=M,t=T,p=P$salt$sum ---- *)
(* recognise.go also rejects an empty digest; the implementation (and the model) take an empty Sum
   fragment ("...$salt$$") as a digest of length 0 and answer the mismatch sentinel, so that condition is
   not part of the layout and is left out here. *)
(* a member "k=text" of the parameter group: the key byte and the text after '=' *)
Definition member_kv (m : bytes) : option (Z * bytes) :=
  match m with
  | k :: e :: r => if (e =? equals) && negb (k =? equals) then Some (k, r) else None
  | _ => None
  end.
(* the number a member carries: key one of m t p, text of the crypt alphabet, ParseUint with the key's size *)
Definition member_num (m : bytes) : option (Z * Z) :=
  match member_kv m with
  | Some (k, r) =>
    if ((k =? 109) || (k =? 116) || (k =? 112)) && in_alpha EncHash r then
      match ParseUint r 10 (if k =? 112 then 8 else 32) with
      | inl v => Some (k, v)
      | inr _ => None
      end
    else None
  | None => None
  end.
Fixpoint lookup_key (k : Z) (l : list (Z * Z)) : option Z :=
  match l with
  | [] => None
  | (k', v) :: r => if k' =? k then Some v else lookup_key k r
  end.

Definition recog_argon2_rest (pre : bytes) (version : Z) (params salt sum : bytes) : option rfields :=
  match split_on comma [] params with
  | [a; b; c] =>
    match member_num a, member_num b, member_num c with
    | Some (ka, va), Some (kb, vb), Some (kc, vc) =>
      if negb (ka =? kb) && negb (ka =? kc) && negb (kb =? kc)
         && negb (has_comma salt) && negb (has_comma sum)
         && in_alpha EncBase64 salt && in_alpha EncBase64 sum then
        let l := [(ka, va); (kb, vb); (kc, vc)] in
        match lookup_key 109 l, lookup_key 116 l, lookup_key 112 l with
        | Some m, Some t, Some p => Some (mk_r salt [m; t; p; version] pre false sum)
        | _, _, _ => None
        end
      else None
    | _, _, _ => None
    end
  | _ => None
  end.

Definition recog_argon2_body (pre : bytes) (h : bytes) : option rfields :=
  let body := skipn (length pre) h in
  match pieces dollar [] body with
  | [ver; params; salt; sum] =>
    if has_prefix k_v ver && negb (has_comma ver) && in_alpha EncHash (skipn 2 ver) then
      match ParseUint (skipn 2 ver) 10 8 with
      | inl v => recog_argon2_rest pre (if v =? 0 then 16 else v) params salt sum
      | inr _ => None
      end
    else None
  | [params; salt; sum] => recog_argon2_rest pre 16 params salt sum
  | _ => None
  end.
Definition recog_argon2 (h : bytes) : option rfields :=
  if has_prefix p_argon2id h then recog_argon2_body p_argon2id h
  else if has_prefix p_argon2i h then recog_argon2_body p_argon2i h
  else if has_prefix p_argon2d h then recog_argon2_body p_argon2d h
  else None.
