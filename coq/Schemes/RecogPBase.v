(* Shared lemmas and tactics for the C06 classification theorems (RecogProofs.v):
   the parser's fragment list against the recognisers' own splitting, string atoms, digest lengths,
   rejection of a foreign prefix, and the symbolic evaluation of the Unmarshal loop on a fragment list of
   known shape. *)
Require Export GC.Base.Bytes GC.Base.CaseLib GC.Codec.Types GC.Codec.Strconv GC.Codec.TypeInfo GC.Codec.Marshal
  GC.Codec.Unmarshal GC.Codec.Codec GC.Parse.ParseModel GC.Parse.ParseSpec GC.Parse.ParseProofs GC.B64.B64Model
  GC.B64.B64EncProofs GC.Schemes.Consts GC.Schemes.Layouts GC.Schemes.Keys GC.Schemes.Encoders GC.Schemes.Checks
  GC.Schemes.Recognisers GC.Schemes.RecogCases.

Global Arguments Z.add : simpl never. Global Arguments Z.sub : simpl never. Global Arguments Z.of_nat : simpl never.
Global Arguments Z.mul : simpl never. Global Arguments Z.eqb : simpl never. Global Arguments Z.ltb : simpl never.
Global Arguments Z.leb : simpl never. Global Arguments Z.pow : simpl never.
Global Arguments key_md5 : simpl never. Global Arguments key_sha2 : simpl never. Global Arguments key_sha1 : simpl never.
Global Arguments key_sunmd5 : simpl never. Global Arguments key_des : simpl never. Global Arguments key_desext : simpl never.
Global Arguments key_bcrypt : simpl never. Global Arguments key_nthash : simpl never. Global Arguments key_argon2 : simpl never.
Global Arguments key_sha256 : simpl never. Global Arguments key_sha512 : simpl never.
Global Arguments has_prefix : simpl never. Global Arguments firstn : simpl never. Global Arguments skipn : simpl never.
Global Arguments repeat : simpl never.

(* ------------------------------------------------------------------ *)
(* 1. fragments of a comma-free body                                   *)
(* ------------------------------------------------------------------ *)
(* the texts of a fragment list made of single values only *)
Fixpoint fv_texts (l : list frag) : option (list bytes) :=
  match l with
  | [] => Some []
  | FV v :: r => match fv_texts r with Some t => Some (snd v :: t) | None => None end
  | FG _ :: _ => None
  end.

Lemma sc_group_none : forall r cur start pos l, fv_texts (sc cur start pos r (Some l)) = None.
Proof.
  induction r as [|c r IH]; intros cur start pos l.
  - cbn [sc]. destruct cur; reflexivity.
  - cbn [sc]. destruct (c =? dollar). reflexivity. destruct (c =? comma); apply IH.
Qed.

(* the parser's fragments of a body are single values exactly when the body has no comma, and then they are
   the recognisers' '$'-pieces *)
Lemma sc_plain : forall r cur start pos,
  fv_texts (sc cur start pos r None) = if has_comma r then None else Some (pieces dollar cur r).
Proof.
  induction r as [|c r IH]; intros cur start pos.
  - cbn [sc has_comma existsb pieces]. destruct cur; reflexivity.
  - cbn [sc has_comma existsb pieces]. fold (has_comma r).
    destruct (c =? dollar) eqn:Ed.
    + assert (c =? comma = false) as ->. { apply Z.eqb_eq in Ed. subst c. reflexivity. }
      cbn [orb close fv_texts snd]. rewrite IH. destruct (has_comma r); reflexivity.
    + destruct (c =? comma) eqn:Ec; cbn [orb].
      * apply sc_group_none.
      * apply IH.
Qed.

(* ------------------------------------------------------------------ *)
(* 2. string atoms                                                     *)
(* ------------------------------------------------------------------ *)
Lemma in_alpha_fi e s : in_alpha e s = match first_invalid e s with None => true | Some _ => false end.
Proof.
  induction s as [|c r IH]; cbn [in_alpha forallb first_invalid]. reflexivity.
  destruct (valid_char e c); cbn [andb]. exact IH. reflexivity.
Qed.

Lemma first_invalid_none e s : first_invalid e s = None <-> in_alpha e s = true.
Proof. rewrite in_alpha_fi. destruct (first_invalid e s); split; congruence. Qed.

Lemma first_invalid_encnone s : first_invalid EncNone s = None.
Proof. induction s; cbn; auto. Qed.

Lemma in_alpha_app e a b : in_alpha e (a ++ b) = in_alpha e a && in_alpha e b.
Proof. unfold in_alpha. apply forallb_app. Qed.

(* a decimal number (any bit size) is made of digits, and digits are in the crypt alphabet *)
Lemma digit_lt10 c d : digit_val c = Some d -> d < 10 -> is_digit c = true.
Proof.
  unfold digit_val, is_digit. destruct ((48 <=? c) && (c <=? 57)) eqn:E1. reflexivity.
  destruct ((97 <=? c) && (c <=? 122)) eqn:E2.
  - intros H; inversion H. apply andb_true_iff in E2. destruct E2 as [A B]. apply Z.leb_le in A. lia.
  - destruct ((65 <=? c) && (c <=? 90)) eqn:E3; [|discriminate].
    intros H; inversion H. apply andb_true_iff in E3. destruct E3 as [A B]. apply Z.leb_le in A. lia.
Qed.

Lemma parse_digits10_digits maxv : forall s acc v, parse_digits 10 maxv acc s = inl v -> is_digits s = true.
Proof.
  induction s as [|c r IH]; intros acc v H. reflexivity.
  cbn [parse_digits] in H. destruct (digit_val c) as [d|] eqn:Ed; [|discriminate].
  destruct (10 <=? d) eqn:E10; [discriminate|]. apply Z.leb_gt in E10.
  destruct (maxv <? acc * 10 + d); [discriminate|].
  cbn [is_digits forallb]. rewrite (digit_lt10 c d Ed E10). cbn [andb]. eapply IH; eauto.
Qed.

Lemma ParseUint10_digits s bits v : ParseUint s 10 bits = inl v -> is_digits s = true.
Proof. unfold ParseUint. destruct s. discriminate. apply parse_digits10_digits. Qed.

Lemma is_digit_valid c : is_digit c = true -> valid_char EncHash c = true.
Proof.
  unfold is_digit. intros H. apply andb_true_iff in H. destruct H as [A B]. apply Z.leb_le in A. apply Z.leb_le in B.
  assert (c = 48 \/ c = 49 \/ c = 50 \/ c = 51 \/ c = 52 \/ c = 53 \/ c = 54 \/ c = 55 \/ c = 56 \/ c = 57) as D by lia.
  repeat (destruct D as [-> | D]; [reflexivity|]). subst c. reflexivity.
Qed.

Lemma is_digits_alpha s : is_digits s = true -> in_alpha EncHash s = true.
Proof.
  induction s as [|c r IH]; cbn [is_digits in_alpha forallb]. reflexivity.
  intros H. apply andb_true_iff in H. destruct H as [A B]. rewrite (is_digit_valid c A). cbn [andb]. apply IH. exact B.
Qed.

Lemma ParseUint10_alpha s bits v : ParseUint s 10 bits = inl v -> first_invalid EncHash s = None.
Proof. intros H. apply first_invalid_none. apply is_digits_alpha. eapply ParseUint10_digits; eauto. Qed.

Lemma in_alpha_split n e s : in_alpha e s = in_alpha e (firstn n s) && in_alpha e (skipn n s).
Proof. rewrite <- in_alpha_app, firstn_skipn. reflexivity. Qed.

Lemma skipn_skipn' {A} (l : list A) : forall b a, skipn a (skipn b l) = skipn (b + a) l.
Proof.
  induction l as [|x l IH]; intros b a.
  - rewrite !skipn_nil. reflexivity.
  - destruct b as [|b]. reflexivity. cbn [skipn Nat.add]. apply IH.
Qed.

(* [n]byte conversion of a text of the right length *)
Lemma arr_exact (s : bytes) n : length s = n -> firstn n (s ++ repeat 0 n) = s.
Proof. intros <-. rewrite firstn_app, Nat.sub_diag, firstn_all. cbn [firstn]. apply app_nil_r. Qed.

Lemma arr_exactZ (s : bytes) n : Z.of_nat (length s) = Z.of_nat n -> firstn n (s ++ repeat 0 n) = s.
Proof. intros H. apply arr_exact. lia. Qed.

(* ------------------------------------------------------------------ *)
(* 3. digest lengths and the final comparison                          *)
(* ------------------------------------------------------------------ *)
Lemma fit_exact n enc : length enc = n -> fit n enc = Some enc.
Proof.
  intros <-. unfold fit. rewrite Nat.ltb_irrefl, Nat.sub_diag. cbn [repeat]. rewrite app_nil_r. reflexivity.
Qed.

Lemma finish_class n enc k sum :
  (forall key, k = KOk key -> length (enc key) = n) ->
  class_of (finish n enc k sum) = class_key enc k sum.
Proof.
  intros H. unfold finish, class_key. destruct k as [key|e]; [|reflexivity].
  rewrite (fit_exact n (enc key) (H key eq_refl)). unfold ct_equal.
  destruct (bytes_eqb (enc key) sum); reflexivity.
Qed.

Lemma run_kdf_len kdf tag bs ns n key :
  (forall bs ns k, kdf tag bs ns = Some k -> length k = n) -> run_kdf kdf tag bs ns = KOk key -> length key = n.
Proof.
  intros H. unfold run_kdf. destruct (kdf tag bs ns) eqn:E; intros H1; inversion H1; subst. eapply H; eauto.
Qed.

Lemma le64_len k n m : length k = n -> ((Z.of_nat n * 8 + 5) / 6 = Z.of_nat m) -> length (le64 k) = m.
Proof.
  intros Hk Hm. unfold le64. pose proof (encoded_len le_enc k) as E. unfold EncodedLen in E. cbn [e_pad le_enc] in E.
  rewrite Hk, Hm in E. lia.
Qed.

Lemma be64_len8 alpha k : length k = 8%nat -> length (be64_encode alpha k) = 11%nat.
Proof. do 9 (destruct k as [|? k]; try discriminate). reflexivity. Qed.

Lemma be64_len23 alpha k : length k = 23%nat -> length (be64_encode alpha k) = 31%nat.
Proof. do 24 (destruct k as [|? k]; try discriminate). reflexivity. Qed.

Lemma hex_len k : length (hex_encode k) = (2 * length k)%nat.
Proof. unfold hex_encode. induction k as [|b k IH]; cbn [flat_map length app]. reflexivity. rewrite IH. lia. Qed.

Ltac key_len H :=
  repeat match goal with
         | |- (if ?b then _ else _) = _ -> _ => destruct b; [discriminate|]
         | |- (if ?b then _ else _) = _ -> _ => destruct b; [|discriminate]
         | |- match ?x with Some _ => _ | None => _ end = _ -> _ => destruct x; [discriminate|]
         end;
  try (apply run_kdf_len; exact H).

Section KeyLens.
Variable L : limits.
Variable kdf : kdf_t.

Lemma key_md5_len pw salt key :
  (forall bs ns k, kdf T_md5 bs ns = Some k -> length k = 16%nat) -> key_md5 L kdf pw salt = KOk key -> length key = 16%nat.
Proof. intros H. unfold key_md5. key_len H. Qed.

Lemma key_sha2_len tag a b c n pw salt rounds key :
  (forall bs ns k, kdf tag bs ns = Some k -> length k = n) -> key_sha2 kdf tag a b c pw salt rounds = KOk key -> length key = n.
Proof. intros H. unfold key_sha2. key_len H. Qed.

Lemma key_sha1_len rr pw salt rounds key :
  (forall bs ns k, kdf T_sha1 bs ns = Some k -> length k = 21%nat) -> key_sha1 L kdf rr pw salt rounds = KOk key -> length key = 21%nat.
Proof. intros H. unfold key_sha1. cbv zeta. key_len H. Qed.

Lemma key_sunmd5_len pw salt rounds opts key :
  (forall bs ns k, kdf T_sunmd5 bs ns = Some k -> length k = 16%nat) ->
  key_sunmd5 L kdf pw salt rounds opts = KOk key -> length key = 16%nat.
Proof.
  intros H. unfold key_sunmd5. key_len H.
  destruct (match opts with Some o => o | None => _ end) as [prefix nosep]. key_len H.
Qed.

Lemma key_des_len pw salt key :
  (forall bs ns k, kdf T_des bs ns = Some k -> length k = 8%nat) -> key_des L kdf pw salt = KOk key -> length key = 8%nat.
Proof. intros H. unfold key_des. key_len H. Qed.

Lemma key_desext_len pw salt rounds key :
  (forall bs ns k, kdf T_desext bs ns = Some k -> length k = 8%nat) ->
  key_desext L kdf pw salt rounds = KOk key -> length key = 8%nat.
Proof. intros H. unfold key_desext. key_len H. Qed.

Lemma key_bcrypt_len pw salt cost opts key :
  (forall bs ns k, kdf T_bcrypt bs ns = Some k -> length k = 23%nat) ->
  key_bcrypt L kdf pw salt cost opts = KOk key -> length key = 23%nat.
Proof.
  intros H. unfold key_bcrypt. cbv zeta. key_len H.
Qed.

Lemma key_nthash_len enc key :
  (forall bs ns k, kdf T_nthash bs ns = Some k -> length k = 16%nat) -> key_nthash L kdf enc = KOk key -> length key = 16%nat.
Proof. intros H. unfold key_nthash. cbv zeta. key_len H. Qed.
End KeyLens.

(* ------------------------------------------------------------------ *)
(* 4. a hash that does not begin with an accepted prefix               *)
(* ------------------------------------------------------------------ *)
Lemma existsb_eq_prefix p wl rest :
  existsb (bytes_eqb p) wl = true -> exists q, In q wl /\ has_prefix q (p ++ rest) = true.
Proof.
  intros H. apply existsb_exists in H. destruct H as (q & Hq & E). apply bytes_eqb_eq in E. subst q.
  exists p. split. exact Hq. apply has_prefix_app.
Qed.

Lemma foreign_prefix st ti fi id wl h (k : list (list nat * fval) -> verdict) :
  type_info st = Ok ti -> ti_prefix ti = Some fi ->
  o_omit (fi_opts fi) = false -> o_param (fi_opts fi) = [] -> o_haslen (fi_opts fi) = false ->
  o_enc (fi_opts fi) = EncNone -> t_utext (fi_type fi) = Some id -> prefix_whitelist id = Some wl ->
  (forall q, In q wl -> has_prefix q h = false) ->
  class_of (with_layout st h k) = 2%nat.
Proof.
  intros Hti Hpre Homit Hparam Hlen Henc Hut Hwl Hno.
  unfold with_layout, unmarshal_top. destruct (parse h) as [t|off m|] eqn:EP; [|reflexivity|reflexivity].
  rewrite Hti. cbn [bind]. apply parse_ok_shape in EP. destruct EP as (po & rest & Eh & Et). subst t.
  unfold unmarshal_tree, body_tree. cbn [prefix frags]. rewrite Hpre.
  destruct po as [p|]; cbn [optb] in Eh.
  - unfold assign. rewrite Hparam, Hlen. cbn [bind]. unfold convert. rewrite Henc, first_invalid_encnone, Hut.
    unfold std_cb at 1. cbn [cb_unmarshal]. rewrite Hwl.
    destruct (existsb (bytes_eqb p) wl) eqn:Ex.
    + exfalso. destruct (existsb_eq_prefix p wl rest Ex) as (q & Hq & Hp). rewrite <- Eh in Hp.
      rewrite (Hno q Hq) in Hp. discriminate.
    + reflexivity.
  - rewrite Homit. reflexivity.
Qed.

(* ------------------------------------------------------------------ *)
(* 5. symbolic evaluation of Unmarshal on a fragment list of known shape *)
(* ------------------------------------------------------------------ *)
Lemma set_frag_0 a l f : set_frag (a :: l) 0 f = f :: l.
Proof. reflexivity. Qed.
Lemma set_frag_S a l i f : set_frag (a :: l) (S i) f = a :: set_frag l i f.
Proof. reflexivity. Qed.

(* the prefix assignment is a closed term: compute it *)
Ltac eval_prefix :=
  unfold unmarshal_tree; cbn [ti_prefix prefix ti_fields ti_numreq frags];
  match goal with |- context [assign ?a ?b ?c ?d ?e] =>
    let x := eval vm_compute in (assign a b c d e) in change (assign a b c d e) with x end;
  cbn [fi_embptr bind fi_index].

Ltac atom_step :=
  match goal with
  | |- context [Pos.to_nat ?p] => let n := eval compute in (Pos.to_nat p) in change (Pos.to_nat p) with n
  | |- context [skipn ?a (skipn ?b ?l)] => rewrite (skipn_skipn' l b a); cbn [Nat.add]
  | |- context [length (skipn ?n ?l)] => rewrite (skipn_length n l)
  | H : first_invalid ?e ?t = _ |- context [first_invalid ?e ?t] => rewrite H
  | H : ParseUint ?s ?b ?n = _ |- context [ParseUint ?s ?b ?n] => rewrite H
  | H : has_prefix ?a ?b = _ |- context [has_prefix ?a ?b] => rewrite H
  | H : is_digits ?a = _ |- context [is_digits ?a] => rewrite H
  | |- context [Z.leb ?a ?b] =>
    let E := fresh "E" in destruct (Z.leb a b) eqn:E; [apply Z.leb_le in E | apply Z.leb_gt in E]; try (exfalso; lia)
  | |- context [Z.ltb ?a ?b] =>
    let E := fresh "E" in destruct (Z.ltb a b) eqn:E; [apply Z.ltb_lt in E | apply Z.ltb_ge in E]; try (exfalso; lia)
  | |- context [Z.eqb ?a ?b] =>
    let E := fresh "E" in destruct (Z.eqb a b) eqn:E; [apply Z.eqb_eq in E | apply Z.eqb_neq in E]; try (exfalso; lia)
  | |- context [has_prefix ?a ?b] => destruct (has_prefix a b) eqn:?
  | |- context [match first_invalid ?e ?t with _ => _ end] => destruct (first_invalid e t) eqn:?
  | |- context [match ParseUint ?s ?b ?n with _ => _ end] => destruct (ParseUint s b n) eqn:?
  | |- context [is_digits ?s] => destruct (is_digits s) eqn:?
  | |- context [nil_b ?a] => destruct a
  end.
Ltac crunch := repeat first [ progress cbn | progress unfold convert, assign, trim_prefix | progress unfold equals
                            | rewrite set_frag_S | rewrite set_frag_0 | atom_step ].

(* split the hypothesis about the fragment texts: a comma, or the list of pieces *)
Ltac split_frags HF body :=
  cbn [fv_texts snd] in HF;
  repeat match type of HF with context [fv_texts ?r] => destruct (fv_texts r) end;
  (destruct (has_comma body);
   [try discriminate HF | try discriminate HF; try (injection HF as HF; rewrite <- HF)]).

(* closing steps: a number that parses is in the alphabet; a digest of the right length fills its array *)
Ltac uint_alpha :=
  match goal with
  | H1 : ParseUint ?s 10 ?b = inl ?v, H2 : first_invalid EncHash ?s = Some _ |- _ =>
    rewrite (ParseUint10_alpha s b v H1) in H2; discriminate H2
  end.
Ltac arr_fix := rewrite ?arr_exactZ by (rewrite ?skipn_length; cbn; lia).

Ltac digits_alpha :=
  match goal with
  | H1 : is_digits ?s = true, H2 : first_invalid EncHash ?s = Some _ |- _ =>
    apply is_digits_alpha in H1; apply first_invalid_none in H1; rewrite H1 in H2; discriminate H2
  | H1 : is_digits ?s = false, H2 : ParseUint ?s 10 ?b = inl ?v |- _ =>
    rewrite (ParseUint10_digits s b v H2) in H1; discriminate H1
  end.
