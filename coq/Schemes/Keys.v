(* Models of the ten Key functions: the guard prefix in source order, then the (abstract) derivation.
   Limits are parameters ([limits] record) so that theorems can be instantiated with the values generated
   from /repo (C14 is parametric) or with the committed ones.  Definitions only. *)
Require Import GC.Base.Bytes GC.Codec.Types GC.Codec.Marshal GC.Schemes.Consts.

(* the typed errors of the scheme packages, with the value they carry *)
Inductive kerr :=
| KInvalidPasswordLength (n : Z)
| KInvalidSaltLength (n : Z)
| KInvalidSalt (c : Z)
| KInvalidRounds (r : Z)
| KInvalidCost (c : Z)
| KInvalidMemory (m : Z) | KInvalidTime (t : Z) | KInvalidThreads (t : Z)
| KUnsupportedPrefix (p : bytes)
| KUnsupportedVersion (v : Z)
| KOther                                    (* an untyped error (blowfish key size) *)
| KMissing.                                 (* the abstract derivation has no entry: only in case evaluation *)

Inductive kres := KOk (key : bytes) | KErr (e : kerr).

(* the derivations proper (everything after the guards), abstract:
   scheme tag, byte-string arguments, numeric arguments *)
Definition kdf_t := Z -> list bytes -> list Z -> option bytes.
Definition run_kdf (kdf : kdf_t) (tag : Z) (bs : list bytes) (ns : list Z) : kres :=
  match kdf tag bs ns with Some k => KOk k | None => KErr KMissing end.

Definition T_md5 := 1. Definition T_sha256 := 5. Definition T_sha512 := 6. Definition T_sha1 := 7.
Definition T_sunmd5 := 8. Definition T_des := 9. Definition T_desext := 10. Definition T_bcrypt := 2.
Definition T_nthash := 3. Definition T_argon2 := 4.

Definition len (s : bytes) : Z := Z.of_nat (length s).
Definition first_bad_hash (s : bytes) : option Z := first_invalid EncHash s.
Definition first_bad_b64 (s : bytes) : option Z := first_invalid EncBase64 s.

Record limits := {
  L_md5_MaxSalt : Z;
  L_sha256_MaxSalt : Z; L_sha256_MinRounds : Z; L_sha256_MaxRounds : Z;
  L_sha512_MaxSalt : Z; L_sha512_MinRounds : Z; L_sha512_MaxRounds : Z;
  L_sha1_MaxSalt : Z; L_sha1_MinRounds : Z; L_sha1_RandomRounds : Z;
  L_sunmd5_MaxPw : Z; L_sunmd5_MaxSalt : Z; L_sunmd5_MaxRounds : Z;
  L_des_MaxPw : Z; L_des_Salt : Z;
  L_desext_Salt : Z; L_desext_MinRounds : Z; L_desext_MaxRounds : Z;
  L_bcrypt_Salt : Z; L_bcrypt_MinCost : Z; L_bcrypt_MaxCost : Z;
  L_nthash_MaxPw : Z;
  L_argon2_MinSalt : Z; L_argon2_MinMemory : Z; L_argon2_MinTime : Z; L_argon2_MinThreads : Z
}.

Section K.
Variable L : limits.
Variable kdf : kdf_t.

(* md5.Key(password, salt) *)
Definition key_md5 (pw salt : bytes) : kres :=
  if L_md5_MaxSalt L <? len salt then KErr (KInvalidSaltLength (len salt))
  else match first_bad_hash salt with Some c => KErr (KInvalidSalt c) | None =>
  run_kdf kdf T_md5 [pw; salt] [] end.

(* sha256.Key / sha512.Key(password, salt, rounds) *)
Definition key_sha2 (tag maxsalt minr maxr : Z) (pw salt : bytes) (rounds : Z) : kres :=
  if maxsalt <? len salt then KErr (KInvalidSaltLength (len salt))
  else match first_bad_hash salt with Some c => KErr (KInvalidSalt c) | None =>
  if (rounds <? minr) || (maxr <? rounds) then KErr (KInvalidRounds rounds)
  else run_kdf kdf tag [pw; salt] [rounds] end.
Definition key_sha256 := key_sha2 T_sha256 (L_sha256_MaxSalt L) (L_sha256_MinRounds L) (L_sha256_MaxRounds L).
Definition key_sha512 := key_sha2 T_sha512 (L_sha512_MaxSalt L) (L_sha512_MinRounds L) (L_sha512_MaxRounds L).

(* sha1.Key(password, salt, rounds); rr = the value randRounds() would draw *)
Definition key_sha1 (rr : Z) (pw salt : bytes) (rounds : Z) : kres :=
  if L_sha1_MaxSalt L <? len salt then KErr (KInvalidSaltLength (len salt))
  else match first_bad_hash salt with Some c => KErr (KInvalidSalt c) | None =>
  let rounds := if rounds =? L_sha1_RandomRounds L then rr else rounds in
  if rounds <? L_sha1_MinRounds L then KErr (KInvalidRounds rounds)
  else run_kdf kdf T_sha1 [pw; salt] [rounds] end.

(* sunmd5.Key(password, salt, rounds, opts); opts = None | Some (prefix, disableSeparator) *)
Definition key_sunmd5 (pw salt : bytes) (rounds : Z) (opts : option (bytes * bool)) : kres :=
  if L_sunmd5_MaxPw L <? len pw then KErr (KInvalidPasswordLength (len pw))
  else if L_sunmd5_MaxSalt L <? len salt then KErr (KInvalidSaltLength (len salt))
  else match first_bad_hash salt with Some c => KErr (KInvalidSalt c) | None =>
  if L_sunmd5_MaxRounds L <? rounds then KErr (KInvalidRounds rounds)
  else
    let '(prefix, nosep) := match opts with
                            | Some o => o
                            | None => (if rounds =? 0 then m_sunmd5_PrefixZeroRounds else m_sunmd5_PrefixNonZeroRounds, false)
                            end in
    if negb (bytes_eqb prefix m_sunmd5_PrefixNonZeroRounds || bytes_eqb prefix m_sunmd5_PrefixZeroRounds)
    then KErr (KUnsupportedPrefix prefix)
    else run_kdf kdf T_sunmd5 [pw; salt; prefix] [rounds; if nosep then 1 else 0] end.

(* des.Key(password, salt) *)
Definition key_des (pw salt : bytes) : kres :=
  if L_des_MaxPw L <? len pw then KErr (KInvalidPasswordLength (len pw))
  else if negb (len salt =? L_des_Salt L) then KErr (KInvalidSaltLength (len salt))
  else match first_bad_hash salt with Some c => KErr (KInvalidSalt c) | None =>
  run_kdf kdf T_des [pw; salt] [] end.

(* desext.Key(password, salt, rounds) *)
Definition key_desext (pw salt : bytes) (rounds : Z) : kres :=
  if negb (len salt =? L_desext_Salt L) then KErr (KInvalidSaltLength (len salt))
  else match first_bad_hash salt with Some c => KErr (KInvalidSalt c) | None =>
  if (rounds <? L_desext_MinRounds L) || (L_desext_MaxRounds L <? rounds) then KErr (KInvalidRounds rounds)
  else run_kdf kdf T_desext [pw; salt] [rounds] end.

(* bcrypt.Key(password, salt, cost, opts); opts = None | Some prefix.
   The password rewriting ($2b$: first 72 bytes; older: 72 '0' digits from 254 bytes on) happens before the
   salt checks and is part of the modelled code; the Blowfish key-size error (empty key, $2$) is KOther. *)
Definition key_bcrypt (pw salt : bytes) (cost : Z) (opts : option bytes) : kres :=
  let prefix := match opts with Some p => p | None => m_bcrypt_Prefix2b end in
  if negb (bytes_eqb prefix m_bcrypt_Prefix2 || bytes_eqb prefix m_bcrypt_Prefix2a || bytes_eqb prefix m_bcrypt_Prefix2b)
  then KErr (KUnsupportedPrefix prefix)
  else
    let n := len pw in
    let pw' := if bytes_eqb prefix m_bcrypt_Prefix2b && (72 <? n) then firstn 72 pw
               else if 254 <=? n then repeat 48 72 else pw in
    if negb (len salt =? L_bcrypt_Salt L) then KErr (KInvalidSaltLength (len salt))
    else match first_bad_hash salt with Some c => KErr (KInvalidSalt c) | None =>
    if (cost <? L_bcrypt_MinCost L) || (L_bcrypt_MaxCost L <? cost) then KErr (KInvalidCost cost)
    else
      (* setup: the key gets a NUL appended unless the prefix is $2$; Blowfish needs 1..56+ bytes: an empty
         key is rejected by NewSaltedCipher *)
      let key := if bytes_eqb prefix m_bcrypt_Prefix2 then pw' else pw' ++ [0] in
      match key with
      | [] => KErr KOther
      | _ => run_kdf kdf T_bcrypt [key; salt] [cost]
      end end.

(* nthash.Key(password) on the already encoded (UTF-16LE) password *)
Definition key_nthash (enc : bytes) : kres :=
  let n := len enc in
  if negb (n mod 2 =? 0) || (L_nthash_MaxPw L <? n) then KErr (KInvalidPasswordLength n)
  else run_kdf kdf T_nthash [enc] [].

(* argon2.Key(password, salt, memory, time, threads, opts); opts = None | Some (prefix, version) *)
Definition key_argon2 (pw salt : bytes) (memory time threads : Z) (opts : option (bytes * Z)) : kres :=
  let '(prefix, version) := match opts with Some o => o | None => (m_argon2_Prefix2id, m_argon2_Version13) end in
  if negb (bytes_eqb prefix m_argon2_Prefix2d || bytes_eqb prefix m_argon2_Prefix2i || bytes_eqb prefix m_argon2_Prefix2id)
  then KErr (KUnsupportedPrefix prefix)
  else if negb ((version =? m_argon2_Version10) || (version =? m_argon2_Version13)) then KErr (KUnsupportedVersion version)
  else if len salt <? L_argon2_MinSalt L then KErr (KInvalidSaltLength (len salt))
  else match first_bad_b64 salt with Some c => KErr (KInvalidSalt c) | None =>
  if memory <? L_argon2_MinMemory L then KErr (KInvalidMemory memory)
  else if time <? L_argon2_MinTime L then KErr (KInvalidTime time)
  else if threads <? L_argon2_MinThreads L then KErr (KInvalidThreads threads)
  else run_kdf kdf T_argon2 [pw; salt; prefix] [version; memory; time; threads] end.
End K.
