(* String-level facts for the recognisers that work on the whole text (des, desext): one bare trailing '$'
   stripped, against the '$'-pieces the parser sees. *)
Require Import GC.Schemes.RecogPBase.

Definition no_dollar (s : bytes) : Prop := forallb (fun c => negb (c =? dollar)) s = true.

Lemma no_dollar_cons c s : no_dollar (c :: s) <-> c <> dollar /\ no_dollar s.
Proof.
  unfold no_dollar. cbn [forallb]. rewrite andb_true_iff, negb_true_iff, Z.eqb_neq. tauto.
Qed.

Lemma no_dollar_app a b : no_dollar (a ++ b) <-> no_dollar a /\ no_dollar b.
Proof. unfold no_dollar. rewrite forallb_app, andb_true_iff. tauto. Qed.

(* pieces of a text without '$', and of such a text followed by one '$' *)
Lemma pieces_plain : forall s cur, no_dollar s ->
  pieces dollar cur s = match rev cur ++ s with [] => [] | x => [x] end.
Proof.
  induction s as [|c r IH]; intros cur H.
  - cbn [pieces]. rewrite app_nil_r. destruct cur as [|a cur]. reflexivity.
    cbn [rev]. destruct (rev cur ++ [a]) eqn:E. destruct (rev cur); discriminate. reflexivity.
  - apply no_dollar_cons in H. destruct H as [Hc Hr]. cbn [pieces].
    apply Z.eqb_neq in Hc. rewrite Hc. rewrite IH by exact Hr. cbn [rev]. rewrite <- app_assoc. reflexivity.
Qed.

Lemma pieces_trailing : forall s cur, no_dollar s -> pieces dollar cur (s ++ [dollar]) = [rev cur ++ s].
Proof.
  induction s as [|c r IH]; intros cur H.
  - cbn [app pieces]. rewrite Z.eqb_refl, app_nil_r. reflexivity.
  - apply no_dollar_cons in H. destruct H as [Hc Hr]. cbn [app pieces].
    apply Z.eqb_neq in Hc. rewrite Hc. rewrite IH by exact Hr. cbn [rev]. rewrite <- app_assoc. reflexivity.
Qed.

Lemma pieces_cur_nonnil : forall s cur, cur <> [] -> pieces dollar cur s <> [].
Proof.
  induction s as [|c r IH]; intros cur H; cbn [pieces].
  - destruct cur. contradiction. discriminate.
  - destruct (c =? dollar). discriminate. apply IH. discriminate.
Qed.

Lemma pieces_nil s : pieces dollar [] s = [] -> s = [].
Proof.
  destruct s as [|c r]. reflexivity. cbn [pieces]. destruct (c =? dollar). discriminate.
  intros H. exfalso. revert H. apply pieces_cur_nonnil. discriminate.
Qed.

(* a single piece: the text has no '$' except possibly one at the very end *)
Lemma pieces_single : forall h cur x, pieces dollar cur h = [x] ->
  (no_dollar h /\ x = rev cur ++ h) \/ (exists s, no_dollar s /\ h = s ++ [dollar] /\ x = rev cur ++ s).
Proof.
  induction h as [|c r IH]; intros cur x H.
  - left. split. reflexivity. cbn [pieces] in H. destruct cur. discriminate. inversion H. rewrite app_nil_r. reflexivity.
  - cbn [pieces] in H. destruct (c =? dollar) eqn:Ec.
    + apply Z.eqb_eq in Ec. subst c. inversion H. apply pieces_nil in H2. subst r.
      right. exists []. split. reflexivity. split. reflexivity. rewrite app_nil_r. reflexivity.
    + apply Z.eqb_neq in Ec. destruct (IH (c :: cur) x H) as [[Hn Hx]|(s & Hn & Hr & Hx)].
      * left. split. apply no_dollar_cons. auto. rewrite Hx. cbn [rev]. rewrite <- app_assoc. reflexivity.
      * right. exists (c :: s). split. apply no_dollar_cons. auto. split. rewrite Hr. reflexivity.
        rewrite Hx. cbn [rev]. rewrite <- app_assoc. reflexivity.
Qed.

(* strip_dollar *)
Lemma strip_dollar_snoc s : strip_dollar (s ++ [dollar]) = s.
Proof. unfold strip_dollar. rewrite rev_app_distr. cbn [rev app]. rewrite Z.eqb_refl. apply rev_involutive. Qed.

Lemma strip_dollar_plain s : no_dollar s -> strip_dollar s = s.
Proof.
  intros H. unfold strip_dollar. destruct (rev s) as [|c r] eqn:E. reflexivity.
  destruct (c =? dollar) eqn:Ec; [|reflexivity]. exfalso.
  apply Z.eqb_eq in Ec. subst c.
  assert (In dollar s) as Hin. { apply in_rev. rewrite E. left. reflexivity. }
  unfold no_dollar in H. rewrite forallb_forall in H. specialize (H _ Hin). rewrite Z.eqb_refl in H. discriminate.
Qed.

Lemma strip_dollar_cases h : h = strip_dollar h \/ h = strip_dollar h ++ [dollar].
Proof.
  unfold strip_dollar. destruct (rev h) as [|c r] eqn:E. left. reflexivity.
  destruct (c =? dollar) eqn:Ec; [|left; reflexivity]. right.
  apply Z.eqb_eq in Ec. subst c. rewrite <- (rev_involutive h), E. reflexivity.
Qed.

Lemma pieces_single_strip h x : pieces dollar [] h = [x] -> strip_dollar h = x.
Proof.
  intros H. destruct (pieces_single h [] x H) as [[Hn Hx]|(s & Hn & Hr & Hx)]; cbn [rev app] in Hx; subst x.
  - apply strip_dollar_plain. exact Hn.
  - subst h. apply strip_dollar_snoc.
Qed.

(* the crypt alphabet has neither '$' nor ',' *)
Lemma alpha_no_delims s : in_alpha EncHash s = true -> no_dollar s /\ has_comma s = false.
Proof.
  induction s as [|c r IH]; intros H. split; reflexivity.
  cbn [in_alpha forallb] in H. apply andb_true_iff in H. destruct H as [Hc Hr]. destruct (IH Hr) as [A B].
  split.
  - apply no_dollar_cons. split; [|exact A]. intros ->. discriminate Hc.
  - cbn [has_comma existsb]. fold (has_comma r). rewrite B. destruct (c =? comma) eqn:E; [|reflexivity].
    apply Z.eqb_eq in E. subst c. discriminate Hc.
Qed.

Lemma has_comma_app a b : has_comma (a ++ b) = has_comma a || has_comma b.
Proof. unfold has_comma. apply existsb_app. Qed.

(* what the parser sees of a text whose stripped form is in the alphabet *)
Lemma alpha_strip_pieces h : in_alpha EncHash (strip_dollar h) = true ->
  has_comma h = false /\ (pieces dollar [] h = [] \/ pieces dollar [] h = [strip_dollar h]).
Proof.
  intros H. destruct (alpha_no_delims _ H) as [Hn Hc].
  destruct (strip_dollar_cases h) as [E|E]; remember (strip_dollar h) as t eqn:Et; clear Et; subst h.
  - split. exact Hc. rewrite pieces_plain by exact Hn. cbn [rev app]. destruct t; auto.
  - split. rewrite has_comma_app, Hc. reflexivity. right. rewrite pieces_trailing by exact Hn. reflexivity.
Qed.

(* a text that begins outside the alphabet is not 13 (or any positive number of) alphabet characters *)
Lemma bad_first_char c r n : valid_char EncHash c = false -> 0 < n ->
  (slen (strip_dollar (c :: r)) =? n) && in_alpha EncHash (strip_dollar (c :: r)) = false.
Proof.
  intros Hc Hn. destruct (strip_dollar_cases (c :: r)) as [E|E].
  - rewrite <- E. cbn [in_alpha forallb]. rewrite Hc. apply andb_false_r.
  - destruct (strip_dollar (c :: r)) as [|c' s].
    + unfold slen. cbn [length]. destruct (Z.of_nat 0 =? n) eqn:E0; [|reflexivity]. apply Z.eqb_eq in E0. lia.
    + inversion E. subst c'. cbn [in_alpha forallb]. rewrite Hc. apply andb_false_r.
Qed.

(* ---- the Go helper plainFrags, literally: strip one trailing '$', nothing left = no fragment, else
   strings.Split; it agrees with [plain_frags] except on the body "$" (Go: no fragment; here and in the
   parser: one empty fragment), which no layout accepts either way ---- *)
Definition plain_frags_go (body : bytes) : list bytes :=
  let b := strip_dollar body in if nil_b b then [] else split_on dollar [] b.

Lemma pieces_snoc_sep sep : forall s cur, pieces sep cur (s ++ [sep]) = split_on sep cur s.
Proof.
  induction s as [|c s IH]; intros cur; cbn [app pieces split_on].
  - rewrite Z.eqb_refl. reflexivity.
  - destruct (c =? sep). f_equal. apply IH. apply IH.
Qed.

Lemma pieces_snoc_other sep c : (c =? sep) = false ->
  forall s cur, pieces sep cur (s ++ [c]) = split_on sep cur (s ++ [c]).
Proof.
  intros Hc. induction s as [|d s IH]; intros cur; cbn [app pieces split_on].
  - rewrite Hc. reflexivity.
  - destruct (d =? sep). f_equal. apply IH. apply IH.
Qed.

Lemma plain_frags_go_eq body : body <> [dollar] -> plain_frags_go body = plain_frags body.
Proof.
  intros Hne. unfold plain_frags_go, plain_frags, strip_dollar.
  destruct (rev body) as [|c r] eqn:E.
  - apply (f_equal (@rev Z)) in E. rewrite rev_involutive in E. subst body. reflexivity.
  - assert (body = rev r ++ [c]) as Hb.
    { rewrite <- (rev_involutive body), E. reflexivity. }
    destruct (c =? dollar) eqn:Ec; cbv zeta.
    + apply Z.eqb_eq in Ec. subst c. rewrite Hb. rewrite pieces_snoc_sep.
      destruct (rev r) as [|x t] eqn:Er. exfalso. apply Hne. rewrite Hb. reflexivity. reflexivity.
    + destruct body as [|x t]. destruct (rev r); discriminate Hb.
      cbn [nil_b]. rewrite Hb. symmetry. apply pieces_snoc_other. exact Ec.
Qed.
