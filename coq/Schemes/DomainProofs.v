Require Import GC.Base.Bytes GC.Codec.Types GC.Codec.Marshal GC.Schemes.Consts GC.Schemes.Keys GC.Schemes.Domain.

Lemma first_invalid_all e s : forallb (valid_char e) s = true <-> first_invalid e s = None.
Proof.
  induction s as [|c r IH]; simpl. tauto.
  destruct (valid_char e c); simpl. exact IH. split; discriminate.
Qed.
Lemma first_invalid_bad e s c : first_invalid e s = Some c -> forallb (valid_char e) s = false /\ bad_byte e s = c.
Proof.
  intros H. unfold bad_byte. rewrite H. split; auto.
  destruct (forallb (valid_char e) s) eqn:E; auto. apply first_invalid_all in E. congruence.
Qed.
Lemma first_invalid_spec e s c : first_invalid e s = Some c ->
  exists a b, s = a ++ c :: b /\ forallb (valid_char e) a = true /\ valid_char e c = false.
Proof.
  revert c; induction s as [|x r IH]; simpl; intros c H. discriminate.
  destruct (valid_char e x) eqn:E.
  - destruct (IH c H) as (a & b & -> & Ha & Hc). exists (x :: a), b. simpl. rewrite E. auto.
  - inversion H; subst. exists [], r. auto.
Qed.

Ltac salt_case enc salt :=
  let E := fresh "E" in let c := fresh "c" in
  destruct (first_invalid enc salt) as [c|] eqn:E;
  [ destruct (first_invalid_bad _ _ _ E) as [? ?] | pose proof (proj2 (first_invalid_all enc salt) E) ].

Ltac fin := unfold run_kdf; intros kdf; try reflexivity;
  match goal with |- context [kdf ?a ?b ?c] => destruct (kdf a b c); [left; eauto | right; reflexivity] end.

Section P.
Variable L : limits.

Theorem md5_guards pw salt : implements (fun kdf => key_md5 L kdf pw salt) (guards_md5 L pw salt).
Proof.
  unfold implements, first_failing, guards_md5, key_md5, all_hash, first_bad_hash. cbn [find fst snd].
  destruct (Z.leb_spec (len salt) (L_md5_MaxSalt L)) as [H|H];
    [rewrite (proj2 (Z.ltb_ge _ _)) by lia | rewrite (proj2 (Z.ltb_lt _ _)) by lia]; cbn [negb]; [|reflexivity].
  salt_case EncHash salt.
  - rewrite H0, H1. cbn. reflexivity.
  - rewrite H0. cbn. fin.
Qed.
End P.
