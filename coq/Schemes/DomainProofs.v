(* C14 proofs: every Key model implements its guard table (first failing guard's typed error, before any
   derivation), the guard tables are the domains, acceptance = domain for a total derivation, and the
   validity tables are exactly the alphabets. *)
Require Import GC.Base.Bytes GC.Codec.Types GC.Codec.Marshal GC.Schemes.Consts GC.Schemes.Keys GC.Schemes.Domain.

Lemma first_invalid_all e s : forallb (valid_char e) s = true <-> first_invalid e s = None.
Proof.
  induction s as [|c r IH]; simpl. tauto.
  destruct (valid_char e c); simpl. exact IH. split; discriminate.
Qed.
Lemma first_invalid_bad e s c : first_invalid e s = Some c -> forallb (valid_char e) s = false /\ bad_byte e s = c.
Proof.
  intros H. unfold bad_byte. rewrite H. split; auto.
  destruct (forallb (valid_char e) s) eqn:E; auto. apply first_invalid_all in E. congruence.
Qed.
Lemma first_invalid_spec e s c : first_invalid e s = Some c ->
  exists a b, s = a ++ c :: b /\ forallb (valid_char e) a = true /\ valid_char e c = false.
Proof.
  revert c; induction s as [|x r IH]; simpl; intros c H. discriminate.
  destruct (valid_char e x) eqn:E.
  - destruct (IH c H) as (a & b & -> & Ha & Hc). exists (x :: a), b. simpl. rewrite E. auto.
  - inversion H; subst. exists [], r. auto.
Qed.

Ltac salt_case enc salt :=
  let E := fresh "E" in let c := fresh "c" in
  destruct (first_invalid enc salt) as [c|] eqn:E;
  [ destruct (first_invalid_bad _ _ _ E) as [? ?] | pose proof (proj2 (first_invalid_all enc salt) E) ].

Ltac fin := unfold run_kdf; intros kdf; try reflexivity;
  match goal with |- context [kdf ?a ?b ?c] => destruct (kdf a b c); [left; eauto | right; reflexivity] end.

(* ---- a sharper form of [implements]: on the accepting side Key IS one run of the derivation on arguments
        that do not depend on the derivation ---- *)
Definition derives (k : kdf_t -> kres) (gs : list guard) : Prop :=
  match first_failing gs with
  | Some e => forall kdf, k kdf = KErr e
  | None => exists tag bs ns, forall kdf, k kdf = run_kdf kdf tag bs ns
  end.

Lemma derives_implements k gs : derives k gs -> implements k gs.
Proof.
  unfold derives, implements. destruct (first_failing gs); auto.
  intros (tag & bs & ns & H) kdf. rewrite H. unfold run_kdf.
  destruct (kdf tag bs ns); [left; eauto | right; reflexivity].
Qed.

Lemma first_failing_forallb gs :
  match first_failing gs with Some _ => forallb fst gs = false | None => forallb fst gs = true end.
Proof.
  unfold first_failing. induction gs as [|[b e] r IH]; simpl. reflexivity.
  destruct b; simpl. exact IH. reflexivity.
Qed.

Theorem derives_accept k gs : derives k gs -> forall kdf, total_kdf kdf -> is_kok (k kdf) = forallb fst gs.
Proof.
  unfold derives. intros H kdf T. pose proof (first_failing_forallb gs) as F.
  destruct (first_failing gs).
  - rewrite H, F. reflexivity.
  - destruct H as (tag & bs & ns & H). rewrite H, F. unfold run_kdf.
    destruct (T tag bs ns) as [key ->]. reflexivity.
Qed.

(* the two generic consequences of [implements] that do hold *)
Theorem implements_prompt k gs : implements k gs -> forallb fst gs = false ->
  forall kdf1 kdf2, k kdf1 = k kdf2.
Proof.
  unfold implements. intros H F kdf1 kdf2. pose proof (first_failing_forallb gs) as G.
  destruct (first_failing gs). rewrite (H kdf1), (H kdf2). reflexivity. congruence.
Qed.
Theorem implements_reject k gs : implements k gs -> forallb fst gs = false -> forall kdf, is_kok (k kdf) = false.
Proof.
  unfold implements. intros H F kdf. pose proof (first_failing_forallb gs) as G.
  destruct (first_failing gs). rewrite H. reflexivity. congruence.
Qed.
Theorem implements_sound k gs : implements k gs -> forall kdf, is_kok (k kdf) = true -> forallb fst gs = true.
Proof.
  intros H kdf A. destruct (forallb fst gs) eqn:F; auto.
  rewrite (implements_reject _ _ H F kdf) in A. discriminate.
Qed.
(* [implements_accept] as first stated (implements k gs -> total_kdf kdf -> is_kok (k kdf) = forallb fst gs)
   is false: [implements] allows KErr KMissing on the accepting side whatever kdf answers. *)
Remark implements_accept_refuted :
  exists k gs, implements k gs /\ forall kdf, is_kok (k kdf) <> forallb fst gs.
Proof.
  exists (fun _ => KErr KMissing), []. split.
  - unfold implements; simpl. intros; right; reflexivity.
  - simpl. discriminate.
Qed.

(* ---- closed facts on the prefix constants ---- *)
Lemma sun_z_nz : bytes_eqb m_sunmd5_PrefixZeroRounds m_sunmd5_PrefixNonZeroRounds = false. Proof. reflexivity. Qed.
Lemma bc_2b_2 : bytes_eqb m_bcrypt_Prefix2b m_bcrypt_Prefix2 = false. Proof. reflexivity. Qed.
Lemma bc_2b_2a : bytes_eqb m_bcrypt_Prefix2b m_bcrypt_Prefix2a = false. Proof. reflexivity. Qed.
Lemma ar_2id_2d : bytes_eqb m_argon2_Prefix2id m_argon2_Prefix2d = false. Proof. reflexivity. Qed.
Lemma ar_2id_2i : bytes_eqb m_argon2_Prefix2id m_argon2_Prefix2i = false. Proof. reflexivity. Qed.
Lemma ar_v13_v10 : (m_argon2_Version13 =? m_argon2_Version10) = false. Proof. reflexivity. Qed.
Lemma ar_v13_v13 : (m_argon2_Version13 =? m_argon2_Version13) = true. Proof. reflexivity. Qed.

(* the rewritten bcrypt password is empty exactly when the password is *)
Lemma bcrypt_pw_nil (b : bool) (pw : bytes) :
  (if b then firstn 72 pw else if 254 <=? len pw then repeat 48 72 else pw) = [] <-> pw = [].
Proof.
  destruct pw as [|x r].
  - destruct b; simpl; tauto.
  - destruct b. simpl; split; discriminate.
    destruct (254 <=? len (x :: r)); simpl; split; discriminate.
Qed.

Ltac unf :=
  unfold derives, first_failing, all_hash, all_b64, first_bad_hash, first_bad_b64,
         sunmd5_prefix_ok, bcrypt_prefix_ok, argon2_prefix_ok;
  cbn [find fst snd].
Ltac red1 := cbn [negb andb orb find fst snd].
Ltac salt_rw enc salt :=
  let E := fresh "E" in let c := fresh "c" in let A := fresh "A" in let B := fresh "B" in
  destruct (first_invalid enc salt) as [c|] eqn:E;
  [ destruct (first_invalid_bad _ _ _ E) as [A B]; rewrite ?A, ?B
  | pose proof (proj2 (first_invalid_all enc salt) E) as A; rewrite ?A ];
  red1.
Ltac dfin := first [ intros kdf; reflexivity | do 3 eexists; intros kdf; reflexivity ].
Ltac go :=
  rewrite ?Z.ltb_antisym; red1;
  repeat (match goal with
          | |- context [?a =? ?b] => destruct (a =? b) eqn:?
          | |- context [?a <=? ?b] => destruct (a <=? b) eqn:?
          | |- context [bytes_eqb ?a ?b] => destruct (bytes_eqb a b) eqn:?
          end; red1).

Section P.
Variable L : limits.

(* ---- Key = guard table, then one derivation ---- *)
Lemma md5_derives pw salt : derives (fun kdf => key_md5 L kdf pw salt) (guards_md5 L pw salt).
Proof. unfold guards_md5, key_md5. unf. salt_rw EncHash salt; go; dfin. Qed.

Lemma sha2_derives tag maxsalt minr maxr pw salt r :
  derives (fun kdf => key_sha2 kdf tag maxsalt minr maxr pw salt r) (guards_sha2 maxsalt minr maxr pw salt r).
Proof. unfold guards_sha2, key_sha2. unf. salt_rw EncHash salt; go; dfin. Qed.

Lemma sha256_derives pw salt r : derives (fun kdf => key_sha256 L kdf pw salt r)
  (guards_sha2 (L_sha256_MaxSalt L) (L_sha256_MinRounds L) (L_sha256_MaxRounds L) pw salt r).
Proof. apply sha2_derives. Qed.
Lemma sha512_derives pw salt r : derives (fun kdf => key_sha512 L kdf pw salt r)
  (guards_sha2 (L_sha512_MaxSalt L) (L_sha512_MinRounds L) (L_sha512_MaxRounds L) pw salt r).
Proof. apply sha2_derives. Qed.

Lemma sha1_derives rr pw salt r : derives (fun kdf => key_sha1 L kdf rr pw salt r) (guards_sha1 L rr pw salt r).
Proof.
  unfold guards_sha1, key_sha1. unf. salt_rw EncHash salt;
  destruct (r =? L_sha1_RandomRounds L); go; dfin.
Qed.

Lemma sunmd5_derives pw salt r opts :
  derives (fun kdf => key_sunmd5 L kdf pw salt r opts) (guards_sunmd5 L pw salt r opts).
Proof.
  unfold guards_sunmd5, key_sunmd5. unf. destruct opts as [[p nosep]|]; red1.
  - salt_rw EncHash salt; go; dfin.
  - destruct (r =? 0); rewrite ?sun_z_nz, ?bytes_eqb_refl; red1; salt_rw EncHash salt; go; dfin.
Qed.

Lemma des_derives pw salt : derives (fun kdf => key_des L kdf pw salt) (guards_des L pw salt).
Proof. unfold guards_des, key_des. unf. salt_rw EncHash salt; go; dfin. Qed.

Lemma desext_derives pw salt r : derives (fun kdf => key_desext L kdf pw salt r) (guards_desext L pw salt r).
Proof. unfold guards_desext, key_desext. unf. salt_rw EncHash salt; go; dfin. Qed.

Lemma bcrypt_derives pw salt c opts :
  derives (fun kdf => key_bcrypt L kdf pw salt c opts) (guards_bcrypt L pw salt c opts).
Proof.
  unfold guards_bcrypt, key_bcrypt. unf. cbv zeta.
  destruct opts as [p|]; [|rewrite bc_2b_2, bc_2b_2a, bytes_eqb_refl].
  all: match goal with |- context [if ?b then firstn 72 ?q else ?x] =>
         pose proof (bcrypt_pw_nil b q) as Hn; set (pw' := if b then firstn 72 q else x) in *; clearbody pw' end.
  all: red1; salt_rw EncHash salt; go.
  all: destruct pw' as [|y r']; destruct pw as [|x r]; cbn [app]; red1;
       try (exfalso; first [ discriminate (proj1 Hn eq_refl) | discriminate (proj2 Hn eq_refl) ]);
       dfin.
Qed.

Lemma nthash_derives enc : derives (fun kdf => key_nthash L kdf enc) (guards_nthash L enc).
Proof. unfold guards_nthash, key_nthash. unf. cbv zeta. go; dfin. Qed.

Lemma argon2_derives pw salt m t th opts :
  derives (fun kdf => key_argon2 L kdf pw salt m t th opts) (guards_argon2 L pw salt m t th opts).
Proof.
  unfold guards_argon2, key_argon2. unf. destruct opts as [[p v]|]; red1.
  - salt_rw EncBase64 salt; go; dfin.
  - rewrite ar_2id_2d, ar_2id_2i, bytes_eqb_refl, ar_v13_v10, ar_v13_v13; red1.
    salt_rw EncBase64 salt; go; dfin.
Qed.

(* ---- the stated [implements] theorems ---- *)
Theorem md5_guards pw salt : implements (fun kdf => key_md5 L kdf pw salt) (guards_md5 L pw salt).
Proof. apply derives_implements, md5_derives. Qed.
Theorem sha256_guards pw salt r : implements (fun kdf => key_sha256 L kdf pw salt r)
  (guards_sha2 (L_sha256_MaxSalt L) (L_sha256_MinRounds L) (L_sha256_MaxRounds L) pw salt r).
Proof. apply derives_implements, sha256_derives. Qed.
Theorem sha512_guards pw salt r : implements (fun kdf => key_sha512 L kdf pw salt r)
  (guards_sha2 (L_sha512_MaxSalt L) (L_sha512_MinRounds L) (L_sha512_MaxRounds L) pw salt r).
Proof. apply derives_implements, sha512_derives. Qed.
Theorem sha1_guards rr pw salt r : implements (fun kdf => key_sha1 L kdf rr pw salt r) (guards_sha1 L rr pw salt r).
Proof. apply derives_implements, sha1_derives. Qed.
Theorem sunmd5_guards pw salt r opts :
  implements (fun kdf => key_sunmd5 L kdf pw salt r opts) (guards_sunmd5 L pw salt r opts).
Proof. apply derives_implements, sunmd5_derives. Qed.
Theorem des_guards pw salt : implements (fun kdf => key_des L kdf pw salt) (guards_des L pw salt).
Proof. apply derives_implements, des_derives. Qed.
Theorem desext_guards pw salt r : implements (fun kdf => key_desext L kdf pw salt r) (guards_desext L pw salt r).
Proof. apply derives_implements, desext_derives. Qed.
Theorem bcrypt_guards pw salt c opts :
  implements (fun kdf => key_bcrypt L kdf pw salt c opts) (guards_bcrypt L pw salt c opts).
Proof. apply derives_implements, bcrypt_derives. Qed.
Theorem nthash_guards enc : implements (fun kdf => key_nthash L kdf enc) (guards_nthash L enc).
Proof. apply derives_implements, nthash_derives. Qed.
Theorem argon2_guards pw salt m t th opts :
  implements (fun kdf => key_argon2 L kdf pw salt m t th opts) (guards_argon2 L pw salt m t th opts).
Proof. apply derives_implements, argon2_derives. Qed.

(* ---- guard tables = domains ---- *)
Ltac domt := cbn [forallb fst]; rewrite ?andb_true_r, ?andb_assoc; reflexivity.

Theorem md5_dom pw salt : dom_md5 L pw salt = forallb fst (guards_md5 L pw salt).
Proof. unfold dom_md5, guards_md5. domt. Qed.
Theorem sha256_dom pw salt r : dom_sha256 L pw salt r =
  forallb fst (guards_sha2 (L_sha256_MaxSalt L) (L_sha256_MinRounds L) (L_sha256_MaxRounds L) pw salt r).
Proof. unfold dom_sha256, guards_sha2. domt. Qed.
Theorem sha512_dom pw salt r : dom_sha512 L pw salt r =
  forallb fst (guards_sha2 (L_sha512_MaxSalt L) (L_sha512_MinRounds L) (L_sha512_MaxRounds L) pw salt r).
Proof. unfold dom_sha512, guards_sha2. domt. Qed.
Theorem sha1_dom rr pw salt r : dom_sha1 L rr pw salt r = forallb fst (guards_sha1 L rr pw salt r).
Proof. unfold dom_sha1, guards_sha1. domt. Qed.
Theorem sunmd5_dom pw salt r opts : dom_sunmd5 L pw salt r opts = forallb fst (guards_sunmd5 L pw salt r opts).
Proof. unfold dom_sunmd5, guards_sunmd5. domt. Qed.
Theorem des_dom pw salt : dom_des L pw salt = forallb fst (guards_des L pw salt).
Proof. unfold dom_des, guards_des. domt. Qed.
Theorem desext_dom pw salt r : dom_desext L pw salt r = forallb fst (guards_desext L pw salt r).
Proof. unfold dom_desext, guards_desext. domt. Qed.
Theorem bcrypt_dom pw salt c opts : dom_bcrypt L pw salt c opts = forallb fst (guards_bcrypt L pw salt c opts).
Proof. unfold dom_bcrypt, guards_bcrypt. domt. Qed.
Theorem nthash_dom enc : dom_nthash L enc = forallb fst (guards_nthash L enc).
Proof. unfold dom_nthash, guards_nthash. domt. Qed.
Theorem argon2_dom pw salt m t th opts :
  dom_argon2 L pw salt m t th opts = forallb fst (guards_argon2 L pw salt m t th opts).
Proof. unfold dom_argon2, guards_argon2. destruct opts as [[p v]|]; cbn [andb]; domt. Qed.

(* ---- acceptance = domain, for a derivation that always answers ---- *)
Theorem md5_accept kdf pw salt : total_kdf kdf -> is_kok (key_md5 L kdf pw salt) = dom_md5 L pw salt.
Proof. intros T. rewrite md5_dom. exact (derives_accept _ _ (md5_derives pw salt) kdf T). Qed.
Theorem sha256_accept kdf pw salt r : total_kdf kdf -> is_kok (key_sha256 L kdf pw salt r) = dom_sha256 L pw salt r.
Proof. intros T. rewrite sha256_dom. exact (derives_accept _ _ (sha256_derives pw salt r) kdf T). Qed.
Theorem sha512_accept kdf pw salt r : total_kdf kdf -> is_kok (key_sha512 L kdf pw salt r) = dom_sha512 L pw salt r.
Proof. intros T. rewrite sha512_dom. exact (derives_accept _ _ (sha512_derives pw salt r) kdf T). Qed.
Theorem sha1_accept kdf rr pw salt r : total_kdf kdf -> is_kok (key_sha1 L kdf rr pw salt r) = dom_sha1 L rr pw salt r.
Proof. intros T. rewrite sha1_dom. exact (derives_accept _ _ (sha1_derives rr pw salt r) kdf T). Qed.
Theorem sunmd5_accept kdf pw salt r opts :
  total_kdf kdf -> is_kok (key_sunmd5 L kdf pw salt r opts) = dom_sunmd5 L pw salt r opts.
Proof. intros T. rewrite sunmd5_dom. exact (derives_accept _ _ (sunmd5_derives pw salt r opts) kdf T). Qed.
Theorem des_accept kdf pw salt : total_kdf kdf -> is_kok (key_des L kdf pw salt) = dom_des L pw salt.
Proof. intros T. rewrite des_dom. exact (derives_accept _ _ (des_derives pw salt) kdf T). Qed.
Theorem desext_accept kdf pw salt r : total_kdf kdf -> is_kok (key_desext L kdf pw salt r) = dom_desext L pw salt r.
Proof. intros T. rewrite desext_dom. exact (derives_accept _ _ (desext_derives pw salt r) kdf T). Qed.
Theorem bcrypt_accept kdf pw salt c opts :
  total_kdf kdf -> is_kok (key_bcrypt L kdf pw salt c opts) = dom_bcrypt L pw salt c opts.
Proof. intros T. rewrite bcrypt_dom. exact (derives_accept _ _ (bcrypt_derives pw salt c opts) kdf T). Qed.
Theorem nthash_accept kdf enc : total_kdf kdf -> is_kok (key_nthash L kdf enc) = dom_nthash L enc.
Proof. intros T. rewrite nthash_dom. exact (derives_accept _ _ (nthash_derives enc) kdf T). Qed.
Theorem argon2_accept kdf pw salt m t th opts :
  total_kdf kdf -> is_kok (key_argon2 L kdf pw salt m t th opts) = dom_argon2 L pw salt m t th opts.
Proof. intros T. rewrite argon2_dom. exact (derives_accept _ _ (argon2_derives pw salt m t th opts) kdf T). Qed.
End P.

(* ---- the validity tables are exactly the alphabets (sweep over all 256 byte values) ---- *)
Definition range256 : list Z := map Z.of_nat (seq 0 256).
Lemma in_range256 c : 0 <= c < 256 -> In c range256.
Proof.
  intros H. unfold range256. apply in_map_iff. exists (Z.to_nat c). split. lia. apply in_seq. lia.
Qed.
Lemma sweep256 (f g : Z -> bool) :
  forallb (fun c => Bool.eqb (f c) (g c)) range256 = true -> forall c, 0 <= c < 256 -> f c = g c.
Proof.
  intros H c Hc. rewrite forallb_forall in H. apply eqb_prop. apply H. apply in_range256. exact Hc.
Qed.

Theorem hash_alphabet_exact : forall c, 0 <= c < 256 -> (valid_char EncHash c = true <-> In c crypt_alphabet).
Proof.
  intros c Hc. rewrite <- mem_In.
  rewrite (sweep256 (valid_char EncHash) (fun c => mem c crypt_alphabet)); [tauto| |exact Hc].
  vm_compute; reflexivity.
Qed.
Theorem base64_alphabet_exact : forall c, 0 <= c < 256 -> (valid_char EncBase64 c = true <-> In c base64_std_alphabet).
Proof.
  intros c Hc. rewrite <- mem_In.
  rewrite (sweep256 (valid_char EncBase64) (fun c => mem c base64_std_alphabet)); [tauto| |exact Hc].
  vm_compute; reflexivity.
Qed.

Print Assumptions md5_guards. Print Assumptions sha256_guards. Print Assumptions sha512_guards.
Print Assumptions sha1_guards. Print Assumptions sunmd5_guards. Print Assumptions des_guards.
Print Assumptions desext_guards. Print Assumptions bcrypt_guards. Print Assumptions nthash_guards.
Print Assumptions argon2_guards.
Print Assumptions md5_dom. Print Assumptions sha256_dom. Print Assumptions sha512_dom.
Print Assumptions sha1_dom. Print Assumptions sunmd5_dom. Print Assumptions des_dom.
Print Assumptions desext_dom. Print Assumptions bcrypt_dom. Print Assumptions nthash_dom.
Print Assumptions argon2_dom.
Print Assumptions md5_accept. Print Assumptions sha256_accept. Print Assumptions sha512_accept.
Print Assumptions sha1_accept. Print Assumptions sunmd5_accept. Print Assumptions des_accept.
Print Assumptions desext_accept. Print Assumptions bcrypt_accept. Print Assumptions nthash_accept.
Print Assumptions argon2_accept.
Print Assumptions derives_accept. Print Assumptions implements_prompt. Print Assumptions implements_reject.
Print Assumptions implements_sound. Print Assumptions implements_accept_refuted.
Print Assumptions hash_alphabet_exact. Print Assumptions base64_alphabet_exact.
