(* kdf_ok for the concrete derivation [kdf_models] (ConcreteBase.v), scheme by scheme, from the contracts of the
   hash primitives only; and the C01 theorems "a freshly generated hash verifies" instantiated with it.
   This file: md5, sha256, sha512, sha1, des, desext, nthash. *)
Require Import GC.Schemes.FreshBase GC.Schemes.FreshPlain GC.Schemes.ConcreteBase.
Require Import GC.Kdf.KdfBase GC.Kdf.KdfBaseProofs GC.Extract.Wrap.
Require GC.Kdf.Md5Crypt GC.Kdf.Md5CryptProofs GC.Kdf.Sha2Crypt GC.Kdf.Sha2CryptProofs GC.Kdf.Sha1Crypt GC.Kdf.Sha1CryptProofs
        GC.Kdf.DesCrypt GC.Kdf.SafeDes GC.Kdf.NtHash GC.Kdf.SafeNtHash.

(* ------------------------------------------------------------------ *)
(* the control-code models return bytes when the primitives do          *)
(* ------------------------------------------------------------------ *)
Lemma md5_rounds_wf H n : (forall x, wf_bytes (H x) = true) ->
  forall pw salt d i, wf_bytes d = true -> wf_bytes (Md5Crypt.rounds H n pw salt d i) = true.
Proof.
  intros HH. induction n as [|n IH]; intros pw salt d i Hd; cbn [Md5Crypt.rounds]. exact Hd.
  apply IH. unfold Md5Crypt.round. apply HH.
Qed.

Lemma sha2_spec_rounds_wf H n : (forall x, wf_bytes (H x) = true) ->
  forall p s prev i, wf_bytes prev = true -> wf_bytes (Sha2Crypt.spec_rounds H n p s prev i) = true.
Proof.
  intros HH. induction n as [|n IH]; intros p s prev i Hd; cbn [Sha2Crypt.spec_rounds]. exact Hd.
  apply IH. unfold Sha2Crypt.spec_round. apply HH.
Qed.

Lemma sha1_spec_iter_wf HM n pw b : (forall k x, wf_bytes (HM k x) = true) -> wf_bytes b = true ->
  wf_bytes (Sha1Crypt.spec_iter HM n pw b) = true.
Proof. intros HH Hb. destruct n; cbn [Sha1Crypt.spec_iter]. exact Hb. apply HH. Qed.

Lemma md5_perm_range : Forall (fun j => 0 <= j < 16) m_md5_permFinal.
Proof. apply Forall_range_b. reflexivity. Qed.
Lemma sha256_perm_range : Forall (fun j => 0 <= j < 32) m_sha256_permFinal.
Proof. apply Forall_range_b. reflexivity. Qed.
Lemma sha512_perm_range : Forall (fun j => 0 <= j < 64) m_sha512_permFinal.
Proof. apply Forall_range_b. reflexivity. Qed.
Lemma sha1_perm_range : Forall (fun j => 0 <= j < 20) m_sha1_permFinal.
Proof. apply Forall_range_b. reflexivity. Qed.

(* md5crypt.Encrypt: total, |permFinal| bytes *)
Lemma md5crypt_ok H perm pw salt prefix : hash_contract H 16 -> Forall (fun j => 0 <= j < 16) perm ->
  exists k, Md5Crypt.Encrypt H perm pw salt prefix = Some k /\ length k = length perm /\ wf_bytes k = true.
Proof.
  intros HH Hperm.
  assert (forall x, length (H x) = 16%nat) as HL by (intros x; apply HH).
  assert (forall x, wf_bytes (H x) = true) as HW by (intros x; apply HH).
  destruct (Md5CryptProofs.md5crypt_total H perm pw salt prefix HL Hperm) as (k & E & Lk).
  exists k. split. exact E. split. exact Lk.
  rewrite Md5CryptProofs.md5crypt_impl_spec in E by exact HL. unfold Md5Crypt.spec_Encrypt in E.
  eapply permute_wf; [|exact E]. apply md5_rounds_wf. exact HW. apply HW.
Qed.

(* sha2crypt.Encrypt: total for EVERY round count (a non-positive count runs no round) *)
Lemma sha2crypt_ok H (hs : nat) pw salt nrounds perm : (0 < hs)%nat -> hash_contract H hs ->
  Forall (fun j => 0 <= j < Z.of_nat hs) perm ->
  exists k, Sha2Crypt.Encrypt H (Z.of_nat hs) pw salt nrounds perm = Some k /\ length k = length perm /\ wf_bytes k = true.
Proof.
  intros Hhs HH Hperm.
  assert (forall x, Z.of_nat (length (H x)) = Z.of_nat hs) as HL by (intros x; f_equal; apply HH).
  assert (forall x, wf_bytes (H x) = true) as HW by (intros x; apply HH).
  assert (0 < Z.of_nat hs) as Hpos by lia.
  destruct (Z_le_gt_dec nrounds 0) as [Hn|Hn].
  - rewrite (Sha2CryptProofs.sha2crypt_zero_rounds H (Z.of_nat hs)) by assumption.
    destruct (permute_some (H (Sha2Crypt.repeat_bytes (length pw) pw)) perm) as (k & E & Lk).
    { rewrite HL. exact Hperm. }
    exists k. split. exact E. split. exact Lk. eapply permute_wf; [|exact E]. apply HW.
  - rewrite (Sha2CryptProofs.sha2crypt_impl_spec H (Z.of_nat hs)) by (try assumption; lia).
    unfold Sha2Crypt.spec_Encrypt. cbv zeta.
    match goal with |- context [permute ?b perm] => set (d := b) end.
    assert (Z.of_nat (length d) = Z.of_nat hs) as Ld.
    { unfold d. apply (Sha2CryptProofs.spec_rounds_length H (Z.of_nat hs)). exact HL. apply HL. }
    assert (wf_bytes d = true) as Wd.
    { unfold d. apply sha2_spec_rounds_wf. exact HW. apply HW. }
    destruct (permute_some d perm) as (k & E & Lk).
    { rewrite Ld. exact Hperm. }
    exists k. split. exact E. split. exact Lk. eapply permute_wf; [exact Wd|exact E].
Qed.

(* sha1.Key's derivation *)
Lemma sha1crypt_ok HM prefix perm pw salt rounds : mac_contract HM 20 -> Forall (fun j => 0 <= j < 20) perm ->
  exists k, Sha1Crypt.Key HM prefix perm pw salt rounds = Some k /\ length k = length perm /\ wf_bytes k = true.
Proof.
  intros HH Hperm.
  assert (forall k d, length (HM k d) = 20%nat) as HL by (intros k d; apply HH).
  assert (forall k d, wf_bytes (HM k d) = true) as HW by (intros k d; apply HH).
  destruct (Sha1CryptProofs.sha1crypt_total HM prefix perm pw salt rounds HL Hperm) as (k & E & Lk).
  exists k. split. exact E. split. exact Lk.
  rewrite Sha1CryptProofs.sha1crypt_impl_spec in E. unfold Sha1Crypt.spec_Key in E.
  eapply permute_wf; [|exact E]. apply sha1_spec_iter_wf. exact HW. apply HW.
Qed.

(* binary.BigEndian.PutUint64: eight bytes whatever the word *)
Lemma be8_wf v : wf_bytes (DesCrypt.be8 v) = true.
Proof.
  unfold DesCrypt.be8. apply wf_bytes_forall. apply Forall_forall. intros b Hb.
  apply in_map_iff in Hb. destruct Hb as (k & <- & _). apply Z.mod_pos_bound. lia.
Qed.

(* ------------------------------------------------------------------ *)
(* kdf_ok for the concrete derivation                                  *)
(* ------------------------------------------------------------------ *)
Section Concrete.
Variables MD5 SHA256 SHA512 MD4 : bytes -> bytes.
Variable HMAC1 : bytes -> bytes -> bytes.
Variable C : Type.
Variable bf_new : bytes -> bytes -> option C.
Variable bf_expand : bytes -> C -> C.
Variable bf_encrypt : C -> bytes -> bytes.
Variable B2 : Z -> bytes -> bytes.

Local Notation KDF := (kdf_models MD5 SHA256 SHA512 MD4 HMAC1 C bf_new bf_expand bf_encrypt B2).

Theorem kdf_models_ok_md5 : hash_contract MD5 16 -> kdf_ok KDF T_md5 16.
Proof.
  intros HH bs ns. rewrite kdf_models_md5. unfold x_md5crypt.
  apply (md5crypt_ok MD5 m_md5_permFinal _ _ _ HH md5_perm_range).
Qed.

Theorem kdf_models_ok_sha256 : hash_contract SHA256 32 -> kdf_ok KDF T_sha256 32.
Proof.
  intros HH bs ns. rewrite kdf_models_sha256. unfold x_sha256crypt.
  apply (sha2crypt_ok SHA256 32 _ _ _ m_sha256_permFinal ltac:(lia) HH sha256_perm_range).
Qed.

Theorem kdf_models_ok_sha512 : hash_contract SHA512 64 -> kdf_ok KDF T_sha512 64.
Proof.
  intros HH bs ns. rewrite kdf_models_sha512. unfold x_sha512crypt.
  apply (sha2crypt_ok SHA512 64 _ _ _ m_sha512_permFinal ltac:(lia) HH sha512_perm_range).
Qed.

Theorem kdf_models_ok_sha1 : mac_contract HMAC1 20 -> kdf_ok KDF T_sha1 21.
Proof.
  intros HH bs ns. rewrite kdf_models_sha1. unfold x_sha1crypt.
  apply (sha1crypt_ok HMAC1 m_sha1_Prefix m_sha1_permFinal _ _ _ HH sha1_perm_range).
Qed.

(* DES and extended DES use no primitive: the tables are the committed ones, the result is be8 of a word *)
Theorem kdf_models_ok_des : kdf_ok KDF T_des 8.
Proof.
  intros bs ns. rewrite kdf_models_des. eexists. split. reflexivity.
  unfold x_des, DesCrypt.des_derive. split. apply SafeDes.be8_length. apply be8_wf.
Qed.

Theorem kdf_models_ok_desext : kdf_ok KDF T_desext 8.
Proof.
  intros bs ns. rewrite kdf_models_desext. eexists. split. reflexivity.
  unfold x_desext, DesCrypt.desext_derive. split. apply SafeDes.be8_length. apply be8_wf.
Qed.

Theorem kdf_models_ok_nthash : hash_contract MD4 16 -> kdf_ok KDF T_nthash 16.
Proof.
  intros HH bs ns. rewrite kdf_models_nthash. eexists. split. reflexivity. apply HH.
Qed.

(* ------------------------------------------------------------------ *)
(* C01 on the concrete derivation: only the primitives' contracts left *)
(* ------------------------------------------------------------------ *)
Theorem md5_fresh_verifies_concrete : forall stream pw,
  hash_contract MD5 16 -> good_stream stream 8 ->
  exists h, newhash_md5 L0 KDF stream pw = NOk h /\ check_md5 L0 KDF h pw = VMatch /\
            prefix_of h = Some m_md5_Prefix /\ In (m_md5_Prefix, S_md5) documented_registrations.
Proof. intros stream pw HH Hs. apply md5_fresh_verifies. apply kdf_models_ok_md5, HH. exact Hs. Qed.

Theorem sha256_fresh_verifies_concrete : forall stream pw rounds,
  hash_contract SHA256 32 -> good_stream stream 16 ->
  L_sha256_MinRounds L0 <= rounds <= L_sha256_MaxRounds L0 ->
  exists h, newhash_sha256 L0 KDF stream pw rounds = NOk h /\ check_sha256 L0 KDF h pw = VMatch /\
            prefix_of h = Some m_sha256_Prefix /\ In (m_sha256_Prefix, S_sha256) documented_registrations.
Proof. intros stream pw rounds HH Hs Hr. apply sha256_fresh_verifies. apply kdf_models_ok_sha256, HH. exact Hs. exact Hr. Qed.

Theorem sha512_fresh_verifies_concrete : forall stream pw rounds,
  hash_contract SHA512 64 -> good_stream stream 16 ->
  L_sha512_MinRounds L0 <= rounds <= L_sha512_MaxRounds L0 ->
  exists h, newhash_sha512 L0 KDF stream pw rounds = NOk h /\ check_sha512 L0 KDF h pw = VMatch /\
            prefix_of h = Some m_sha512_Prefix /\ In (m_sha512_Prefix, S_sha512) documented_registrations.
Proof. intros stream pw rounds HH Hs Hr. apply sha512_fresh_verifies. apply kdf_models_ok_sha512, HH. exact Hs. exact Hr. Qed.

Theorem sha1_fresh_verifies_concrete : forall stream pw rounds,
  mac_contract HMAC1 20 -> good_stream stream 8 ->
  L_sha1_MinRounds L0 <= rounds < 2 ^ 32 -> rounds <> L_sha1_RandomRounds L0 ->
  forall rr,
  exists h, newhash_sha1 L0 KDF stream pw rounds = NOk h /\ check_sha1 L0 KDF rr h pw = VMatch /\
            prefix_of h = Some m_sha1_Prefix /\ In (m_sha1_Prefix, S_sha1) documented_registrations.
Proof.
  intros stream pw rounds HH Hs Hr Hne. apply sha1_fresh_verifies. apply kdf_models_ok_sha1, HH. exact Hs. exact Hr. exact Hne.
Qed.

Theorem sha1_random_fresh_verifies_concrete : forall stream pw,
  mac_contract HMAC1 20 -> good_stream stream 12 ->
  forall rr,
  exists h, newhash_sha1 L0 KDF stream pw (L_sha1_RandomRounds L0) = NOk h /\ check_sha1 L0 KDF rr h pw = VMatch /\
            prefix_of h = Some m_sha1_Prefix /\ In (m_sha1_Prefix, S_sha1) documented_registrations.
Proof. intros stream pw HH Hs. apply sha1_random_fresh_verifies. apply kdf_models_ok_sha1, HH. exact Hs. Qed.

Theorem des_fresh_verifies_concrete : forall stream pw,
  good_stream stream 2 -> len pw <= L_des_MaxPw L0 ->
  exists h, newhash_des L0 KDF stream pw = NOk h /\ check_des L0 KDF h pw = VMatch /\
            prefix_of h = Some m_des_Prefix /\ In (m_des_Prefix, S_des) documented_registrations.
Proof. intros stream pw Hs Hp. apply des_fresh_verifies. apply kdf_models_ok_des. exact Hs. exact Hp. Qed.

Theorem desext_fresh_verifies_concrete : forall stream pw rounds,
  good_stream stream 4 -> L_desext_MinRounds L0 <= rounds <= L_desext_MaxRounds L0 ->
  exists h, newhash_desext L0 KDF stream pw rounds = NOk h /\ check_desext L0 KDF h pw = VMatch /\
            prefix_of h = Some m_desext_Prefix /\ In (m_desext_Prefix, S_desext) documented_registrations.
Proof. intros stream pw rounds Hs Hr. apply desext_fresh_verifies. apply kdf_models_ok_desext. exact Hs. exact Hr. Qed.

(* nthash, with the password encoder abstract as in nthash_fresh_verifies ... *)
Theorem nthash_fresh_verifies_concrete : forall nt pw,
  hash_contract MD4 16 -> len (nt pw) mod 2 = 0 -> len (nt pw) <= L_nthash_MaxPw L0 ->
  exists h, newhash_nthash L0 KDF nt pw = NOk h /\ check_nthash L0 KDF nt h pw = VMatch /\
            prefix_of h = Some m_nthash_Prefix /\ In (m_nthash_Prefix, S_nthash) documented_registrations.
Proof. intros nt pw HH H2 Hl. apply nthash_fresh_verifies. apply kdf_models_ok_nthash, HH. exact H2. exact Hl. Qed.

(* ... and with the modelled encoder (Go string -> runes -> UTF-16LE, Kdf/NtHash.v): every password of at most
   128 bytes (its encoding has at most 256) *)
Theorem nthash_fresh_verifies_concrete_enc : forall pw,
  hash_contract MD4 16 -> (length pw <= 128)%nat ->
  exists h, newhash_nthash L0 KDF x_nt_encode pw = NOk h /\ check_nthash L0 KDF x_nt_encode h pw = VMatch /\
            prefix_of h = Some m_nthash_Prefix /\ In (m_nthash_Prefix, S_nthash) documented_registrations.
Proof.
  intros pw HH Hl. apply nthash_fresh_verifies_concrete. exact HH.
  - unfold x_nt_encode, len. destruct (SafeNtHash.encodePassword_length_even pw) as (m & E). rewrite E.
    rewrite Nat2Z.inj_mul. change (Z.of_nat 2) with 2. rewrite Z.mul_comm. apply Z_mod_mult.
  - unfold x_nt_encode, len. pose proof (SafeNtHash.encodePassword_length_le2 pw) as H2.
    change (L_nthash_MaxPw L0) with 256. lia.
Qed.
End Concrete.

Print Assumptions kdf_models_ok_md5.
Print Assumptions kdf_models_ok_sha256.
Print Assumptions kdf_models_ok_sha512.
Print Assumptions kdf_models_ok_sha1.
Print Assumptions kdf_models_ok_des.
Print Assumptions kdf_models_ok_desext.
Print Assumptions kdf_models_ok_nthash.
Print Assumptions md5_fresh_verifies_concrete.
Print Assumptions sha256_fresh_verifies_concrete.
Print Assumptions sha512_fresh_verifies_concrete.
Print Assumptions sha1_fresh_verifies_concrete.
Print Assumptions sha1_random_fresh_verifies_concrete.
Print Assumptions des_fresh_verifies_concrete.
Print Assumptions desext_fresh_verifies_concrete.
Print Assumptions nthash_fresh_verifies_concrete.
Print Assumptions nthash_fresh_verifies_concrete_enc.
