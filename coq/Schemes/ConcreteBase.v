(* The CONCRETE derivation: one [kdf_t] that dispatches on the scheme tag and runs the Kdf/*.v control-code
   models on the committed constants (Extract/Wrap.v), with only the hash primitives left as parameters.
   This file: the definition, the primitives' contracts, and the generic facts shared by the per-scheme
   files (ConcretePlain.v, ConcreteOther.v).  Argument lists are the ones Schemes/Keys.v passes to run_kdf. *)
Require Import GC.Base.Bytes GC.Codec.Types GC.Codec.Codec GC.Schemes.Consts GC.Schemes.Layouts GC.Schemes.Keys
               GC.Schemes.Encoders GC.Kdf.KdfBase GC.Kdf.KdfBaseProofs GC.Extract.Wrap.

(* ------------------------------------------------------------------ *)
(* 1. contracts of the primitives                                      *)
(* ------------------------------------------------------------------ *)
(* a hash function: n output bytes, each in 0..255 *)
Definition hash_contract (H : bytes -> bytes) (n : nat) : Prop :=
  forall x, length (H x) = n /\ wf_bytes (H x) = true.
(* a keyed hash (HMAC) *)
Definition mac_contract (HM : bytes -> bytes -> bytes) (n : nat) : Prop :=
  forall k x, length (HM k x) = n /\ wf_bytes (HM k x) = true.
(* BLAKE2b with a caller-chosen digest size (golang.org/x/crypto/blake2b.New(n, nil)), 1 <= n <= 64 *)
Definition blake2b_contract (B2 : Z -> bytes -> bytes) : Prop :=
  forall n x, 1 <= n <= 64 -> length (B2 n x) = Z.to_nat n /\ wf_bytes (B2 n x) = true.
(* Blowfish: NewSaltedCipher(key, salt) fails only for an empty key (with a non-empty salt; x/crypto
   blowfish/cipher.go: "if k := len(key); k < 1 { return nil, KeySizeError(k) }"), and Encrypt maps an
   8-byte block to an 8-byte block *)
Definition blowfish_contract (C : Type) (bf_new : bytes -> bytes -> option C) (bf_encrypt : C -> bytes -> bytes) : Prop :=
  (forall key salt, key <> [] -> salt <> [] -> exists c, bf_new key salt = Some c) /\
  (forall c b, length (bf_encrypt c b) = length b) /\
  (forall c b, wf_bytes (bf_encrypt c b) = true).

(* ------------------------------------------------------------------ *)
(* 2. the concrete derivation                                          *)
(* ------------------------------------------------------------------ *)
Definition barg (bs : list bytes) (k : nat) : bytes := nth k bs [].
Definition narg (ns : list Z) (k : nat) : Z := nth k ns 0.

(* sunmd5.Key: saltString, _ := crypthash.Marshal(saltScheme{HashPrefix, Rounds, Salt, Separator}) with
   Separator = &"" unless DisableSaltSeparator (then nil).  The codec model renders it; an error gives "". *)
Definition sunmd5_saltstring (prefix salt : bytes) (rounds : Z) (nosep : bool) : bytes :=
  match marshal_top std_cb m_layout_sunmd5_salt
          {| sv_fields := [([0%nat], VStr prefix); ([1%nat], VUint rounds); ([2%nat], VBytes salt);
                           ([3%nat], if nosep then VNil else VStr [])];
             sv_embnil := [] |} with
  | Ok s => s
  | _ => []
  end.

(* argon2.Key: mode from the prefix (the guards admit only these three; anything else cannot reach here) *)
Definition argon2_mode (prefix : bytes) : Z :=
  if bytes_eqb prefix m_argon2_Prefix2d then 0
  else if bytes_eqb prefix m_argon2_Prefix2i then 1
  else 2.

Section Models.
Variables MD5 SHA256 SHA512 MD4 : bytes -> bytes.
Variable HMAC1 : bytes -> bytes -> bytes.                 (* HMAC-SHA1 key data *)
Variable C : Type.
Variable bf_new : bytes -> bytes -> option C.
Variable bf_expand : bytes -> C -> C.
Variable bf_encrypt : C -> bytes -> bytes.
Variable B2 : Z -> bytes -> bytes.

Definition kdf_models : kdf_t := fun tag bs ns =>
  if tag =? T_md5 then x_md5crypt MD5 (barg bs 0) (barg bs 1)
  else if tag =? T_sha256 then x_sha256crypt SHA256 (barg bs 0) (barg bs 1) (narg ns 0)
  else if tag =? T_sha512 then x_sha512crypt SHA512 (barg bs 0) (barg bs 1) (narg ns 0)
  else if tag =? T_sha1 then x_sha1crypt HMAC1 (barg bs 0) (barg bs 1) (narg ns 0)
  else if tag =? T_sunmd5 then
    x_sunmd5 MD5 (barg bs 0) (sunmd5_saltstring (barg bs 2) (barg bs 1) (narg ns 0) (negb (narg ns 1 =? 0))) (narg ns 0)
  else if tag =? T_des then Some (x_des (barg bs 0) (barg bs 1))
  else if tag =? T_desext then Some (x_desext (barg bs 0) (barg bs 1) (narg ns 0))
  else if tag =? T_bcrypt then x_bcrypt C bf_new bf_expand bf_encrypt (barg bs 0) (barg bs 1) (narg ns 0)
  else if tag =? T_nthash then Some (MD4 (barg bs 0))
  else if tag =? T_argon2 then
    (* [pw; salt; prefix] [version; memory; time; threads]; decSalt = RawStdEncoding.Decode(salt), keyLen = 32 *)
    Some (x_argon2 B2 (argon2_mode (barg bs 2)) (narg ns 0) (barg bs 0)
                   (be64_decode base64_std_alphabet (barg bs 1)) (narg ns 2) (narg ns 1) (narg ns 3) m_argon2_keyLen)
  else None.

(* the dispatch, tag by tag *)
Lemma kdf_models_md5 bs ns : kdf_models T_md5 bs ns = x_md5crypt MD5 (barg bs 0) (barg bs 1).
Proof. reflexivity. Qed.
Lemma kdf_models_sha256 bs ns : kdf_models T_sha256 bs ns = x_sha256crypt SHA256 (barg bs 0) (barg bs 1) (narg ns 0).
Proof. reflexivity. Qed.
Lemma kdf_models_sha512 bs ns : kdf_models T_sha512 bs ns = x_sha512crypt SHA512 (barg bs 0) (barg bs 1) (narg ns 0).
Proof. reflexivity. Qed.
Lemma kdf_models_sha1 bs ns : kdf_models T_sha1 bs ns = x_sha1crypt HMAC1 (barg bs 0) (barg bs 1) (narg ns 0).
Proof. reflexivity. Qed.
Lemma kdf_models_sunmd5 bs ns : kdf_models T_sunmd5 bs ns =
  x_sunmd5 MD5 (barg bs 0) (sunmd5_saltstring (barg bs 2) (barg bs 1) (narg ns 0) (negb (narg ns 1 =? 0))) (narg ns 0).
Proof. reflexivity. Qed.
Lemma kdf_models_des bs ns : kdf_models T_des bs ns = Some (x_des (barg bs 0) (barg bs 1)).
Proof. reflexivity. Qed.
Lemma kdf_models_desext bs ns : kdf_models T_desext bs ns = Some (x_desext (barg bs 0) (barg bs 1) (narg ns 0)).
Proof. reflexivity. Qed.
Lemma kdf_models_bcrypt bs ns : kdf_models T_bcrypt bs ns =
  x_bcrypt C bf_new bf_expand bf_encrypt (barg bs 0) (barg bs 1) (narg ns 0).
Proof. reflexivity. Qed.
Lemma kdf_models_nthash bs ns : kdf_models T_nthash bs ns = Some (MD4 (barg bs 0)).
Proof. reflexivity. Qed.
Lemma kdf_models_argon2 bs ns : kdf_models T_argon2 bs ns =
  Some (x_argon2 B2 (argon2_mode (barg bs 2)) (narg ns 0) (barg bs 0)
                 (be64_decode base64_std_alphabet (barg bs 1)) (narg ns 2) (narg ns 1) (narg ns 3) m_argon2_keyLen).
Proof. reflexivity. Qed.
End Models.

(* ------------------------------------------------------------------ *)
(* 3. generic facts                                                    *)
(* ------------------------------------------------------------------ *)
Lemma wf_byte_iff b : wf_byte b = true <-> 0 <= b < 256.
Proof.
  unfold wf_byte. rewrite andb_true_iff, Z.leb_le, Z.ltb_lt. tauto.
Qed.

Lemma wf_bytes_forall s : wf_bytes s = true <-> Forall (fun b => 0 <= b < 256) s.
Proof.
  unfold wf_bytes. rewrite forallb_forall, Forall_forall. split; intros H b Hb; apply wf_byte_iff, H, Hb.
Qed.

Lemma wf_bytes_nth s k : wf_bytes s = true -> (k < length s)%nat -> 0 <= nth k s 0 < 256.
Proof.
  intros H Hk. apply wf_bytes_forall in H. rewrite Forall_forall in H. apply H, nth_In, Hk.
Qed.

(* cryptoutil.Permute picks bytes of its input *)
Lemma permute_wf : forall b t k, wf_bytes b = true -> permute b t = Some k -> wf_bytes k = true.
Proof.
  intros b t; induction t as [|j r IH]; intros k Hb; cbn [permute].
  - intros E; inversion E; reflexivity.
  - destruct ((0 <=? j) && (j <? Z.of_nat (length b))) eqn:Ej; [|discriminate].
    destruct (permute b r) as [x|]; [|discriminate].
    intros E; inversion E; subst; clear E.
    apply andb_true_iff in Ej. destruct Ej as [E0 E1]. apply Z.leb_le in E0. apply Z.ltb_lt in E1.
    cbn [wf_bytes forallb]. apply andb_true_iff. split.
    + apply wf_byte_iff, wf_bytes_nth. exact Hb. lia.
    + apply (IH x Hb eq_refl).
Qed.

Lemma Forall_range_b (lo hi : Z) (l : list Z) :
  forallb (fun j => (lo <=? j) && (j <? hi)) l = true -> Forall (fun j => lo <= j < hi) l.
Proof.
  intros H. apply Forall_forall. intros j Hj. rewrite forallb_forall in H. specialize (H j Hj).
  apply andb_true_iff in H. destruct H as [A B]. apply Z.leb_le in A. apply Z.ltb_lt in B. lia.
Qed.
