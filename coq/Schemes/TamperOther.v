(* C02, second sentence, for bcrypt, sunmd5 and argon2 (same statements per scheme as in TamperPlain.v). *)
Require Import GC.Schemes.FreshBase GC.Schemes.FreshPlain GC.Schemes.FreshOther GC.Schemes.TamperPlain.
Require Import GC.Schemes.RandProofs GC.Schemes.NoPanic.

Local Notation salt_ok s := (in_alpha EncHash s = true).
Local Notation benc := (be64_encode bcrypt_std_alphabet).
Local Notation aenc := (be64_encode base64_std_alphabet).

(* ================================================================== bcrypt *)
Lemma bcrypt_canon_class L kdf pw cost salt sum :
  (forall bs ns k, kdf T_bcrypt bs ns = Some k -> length k = 23%nat) ->
  4 <= cost <= 31 -> length salt = 22%nat -> over bcrypt_std_alphabet salt -> over bcrypt_std_alphabet sum ->
  length sum = 31%nat ->
  class_of (check_bcrypt L kdf (canon_bcrypt cost salt sum) pw) =
  class_key benc (key_bcrypt L kdf pw salt cost (Some m_bcrypt_Prefix2b)) sum.
Proof.
  intros Hk Hc Hls Hs Hd Hl. rewrite (bcrypt_classified L kdf _ pw Hk). unfold spec_bcrypt.
  rewrite recog_bcrypt_canon by (auto using bcrypt_valid). reflexivity.
Qed.

Theorem bcrypt_digest_tamper : forall kdf pw cost salt sum',
  (forall bs ns k, kdf T_bcrypt bs ns = Some k -> length k = 23%nat) ->
  4 <= cost <= 31 -> length salt = 22%nat -> over bcrypt_std_alphabet salt -> over bcrypt_std_alphabet sum' ->
  length sum' = 31%nat ->
  check_bcrypt L0 kdf (canon_bcrypt cost salt sum') pw = VMatch ->
  exists key, key_bcrypt L0 kdf pw salt cost (Some m_bcrypt_Prefix2b) = KOk key /\ benc key = sum'.
Proof. intros kdf pw cost salt sum' Hk Hc Hls Hs Hd Hl. apply tamper_match, bcrypt_canon_class; assumption. Qed.

Theorem bcrypt_salt_cost_tamper : forall kdf pw cost' salt' d,
  (forall bs ns k, kdf T_bcrypt bs ns = Some k -> length k = 23%nat) ->
  4 <= cost' <= 31 -> length salt' = 22%nat -> over bcrypt_std_alphabet salt' -> over bcrypt_std_alphabet d ->
  length d = 31%nat ->
  ((forall key', key_bcrypt L0 kdf pw salt' cost' (Some m_bcrypt_Prefix2b) = KOk key' -> benc key' <> d) ->
   check_bcrypt L0 kdf (canon_bcrypt cost' salt' d) pw <> VMatch) /\
  (forall key', key_bcrypt L0 kdf pw salt' cost' (Some m_bcrypt_Prefix2b) = KOk key' -> benc key' <> d ->
   check_bcrypt L0 kdf (canon_bcrypt cost' salt' d) pw = VMismatch).
Proof.
  intros kdf pw cost' salt' d Hk Hc Hls Hs Hd Hl.
  pose proof (bcrypt_canon_class L0 kdf pw cost' salt' d Hk Hc Hls Hs Hd Hl) as C. split.
  - apply tamper_never. exact C.
  - intros key'. apply tamper_mismatch. exact C.
Qed.

Section BCRYPT.
Variables (kdf : kdf_t) (stream pw : bytes) (cost : Z).
Hypothesis Hk : kdf_ok kdf T_bcrypt 23.
Hypothesis Hs : good_stream stream 16.
Hypothesis Hc : L_bcrypt_MinCost L0 <= cost <= L_bcrypt_MaxCost L0.
Let salt := benc (firstn 16 stream).

Theorem bcrypt_digest_tamper_fresh : forall h, newhash_bcrypt L0 kdf stream pw cost = NOk h ->
  exists key, key_bcrypt L0 kdf pw (benc (firstn 16 stream)) cost (Some m_bcrypt_Prefix2b) = KOk key /\
  h = canon_bcrypt cost (benc (firstn 16 stream)) (benc key) /\
  forall sum', over bcrypt_std_alphabet sum' -> length sum' = 31%nat -> sum' <> benc key ->
    check_bcrypt L0 kdf (canon_bcrypt cost (benc (firstn 16 stream)) sum') pw = VMismatch.
Proof.
  intros h Eh. destruct (bcrypt_fresh_facts kdf stream pw cost Hk Hs Hc) as (key & Ek & Hl & Hw & Hsalt & En).
  rewrite En in Eh. injection Eh as <-. exists key. split. exact Ek. split. reflexivity.
  intros sum' Ho Hl' Hne.
  eapply tamper_mismatch; [apply bcrypt_canon_class|exact Ek|congruence];
    auto using (bcrypt_salt_length stream Hs), (bcrypt_salt_over stream Hs), (bcrypt_cost_range cost Hc).
  apply (kdf_ok_len _ _ _ Hk).
Qed.

Theorem bcrypt_wrong_password_never : forall h pw', newhash_bcrypt L0 kdf stream pw cost = NOk h ->
  exists key, key_bcrypt L0 kdf pw (benc (firstn 16 stream)) cost (Some m_bcrypt_Prefix2b) = KOk key /\
  (check_bcrypt L0 kdf h pw' = VMatch ->
   exists key', key_bcrypt L0 kdf pw' (benc (firstn 16 stream)) cost (Some m_bcrypt_Prefix2b) = KOk key' /\
                benc key' = benc key).
Proof.
  intros h pw' Eh. destruct (bcrypt_fresh_facts kdf stream pw cost Hk Hs Hc) as (key & Ek & Hl & Hw & Hsalt & En).
  rewrite En in Eh. injection Eh as <-. exists key. split. exact Ek.
  apply tamper_match, bcrypt_canon_class;
    auto using (bcrypt_salt_length stream Hs), (bcrypt_salt_over stream Hs), (bcrypt_cost_range cost Hc), be64_23.
  apply (kdf_ok_len _ _ _ Hk). apply be64_over. reflexivity. exact Hw.
Qed.

Theorem bcrypt_wrong_password : forall h pw' key key', newhash_bcrypt L0 kdf stream pw cost = NOk h ->
  key_bcrypt L0 kdf pw (benc (firstn 16 stream)) cost (Some m_bcrypt_Prefix2b) = KOk key ->
  key_bcrypt L0 kdf pw' (benc (firstn 16 stream)) cost (Some m_bcrypt_Prefix2b) = KOk key' ->
  benc key' <> benc key -> check_bcrypt L0 kdf h pw' = VMismatch.
Proof.
  intros h pw' key key' Eh Ek Ek' Hne.
  destruct (bcrypt_fresh_facts kdf stream pw cost Hk Hs Hc) as (key0 & Ek0 & Hl & Hw & Hsalt & En).
  rewrite Ek in Ek0. injection Ek0 as <-. rewrite En in Eh. injection Eh as <-.
  eapply tamper_mismatch; [apply bcrypt_canon_class|exact Ek'|exact Hne];
    auto using (bcrypt_salt_length stream Hs), (bcrypt_salt_over stream Hs), (bcrypt_cost_range cost Hc), be64_23.
  apply (kdf_ok_len _ _ _ Hk). apply be64_over. reflexivity. exact Hw.
Qed.
End BCRYPT.

(* ================================================================== sunmd5 *)
Lemma sunmd5_canon_class L kdf pw rounds salt sum :
  (forall bs ns k, kdf T_sunmd5 bs ns = Some k -> length k = 16%nat) ->
  0 <= rounds < 2 ^ 32 -> over crypt_alphabet salt -> over crypt_alphabet sum -> length sum = 22%nat ->
  class_of (check_sunmd5 L kdf (canon_sunmd5 rounds salt sum) pw) =
  class_key le64 (key_sunmd5 L kdf pw salt rounds (Some (sunmd5_prefix_for rounds, rounds =? 0))) sum.
Proof.
  intros Hk Hr Hs Hd Hl. rewrite (sunmd5_classified L kdf _ pw Hk). unfold spec_sunmd5.
  rewrite recog_sunmd5_canon by (auto using crypt_valid). reflexivity.
Qed.

Theorem sunmd5_digest_tamper : forall kdf pw rounds salt sum',
  (forall bs ns k, kdf T_sunmd5 bs ns = Some k -> length k = 16%nat) ->
  0 <= rounds < 2 ^ 32 -> over crypt_alphabet salt -> over crypt_alphabet sum' -> length sum' = 22%nat ->
  check_sunmd5 L0 kdf (canon_sunmd5 rounds salt sum') pw = VMatch ->
  exists key, key_sunmd5 L0 kdf pw salt rounds (Some (sunmd5_prefix_for rounds, rounds =? 0)) = KOk key /\ le64 key = sum'.
Proof. intros kdf pw rounds salt sum' Hk Hr Hs Hd Hl. apply tamper_match, sunmd5_canon_class; assumption. Qed.

Theorem sunmd5_salt_cost_tamper : forall kdf pw rounds' salt' d,
  (forall bs ns k, kdf T_sunmd5 bs ns = Some k -> length k = 16%nat) ->
  0 <= rounds' < 2 ^ 32 -> over crypt_alphabet salt' -> over crypt_alphabet d -> length d = 22%nat ->
  ((forall key', key_sunmd5 L0 kdf pw salt' rounds' (Some (sunmd5_prefix_for rounds', rounds' =? 0)) = KOk key' ->
                 le64 key' <> d) ->
   check_sunmd5 L0 kdf (canon_sunmd5 rounds' salt' d) pw <> VMatch) /\
  (forall key', key_sunmd5 L0 kdf pw salt' rounds' (Some (sunmd5_prefix_for rounds', rounds' =? 0)) = KOk key' ->
                le64 key' <> d ->
   check_sunmd5 L0 kdf (canon_sunmd5 rounds' salt' d) pw = VMismatch).
Proof.
  intros kdf pw rounds' salt' d Hk Hr Hs Hd Hl.
  pose proof (sunmd5_canon_class L0 kdf pw rounds' salt' d Hk Hr Hs Hd Hl) as C. split.
  - apply tamper_never. exact C.
  - intros key'. apply tamper_mismatch. exact C.
Qed.

Section SUNMD5.
Variables (kdf : kdf_t) (stream pw : bytes) (rounds : Z).
Hypothesis Hk : kdf_ok kdf T_sunmd5 16.
Hypothesis Hs : good_stream stream 8.
Hypothesis Hpw : len pw <= L_sunmd5_MaxPw L0.
Hypothesis Hr : 0 <= rounds <= L_sunmd5_MaxRounds L0.
Local Notation opts := (Some (sunmd5_prefix_for rounds, rounds =? 0)).

Theorem sunmd5_digest_tamper_fresh : forall h, newhash_sunmd5 L0 kdf stream pw rounds = NOk h ->
  exists key, key_sunmd5 L0 kdf pw (salt_hash 8 stream) rounds opts = KOk key /\
  h = canon_sunmd5 rounds (salt_hash 8 stream) (le64 key) /\
  forall sum', over crypt_alphabet sum' -> length sum' = 22%nat -> sum' <> le64 key ->
    check_sunmd5 L0 kdf (canon_sunmd5 rounds (salt_hash 8 stream) sum') pw = VMismatch.
Proof.
  intros h Eh. destruct (sunmd5_fresh_facts kdf stream pw rounds Hk Hs Hpw Hr) as (key & Ek & Hl & Hw & Hsalt & En).
  rewrite En in Eh. injection Eh as <-. exists key. split. exact Ek. split. reflexivity.
  intros sum' Ho Hl' Hne.
  eapply tamper_mismatch; [apply sunmd5_canon_class|exact Ek|congruence];
    auto using salt_hash_over, (sunmd5_rounds32 rounds Hr). apply (kdf_ok_len _ _ _ Hk).
Qed.

Theorem sunmd5_wrong_password_never : forall h pw', newhash_sunmd5 L0 kdf stream pw rounds = NOk h ->
  exists key, key_sunmd5 L0 kdf pw (salt_hash 8 stream) rounds opts = KOk key /\
  (check_sunmd5 L0 kdf h pw' = VMatch ->
   exists key', key_sunmd5 L0 kdf pw' (salt_hash 8 stream) rounds opts = KOk key' /\ le64 key' = le64 key).
Proof.
  intros h pw' Eh. destruct (sunmd5_fresh_facts kdf stream pw rounds Hk Hs Hpw Hr) as (key & Ek & Hl & Hw & Hsalt & En).
  rewrite En in Eh. injection Eh as <-. exists key. split. exact Ek.
  apply tamper_match, sunmd5_canon_class;
    auto using salt_hash_over, le64_over, le64_16, (sunmd5_rounds32 rounds Hr). apply (kdf_ok_len _ _ _ Hk).
Qed.

Theorem sunmd5_wrong_password : forall h pw' key key', newhash_sunmd5 L0 kdf stream pw rounds = NOk h ->
  key_sunmd5 L0 kdf pw (salt_hash 8 stream) rounds opts = KOk key ->
  key_sunmd5 L0 kdf pw' (salt_hash 8 stream) rounds opts = KOk key' ->
  le64 key' <> le64 key -> check_sunmd5 L0 kdf h pw' = VMismatch.
Proof.
  intros h pw' key key' Eh Ek Ek' Hne.
  destruct (sunmd5_fresh_facts kdf stream pw rounds Hk Hs Hpw Hr) as (key0 & Ek0 & Hl & Hw & Hsalt & En).
  rewrite Ek in Ek0. injection Ek0 as <-. rewrite En in Eh. injection Eh as <-.
  eapply tamper_mismatch; [apply sunmd5_canon_class|exact Ek'|exact Hne];
    auto using salt_hash_over, le64_over, le64_16, (sunmd5_rounds32 rounds Hr). apply (kdf_ok_len _ _ _ Hk).
Qed.
End SUNMD5.

(* ================================================================== argon2 *)
(* Check compares the encoded key with the Sum fragment as a slice of whatever length: no length hypothesis on the
   digest text, only that it is not empty (an empty last fragment is another layout). *)
Local Notation aopts := (Some (m_argon2_Prefix2id, m_argon2_Version13)).

Lemma argon2_canon_class L kdf pw memory time salt sum :
  0 <= memory < 2 ^ 32 -> 0 <= time < 2 ^ 32 -> over base64_std_alphabet salt -> over base64_std_alphabet sum ->
  sum <> [] ->
  class_of (check_argon2 L kdf (canon_argon2 memory time salt sum) pw) =
  class_key aenc (key_argon2 L kdf pw salt memory time m_argon2_DefaultThreads aopts) sum.
Proof.
  intros Hm Ht Hs Hd Hne. rewrite (argon2_classified L kdf _ pw). unfold spec_argon2.
  rewrite recog_argon2_canon by assumption. reflexivity.
Qed.

Theorem argon2_digest_tamper : forall kdf pw memory time salt sum',
  0 <= memory < 2 ^ 32 -> 0 <= time < 2 ^ 32 -> over base64_std_alphabet salt -> over base64_std_alphabet sum' ->
  sum' <> [] ->
  check_argon2 L0 kdf (canon_argon2 memory time salt sum') pw = VMatch ->
  exists key, key_argon2 L0 kdf pw salt memory time m_argon2_DefaultThreads aopts = KOk key /\ aenc key = sum'.
Proof. intros kdf pw memory time salt sum' Hm Ht Hs Hd Hne. apply tamper_match, argon2_canon_class; assumption. Qed.

Theorem argon2_salt_cost_tamper : forall kdf pw memory' time' salt' d,
  0 <= memory' < 2 ^ 32 -> 0 <= time' < 2 ^ 32 -> over base64_std_alphabet salt' -> over base64_std_alphabet d ->
  d <> [] ->
  ((forall key', key_argon2 L0 kdf pw salt' memory' time' m_argon2_DefaultThreads aopts = KOk key' -> aenc key' <> d) ->
   check_argon2 L0 kdf (canon_argon2 memory' time' salt' d) pw <> VMatch) /\
  (forall key', key_argon2 L0 kdf pw salt' memory' time' m_argon2_DefaultThreads aopts = KOk key' -> aenc key' <> d ->
   check_argon2 L0 kdf (canon_argon2 memory' time' salt' d) pw = VMismatch).
Proof.
  intros kdf pw memory' time' salt' d Hm Ht Hs Hd Hne.
  pose proof (argon2_canon_class L0 kdf pw memory' time' salt' d Hm Ht Hs Hd Hne) as C. split.
  - apply tamper_never. exact C.
  - intros key'. apply tamper_mismatch. exact C.
Qed.

Lemma aenc_nonnil key : length key = 32%nat -> aenc key <> [].
Proof. intros Hl E. apply (f_equal (@length Z)) in E. rewrite be64_length, Hl in E. discriminate E. Qed.

Section ARGON2.
Variables (kdf : kdf_t) (stream pw : bytes) (memory time : Z).
Hypothesis Hk : kdf_ok kdf T_argon2 32.
Hypothesis Hs : good_stream stream 8.
Hypothesis Hm : L_argon2_MinMemory L0 <= memory < 2 ^ 32.
Hypothesis Ht : L_argon2_MinTime L0 <= time < 2 ^ 32.

Theorem argon2_digest_tamper_fresh : forall h, newhash_argon2 L0 kdf stream pw memory time = NOk h ->
  exists key, key_argon2 L0 kdf pw (aenc (firstn 8 stream)) memory time m_argon2_DefaultThreads aopts = KOk key /\
  h = canon_argon2 memory time (aenc (firstn 8 stream)) (aenc key) /\
  forall sum', over base64_std_alphabet sum' -> sum' <> [] -> sum' <> aenc key ->
    check_argon2 L0 kdf (canon_argon2 memory time (aenc (firstn 8 stream)) sum') pw = VMismatch.
Proof.
  intros h Eh. destruct (argon2_fresh_facts kdf stream pw memory time Hk Hs Hm Ht) as (key & Ek & Hl & Hw & En).
  rewrite En in Eh. injection Eh as <-. exists key. split. exact Ek. split. reflexivity.
  intros sum' Ho Hnn Hne.
  eapply tamper_mismatch; [apply argon2_canon_class|exact Ek|congruence];
    auto using (argon2_salt_over stream Hs), (argon2_mem32 memory Hm), (argon2_time32 time Ht).
Qed.

Theorem argon2_wrong_password_never : forall h pw', newhash_argon2 L0 kdf stream pw memory time = NOk h ->
  exists key, key_argon2 L0 kdf pw (aenc (firstn 8 stream)) memory time m_argon2_DefaultThreads aopts = KOk key /\
  (check_argon2 L0 kdf h pw' = VMatch ->
   exists key', key_argon2 L0 kdf pw' (aenc (firstn 8 stream)) memory time m_argon2_DefaultThreads aopts = KOk key' /\
                aenc key' = aenc key).
Proof.
  intros h pw' Eh. destruct (argon2_fresh_facts kdf stream pw memory time Hk Hs Hm Ht) as (key & Ek & Hl & Hw & En).
  rewrite En in Eh. injection Eh as <-. exists key. split. exact Ek.
  apply tamper_match, argon2_canon_class;
    auto using (argon2_salt_over stream Hs), (argon2_mem32 memory Hm), (argon2_time32 time Ht), aenc_nonnil.
  apply be64_over. reflexivity. exact Hw.
Qed.

Theorem argon2_wrong_password : forall h pw' key key', newhash_argon2 L0 kdf stream pw memory time = NOk h ->
  key_argon2 L0 kdf pw (aenc (firstn 8 stream)) memory time m_argon2_DefaultThreads aopts = KOk key ->
  key_argon2 L0 kdf pw' (aenc (firstn 8 stream)) memory time m_argon2_DefaultThreads aopts = KOk key' ->
  aenc key' <> aenc key -> check_argon2 L0 kdf h pw' = VMismatch.
Proof.
  intros h pw' key key' Eh Ek Ek' Hne.
  destruct (argon2_fresh_facts kdf stream pw memory time Hk Hs Hm Ht) as (key0 & Ek0 & Hl & Hw & En).
  rewrite Ek in Ek0. injection Ek0 as <-. rewrite En in Eh. injection Eh as <-.
  eapply tamper_mismatch; [apply argon2_canon_class|exact Ek'|exact Hne];
    auto using (argon2_salt_over stream Hs), (argon2_mem32 memory Hm), (argon2_time32 time Ht), aenc_nonnil.
  apply be64_over. reflexivity. exact Hw.
Qed.
End ARGON2.

Print Assumptions bcrypt_digest_tamper.
Print Assumptions bcrypt_salt_cost_tamper.
Print Assumptions bcrypt_digest_tamper_fresh.
Print Assumptions bcrypt_wrong_password_never.
Print Assumptions bcrypt_wrong_password.
Print Assumptions sunmd5_digest_tamper.
Print Assumptions sunmd5_salt_cost_tamper.
Print Assumptions sunmd5_digest_tamper_fresh.
Print Assumptions sunmd5_wrong_password_never.
Print Assumptions sunmd5_wrong_password.
Print Assumptions argon2_digest_tamper.
Print Assumptions argon2_salt_cost_tamper.
Print Assumptions argon2_digest_tamper_fresh.
Print Assumptions argon2_wrong_password_never.
Print Assumptions argon2_wrong_password.
