(* C15: how every NewHash turns the byte stream of crypto/rand.Reader into a salt (and sha1's round count).
   Definitions only.  rand.Int(rand.Reader, 64) consumes one byte and keeps its low six bits. *)
Require Import GC.Base.Bytes GC.Schemes.Consts GC.Schemes.Keys GC.Schemes.Encoders.

(* hashutil.Encoding.Rand(n): n bytes -> n symbols *)
Definition rand_symbol (alpha : bytes) (b : Z) : Z := nth (Z.to_nat (Z.land b 63)) alpha 0.
Definition hashutil_rand (alpha : bytes) (n : nat) (stream : bytes) : bytes * bytes :=
  (map (rand_symbol alpha) (firstn n stream), skipn n stream).
(* cryptoutil.Rand(n) *)
Definition cryptoutil_rand (n : nat) (stream : bytes) : bytes * bytes := (firstn n stream, skipn n stream).

(* sha1.randRounds: four bytes, big endian *)
Definition be32 (b : bytes) : Z := nth 0 b 0 * 16777216 + nth 1 b 0 * 65536 + nth 2 b 0 * 256 + nth 3 b 0.
Definition rand_rounds_of (hint : Z) (v : Z) : Z := hint - v mod (hint / 4).
Definition rand_rounds (hint : Z) (stream : bytes) : Z * bytes := (rand_rounds_of hint (be32 (firstn 4 stream)), skipn 4 stream).

(* the salt a NewHash call of the scheme draws from the stream; random_rounds: sha1 was asked for RandomRounds *)
Definition newhash_salt (alpha_hash alpha_bcrypt alpha_std : bytes) (tag : Z) (random_rounds : bool) (stream : bytes) : bytes :=
  if tag =? T_md5 then fst (hashutil_rand alpha_hash 8 stream)
  else if (tag =? T_sha256) || (tag =? T_sha512) then fst (hashutil_rand alpha_hash 16 stream)
  else if tag =? T_sha1 then fst (hashutil_rand alpha_hash 8 (if random_rounds then skipn 4 stream else stream))
  else if tag =? T_sunmd5 then fst (hashutil_rand alpha_hash 8 stream)
  else if tag =? T_des then fst (hashutil_rand alpha_hash 2 stream)
  else if tag =? T_desext then fst (hashutil_rand alpha_hash 4 stream)
  else if tag =? T_bcrypt then be64_encode alpha_bcrypt (fst (cryptoutil_rand 16 stream))
  else if tag =? T_argon2 then be64_encode alpha_std (fst (cryptoutil_rand 8 stream))
  else [].

(* case evaluation: (tag, random_rounds, stream, observed salt, observed sha1 rounds or 0) *)
Definition ok_salt (c : Z * bool * bytes * bytes * Z) : bool :=
  let '(tag, rr, stream, salt, rounds) := c in
  bytes_eqb (newhash_salt crypt_alphabet bcrypt_std_alphabet base64_std_alphabet tag rr stream) salt
  && (if rr then fst (rand_rounds m_sha1_randomHint stream) =? rounds else true).
