(* Shared material for C01 ("a freshly generated hash verifies") and C12 ("generated hashes are canonical;
   Params, Key and Check cohere"): hypotheses on the abstract derivation and on the random stream, alphabet
   and length facts about salts and encoded digests, the recognisers' splitting on clean strings, decimal
   numbers, and the symbolic evaluation of Marshal on a shipped layout. *)
Require Export GC.Schemes.RecogPBase GC.Schemes.RecogPStr GC.Schemes.NewHash GC.Schemes.RandModel.
Require Export GC.Codec.StrconvProofs GC.Dispatch.Dispatch GC.Dispatch.Builtin GC.Dispatch.Schemes.
Require Export GC.Schemes.RecogPPlain GC.Schemes.RecogPBcrypt GC.Schemes.RecogPSunmd5 GC.Schemes.RecogPDes.
Require Export GC.Schemes.RecogProofs GC.Schemes.RecogParams.
Require Import GC.B64.B64EncProofs GC.Schemes.RandProofs GC.Schemes.NoPanic.

Global Arguments Z.div : simpl never. Global Arguments Z.modulo : simpl never. Global Arguments Z.land : simpl never.
Global Arguments Z.shiftr : simpl never. Global Arguments Z.shiftl : simpl never. Global Arguments Z.lor : simpl never.
Global Arguments FormatUint : simpl never. Global Arguments le64 : simpl never. Global Arguments be64 : simpl never.
Global Arguments be64_encode : simpl never. Global Arguments hex_encode : simpl never.
Global Arguments first_invalid : simpl never. Global Arguments EncodeInt : simpl never.
Global Arguments cost_text : simpl never.

(* ------------------------------------------------------------------ *)
(* 1. hypotheses                                                       *)
(* ------------------------------------------------------------------ *)
Definition L0 : limits := committed_limits.

(* the abstract derivation answers for every input, with a key of the scheme's size made of bytes *)
Definition kdf_ok (kdf : kdf_t) (tag : Z) (n : nat) : Prop :=
  forall bs ns, exists k, kdf tag bs ns = Some k /\ length k = n /\ wf_bytes k = true.

(* crypto/rand delivers (at least) n bytes *)
Definition good_stream (stream : bytes) (n : nat) : Prop := wf_bytes stream = true /\ (n <= length stream)%nat.

Lemma kdf_ok_len kdf tag n : kdf_ok kdf tag n -> forall bs ns k, kdf tag bs ns = Some k -> length k = n.
Proof. intros H bs ns k E. destruct (H bs ns) as (k' & E' & Hl & _). congruence. Qed.

Lemma kdf_ok_run kdf tag n bs ns : kdf_ok kdf tag n ->
  exists k, run_kdf kdf tag bs ns = KOk k /\ length k = n /\ wf_bytes k = true.
Proof. intros H. destruct (H bs ns) as (k & E & Hl & Hw). exists k. unfold run_kdf. rewrite E. auto. Qed.

Lemma good_stream_le stream n m : good_stream stream n -> (m <= n)%nat -> good_stream stream m.
Proof. intros [A B] H. split. exact A. lia. Qed.

(* ------------------------------------------------------------------ *)
(* 2. verdict classes                                                  *)
(* ------------------------------------------------------------------ *)
Lemma class_of_0 v : class_of v = 0%nat <-> v = VMatch.
Proof. destruct v; cbn [class_of]; split; intros H; try reflexivity; discriminate H. Qed.

Lemma class_key_0 enc k sum :
  class_key enc k sum = 0%nat <-> exists key, k = KOk key /\ enc key = sum.
Proof.
  unfold class_key. destruct k as [key|e].
  - destruct (bytes_eqb (enc key) sum) eqn:E.
    + apply bytes_eqb_eq in E. split. intros _. exists key. auto. reflexivity.
    + apply bytes_eqb_neq in E. split. discriminate. intros (k & Hk & He). inversion Hk; subst. contradiction.
  - split. discriminate. intros (k & Hk & _). discriminate Hk.
Qed.

Lemma class_key_ok enc key : class_key enc (KOk key) (enc key) = 0%nat.
Proof. apply class_key_0. exists key. auto. Qed.

(* ------------------------------------------------------------------ *)
(* 3. alphabets                                                        *)
(* ------------------------------------------------------------------ *)
Definition over (alpha : bytes) (s : bytes) : Prop := Forall (fun c => In c alpha) s.
Definition hex_alphabet : bytes := [48;49;50;51;52;53;54;55;56;57;97;98;99;100;101;102].   (* 0-9a-f *)

Lemma over_app alpha a b : over alpha (a ++ b) <-> over alpha a /\ over alpha b.
Proof. apply Forall_app. Qed.

Lemma over_valid alpha e : forallb (valid_char e) alpha = true -> forall s, over alpha s -> in_alpha e s = true.
Proof.
  intros H s Hs. unfold in_alpha. apply forallb_forall. intros c Hc.
  rewrite forallb_forall in H. apply H. unfold over in Hs. rewrite Forall_forall in Hs. apply Hs. exact Hc.
Qed.

Lemma crypt_valid s : over crypt_alphabet s -> in_alpha EncHash s = true.
Proof. apply over_valid. vm_compute. reflexivity. Qed.
Lemma bcrypt_valid s : over bcrypt_std_alphabet s -> in_alpha EncHash s = true.
Proof. apply over_valid. vm_compute. reflexivity. Qed.
Lemma std_valid s : over base64_std_alphabet s -> in_alpha EncBase64 s = true.
Proof. apply over_valid. vm_compute. reflexivity. Qed.
Lemma hex_valid s : over hex_alphabet s -> in_alpha EncHash s = true.
Proof. apply over_valid. vm_compute. reflexivity. Qed.

Lemma in_alpha_fi_none e s : in_alpha e s = true -> first_invalid e s = None.
Proof. apply first_invalid_none. Qed.

(* neither '$' nor ',' in a text over an alphabet that has neither *)
Lemma over_no_delims alpha : mem dollar alpha = false -> mem comma alpha = false ->
  forall s, over alpha s -> no_dollar s /\ has_comma s = false.
Proof.
  intros Hd Hc s Hs. induction Hs as [|c r Hin _ [IH1 IH2]]. split; reflexivity.
  split.
  - apply no_dollar_cons. split; [|exact IH1]. intros ->. apply mem_In in Hin. congruence.
  - cbn [has_comma existsb]. fold (has_comma r). rewrite IH2.
    destruct (c =? comma) eqn:E; [|reflexivity]. apply Z.eqb_eq in E. subst c. apply mem_In in Hin. congruence.
Qed.
Lemma std_no_delims s : over base64_std_alphabet s -> no_dollar s /\ has_comma s = false.
Proof. apply over_no_delims; reflexivity. Qed.

(* salts drawn by hashutil.Rand *)
Lemma salt_hash_length n stream : good_stream stream n -> length (salt_hash n stream) = n.
Proof. intros [_ H]. apply hashutil_rand_length. exact H. Qed.
Lemma salt_hash_over n stream : good_stream stream n -> over crypt_alphabet (salt_hash n stream).
Proof. intros [H _]. apply hashutil_rand_alphabet. exact H. Qed.

(* base64le of well-formed bytes is over the crypt alphabet *)
Lemma sym_in i : 0 <= i < 64 -> In (sym le_enc i) crypt_alphabet.
Proof.
  intros H. unfold sym, le_enc. cbn [e_alpha]. apply nth_In.
  change (length crypt_alphabet) with 64%nat. lia.
Qed.

Lemma le64_over k : wf_bytes k = true -> over crypt_alphabet (le64 k).
Proof.
  unfold le64, over. induction k as [|a|a b|a b c r IH] using list_ind3; intros Hwf.
  - constructor.
  - cbn [wf_bytes forallb] in Hwf. rewrite andb_true_r in Hwf. apply wf_byte_range in Hwf.
    cbn [encode le_enc e_pad]. cbv zeta. rewrite enc_val_1.
    destruct (idx_range a 0 0) as (R0 & R1 & _); [lia..|].
    repeat (constructor; [apply sym_in; assumption|]). constructor.
  - cbn [wf_bytes forallb] in Hwf. rewrite andb_true_r in Hwf. apply andb_true_iff in Hwf.
    destruct Hwf as [Ha Hb]. apply wf_byte_range in Ha, Hb.
    cbn [encode le_enc e_pad]. cbv zeta. rewrite enc_val_2.
    destruct (idx_range a b 0) as (R0 & R1 & R2 & _); [lia..|].
    repeat (constructor; [apply sym_in; assumption|]). constructor.
  - cbn [wf_bytes forallb] in Hwf. apply andb_true_iff in Hwf. destruct Hwf as [Ha Hwf].
    apply andb_true_iff in Hwf. destruct Hwf as [Hb Hwf].
    apply andb_true_iff in Hwf. destruct Hwf as [Hc Hwf].
    apply wf_byte_range in Ha, Hb, Hc.
    rewrite encode_cons3. cbv zeta.
    destruct (idx_range a b c) as (R0 & R1 & R2 & R3); [lia..|].
    repeat (constructor; [apply sym_in; assumption|]). apply IH. exact Hwf.
Qed.

(* encoding/base64 (big endian) over an alphabet of 64 symbols *)
Lemma asym_in alpha i : length alpha = 64%nat -> 0 <= i < 64 -> In (asym alpha i) alpha.
Proof. intros Hl H. unfold asym. apply nth_In. lia. Qed.

Lemma be64_over alpha k : length alpha = 64%nat -> wf_bytes k = true -> over alpha (be64_encode alpha k).
Proof.
  intros Hl. unfold over. induction k as [|b0|b0 b1|b0 b1 b2 r IH] using list3_ind; intros W.
  - constructor.
  - apply wf_bytes_cons in W. destruct W as [H0 _]. cbn [be64_encode].
    repeat (constructor; [apply asym_in; auto using g0_range, g1z_range|]). constructor.
  - apply wf_bytes_cons in W. destruct W as [H0 W]. apply wf_bytes_cons in W. destruct W as [H1 _].
    cbn [be64_encode].
    repeat (constructor; [apply asym_in; auto using g0_range, g1_range, g2z_range|]). constructor.
  - apply wf_bytes_cons in W. destruct W as [H0 W]. apply wf_bytes_cons in W. destruct W as [H1 W].
    apply wf_bytes_cons in W. destruct W as [H2 W].
    cbn [be64_encode].
    repeat (constructor; [apply asym_in; auto using g0_range, g1_range, g2_range, g3_range|]).
    apply IH. exact W.
Qed.

Lemma be64_crypt_over k : wf_bytes k = true -> over crypt_alphabet (be64 k).
Proof. apply be64_over. reflexivity. Qed.

Lemma wf_bytes_firstn n s : wf_bytes s = true -> wf_bytes (firstn n s) = true.
Proof.
  unfold wf_bytes. rewrite !forallb_forall. intros H x Hx. apply H. eapply In_firstn_In. exact Hx.
Qed.

(* hex *)
Lemma hex_digit_in d : 0 <= d < 16 -> In (hex_digit d) hex_alphabet.
Proof.
  intros H. assert (d = 0 \/ d = 1 \/ d = 2 \/ d = 3 \/ d = 4 \/ d = 5 \/ d = 6 \/ d = 7 \/ d = 8 \/ d = 9 \/
                    d = 10 \/ d = 11 \/ d = 12 \/ d = 13 \/ d = 14 \/ d = 15) as D by lia.
  repeat (destruct D as [-> | D]; [cbv; tauto|]). subst d. cbv. tauto.
Qed.

Lemma hex_over k : wf_bytes k = true -> over hex_alphabet (hex_encode k).
Proof.
  unfold over, hex_encode. induction k as [|b r IH]; intros W. constructor.
  apply wf_bytes_cons in W. destruct W as [Hb W]. cbn [flat_map app].
  constructor. { apply hex_digit_in. Z.div_mod_to_equations. lia. }
  constructor. { apply hex_digit_in. Z.div_mod_to_equations. lia. }
  apply IH. exact W.
Qed.

(* ------------------------------------------------------------------ *)
(* 4. the encoder writing into the digest array                        *)
(* ------------------------------------------------------------------ *)
Lemma fit0_exact n enc : length enc = n -> fit0 n enc = enc.
Proof. intros H. unfold fit0. rewrite (fit_exact n enc H). reflexivity. Qed.

(* ------------------------------------------------------------------ *)
(* 5. the recognisers' splitting on clean strings                      *)
(* ------------------------------------------------------------------ *)
Lemma crypt_no_delims s : over crypt_alphabet s -> no_dollar s /\ has_comma s = false.
Proof. intros H. apply alpha_no_delims. apply crypt_valid. exact H. Qed.

Lemma valid_no_dollar s : in_alpha EncHash s = true -> no_dollar s.
Proof. intros H. apply alpha_no_delims. exact H. Qed.
Lemma valid_no_comma s : in_alpha EncHash s = true -> has_comma s = false.
Proof. intros H. apply alpha_no_delims. exact H. Qed.

(* a '$'-free piece followed by '$' *)
Lemma pieces_step : forall a cur rest, no_dollar a ->
  pieces dollar cur (a ++ dollar :: rest) = (rev cur ++ a) :: pieces dollar [] rest.
Proof.
  induction a as [|c a IH]; intros cur rest H.
  - cbn [app pieces]. rewrite Z.eqb_refl, app_nil_r. reflexivity.
  - apply no_dollar_cons in H. destruct H as [Hc Ha]. cbn [app pieces].
    apply Z.eqb_neq in Hc. rewrite Hc. rewrite IH by exact Ha. cbn [rev]. rewrite <- app_assoc. reflexivity.
Qed.

Lemma pieces_step0 a rest : no_dollar a -> pieces dollar [] (a ++ dollar :: rest) = a :: pieces dollar [] rest.
Proof. intros H. rewrite pieces_step by exact H. reflexivity. Qed.

(* the last, non-empty piece *)
Lemma pieces_last a : no_dollar a -> a <> [] -> pieces dollar [] a = [a].
Proof. intros H Hn. rewrite pieces_plain by exact H. cbn [rev app]. destruct a. contradiction. reflexivity. Qed.

Lemma has_comma_cons_dollar s : has_comma (dollar :: s) = has_comma s.
Proof. reflexivity. Qed.

Lemma length_nonnil {A} (l : list A) n : length l = S n -> l <> [].
Proof. intros H ->. discriminate H. Qed.

(* ------------------------------------------------------------------ *)
(* 6. decimal numbers                                                  *)
(* ------------------------------------------------------------------ *)
Lemma digits10_digits : forall n v, 0 <= v -> is_digits (digits n 10 v) = true.
Proof.
  induction n as [|n IH]; intros v Hv; cbn [digits]. reflexivity.
  unfold is_digits. rewrite forallb_app. apply andb_true_iff. split.
  - destruct (v / 10 =? 0). reflexivity. apply IH. Z.div_mod_to_equations. lia.
  - cbn [forallb]. rewrite andb_true_r. unfold digit_char, is_digit.
    pose proof (Z.mod_pos_bound v 10 ltac:(lia)) as Hm.
    destruct (v mod 10 <? 10) eqn:E; [|apply Z.ltb_ge in E; lia].
    apply andb_true_iff. split; apply Z.leb_le; lia.
Qed.

Lemma FormatUint10_digits v : 0 <= v -> is_digits (FormatUint v 10) = true.
Proof. intros H. rewrite FormatUint_digits. apply digits10_digits. exact H. Qed.

Lemma FormatUint10_alpha v : 0 <= v -> in_alpha EncHash (FormatUint v 10) = true.
Proof. intros H. apply is_digits_alpha. apply FormatUint10_digits. exact H. Qed.

Lemma FormatUint_nonnil v base : FormatUint v base <> [].
Proof. rewrite FormatUint_digits. apply (digits_nonempty 69). Qed.

Lemma ParseUint_FormatUint32 v : 0 <= v < 2 ^ 32 -> ParseUint (FormatUint v 10) 10 32 = inl v.
Proof. intros H. apply parse_format_uint; lia. Qed.
Lemma ParseUint_FormatUint8 v : 0 <= v < 2 ^ 8 -> ParseUint (FormatUint v 10) 10 8 = inl v.
Proof. intros H. apply parse_format_uint; lia. Qed.

(* ------------------------------------------------------------------ *)
(* 7. Marshal on a shipped layout: one field at a time                 *)
(* ------------------------------------------------------------------ *)
(* the value a field marshals to, given its text: length and alphabet checks pass *)
Lemma marshal_value_ok cb fi v s :
  marshal1 cb fi v = Ok s ->
  (o_haslen (fi_opts fi) = true -> Z.of_nat (length s) = o_len (fi_opts fi)) ->
  in_alpha (o_enc (fi_opts fi)) s = true ->
  marshal_value cb fi v = Ok s.
Proof.
  intros H1 Hl Ha. unfold marshal_value. rewrite H1. cbn [bind].
  destruct (o_haslen (fi_opts fi)) eqn:E.
  - rewrite (Hl eq_refl), Z.eqb_refl. cbn [negb andb]. rewrite (in_alpha_fi_none _ _ Ha). reflexivity.
  - cbn [andb]. rewrite (in_alpha_fi_none _ _ Ha). reflexivity.
Qed.

Lemma in_alpha_none s : in_alpha EncNone s = true.
Proof. apply first_invalid_none. apply first_invalid_encnone. Qed.

(* what the prompt calls routing: the hash starts with a documented prefix *)
Definition routed (h : bytes) (p : bytes) (s : scheme_id) : Prop :=
  prefix_of h = Some p /\ In (p, s) documented_registrations.

(* Params views *)
Lemma pview_some p s n pf fl : pview p = Some (s, n, pf, fl) -> p = POkP s n pf fl.
Proof. destruct p; cbn; intros H; try discriminate H. inversion H. reflexivity. Qed.

(* evaluation of Marshal on symbolic field values: the atoms (alphabet and length facts, number tests) are
   rewritten from the context *)
Ltac mcrunch := repeat first [ rewrite first_invalid_encnone | progress cbn | progress unfold equals | atom_step ].
Ltac marshal_eval ti TI :=
  unfold marshal_n, marshal_top; rewrite ti; unfold TI; cbn [bind]; unfold marshal; cbn [ti_prefix ti_fields]; mcrunch.

(* the first symbol of a text over the crypt alphabet is neither '$' nor '_' *)
Lemma crypt_first c : In c crypt_alphabet -> (dollar =? c) = false /\ (underscore =? c) = false.
Proof.
  intros H. assert (forallb (fun c => negb (dollar =? c) && negb (underscore =? c)) crypt_alphabet = true) as S
    by (vm_compute; reflexivity).
  rewrite forallb_forall in S. specialize (S c H). apply andb_true_iff in S. destruct S as [A B].
  apply negb_true_iff in A. apply negb_true_iff in B. auto.
Qed.
