(* The documented crypt(3) layouts as explicit concatenations: shared lemmas for Grammar*.v.
   - the recognisers' '$'-splitting ([pieces]) turned into concatenations, both directions;
   - the two alphabets read as membership in the documented symbol lists;
   - strconv.ParseUint(s, 10, bits) read as "non-empty, decimal digits only, value below 2^bits". *)
Require Export GC.Schemes.FreshBase.

(* ------------------------------------------------------------------ *)
(* 1. pieces as concatenations                                          *)
(* ------------------------------------------------------------------ *)
Lemma pieces_inv : forall s cur x rest, pieces dollar cur s = x :: rest ->
  (rest = [] /\ no_dollar s /\ x = rev cur ++ s /\ x <> []) \/
  (exists a s', s = a ++ dollar :: s' /\ no_dollar a /\ x = rev cur ++ a /\ pieces dollar [] s' = rest).
Proof.
  induction s as [|c r IH]; intros cur x rest H.
  - cbn [pieces] in H. destruct cur as [|a cur]. discriminate. inversion H. left.
    split. reflexivity. split. reflexivity. split. rewrite app_nil_r. reflexivity.
    cbn [rev]. destruct (rev cur); discriminate.
  - cbn [pieces] in H. destruct (c =? dollar) eqn:Ec.
    + apply Z.eqb_eq in Ec. subst c. inversion H. right. exists [], r.
      split. reflexivity. split. reflexivity. split. rewrite app_nil_r. reflexivity. reflexivity.
    + apply Z.eqb_neq in Ec. destruct (IH _ _ _ H) as [(A & B & C & D)|(a & s' & A & B & C & D)].
      * left. split. exact A. split. apply no_dollar_cons. auto. split; [|exact D].
        rewrite C. cbn [rev]. rewrite <- app_assoc. reflexivity.
      * right. exists (c :: a), s'. split. rewrite A. reflexivity. split. apply no_dollar_cons. auto.
        split; [|exact D]. rewrite C. cbn [rev]. rewrite <- app_assoc. reflexivity.
Qed.

(* the last piece: the text itself (then not empty), or the text followed by one '$' *)
Lemma pieces_one_iff s x : pieces dollar [] s = [x] <->
  exists tail, s = x ++ tail /\ no_dollar x /\ ((tail = [] /\ x <> []) \/ tail = [dollar]).
Proof.
  split.
  - intros H. destruct (pieces_inv _ _ _ _ H) as [(_ & B & C & D)|(a & s' & A & B & C & D)]; cbn [rev app] in C.
    + subst x. exists []. rewrite app_nil_r. auto.
    + subst a. apply pieces_nil in D. subst s'. exists [dollar]. auto.
  - intros (tail & -> & Hn & [[-> Hx]| ->]).
    + rewrite app_nil_r. apply pieces_last; assumption.
    + apply pieces_trailing. exact Hn.
Qed.

(* a piece that is not the last: the text up to the next '$' *)
Lemma pieces_cons_iff s x y rest : pieces dollar [] s = x :: y :: rest <->
  exists s', s = x ++ [dollar] ++ s' /\ no_dollar x /\ pieces dollar [] s' = y :: rest.
Proof.
  split.
  - intros H. destruct (pieces_inv _ _ _ _ H) as [(A & _)|(a & s' & A & B & C & D)]. discriminate A.
    cbn [rev app] in C. subst a. exists s'. auto.
  - intros (s' & -> & Hn & H). cbn [app]. rewrite pieces_step0 by exact Hn. rewrite H. reflexivity.
Qed.

Definition opt_dollar (tail : bytes) : Prop := tail = [] \/ tail = [dollar].

(* the tail after the last piece: nothing (then the piece is not empty) or one '$' *)
Definition last_tail (x tail : bytes) : Prop := (tail = [] /\ x <> []) \/ tail = [dollar].

Lemma last_tail_fixed x tail n : length x = S n -> (last_tail x tail <-> opt_dollar tail).
Proof.
  intros H. unfold last_tail, opt_dollar. split.
  - intros [[A _]|A]; auto.
  - intros [A|A]; auto. left. split. exact A. eapply length_nonnil. exact H.
Qed.

Lemma opt_dollar_no_comma tail : opt_dollar tail -> has_comma tail = false.
Proof. intros [-> | ->]; reflexivity. Qed.

Lemma last_tail_opt x tail : last_tail x tail -> opt_dollar tail.
Proof. intros [[A _]|A]; [left|right]; exact A. Qed.

Lemma pieces_two_iff s a b : pieces dollar [] s = [a; b] <->
  exists tail, s = a ++ [dollar] ++ b ++ tail /\ no_dollar a /\ no_dollar b /\ last_tail b tail.
Proof.
  rewrite pieces_cons_iff. split.
  - intros (s' & -> & Ha & H). apply pieces_one_iff in H. destruct H as (tail & -> & Hb & Ht). exists tail. auto.
  - intros (tail & -> & Ha & Hb & Ht). exists (b ++ tail). split. reflexivity. split. exact Ha.
    apply pieces_one_iff. exists tail. auto.
Qed.

Lemma pieces_three_iff s a b c : pieces dollar [] s = [a; b; c] <->
  exists tail, s = a ++ [dollar] ++ b ++ [dollar] ++ c ++ tail /\ no_dollar a /\ no_dollar b /\ no_dollar c /\ last_tail c tail.
Proof.
  rewrite pieces_cons_iff. split.
  - intros (s' & -> & Ha & H). apply pieces_two_iff in H. destruct H as (tail & -> & Hb & Ht). exists tail. auto.
  - intros (tail & -> & Ha & Hb & Ht). exists (b ++ [dollar] ++ c ++ tail). split. reflexivity. split. exact Ha.
    apply pieces_two_iff. exists tail. auto.
Qed.

Lemma pieces_four_iff s a b c d : pieces dollar [] s = [a; b; c; d] <->
  exists tail, s = a ++ [dollar] ++ b ++ [dollar] ++ c ++ [dollar] ++ d ++ tail /\
               no_dollar a /\ no_dollar b /\ no_dollar c /\ no_dollar d /\ last_tail d tail.
Proof.
  rewrite pieces_cons_iff. split.
  - intros (s' & -> & Ha & H). apply pieces_three_iff in H. destruct H as (tail & -> & Hb & Ht). exists tail. auto.
  - intros (tail & -> & Ha & Hb & Ht). exists (b ++ [dollar] ++ c ++ [dollar] ++ d ++ tail). split. reflexivity. split. exact Ha.
    apply pieces_three_iff. exists tail. auto.
Qed.


(* ------------------------------------------------------------------ *)
(* 2. prefixes                                                          *)
(* ------------------------------------------------------------------ *)
Lemma skipn_app_len {A} (p t : list A) : skipn (length p) (p ++ t) = t.
Proof. induction p as [|a p IH]. reflexivity. exact IH. Qed.

Lemma firstn_app_len {A} (a b : list A) n : length a = n -> firstn n (a ++ b) = a.
Proof. intros <-. rewrite firstn_app, Nat.sub_diag, firstn_all. cbn [firstn]. apply app_nil_r. Qed.

Lemma skipn_app_len' {A} (a b : list A) n : length a = n -> skipn n (a ++ b) = b.
Proof. intros <-. apply skipn_app_len. Qed.

(* strings.Split(s, ",") as concatenations *)
Lemma split_on_nonnil sep : forall s cur, split_on sep cur s <> [].
Proof. induction s as [|c r IH]; intros cur; cbn [split_on]. discriminate. destruct (c =? sep). discriminate. apply IH. Qed.

Lemma split_on_one_iff : forall s cur x, split_on comma cur s = [x] <-> has_comma s = false /\ x = rev cur ++ s.
Proof.
  induction s as [|c r IH]; intros cur x; cbn [split_on has_comma existsb]; [|fold (has_comma r)].
  - rewrite app_nil_r. split. intros [= <-]. auto. intros (_ & ->). reflexivity.
  - destruct (c =? comma) eqn:Ec; cbn [orb].
    + split. intros H. injection H as _ H. exfalso. exact (split_on_nonnil _ _ _ H). intros (H & _). discriminate H.
    + rewrite IH. cbn [rev]. rewrite <- app_assoc. reflexivity.
Qed.

Lemma split_on_cons_inv : forall s cur x y rest, split_on comma cur s = x :: y :: rest ->
  exists a s', s = a ++ [comma] ++ s' /\ has_comma a = false /\ x = rev cur ++ a /\ split_on comma [] s' = y :: rest.
Proof.
  induction s as [|c r IH]; intros cur x y rest H; cbn [split_on] in H. discriminate.
  destruct (c =? comma) eqn:Ec.
  - apply Z.eqb_eq in Ec. subst c. inversion H. exists [], r. rewrite app_nil_r. auto.
  - destruct (IH _ _ _ _ H) as (a & s' & A & B & C & D). exists (c :: a), s'. split. rewrite A. reflexivity.
    split. cbn [has_comma existsb]. rewrite Ec. exact B. split; [|exact D]. rewrite C. cbn [rev]. rewrite <- app_assoc. reflexivity.
Qed.

Lemma split_on_step : forall a cur rest, has_comma a = false ->
  split_on comma cur (a ++ [comma] ++ rest) = (rev cur ++ a) :: split_on comma [] rest.
Proof.
  induction a as [|c a IH]; intros cur rest H.
  - cbn [app split_on]. rewrite Z.eqb_refl, app_nil_r. reflexivity.
  - cbn [has_comma existsb] in H. apply orb_false_iff in H. destruct H as [Hc Ha]. cbn [app split_on]. rewrite Hc.
    change (a ++ comma :: rest) with (a ++ [comma] ++ rest). rewrite IH by exact Ha. cbn [rev]. rewrite <- app_assoc. reflexivity.
Qed.

Lemma split_on_three_iff s a b c : split_on comma [] s = [a; b; c] <->
  s = a ++ [comma] ++ b ++ [comma] ++ c /\ has_comma a = false /\ has_comma b = false /\ has_comma c = false.
Proof.
  split.
  - intros H. apply split_on_cons_inv in H. destruct H as (a' & s' & -> & Ha & -> & H). cbn [rev app] in *.
    apply split_on_cons_inv in H. destruct H as (b' & s'' & -> & Hb & -> & H). cbn [rev app] in *.
    apply split_on_one_iff in H. destruct H as (Hc & ->). auto.
  - intros (-> & Ha & Hb & Hc). rewrite split_on_step by exact Ha. rewrite split_on_step by exact Hb.
    cbn [rev app]. f_equal. f_equal. apply split_on_one_iff. auto.
Qed.

Lemma has_prefix_false p t : has_prefix p t = false -> forall u, t <> p ++ u.
Proof. intros H u ->. rewrite has_prefix_app in H. discriminate H. Qed.

(* ------------------------------------------------------------------ *)
(* 3. the alphabets as symbol lists                                     *)
(* ------------------------------------------------------------------ *)
Lemma nth_byte_table (tbl : bytes) (P : Z -> bool) :
  forallb (fun n => (nth n tbl 255 =? 255) || P (Z.of_nat n)) (seq 0 (length tbl)) = true ->
  nth 0 tbl 255 = 255 ->
  forall c, negb (nth (Z.to_nat c) tbl 255 =? 255) = true -> P c = true.
Proof.
  intros H H0 c Hc. destruct (Z.ltb_spec c 0) as [Hn|Hn].
  - replace (Z.to_nat c) with 0%nat in Hc by lia. rewrite H0 in Hc. discriminate Hc.
  - destruct (Nat.ltb_spec (Z.to_nat c) (length tbl)) as [Hl|Hl].
    + rewrite forallb_forall in H. specialize (H (Z.to_nat c)). cbv beta in H. apply negb_true_iff in Hc. rewrite Hc in H. cbn [orb] in H.
      rewrite Z2Nat.id in H by exact Hn. apply H. apply in_seq. lia.
    + rewrite nth_overflow in Hc by exact Hl. discriminate Hc.
Qed.

Lemma valid_hash_in c : valid_char EncHash c = true <-> In c crypt_alphabet.
Proof.
  split.
  - intros H. apply mem_In.
    apply (nth_byte_table m_hashutil_hash_decode (fun c => mem c crypt_alphabet)); [vm_compute; reflexivity..|exact H].
  - intros H. assert (forallb (valid_char EncHash) crypt_alphabet = true) as S by (vm_compute; reflexivity).
    rewrite forallb_forall in S. apply S. exact H.
Qed.

Lemma valid_base64_in c : valid_char EncBase64 c = true <-> In c base64_std_alphabet.
Proof.
  split.
  - intros H. apply mem_In.
    apply (nth_byte_table m_hashutil_base64_decode (fun c => mem c base64_std_alphabet)); [vm_compute; reflexivity..|exact H].
  - intros H. assert (forallb (valid_char EncBase64) base64_std_alphabet = true) as S by (vm_compute; reflexivity).
    rewrite forallb_forall in S. apply S. exact H.
Qed.

(* in_alpha EncHash = "every symbol is one of ./0-9A-Za-z"; in_alpha EncBase64 = "... of A-Za-z0-9+/" (no '=') *)
Theorem in_alpha_hash_over s : in_alpha EncHash s = true <-> over crypt_alphabet s.
Proof.
  unfold in_alpha, over. rewrite forallb_forall, Forall_forall.
  split; intros H c Hc; apply valid_hash_in; auto.
Qed.

Theorem in_alpha_base64_over s : in_alpha EncBase64 s = true <-> over base64_std_alphabet s.
Proof.
  unfold in_alpha, over. rewrite forallb_forall, Forall_forall.
  split; intros H c Hc; apply valid_base64_in; auto.
Qed.

(* neither alphabet has '$' or ',' (or '=' or '_') *)
Theorem alphabets_no_delims :
  mem dollar crypt_alphabet = false /\ mem comma crypt_alphabet = false /\
  mem equals crypt_alphabet = false /\ mem underscore crypt_alphabet = false /\
  mem dollar base64_std_alphabet = false /\ mem comma base64_std_alphabet = false /\
  mem equals base64_std_alphabet = false.
Proof. vm_compute. repeat split. Qed.

Lemma base64_no_delims s : in_alpha EncBase64 s = true -> no_dollar s /\ has_comma s = false.
Proof. intros H. apply std_no_delims. apply in_alpha_base64_over. exact H. Qed.

(* ------------------------------------------------------------------ *)
(* 4. ParseUint(s, 10, bits)                                            *)
(* ------------------------------------------------------------------ *)
(* the number a string of decimal digits denotes (leading zeros allowed) *)
Definition dec_value (s : bytes) : Z := fold_left (fun a c => a * 10 + (c - 48)) s 0.

Lemma is_digit_range c : is_digit c = true <-> 48 <= c <= 57.
Proof. unfold is_digit. rewrite andb_true_iff, !Z.leb_le. tauto. Qed.

Lemma dec_fold_ge : forall s a, is_digits s = true -> 0 <= a -> a <= fold_left (fun a c => a * 10 + (c - 48)) s a.
Proof.
  induction s as [|c r IH]; intros a H Ha; cbn [fold_left]. lia.
  cbn [is_digits forallb] in H. apply andb_true_iff in H. destruct H as [Hc Hr]. apply is_digit_range in Hc.
  specialize (IH (a * 10 + (c - 48)) Hr ltac:(lia)). lia.
Qed.

Lemma parse_digits10_iff maxv : forall s acc v, 0 <= acc <= maxv ->
  (parse_digits 10 maxv acc s = inl v <->
   is_digits s = true /\ v = fold_left (fun a c => a * 10 + (c - 48)) s acc /\ v <= maxv).
Proof.
  induction s as [|c r IH]; intros acc v Ha.
  - cbn [parse_digits is_digits forallb fold_left]. split.
    + intros [= <-]. split. reflexivity. split. reflexivity. lia.
    + intros (_ & -> & _). reflexivity.
  - cbn [parse_digits is_digits forallb fold_left]. unfold digit_val. fold (is_digit c).
    destruct (is_digit c) eqn:Ec.
    + apply is_digit_range in Ec. cbn [andb].
      destruct (10 <=? c - 48) eqn:E10. { apply Z.leb_le in E10. lia. }
      destruct (maxv <? acc * 10 + (c - 48)) eqn:Em.
      * apply Z.ltb_lt in Em. split. discriminate. intros (Hr & Hv & Hm). exfalso.
        pose proof (dec_fold_ge r (acc * 10 + (c - 48)) Hr ltac:(lia)). lia.
      * apply Z.ltb_ge in Em. apply IH. lia.
    + cbn [andb]. split; [|intros (H & _); discriminate H]. intros H. exfalso.
      unfold is_digit in Ec.
      destruct ((97 <=? c) && (c <=? 122)) eqn:E2.
      * apply andb_true_iff in E2. destruct E2 as [A B]. apply Z.leb_le in A.
        destruct (10 <=? c - 97 + 10) eqn:E10. discriminate H. apply Z.leb_gt in E10. lia.
      * destruct ((65 <=? c) && (c <=? 90)) eqn:E3; [|discriminate H].
        apply andb_true_iff in E3. destruct E3 as [A B]. apply Z.leb_le in A.
        destruct (10 <=? c - 65 + 10) eqn:E10. discriminate H. apply Z.leb_gt in E10. lia.
Qed.

(* strconv.ParseUint(s, 10, bits) succeeds with v exactly when s is a non-empty string of the digits 0-9
   (no sign, no '_', leading zeros allowed) that denotes v, and v < 2^bits *)
Theorem ParseUint10_iff s bits v : 0 <= bits ->
  (ParseUint s 10 bits = inl v <-> s <> [] /\ is_digits s = true /\ v = dec_value s /\ v < 2 ^ bits).
Proof.
  intros Hb. pose proof (Z.pow_pos_nonneg 2 bits ltac:(lia) Hb) as Hp. unfold ParseUint, dec_value.
  destruct s as [|c r].
  - split. discriminate. intros (H & _). contradiction.
  - rewrite parse_digits10_iff by lia. split.
    + intros (A & B & C). split. discriminate. split. exact A. split. exact B. lia.
    + intros (_ & A & B & C). split. exact A. split. exact B. lia.
Qed.

Lemma ParseUint10_no_delims s bits v : ParseUint s 10 bits = inl v -> no_dollar s /\ has_comma s = false.
Proof. intros H. apply alpha_no_delims. apply is_digits_alpha. eapply ParseUint10_digits. exact H. Qed.

(* ------------------------------------------------------------------ *)
(* 5. salt_sum_ok                                                       *)
(* ------------------------------------------------------------------ *)
Lemma slen_eqb s (n : nat) : (slen s =? Z.of_nat n) = true <-> length s = n.
Proof. unfold slen. rewrite Z.eqb_eq. lia. Qed.

Lemma salt_sum_ok_iff salt sum (n : nat) : salt_sum_ok salt sum (Z.of_nat n) = true <->
  in_alpha EncHash salt = true /\ length sum = n /\ in_alpha EncHash sum = true.
Proof. unfold salt_sum_ok. rewrite !andb_true_iff, slen_eqb. tauto. Qed.

Print Assumptions pieces_one_iff.
Print Assumptions pieces_cons_iff.
Print Assumptions in_alpha_hash_over.
Print Assumptions in_alpha_base64_over.
Print Assumptions alphabets_no_delims.
Print Assumptions ParseUint10_iff.
