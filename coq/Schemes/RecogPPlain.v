(* C06 classification of md5, sha256, sha512, sha1 and nthash: layouts of plain '$'-separated values. *)
Require Import GC.Schemes.RecogPBase.

Definition ti_dummy : tinfo := {| ti_prefix := None; ti_fields := []; ti_numreq := 0 |}.
Definition ti_or_dummy (r : res tinfo) : tinfo := match r with Ok t => t | _ => ti_dummy end.

(* ---------------------------------------------------------------- md5 *)
Definition TI_md5 : tinfo := Eval vm_compute in ti_or_dummy (type_info m_layout_md5).
Lemma ti_md5 : type_info m_layout_md5 = Ok TI_md5.
Proof. vm_compute. reflexivity. Qed.

Lemma parse_md5 body : parse (p_md5 ++ body) = POk (body_tree (Some p_md5) 3 body).
Proof. rewrite parse_eq. reflexivity. Qed.

Theorem md5_classified : forall L kdf h pw,
  (forall bs ns k, kdf T_md5 bs ns = Some k -> length k = 16%nat) ->
  class_of (check_md5 L kdf h pw) = spec_md5 L kdf h pw.
Proof.
  intros L kdf h pw Hk. destruct (has_prefix p_md5 h) eqn:HP.
  - apply has_prefix_spec in HP. destruct HP as [body ->].
    unfold check_md5, with_layout, unmarshal_top. rewrite parse_md5, ti_md5. unfold TI_md5.
    cbn [bind]. unfold body_tree.
    unfold spec_md5, recog_md5. rewrite has_prefix_app. change (skipn 3 (p_md5 ++ body)) with body. cbv zeta.
    pose proof (sc_plain body [] 3 3) as HF. unfold plain_frags.
    destruct (sc [] 3 3 body None) as [|[[p1 t1]|g1] [|[[p2 t2]|g2] [|[[p3 t3]|g3] r]]];
      split_frags HF body; eval_prefix.
    all: unfold salt_sum_ok, slen; rewrite ?in_alpha_fi.
    all: crunch. all: try reflexivity.
    all: apply finish_class; intros key Hkey; eapply le64_len; [eapply key_md5_len; eauto | reflexivity].
  - unfold spec_md5, recog_md5. rewrite HP. unfold check_md5.
    eapply foreign_prefix with (id := 12%nat); try exact ti_md5; try reflexivity.
    intros q [<-|[]]. exact HP.
Qed.

(* ---------------------------------------------------------------- sha256 / sha512 *)
Definition TI_sha256 : tinfo := Eval vm_compute in ti_or_dummy (type_info m_layout_sha256).
Lemma ti_sha256 : type_info m_layout_sha256 = Ok TI_sha256.
Proof. vm_compute. reflexivity. Qed.
Definition TI_sha512 : tinfo := Eval vm_compute in ti_or_dummy (type_info m_layout_sha512).
Lemma ti_sha512 : type_info m_layout_sha512 = Ok TI_sha512.
Proof. vm_compute. reflexivity. Qed.

Lemma parse_sha256 body : parse (p_sha256 ++ body) = POk (body_tree (Some p_sha256) 3 body).
Proof. rewrite parse_eq. reflexivity. Qed.
Lemma parse_sha512 body : parse (p_sha512 ++ body) = POk (body_tree (Some p_sha512) 3 body).
Proof. rewrite parse_eq. reflexivity. Qed.

Theorem sha256_classified : forall L kdf h pw,
  (forall bs ns k, kdf T_sha256 bs ns = Some k -> length k = 32%nat) ->
  class_of (check_sha256 L kdf h pw) = spec_sha256 L kdf h pw.
Proof.
  intros L kdf h pw Hk. destruct (has_prefix p_sha256 h) eqn:HP.
  - apply has_prefix_spec in HP. destruct HP as [body ->].
    unfold check_sha256, with_layout, unmarshal_top. rewrite parse_sha256, ti_sha256. unfold TI_sha256.
    cbn [bind]. unfold body_tree.
    unfold spec_sha256, recog_sha256, recog_sha2. rewrite has_prefix_app. change (skipn 3 (p_sha256 ++ body)) with body. cbv zeta.
    pose proof (sc_plain body [] 3 3) as HF. unfold plain_frags.
    destruct (sc [] 3 3 body None) as [|[[p1 t1]|g1] [|[[p2 t2]|g2] [|[[p3 t3]|g3] [|[[p4 t4]|g4] r]]]];
      split_frags HF body; eval_prefix.
    all: unfold salt_sum_ok, slen, k_rounds, num0, sha2_rounds; rewrite ?in_alpha_fi.
    all: crunch. all: try reflexivity. all: try uint_alpha.
    all: arr_fix; apply finish_class; intros key Hkey; eapply le64_len; [eapply key_sha2_len; eauto | reflexivity].
  - unfold spec_sha256, recog_sha256, recog_sha2. rewrite HP. unfold check_sha256.
    eapply foreign_prefix with (id := 15%nat); try exact ti_sha256; try reflexivity.
    intros q [<-|[]]. exact HP.
Qed.

Theorem sha512_classified : forall L kdf h pw,
  (forall bs ns k, kdf T_sha512 bs ns = Some k -> length k = 64%nat) ->
  class_of (check_sha512 L kdf h pw) = spec_sha512 L kdf h pw.
Proof.
  intros L kdf h pw Hk. destruct (has_prefix p_sha512 h) eqn:HP.
  - apply has_prefix_spec in HP. destruct HP as [body ->].
    unfold check_sha512, with_layout, unmarshal_top. rewrite parse_sha512, ti_sha512. unfold TI_sha512.
    cbn [bind]. unfold body_tree.
    unfold spec_sha512, recog_sha512, recog_sha2. rewrite has_prefix_app. change (skipn 3 (p_sha512 ++ body)) with body. cbv zeta.
    pose proof (sc_plain body [] 3 3) as HF. unfold plain_frags.
    destruct (sc [] 3 3 body None) as [|[[p1 t1]|g1] [|[[p2 t2]|g2] [|[[p3 t3]|g3] [|[[p4 t4]|g4] r]]]];
      split_frags HF body; eval_prefix.
    all: unfold salt_sum_ok, slen, k_rounds, num0, sha2_rounds; rewrite ?in_alpha_fi.
    all: crunch. all: try reflexivity. all: try uint_alpha.
    all: arr_fix; apply finish_class; intros key Hkey; eapply le64_len; [eapply key_sha2_len; eauto | reflexivity].
  - unfold spec_sha512, recog_sha512, recog_sha2. rewrite HP. unfold check_sha512.
    eapply foreign_prefix with (id := 16%nat); try exact ti_sha512; try reflexivity.
    intros q [<-|[]]. exact HP.
Qed.

(* ---------------------------------------------------------------- sha1 *)
Definition TI_sha1 : tinfo := Eval vm_compute in ti_or_dummy (type_info m_layout_sha1).
Lemma ti_sha1 : type_info m_layout_sha1 = Ok TI_sha1.
Proof. vm_compute. reflexivity. Qed.
Lemma parse_sha1 body : parse (p_sha1 ++ body) = POk (body_tree (Some p_sha1) 6 body).
Proof. rewrite parse_eq. reflexivity. Qed.

Theorem sha1_classified : forall L kdf rr h pw,
  (forall bs ns k, kdf T_sha1 bs ns = Some k -> length k = 21%nat) ->
  class_of (check_sha1 L kdf rr h pw) = spec_sha1 L kdf rr h pw.
Proof.
  intros L kdf rr h pw Hk. destruct (has_prefix p_sha1 h) eqn:HP.
  - apply has_prefix_spec in HP. destruct HP as [body ->].
    unfold check_sha1, with_layout, unmarshal_top. rewrite parse_sha1, ti_sha1. unfold TI_sha1.
    cbn [bind]. unfold body_tree.
    unfold spec_sha1, recog_sha1. rewrite has_prefix_app. change (skipn 6 (p_sha1 ++ body)) with body. cbv zeta.
    pose proof (sc_plain body [] 6 6) as HF. unfold plain_frags.
    destruct (sc [] 6 6 body None) as [|[[p1 t1]|g1] [|[[p2 t2]|g2] [|[[p3 t3]|g3] [|[[p4 t4]|g4] r]]]];
      split_frags HF body; eval_prefix.
    all: unfold salt_sum_ok, slen, num0; rewrite ?in_alpha_fi.
    all: crunch. all: try reflexivity. all: try uint_alpha.
    all: arr_fix; apply finish_class; intros key Hkey; eapply le64_len; [eapply key_sha1_len; eauto | reflexivity].
  - unfold spec_sha1, recog_sha1. rewrite HP. unfold check_sha1.
    eapply foreign_prefix with (id := 14%nat); try exact ti_sha1; try reflexivity.
    intros q [<-|[]]. exact HP.
Qed.

(* ---------------------------------------------------------------- nthash *)
Definition TI_nthash : tinfo := Eval vm_compute in ti_or_dummy (type_info m_layout_nthash).
Lemma ti_nthash : type_info m_layout_nthash = Ok TI_nthash.
Proof. vm_compute. reflexivity. Qed.
Lemma parse_nthash body : parse (p_nthash ++ body) = POk (body_tree (Some p_nthash) 3 body).
Proof. rewrite parse_eq. reflexivity. Qed.

Theorem nthash_classified : forall L kdf nt h pw,
  (forall bs ns k, kdf T_nthash bs ns = Some k -> length k = 16%nat) ->
  class_of (check_nthash L kdf nt h pw) = spec_nthash L kdf nt h pw.
Proof.
  intros L kdf nt h pw Hk. destruct (has_prefix p_nthash h) eqn:HP.
  - apply has_prefix_spec in HP. destruct HP as [body ->].
    unfold check_nthash, with_layout, unmarshal_top. rewrite parse_nthash, ti_nthash. unfold TI_nthash.
    cbn [bind]. unfold body_tree.
    unfold spec_nthash, recog_nthash. rewrite has_prefix_app. change (skipn 3 (p_nthash ++ body)) with body. cbv zeta.
    pose proof (sc_plain body [] 3 3) as HF. unfold plain_frags.
    destruct (sc [] 3 3 body None) as [|[[p1 t1]|g1] [|[[p2 t2]|g2] [|[[p3 t3]|g3] r]]];
      split_frags HF body; eval_prefix.
    all: unfold slen; rewrite ?in_alpha_fi.
    all: try (destruct t1 as [|c1 t1]).
    all: crunch. all: try reflexivity.
    all: arr_fix; apply finish_class; intros key Hkey; rewrite hex_len; erewrite key_nthash_len; eauto.
  - unfold spec_nthash, recog_nthash. rewrite HP. unfold check_nthash.
    eapply foreign_prefix with (id := 13%nat); try exact ti_nthash; try reflexivity.
    intros q [<-|[]]. exact HP.
Qed.
