(* C06 classification of md5, sha256, sha512, sha1 and nthash: layouts of plain '$'-separated values. *)
Require Import GC.Schemes.RecogPBase.

Definition ti_dummy : tinfo := {| ti_prefix := None; ti_fields := []; ti_numreq := 0 |}.
Definition ti_or_dummy (r : res tinfo) : tinfo := match r with Ok t => t | _ => ti_dummy end.

(* ---------------------------------------------------------------- md5 *)
Definition TI_md5 : tinfo := Eval vm_compute in ti_or_dummy (type_info m_layout_md5).
Lemma ti_md5 : type_info m_layout_md5 = Ok TI_md5.
Proof. vm_compute. reflexivity. Qed.

Lemma parse_md5 body : parse (p_md5 ++ body) = POk (body_tree (Some p_md5) 3 body).
Proof. rewrite parse_eq. reflexivity. Qed.

Theorem md5_classified : forall L kdf h pw,
  (forall bs ns k, kdf T_md5 bs ns = Some k -> length k = 16%nat) ->
  class_of (check_md5 L kdf h pw) = spec_md5 L kdf h pw.
Proof.
  intros L kdf h pw Hk. destruct (has_prefix p_md5 h) eqn:HP.
  - apply has_prefix_spec in HP. destruct HP as [body ->].
    unfold check_md5, with_layout, unmarshal_top. rewrite parse_md5, ti_md5. unfold TI_md5.
    cbn [bind]. unfold body_tree.
    unfold spec_md5, recog_md5. rewrite has_prefix_app. change (skipn 3 (p_md5 ++ body)) with body. cbv zeta.
    pose proof (sc_plain body [] 3 3) as HF. unfold plain_frags.
    destruct (sc [] 3 3 body None) as [|[[p1 t1]|g1] [|[[p2 t2]|g2] [|[[p3 t3]|g3] r]]];
      split_frags HF body; eval_prefix.
    all: unfold salt_sum_ok, slen; rewrite ?in_alpha_fi.
    all: crunch. all: try reflexivity.
    all: apply finish_class; intros key Hkey; eapply le64_len; [eapply key_md5_len; eauto | reflexivity].
  - unfold spec_md5, recog_md5. rewrite HP. unfold check_md5.
    eapply foreign_prefix with (id := 12%nat); try exact ti_md5; try reflexivity.
    intros q [<-|[]]. exact HP.
Qed.

(* ---------------------------------------------------------------- sha256 / sha512 *)
Definition TI_sha256 : tinfo := Eval vm_compute in ti_or_dummy (type_info m_layout_sha256).
Lemma ti_sha256 : type_info m_layout_sha256 = Ok TI_sha256.
Proof. vm_compute. reflexivity. Qed.
Definition TI_sha512 : tinfo := Eval vm_compute in ti_or_dummy (type_info m_layout_sha512).
Lemma ti_sha512 : type_info m_layout_sha512 = Ok TI_sha512.
Proof. vm_compute. reflexivity. Qed.

Lemma parse_sha256 body : parse (p_sha256 ++ body) = POk (body_tree (Some p_sha256) 3 body).
Proof. rewrite parse_eq. reflexivity. Qed.
Lemma parse_sha512 body : parse (p_sha512 ++ body) = POk (body_tree (Some p_sha512) 3 body).
Proof. rewrite parse_eq. reflexivity. Qed.

Theorem sha256_classified : forall L kdf h pw,
  (forall bs ns k, kdf T_sha256 bs ns = Some k -> length k = 32%nat) ->
  class_of (check_sha256 L kdf h pw) = spec_sha256 L kdf h pw.
Proof.
  intros L kdf h pw Hk. destruct (has_prefix p_sha256 h) eqn:HP.
  - apply has_prefix_spec in HP. destruct HP as [body ->].
    unfold check_sha256, with_layout, unmarshal_top. rewrite parse_sha256, ti_sha256. unfold TI_sha256.
    cbn [bind]. unfold body_tree.
    unfold spec_sha256, recog_sha256, recog_sha2. rewrite has_prefix_app. change (skipn 3 (p_sha256 ++ body)) with body. cbv zeta.
    pose proof (sc_plain body [] 3 3) as HF. unfold plain_frags.
    destruct (sc [] 3 3 body None) as [|[[p1 t1]|g1] [|[[p2 t2]|g2] [|[[p3 t3]|g3] [|[[p4 t4]|g4] r]]]];
      split_frags HF body; eval_prefix.
    all: unfold salt_sum_ok, slen, k_rounds, num0, sha2_rounds; rewrite ?in_alpha_fi.
    all: crunch. all: try reflexivity. all: try uint_alpha.
    all: arr_fix; apply finish_class; intros key Hkey; eapply le64_len; [eapply key_sha2_len; eauto | reflexivity].
  - unfold spec_sha256, recog_sha256, recog_sha2. rewrite HP. unfold check_sha256.
    eapply foreign_prefix with (id := 15%nat); try exact ti_sha256; try reflexivity.
    intros q [<-|[]]. exact HP.
Qed.
