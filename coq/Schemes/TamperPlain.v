(* C02, second sentence: "for a hash made from password p, any change to a digest character, and any password whose
   derived key differs, yields the mismatch sentinel or an error and never success".
   md5, sha256, sha512, sha1, des, desext, nthash (bcrypt, sunmd5, argon2 are in TamperOther.v).  Per scheme X:
     X_canon_class          class of Check's verdict on the canonical text with ANY well-formed salt / cost / digest text
     X_digest_tamper        Check = nil on canon_X .. salt sum'  ->  Key succeeds and its encoding is sum'
     X_digest_tamper_fresh  the fresh hash of pw with its digest replaced by another text of the digest alphabet and
                            length: Check answers the mismatch sentinel
     X_wrong_password       the fresh hash of pw, a password pw' whose derived key encodes differently: mismatch sentinel
     X_wrong_password_never the fresh hash of pw, ANY pw' (Key may fail): nil only if Key succeeds with the same encoding
     X_salt_cost_tamper     canonical text with another salt / cost: nil only if the key derived from THEM encodes to the
                            stored digest; mismatch sentinel when Key succeeds and the encoding differs
   The derivation is abstract: "the derivation separates pw and pw'" is a hypothesis, not a fact about MD5/SHA/DES. *)
Require Import GC.Schemes.FreshBase GC.Schemes.FreshPlain.
Require Import GC.Schemes.RandProofs GC.Schemes.NoPanic.

Local Notation salt_ok s := (in_alpha EncHash s = true).

(* ------------------------------------------------------------------ *)
(* verdicts from classes                                               *)
(* ------------------------------------------------------------------ *)
Lemma class_of_1 v : class_of v = 1%nat <-> v = VMismatch.
Proof. destruct v; cbn [class_of]; split; intros H; try reflexivity; discriminate H. Qed.

Lemma class_key_1 enc key sum : enc key <> sum -> class_key enc (KOk key) sum = 1%nat.
Proof. intros H. unfold class_key. apply bytes_eqb_neq in H. rewrite H. reflexivity. Qed.

Lemma tamper_match v enc k sum :
  class_of v = class_key enc k sum -> v = VMatch -> exists key, k = KOk key /\ enc key = sum.
Proof. intros H E. apply class_key_0. rewrite <- H. apply class_of_0. exact E. Qed.

Lemma tamper_mismatch v enc k key sum :
  class_of v = class_key enc k sum -> k = KOk key -> enc key <> sum -> v = VMismatch.
Proof. intros H E N. apply class_of_1. rewrite H, E. apply class_key_1. exact N. Qed.

Lemma tamper_never v enc k sum :
  class_of v = class_key enc k sum -> (forall key, k = KOk key -> enc key <> sum) -> v <> VMatch.
Proof. intros H N E. destruct (tamper_match v enc k sum H E) as (key & Ek & Es). exact (N key Ek Es). Qed.

(* a Key error is neither nil nor the sentinel *)
Lemma tamper_error v enc e sum :
  class_of v = class_key enc (KErr e) sum -> v <> VMatch /\ v <> VMismatch.
Proof. intros H. split; intros ->; discriminate H. Qed.

(* ================================================================== md5 *)
Lemma md5_canon_class L kdf pw salt sum :
  (forall bs ns k, kdf T_md5 bs ns = Some k -> length k = 16%nat) ->
  over crypt_alphabet salt -> over crypt_alphabet sum -> length sum = 22%nat ->
  class_of (check_md5 L kdf (canon_md5 salt sum) pw) = class_key le64 (key_md5 L kdf pw salt) sum.
Proof.
  intros Hk Hs Hd Hl. rewrite (md5_classified L kdf _ pw Hk). unfold spec_md5.
  rewrite recog_md5_canon by (auto using crypt_valid). reflexivity.
Qed.

Theorem md5_digest_tamper : forall kdf pw salt sum',
  (forall bs ns k, kdf T_md5 bs ns = Some k -> length k = 16%nat) ->
  over crypt_alphabet salt -> over crypt_alphabet sum' -> length sum' = 22%nat ->
  check_md5 L0 kdf (canon_md5 salt sum') pw = VMatch ->
  exists key, key_md5 L0 kdf pw salt = KOk key /\ le64 key = sum'.
Proof. intros kdf pw salt sum' Hk Hs Hd Hl. apply tamper_match, md5_canon_class; assumption. Qed.

Theorem md5_salt_cost_tamper : forall kdf pw salt' d,
  (forall bs ns k, kdf T_md5 bs ns = Some k -> length k = 16%nat) ->
  over crypt_alphabet salt' -> over crypt_alphabet d -> length d = 22%nat ->
  ((forall key', key_md5 L0 kdf pw salt' = KOk key' -> le64 key' <> d) ->
   check_md5 L0 kdf (canon_md5 salt' d) pw <> VMatch) /\
  (forall key', key_md5 L0 kdf pw salt' = KOk key' -> le64 key' <> d ->
   check_md5 L0 kdf (canon_md5 salt' d) pw = VMismatch).
Proof.
  intros kdf pw salt' d Hk Hs Hd Hl. pose proof (md5_canon_class L0 kdf pw salt' d Hk Hs Hd Hl) as C. split.
  - apply tamper_never. exact C.
  - intros key'. apply tamper_mismatch. exact C.
Qed.

Section MD5.
Variables (kdf : kdf_t) (stream pw : bytes).
Hypothesis Hk : kdf_ok kdf T_md5 16.
Hypothesis Hs : good_stream stream 8.

Theorem md5_digest_tamper_fresh : forall h, newhash_md5 L0 kdf stream pw = NOk h ->
  exists key, key_md5 L0 kdf pw (salt_hash 8 stream) = KOk key /\ h = canon_md5 (salt_hash 8 stream) (le64 key) /\
  forall sum', over crypt_alphabet sum' -> length sum' = 22%nat -> sum' <> le64 key ->
    check_md5 L0 kdf (canon_md5 (salt_hash 8 stream) sum') pw = VMismatch.
Proof.
  intros h Eh. destruct (md5_fresh_facts kdf stream pw Hk Hs) as (key & Ek & Hl & Hw & Hsalt & En).
  rewrite En in Eh. injection Eh as <-. exists key. split. exact Ek. split. reflexivity.
  intros sum' Ho Hl' Hne.
  eapply tamper_mismatch; [apply md5_canon_class|exact Ek|congruence];
    auto using salt_hash_over. apply (kdf_ok_len _ _ _ Hk).
Qed.

Theorem md5_wrong_password_never : forall h pw', newhash_md5 L0 kdf stream pw = NOk h ->
  exists key, key_md5 L0 kdf pw (salt_hash 8 stream) = KOk key /\
  (check_md5 L0 kdf h pw' = VMatch ->
   exists key', key_md5 L0 kdf pw' (salt_hash 8 stream) = KOk key' /\ le64 key' = le64 key).
Proof.
  intros h pw' Eh. destruct (md5_fresh_facts kdf stream pw Hk Hs) as (key & Ek & Hl & Hw & Hsalt & En).
  rewrite En in Eh. injection Eh as <-. exists key. split. exact Ek.
  apply tamper_match, md5_canon_class; auto using salt_hash_over, le64_over, le64_16. apply (kdf_ok_len _ _ _ Hk).
Qed.

Theorem md5_wrong_password : forall h pw' key key', newhash_md5 L0 kdf stream pw = NOk h ->
  key_md5 L0 kdf pw (salt_hash 8 stream) = KOk key -> key_md5 L0 kdf pw' (salt_hash 8 stream) = KOk key' ->
  le64 key' <> le64 key -> check_md5 L0 kdf h pw' = VMismatch.
Proof.
  intros h pw' key key' Eh Ek Ek' Hne.
  destruct (md5_fresh_facts kdf stream pw Hk Hs) as (key0 & Ek0 & Hl & Hw & Hsalt & En).
  rewrite Ek in Ek0. injection Ek0 as <-. rewrite En in Eh. injection Eh as <-.
  eapply tamper_mismatch; [apply md5_canon_class|exact Ek'|exact Hne];
    auto using salt_hash_over, le64_over, le64_16. apply (kdf_ok_len _ _ _ Hk).
Qed.
End MD5.


(* ================================================================== sha256 *)
Lemma sha256_canon_class L kdf pw rounds salt sum :
  (forall bs ns k, kdf T_sha256 bs ns = Some k -> length k = 32%nat) ->
  0 < rounds < 2 ^ 32 -> over crypt_alphabet salt -> over crypt_alphabet sum -> length sum = 43%nat ->
  class_of (check_sha256 L kdf (canon_sha256 rounds salt sum) pw) = class_key le64 (key_sha256 L kdf pw salt rounds) sum.
Proof.
  intros Hk Hr Hs Hd Hl. rewrite (sha256_classified L kdf _ pw Hk). unfold spec_sha256.
  unfold recog_sha256, canon_sha256, p_sha256.
  rewrite (recog_sha2_canon _ _ _ 42 rounds salt sum) by (auto using crypt_valid). reflexivity.
Qed.

Theorem sha256_digest_tamper : forall kdf pw rounds salt sum',
  (forall bs ns k, kdf T_sha256 bs ns = Some k -> length k = 32%nat) ->
  0 < rounds < 2 ^ 32 -> over crypt_alphabet salt -> over crypt_alphabet sum' -> length sum' = 43%nat ->
  check_sha256 L0 kdf (canon_sha256 rounds salt sum') pw = VMatch ->
  exists key, key_sha256 L0 kdf pw salt rounds = KOk key /\ le64 key = sum'.
Proof. intros kdf pw rounds salt sum' Hk Hr Hs Hd Hl. apply tamper_match, sha256_canon_class; assumption. Qed.

Theorem sha256_salt_cost_tamper : forall kdf pw rounds' salt' d,
  (forall bs ns k, kdf T_sha256 bs ns = Some k -> length k = 32%nat) ->
  0 < rounds' < 2 ^ 32 -> over crypt_alphabet salt' -> over crypt_alphabet d -> length d = 43%nat ->
  ((forall key', key_sha256 L0 kdf pw salt' rounds' = KOk key' -> le64 key' <> d) ->
   check_sha256 L0 kdf (canon_sha256 rounds' salt' d) pw <> VMatch) /\
  (forall key', key_sha256 L0 kdf pw salt' rounds' = KOk key' -> le64 key' <> d ->
   check_sha256 L0 kdf (canon_sha256 rounds' salt' d) pw = VMismatch).
Proof.
  intros kdf pw rounds' salt' d Hk Hr Hs Hd Hl.
  pose proof (sha256_canon_class L0 kdf pw rounds' salt' d Hk Hr Hs Hd Hl) as C. split.
  - apply tamper_never. exact C.
  - intros key'. apply tamper_mismatch. exact C.
Qed.

Section SHA256.
Variables (kdf : kdf_t) (stream pw : bytes) (rounds : Z).
Hypothesis Hk : kdf_ok kdf T_sha256 32.
Hypothesis Hs : good_stream stream 16.
Hypothesis Hr : L_sha256_MinRounds L0 <= rounds <= L_sha256_MaxRounds L0.

Theorem sha256_digest_tamper_fresh : forall h, newhash_sha256 L0 kdf stream pw rounds = NOk h ->
  exists key, key_sha256 L0 kdf pw (salt_hash 16 stream) rounds = KOk key /\
  h = canon_sha256 rounds (salt_hash 16 stream) (le64 key) /\
  forall sum', over crypt_alphabet sum' -> length sum' = 43%nat -> sum' <> le64 key ->
    check_sha256 L0 kdf (canon_sha256 rounds (salt_hash 16 stream) sum') pw = VMismatch.
Proof.
  intros h Eh. destruct (sha256_fresh_facts kdf stream pw rounds Hk Hs Hr) as (key & Ek & Hl & Hw & Hsalt & En).
  rewrite En in Eh. injection Eh as <-. exists key. split. exact Ek. split. reflexivity.
  intros sum' Ho Hl' Hne.
  eapply tamper_mismatch; [apply sha256_canon_class|exact Ek|congruence];
    auto using salt_hash_over, (sha256_rounds32 rounds Hr). apply (kdf_ok_len _ _ _ Hk).
Qed.

Theorem sha256_wrong_password_never : forall h pw', newhash_sha256 L0 kdf stream pw rounds = NOk h ->
  exists key, key_sha256 L0 kdf pw (salt_hash 16 stream) rounds = KOk key /\
  (check_sha256 L0 kdf h pw' = VMatch ->
   exists key', key_sha256 L0 kdf pw' (salt_hash 16 stream) rounds = KOk key' /\ le64 key' = le64 key).
Proof.
  intros h pw' Eh. destruct (sha256_fresh_facts kdf stream pw rounds Hk Hs Hr) as (key & Ek & Hl & Hw & Hsalt & En).
  rewrite En in Eh. injection Eh as <-. exists key. split. exact Ek.
  apply tamper_match, sha256_canon_class;
    auto using salt_hash_over, le64_over, le64_32, (sha256_rounds32 rounds Hr). apply (kdf_ok_len _ _ _ Hk).
Qed.

Theorem sha256_wrong_password : forall h pw' key key', newhash_sha256 L0 kdf stream pw rounds = NOk h ->
  key_sha256 L0 kdf pw (salt_hash 16 stream) rounds = KOk key ->
  key_sha256 L0 kdf pw' (salt_hash 16 stream) rounds = KOk key' ->
  le64 key' <> le64 key -> check_sha256 L0 kdf h pw' = VMismatch.
Proof.
  intros h pw' key key' Eh Ek Ek' Hne.
  destruct (sha256_fresh_facts kdf stream pw rounds Hk Hs Hr) as (key0 & Ek0 & Hl & Hw & Hsalt & En).
  rewrite Ek in Ek0. injection Ek0 as <-. rewrite En in Eh. injection Eh as <-.
  eapply tamper_mismatch; [apply sha256_canon_class|exact Ek'|exact Hne];
    auto using salt_hash_over, le64_over, le64_32, (sha256_rounds32 rounds Hr). apply (kdf_ok_len _ _ _ Hk).
Qed.
End SHA256.

(* ================================================================== sha512 *)
Lemma sha512_canon_class L kdf pw rounds salt sum :
  (forall bs ns k, kdf T_sha512 bs ns = Some k -> length k = 64%nat) ->
  0 < rounds < 2 ^ 32 -> over crypt_alphabet salt -> over crypt_alphabet sum -> length sum = 86%nat ->
  class_of (check_sha512 L kdf (canon_sha512 rounds salt sum) pw) = class_key le64 (key_sha512 L kdf pw salt rounds) sum.
Proof.
  intros Hk Hr Hs Hd Hl. rewrite (sha512_classified L kdf _ pw Hk). unfold spec_sha512.
  unfold recog_sha512, canon_sha512, p_sha512.
  rewrite (recog_sha2_canon _ _ _ 85 rounds salt sum) by (auto using crypt_valid). reflexivity.
Qed.

Theorem sha512_digest_tamper : forall kdf pw rounds salt sum',
  (forall bs ns k, kdf T_sha512 bs ns = Some k -> length k = 64%nat) ->
  0 < rounds < 2 ^ 32 -> over crypt_alphabet salt -> over crypt_alphabet sum' -> length sum' = 86%nat ->
  check_sha512 L0 kdf (canon_sha512 rounds salt sum') pw = VMatch ->
  exists key, key_sha512 L0 kdf pw salt rounds = KOk key /\ le64 key = sum'.
Proof. intros kdf pw rounds salt sum' Hk Hr Hs Hd Hl. apply tamper_match, sha512_canon_class; assumption. Qed.

Theorem sha512_salt_cost_tamper : forall kdf pw rounds' salt' d,
  (forall bs ns k, kdf T_sha512 bs ns = Some k -> length k = 64%nat) ->
  0 < rounds' < 2 ^ 32 -> over crypt_alphabet salt' -> over crypt_alphabet d -> length d = 86%nat ->
  ((forall key', key_sha512 L0 kdf pw salt' rounds' = KOk key' -> le64 key' <> d) ->
   check_sha512 L0 kdf (canon_sha512 rounds' salt' d) pw <> VMatch) /\
  (forall key', key_sha512 L0 kdf pw salt' rounds' = KOk key' -> le64 key' <> d ->
   check_sha512 L0 kdf (canon_sha512 rounds' salt' d) pw = VMismatch).
Proof.
  intros kdf pw rounds' salt' d Hk Hr Hs Hd Hl.
  pose proof (sha512_canon_class L0 kdf pw rounds' salt' d Hk Hr Hs Hd Hl) as C. split.
  - apply tamper_never. exact C.
  - intros key'. apply tamper_mismatch. exact C.
Qed.

Section SHA512.
Variables (kdf : kdf_t) (stream pw : bytes) (rounds : Z).
Hypothesis Hk : kdf_ok kdf T_sha512 64.
Hypothesis Hs : good_stream stream 16.
Hypothesis Hr : L_sha512_MinRounds L0 <= rounds <= L_sha512_MaxRounds L0.

Theorem sha512_digest_tamper_fresh : forall h, newhash_sha512 L0 kdf stream pw rounds = NOk h ->
  exists key, key_sha512 L0 kdf pw (salt_hash 16 stream) rounds = KOk key /\
  h = canon_sha512 rounds (salt_hash 16 stream) (le64 key) /\
  forall sum', over crypt_alphabet sum' -> length sum' = 86%nat -> sum' <> le64 key ->
    check_sha512 L0 kdf (canon_sha512 rounds (salt_hash 16 stream) sum') pw = VMismatch.
Proof.
  intros h Eh. destruct (sha512_fresh_facts kdf stream pw rounds Hk Hs Hr) as (key & Ek & Hl & Hw & Hsalt & En).
  rewrite En in Eh. injection Eh as <-. exists key. split. exact Ek. split. reflexivity.
  intros sum' Ho Hl' Hne.
  eapply tamper_mismatch; [apply sha512_canon_class|exact Ek|congruence];
    auto using salt_hash_over, (sha512_rounds32 rounds Hr). apply (kdf_ok_len _ _ _ Hk).
Qed.

Theorem sha512_wrong_password_never : forall h pw', newhash_sha512 L0 kdf stream pw rounds = NOk h ->
  exists key, key_sha512 L0 kdf pw (salt_hash 16 stream) rounds = KOk key /\
  (check_sha512 L0 kdf h pw' = VMatch ->
   exists key', key_sha512 L0 kdf pw' (salt_hash 16 stream) rounds = KOk key' /\ le64 key' = le64 key).
Proof.
  intros h pw' Eh. destruct (sha512_fresh_facts kdf stream pw rounds Hk Hs Hr) as (key & Ek & Hl & Hw & Hsalt & En).
  rewrite En in Eh. injection Eh as <-. exists key. split. exact Ek.
  apply tamper_match, sha512_canon_class;
    auto using salt_hash_over, le64_over, le64_64, (sha512_rounds32 rounds Hr). apply (kdf_ok_len _ _ _ Hk).
Qed.

Theorem sha512_wrong_password : forall h pw' key key', newhash_sha512 L0 kdf stream pw rounds = NOk h ->
  key_sha512 L0 kdf pw (salt_hash 16 stream) rounds = KOk key ->
  key_sha512 L0 kdf pw' (salt_hash 16 stream) rounds = KOk key' ->
  le64 key' <> le64 key -> check_sha512 L0 kdf h pw' = VMismatch.
Proof.
  intros h pw' key key' Eh Ek Ek' Hne.
  destruct (sha512_fresh_facts kdf stream pw rounds Hk Hs Hr) as (key0 & Ek0 & Hl & Hw & Hsalt & En).
  rewrite Ek in Ek0. injection Ek0 as <-. rewrite En in Eh. injection Eh as <-.
  eapply tamper_mismatch; [apply sha512_canon_class|exact Ek'|exact Hne];
    auto using salt_hash_over, le64_over, le64_64, (sha512_rounds32 rounds Hr). apply (kdf_ok_len _ _ _ Hk).
Qed.
End SHA512.

(* ================================================================== sha1 *)
Lemma sha1_canon_class L kdf rr pw rounds salt sum :
  (forall bs ns k, kdf T_sha1 bs ns = Some k -> length k = 21%nat) ->
  0 <= rounds < 2 ^ 32 -> over crypt_alphabet salt -> over crypt_alphabet sum -> length sum = 28%nat ->
  class_of (check_sha1 L kdf rr (canon_sha1 rounds salt sum) pw) = class_key le64 (key_sha1 L kdf rr pw salt rounds) sum.
Proof.
  intros Hk Hr Hs Hd Hl. rewrite (sha1_classified L kdf rr _ pw Hk). unfold spec_sha1.
  rewrite recog_sha1_canon by (auto using crypt_valid). reflexivity.
Qed.

Theorem sha1_digest_tamper : forall kdf rr pw rounds salt sum',
  (forall bs ns k, kdf T_sha1 bs ns = Some k -> length k = 21%nat) ->
  0 <= rounds < 2 ^ 32 -> over crypt_alphabet salt -> over crypt_alphabet sum' -> length sum' = 28%nat ->
  check_sha1 L0 kdf rr (canon_sha1 rounds salt sum') pw = VMatch ->
  exists key, key_sha1 L0 kdf rr pw salt rounds = KOk key /\ le64 key = sum'.
Proof. intros kdf rr pw rounds salt sum' Hk Hr Hs Hd Hl. apply tamper_match, sha1_canon_class; assumption. Qed.

Theorem sha1_salt_cost_tamper : forall kdf rr pw rounds' salt' d,
  (forall bs ns k, kdf T_sha1 bs ns = Some k -> length k = 21%nat) ->
  0 <= rounds' < 2 ^ 32 -> over crypt_alphabet salt' -> over crypt_alphabet d -> length d = 28%nat ->
  ((forall key', key_sha1 L0 kdf rr pw salt' rounds' = KOk key' -> le64 key' <> d) ->
   check_sha1 L0 kdf rr (canon_sha1 rounds' salt' d) pw <> VMatch) /\
  (forall key', key_sha1 L0 kdf rr pw salt' rounds' = KOk key' -> le64 key' <> d ->
   check_sha1 L0 kdf rr (canon_sha1 rounds' salt' d) pw = VMismatch).
Proof.
  intros kdf rr pw rounds' salt' d Hk Hr Hs Hd Hl.
  pose proof (sha1_canon_class L0 kdf rr pw rounds' salt' d Hk Hr Hs Hd Hl) as C. split.
  - apply tamper_never. exact C.
  - intros key'. apply tamper_mismatch. exact C.
Qed.

(* once the round count is settled (sha1_body, FreshPlain.v) *)
Section SHA1body.
Variables (kdf : kdf_t) (stream' pw : bytes) (rounds' : Z).
Hypothesis Hk : kdf_ok kdf T_sha1 21.
Hypothesis Hs : good_stream stream' 8.
Hypothesis Hr : L_sha1_MinRounds L0 <= rounds' < 2 ^ 32.
Hypothesis Hne : rounds' <> L_sha1_RandomRounds L0.

Lemma sha1_body_digest_tamper : forall h, sha1_body kdf stream' pw rounds' = NOk h ->
  exists key, (forall rr, key_sha1 L0 kdf rr pw (salt_hash 8 stream') rounds' = KOk key) /\
  h = canon_sha1 rounds' (salt_hash 8 stream') (le64 key) /\
  forall rr sum', over crypt_alphabet sum' -> length sum' = 28%nat -> sum' <> le64 key ->
    check_sha1 L0 kdf rr (canon_sha1 rounds' (salt_hash 8 stream') sum') pw = VMismatch.
Proof.
  intros h Eh. destruct (sha1_fresh_facts kdf stream' pw rounds' Hk Hs Hr Hne) as (key & Ek & Hl & Hw & Hsalt & En).
  rewrite En in Eh. injection Eh as <-. exists key. split. exact Ek. split. reflexivity.
  intros rr sum' Ho Hl' Hn.
  eapply tamper_mismatch; [apply sha1_canon_class|exact (Ek rr)|congruence];
    auto using salt_hash_over, (sha1_rounds32 rounds' Hr). apply (kdf_ok_len _ _ _ Hk).
Qed.

Lemma sha1_body_wrong_password_never : forall h rr pw', sha1_body kdf stream' pw rounds' = NOk h ->
  exists key, (forall rr, key_sha1 L0 kdf rr pw (salt_hash 8 stream') rounds' = KOk key) /\
  (check_sha1 L0 kdf rr h pw' = VMatch ->
   exists key', key_sha1 L0 kdf rr pw' (salt_hash 8 stream') rounds' = KOk key' /\ le64 key' = le64 key).
Proof.
  intros h rr pw' Eh. destruct (sha1_fresh_facts kdf stream' pw rounds' Hk Hs Hr Hne) as (key & Ek & Hl & Hw & Hsalt & En).
  rewrite En in Eh. injection Eh as <-. exists key. split. exact Ek.
  apply tamper_match, sha1_canon_class;
    auto using salt_hash_over, le64_over, le64_21, (sha1_rounds32 rounds' Hr). apply (kdf_ok_len _ _ _ Hk).
Qed.

Lemma sha1_body_wrong_password : forall h rr pw' key key', sha1_body kdf stream' pw rounds' = NOk h ->
  key_sha1 L0 kdf rr pw (salt_hash 8 stream') rounds' = KOk key ->
  key_sha1 L0 kdf rr pw' (salt_hash 8 stream') rounds' = KOk key' ->
  le64 key' <> le64 key -> check_sha1 L0 kdf rr h pw' = VMismatch.
Proof.
  intros h rr pw' key key' Eh Ek Ek' Hn.
  destruct (sha1_fresh_facts kdf stream' pw rounds' Hk Hs Hr Hne) as (key0 & Ek0 & Hl & Hw & Hsalt & En).
  rewrite (Ek0 rr) in Ek. injection Ek as <-. rewrite En in Eh. injection Eh as <-.
  eapply tamper_mismatch; [apply sha1_canon_class|exact Ek'|exact Hn];
    auto using salt_hash_over, le64_over, le64_21, (sha1_rounds32 rounds' Hr). apply (kdf_ok_len _ _ _ Hk).
Qed.
End SHA1body.

(* explicit round count *)
Section SHA1explicit.
Variables (kdf : kdf_t) (stream pw : bytes) (rounds : Z).
Hypothesis Hk : kdf_ok kdf T_sha1 21.
Hypothesis Hs : good_stream stream 8.
Hypothesis Hr : L_sha1_MinRounds L0 <= rounds < 2 ^ 32.
Hypothesis Hne : rounds <> L_sha1_RandomRounds L0.

Theorem sha1_digest_tamper_fresh : forall h, newhash_sha1 L0 kdf stream pw rounds = NOk h ->
  exists key, (forall rr, key_sha1 L0 kdf rr pw (salt_hash 8 stream) rounds = KOk key) /\
  h = canon_sha1 rounds (salt_hash 8 stream) (le64 key) /\
  forall rr sum', over crypt_alphabet sum' -> length sum' = 28%nat -> sum' <> le64 key ->
    check_sha1 L0 kdf rr (canon_sha1 rounds (salt_hash 8 stream) sum') pw = VMismatch.
Proof. rewrite newhash_sha1_explicit by exact Hne. apply sha1_body_digest_tamper; assumption. Qed.

Theorem sha1_wrong_password_never : forall h rr pw', newhash_sha1 L0 kdf stream pw rounds = NOk h ->
  exists key, (forall rr, key_sha1 L0 kdf rr pw (salt_hash 8 stream) rounds = KOk key) /\
  (check_sha1 L0 kdf rr h pw' = VMatch ->
   exists key', key_sha1 L0 kdf rr pw' (salt_hash 8 stream) rounds = KOk key' /\ le64 key' = le64 key).
Proof. rewrite newhash_sha1_explicit by exact Hne. apply sha1_body_wrong_password_never; assumption. Qed.

Theorem sha1_wrong_password : forall h rr pw' key key', newhash_sha1 L0 kdf stream pw rounds = NOk h ->
  key_sha1 L0 kdf rr pw (salt_hash 8 stream) rounds = KOk key ->
  key_sha1 L0 kdf rr pw' (salt_hash 8 stream) rounds = KOk key' ->
  le64 key' <> le64 key -> check_sha1 L0 kdf rr h pw' = VMismatch.
Proof. rewrite newhash_sha1_explicit by exact Hne. apply sha1_body_wrong_password; assumption. Qed.
End SHA1explicit.

(* RandomRounds: four bytes of the stream choose the round count, the next eight the salt *)
Section SHA1random.
Variables (kdf : kdf_t) (stream pw : bytes).
Hypothesis Hk : kdf_ok kdf T_sha1 21.
Hypothesis Hs : good_stream stream 12.
Let drawn := fst (rand_rounds m_sha1_randomHint stream).
Let rest := snd (rand_rounds m_sha1_randomHint stream).

Theorem sha1_random_digest_tamper_fresh : forall h, newhash_sha1 L0 kdf stream pw (L_sha1_RandomRounds L0) = NOk h ->
  exists key, (forall rr, key_sha1 L0 kdf rr pw (salt_hash 8 rest) drawn = KOk key) /\
  h = canon_sha1 drawn (salt_hash 8 rest) (le64 key) /\
  forall rr sum', over crypt_alphabet sum' -> length sum' = 28%nat -> sum' <> le64 key ->
    check_sha1 L0 kdf rr (canon_sha1 drawn (salt_hash 8 rest) sum') pw = VMismatch.
Proof.
  destruct (sha1_random_side stream Hs) as (A & B & C). rewrite newhash_sha1_random.
  apply sha1_body_digest_tamper; assumption.
Qed.

Theorem sha1_random_wrong_password_never : forall h rr pw',
  newhash_sha1 L0 kdf stream pw (L_sha1_RandomRounds L0) = NOk h ->
  exists key, (forall rr, key_sha1 L0 kdf rr pw (salt_hash 8 rest) drawn = KOk key) /\
  (check_sha1 L0 kdf rr h pw' = VMatch ->
   exists key', key_sha1 L0 kdf rr pw' (salt_hash 8 rest) drawn = KOk key' /\ le64 key' = le64 key).
Proof.
  destruct (sha1_random_side stream Hs) as (A & B & C). rewrite newhash_sha1_random.
  apply sha1_body_wrong_password_never; assumption.
Qed.

Theorem sha1_random_wrong_password : forall h rr pw' key key',
  newhash_sha1 L0 kdf stream pw (L_sha1_RandomRounds L0) = NOk h ->
  key_sha1 L0 kdf rr pw (salt_hash 8 rest) drawn = KOk key ->
  key_sha1 L0 kdf rr pw' (salt_hash 8 rest) drawn = KOk key' ->
  le64 key' <> le64 key -> check_sha1 L0 kdf rr h pw' = VMismatch.
Proof.
  destruct (sha1_random_side stream Hs) as (A & B & C). rewrite newhash_sha1_random.
  apply sha1_body_wrong_password; assumption.
Qed.
End SHA1random.

(* ================================================================== des *)
Lemma des_canon_class L kdf pw salt sum :
  (forall bs ns k, kdf T_des bs ns = Some k -> length k = 8%nat) ->
  length salt = 2%nat -> over crypt_alphabet salt -> over crypt_alphabet sum -> length sum = 11%nat ->
  class_of (check_des L kdf (canon_des salt sum) pw) = class_key be64 (key_des L kdf pw salt) sum.
Proof.
  intros Hk Hls Hs Hd Hl. rewrite (des_classified L kdf _ pw Hk). unfold spec_des.
  rewrite recog_des_canon by (auto using crypt_valid). reflexivity.
Qed.

Theorem des_digest_tamper : forall kdf pw salt sum',
  (forall bs ns k, kdf T_des bs ns = Some k -> length k = 8%nat) ->
  length salt = 2%nat -> over crypt_alphabet salt -> over crypt_alphabet sum' -> length sum' = 11%nat ->
  check_des L0 kdf (canon_des salt sum') pw = VMatch ->
  exists key, key_des L0 kdf pw salt = KOk key /\ be64 key = sum'.
Proof. intros kdf pw salt sum' Hk Hls Hs Hd Hl. apply tamper_match, des_canon_class; assumption. Qed.

Theorem des_salt_cost_tamper : forall kdf pw salt' d,
  (forall bs ns k, kdf T_des bs ns = Some k -> length k = 8%nat) ->
  length salt' = 2%nat -> over crypt_alphabet salt' -> over crypt_alphabet d -> length d = 11%nat ->
  ((forall key', key_des L0 kdf pw salt' = KOk key' -> be64 key' <> d) ->
   check_des L0 kdf (canon_des salt' d) pw <> VMatch) /\
  (forall key', key_des L0 kdf pw salt' = KOk key' -> be64 key' <> d ->
   check_des L0 kdf (canon_des salt' d) pw = VMismatch).
Proof.
  intros kdf pw salt' d Hk Hls Hs Hd Hl. pose proof (des_canon_class L0 kdf pw salt' d Hk Hls Hs Hd Hl) as C. split.
  - apply tamper_never. exact C.
  - intros key'. apply tamper_mismatch. exact C.
Qed.

Section DES.
Variables (kdf : kdf_t) (stream pw : bytes).
Hypothesis Hk : kdf_ok kdf T_des 8.
Hypothesis Hs : good_stream stream 2.
Hypothesis Hpw : len pw <= L_des_MaxPw L0.

Theorem des_digest_tamper_fresh : forall h, newhash_des L0 kdf stream pw = NOk h ->
  exists key, key_des L0 kdf pw (salt_hash 2 stream) = KOk key /\ h = canon_des (salt_hash 2 stream) (be64 key) /\
  forall sum', over crypt_alphabet sum' -> length sum' = 11%nat -> sum' <> be64 key ->
    check_des L0 kdf (canon_des (salt_hash 2 stream) sum') pw = VMismatch.
Proof.
  intros h Eh. destruct (des_fresh_facts kdf stream pw Hk Hs Hpw) as (key & Ek & Hl & Hw & Hsalt & Hls & En).
  rewrite En in Eh. injection Eh as <-. exists key. split. exact Ek. split. reflexivity.
  intros sum' Ho Hl' Hne.
  eapply tamper_mismatch; [apply des_canon_class|exact Ek|congruence];
    auto using salt_hash_over. apply (kdf_ok_len _ _ _ Hk).
Qed.

Theorem des_wrong_password_never : forall h pw', newhash_des L0 kdf stream pw = NOk h ->
  exists key, key_des L0 kdf pw (salt_hash 2 stream) = KOk key /\
  (check_des L0 kdf h pw' = VMatch ->
   exists key', key_des L0 kdf pw' (salt_hash 2 stream) = KOk key' /\ be64 key' = be64 key).
Proof.
  intros h pw' Eh. destruct (des_fresh_facts kdf stream pw Hk Hs Hpw) as (key & Ek & Hl & Hw & Hsalt & Hls & En).
  rewrite En in Eh. injection Eh as <-. exists key. split. exact Ek.
  apply tamper_match, des_canon_class; auto using salt_hash_over, be64_crypt_over, be64_8. apply (kdf_ok_len _ _ _ Hk).
Qed.

Theorem des_wrong_password : forall h pw' key key', newhash_des L0 kdf stream pw = NOk h ->
  key_des L0 kdf pw (salt_hash 2 stream) = KOk key -> key_des L0 kdf pw' (salt_hash 2 stream) = KOk key' ->
  be64 key' <> be64 key -> check_des L0 kdf h pw' = VMismatch.
Proof.
  intros h pw' key key' Eh Ek Ek' Hne.
  destruct (des_fresh_facts kdf stream pw Hk Hs Hpw) as (key0 & Ek0 & Hl & Hw & Hsalt & Hls & En).
  rewrite Ek in Ek0. injection Ek0 as <-. rewrite En in Eh. injection Eh as <-.
  eapply tamper_mismatch; [apply des_canon_class|exact Ek'|exact Hne];
    auto using salt_hash_over, be64_crypt_over, be64_8. apply (kdf_ok_len _ _ _ Hk).
Qed.
End DES.

(* ================================================================== desext *)
Lemma desext_canon_class L kdf pw rounds salt sum :
  (forall bs ns k, kdf T_desext bs ns = Some k -> length k = 8%nat) ->
  0 <= rounds < 2 ^ 24 -> length salt = 4%nat -> over crypt_alphabet salt -> over crypt_alphabet sum ->
  length sum = 11%nat ->
  class_of (check_desext L kdf (canon_desext rounds salt sum) pw) = class_key be64 (key_desext L kdf pw salt rounds) sum.
Proof.
  intros Hk Hr Hls Hs Hd Hl. rewrite (desext_classified L kdf _ pw Hk). unfold spec_desext.
  rewrite recog_desext_canon by (auto using crypt_valid). reflexivity.
Qed.

Theorem desext_digest_tamper : forall kdf pw rounds salt sum',
  (forall bs ns k, kdf T_desext bs ns = Some k -> length k = 8%nat) ->
  0 <= rounds < 2 ^ 24 -> length salt = 4%nat -> over crypt_alphabet salt -> over crypt_alphabet sum' ->
  length sum' = 11%nat ->
  check_desext L0 kdf (canon_desext rounds salt sum') pw = VMatch ->
  exists key, key_desext L0 kdf pw salt rounds = KOk key /\ be64 key = sum'.
Proof. intros kdf pw rounds salt sum' Hk Hr Hls Hs Hd Hl. apply tamper_match, desext_canon_class; assumption. Qed.

Theorem desext_salt_cost_tamper : forall kdf pw rounds' salt' d,
  (forall bs ns k, kdf T_desext bs ns = Some k -> length k = 8%nat) ->
  0 <= rounds' < 2 ^ 24 -> length salt' = 4%nat -> over crypt_alphabet salt' -> over crypt_alphabet d ->
  length d = 11%nat ->
  ((forall key', key_desext L0 kdf pw salt' rounds' = KOk key' -> be64 key' <> d) ->
   check_desext L0 kdf (canon_desext rounds' salt' d) pw <> VMatch) /\
  (forall key', key_desext L0 kdf pw salt' rounds' = KOk key' -> be64 key' <> d ->
   check_desext L0 kdf (canon_desext rounds' salt' d) pw = VMismatch).
Proof.
  intros kdf pw rounds' salt' d Hk Hr Hls Hs Hd Hl.
  pose proof (desext_canon_class L0 kdf pw rounds' salt' d Hk Hr Hls Hs Hd Hl) as C. split.
  - apply tamper_never. exact C.
  - intros key'. apply tamper_mismatch. exact C.
Qed.

Section DESEXT.
Variables (kdf : kdf_t) (stream pw : bytes) (rounds : Z).
Hypothesis Hk : kdf_ok kdf T_desext 8.
Hypothesis Hs : good_stream stream 4.
Hypothesis Hr : L_desext_MinRounds L0 <= rounds <= L_desext_MaxRounds L0.

Theorem desext_digest_tamper_fresh : forall h, newhash_desext L0 kdf stream pw rounds = NOk h ->
  exists key, key_desext L0 kdf pw (salt_hash 4 stream) rounds = KOk key /\
  h = canon_desext rounds (salt_hash 4 stream) (be64 key) /\
  forall sum', over crypt_alphabet sum' -> length sum' = 11%nat -> sum' <> be64 key ->
    check_desext L0 kdf (canon_desext rounds (salt_hash 4 stream) sum') pw = VMismatch.
Proof.
  intros h Eh. destruct (desext_fresh_facts kdf stream pw rounds Hk Hs Hr) as (key & Ek & Hl & Hw & Hsalt & Hls & En).
  rewrite En in Eh. injection Eh as <-. exists key. split. exact Ek. split. reflexivity.
  intros sum' Ho Hl' Hne.
  eapply tamper_mismatch; [apply desext_canon_class|exact Ek|congruence];
    auto using salt_hash_over, (desext_rounds24 rounds Hr). apply (kdf_ok_len _ _ _ Hk).
Qed.

Theorem desext_wrong_password_never : forall h pw', newhash_desext L0 kdf stream pw rounds = NOk h ->
  exists key, key_desext L0 kdf pw (salt_hash 4 stream) rounds = KOk key /\
  (check_desext L0 kdf h pw' = VMatch ->
   exists key', key_desext L0 kdf pw' (salt_hash 4 stream) rounds = KOk key' /\ be64 key' = be64 key).
Proof.
  intros h pw' Eh. destruct (desext_fresh_facts kdf stream pw rounds Hk Hs Hr) as (key & Ek & Hl & Hw & Hsalt & Hls & En).
  rewrite En in Eh. injection Eh as <-. exists key. split. exact Ek.
  apply tamper_match, desext_canon_class;
    auto using salt_hash_over, be64_crypt_over, be64_8, (desext_rounds24 rounds Hr). apply (kdf_ok_len _ _ _ Hk).
Qed.

Theorem desext_wrong_password : forall h pw' key key', newhash_desext L0 kdf stream pw rounds = NOk h ->
  key_desext L0 kdf pw (salt_hash 4 stream) rounds = KOk key ->
  key_desext L0 kdf pw' (salt_hash 4 stream) rounds = KOk key' ->
  be64 key' <> be64 key -> check_desext L0 kdf h pw' = VMismatch.
Proof.
  intros h pw' key key' Eh Ek Ek' Hne.
  destruct (desext_fresh_facts kdf stream pw rounds Hk Hs Hr) as (key0 & Ek0 & Hl & Hw & Hsalt & Hls & En).
  rewrite Ek in Ek0. injection Ek0 as <-. rewrite En in Eh. injection Eh as <-.
  eapply tamper_mismatch; [apply desext_canon_class|exact Ek'|exact Hne];
    auto using salt_hash_over, be64_crypt_over, be64_8, (desext_rounds24 rounds Hr). apply (kdf_ok_len _ _ _ Hk).
Qed.
End DESEXT.

(* ================================================================== nthash *)
Lemma nthash_canon_class L kdf nt pw sum :
  (forall bs ns k, kdf T_nthash bs ns = Some k -> length k = 16%nat) ->
  over hex_alphabet sum -> length sum = 32%nat ->
  class_of (check_nthash L kdf nt (canon_nthash sum) pw) = class_key hex_encode (key_nthash L kdf (nt pw)) sum.
Proof.
  intros Hk Hd Hl. rewrite (nthash_classified L kdf nt _ pw Hk). unfold spec_nthash.
  rewrite recog_nthash_canon by (auto using hex_valid). reflexivity.
Qed.

Theorem nthash_digest_tamper : forall kdf nt pw sum',
  (forall bs ns k, kdf T_nthash bs ns = Some k -> length k = 16%nat) ->
  over hex_alphabet sum' -> length sum' = 32%nat ->
  check_nthash L0 kdf nt (canon_nthash sum') pw = VMatch ->
  exists key, key_nthash L0 kdf (nt pw) = KOk key /\ hex_encode key = sum'.
Proof. intros kdf nt pw sum' Hk Hd Hl. apply tamper_match, nthash_canon_class; assumption. Qed.

Section NTHASH.
Variables (kdf : kdf_t) (nt : bytes -> bytes) (pw : bytes).
Hypothesis Hk : kdf_ok kdf T_nthash 16.
Hypothesis Heven : len (nt pw) mod 2 = 0.
Hypothesis Hmax : len (nt pw) <= L_nthash_MaxPw L0.

Theorem nthash_digest_tamper_fresh : forall h, newhash_nthash L0 kdf nt pw = NOk h ->
  exists key, key_nthash L0 kdf (nt pw) = KOk key /\ h = canon_nthash (hex_encode key) /\
  forall sum', over hex_alphabet sum' -> length sum' = 32%nat -> sum' <> hex_encode key ->
    check_nthash L0 kdf nt (canon_nthash sum') pw = VMismatch.
Proof.
  intros h Eh. destruct (nthash_fresh_facts kdf nt pw Hk Heven Hmax) as (key & Ek & Hl & Hw & En).
  rewrite En in Eh. injection Eh as <-. exists key. split. exact Ek. split. reflexivity.
  intros sum' Ho Hl' Hne.
  eapply tamper_mismatch; [apply nthash_canon_class|exact Ek|congruence]; auto. apply (kdf_ok_len _ _ _ Hk).
Qed.

Theorem nthash_wrong_password_never : forall h pw', newhash_nthash L0 kdf nt pw = NOk h ->
  exists key, key_nthash L0 kdf (nt pw) = KOk key /\
  (check_nthash L0 kdf nt h pw' = VMatch ->
   exists key', key_nthash L0 kdf (nt pw') = KOk key' /\ hex_encode key' = hex_encode key).
Proof.
  intros h pw' Eh. destruct (nthash_fresh_facts kdf nt pw Hk Heven Hmax) as (key & Ek & Hl & Hw & En).
  rewrite En in Eh. injection Eh as <-. exists key. split. exact Ek.
  apply tamper_match, nthash_canon_class; auto using hex_over, hex_16. apply (kdf_ok_len _ _ _ Hk).
Qed.

Theorem nthash_wrong_password : forall h pw' key key', newhash_nthash L0 kdf nt pw = NOk h ->
  key_nthash L0 kdf (nt pw) = KOk key -> key_nthash L0 kdf (nt pw') = KOk key' ->
  hex_encode key' <> hex_encode key -> check_nthash L0 kdf nt h pw' = VMismatch.
Proof.
  intros h pw' key key' Eh Ek Ek' Hne.
  destruct (nthash_fresh_facts kdf nt pw Hk Heven Hmax) as (key0 & Ek0 & Hl & Hw & En).
  rewrite Ek in Ek0. injection Ek0 as <-. rewrite En in Eh. injection Eh as <-.
  eapply tamper_mismatch; [apply nthash_canon_class|exact Ek'|exact Hne]; auto using hex_over, hex_16.
  apply (kdf_ok_len _ _ _ Hk).
Qed.
End NTHASH.

Print Assumptions md5_digest_tamper.
Print Assumptions md5_salt_cost_tamper.
Print Assumptions md5_digest_tamper_fresh.
Print Assumptions md5_wrong_password_never.
Print Assumptions md5_wrong_password.
Print Assumptions sha256_digest_tamper.
Print Assumptions sha256_salt_cost_tamper.
Print Assumptions sha256_digest_tamper_fresh.
Print Assumptions sha256_wrong_password_never.
Print Assumptions sha256_wrong_password.
Print Assumptions sha512_digest_tamper.
Print Assumptions sha512_salt_cost_tamper.
Print Assumptions sha512_digest_tamper_fresh.
Print Assumptions sha512_wrong_password_never.
Print Assumptions sha512_wrong_password.
Print Assumptions sha1_digest_tamper.
Print Assumptions sha1_salt_cost_tamper.
Print Assumptions sha1_digest_tamper_fresh.
Print Assumptions sha1_wrong_password_never.
Print Assumptions sha1_wrong_password.
Print Assumptions sha1_random_digest_tamper_fresh.
Print Assumptions sha1_random_wrong_password_never.
Print Assumptions sha1_random_wrong_password.
Print Assumptions des_digest_tamper.
Print Assumptions des_salt_cost_tamper.
Print Assumptions des_digest_tamper_fresh.
Print Assumptions des_wrong_password_never.
Print Assumptions des_wrong_password.
Print Assumptions desext_digest_tamper.
Print Assumptions desext_salt_cost_tamper.
Print Assumptions desext_digest_tamper_fresh.
Print Assumptions desext_wrong_password_never.
Print Assumptions desext_wrong_password.
Print Assumptions nthash_digest_tamper.
Print Assumptions nthash_digest_tamper_fresh.
Print Assumptions nthash_wrong_password_never.
Print Assumptions nthash_wrong_password.
