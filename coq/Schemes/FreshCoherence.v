(* C12, last sentence: for EVERY well-formed hash (one the independent recogniser accepts), Check answers nil
   exactly when Key -- called with the parameters the recogniser extracts, the same arguments spec_X uses --
   succeeds and the documented encoding of its result is the stored digest.
   Short corollaries of the classification theorems (RecogProofs.v).
   (class_of_0 and class_key_0 are in FreshBase.v) *)
Require Import GC.Schemes.FreshBase.

Theorem md5_check_iff_key : forall L kdf h pw r,
  (forall bs ns k, kdf T_md5 bs ns = Some k -> length k = 16%nat) ->
  recog_md5 h = Some r ->
  (check_md5 L kdf h pw = VMatch <->
   exists key, key_md5 L kdf pw (r_salt r) = KOk key /\ le64 key = r_sum r).
Proof.
  intros L kdf h pw r Hk Hr. rewrite <- class_of_0, (md5_classified L kdf h pw Hk).
  unfold spec_md5. rewrite Hr. apply class_key_0.
Qed.

Theorem sha256_check_iff_key : forall L kdf h pw r,
  (forall bs ns k, kdf T_sha256 bs ns = Some k -> length k = 32%nat) ->
  recog_sha256 h = Some r ->
  (check_sha256 L kdf h pw = VMatch <->
   exists key, key_sha256 L kdf pw (r_salt r) (num0 r) = KOk key /\ le64 key = r_sum r).
Proof.
  intros L kdf h pw r Hk Hr. rewrite <- class_of_0, (sha256_classified L kdf h pw Hk).
  unfold spec_sha256. rewrite Hr. apply class_key_0.
Qed.

Theorem sha512_check_iff_key : forall L kdf h pw r,
  (forall bs ns k, kdf T_sha512 bs ns = Some k -> length k = 64%nat) ->
  recog_sha512 h = Some r ->
  (check_sha512 L kdf h pw = VMatch <->
   exists key, key_sha512 L kdf pw (r_salt r) (num0 r) = KOk key /\ le64 key = r_sum r).
Proof.
  intros L kdf h pw r Hk Hr. rewrite <- class_of_0, (sha512_classified L kdf h pw Hk).
  unfold spec_sha512. rewrite Hr. apply class_key_0.
Qed.

Theorem sha1_check_iff_key : forall L kdf rr h pw r,
  (forall bs ns k, kdf T_sha1 bs ns = Some k -> length k = 21%nat) ->
  recog_sha1 h = Some r ->
  (check_sha1 L kdf rr h pw = VMatch <->
   exists key, key_sha1 L kdf rr pw (r_salt r) (num0 r) = KOk key /\ le64 key = r_sum r).
Proof.
  intros L kdf rr h pw r Hk Hr. rewrite <- class_of_0, (sha1_classified L kdf rr h pw Hk).
  unfold spec_sha1. rewrite Hr. apply class_key_0.
Qed.

Theorem sunmd5_check_iff_key : forall L kdf h pw r,
  (forall bs ns k, kdf T_sunmd5 bs ns = Some k -> length k = 16%nat) ->
  recog_sunmd5 h = Some r ->
  (check_sunmd5 L kdf h pw = VMatch <->
   exists key, key_sunmd5 L kdf pw (r_salt r) (num0 r) (Some (r_prefix r, r_flag r)) = KOk key /\ le64 key = r_sum r).
Proof.
  intros L kdf h pw r Hk Hr. rewrite <- class_of_0, (sunmd5_classified L kdf h pw Hk).
  unfold spec_sunmd5. rewrite Hr. apply class_key_0.
Qed.

Theorem des_check_iff_key : forall L kdf h pw r,
  (forall bs ns k, kdf T_des bs ns = Some k -> length k = 8%nat) ->
  recog_des h = Some r ->
  (check_des L kdf h pw = VMatch <->
   exists key, key_des L kdf pw (r_salt r) = KOk key /\ be64 key = r_sum r).
Proof.
  intros L kdf h pw r Hk Hr. rewrite <- class_of_0, (des_classified L kdf h pw Hk).
  unfold spec_des. rewrite Hr. apply class_key_0.
Qed.

Theorem desext_check_iff_key : forall L kdf h pw r,
  (forall bs ns k, kdf T_desext bs ns = Some k -> length k = 8%nat) ->
  recog_desext h = Some r ->
  (check_desext L kdf h pw = VMatch <->
   exists key, key_desext L kdf pw (r_salt r) (num0 r) = KOk key /\ be64 key = r_sum r).
Proof.
  intros L kdf h pw r Hk Hr. rewrite <- class_of_0, (desext_classified L kdf h pw Hk).
  unfold spec_desext. rewrite Hr. apply class_key_0.
Qed.

Theorem bcrypt_check_iff_key : forall L kdf h pw r,
  (forall bs ns k, kdf T_bcrypt bs ns = Some k -> length k = 23%nat) ->
  recog_bcrypt h = Some r ->
  (check_bcrypt L kdf h pw = VMatch <->
   exists key, key_bcrypt L kdf pw (r_salt r) (num0 r) (Some (r_prefix r)) = KOk key
               /\ be64_encode bcrypt_std_alphabet key = r_sum r).
Proof.
  intros L kdf h pw r Hk Hr. rewrite <- class_of_0, (bcrypt_classified L kdf h pw Hk).
  unfold spec_bcrypt. rewrite Hr. apply class_key_0.
Qed.

Theorem nthash_check_iff_key : forall L kdf nt h pw r,
  (forall bs ns k, kdf T_nthash bs ns = Some k -> length k = 16%nat) ->
  recog_nthash h = Some r ->
  (check_nthash L kdf nt h pw = VMatch <->
   exists key, key_nthash L kdf (nt pw) = KOk key /\ hex_encode key = r_sum r).
Proof.
  intros L kdf nt h pw r Hk Hr. rewrite <- class_of_0, (nthash_classified L kdf nt h pw Hk).
  unfold spec_nthash. rewrite Hr. apply class_key_0.
Qed.

Theorem argon2_check_iff_key : forall L kdf h pw r,
  recog_argon2 h = Some r ->
  (check_argon2 L kdf h pw = VMatch <->
   exists key, key_argon2 L kdf pw (r_salt r) (nth 0 (r_nums r) 0) (nth 1 (r_nums r) 0) (nth 2 (r_nums r) 0)
                          (Some (r_prefix r, nth 3 (r_nums r) 0)) = KOk key
               /\ be64_encode base64_std_alphabet key = r_sum r).
Proof.
  intros L kdf h pw r Hr. rewrite <- class_of_0, (argon2_classified L kdf h pw).
  unfold spec_argon2. rewrite Hr. apply class_key_0.
Qed.

Print Assumptions md5_check_iff_key.
Print Assumptions sha256_check_iff_key.
Print Assumptions sha512_check_iff_key.
Print Assumptions sha1_check_iff_key.
Print Assumptions sunmd5_check_iff_key.
Print Assumptions des_check_iff_key.
Print Assumptions desext_check_iff_key.
Print Assumptions bcrypt_check_iff_key.
Print Assumptions nthash_check_iff_key.
Print Assumptions argon2_check_iff_key.
