(* Comparison functions for the scheme-level case files (C01 C02 C06 C12 C14). *)
Require Import GC.Base.Bytes GC.Base.CaseLib GC.Codec.Types GC.Codec.Codec GC.Schemes.Consts GC.Schemes.Keys
               GC.Schemes.Checks.

Definition kdf_entry := (Z * list bytes * list Z * bytes)%type.
Definition mk_kdf (tbl : list kdf_entry) : kdf_t := fun tag bs ns =>
  match find (fun e => let '(t, b, n, _) := e in
                       (t =? tag) && list_eqb bytes_eqb b bs && list_eqb Z.eqb n ns) tbl with
  | Some (_, _, _, k) => Some k
  | None => None
  end.

Definition kerr_eqb (a b : kerr) : bool :=
  match a, b with
  | KInvalidPasswordLength x, KInvalidPasswordLength y | KInvalidSaltLength x, KInvalidSaltLength y
  | KInvalidSalt x, KInvalidSalt y | KInvalidRounds x, KInvalidRounds y | KInvalidCost x, KInvalidCost y
  | KInvalidMemory x, KInvalidMemory y | KInvalidTime x, KInvalidTime y | KInvalidThreads x, KInvalidThreads y
  | KUnsupportedVersion x, KUnsupportedVersion y => x =? y
  | KUnsupportedPrefix x, KUnsupportedPrefix y => bytes_eqb x y
  | KOther, KOther | KMissing, KMissing => true
  | _, _ => false
  end.
Definition verdict_eqb (a b : verdict) : bool :=
  match a, b with
  | VMatch, VMatch | VMismatch, VMismatch | VPanic, VPanic => true
  | VCodec x, VCodec y => cerr_eqb x y
  | VKey x, VKey y => kerr_eqb x y
  | _, _ => false
  end.

Definition check_by_tag (L : limits) (kdf : kdf_t) (nt : bytes -> bytes) (rr : Z) (tag : Z) (h pw : bytes) : verdict :=
  if tag =? T_md5 then check_md5 L kdf h pw
  else if tag =? T_sha256 then check_sha256 L kdf h pw
  else if tag =? T_sha512 then check_sha512 L kdf h pw
  else if tag =? T_sha1 then check_sha1 L kdf rr h pw
  else if tag =? T_sunmd5 then check_sunmd5 L kdf h pw
  else if tag =? T_des then check_des L kdf h pw
  else if tag =? T_desext then check_desext L kdf h pw
  else if tag =? T_bcrypt then check_bcrypt L kdf h pw
  else if tag =? T_nthash then check_nthash L kdf nt h pw
  else if tag =? T_argon2 then check_argon2 L kdf h pw
  else VPanic.

(* case: scheme tag, hash, password, derivation table, UTF-16LE encoding of the password, observed verdict *)
Definition ok_check (c : Z * bytes * bytes * list kdf_entry * bytes * verdict) : bool :=
  let '(tag, h, pw, tbl, ntenc, obs) := c in
  verdict_eqb (check_by_tag committed_limits (mk_kdf tbl) (fun _ => ntenc) 0 tag h pw) obs.
