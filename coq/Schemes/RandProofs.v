(* C15: properties of the salts (and sha1's round count) that NewHash draws from crypto/rand.Reader.
   Model: Schemes/RandModel.v.  No axioms. *)
Require Import GC.Base.Bytes GC.B64.B64Model GC.Schemes.Consts GC.Schemes.Keys GC.Schemes.Encoders GC.Schemes.RandModel.

Arguments Z.land : simpl never.
Arguments Z.mul : simpl never.
Arguments Z.add : simpl never.
Arguments Z.div : simpl never.
Arguments Z.modulo : simpl never.
Arguments Z.of_nat : simpl never.

(* ---------- finite ranges ---------- *)

Definition zrange (n : nat) : list Z := map Z.of_nat (seq 0 n).

Lemma zrange_In n b : In b (zrange n) <-> 0 <= b < Z.of_nat n.
Proof.
  unfold zrange. rewrite in_map_iff. split.
  - intros (k & <- & Hk). apply in_seq in Hk. lia.
  - intros H. exists (Z.to_nat b). split. lia. apply in_seq. lia.
Qed.

Lemma zrange_sweep (P : Z -> bool) n :
  forallb P (zrange n) = true -> forall b, 0 <= b < Z.of_nat n -> P b = true.
Proof. intros H b Hb. rewrite forallb_forall in H. apply H. apply zrange_In. exact Hb. Qed.

Lemma wf_bytes_range s : wf_bytes s = true -> forall b, In b s -> 0 <= b < 256.
Proof.
  unfold wf_bytes. rewrite forallb_forall. intros H b Hb. specialize (H b Hb).
  unfold wf_byte in H. apply andb_true_iff in H. destruct H as [H1 H2].
  apply Z.leb_le in H1. apply Z.ltb_lt in H2. lia.
Qed.

Lemma wf_bytes_cons b s : wf_bytes (b :: s) = true -> 0 <= b < 256 /\ wf_bytes s = true.
Proof.
  intros H. split.
  - apply (wf_bytes_range _ H). left. reflexivity.
  - unfold wf_bytes in *. cbn [forallb] in H. apply andb_true_iff in H. tauto.
Qed.

(* ---------- rand_symbol over the crypt alphabet ---------- *)

Lemma rand_symbol_in_sweep :
  forallb (fun b => mem (rand_symbol crypt_alphabet b) crypt_alphabet) (zrange 256) = true.
Proof. vm_compute. reflexivity. Qed.

Theorem rand_symbol_in : forall b, 0 <= b < 256 -> In (rand_symbol crypt_alphabet b) crypt_alphabet.
Proof.
  intros b Hb. apply mem_In.
  apply (zrange_sweep (fun b => mem (rand_symbol crypt_alphabet b) crypt_alphabet) 256 rand_symbol_in_sweep).
  change (Z.of_nat 256) with 256. exact Hb.
Qed.

Lemma rand_symbol_onto_sweep :
  forallb (fun c => existsb (fun b => rand_symbol crypt_alphabet b =? c) (zrange 64)) crypt_alphabet = true.
Proof. vm_compute. reflexivity. Qed.

Theorem rand_symbol_onto : forall c, In c crypt_alphabet -> exists b, 0 <= b < 64 /\ rand_symbol crypt_alphabet b = c.
Proof.
  intros c Hc. pose proof rand_symbol_onto_sweep as H. rewrite forallb_forall in H.
  specialize (H c Hc). apply existsb_exists in H. destruct H as (b & Hb & Hbc).
  exists b. split.
  - apply zrange_In in Hb. change (Z.of_nat 64) with 64 in Hb. exact Hb.
  - apply Z.eqb_eq. exact Hbc.
Qed.

Lemma rand_symbol_inj_sweep :
  forallb (fun a => forallb (fun b =>
     implb (rand_symbol crypt_alphabet a =? rand_symbol crypt_alphabet b) (Z.land a 63 =? Z.land b 63))
     (zrange 256)) (zrange 256) = true.
Proof. vm_compute. reflexivity. Qed.

Theorem rand_symbol_inj : forall a b, 0 <= a < 256 -> 0 <= b < 256 ->
    rand_symbol crypt_alphabet a = rand_symbol crypt_alphabet b -> Z.land a 63 = Z.land b 63.
Proof.
  intros a b Ha Hb E.
  pose proof (zrange_sweep _ 256 rand_symbol_inj_sweep a) as H1.
  change (Z.of_nat 256) with 256 in H1. specialize (H1 Ha). cbv beta in H1.
  pose proof (zrange_sweep _ 256 H1 b) as H2.
  change (Z.of_nat 256) with 256 in H2. specialize (H2 Hb). cbv beta in H2.
  apply Z.eqb_eq in E. rewrite E in H2. cbn [implb] in H2. apply Z.eqb_eq. exact H2.
Qed.

(* ---------- hashutil.Rand ---------- *)

Theorem hashutil_rand_length : forall alpha n stream, (n <= length stream)%nat -> length (fst (hashutil_rand alpha n stream)) = n.
Proof.
  intros alpha n stream H. unfold hashutil_rand. cbn [fst].
  rewrite map_length. apply firstn_length_le. exact H.
Qed.

Lemma In_firstn_In {A} (x : A) n l : In x (firstn n l) -> In x l.
Proof.
  revert l; induction n as [|n IH]; intros [|y l] H; cbn [firstn] in H; try contradiction.
  destruct H as [H|H]. left; exact H. right; apply IH; exact H.
Qed.

Theorem hashutil_rand_alphabet : forall n stream, wf_bytes stream = true ->
    Forall (fun c => In c crypt_alphabet) (fst (hashutil_rand crypt_alphabet n stream)).
Proof.
  intros n stream Hwf. unfold hashutil_rand. cbn [fst].
  apply Forall_forall. intros c Hc. apply in_map_iff in Hc. destruct Hc as (b & <- & Hb).
  apply rand_symbol_in. apply (wf_bytes_range _ Hwf). apply In_firstn_In in Hb. exact Hb.
Qed.

Theorem hashutil_rand_inj : forall n s1 s2, wf_bytes s1 = true -> wf_bytes s2 = true ->
    (n <= length s1)%nat -> (n <= length s2)%nat ->
    fst (hashutil_rand crypt_alphabet n s1) = fst (hashutil_rand crypt_alphabet n s2) ->
    map (fun b => Z.land b 63) (firstn n s1) = map (fun b => Z.land b 63) (firstn n s2).
Proof.
  unfold hashutil_rand. cbn [fst].
  induction n as [|n IH]; intros s1 s2 W1 W2 L1 L2 E.
  - reflexivity.
  - destruct s1 as [|a s1]; [cbn [length] in L1; lia|].
    destruct s2 as [|b s2]; [cbn [length] in L2; lia|].
    cbn [length] in L1, L2. cbn [firstn map] in E |- *.
    apply wf_bytes_cons in W1. destruct W1 as [Ha W1].
    apply wf_bytes_cons in W2. destruct W2 as [Hb W2].
    injection E as E0 E1. f_equal.
    + apply rand_symbol_inj; assumption.
    + apply IH; try assumption; lia.
Qed.

Theorem hashutil_rand_consumes : forall alpha n s t, length s = n ->
    hashutil_rand alpha n (s ++ t) = (map (rand_symbol alpha) s, t).
Proof.
  intros alpha n s t <-. unfold hashutil_rand.
  rewrite firstn_app_exact, skipn_app_exact. reflexivity.
Qed.

(* ---------- encoding/base64 (big-endian, unpadded) round trip ---------- *)

Lemma list3_ind (P : bytes -> Prop) :
  P [] -> (forall a, P [a]) -> (forall a b, P [a; b]) ->
  (forall a b c r, P r -> P (a :: b :: c :: r)) -> forall l, P l.
Proof.
  intros H0 H1 H2 H3. fix IH 1. intros [|a [|b [|c r]]].
  - exact H0.
  - apply H1.
  - apply H2.
  - apply H3. apply IH.
Qed.

Definition alpha_inv (alpha : bytes) : Prop := forall i, 0 <= i < 64 -> aidx alpha (asym alpha i) = i.

Lemma alpha_inv_sweep alpha :
  forallb (fun i => aidx alpha (asym alpha i) =? i) (zrange 64) = true -> alpha_inv alpha.
Proof.
  intros H i Hi. apply Z.eqb_eq.
  apply (zrange_sweep (fun i => aidx alpha (asym alpha i) =? i) 64 H).
  change (Z.of_nat 64) with 64. exact Hi.
Qed.

Lemma alpha_inv_bcrypt : alpha_inv bcrypt_std_alphabet.
Proof. apply alpha_inv_sweep. vm_compute. reflexivity. Qed.

Lemma alpha_inv_std : alpha_inv base64_std_alphabet.
Proof. apply alpha_inv_sweep. vm_compute. reflexivity. Qed.

(* six-bit groups of bytes are in range *)
Lemma g0_range b : 0 <= b < 256 -> 0 <= b / 4 < 64.
Proof. intros H. pose proof (Z.div_mod b 4 ltac:(lia)). pose proof (Z.mod_pos_bound b 4 ltac:(lia)). lia. Qed.
Lemma g1_range b0 b1 : 0 <= b1 < 256 -> 0 <= (b0 mod 4) * 16 + b1 / 16 < 64.
Proof.
  intros H. pose proof (Z.mod_pos_bound b0 4 ltac:(lia)).
  pose proof (Z.div_mod b1 16 ltac:(lia)). pose proof (Z.mod_pos_bound b1 16 ltac:(lia)). lia.
Qed.
Lemma g1z_range b0 : 0 <= (b0 mod 4) * 16 < 64.
Proof. pose proof (Z.mod_pos_bound b0 4 ltac:(lia)). lia. Qed.
Lemma g2_range b1 b2 : 0 <= b2 < 256 -> 0 <= (b1 mod 16) * 4 + b2 / 64 < 64.
Proof.
  intros H. pose proof (Z.mod_pos_bound b1 16 ltac:(lia)).
  pose proof (Z.div_mod b2 64 ltac:(lia)). pose proof (Z.mod_pos_bound b2 64 ltac:(lia)). lia.
Qed.
Lemma g2z_range b1 : 0 <= (b1 mod 16) * 4 < 64.
Proof. pose proof (Z.mod_pos_bound b1 16 ltac:(lia)). lia. Qed.
Lemma g3_range b2 : 0 <= b2 mod 64 < 64.
Proof. apply Z.mod_pos_bound. lia. Qed.

(* reassembly arithmetic *)
Lemma re0 b0 b1 : 0 <= b0 < 256 -> 0 <= b1 < 256 ->
  b0 / 4 * 4 + ((b0 mod 4) * 16 + b1 / 16) / 16 = b0.
Proof. intros H0 H1. Z.div_mod_to_equations. lia. Qed.
Lemma re0z b0 : 0 <= b0 < 256 -> b0 / 4 * 4 + ((b0 mod 4) * 16) / 16 = b0.
Proof. intros H0. Z.div_mod_to_equations. lia. Qed.
Lemma re1 b0 b1 b2 : 0 <= b1 < 256 -> 0 <= b2 < 256 ->
  (((b0 mod 4) * 16 + b1 / 16) mod 16) * 16 + ((b1 mod 16) * 4 + b2 / 64) / 4 = b1.
Proof. intros H1 H2. Z.div_mod_to_equations. lia. Qed.
Lemma re1z b0 b1 : 0 <= b1 < 256 ->
  (((b0 mod 4) * 16 + b1 / 16) mod 16) * 16 + ((b1 mod 16) * 4) / 4 = b1.
Proof. intros H1. Z.div_mod_to_equations. lia. Qed.
Lemma re2 b1 b2 : 0 <= b2 < 256 ->
  (((b1 mod 16) * 4 + b2 / 64) mod 4) * 64 + b2 mod 64 = b2.
Proof. intros H2. Z.div_mod_to_equations. lia. Qed.

Lemma be64_roundtrip_gen alpha : alpha_inv alpha ->
  forall s, wf_bytes s = true -> be64_decode alpha (be64_encode alpha s) = s.
Proof.
  intros Hinv s. induction s as [|b0|b0 b1|b0 b1 b2 r IH] using list3_ind; intros W.
  - reflexivity.
  - apply wf_bytes_cons in W. destruct W as [H0 _].
    cbn [be64_encode be64_decode].
    rewrite (Hinv _ (g0_range _ H0)), (Hinv _ (g1z_range b0)).
    rewrite (re0z _ H0). reflexivity.
  - apply wf_bytes_cons in W. destruct W as [H0 W].
    apply wf_bytes_cons in W. destruct W as [H1 _].
    cbn [be64_encode be64_decode].
    rewrite (Hinv _ (g0_range _ H0)), (Hinv _ (g1_range b0 _ H1)), (Hinv _ (g2z_range b1)).
    rewrite (re0 _ _ H0 H1), (re1z b0 _ H1). reflexivity.
  - apply wf_bytes_cons in W. destruct W as [H0 W].
    apply wf_bytes_cons in W. destruct W as [H1 W].
    apply wf_bytes_cons in W. destruct W as [H2 W].
    cbn [be64_encode be64_decode].
    rewrite (Hinv _ (g0_range _ H0)), (Hinv _ (g1_range b0 _ H1)), (Hinv _ (g2_range b1 _ H2)),
      (Hinv _ (g3_range b2)).
    rewrite (re0 _ _ H0 H1), (re1 b0 _ _ H1 H2), (re2 b1 _ H2), (IH W). reflexivity.
Qed.

Theorem be64_roundtrip_bcrypt : forall s, wf_bytes s = true -> be64_decode bcrypt_std_alphabet (be64_encode bcrypt_std_alphabet s) = s.
Proof. apply be64_roundtrip_gen. exact alpha_inv_bcrypt. Qed.

Theorem be64_roundtrip_std    : forall s, wf_bytes s = true -> be64_decode base64_std_alphabet (be64_encode base64_std_alphabet s) = s.
Proof. apply be64_roundtrip_gen. exact alpha_inv_std. Qed.

Theorem be64_length : forall alpha s, length (be64_encode alpha s) = ((length s * 8 + 5) / 6)%nat.
Proof.
  intros alpha s. induction s as [|b0|b0 b1|b0 b1 b2 r IH] using list3_ind.
  - reflexivity.
  - reflexivity.
  - reflexivity.
  - cbn [be64_encode length]. rewrite IH.
    replace (S (S (S (length r))) * 8 + 5)%nat with ((length r * 8 + 5) + 4 * 6)%nat by lia.
    rewrite Nat.div_add by lia. lia.
Qed.

Theorem bcrypt_salt_inj : forall s1 s2, wf_bytes s1 = true -> wf_bytes s2 = true ->
    be64_encode bcrypt_std_alphabet s1 = be64_encode bcrypt_std_alphabet s2 -> s1 = s2.
Proof.
  intros s1 s2 W1 W2 E.
  rewrite <- (be64_roundtrip_bcrypt s1 W1), <- (be64_roundtrip_bcrypt s2 W2), E. reflexivity.
Qed.

Theorem argon2_salt_inj : forall s1 s2, wf_bytes s1 = true -> wf_bytes s2 = true ->
    be64_encode base64_std_alphabet s1 = be64_encode base64_std_alphabet s2 -> s1 = s2.
Proof.
  intros s1 s2 W1 W2 E.
  rewrite <- (be64_roundtrip_std s1 W1), <- (be64_roundtrip_std s2 W2), E. reflexivity.
Qed.

(* ---------- sha1 randomised rounds ---------- *)

Theorem rand_rounds_window : forall v, 0 <= v < 2 ^ 32 -> 18511 <= rand_rounds_of m_sha1_randomHint v <= 24680.
Proof.
  intros v _. unfold rand_rounds_of.
  change (m_sha1_randomHint / 4) with 6170. change m_sha1_randomHint with 24680.
  pose proof (Z.mod_pos_bound v 6170 ltac:(lia)). lia.
Qed.

Theorem rand_rounds_onto : forall r, 18511 <= r <= 24680 -> exists v, 0 <= v < 2 ^ 32 /\ rand_rounds_of m_sha1_randomHint v = r.
Proof.
  intros r Hr. exists (24680 - r). split.
  - change (2 ^ 32) with 4294967296. lia.
  - unfold rand_rounds_of.
    change (m_sha1_randomHint / 4) with 6170. change m_sha1_randomHint with 24680.
    rewrite Z.mod_small by lia. lia.
Qed.

Print Assumptions rand_symbol_in.
Print Assumptions rand_symbol_onto.
Print Assumptions rand_symbol_inj.
Print Assumptions hashutil_rand_length.
Print Assumptions hashutil_rand_alphabet.
Print Assumptions hashutil_rand_inj.
Print Assumptions hashutil_rand_consumes.
Print Assumptions be64_roundtrip_bcrypt.
Print Assumptions be64_roundtrip_std.
Print Assumptions be64_length.
Print Assumptions bcrypt_salt_inj.
Print Assumptions argon2_salt_inj.
Print Assumptions rand_rounds_window.
Print Assumptions rand_rounds_onto.
