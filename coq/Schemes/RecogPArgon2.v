(* C06 classification of argon2: $argon2{d,i,id}$[v=N$]m=M,t=T,p=P$salt$digest. *)
Require Import GC.Schemes.RecogPBase GC.Schemes.RecogPPlain GC.Schemes.RecogPStr GC.Schemes.RecogPGroups.

Definition TI_argon2 : tinfo := Eval vm_compute in ti_or_dummy (type_info m_layout_argon2).
Lemma ti_argon2 : type_info m_layout_argon2 = Ok TI_argon2.
Proof. vm_compute. reflexivity. Qed.

Lemma parse_argon2d body : parse (p_argon2d ++ body) = POk (body_tree (Some p_argon2d) 9 body).
Proof. rewrite parse_eq. reflexivity. Qed.
Lemma parse_argon2i body : parse (p_argon2i ++ body) = POk (body_tree (Some p_argon2i) 9 body).
Proof. rewrite parse_eq. reflexivity. Qed.
Lemma parse_argon2id body : parse (p_argon2id ++ body) = POk (body_tree (Some p_argon2id) 10 body).
Proof. rewrite parse_eq. reflexivity. Qed.

(* ---- a group member, as the codec looks for it: by its "k=" prefix ---- *)
Definition member_by (k bits : Z) (a : bytes) : option (Z * Z) :=
  match first_invalid EncHash (skipn 2 a) with
  | Some _ => None
  | None => match ParseUint (skipn 2 a) 10 bits with inl v => Some (k, v) | inr _ => None end
  end.
Definition member_num' (a : bytes) : option (Z * Z) :=
  if has_prefix [109; 61] a then member_by 109 32 a
  else if has_prefix [116; 61] a then member_by 116 32 a
  else if has_prefix [112; 61] a then member_by 112 8 a
  else None.

Lemma member_num_eq a : member_num a = member_num' a.
Proof.
  unfold member_num, member_num', member_by, member_kv, equals.
  destruct a as [|k [|e r]].
  - reflexivity.
  - unfold has_prefix. rewrite !andb_false_r. reflexivity.
  - change (skipn 2 (k :: e :: r)) with r. unfold has_prefix. rewrite !andb_true_r.
    rewrite (Z.eqb_sym 109 k), (Z.eqb_sym 116 k), (Z.eqb_sym 112 k), (Z.eqb_sym 61 e).
    destruct (Z.eqb_spec e 61) as [->|Ne]; cbn [andb].
    2:{ rewrite !andb_false_r. reflexivity. }
    rewrite !andb_true_r.
    destruct (Z.eqb_spec k 109) as [->|N1].
    { cbv -[first_invalid ParseUint in_alpha]. rewrite in_alpha_fi. destruct (first_invalid EncHash r); reflexivity. }
    destruct (Z.eqb_spec k 116) as [->|N2].
    { cbv -[first_invalid ParseUint in_alpha]. rewrite in_alpha_fi. destruct (first_invalid EncHash r); reflexivity. }
    destruct (Z.eqb_spec k 112) as [->|N3].
    { cbv -[first_invalid ParseUint in_alpha]. rewrite in_alpha_fi. destruct (first_invalid EncHash r); reflexivity. }
    apply Z.eqb_neq in N1, N2, N3. destruct (negb (k =? 61)); cbv beta iota; rewrite ?N1, ?N2, ?N3; reflexivity.
Qed.

Lemma hp_excl k1 k2 a : k1 <> k2 -> has_prefix [k1; 61] a = true -> has_prefix [k2; 61] a = true -> False.
Proof.
  intros N H1 H2. destruct a as [|x a]. discriminate H1. unfold has_prefix in H1, H2.
  apply andb_true_iff in H1. destruct H1 as [H1 _]. apply andb_true_iff in H2. destruct H2 as [H2 _].
  apply Z.eqb_eq in H1. apply Z.eqb_eq in H2. congruence.
Qed.

(* a comma in the salt or the digest *)
Lemma rest_comma pre v params salt sum : has_comma salt = true \/ has_comma sum = true ->
  recog_argon2_rest pre v params salt sum = None.
Proof.
  intros H. unfold recog_argon2_rest.
  destruct (split_on comma [] params) as [|a [|b [|c [|d l]]]]; try reflexivity.
  destruct (member_num a) as [[ka va]|]; try reflexivity.
  destruct (member_num b) as [[kb vb]|]; try reflexivity.
  destruct (member_num c) as [[kc vc]|]; try reflexivity.
  destruct H as [H|H]; rewrite H; cbn [negb]; rewrite ?andb_false_r; reflexivity.
Qed.


Lemma if_none_none (b : bool) (x : Z + perr) :
  (if b then match x with inl _ => @None rfields | inr _ => None end else None) = None.
Proof. destruct b; [destruct x|]; reflexivity. Qed.

Lemma ver_rest_comma (b : bool) (x : Z + perr) pre params salt sum :
  has_comma salt = true \/ has_comma sum = true ->
  (if b then match x with
             | inl v => recog_argon2_rest pre (if v =? 0 then 16 else v) params salt sum
             | inr _ => None
             end else None) = None.
Proof. intros H. destruct b; [destruct x|]; try reflexivity. apply rest_comma. exact H. Qed.

(* facts about the pieces from the relation with the fragments *)
Ltac rel_facts HR :=
  cbn [map fview rel] in HR; unfold rel1, relL in HR; cbn [fst snd] in HR;
  repeat match type of HR with
         | _ /\ _ => let H := fresh "HR" in destruct HR as [H HR]
         end;
  repeat match goal with
         | H : _ /\ _ |- _ => destruct H
         | H : False |- _ => contradiction H
         end.

Ltac fv_piece :=
  repeat match goal with
         | H1 : false = has_comma ?q, H2 : [?t] = split_on comma [] ?q |- _ =>
           rewrite (split_on_plain comma q (eq_sym H1)) in H2; injection H2 as H2; subst q
         | H1 : false = has_comma ?q, H2 : false = false -> [?t] = [?q] |- _ =>
           specialize (H2 eq_refl); injection H2 as H2; subst q
         | H2 : true = false -> _ |- _ => clear H2
         end.

Lemma argon2_prefix_ok pre : In pre [p_argon2d; p_argon2i; p_argon2id] ->
  assign std_cb NPrefix (prefix_end pre) pre
    {| fi_index := [0%nat]; fi_name := [72; 97; 115; 104; 80; 114; 101; 102; 105; 120];
       fi_type := {| t_kind := KString; t_ptr := 0; t_mtext := None; t_utext := Some 18%nat |};
       fi_opts := {| o_prefix := true; o_omit := false; o_group := false; o_param := []; o_enc := EncNone;
                     o_len := 0; o_haslen := false; o_inline := false; o_base := 10 |};
       fi_tag := []; fi_embptr := [] |} = Ok (VStr pre, None).
Proof. intros [<-|[<-|[<-|[]]]]; reflexivity. Qed.

Ltac hp_contra :=
  match goal with
  | H1 : has_prefix [?k1; 61] ?a = true, H2 : has_prefix [?k2; 61] ?a = true |- _ =>
    exfalso; apply (hp_excl k1 k2 a); [lia | exact H1 | exact H2]
  end.
Ltac fm_step :=
  match goal with
  | |- context [find_member ?k ?b ?r] => destruct (find_member k b r) as [[[? ?] ?]|] eqn:?
  end.
Ltac hc_step :=
  match goal with
  | H : true = has_comma ?q |- context [has_comma ?q] => rewrite <- H
  | H : false = has_comma ?q |- context [has_comma ?q] => rewrite <- H
  end.
Ltac crunchA := repeat first [ hp_contra | hc_step | progress cbn | progress unfold convert, assign, trim_prefix | progress unfold equals
                             | rewrite set_frag_S | rewrite set_frag_0 | atom_step | fm_step
                             | progress (unfold step at 1) ].

Lemma kind_cases a :
  (has_prefix [109; 61] a = true /\ has_prefix [116; 61] a = false /\ has_prefix [112; 61] a = false) \/
  (has_prefix [109; 61] a = false /\ has_prefix [116; 61] a = true /\ has_prefix [112; 61] a = false) \/
  (has_prefix [109; 61] a = false /\ has_prefix [116; 61] a = false /\ has_prefix [112; 61] a = true) \/
  (has_prefix [109; 61] a = false /\ has_prefix [116; 61] a = false /\ has_prefix [112; 61] a = false).
Proof.
  destruct (has_prefix [109; 61] a) eqn:A; destruct (has_prefix [116; 61] a) eqn:B;
    destruct (has_prefix [112; 61] a) eqn:C; auto 10;
    exfalso; first [ apply (hp_excl 109 116 a); [lia|assumption|assumption]
                   | apply (hp_excl 109 112 a); [lia|assumption|assumption]
                   | apply (hp_excl 116 112 a); [lia|assumption|assumption] ].
Qed.

Lemma argon2_finish enc k sum :
  class_of (match k with
            | KErr e => VKey e
            | KOk key => if ct_equal (enc key) sum then VMatch else VMismatch
            end) = class_key enc k sum.
Proof. destruct k as [key|e]; [|reflexivity]. unfold ct_equal, class_key. destruct (bytes_eqb (enc key) sum); reflexivity. Qed.

Ltac split_group :=
  match goal with
  | H : map snd ?g = split_on comma [] ?q |- context [split_on comma [] ?q] =>
    rewrite <- H; destruct g as [|[pa ta] [|[pb tb] [|[pc tc] [|vd g]]]]; cbn [map snd]; cbv iota beta
  end.
Ltac kinds :=
  match goal with
  | |- context [member_num ?a] =>
    let A := fresh "Km" in let B := fresh "Kt" in let C := fresh "Kp" in
    destruct (kind_cases a) as [(A & B & C)|[(A & B & C)|[(A & B & C)|(A & B & C)]]];
    rewrite (member_num_eq a); unfold member_num' at 1; rewrite A, ?B, ?C
  end.


(* ---- the statement per prefix and body, and the common opening of its proof ---- *)
Definition argon2_stmt (L : limits) (kdf : kdf_t) (pre body pw : bytes) : Prop :=
  class_of (check_argon2 L kdf (pre ++ body) pw) =
  match recog_argon2_body pre (pre ++ body) with
  | None => 2%nat
  | Some r => class_key (be64_encode base64_std_alphabet)
                (key_argon2 L kdf pw (r_salt r) (nth 0 (r_nums r) 0) (nth 1 (r_nums r) 0) (nth 2 (r_nums r) 0)
                            (Some (r_prefix r, nth 3 (r_nums r) 0))) (r_sum r)
  end.

(* the two fragment shapes the layout admits *)
Definition good3 (l : list frag) : Prop := exists g v2 v3, l = [FG g; FV v2; FV v3].
Definition good4 (l : list frag) : Prop := exists v1 g v3 v4, l = [FV v1; FG g; FV v3; FV v4].

(* opening: unfold both sides, destruct the shape of the fragment list l (an equation El : sc ... = l is kept
   out of the way by the callers), derive the facts about the pieces, simplify the recogniser's side *)
Ltac argon2_open HP Hin n body pre :=
  unfold argon2_stmt, check_argon2, with_layout, unmarshal_top; rewrite HP, ti_argon2; unfold TI_argon2;
  cbn [bind]; unfold body_tree;
  unfold recog_argon2_body; rewrite skipn_app_exact; cbv zeta;
  let HR := fresh "HR" in let HL := fresh "HL" in
  pose proof (sc_rel body n) as HR; pose proof (rel_length _ _ HR) as HL;
  revert HR HL.

Ltac argon2_rhs pre Hin :=
  unfold unmarshal_tree; cbn [ti_prefix prefix ti_fields ti_numreq frags];
  rewrite (argon2_prefix_ok pre Hin); cbn [fi_embptr bind fi_index];
  try (rewrite rest_comma by (first [left; symmetry; assumption | right; symmetry; assumption]));
  try (rewrite ver_rest_comma by (first [left; symmetry; assumption | right; symmetry; assumption]));
  repeat match goal with
         | H : true = has_comma ?q |- context [has_comma ?q] => rewrite <- H
         | H : false = has_comma ?q |- context [has_comma ?q] => rewrite <- H
         end;
  cbn [negb]; rewrite ?andb_false_r, ?andb_true_r; cbn [andb];
  unfold recog_argon2_rest;
  repeat match goal with
         | H : false = has_comma ?q |- context [split_on comma [] ?q] =>
           rewrite (split_on_plain comma q (eq_sym H))
         end;
  cbv iota beta; rewrite ?if_none_none.

Ltac pieces_facts HR HL body :=
  destruct (pieces dollar [] body) as [|?q [|?q [|?q [|?q [|?q ?qs]]]]];
  cbn [length map] in HL; rewrite ?map_length in HL; try (exfalso; lia); clear HL; rel_facts HR; fv_piece.
