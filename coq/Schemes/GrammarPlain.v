(* The recognisers of Schemes/Recognisers.v (the specification side of C06) characterised by the documented
   layouts written as explicit concatenations: md5, nthash, sha1, sha256, sha512, des, desext.
   Reading aids (GrammarBase.v): in_alpha EncHash s = true <-> every symbol of s is one of ./0-9A-Za-z
   (in_alpha_hash_over; that alphabet has no '$' ',' '=' '_': alphabets_no_delims);
   ParseUint s 10 bits = inl v <-> s is a non-empty string of digits 0-9 denoting v < 2^bits (ParseUint10_iff);
   opt_dollar tail := tail = [] \/ tail = [dollar]. *)
Require Import GC.Schemes.GrammarBase.

Ltac alpha_clean :=
  repeat match goal with
         | H : in_alpha EncHash ?s = true |- _ =>
           lazymatch goal with
           | _ : no_dollar s |- _ => fail
           | _ => pose proof (valid_no_dollar s H); pose proof (valid_no_comma s H)
           end
         | H : ParseUint ?s 10 ?b = inl ?v |- _ =>
           lazymatch goal with
           | _ : no_dollar s |- _ => fail
           | _ => destruct (ParseUint10_no_delims s b v H)
           end
         end.

(* ---- md5: "$1$" salt "$" sum22 ["$"] ---- *)
Theorem grammar_md5 h r : recog_md5 h = Some r <->
  exists salt sum tail,
    h = p_md5 ++ salt ++ [dollar] ++ sum ++ tail /\ opt_dollar tail /\
    in_alpha EncHash salt = true /\ length sum = 22%nat /\ in_alpha EncHash sum = true /\
    r = mk_r salt [] [] false sum.
Proof.
  split.
  - unfold recog_md5. destruct (has_prefix p_md5 h) eqn:P; [|discriminate].
    apply has_prefix_spec in P. destruct P as [body ->]. change (skipn 3 (p_md5 ++ body)) with body.
    destruct (has_comma body); [discriminate|].
    destruct (plain_frags body) as [|salt [|sum [|x l]]] eqn:F; try discriminate.
    destruct (salt_sum_ok salt sum 22) eqn:S; [|discriminate]. intros [= <-].
    apply pieces_two_iff in F. destruct F as (tail & -> & _ & _ & Ht).
    change 22 with (Z.of_nat 22) in S. apply salt_sum_ok_iff in S. destruct S as (A & B & C).
    exists salt, sum, tail. split. reflexivity. split. eapply last_tail_opt; eauto. auto.
  - intros (salt & sum & tail & -> & Ht & A & B & C & ->). alpha_clean.
    unfold recog_md5. rewrite has_prefix_app.
    change (skipn 3 (p_md5 ++ ?b)) with b.
    rewrite !has_comma_app, (opt_dollar_no_comma tail Ht). repeat match goal with H : has_comma _ = false |- _ => rewrite H end.
    cbn [has_comma existsb orb]. change (dollar =? comma) with false. cbn [orb].
    assert (plain_frags (salt ++ [dollar] ++ sum ++ tail) = [salt; sum]) as ->.
    { apply pieces_two_iff. exists tail. split. reflexivity. split. assumption. split. assumption.
      eapply last_tail_fixed; eauto. }
    change 22 with (Z.of_nat 22). rewrite (proj2 (salt_sum_ok_iff salt sum 22)) by auto. reflexivity.
Qed.
Print Assumptions grammar_md5.

(* ---- nthash: "$3$" "$" sum32 ["$"]; the digest is tested against the crypt alphabet ./0-9A-Za-z,
   not against the sixteen hexadecimal digits ---- *)
Theorem grammar_nthash h r : recog_nthash h = Some r <->
  exists sum tail,
    h = p_nthash ++ [dollar] ++ sum ++ tail /\ opt_dollar tail /\
    length sum = 32%nat /\ in_alpha EncHash sum = true /\
    r = mk_r [] [] [] false sum.
Proof.
  split.
  - unfold recog_nthash. destruct (has_prefix p_nthash h) eqn:P; [|discriminate].
    apply has_prefix_spec in P. destruct P as [body ->]. change (skipn 3 (p_nthash ++ body)) with body.
    destruct (has_comma body); [discriminate|].
    destruct (plain_frags body) as [|e [|sum [|x l]]] eqn:F; try discriminate.
    destruct e; cbn [nil_b andb]; [|discriminate].
    destruct (slen sum =? 32) eqn:S; [|discriminate]. cbn [andb].
    destruct (in_alpha EncHash sum) eqn:A; [|discriminate]. intros [= <-].
    apply pieces_two_iff in F. destruct F as (tail & -> & _ & _ & Ht).
    change 32 with (Z.of_nat 32) in S. apply slen_eqb in S.
    exists sum, tail. split. reflexivity. split. eapply last_tail_opt; eauto. auto.
  - intros (sum & tail & -> & Ht & B & C & ->). alpha_clean.
    unfold recog_nthash. rewrite has_prefix_app.
    change (skipn 3 (p_nthash ++ ?b)) with b.
    rewrite !has_comma_app, (opt_dollar_no_comma tail Ht). repeat match goal with H : has_comma _ = false |- _ => rewrite H end.
    cbn [has_comma existsb orb]. change (dollar =? comma) with false. cbn [orb].
    assert (plain_frags ([dollar] ++ sum ++ tail) = [[]; sum]) as ->.
    { apply (pieces_two_iff _ [] sum). exists tail. split. reflexivity. split. reflexivity. split. assumption.
      eapply last_tail_fixed; eauto. }
    cbn [nil_b andb]. change 32 with (Z.of_nat 32). rewrite (proj2 (slen_eqb sum 32) B), C. reflexivity.
Qed.
Print Assumptions grammar_nthash.

(* ---- sha1: "$sha1$" digits "$" salt "$" sum28 ["$"] ---- *)
Theorem grammar_sha1 h r : recog_sha1 h = Some r <->
  exists digits v salt sum tail,
    h = p_sha1 ++ digits ++ [dollar] ++ salt ++ [dollar] ++ sum ++ tail /\ opt_dollar tail /\
    ParseUint digits 10 32 = inl v /\
    in_alpha EncHash salt = true /\ length sum = 28%nat /\ in_alpha EncHash sum = true /\
    r = mk_r salt [v] [] false sum.
Proof.
  split.
  - unfold recog_sha1. destruct (has_prefix p_sha1 h) eqn:P; [|discriminate].
    apply has_prefix_spec in P. destruct P as [body ->]. change (skipn 6 (p_sha1 ++ body)) with body.
    destruct (has_comma body); [discriminate|].
    destruct (plain_frags body) as [|ro [|salt [|sum [|x l]]]] eqn:F; try discriminate.
    destruct (in_alpha EncHash ro); [|discriminate].
    destruct (ParseUint ro 10 32) as [v|] eqn:U; [|discriminate].
    destruct (salt_sum_ok salt sum 28) eqn:S; [|discriminate]. intros [= <-].
    apply pieces_three_iff in F. destruct F as (tail & -> & _ & _ & _ & Ht).
    change 28 with (Z.of_nat 28) in S. apply salt_sum_ok_iff in S. destruct S as (A & B & C).
    exists ro, v, salt, sum, tail. split. reflexivity. split. eapply last_tail_opt; eauto. auto.
  - intros (ro & v & salt & sum & tail & -> & Ht & U & A & B & C & ->). alpha_clean.
    unfold recog_sha1. rewrite has_prefix_app.
    change (skipn 6 (p_sha1 ++ ?b)) with b.
    rewrite !has_comma_app, (opt_dollar_no_comma tail Ht). repeat match goal with H : has_comma _ = false |- _ => rewrite H end.
    cbn [has_comma existsb orb]. change (dollar =? comma) with false. cbn [orb].
    assert (plain_frags (ro ++ [dollar] ++ salt ++ [dollar] ++ sum ++ tail) = [ro; salt; sum]) as ->.
    { apply pieces_three_iff. exists tail. split. reflexivity. split. assumption. split. assumption. split. assumption.
      eapply last_tail_fixed; eauto. }
    rewrite (is_digits_alpha ro (ParseUint10_digits ro 32 v U)), U.
    change 28 with (Z.of_nat 28). rewrite (proj2 (salt_sum_ok_iff salt sum 28)) by auto. reflexivity.
Qed.
Print Assumptions grammar_sha1.

(* ---- sha256 / sha512: "$5$" ["rounds=" digits "$"] salt "$" sum ["$"]; "rounds=0" reads as absent ---- *)
Lemma grammar_sha2 a b c (n : nat) impl h r :
  recog_sha2 [a; b; c] (Z.of_nat (S n)) impl h = Some r <->
  exists salt sum tail,
    opt_dollar tail /\ in_alpha EncHash salt = true /\ length sum = S n /\ in_alpha EncHash sum = true /\
    ((h = [a; b; c] ++ salt ++ [dollar] ++ sum ++ tail /\ r = mk_r salt [impl] [] false sum) \/
     (exists digits v,
        h = [a; b; c] ++ k_rounds ++ digits ++ [dollar] ++ salt ++ [dollar] ++ sum ++ tail /\
        ParseUint digits 10 32 = inl v /\
        r = mk_r salt [if v =? 0 then impl else v] [] false sum)).
Proof.
  split.
  - unfold recog_sha2. destruct (has_prefix [a; b; c] h) eqn:P; [|discriminate].
    apply has_prefix_spec in P. destruct P as [body ->]. change (skipn 3 ([a; b; c] ++ body)) with body.
    destruct (has_comma body); [discriminate|].
    destruct (plain_frags body) as [|x1 [|x2 [|x3 [|x l]]]] eqn:F; try discriminate.
    + destruct (salt_sum_ok x1 x2 (Z.of_nat (S n))) eqn:S; [|discriminate]. intros [= <-].
      apply pieces_two_iff in F. destruct F as (tail & -> & _ & _ & Ht).
      apply salt_sum_ok_iff in S. destruct S as (A & B & C).
      exists x1, x2, tail. split. eapply last_tail_opt; eauto. auto 6.
    + destruct (has_prefix k_rounds x1) eqn:P; [|discriminate].
      apply has_prefix_spec in P. destruct P as [ds ->]. change (skipn 7 (k_rounds ++ ds)) with ds.
      destruct (ParseUint ds 10 32) as [v|] eqn:U; [|discriminate].
      destruct (salt_sum_ok x2 x3 (Z.of_nat (S n))) eqn:S; [|discriminate]. intros [= <-].
      apply pieces_three_iff in F. destruct F as (tail & -> & _ & _ & _ & Ht).
      apply salt_sum_ok_iff in S. destruct S as (A & B & C).
      exists x2, x3, tail. split. eapply last_tail_opt; eauto. split. exact A. split. exact B. split. exact C.
      right. exists ds, v. rewrite <- !app_assoc. auto.
  - intros (salt & sum & tail & Ht & A & B & C & [[-> ->]|(ds & v & -> & U & ->)]); alpha_clean;
      unfold recog_sha2; rewrite has_prefix_app; change (skipn 3 ([a; b; c] ++ ?b)) with b;
      rewrite !has_comma_app, (opt_dollar_no_comma tail Ht);
      repeat match goal with H : has_comma _ = false |- _ => rewrite H end;
      cbn [has_comma existsb orb]; change (dollar =? comma) with false; cbn [orb].
    + assert (plain_frags (salt ++ [dollar] ++ sum ++ tail) = [salt; sum]) as ->.
      { apply pieces_two_iff. exists tail. split. reflexivity. split. assumption. split. assumption.
        eapply last_tail_fixed; eauto. }
      rewrite (proj2 (salt_sum_ok_iff salt sum (S n))) by auto. reflexivity.
    + assert (plain_frags (k_rounds ++ ds ++ [dollar] ++ salt ++ [dollar] ++ sum ++ tail) = [k_rounds ++ ds; salt; sum]) as ->.
      { apply pieces_three_iff. exists tail. split. rewrite <- !app_assoc. reflexivity.
        split. apply no_dollar_app. split. reflexivity. assumption. split. assumption. split. assumption.
        eapply last_tail_fixed; eauto. }
      rewrite has_prefix_app. change (skipn 7 (k_rounds ++ ds)) with ds. rewrite U.
      rewrite (proj2 (salt_sum_ok_iff salt sum (S n))) by auto. reflexivity.
Qed.

Theorem grammar_sha256 h r : recog_sha256 h = Some r <->
  exists salt sum tail,
    opt_dollar tail /\ in_alpha EncHash salt = true /\ length sum = 43%nat /\ in_alpha EncHash sum = true /\
    ((h = p_sha256 ++ salt ++ [dollar] ++ sum ++ tail /\ r = mk_r salt [5000] [] false sum) \/
     (exists digits v,
        h = p_sha256 ++ k_rounds ++ digits ++ [dollar] ++ salt ++ [dollar] ++ sum ++ tail /\
        ParseUint digits 10 32 = inl v /\
        r = mk_r salt [if v =? 0 then 5000 else v] [] false sum)).
Proof. exact (grammar_sha2 36 53 36 42 5000 h r). Qed.
Print Assumptions grammar_sha256.

Theorem grammar_sha512 h r : recog_sha512 h = Some r <->
  exists salt sum tail,
    opt_dollar tail /\ in_alpha EncHash salt = true /\ length sum = 86%nat /\ in_alpha EncHash sum = true /\
    ((h = p_sha512 ++ salt ++ [dollar] ++ sum ++ tail /\ r = mk_r salt [5000] [] false sum) \/
     (exists digits v,
        h = p_sha512 ++ k_rounds ++ digits ++ [dollar] ++ salt ++ [dollar] ++ sum ++ tail /\
        ParseUint digits 10 32 = inl v /\
        r = mk_r salt [if v =? 0 then 5000 else v] [] false sum)).
Proof. exact (grammar_sha2 36 54 36 85 5000 h r). Qed.
Print Assumptions grammar_sha512.

(* ---- des: salt2 sum11 ["$"], no prefix ---- *)
Lemma strip_dollar_opt s tail : in_alpha EncHash s = true -> opt_dollar tail -> strip_dollar (s ++ tail) = s.
Proof.
  intros H [-> | ->]. rewrite app_nil_r. apply strip_dollar_plain. apply valid_no_dollar. exact H.
  apply strip_dollar_snoc.
Qed.

Lemma strip_dollar_opt_inv h : exists tail, h = strip_dollar h ++ tail /\ opt_dollar tail.
Proof.
  destruct (strip_dollar_cases h) as [E|E]. exists []. rewrite app_nil_r. split. exact E. left. reflexivity.
  exists [dollar]. split. exact E. right. reflexivity.
Qed.

Theorem grammar_des h r : recog_des h = Some r <->
  exists salt sum tail,
    h = salt ++ sum ++ tail /\ opt_dollar tail /\
    length salt = 2%nat /\ in_alpha EncHash salt = true /\ length sum = 11%nat /\ in_alpha EncHash sum = true /\
    r = mk_r salt [] [] false sum.
Proof.
  split.
  - unfold recog_des. destruct (strip_dollar_opt_inv h) as (tail & E & Ht). remember (strip_dollar h) as t eqn:Et. clear Et.
    destruct (slen t =? 13) eqn:S; [|discriminate]. cbn [andb]. destruct (in_alpha EncHash t) eqn:A; [|discriminate].
    intros [= <-]. change 13 with (Z.of_nat 13) in S. apply slen_eqb in S.
    rewrite (in_alpha_split 2) in A. apply andb_true_iff in A. destruct A as [A1 A2].
    exists (firstn 2 t), (skipn 2 t), tail. split. rewrite app_assoc, firstn_skipn. exact E. split. exact Ht.
    split. rewrite firstn_length. lia. split. exact A1. split. rewrite skipn_length. lia. auto.
  - intros (salt & sum & tail & -> & Ht & L1 & A1 & L2 & A2 & ->). unfold recog_des.
    rewrite app_assoc, strip_dollar_opt; [|rewrite in_alpha_app, A1, A2; reflexivity|exact Ht].
    change 13 with (Z.of_nat 13). rewrite (proj2 (slen_eqb (salt ++ sum) 13)) by (rewrite app_length; lia).
    rewrite in_alpha_app, A1, A2. cbn [andb].
    rewrite (firstn_app_len salt sum 2 L1), (skipn_app_len' salt sum 2 L1). reflexivity.
Qed.
Print Assumptions grammar_des.

(* ---- desext: "_" rounds4 salt4 sum11 ["$"]; the number is the four symbols' values, least significant first ---- *)
Definition sym_value (c : Z) : Z := index_byte crypt_alphabet c 0.

Lemma decode_le6_four a b c d :
  decode_le6 [a; b; c; d] 0 = sym_value a + 64 * sym_value b + 4096 * sym_value c + 262144 * sym_value d.
Proof. unfold sym_value. cbn [decode_le6]. change (0 + 1) with 1. change (1 + 1) with 2. change (2 + 1) with 3.
  change (2 ^ (6 * 0)) with 1. change (2 ^ (6 * 1)) with 64. change (2 ^ (6 * 2)) with 4096. change (2 ^ (6 * 3)) with 262144. lia. Qed.

Theorem grammar_desext h r : recog_desext h = Some r <->
  exists rounds salt sum tail,
    h = [underscore] ++ rounds ++ salt ++ sum ++ tail /\ opt_dollar tail /\
    length rounds = 4%nat /\ in_alpha EncHash rounds = true /\
    length salt = 4%nat /\ in_alpha EncHash salt = true /\
    length sum = 11%nat /\ in_alpha EncHash sum = true /\
    r = mk_r salt [decode_le6 rounds 0] [] false sum.
Proof.
  split.
  - unfold recog_desext. destruct h as [|c t0]; [discriminate|]. destruct (c =? underscore) eqn:Ec; [|discriminate].
    apply Z.eqb_eq in Ec. subst c.
    destruct (strip_dollar_opt_inv t0) as (tail & E & Ht). remember (strip_dollar t0) as t eqn:Et. clear Et.
    destruct (slen t =? 19) eqn:S; [|discriminate]. cbn [andb]. destruct (in_alpha EncHash t) eqn:A; [|discriminate].
    intros [= <-]. change 19 with (Z.of_nat 19) in S. apply slen_eqb in S.
    rewrite (in_alpha_split 4) in A. apply andb_true_iff in A. destruct A as [A1 A2].
    rewrite (in_alpha_split 4 _ (skipn 4 t)) in A2. apply andb_true_iff in A2. destruct A2 as [A2 A3].
    rewrite skipn_skipn' in A3. cbn [Nat.add] in A3.
    exists (firstn 4 t), (firstn 4 (skipn 4 t)), (skipn 8 t), tail.
    split. { rewrite E at 1. cbn [app]. f_equal. rewrite !app_assoc. f_equal.
             rewrite <- (firstn_skipn 4 t) at 1. rewrite <- app_assoc. f_equal.
             rewrite <- (firstn_skipn 4 (skipn 4 t)) at 1. f_equal. rewrite skipn_skipn'. reflexivity. }
    split. exact Ht. split. rewrite firstn_length. lia. split. exact A1.
    split. rewrite firstn_length, skipn_length. lia. split. exact A2. split. rewrite skipn_length. lia. auto.
  - intros (ro & salt & sum & tail & -> & Ht & L1 & A1 & L2 & A2 & L3 & A3 & ->). unfold recog_desext.
    cbn [app]. rewrite Z.eqb_refl.
    replace (ro ++ salt ++ sum ++ tail) with ((ro ++ salt ++ sum) ++ tail) by (rewrite <- !app_assoc; reflexivity).
    rewrite strip_dollar_opt; [|rewrite !in_alpha_app, A1, A2, A3; reflexivity|exact Ht].
    change 19 with (Z.of_nat 19). rewrite (proj2 (slen_eqb (ro ++ salt ++ sum) 19)) by (rewrite !app_length; lia).
    rewrite !in_alpha_app, A1, A2, A3. cbn [andb].
    rewrite (firstn_app_len ro _ 4 L1), (skipn_app_len' ro _ 4 L1), (firstn_app_len salt sum 4 L2).
    replace (skipn 8 (ro ++ salt ++ sum)) with sum. reflexivity.
    rewrite app_assoc. symmetry. apply skipn_app_len'. rewrite app_length. lia.
Qed.
Print Assumptions grammar_desext.
