(* C06, per scheme: for every hash string, password, limits record and derivation (with outputs of the scheme's
   length), the class of Check's verdict (0 nil, 1 mismatch sentinel, 2 anything else) is the one the independent
   recogniser (Schemes/Recognisers.v), Key's guards and the documented digest encoding determine
   (Schemes/RecogCases.v).  The per-scheme proofs are in RecogP*.v; this file assembles argon2 and lists the
   theorems. *)
Require Import GC.Schemes.RecogPBase GC.Schemes.RecogPPlain GC.Schemes.RecogPStr GC.Schemes.RecogPGroups.
Require Import GC.Schemes.RecogPBcrypt GC.Schemes.RecogPSunmd5 GC.Schemes.RecogPDes.
Require Import GC.Schemes.RecogPArgon2 GC.Schemes.RecogPArgon2G3 GC.Schemes.RecogPArgon2G4 GC.Schemes.RecogPArgon2Bad.

Lemma shape_cases (l : list frag) : good3 l \/ good4 l \/ (~ good3 l /\ ~ good4 l).
Proof.
  destruct l as [|[v1|g1] [|[v2|g2] [|[v3|g3] [|[v4|g4] [|f5 fr]]]]];
    try (left; unfold good3; eauto; fail);
    try (right; left; unfold good4; eauto 6; fail);
    (right; right; split; [intros (? & ? & ? & E)|intros (? & ? & ? & ? & E)]; discriminate E).
Qed.

Lemma argon2_any L kdf pre n body pw :
  parse (pre ++ body) = POk (body_tree (Some pre) n body) ->
  In pre [p_argon2d; p_argon2i; p_argon2id] -> argon2_stmt L kdf pre body pw.
Proof.
  intros HP Hin. destruct (shape_cases (sc [] n n body None)) as [G|[G|[N3 N4]]].
  - eapply argon2_good3; eauto.
  - eapply argon2_good4; eauto.
  - eapply argon2_bad; eauto.
Qed.

Theorem argon2_classified : forall L kdf h pw,
  class_of (check_argon2 L kdf h pw) = spec_argon2 L kdf h pw.
Proof.
  intros L kdf h pw. unfold spec_argon2, recog_argon2.
  destruct (has_prefix p_argon2id h) eqn:Hid.
  { apply has_prefix_spec in Hid. destruct Hid as [body ->].
    apply (argon2_any L kdf p_argon2id 10 body pw (parse_argon2id body)). cbn; auto. }
  destruct (has_prefix p_argon2i h) eqn:Hi.
  { apply has_prefix_spec in Hi. destruct Hi as [body ->].
    apply (argon2_any L kdf p_argon2i 9 body pw (parse_argon2i body)). cbn; auto. }
  destruct (has_prefix p_argon2d h) eqn:Hd.
  { apply has_prefix_spec in Hd. destruct Hd as [body ->].
    apply (argon2_any L kdf p_argon2d 9 body pw (parse_argon2d body)). cbn; auto. }
  unfold check_argon2.
  eapply foreign_prefix with (id := 18%nat); try exact ti_argon2; try reflexivity.
  intros q [<-|[<-|[<-|[]]]]; assumption.
Qed.

(* ---- the ten theorems ---- *)
Check md5_classified : forall L kdf h pw,
  (forall bs ns k, kdf T_md5 bs ns = Some k -> length k = 16%nat) ->
  class_of (check_md5 L kdf h pw) = spec_md5 L kdf h pw.
Check sha256_classified : forall L kdf h pw,
  (forall bs ns k, kdf T_sha256 bs ns = Some k -> length k = 32%nat) ->
  class_of (check_sha256 L kdf h pw) = spec_sha256 L kdf h pw.
Check sha512_classified : forall L kdf h pw,
  (forall bs ns k, kdf T_sha512 bs ns = Some k -> length k = 64%nat) ->
  class_of (check_sha512 L kdf h pw) = spec_sha512 L kdf h pw.
Check sha1_classified : forall L kdf rr h pw,
  (forall bs ns k, kdf T_sha1 bs ns = Some k -> length k = 21%nat) ->
  class_of (check_sha1 L kdf rr h pw) = spec_sha1 L kdf rr h pw.
Check sunmd5_classified : forall L kdf h pw,
  (forall bs ns k, kdf T_sunmd5 bs ns = Some k -> length k = 16%nat) ->
  class_of (check_sunmd5 L kdf h pw) = spec_sunmd5 L kdf h pw.
Check des_classified : forall L kdf h pw,
  (forall bs ns k, kdf T_des bs ns = Some k -> length k = 8%nat) ->
  class_of (check_des L kdf h pw) = spec_des L kdf h pw.
Check desext_classified : forall L kdf h pw,
  (forall bs ns k, kdf T_desext bs ns = Some k -> length k = 8%nat) ->
  class_of (check_desext L kdf h pw) = spec_desext L kdf h pw.
Check bcrypt_classified : forall L kdf h pw,
  (forall bs ns k, kdf T_bcrypt bs ns = Some k -> length k = 23%nat) ->
  class_of (check_bcrypt L kdf h pw) = spec_bcrypt L kdf h pw.
Check nthash_classified : forall L kdf nt h pw,
  (forall bs ns k, kdf T_nthash bs ns = Some k -> length k = 16%nat) ->
  class_of (check_nthash L kdf nt h pw) = spec_nthash L kdf nt h pw.
Check argon2_classified : forall L kdf h pw,
  class_of (check_argon2 L kdf h pw) = spec_argon2 L kdf h pw.

Print Assumptions md5_classified.
Print Assumptions sha256_classified.
Print Assumptions sha512_classified.
Print Assumptions sha1_classified.
Print Assumptions sunmd5_classified.
Print Assumptions des_classified.
Print Assumptions desext_classified.
Print Assumptions bcrypt_classified.
Print Assumptions nthash_classified.
Print Assumptions argon2_classified.
