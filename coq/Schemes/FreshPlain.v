(* C01 and C12 for md5, sha256, sha512, sha1, des, desext and nthash.
   Per scheme X:
     canon_X              the explicit text NewHash produces
     X_canonical          NewHash = NOk (canon_X ...), default salt length, salt and digest alphabets, digest length
     X_fresh_verifies     the fresh hash passes Check with the same password and is routed to the scheme
     X_params_of_fresh    Params / Salt of the fresh hash reports the drawn salt and the requested cost
     X_reassemble         re-deriving the key from the reported parameters and re-encoding reproduces the text
   The derivation proper is abstract (kdf_ok), the random stream arbitrary (good_stream). *)
Require Import GC.Schemes.FreshBase.
Require Import GC.Schemes.RandProofs GC.Schemes.NoPanic.

Local Notation salt_ok s := (in_alpha EncHash s = true).

(* ================================================================== md5 *)
Definition canon_md5 (salt sum : bytes) : bytes := m_md5_Prefix ++ salt ++ dollar :: sum.

Lemma marshal_md5 salt sum :
  salt_ok salt -> length sum = 22%nat -> salt_ok sum ->
  marshal_n m_layout_md5 [([0%nat], VStr m_md5_Prefix); ([1%nat], VBytes salt); ([2%nat], VBytes sum)]
  = NOk (canon_md5 salt sum).
Proof.
  intros Hs Hl Hd. apply in_alpha_fi_none in Hs, Hd.
  marshal_eval ti_md5 TI_md5. reflexivity.
Qed.

Lemma recog_md5_canon salt sum :
  salt_ok salt -> length sum = 22%nat -> salt_ok sum ->
  recog_md5 (canon_md5 salt sum) = Some (mk_r salt [] [] false sum).
Proof.
  intros Hs Hl Hd. unfold recog_md5, canon_md5. rewrite has_prefix_app.
  change (skipn 3 (m_md5_Prefix ++ salt ++ dollar :: sum)) with (salt ++ dollar :: sum). cbv zeta.
  rewrite has_comma_app, has_comma_cons_dollar, (valid_no_comma _ Hs), (valid_no_comma _ Hd). cbn [orb].
  unfold plain_frags. rewrite pieces_step0 by (apply valid_no_dollar; exact Hs).
  rewrite pieces_last by (try (apply valid_no_dollar; exact Hd); eapply length_nonnil; exact Hl).
  unfold salt_sum_ok, slen. rewrite Hs, Hd, Hl. reflexivity.
Qed.

Lemma md5_params_canon salt sum :
  salt_ok salt -> length sum = 22%nat -> salt_ok sum -> salt_md5 (canon_md5 salt sum) = POkP salt [] [] false.
Proof.
  intros Hs Hl Hd. apply pview_some. rewrite salt_md5_recognised, recog_md5_canon by assumption. reflexivity.
Qed.

Lemma md5_check_canon L kdf pw salt key :
  (forall bs ns k, kdf T_md5 bs ns = Some k -> length k = 16%nat) ->
  salt_ok salt -> key_md5 L kdf pw salt = KOk key -> wf_bytes key = true ->
  check_md5 L kdf (canon_md5 salt (le64 key)) pw = VMatch.
Proof.
  intros Hk Hs Hkey Hw. apply class_of_0. rewrite (md5_classified L kdf _ pw Hk). unfold spec_md5.
  rewrite recog_md5_canon; [|exact Hs|apply le64_16; eapply key_md5_len; eauto|apply crypt_valid, le64_over, Hw].
  cbn [mk_r r_salt r_sum]. rewrite Hkey. apply class_key_ok.
Qed.

Lemma md5_prefix rest : prefix_of (m_md5_Prefix ++ rest) = Some m_md5_Prefix.
Proof. reflexivity. Qed.

Section MD5.
Variables (kdf : kdf_t) (stream pw : bytes).
Hypothesis Hk : kdf_ok kdf T_md5 16.
Hypothesis Hs : good_stream stream 8.
Let salt := salt_hash 8 stream.

Lemma md5_fresh_facts :
  exists key, key_md5 L0 kdf pw salt = KOk key /\ length key = 16%nat /\ wf_bytes key = true /\ salt_ok salt /\
              newhash_md5 L0 kdf stream pw = NOk (canon_md5 salt (le64 key)).
Proof.
  assert (salt_ok salt) as Hsalt by (apply crypt_valid, salt_hash_over, Hs).
  assert (key_md5 L0 kdf pw salt = run_kdf kdf T_md5 [pw; salt] []) as Ekey.
  { unfold key_md5, len, first_bad_hash. rewrite (in_alpha_fi_none _ _ Hsalt).
    unfold salt. rewrite (salt_hash_length 8 stream Hs). reflexivity. }
  destruct (kdf_ok_run kdf T_md5 16 [pw; salt] [] Hk) as (key & Er & Hl & Hw).
  exists key. rewrite Ekey. repeat (split; [assumption|]).
  unfold newhash_md5. cbv zeta. fold salt. rewrite Ekey, Er.
  rewrite fit0_exact by (apply le64_16, Hl).
  rewrite marshal_md5; [reflexivity|exact Hsalt|apply le64_16, Hl|apply crypt_valid, le64_over, Hw].
Qed.

Theorem md5_canonical :
  exists key, key_md5 L0 kdf pw (salt_hash 8 stream) = KOk key /\
    newhash_md5 L0 kdf stream pw = NOk (canon_md5 (salt_hash 8 stream) (le64 key)) /\
    len (salt_hash 8 stream) = m_md5_DefaultSaltLength /\ over crypt_alphabet (salt_hash 8 stream) /\
    len (le64 key) = m_md5_sumLength /\ over crypt_alphabet (le64 key).
Proof.
  destruct md5_fresh_facts as (key & Ek & Hl & Hw & Hsalt & En). exists key.
  split. exact Ek. split. exact En.
  split. unfold len. rewrite (salt_hash_length 8 stream Hs). reflexivity.
  split. apply salt_hash_over, Hs.
  split. unfold len. rewrite (le64_16 key Hl). reflexivity.
  apply le64_over, Hw.
Qed.

Theorem md5_fresh_verifies :
  exists h, newhash_md5 L0 kdf stream pw = NOk h /\ check_md5 L0 kdf h pw = VMatch /\
            prefix_of h = Some m_md5_Prefix /\ In (m_md5_Prefix, S_md5) documented_registrations.
Proof.
  destruct md5_fresh_facts as (key & Ek & Hl & Hw & Hsalt & En).
  exists (canon_md5 salt (le64 key)). split. exact En.
  split. apply md5_check_canon; auto. apply (kdf_ok_len _ _ _ Hk).
  split. apply md5_prefix. cbn. tauto.
Qed.

Theorem md5_params_of_fresh : forall h,
  newhash_md5 L0 kdf stream pw = NOk h -> salt_md5 h = POkP (salt_hash 8 stream) [] [] false.
Proof.
  intros h Eh. destruct md5_fresh_facts as (key & Ek & Hl & Hw & Hsalt & En).
  rewrite En in Eh. injection Eh as <-.
  apply md5_params_canon; [exact Hsalt|apply le64_16, Hl|apply crypt_valid, le64_over, Hw].
Qed.

Theorem md5_reassemble : forall h s key,
  newhash_md5 L0 kdf stream pw = NOk h -> salt_md5 h = POkP s [] [] false -> key_md5 L0 kdf pw s = KOk key ->
  h = canon_md5 s (le64 key).
Proof.
  intros h s key Eh Ep Ek. pose proof (md5_params_of_fresh h Eh) as Ep'. rewrite Ep in Ep'. injection Ep' as ->.
  destruct md5_fresh_facts as (key' & Ek' & _ & _ & _ & En). fold salt in Ek. rewrite Ek in Ek'. injection Ek' as <-.
  rewrite En in Eh. injection Eh as <-. reflexivity.
Qed.
End MD5.

(* ================================================================== sha256 / sha512 *)
Definition canon_sha2 (pre : bytes) (rounds : Z) (salt sum : bytes) : bytes :=
  pre ++ k_rounds ++ FormatUint rounds 10 ++ dollar :: salt ++ dollar :: sum.
Definition canon_sha256 := canon_sha2 m_sha256_Prefix.
Definition canon_sha512 := canon_sha2 m_sha512_Prefix.

Lemma marshal_sha256 rounds salt sum :
  0 < rounds -> salt_ok salt -> length sum = 43%nat -> salt_ok sum ->
  marshal_n m_layout_sha256 [([0%nat], VStr m_sha256_Prefix); ([1%nat], VUint rounds); ([2%nat], VBytes salt);
                             ([3%nat], VArr sum)]
  = NOk (canon_sha256 rounds salt sum).
Proof.
  intros Hr Hs Hl Hd. apply in_alpha_fi_none in Hs, Hd.
  pose proof (in_alpha_fi_none _ _ (FormatUint10_alpha rounds ltac:(lia))) as Hf.
  marshal_eval ti_sha256 TI_sha256. unfold canon_sha256, canon_sha2. cbn. rewrite <- !app_assoc. reflexivity.
Qed.

Lemma marshal_sha512 rounds salt sum :
  0 < rounds -> salt_ok salt -> length sum = 86%nat -> salt_ok sum ->
  marshal_n m_layout_sha512 [([0%nat], VStr m_sha512_Prefix); ([1%nat], VUint rounds); ([2%nat], VBytes salt);
                             ([3%nat], VArr sum)]
  = NOk (canon_sha512 rounds salt sum).
Proof.
  intros Hr Hs Hl Hd. apply in_alpha_fi_none in Hs, Hd.
  pose proof (in_alpha_fi_none _ _ (FormatUint10_alpha rounds ltac:(lia))) as Hf.
  marshal_eval ti_sha512 TI_sha512. unfold canon_sha512, canon_sha2. cbn. rewrite <- !app_assoc. reflexivity.
Qed.

Lemma skipn_len_app {A} (p t : list A) n : length p = n -> skipn n (p ++ t) = t.
Proof. intros <-. apply skipn_app_exact. Qed.

Lemma recog_sha2_canon pre sumlen impl n rounds salt sum :
  length pre = 3%nat -> 0 < rounds < 2 ^ 32 -> salt_ok salt -> length sum = S n -> Z.of_nat (S n) = sumlen -> salt_ok sum ->
  recog_sha2 pre sumlen impl (canon_sha2 pre rounds salt sum) = Some (mk_r salt [rounds] [] false sum).
Proof.
  intros Hp Hr Hs Hl Hn Hd. unfold recog_sha2, canon_sha2. rewrite has_prefix_app.
  rewrite (skipn_len_app _ _ _ Hp). cbv zeta.
  pose proof (FormatUint10_alpha rounds ltac:(lia)) as Hf.
  rewrite (app_assoc k_rounds).
  repeat (rewrite has_comma_app || rewrite has_comma_cons_dollar).
  rewrite (valid_no_comma _ Hs), (valid_no_comma _ Hd), (valid_no_comma _ Hf).
  change (has_comma k_rounds) with false. cbn [orb].
  unfold plain_frags.
  rewrite pieces_step0.
  2:{ apply no_dollar_app. split. reflexivity. apply valid_no_dollar, Hf. }
  rewrite pieces_step0 by (apply valid_no_dollar; exact Hs).
  rewrite pieces_last by (try (apply valid_no_dollar; exact Hd); eapply length_nonnil; exact Hl).
  rewrite has_prefix_app. change 7%nat with (length k_rounds). rewrite skipn_app_exact.
  rewrite ParseUint_FormatUint32 by lia.
  unfold salt_sum_ok, slen. rewrite Hs, Hd, Hl, Hn, Z.eqb_refl. cbn [andb].
  destruct (rounds =? 0) eqn:E. apply Z.eqb_eq in E. lia. reflexivity.
Qed.

Lemma key_sha2_fresh kdf tag maxsalt minr maxr pw salt rounds :
  salt_ok salt -> len salt <= maxsalt -> minr <= rounds <= maxr ->
  key_sha2 kdf tag maxsalt minr maxr pw salt rounds = run_kdf kdf tag [pw; salt] [rounds].
Proof.
  intros Hs Hl Hr. unfold key_sha2, first_bad_hash. rewrite (in_alpha_fi_none _ _ Hs).
  destruct (maxsalt <? len salt) eqn:E1. apply Z.ltb_lt in E1. lia.
  destruct (rounds <? minr) eqn:E2. apply Z.ltb_lt in E2. lia.
  destruct (maxr <? rounds) eqn:E3. apply Z.ltb_lt in E3. lia. reflexivity.
Qed.

Lemma sha256_params_canon rounds salt sum :
  0 < rounds < 2 ^ 32 -> salt_ok salt -> length sum = 43%nat -> salt_ok sum ->
  params_sha256 (canon_sha256 rounds salt sum) = POkP salt [rounds] [] false.
Proof.
  intros Hr Hs Hl Hd. apply pview_some. rewrite params_sha256_recognised. unfold recog_sha256, canon_sha256, p_sha256.
  rewrite (recog_sha2_canon _ _ _ 42 rounds salt sum) by (assumption || reflexivity). reflexivity.
Qed.

Lemma sha512_params_canon rounds salt sum :
  0 < rounds < 2 ^ 32 -> salt_ok salt -> length sum = 86%nat -> salt_ok sum ->
  params_sha512 (canon_sha512 rounds salt sum) = POkP salt [rounds] [] false.
Proof.
  intros Hr Hs Hl Hd. apply pview_some. rewrite params_sha512_recognised. unfold recog_sha512, canon_sha512, p_sha512.
  rewrite (recog_sha2_canon _ _ _ 85 rounds salt sum) by (assumption || reflexivity). reflexivity.
Qed.

Lemma sha256_check_canon L kdf pw rounds salt key :
  (forall bs ns k, kdf T_sha256 bs ns = Some k -> length k = 32%nat) ->
  0 < rounds < 2 ^ 32 -> salt_ok salt -> key_sha256 L kdf pw salt rounds = KOk key -> wf_bytes key = true ->
  check_sha256 L kdf (canon_sha256 rounds salt (le64 key)) pw = VMatch.
Proof.
  intros Hk Hr Hs Hkey Hw. apply class_of_0. rewrite (sha256_classified L kdf _ pw Hk). unfold spec_sha256.
  unfold recog_sha256, canon_sha256, p_sha256.
  rewrite (recog_sha2_canon _ _ _ 42 rounds salt (le64 key));
    [|reflexivity|exact Hr|exact Hs|apply le64_32; eapply key_sha2_len; eauto|reflexivity|apply crypt_valid, le64_over, Hw].
  cbn [mk_r r_salt r_sum num0 r_nums nth]. rewrite Hkey. apply class_key_ok.
Qed.

Lemma sha512_check_canon L kdf pw rounds salt key :
  (forall bs ns k, kdf T_sha512 bs ns = Some k -> length k = 64%nat) ->
  0 < rounds < 2 ^ 32 -> salt_ok salt -> key_sha512 L kdf pw salt rounds = KOk key -> wf_bytes key = true ->
  check_sha512 L kdf (canon_sha512 rounds salt (le64 key)) pw = VMatch.
Proof.
  intros Hk Hr Hs Hkey Hw. apply class_of_0. rewrite (sha512_classified L kdf _ pw Hk). unfold spec_sha512.
  unfold recog_sha512, canon_sha512, p_sha512.
  rewrite (recog_sha2_canon _ _ _ 85 rounds salt (le64 key));
    [|reflexivity|exact Hr|exact Hs|apply le64_64; eapply key_sha2_len; eauto|reflexivity|apply crypt_valid, le64_over, Hw].
  cbn [mk_r r_salt r_sum num0 r_nums nth]. rewrite Hkey. apply class_key_ok.
Qed.

Lemma sha256_prefix rest : prefix_of (m_sha256_Prefix ++ rest) = Some m_sha256_Prefix.
Proof. reflexivity. Qed.
Lemma sha512_prefix rest : prefix_of (m_sha512_Prefix ++ rest) = Some m_sha512_Prefix.
Proof. reflexivity. Qed.

Section SHA256.
Variables (kdf : kdf_t) (stream pw : bytes) (rounds : Z).
Hypothesis Hk : kdf_ok kdf T_sha256 32.
Hypothesis Hs : good_stream stream 16.
Hypothesis Hr : L_sha256_MinRounds L0 <= rounds <= L_sha256_MaxRounds L0.
Let salt := salt_hash 16 stream.

Lemma sha256_rounds32 : 0 < rounds < 2 ^ 32.
Proof. change (L_sha256_MinRounds L0) with 1000 in Hr. change (L_sha256_MaxRounds L0) with 999999999 in Hr.
  change (2 ^ 32) with 4294967296. lia. Qed.

Lemma sha256_fresh_facts :
  exists key, key_sha256 L0 kdf pw salt rounds = KOk key /\ length key = 32%nat /\ wf_bytes key = true /\ salt_ok salt /\
              newhash_sha256 L0 kdf stream pw rounds = NOk (canon_sha256 rounds salt (le64 key)).
Proof.
  pose proof sha256_rounds32 as Hr32.
  assert (salt_ok salt) as Hsalt by (apply crypt_valid, salt_hash_over, Hs).
  assert (key_sha256 L0 kdf pw salt rounds = run_kdf kdf T_sha256 [pw; salt] [rounds]) as Ekey.
  { unfold key_sha256. apply key_sha2_fresh. exact Hsalt.
    unfold len, salt. rewrite (salt_hash_length 16 stream Hs). cbv. discriminate. exact Hr. }
  destruct (kdf_ok_run kdf T_sha256 32 [pw; salt] [rounds] Hk) as (key & Er & Hl & Hw).
  exists key. rewrite Ekey. repeat (split; [assumption|]).
  unfold newhash_sha256, newhash_sha2. cbv zeta. fold salt. rewrite Ekey, Er.
  rewrite fit0_exact by (apply le64_32, Hl).
  apply marshal_sha256; [lia|exact Hsalt|apply le64_32, Hl|apply crypt_valid, le64_over, Hw].
Qed.

Theorem sha256_canonical :
  exists key, key_sha256 L0 kdf pw (salt_hash 16 stream) rounds = KOk key /\
    newhash_sha256 L0 kdf stream pw rounds = NOk (canon_sha256 rounds (salt_hash 16 stream) (le64 key)) /\
    len (salt_hash 16 stream) = m_sha256_DefaultSaltLength /\ over crypt_alphabet (salt_hash 16 stream) /\
    len (le64 key) = m_sha256_sumLength /\ over crypt_alphabet (le64 key).
Proof.
  destruct sha256_fresh_facts as (key & Ek & Hl & Hw & Hsalt & En). exists key.
  split. exact Ek. split. exact En.
  split. unfold len. rewrite (salt_hash_length 16 stream Hs). reflexivity.
  split. apply salt_hash_over, Hs.
  split. unfold len. rewrite (le64_32 key Hl). reflexivity.
  apply le64_over, Hw.
Qed.

Theorem sha256_fresh_verifies :
  exists h, newhash_sha256 L0 kdf stream pw rounds = NOk h /\ check_sha256 L0 kdf h pw = VMatch /\
            prefix_of h = Some m_sha256_Prefix /\ In (m_sha256_Prefix, S_sha256) documented_registrations.
Proof.
  destruct sha256_fresh_facts as (key & Ek & Hl & Hw & Hsalt & En).
  exists (canon_sha256 rounds salt (le64 key)). split. exact En.
  split. apply sha256_check_canon; auto using sha256_rounds32. apply (kdf_ok_len _ _ _ Hk).
  split. apply sha256_prefix. cbn. tauto.
Qed.

Theorem sha256_params_of_fresh : forall h,
  newhash_sha256 L0 kdf stream pw rounds = NOk h -> params_sha256 h = POkP (salt_hash 16 stream) [rounds] [] false.
Proof.
  intros h Eh. destruct sha256_fresh_facts as (key & Ek & Hl & Hw & Hsalt & En).
  rewrite En in Eh. injection Eh as <-.
  apply sha256_params_canon; [apply sha256_rounds32|exact Hsalt|apply le64_32, Hl|apply crypt_valid, le64_over, Hw].
Qed.

Theorem sha256_reassemble : forall h s r key,
  newhash_sha256 L0 kdf stream pw rounds = NOk h -> params_sha256 h = POkP s [r] [] false ->
  key_sha256 L0 kdf pw s r = KOk key -> h = canon_sha256 r s (le64 key).
Proof.
  intros h s r key Eh Ep Ek. pose proof (sha256_params_of_fresh h Eh) as Ep'. rewrite Ep in Ep'. injection Ep' as -> ->.
  destruct sha256_fresh_facts as (key' & Ek' & _ & _ & _ & En). fold salt in Ek. rewrite Ek in Ek'. injection Ek' as <-.
  rewrite En in Eh. injection Eh as <-. reflexivity.
Qed.
End SHA256.

Section SHA512.
Variables (kdf : kdf_t) (stream pw : bytes) (rounds : Z).
Hypothesis Hk : kdf_ok kdf T_sha512 64.
Hypothesis Hs : good_stream stream 16.
Hypothesis Hr : L_sha512_MinRounds L0 <= rounds <= L_sha512_MaxRounds L0.
Let salt := salt_hash 16 stream.

Lemma sha512_rounds32 : 0 < rounds < 2 ^ 32.
Proof. change (L_sha512_MinRounds L0) with 1000 in Hr. change (L_sha512_MaxRounds L0) with 999999999 in Hr.
  change (2 ^ 32) with 4294967296. lia. Qed.

Lemma sha512_fresh_facts :
  exists key, key_sha512 L0 kdf pw salt rounds = KOk key /\ length key = 64%nat /\ wf_bytes key = true /\ salt_ok salt /\
              newhash_sha512 L0 kdf stream pw rounds = NOk (canon_sha512 rounds salt (le64 key)).
Proof.
  pose proof sha512_rounds32 as Hr32.
  assert (salt_ok salt) as Hsalt by (apply crypt_valid, salt_hash_over, Hs).
  assert (key_sha512 L0 kdf pw salt rounds = run_kdf kdf T_sha512 [pw; salt] [rounds]) as Ekey.
  { unfold key_sha512. apply key_sha2_fresh. exact Hsalt.
    unfold len, salt. rewrite (salt_hash_length 16 stream Hs). cbv. discriminate. exact Hr. }
  destruct (kdf_ok_run kdf T_sha512 64 [pw; salt] [rounds] Hk) as (key & Er & Hl & Hw).
  exists key. rewrite Ekey. repeat (split; [assumption|]).
  unfold newhash_sha512, newhash_sha2. cbv zeta. fold salt. rewrite Ekey, Er.
  rewrite fit0_exact by (apply le64_64, Hl).
  apply marshal_sha512; [lia|exact Hsalt|apply le64_64, Hl|apply crypt_valid, le64_over, Hw].
Qed.

Theorem sha512_canonical :
  exists key, key_sha512 L0 kdf pw (salt_hash 16 stream) rounds = KOk key /\
    newhash_sha512 L0 kdf stream pw rounds = NOk (canon_sha512 rounds (salt_hash 16 stream) (le64 key)) /\
    len (salt_hash 16 stream) = m_sha512_DefaultSaltLength /\ over crypt_alphabet (salt_hash 16 stream) /\
    len (le64 key) = m_sha512_sumLength /\ over crypt_alphabet (le64 key).
Proof.
  destruct sha512_fresh_facts as (key & Ek & Hl & Hw & Hsalt & En). exists key.
  split. exact Ek. split. exact En.
  split. unfold len. rewrite (salt_hash_length 16 stream Hs). reflexivity.
  split. apply salt_hash_over, Hs.
  split. unfold len. rewrite (le64_64 key Hl). reflexivity.
  apply le64_over, Hw.
Qed.

Theorem sha512_fresh_verifies :
  exists h, newhash_sha512 L0 kdf stream pw rounds = NOk h /\ check_sha512 L0 kdf h pw = VMatch /\
            prefix_of h = Some m_sha512_Prefix /\ In (m_sha512_Prefix, S_sha512) documented_registrations.
Proof.
  destruct sha512_fresh_facts as (key & Ek & Hl & Hw & Hsalt & En).
  exists (canon_sha512 rounds salt (le64 key)). split. exact En.
  split. apply sha512_check_canon; auto using sha512_rounds32. apply (kdf_ok_len _ _ _ Hk).
  split. apply sha512_prefix. cbn. tauto.
Qed.

Theorem sha512_params_of_fresh : forall h,
  newhash_sha512 L0 kdf stream pw rounds = NOk h -> params_sha512 h = POkP (salt_hash 16 stream) [rounds] [] false.
Proof.
  intros h Eh. destruct sha512_fresh_facts as (key & Ek & Hl & Hw & Hsalt & En).
  rewrite En in Eh. injection Eh as <-.
  apply sha512_params_canon; [apply sha512_rounds32|exact Hsalt|apply le64_64, Hl|apply crypt_valid, le64_over, Hw].
Qed.

Theorem sha512_reassemble : forall h s r key,
  newhash_sha512 L0 kdf stream pw rounds = NOk h -> params_sha512 h = POkP s [r] [] false ->
  key_sha512 L0 kdf pw s r = KOk key -> h = canon_sha512 r s (le64 key).
Proof.
  intros h s r key Eh Ep Ek. pose proof (sha512_params_of_fresh h Eh) as Ep'. rewrite Ep in Ep'. injection Ep' as -> ->.
  destruct sha512_fresh_facts as (key' & Ek' & _ & _ & _ & En). fold salt in Ek. rewrite Ek in Ek'. injection Ek' as <-.
  rewrite En in Eh. injection Eh as <-. reflexivity.
Qed.
End SHA512.

(* ================================================================== sha1 *)
Definition canon_sha1 (rounds : Z) (salt sum : bytes) : bytes :=
  m_sha1_Prefix ++ FormatUint rounds 10 ++ dollar :: salt ++ dollar :: sum.

Lemma marshal_sha1 rounds salt sum :
  0 <= rounds -> salt_ok salt -> length sum = 28%nat -> salt_ok sum ->
  marshal_n m_layout_sha1 [([0%nat], VStr m_sha1_Prefix); ([1%nat], VUint rounds); ([2%nat], VBytes salt);
                           ([3%nat], VArr sum)]
  = NOk (canon_sha1 rounds salt sum).
Proof.
  intros Hr Hs Hl Hd. apply in_alpha_fi_none in Hs, Hd.
  pose proof (in_alpha_fi_none _ _ (FormatUint10_alpha rounds Hr)) as Hf.
  marshal_eval ti_sha1 TI_sha1. unfold canon_sha1. cbn. rewrite <- !app_assoc. reflexivity.
Qed.

Lemma recog_sha1_canon rounds salt sum :
  0 <= rounds < 2 ^ 32 -> salt_ok salt -> length sum = 28%nat -> salt_ok sum ->
  recog_sha1 (canon_sha1 rounds salt sum) = Some (mk_r salt [rounds] [] false sum).
Proof.
  intros Hr Hs Hl Hd. unfold recog_sha1, canon_sha1. rewrite has_prefix_app.
  rewrite (skipn_len_app m_sha1_Prefix _ 6 eq_refl). cbv zeta.
  pose proof (FormatUint10_alpha rounds ltac:(lia)) as Hf.
  repeat (rewrite has_comma_app || rewrite has_comma_cons_dollar).
  rewrite (valid_no_comma _ Hs), (valid_no_comma _ Hd), (valid_no_comma _ Hf). cbn [orb].
  unfold plain_frags.
  rewrite pieces_step0 by (apply valid_no_dollar; exact Hf).
  rewrite pieces_step0 by (apply valid_no_dollar; exact Hs).
  rewrite pieces_last by (try (apply valid_no_dollar; exact Hd); eapply length_nonnil; exact Hl).
  rewrite Hf, ParseUint_FormatUint32 by lia.
  unfold salt_sum_ok, slen. rewrite Hs, Hd, Hl. reflexivity.
Qed.

Lemma sha1_params_canon rounds salt sum :
  0 <= rounds < 2 ^ 32 -> salt_ok salt -> length sum = 28%nat -> salt_ok sum ->
  params_sha1 (canon_sha1 rounds salt sum) = POkP salt [rounds] [] false.
Proof.
  intros Hr Hs Hl Hd. apply pview_some. rewrite params_sha1_recognised, recog_sha1_canon by assumption. reflexivity.
Qed.

Lemma sha1_check_canon L kdf rr pw rounds salt key :
  (forall bs ns k, kdf T_sha1 bs ns = Some k -> length k = 21%nat) ->
  0 <= rounds < 2 ^ 32 -> salt_ok salt -> key_sha1 L kdf rr pw salt rounds = KOk key -> wf_bytes key = true ->
  check_sha1 L kdf rr (canon_sha1 rounds salt (le64 key)) pw = VMatch.
Proof.
  intros Hk Hr Hs Hkey Hw. apply class_of_0. rewrite (sha1_classified L kdf rr _ pw Hk). unfold spec_sha1.
  rewrite recog_sha1_canon; [|exact Hr|exact Hs|apply le64_21; eapply key_sha1_len; eauto|apply crypt_valid, le64_over, Hw].
  cbn [mk_r r_salt r_sum num0 r_nums nth]. rewrite Hkey. apply class_key_ok.
Qed.

Lemma sha1_prefix rest : prefix_of (m_sha1_Prefix ++ rest) = Some m_sha1_Prefix.
Proof. reflexivity. Qed.

(* what NewHash does once the round count is settled and the remaining stream known *)
Definition sha1_body (kdf : kdf_t) (stream' pw : bytes) (rounds' : Z) : nres :=
  let salt := salt_hash 8 stream' in
  match key_sha1 L0 kdf 0 pw salt rounds' with
  | KErr e => NKeyErr e
  | KOk key => marshal_n m_layout_sha1 [([0%nat], VStr m_sha1_Prefix); ([1%nat], VUint rounds'); ([2%nat], VBytes salt);
                                        ([3%nat], VArr (fit0 28 (le64 key)))]
  end.

Lemma newhash_sha1_explicit kdf stream pw rounds : rounds <> L_sha1_RandomRounds L0 ->
  newhash_sha1 L0 kdf stream pw rounds = sha1_body kdf stream pw rounds.
Proof. intros H. unfold newhash_sha1. apply Z.eqb_neq in H. rewrite H. reflexivity. Qed.

Lemma newhash_sha1_random kdf stream pw :
  newhash_sha1 L0 kdf stream pw (L_sha1_RandomRounds L0) =
  sha1_body kdf (snd (rand_rounds m_sha1_randomHint stream)) pw (fst (rand_rounds m_sha1_randomHint stream)).
Proof. unfold newhash_sha1. rewrite Z.eqb_refl. reflexivity. Qed.

Lemma wf_bytes_skipn n s : wf_bytes s = true -> wf_bytes (skipn n s) = true.
Proof.
  unfold wf_bytes. rewrite !forallb_forall. intros H x Hx. apply H.
  rewrite <- (firstn_skipn n s). apply in_or_app. right. exact Hx.
Qed.

Lemma good_stream_skipn stream n m : good_stream stream (n + m) -> good_stream (skipn n stream) m.
Proof. intros [A B]. split. apply wf_bytes_skipn, A. rewrite skipn_length. lia. Qed.

Lemma drawn_rounds_window stream :
  18511 <= fst (rand_rounds m_sha1_randomHint stream) <= 24680.
Proof.
  unfold rand_rounds, rand_rounds_of. cbn [fst].
  change (m_sha1_randomHint / 4) with 6170. change m_sha1_randomHint with 24680.
  pose proof (Z.mod_pos_bound (be32 (firstn 4 stream)) 6170 ltac:(lia)). lia.
Qed.

Section SHA1.
Variables (kdf : kdf_t) (stream' pw : bytes) (rounds' : Z).
Hypothesis Hk : kdf_ok kdf T_sha1 21.
Hypothesis Hs : good_stream stream' 8.
Hypothesis Hr : L_sha1_MinRounds L0 <= rounds' < 2 ^ 32.
Hypothesis Hne : rounds' <> L_sha1_RandomRounds L0.
Let salt := salt_hash 8 stream'.

Lemma sha1_rounds32 : 0 <= rounds' < 2 ^ 32.
Proof. change (L_sha1_MinRounds L0) with 1 in Hr. lia. Qed.

Lemma key_sha1_fresh rr : key_sha1 L0 kdf rr pw salt rounds' = run_kdf kdf T_sha1 [pw; salt] [rounds'].
Proof.
  assert (salt_ok salt) as Hsalt by (apply crypt_valid, salt_hash_over, Hs).
  unfold key_sha1, len, first_bad_hash. rewrite (in_alpha_fi_none _ _ Hsalt).
  unfold salt. rewrite (salt_hash_length 8 stream' Hs).
  change (L_sha1_MaxSalt L0 <? Z.of_nat 8) with false. cbv iota zeta.
  apply Z.eqb_neq in Hne. rewrite Hne.
  destruct (rounds' <? L_sha1_MinRounds L0) eqn:E. apply Z.ltb_lt in E. lia. reflexivity.
Qed.

Lemma sha1_fresh_facts :
  exists key, (forall rr, key_sha1 L0 kdf rr pw salt rounds' = KOk key) /\ length key = 21%nat /\ wf_bytes key = true /\
              salt_ok salt /\ sha1_body kdf stream' pw rounds' = NOk (canon_sha1 rounds' salt (le64 key)).
Proof.
  pose proof sha1_rounds32 as Hr32.
  assert (salt_ok salt) as Hsalt by (apply crypt_valid, salt_hash_over, Hs).
  destruct (kdf_ok_run kdf T_sha1 21 [pw; salt] [rounds'] Hk) as (key & Er & Hl & Hw).
  exists key. split. intros rr. rewrite key_sha1_fresh. exact Er. repeat (split; [assumption|]).
  unfold sha1_body. cbv zeta. fold salt. rewrite key_sha1_fresh, Er.
  rewrite fit0_exact by (apply le64_21, Hl).
  apply marshal_sha1; [lia|exact Hsalt|apply le64_21, Hl|apply crypt_valid, le64_over, Hw].
Qed.

Lemma sha1_body_canonical :
  exists key, (forall rr, key_sha1 L0 kdf rr pw (salt_hash 8 stream') rounds' = KOk key) /\
    sha1_body kdf stream' pw rounds' = NOk (canon_sha1 rounds' (salt_hash 8 stream') (le64 key)) /\
    len (salt_hash 8 stream') = m_sha1_DefaultSaltLength /\ over crypt_alphabet (salt_hash 8 stream') /\
    len (le64 key) = m_sha1_sumLength /\ over crypt_alphabet (le64 key).
Proof.
  destruct sha1_fresh_facts as (key & Ek & Hl & Hw & Hsalt & En). exists key.
  split. exact Ek. split. exact En.
  split. unfold len. rewrite (salt_hash_length 8 stream' Hs). reflexivity.
  split. apply salt_hash_over, Hs.
  split. unfold len. rewrite (le64_21 key Hl). reflexivity.
  apply le64_over, Hw.
Qed.

Lemma sha1_body_verifies : forall rr,
  exists h, sha1_body kdf stream' pw rounds' = NOk h /\ check_sha1 L0 kdf rr h pw = VMatch /\
            prefix_of h = Some m_sha1_Prefix /\ In (m_sha1_Prefix, S_sha1) documented_registrations.
Proof.
  intros rr. destruct sha1_fresh_facts as (key & Ek & Hl & Hw & Hsalt & En).
  exists (canon_sha1 rounds' salt (le64 key)). split. exact En.
  split. apply sha1_check_canon; auto using sha1_rounds32. apply (kdf_ok_len _ _ _ Hk).
  split. apply sha1_prefix. cbn. tauto.
Qed.

Lemma sha1_body_params : forall h,
  sha1_body kdf stream' pw rounds' = NOk h -> params_sha1 h = POkP (salt_hash 8 stream') [rounds'] [] false.
Proof.
  intros h Eh. destruct sha1_fresh_facts as (key & Ek & Hl & Hw & Hsalt & En).
  rewrite En in Eh. injection Eh as <-.
  apply sha1_params_canon; [apply sha1_rounds32|exact Hsalt|apply le64_21, Hl|apply crypt_valid, le64_over, Hw].
Qed.

Lemma sha1_body_reassemble : forall rr h s r key,
  sha1_body kdf stream' pw rounds' = NOk h -> params_sha1 h = POkP s [r] [] false ->
  key_sha1 L0 kdf rr pw s r = KOk key -> h = canon_sha1 r s (le64 key).
Proof.
  intros rr h s r key Eh Ep Ek. pose proof (sha1_body_params h Eh) as Ep'. rewrite Ep in Ep'. injection Ep' as -> ->.
  destruct sha1_fresh_facts as (key' & Ek' & _ & _ & _ & En). fold salt in Ek. rewrite (Ek' rr) in Ek. injection Ek as <-.
  rewrite En in Eh. injection Eh as <-. reflexivity.
Qed.
End SHA1.

(* explicit round count *)
Section SHA1explicit.
Variables (kdf : kdf_t) (stream pw : bytes) (rounds : Z).
Hypothesis Hk : kdf_ok kdf T_sha1 21.
Hypothesis Hs : good_stream stream 8.
Hypothesis Hr : L_sha1_MinRounds L0 <= rounds < 2 ^ 32.
Hypothesis Hne : rounds <> L_sha1_RandomRounds L0.

Theorem sha1_canonical :
  exists key, (forall rr, key_sha1 L0 kdf rr pw (salt_hash 8 stream) rounds = KOk key) /\
    newhash_sha1 L0 kdf stream pw rounds = NOk (canon_sha1 rounds (salt_hash 8 stream) (le64 key)) /\
    len (salt_hash 8 stream) = m_sha1_DefaultSaltLength /\ over crypt_alphabet (salt_hash 8 stream) /\
    len (le64 key) = m_sha1_sumLength /\ over crypt_alphabet (le64 key).
Proof. rewrite newhash_sha1_explicit by exact Hne. apply sha1_body_canonical; assumption. Qed.

Theorem sha1_fresh_verifies : forall rr,
  exists h, newhash_sha1 L0 kdf stream pw rounds = NOk h /\ check_sha1 L0 kdf rr h pw = VMatch /\
            prefix_of h = Some m_sha1_Prefix /\ In (m_sha1_Prefix, S_sha1) documented_registrations.
Proof. rewrite newhash_sha1_explicit by exact Hne. apply sha1_body_verifies; assumption. Qed.

Theorem sha1_params_of_fresh : forall h,
  newhash_sha1 L0 kdf stream pw rounds = NOk h -> params_sha1 h = POkP (salt_hash 8 stream) [rounds] [] false.
Proof. rewrite newhash_sha1_explicit by exact Hne. apply sha1_body_params; assumption. Qed.

Theorem sha1_reassemble : forall rr h s r key,
  newhash_sha1 L0 kdf stream pw rounds = NOk h -> params_sha1 h = POkP s [r] [] false ->
  key_sha1 L0 kdf rr pw s r = KOk key -> h = canon_sha1 r s (le64 key).
Proof. rewrite newhash_sha1_explicit by exact Hne. apply sha1_body_reassemble; assumption. Qed.
End SHA1explicit.

(* RandomRounds: four bytes of the stream choose the round count, the next eight the salt *)
Section SHA1random.
Variables (kdf : kdf_t) (stream pw : bytes).
Hypothesis Hk : kdf_ok kdf T_sha1 21.
Hypothesis Hs : good_stream stream 12.
Let drawn := fst (rand_rounds m_sha1_randomHint stream).
Let rest := snd (rand_rounds m_sha1_randomHint stream).

Lemma sha1_random_side :
  good_stream rest 8 /\ L_sha1_MinRounds L0 <= drawn < 2 ^ 32 /\ drawn <> L_sha1_RandomRounds L0.
Proof.
  pose proof (drawn_rounds_window stream) as W. fold drawn in W.
  split. apply (good_stream_skipn stream 4 8 Hs).
  change (L_sha1_MinRounds L0) with 1. change (L_sha1_RandomRounds L0) with 4294967295.
  change (2 ^ 32) with 4294967296. lia.
Qed.

Theorem sha1_random_canonical :
  exists key, (forall rr, key_sha1 L0 kdf rr pw (salt_hash 8 rest) drawn = KOk key) /\
    newhash_sha1 L0 kdf stream pw (L_sha1_RandomRounds L0) = NOk (canon_sha1 drawn (salt_hash 8 rest) (le64 key)) /\
    18511 <= drawn <= 24680 /\
    len (salt_hash 8 rest) = m_sha1_DefaultSaltLength /\ over crypt_alphabet (salt_hash 8 rest) /\
    len (le64 key) = m_sha1_sumLength /\ over crypt_alphabet (le64 key).
Proof.
  destruct sha1_random_side as (A & B & C). rewrite newhash_sha1_random. fold drawn rest.
  destruct (sha1_body_canonical kdf rest pw drawn Hk A B C) as (key & H1 & H2 & H3).
  exists key. split. exact H1. split. exact H2. split. apply drawn_rounds_window. exact H3.
Qed.

Theorem sha1_random_fresh_verifies : forall rr,
  exists h, newhash_sha1 L0 kdf stream pw (L_sha1_RandomRounds L0) = NOk h /\ check_sha1 L0 kdf rr h pw = VMatch /\
            prefix_of h = Some m_sha1_Prefix /\ In (m_sha1_Prefix, S_sha1) documented_registrations.
Proof.
  destruct sha1_random_side as (A & B & C). rewrite newhash_sha1_random. apply sha1_body_verifies; assumption.
Qed.

Theorem sha1_random_params_of_fresh : forall h,
  newhash_sha1 L0 kdf stream pw (L_sha1_RandomRounds L0) = NOk h ->
  params_sha1 h = POkP (salt_hash 8 rest) [drawn] [] false.
Proof.
  destruct sha1_random_side as (A & B & C). rewrite newhash_sha1_random. apply sha1_body_params; assumption.
Qed.

Theorem sha1_random_reassemble : forall rr h s r key,
  newhash_sha1 L0 kdf stream pw (L_sha1_RandomRounds L0) = NOk h -> params_sha1 h = POkP s [r] [] false ->
  key_sha1 L0 kdf rr pw s r = KOk key -> h = canon_sha1 r s (le64 key).
Proof.
  destruct sha1_random_side as (A & B & C). rewrite newhash_sha1_random. apply sha1_body_reassemble; assumption.
Qed.
End SHA1random.

(* ================================================================== des *)
Definition canon_des (salt sum : bytes) : bytes := salt ++ sum.

Lemma firstn_len_app {A} (p t : list A) n : length p = n -> firstn n (p ++ t) = p.
Proof. intros <-. apply firstn_app_exact. Qed.

Lemma marshal_des salt sum :
  length salt = 2%nat -> salt_ok salt -> length sum = 11%nat -> salt_ok sum ->
  marshal_n m_layout_des [([0%nat], VStr m_des_Prefix); ([1%nat], VBytes salt); ([2%nat], VArr sum)]
  = NOk (canon_des salt sum).
Proof.
  intros Hls Hs Hl Hd. apply in_alpha_fi_none in Hs, Hd.
  marshal_eval ti_des TI_des. reflexivity.
Qed.

Lemma recog_des_canon salt sum :
  length salt = 2%nat -> salt_ok salt -> length sum = 11%nat -> salt_ok sum ->
  recog_des (canon_des salt sum) = Some (mk_r salt [] [] false sum).
Proof.
  intros Hls Hs Hl Hd. unfold recog_des, canon_des. cbv zeta.
  assert (salt_ok (salt ++ sum)) as Ha by (rewrite in_alpha_app, Hs, Hd; reflexivity).
  rewrite strip_dollar_plain by (apply valid_no_dollar; exact Ha).
  unfold slen. rewrite app_length, Hls, Hl, Ha. cbn [Nat.add andb].
  change (Z.of_nat 13 =? 13) with true. cbv iota.
  rewrite (firstn_len_app _ _ _ Hls), (skipn_len_app _ _ _ Hls). reflexivity.
Qed.

Lemma des_params_canon salt sum :
  length salt = 2%nat -> salt_ok salt -> length sum = 11%nat -> salt_ok sum ->
  salt_des (canon_des salt sum) = POkP salt [] [] false.
Proof.
  intros Hls Hs Hl Hd. apply pview_some. rewrite salt_des_recognised, recog_des_canon by assumption. reflexivity.
Qed.

Lemma des_check_canon L kdf pw salt key :
  (forall bs ns k, kdf T_des bs ns = Some k -> length k = 8%nat) ->
  length salt = 2%nat -> salt_ok salt -> key_des L kdf pw salt = KOk key -> wf_bytes key = true ->
  check_des L kdf (canon_des salt (be64 key)) pw = VMatch.
Proof.
  intros Hk Hls Hs Hkey Hw. apply class_of_0. rewrite (des_classified L kdf _ pw Hk). unfold spec_des.
  rewrite recog_des_canon;
    [|exact Hls|exact Hs|apply be64_8; eapply key_des_len; eauto|apply crypt_valid, be64_crypt_over, Hw].
  cbn [mk_r r_salt r_sum]. rewrite Hkey. apply class_key_ok.
Qed.

Lemma des_prefix salt rest : length salt = 2%nat -> over crypt_alphabet salt -> prefix_of (salt ++ rest) = Some [].
Proof.
  intros Hl Ho. destruct salt as [|c salt]. discriminate Hl.
  inversion Ho as [|? ? Hc _]. subst. destruct (crypt_first c Hc) as [A B].
  unfold prefix_of. cbn [app].
  change (has_prefix [dollar] (c :: salt ++ rest)) with ((dollar =? c) && true).
  change (has_prefix [underscore] (c :: salt ++ rest)) with ((underscore =? c) && true).
  rewrite A, B. reflexivity.
Qed.

Section DES.
Variables (kdf : kdf_t) (stream pw : bytes).
Hypothesis Hk : kdf_ok kdf T_des 8.
Hypothesis Hs : good_stream stream 2.
Hypothesis Hpw : len pw <= L_des_MaxPw L0.
Let salt := salt_hash 2 stream.

Lemma des_fresh_facts :
  exists key, key_des L0 kdf pw salt = KOk key /\ length key = 8%nat /\ wf_bytes key = true /\ salt_ok salt /\
              length salt = 2%nat /\ newhash_des L0 kdf stream pw = NOk (canon_des salt (be64 key)).
Proof.
  assert (salt_ok salt) as Hsalt by (apply crypt_valid, salt_hash_over, Hs).
  assert (length salt = 2%nat) as Hls by (apply salt_hash_length, Hs).
  assert (key_des L0 kdf pw salt = run_kdf kdf T_des [pw; salt] []) as Ekey.
  { unfold key_des, first_bad_hash. rewrite (in_alpha_fi_none _ _ Hsalt).
    destruct (L_des_MaxPw L0 <? len pw) eqn:E. apply Z.ltb_lt in E. lia.
    unfold len at 1. rewrite Hls. reflexivity. }
  destruct (kdf_ok_run kdf T_des 8 [pw; salt] [] Hk) as (key & Er & Hl & Hw).
  exists key. rewrite Ekey. repeat (split; [assumption|]).
  unfold newhash_des. cbv zeta. fold salt. rewrite Ekey, Er.
  rewrite fit0_exact by (apply be64_8, Hl).
  rewrite marshal_des; [reflexivity|exact Hls|exact Hsalt|apply be64_8, Hl|apply crypt_valid, be64_crypt_over, Hw].
Qed.

Theorem des_canonical :
  exists key, key_des L0 kdf pw (salt_hash 2 stream) = KOk key /\
    newhash_des L0 kdf stream pw = NOk (canon_des (salt_hash 2 stream) (be64 key)) /\
    len (salt_hash 2 stream) = m_des_SaltLength /\ over crypt_alphabet (salt_hash 2 stream) /\
    len (be64 key) = m_des_sumLength /\ over crypt_alphabet (be64 key).
Proof.
  destruct des_fresh_facts as (key & Ek & Hl & Hw & Hsalt & Hls & En). exists key.
  split. exact Ek. split. exact En.
  split. unfold len. fold salt. rewrite Hls. reflexivity.
  split. apply salt_hash_over, Hs.
  split. unfold len. rewrite (be64_8 key Hl). reflexivity.
  apply be64_crypt_over, Hw.
Qed.

Theorem des_fresh_verifies :
  exists h, newhash_des L0 kdf stream pw = NOk h /\ check_des L0 kdf h pw = VMatch /\
            prefix_of h = Some m_des_Prefix /\ In (m_des_Prefix, S_des) documented_registrations.
Proof.
  destruct des_fresh_facts as (key & Ek & Hl & Hw & Hsalt & Hls & En).
  exists (canon_des salt (be64 key)). split. exact En.
  split. apply des_check_canon; auto. apply (kdf_ok_len _ _ _ Hk).
  split. apply des_prefix. exact Hls. apply salt_hash_over, Hs. cbn. tauto.
Qed.

Theorem des_params_of_fresh : forall h,
  newhash_des L0 kdf stream pw = NOk h -> salt_des h = POkP (salt_hash 2 stream) [] [] false.
Proof.
  intros h Eh. destruct des_fresh_facts as (key & Ek & Hl & Hw & Hsalt & Hls & En).
  rewrite En in Eh. injection Eh as <-.
  apply des_params_canon; [exact Hls|exact Hsalt|apply be64_8, Hl|apply crypt_valid, be64_crypt_over, Hw].
Qed.

Theorem des_reassemble : forall h s key,
  newhash_des L0 kdf stream pw = NOk h -> salt_des h = POkP s [] [] false -> key_des L0 kdf pw s = KOk key ->
  h = canon_des s (be64 key).
Proof.
  intros h s key Eh Ep Ek. pose proof (des_params_of_fresh h Eh) as Ep'. rewrite Ep in Ep'. injection Ep' as ->.
  destruct des_fresh_facts as (key' & Ek' & _ & _ & _ & _ & En). fold salt in Ek. rewrite Ek in Ek'. injection Ek' as <-.
  rewrite En in Eh. injection Eh as <-. reflexivity.
Qed.
End DES.

(* ================================================================== desext *)
Definition canon_desext (rounds : Z) (salt sum : bytes) : bytes := m_desext_Prefix ++ EncodeInt rounds ++ salt ++ sum.

Lemma EncodeInt_length v : length (EncodeInt v) = 4%nat.
Proof. reflexivity. Qed.

Lemma land63 x : Z.land x 63 = x mod 64.
Proof. change 63 with (Z.ones 6). rewrite Z.land_ones by lia. reflexivity. Qed.

Lemma hash_encode_idx_in i : 0 <= i < 64 -> In (hash_encode_idx i) crypt_alphabet.
Proof.
  intros H. apply mem_In.
  apply (zrange_sweep (fun i => mem (hash_encode_idx i) crypt_alphabet) 64). vm_compute. reflexivity.
  change (Z.of_nat 64) with 64. exact H.
Qed.

Lemma index_hash_encode i : 0 <= i < 64 -> index_byte crypt_alphabet (hash_encode_idx i) 0 = i.
Proof.
  intros H. apply Z.eqb_eq.
  apply (zrange_sweep (fun i => index_byte crypt_alphabet (hash_encode_idx i) 0 =? i) 64). vm_compute. reflexivity.
  change (Z.of_nat 64) with 64. exact H.
Qed.

Lemma EncodeInt_over v : over crypt_alphabet (EncodeInt v).
Proof.
  unfold EncodeInt, over. cbn [map].
  repeat (constructor; [apply hash_encode_idx_in; rewrite land63; apply Z.mod_pos_bound; lia|]). constructor.
Qed.

(* the recogniser's own reading of the four round symbols gives the number back *)
Lemma decode_EncodeInt v : 0 <= v < 2 ^ 24 -> decode_le6 (EncodeInt v) 0 = v.
Proof.
  intros H. unfold EncodeInt. cbn [map decode_le6].
  rewrite !index_hash_encode by (rewrite land63; apply Z.mod_pos_bound; lia).
  rewrite !land63, !Z.shiftr_div_pow2 by lia.
  change (6 * 0) with 0. change (6 * 1) with 6. change (6 * 2) with 12. change (6 * 3) with 18.
  change (6 * (0 + 1)) with 6. change (6 * (0 + 1 + 1)) with 12. change (6 * (0 + 1 + 1 + 1)) with 18.
  change (2 ^ 0) with 1. change (2 ^ 6) with 64. change (2 ^ 12) with 4096. change (2 ^ 18) with 262144.
  change (2 ^ 24) with 16777216 in H.
  Z.div_mod_to_equations. lia.
Qed.

Lemma marshal_desext rounds salt sum :
  length salt = 4%nat -> salt_ok salt -> length sum = 11%nat -> salt_ok sum ->
  marshal_n m_layout_desext [([0%nat], VStr m_desext_Prefix); ([1%nat], VUint rounds); ([2%nat], VBytes salt);
                             ([3%nat], VArr sum)]
  = NOk (canon_desext rounds salt sum).
Proof.
  intros Hls Hs Hl Hd. apply in_alpha_fi_none in Hs, Hd.
  pose proof (EncodeInt_length rounds) as Hle.
  pose proof (in_alpha_fi_none _ _ (crypt_valid _ (EncodeInt_over rounds))) as He.
  marshal_eval ti_desext TI_desext. unfold canon_desext. cbn. rewrite <- !app_assoc. reflexivity.
Qed.

Lemma recog_desext_canon rounds salt sum :
  0 <= rounds < 2 ^ 24 -> length salt = 4%nat -> salt_ok salt -> length sum = 11%nat -> salt_ok sum ->
  recog_desext (canon_desext rounds salt sum) = Some (mk_r salt [rounds] [] false sum).
Proof.
  intros Hr Hls Hs Hl Hd. unfold recog_desext, canon_desext, m_desext_Prefix. cbn [app].
  change (95 =? underscore) with true. cbv iota zeta.
  pose proof (crypt_valid _ (EncodeInt_over rounds)) as He.
  assert (salt_ok (EncodeInt rounds ++ salt ++ sum)) as Ha by (rewrite !in_alpha_app, He, Hs, Hd; reflexivity).
  rewrite strip_dollar_plain by (apply valid_no_dollar; exact Ha).
  unfold slen. rewrite !app_length, EncodeInt_length, Hls, Hl, Ha. cbn [Nat.add andb].
  change (Z.of_nat 19 =? 19) with true. cbv iota.
  rewrite (firstn_len_app (EncodeInt rounds) (salt ++ sum) 4 eq_refl).
  rewrite (skipn_len_app (EncodeInt rounds) (salt ++ sum) 4 eq_refl).
  rewrite (firstn_len_app salt sum 4 Hls).
  rewrite app_assoc, (skipn_len_app (EncodeInt rounds ++ salt) sum 8)
    by (rewrite app_length, EncodeInt_length, Hls; reflexivity).
  rewrite decode_EncodeInt by exact Hr. reflexivity.
Qed.

Lemma desext_params_canon rounds salt sum :
  0 <= rounds < 2 ^ 24 -> length salt = 4%nat -> salt_ok salt -> length sum = 11%nat -> salt_ok sum ->
  params_desext (canon_desext rounds salt sum) = POkP salt [rounds] [] false.
Proof.
  intros Hr Hls Hs Hl Hd. apply pview_some. rewrite params_desext_recognised, recog_desext_canon by assumption.
  reflexivity.
Qed.

Lemma desext_check_canon L kdf pw rounds salt key :
  (forall bs ns k, kdf T_desext bs ns = Some k -> length k = 8%nat) ->
  0 <= rounds < 2 ^ 24 -> length salt = 4%nat -> salt_ok salt -> key_desext L kdf pw salt rounds = KOk key ->
  wf_bytes key = true ->
  check_desext L kdf (canon_desext rounds salt (be64 key)) pw = VMatch.
Proof.
  intros Hk Hr Hls Hs Hkey Hw. apply class_of_0. rewrite (desext_classified L kdf _ pw Hk). unfold spec_desext.
  rewrite recog_desext_canon;
    [|exact Hr|exact Hls|exact Hs|apply be64_8; eapply key_desext_len; eauto|apply crypt_valid, be64_crypt_over, Hw].
  cbn [mk_r r_salt r_sum num0 r_nums nth]. rewrite Hkey. apply class_key_ok.
Qed.

Lemma desext_prefix rest : prefix_of (m_desext_Prefix ++ rest) = Some m_desext_Prefix.
Proof. reflexivity. Qed.

Section DESEXT.
Variables (kdf : kdf_t) (stream pw : bytes) (rounds : Z).
Hypothesis Hk : kdf_ok kdf T_desext 8.
Hypothesis Hs : good_stream stream 4.
Hypothesis Hr : L_desext_MinRounds L0 <= rounds <= L_desext_MaxRounds L0.
Let salt := salt_hash 4 stream.

Lemma desext_rounds24 : 0 <= rounds < 2 ^ 24.
Proof. change (L_desext_MinRounds L0) with 1 in Hr. change (L_desext_MaxRounds L0) with 16777215 in Hr.
  change (2 ^ 24) with 16777216. lia. Qed.

Lemma desext_fresh_facts :
  exists key, key_desext L0 kdf pw salt rounds = KOk key /\ length key = 8%nat /\ wf_bytes key = true /\ salt_ok salt /\
              length salt = 4%nat /\ newhash_desext L0 kdf stream pw rounds = NOk (canon_desext rounds salt (be64 key)).
Proof.
  assert (salt_ok salt) as Hsalt by (apply crypt_valid, salt_hash_over, Hs).
  assert (length salt = 4%nat) as Hls by (apply salt_hash_length, Hs).
  assert (key_desext L0 kdf pw salt rounds = run_kdf kdf T_desext [pw; salt] [rounds]) as Ekey.
  { unfold key_desext, first_bad_hash. rewrite (in_alpha_fi_none _ _ Hsalt).
    unfold len. rewrite Hls. change (negb (Z.of_nat 4 =? L_desext_Salt L0)) with false. cbv iota.
    destruct (rounds <? L_desext_MinRounds L0) eqn:E1. apply Z.ltb_lt in E1. lia.
    destruct (L_desext_MaxRounds L0 <? rounds) eqn:E2. apply Z.ltb_lt in E2. lia. reflexivity. }
  destruct (kdf_ok_run kdf T_desext 8 [pw; salt] [rounds] Hk) as (key & Er & Hl & Hw).
  exists key. rewrite Ekey. repeat (split; [assumption|]).
  unfold newhash_desext. cbv zeta. fold salt. rewrite Ekey, Er.
  rewrite fit0_exact by (apply be64_8, Hl).
  apply marshal_desext; [exact Hls|exact Hsalt|apply be64_8, Hl|apply crypt_valid, be64_crypt_over, Hw].
Qed.

Theorem desext_canonical :
  exists key, key_desext L0 kdf pw (salt_hash 4 stream) rounds = KOk key /\
    newhash_desext L0 kdf stream pw rounds = NOk (canon_desext rounds (salt_hash 4 stream) (be64 key)) /\
    len (salt_hash 4 stream) = m_desext_SaltLength /\ over crypt_alphabet (salt_hash 4 stream) /\
    len (be64 key) = m_desext_sumLength /\ over crypt_alphabet (be64 key) /\
    length (EncodeInt rounds) = 4%nat /\ over crypt_alphabet (EncodeInt rounds).
Proof.
  destruct desext_fresh_facts as (key & Ek & Hl & Hw & Hsalt & Hls & En). exists key.
  split. exact Ek. split. exact En.
  split. unfold len. fold salt. rewrite Hls. reflexivity.
  split. apply salt_hash_over, Hs.
  split. unfold len. rewrite (be64_8 key Hl). reflexivity.
  split. apply be64_crypt_over, Hw.
  split. reflexivity. apply EncodeInt_over.
Qed.

Theorem desext_fresh_verifies :
  exists h, newhash_desext L0 kdf stream pw rounds = NOk h /\ check_desext L0 kdf h pw = VMatch /\
            prefix_of h = Some m_desext_Prefix /\ In (m_desext_Prefix, S_desext) documented_registrations.
Proof.
  destruct desext_fresh_facts as (key & Ek & Hl & Hw & Hsalt & Hls & En).
  exists (canon_desext rounds salt (be64 key)). split. exact En.
  split. apply desext_check_canon; auto using desext_rounds24. apply (kdf_ok_len _ _ _ Hk).
  split. apply desext_prefix. cbn. tauto.
Qed.

Theorem desext_params_of_fresh : forall h,
  newhash_desext L0 kdf stream pw rounds = NOk h -> params_desext h = POkP (salt_hash 4 stream) [rounds] [] false.
Proof.
  intros h Eh. destruct desext_fresh_facts as (key & Ek & Hl & Hw & Hsalt & Hls & En).
  rewrite En in Eh. injection Eh as <-.
  apply desext_params_canon;
    [apply desext_rounds24|exact Hls|exact Hsalt|apply be64_8, Hl|apply crypt_valid, be64_crypt_over, Hw].
Qed.

Theorem desext_reassemble : forall h s r key,
  newhash_desext L0 kdf stream pw rounds = NOk h -> params_desext h = POkP s [r] [] false ->
  key_desext L0 kdf pw s r = KOk key -> h = canon_desext r s (be64 key).
Proof.
  intros h s r key Eh Ep Ek. pose proof (desext_params_of_fresh h Eh) as Ep'. rewrite Ep in Ep'. injection Ep' as -> ->.
  destruct desext_fresh_facts as (key' & Ek' & _ & _ & _ & _ & En). fold salt in Ek. rewrite Ek in Ek'. injection Ek' as <-.
  rewrite En in Eh. injection Eh as <-. reflexivity.
Qed.
End DESEXT.

(* ================================================================== nthash *)
Definition canon_nthash (sum : bytes) : bytes := m_nthash_Prefix ++ dollar :: sum.

Lemma marshal_nthash sum :
  length sum = 32%nat -> salt_ok sum ->
  marshal_n m_layout_nthash [([0%nat], VStr m_nthash_Prefix); ([1%nat], VArr []); ([2%nat], VArr sum)]
  = NOk (canon_nthash sum).
Proof.
  intros Hl Hd. apply in_alpha_fi_none in Hd.
  assert (first_invalid EncHash [] = None) as Hnil by reflexivity.
  marshal_eval ti_nthash TI_nthash. reflexivity.
Qed.

Lemma recog_nthash_canon sum :
  length sum = 32%nat -> salt_ok sum -> recog_nthash (canon_nthash sum) = Some (mk_r [] [] [] false sum).
Proof.
  intros Hl Hd. unfold recog_nthash, canon_nthash. rewrite has_prefix_app.
  rewrite (skipn_len_app m_nthash_Prefix _ 3 eq_refl). cbv zeta.
  rewrite has_comma_cons_dollar, (valid_no_comma _ Hd).
  unfold plain_frags. change (pieces dollar [] (dollar :: sum)) with ([] :: pieces dollar [] sum).
  rewrite pieces_last by (try (apply valid_no_dollar; exact Hd); eapply length_nonnil; exact Hl).
  unfold slen. rewrite Hd, Hl. reflexivity.
Qed.

Lemma nthash_check_canon L kdf nt pw key :
  (forall bs ns k, kdf T_nthash bs ns = Some k -> length k = 16%nat) ->
  key_nthash L kdf (nt pw) = KOk key -> wf_bytes key = true ->
  check_nthash L kdf nt (canon_nthash (hex_encode key)) pw = VMatch.
Proof.
  intros Hk Hkey Hw. apply class_of_0. rewrite (nthash_classified L kdf nt _ pw Hk). unfold spec_nthash.
  rewrite recog_nthash_canon; [|apply hex_16; eapply key_nthash_len; eauto|apply hex_valid, hex_over, Hw].
  cbn [mk_r r_sum]. rewrite Hkey. apply class_key_ok.
Qed.

Lemma nthash_prefix rest : prefix_of (m_nthash_Prefix ++ rest) = Some m_nthash_Prefix.
Proof. reflexivity. Qed.

Section NTHASH.
Variables (kdf : kdf_t) (nt : bytes -> bytes) (pw : bytes).
Hypothesis Hk : kdf_ok kdf T_nthash 16.
Hypothesis Heven : len (nt pw) mod 2 = 0.
Hypothesis Hmax : len (nt pw) <= L_nthash_MaxPw L0.

Lemma nthash_fresh_facts :
  exists key, key_nthash L0 kdf (nt pw) = KOk key /\ length key = 16%nat /\ wf_bytes key = true /\
              newhash_nthash L0 kdf nt pw = NOk (canon_nthash (hex_encode key)).
Proof.
  assert (key_nthash L0 kdf (nt pw) = run_kdf kdf T_nthash [nt pw] []) as Ekey.
  { unfold key_nthash. cbv zeta. rewrite Heven. change (negb (0 =? 0)) with false.
    destruct (L_nthash_MaxPw L0 <? len (nt pw)) eqn:E. apply Z.ltb_lt in E. lia. reflexivity. }
  destruct (kdf_ok_run kdf T_nthash 16 [nt pw] [] Hk) as (key & Er & Hl & Hw).
  exists key. rewrite Ekey. repeat (split; [assumption|]).
  unfold newhash_nthash. rewrite Ekey, Er.
  rewrite fit0_exact by (apply hex_16, Hl).
  apply marshal_nthash; [apply hex_16, Hl|apply hex_valid, hex_over, Hw].
Qed.

Theorem nthash_canonical :
  exists key, key_nthash L0 kdf (nt pw) = KOk key /\
    newhash_nthash L0 kdf nt pw = NOk (canon_nthash (hex_encode key)) /\
    len (hex_encode key) = m_nthash_sumLength /\ over hex_alphabet (hex_encode key).
Proof.
  destruct nthash_fresh_facts as (key & Ek & Hl & Hw & En). exists key.
  split. exact Ek. split. exact En.
  split. unfold len. rewrite (hex_16 key Hl). reflexivity.
  apply hex_over, Hw.
Qed.

Theorem nthash_fresh_verifies :
  exists h, newhash_nthash L0 kdf nt pw = NOk h /\ check_nthash L0 kdf nt h pw = VMatch /\
            prefix_of h = Some m_nthash_Prefix /\ In (m_nthash_Prefix, S_nthash) documented_registrations.
Proof.
  destruct nthash_fresh_facts as (key & Ek & Hl & Hw & En).
  exists (canon_nthash (hex_encode key)). split. exact En.
  split. apply nthash_check_canon; auto. apply (kdf_ok_len _ _ _ Hk).
  split. apply nthash_prefix. cbn. tauto.
Qed.

(* nthash has no Params; the reassembly statement has only the key *)
Theorem nthash_reassemble : forall h key,
  newhash_nthash L0 kdf nt pw = NOk h -> key_nthash L0 kdf (nt pw) = KOk key -> h = canon_nthash (hex_encode key).
Proof.
  intros h key Eh Ek. destruct nthash_fresh_facts as (key' & Ek' & _ & _ & En).
  rewrite Ek in Ek'. injection Ek' as <-. rewrite En in Eh. injection Eh as <-. reflexivity.
Qed.
End NTHASH.

Print Assumptions md5_fresh_verifies.
Print Assumptions md5_canonical.
Print Assumptions md5_params_of_fresh.
Print Assumptions md5_reassemble.
Print Assumptions sha256_fresh_verifies.
Print Assumptions sha256_canonical.
Print Assumptions sha256_params_of_fresh.
Print Assumptions sha256_reassemble.
Print Assumptions sha512_fresh_verifies.
Print Assumptions sha512_canonical.
Print Assumptions sha512_params_of_fresh.
Print Assumptions sha512_reassemble.
Print Assumptions sha1_fresh_verifies.
Print Assumptions sha1_canonical.
Print Assumptions sha1_params_of_fresh.
Print Assumptions sha1_reassemble.
Print Assumptions sha1_random_fresh_verifies.
Print Assumptions sha1_random_canonical.
Print Assumptions sha1_random_params_of_fresh.
Print Assumptions sha1_random_reassemble.
Print Assumptions des_fresh_verifies.
Print Assumptions des_canonical.
Print Assumptions des_params_of_fresh.
Print Assumptions des_reassemble.
Print Assumptions desext_fresh_verifies.
Print Assumptions desext_canonical.
Print Assumptions desext_params_of_fresh.
Print Assumptions desext_reassemble.
Print Assumptions nthash_fresh_verifies.
Print Assumptions nthash_canonical.
Print Assumptions nthash_reassemble.
