(* C14: the domain of every Key function as a conjunction over the exported limits, and what a rejection
   must report.  Specification only (no reference to the order of tests in Keys.v except in [first_error]). *)
Require Import GC.Base.Bytes GC.Codec.Types GC.Codec.Marshal GC.Schemes.Consts GC.Schemes.Keys.

Definition all_hash (s : bytes) : bool := forallb (valid_char EncHash) s.
Definition all_b64 (s : bytes) : bool := forallb (valid_char EncBase64) s.
Definition bcrypt_prefix_ok (p : bytes) : bool :=
  bytes_eqb p m_bcrypt_Prefix2 || bytes_eqb p m_bcrypt_Prefix2a || bytes_eqb p m_bcrypt_Prefix2b.
Definition sunmd5_prefix_ok (p : bytes) : bool :=
  bytes_eqb p m_sunmd5_PrefixNonZeroRounds || bytes_eqb p m_sunmd5_PrefixZeroRounds.
Definition argon2_prefix_ok (p : bytes) : bool :=
  bytes_eqb p m_argon2_Prefix2d || bytes_eqb p m_argon2_Prefix2i || bytes_eqb p m_argon2_Prefix2id.

Section D.
Variable L : limits.

Definition dom_md5 (pw salt : bytes) : bool := (len salt <=? L_md5_MaxSalt L) && all_hash salt.
Definition dom_sha256 (pw salt : bytes) (r : Z) : bool :=
  (len salt <=? L_sha256_MaxSalt L) && all_hash salt && (L_sha256_MinRounds L <=? r) && (r <=? L_sha256_MaxRounds L).
Definition dom_sha512 (pw salt : bytes) (r : Z) : bool :=
  (len salt <=? L_sha512_MaxSalt L) && all_hash salt && (L_sha512_MinRounds L <=? r) && (r <=? L_sha512_MaxRounds L).
(* rr: the round count drawn when RandomRounds is requested *)
Definition dom_sha1 (rr : Z) (pw salt : bytes) (r : Z) : bool :=
  (len salt <=? L_sha1_MaxSalt L) && all_hash salt
  && (L_sha1_MinRounds L <=? (if r =? L_sha1_RandomRounds L then rr else r)).
Definition dom_sunmd5 (pw salt : bytes) (r : Z) (opts : option (bytes * bool)) : bool :=
  (len pw <=? L_sunmd5_MaxPw L) && (len salt <=? L_sunmd5_MaxSalt L) && all_hash salt && (r <=? L_sunmd5_MaxRounds L)
  && match opts with Some (p, _) => sunmd5_prefix_ok p | None => true end.
Definition dom_des (pw salt : bytes) : bool :=
  (len pw <=? L_des_MaxPw L) && (len salt =? L_des_Salt L) && all_hash salt.
Definition dom_desext (pw salt : bytes) (r : Z) : bool :=
  (len salt =? L_desext_Salt L) && all_hash salt && (L_desext_MinRounds L <=? r) && (r <=? L_desext_MaxRounds L).
(* the clause on the empty $2$ password is the ruling of DESIGN.md §5.2 (Eksblowfish is undefined for an empty key) *)
Definition dom_bcrypt (pw salt : bytes) (c : Z) (opts : option bytes) : bool :=
  match opts with Some p => bcrypt_prefix_ok p | None => true end
  && (len salt =? L_bcrypt_Salt L) && all_hash salt && (L_bcrypt_MinCost L <=? c) && (c <=? L_bcrypt_MaxCost L)
  && negb (match opts with Some p => bytes_eqb p m_bcrypt_Prefix2 | None => false end
           && match pw with [] => true | _ => false end).

Definition dom_nthash (enc : bytes) : bool := (len enc mod 2 =? 0) && (len enc <=? L_nthash_MaxPw L).
Definition dom_argon2 (pw salt : bytes) (m t th : Z) (opts : option (bytes * Z)) : bool :=
  match opts with
  | Some (p, v) => argon2_prefix_ok p && ((v =? m_argon2_Version10) || (v =? m_argon2_Version13))
  | None => true
  end
  && (L_argon2_MinSalt L <=? len salt) && all_b64 salt
  && (L_argon2_MinMemory L <=? m) && (L_argon2_MinTime L <=? t) && (L_argon2_MinThreads L <=? th).
End D.

Definition is_kok (k : kres) : bool := match k with KOk _ => true | KErr _ => false end.
(* a derivation that always answers (the real KDFs are total on validated arguments) *)
Definition total_kdf (kdf : kdf_t) : Prop := forall tag bs ns, exists k, kdf tag bs ns = Some k.

(* ---- the documented guards as a table: (holds?, typed error carrying the offending value), in order ---- *)
Definition bad_byte (e : enc_kind) (s : bytes) : Z := match first_invalid e s with Some c => c | None => 0 end.
Definition guard := (bool * kerr)%type.
Definition first_failing (gs : list guard) : option kerr :=
  match find (fun g => negb (fst g)) gs with Some g => Some (snd g) | None => None end.

Section G.
Variable L : limits.
Definition guards_md5 (pw salt : bytes) : list guard :=
  [(len salt <=? L_md5_MaxSalt L, KInvalidSaltLength (len salt));
   (all_hash salt, KInvalidSalt (bad_byte EncHash salt))].
Definition guards_sha2 (maxsalt minr maxr : Z) (pw salt : bytes) (r : Z) : list guard :=
  [(len salt <=? maxsalt, KInvalidSaltLength (len salt));
   (all_hash salt, KInvalidSalt (bad_byte EncHash salt));
   ((minr <=? r) && (r <=? maxr), KInvalidRounds r)].
Definition guards_sha1 (rr : Z) (pw salt : bytes) (r : Z) : list guard :=
  let r' := if r =? L_sha1_RandomRounds L then rr else r in
  [(len salt <=? L_sha1_MaxSalt L, KInvalidSaltLength (len salt));
   (all_hash salt, KInvalidSalt (bad_byte EncHash salt));
   (L_sha1_MinRounds L <=? r', KInvalidRounds r')].
Definition guards_sunmd5 (pw salt : bytes) (r : Z) (opts : option (bytes * bool)) : list guard :=
  [(len pw <=? L_sunmd5_MaxPw L, KInvalidPasswordLength (len pw));
   (len salt <=? L_sunmd5_MaxSalt L, KInvalidSaltLength (len salt));
   (all_hash salt, KInvalidSalt (bad_byte EncHash salt));
   (r <=? L_sunmd5_MaxRounds L, KInvalidRounds r);
   (match opts with Some (p, _) => sunmd5_prefix_ok p | None => true end,
    KUnsupportedPrefix (match opts with Some (p, _) => p | None => [] end))].
Definition guards_des (pw salt : bytes) : list guard :=
  [(len pw <=? L_des_MaxPw L, KInvalidPasswordLength (len pw));
   (len salt =? L_des_Salt L, KInvalidSaltLength (len salt));
   (all_hash salt, KInvalidSalt (bad_byte EncHash salt))].
Definition guards_desext (pw salt : bytes) (r : Z) : list guard :=
  [(len salt =? L_desext_Salt L, KInvalidSaltLength (len salt));
   (all_hash salt, KInvalidSalt (bad_byte EncHash salt));
   ((L_desext_MinRounds L <=? r) && (r <=? L_desext_MaxRounds L), KInvalidRounds r)].
Definition guards_bcrypt (pw salt : bytes) (c : Z) (opts : option bytes) : list guard :=
  [(match opts with Some p => bcrypt_prefix_ok p | None => true end,
    KUnsupportedPrefix (match opts with Some p => p | None => [] end));
   (len salt =? L_bcrypt_Salt L, KInvalidSaltLength (len salt));
   (all_hash salt, KInvalidSalt (bad_byte EncHash salt));
   ((L_bcrypt_MinCost L <=? c) && (c <=? L_bcrypt_MaxCost L), KInvalidCost c);
   (negb (match opts with Some p => bytes_eqb p m_bcrypt_Prefix2 | None => false end
          && match pw with [] => true | _ => false end), KOther)].
Definition guards_nthash (enc : bytes) : list guard :=
  [((len enc mod 2 =? 0) && (len enc <=? L_nthash_MaxPw L), KInvalidPasswordLength (len enc))].
Definition guards_argon2 (pw salt : bytes) (m t th : Z) (opts : option (bytes * Z)) : list guard :=
  [(match opts with Some (p, _) => argon2_prefix_ok p | None => true end,
    KUnsupportedPrefix (match opts with Some (p, _) => p | None => [] end));
   (match opts with Some (_, v) => (v =? m_argon2_Version10) || (v =? m_argon2_Version13) | None => true end,
    KUnsupportedVersion (match opts with Some (_, v) => v | None => 0 end));
   (L_argon2_MinSalt L <=? len salt, KInvalidSaltLength (len salt));
   (all_b64 salt, KInvalidSalt (bad_byte EncBase64 salt));
   (L_argon2_MinMemory L <=? m, KInvalidMemory m);
   (L_argon2_MinTime L <=? t, KInvalidTime t);
   (L_argon2_MinThreads L <=? th, KInvalidThreads th)].
End G.

(* what it means for Key to implement a guard table: reject with the first failing guard's error, before
   deriving anything; otherwise derive *)
Definition implements (k : kdf_t -> kres) (gs : list guard) : Prop :=
  match first_failing gs with
  | Some e => forall kdf, k kdf = KErr e
  | None => forall kdf, (exists key, k kdf = KOk key) \/ k kdf = KErr KMissing
  end.
