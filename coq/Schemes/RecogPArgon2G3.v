(* argon2, fragment shape [group; salt; digest] *)
Require Import GC.Schemes.RecogPBase GC.Schemes.RecogPPlain GC.Schemes.RecogPStr GC.Schemes.RecogPGroups GC.Schemes.RecogPArgon2.

Lemma argon2_good3 L kdf pre n body pw :
  parse (pre ++ body) = POk (body_tree (Some pre) n body) ->
  In pre [p_argon2d; p_argon2i; p_argon2id] ->
  good3 (sc [] n n body None) -> argon2_stmt L kdf pre body pw.
Proof.
  intros HP Hin (g & [p2 t2] & [p3 t3] & El).
  argon2_open HP Hin n body pre. rewrite El. intros HR HL.
  pieces_facts HR HL body. argon2_rhs pre Hin.
  split_group.
  all: try match goal with |- _ = 2%nat => solve [crunchA; reflexivity] end.
  kinds; try kinds; try kinds; rewrite ?in_alpha_fi; unfold member_by.
  all: crunchA. all: try reflexivity. all: try apply argon2_finish.
Qed.
