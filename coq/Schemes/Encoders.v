(* Encoders the scheme packages use besides base64le: encoding/base64 (big-endian, unpadded) over a given
   alphabet, its lenient Decode as bcrypt/argon2 call it (errors ignored), and hex.  Definitions only.
   These are models of standard-library code (trusted base), validated by the scheme correspondences. *)
Require Import GC.Base.Bytes GC.B64.B64Model.

Definition asym (alpha : bytes) (i : Z) : Z := nth (Z.to_nat i) alpha 0.

Fixpoint be64_encode (alpha : bytes) (src : bytes) : bytes :=
  match src with
  | [] => []
  | b0 :: b1 :: b2 :: r =>
    asym alpha (b0 / 4) :: asym alpha ((b0 mod 4) * 16 + b1 / 16)
      :: asym alpha ((b1 mod 16) * 4 + b2 / 64) :: asym alpha (b2 mod 64) :: be64_encode alpha r
  | [b0; b1] =>
    [asym alpha (b0 / 4); asym alpha ((b0 mod 4) * 16 + b1 / 16); asym alpha ((b1 mod 16) * 4)]
  | [b0] =>
    [asym alpha (b0 / 4); asym alpha ((b0 mod 4) * 16)]
  end.

Definition aidx (alpha : bytes) (c : Z) : Z := dmap_from alpha 0 c.

(* Decode of text made of alphabet symbols only (the callers validate that first); a dangling single
   symbol makes the real Decode return an error, which the callers ignore: it contributes no byte *)
Fixpoint be64_decode (alpha : bytes) (s : bytes) : bytes :=
  match s with
  | c0 :: c1 :: c2 :: c3 :: r =>
    let d0 := aidx alpha c0 in let d1 := aidx alpha c1 in let d2 := aidx alpha c2 in let d3 := aidx alpha c3 in
    (d0 * 4 + d1 / 16) :: ((d1 mod 16) * 16 + d2 / 4) :: ((d2 mod 4) * 64 + d3) :: be64_decode alpha r
  | [c0; c1; c2] =>
    let d0 := aidx alpha c0 in let d1 := aidx alpha c1 in let d2 := aidx alpha c2 in
    [d0 * 4 + d1 / 16; (d1 mod 16) * 16 + d2 / 4]
  | [c0; c1] =>
    let d0 := aidx alpha c0 in let d1 := aidx alpha c1 in [d0 * 4 + d1 / 16]
  | _ => []
  end.

Definition hex_digit (d : Z) : Z := if d <? 10 then 48 + d else 87 + d.
Definition hex_encode (src : bytes) : bytes := flat_map (fun b => [hex_digit (b / 16); hex_digit (b mod 16)]) src.

(* Encode(dst[:n], src): the encoder writes len(enc) bytes into a zeroed array of n bytes; None = it would
   write past the end (index out of range panic) *)
Definition fit (n : nat) (enc : bytes) : option bytes :=
  if Nat.ltb n (length enc) then None else Some (enc ++ repeat 0 (n - length enc)).
