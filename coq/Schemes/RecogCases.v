(* C06 stated per scheme: the class of Check's verdict (0 = nil, 1 = mismatch sentinel, 2 = anything else)
   against the independent recogniser (Schemes/Recognisers.v) followed by the Key guards and the documented
   digest encoding.  Boolean tests of the same statement for the case files.  Definitions only. *)
Require Import GC.Base.Bytes GC.Base.CaseLib GC.Codec.Types GC.Codec.Codec GC.B64.B64Model GC.Schemes.Consts GC.Schemes.Keys
               GC.Schemes.Encoders GC.Schemes.Checks GC.Schemes.SchemeCases GC.Schemes.Recognisers.

Definition class_of (v : verdict) : nat := match v with VMatch => 0 | VMismatch => 1 | _ => 2 end.

(* class of a recognised hash: the guards of Key, then the digest comparison *)
Definition class_key (enc : bytes -> bytes) (k : kres) (sum : bytes) : nat :=
  match k with
  | KErr _ => 2
  | KOk key => if bytes_eqb (enc key) sum then 0 else 1
  end.
Definition num0 (r : rfields) : Z := nth 0 (r_nums r) 0.

Section S.
Variable L : limits.
Variable kdf : kdf_t.

Definition spec_md5 (h pw : bytes) : nat :=
  match recog_md5 h with
  | None => 2
  | Some r => class_key le64 (key_md5 L kdf pw (r_salt r)) (r_sum r)
  end.
Definition spec_sha256 (h pw : bytes) : nat :=
  match recog_sha256 h with
  | None => 2
  | Some r => class_key le64 (key_sha256 L kdf pw (r_salt r) (num0 r)) (r_sum r)
  end.
Definition spec_sha512 (h pw : bytes) : nat :=
  match recog_sha512 h with
  | None => 2
  | Some r => class_key le64 (key_sha512 L kdf pw (r_salt r) (num0 r)) (r_sum r)
  end.
Definition spec_sha1 (rr : Z) (h pw : bytes) : nat :=
  match recog_sha1 h with
  | None => 2
  | Some r => class_key le64 (key_sha1 L kdf rr pw (r_salt r) (num0 r)) (r_sum r)
  end.
Definition spec_sunmd5 (h pw : bytes) : nat :=
  match recog_sunmd5 h with
  | None => 2
  | Some r => class_key le64 (key_sunmd5 L kdf pw (r_salt r) (num0 r) (Some (r_prefix r, r_flag r))) (r_sum r)
  end.
Definition spec_des (h pw : bytes) : nat :=
  match recog_des h with
  | None => 2
  | Some r => class_key be64 (key_des L kdf pw (r_salt r)) (r_sum r)
  end.
Definition spec_desext (h pw : bytes) : nat :=
  match recog_desext h with
  | None => 2
  | Some r => class_key be64 (key_desext L kdf pw (r_salt r) (num0 r)) (r_sum r)
  end.
Definition spec_bcrypt (h pw : bytes) : nat :=
  match recog_bcrypt h with
  | None => 2
  | Some r => class_key (be64_encode bcrypt_std_alphabet)
                        (key_bcrypt L kdf pw (r_salt r) (num0 r) (Some (r_prefix r))) (r_sum r)
  end.
Definition spec_nthash (nt_encode : bytes -> bytes) (h pw : bytes) : nat :=
  match recog_nthash h with
  | None => 2
  | Some r => class_key hex_encode (key_nthash L kdf (nt_encode pw)) (r_sum r)
  end.
Definition spec_argon2 (h pw : bytes) : nat :=
  match recog_argon2 h with
  | None => 2
  | Some r => class_key (be64_encode base64_std_alphabet)
                        (key_argon2 L kdf pw (r_salt r) (nth 0 (r_nums r) 0) (nth 1 (r_nums r) 0) (nth 2 (r_nums r) 0)
                                    (Some (r_prefix r, nth 3 (r_nums r) 0))) (r_sum r)
  end.

Definition test_md5 (h pw : bytes) : bool := Nat.eqb (class_of (check_md5 L kdf h pw)) (spec_md5 h pw).
Definition test_sha256 (h pw : bytes) : bool := Nat.eqb (class_of (check_sha256 L kdf h pw)) (spec_sha256 h pw).
Definition test_sha512 (h pw : bytes) : bool := Nat.eqb (class_of (check_sha512 L kdf h pw)) (spec_sha512 h pw).
Definition test_sha1 (rr : Z) (h pw : bytes) : bool := Nat.eqb (class_of (check_sha1 L kdf rr h pw)) (spec_sha1 rr h pw).
Definition test_sunmd5 (h pw : bytes) : bool := Nat.eqb (class_of (check_sunmd5 L kdf h pw)) (spec_sunmd5 h pw).
Definition test_des (h pw : bytes) : bool := Nat.eqb (class_of (check_des L kdf h pw)) (spec_des h pw).
Definition test_desext (h pw : bytes) : bool := Nat.eqb (class_of (check_desext L kdf h pw)) (spec_desext h pw).
Definition test_bcrypt (h pw : bytes) : bool := Nat.eqb (class_of (check_bcrypt L kdf h pw)) (spec_bcrypt h pw).
Definition test_nthash (nt : bytes -> bytes) (h pw : bytes) : bool :=
  Nat.eqb (class_of (check_nthash L kdf nt h pw)) (spec_nthash nt h pw).
Definition test_argon2 (h pw : bytes) : bool := Nat.eqb (class_of (check_argon2 L kdf h pw)) (spec_argon2 h pw).
End S.

Definition test_by_tag (L : limits) (kdf : kdf_t) (nt : bytes -> bytes) (rr : Z) (tag : Z) (h pw : bytes) : bool :=
  if tag =? T_md5 then test_md5 L kdf h pw
  else if tag =? T_sha256 then test_sha256 L kdf h pw
  else if tag =? T_sha512 then test_sha512 L kdf h pw
  else if tag =? T_sha1 then test_sha1 L kdf rr h pw
  else if tag =? T_sunmd5 then test_sunmd5 L kdf h pw
  else if tag =? T_des then test_des L kdf h pw
  else if tag =? T_desext then test_desext L kdf h pw
  else if tag =? T_bcrypt then test_bcrypt L kdf h pw
  else if tag =? T_nthash then test_nthash L kdf nt h pw
  else if tag =? T_argon2 then test_argon2 L kdf h pw
  else false.

(* same case type as ok_check (SchemeCases): tag, hash, password, derivation table, UTF-16LE password, observed
   verdict.  The observed verdict is not used: the test compares the MODEL's class with the recogniser's;
   the model's agreement with the implementation is ok_check's job. *)
Definition test_recog (c : Z * bytes * bytes * list kdf_entry * bytes * verdict) : bool :=
  let '(tag, h, pw, tbl, ntenc, obs) := c in
  test_by_tag committed_limits (mk_kdf tbl) (fun _ => ntenc) 0 tag h pw
  && Nat.eqb (class_of obs) (class_of (check_by_tag committed_limits (mk_kdf tbl) (fun _ => ntenc) 0 tag h pw)).
