(* argon2, every fragment shape other than the two the layout admits: Unmarshal fails and the recogniser
   rejects. *)
Require Import GC.Schemes.RecogPBase GC.Schemes.RecogPPlain GC.Schemes.RecogPStr GC.Schemes.RecogPGroups GC.Schemes.RecogPArgon2.

Lemma argon2_bad L kdf pre n body pw :
  parse (pre ++ body) = POk (body_tree (Some pre) n body) ->
  In pre [p_argon2d; p_argon2i; p_argon2id] ->
  ~ good3 (sc [] n n body None) -> ~ good4 (sc [] n n body None) -> argon2_stmt L kdf pre body pw.
Proof.
  intros HP Hin N3 N4.
  argon2_open HP Hin n body pre. intros HR HL.
  destruct (sc [] n n body None) as [|[[p1 t1]|g1] [|[[p2 t2]|g2] [|[[p3 t3]|g3] [|[[p4 t4]|g4] [|f5 fr]]]]].
  all: try (exfalso; apply N3; unfold good3; eauto; fail).
  all: try (exfalso; apply N4; unfold good4; eauto; fail).
  all: clear N3 N4; pieces_facts HR HL body; argon2_rhs pre Hin.
  all: solve [crunchA; reflexivity].
Qed.
