(* C02 (first sentence): Check succeeds only if the WHOLE stored digest equals the re-encoded key derived from
   the presented password with the hash's own salt, cost and variant; every Unmarshal / Key error returns
   before the comparison.  Model-level proofs (short). *)
Require Import GC.Base.Bytes GC.Codec.Types GC.Codec.Codec GC.B64.B64Model GC.Schemes.Consts GC.Schemes.Layouts
               GC.Schemes.Keys GC.Schemes.Encoders GC.Schemes.Checks.

Lemma finish_match n enc k sum : finish n enc k sum = VMatch ->
  exists key b, k = KOk key /\ fit n (enc key) = Some b /\ b = sum.
Proof.
  unfold finish. destruct k as [key|e]; [|discriminate].
  destruct (fit n (enc key)) as [b|] eqn:E; [|discriminate].
  unfold ct_equal. destruct (bytes_eqb b sum) eqn:Eb; [|discriminate].
  intros _. apply bytes_eqb_eq in Eb. eauto.
Qed.

Lemma finish_cases n enc k sum :
  match finish n enc k sum with
  | VMatch | VMismatch => exists key, k = KOk key
  | VKey e => k = KErr e
  | VPanic => exists key, k = KOk key /\ fit n (enc key) = None
  | VCodec _ => False
  end.
Proof.
  unfold finish. destruct k as [key|e]; [|reflexivity].
  destruct (fit n (enc key)) eqn:E; [|eauto]. destruct (ct_equal _ _); eauto.
Qed.

Lemma with_layout_match st h k : with_layout st h k = VMatch ->
  exists m, unmarshal_top std_cb st h = Ok m /\ k m = VMatch.
Proof. unfold with_layout. destruct (unmarshal_top std_cb st h) as [m|e|]; [eauto|discriminate|discriminate]. Qed.

Section S.
Variable L : limits.
Variable kdf : kdf_t.
Variable nt_encode : bytes -> bytes.
Variable rr : Z.

(* success => the hash unmarshals, Key accepts, and the complete encoded key equals the complete stored digest *)
Theorem md5_sound h pw : check_md5 L kdf h pw = VMatch ->
  exists m key, unmarshal_top std_cb m_layout_md5 h = Ok m /\
    key_md5 L kdf pw (as_bytes (getv [1%nat] m)) = KOk key /\ fit 22 (le64 key) = Some (as_bytes (getv [2%nat] m)).
Proof.
  intros H. apply with_layout_match in H. destruct H as (m & Hm & Hf).
  apply finish_match in Hf. destruct Hf as (key & b & Hk & Hb & ->). eauto.
Qed.
Theorem sha256_sound h pw : check_sha256 L kdf h pw = VMatch ->
  exists m key, unmarshal_top std_cb m_layout_sha256 h = Ok m /\
    key_sha256 L kdf pw (as_bytes (getv [2%nat] m)) (sha2_rounds m_sha256_ImplicitRounds m) = KOk key /\
    fit 43 (le64 key) = Some (as_bytes (getv [3%nat] m)).
Proof.
  intros H. apply with_layout_match in H. destruct H as (m & Hm & Hf).
  apply finish_match in Hf. destruct Hf as (key & b & Hk & Hb & ->). eauto.
Qed.
Theorem sha512_sound h pw : check_sha512 L kdf h pw = VMatch ->
  exists m key, unmarshal_top std_cb m_layout_sha512 h = Ok m /\
    key_sha512 L kdf pw (as_bytes (getv [2%nat] m)) (sha2_rounds m_sha512_ImplicitRounds m) = KOk key /\
    fit 86 (le64 key) = Some (as_bytes (getv [3%nat] m)).
Proof.
  intros H. apply with_layout_match in H. destruct H as (m & Hm & Hf).
  apply finish_match in Hf. destruct Hf as (key & b & Hk & Hb & ->). eauto.
Qed.
Theorem sha1_sound h pw : check_sha1 L kdf rr h pw = VMatch ->
  exists m key, unmarshal_top std_cb m_layout_sha1 h = Ok m /\
    key_sha1 L kdf rr pw (as_bytes (getv [2%nat] m)) (as_z (getv [1%nat] m)) = KOk key /\
    fit 28 (le64 key) = Some (as_bytes (getv [3%nat] m)).
Proof.
  intros H. apply with_layout_match in H. destruct H as (m & Hm & Hf).
  apply finish_match in Hf. destruct Hf as (key & b & Hk & Hb & ->). eauto.
Qed.
Theorem sunmd5_sound h pw : check_sunmd5 L kdf h pw = VMatch ->
  exists m key, unmarshal_top std_cb m_layout_sunmd5 h = Ok m /\
    key_sunmd5 L kdf pw (as_bytes (getv [0%nat; 2%nat] m)) (as_z (getv [0%nat; 1%nat] m)) (sunmd5_opts m) = KOk key /\
    fit 22 (le64 key) = Some (as_bytes (getv [1%nat] m)).
Proof.
  intros H. apply with_layout_match in H. destruct H as (m & Hm & Hf).
  apply finish_match in Hf. destruct Hf as (key & b & Hk & Hb & ->). eauto.
Qed.
Theorem des_sound h pw : check_des L kdf h pw = VMatch ->
  exists m key, unmarshal_top std_cb m_layout_des h = Ok m /\
    key_des L kdf pw (as_bytes (getv [1%nat] m)) = KOk key /\ fit 11 (be64 key) = Some (as_bytes (getv [2%nat] m)).
Proof.
  intros H. apply with_layout_match in H. destruct H as (m & Hm & Hf).
  apply finish_match in Hf. destruct Hf as (key & b & Hk & Hb & ->). eauto.
Qed.
Theorem desext_sound h pw : check_desext L kdf h pw = VMatch ->
  exists m key, unmarshal_top std_cb m_layout_desext h = Ok m /\
    key_desext L kdf pw (as_bytes (getv [2%nat] m)) (as_z (getv [1%nat] m)) = KOk key /\
    fit 11 (be64 key) = Some (as_bytes (getv [3%nat] m)).
Proof.
  intros H. apply with_layout_match in H. destruct H as (m & Hm & Hf).
  apply finish_match in Hf. destruct Hf as (key & b & Hk & Hb & ->). eauto.
Qed.
Theorem bcrypt_sound h pw : check_bcrypt L kdf h pw = VMatch ->
  exists m key, unmarshal_top std_cb m_layout_bcrypt h = Ok m /\
    key_bcrypt L kdf pw (as_bytes (getv [2%nat] m)) (as_z (getv [1%nat] m)) (Some (as_bytes (getv [0%nat] m))) = KOk key /\
    fit 31 (be64_encode bcrypt_std_alphabet key) = Some (as_bytes (getv [3%nat] m)).
Proof.
  intros H. apply with_layout_match in H. destruct H as (m & Hm & Hf).
  apply finish_match in Hf. destruct Hf as (key & b & Hk & Hb & ->). eauto.
Qed.
Theorem nthash_sound h pw : check_nthash L kdf nt_encode h pw = VMatch ->
  exists m key, unmarshal_top std_cb m_layout_nthash h = Ok m /\
    key_nthash L kdf (nt_encode pw) = KOk key /\ fit 32 (hex_encode key) = Some (as_bytes (getv [2%nat] m)).
Proof.
  intros H. apply with_layout_match in H. destruct H as (m & Hm & Hf).
  apply finish_match in Hf. destruct Hf as (key & b & Hk & Hb & ->). eauto.
Qed.
Theorem argon2_sound h pw : check_argon2 L kdf h pw = VMatch ->
  exists m key, unmarshal_top std_cb m_layout_argon2 h = Ok m /\
    key_argon2 L kdf pw (as_bytes (getv [5%nat] m)) (as_z (getv [2%nat] m)) (as_z (getv [3%nat] m)) (as_z (getv [4%nat] m))
               (Some (as_bytes (getv [0%nat] m), argon2_version m)) = KOk key /\
    be64_encode base64_std_alphabet key = as_bytes (getv [6%nat] m).
Proof.
  intros H. apply with_layout_match in H. destruct H as (m & Hm & Hf).
  destruct (key_argon2 _ _ _ _ _ _ _ _) as [key|e] eqn:Ek; [|discriminate].
  unfold ct_equal in Hf. destruct (bytes_eqb _ _) eqn:Eb; [|discriminate].
  apply bytes_eqb_eq in Eb. eauto.
Qed.

(* a derivation result whose encoding differs never gives success (the conditional clause of C02: the
   hypothesis about the derivation is explicit; encodings of keys of one scheme have one length) *)
Theorem finish_differs n enc k1 k2 sum :
  finish n enc (KOk k1) sum = VMatch -> length (enc k1) = length (enc k2) -> enc k1 <> enc k2 ->
  finish n enc (KOk k2) sum <> VMatch.
Proof.
  intros H1 Hlen Hne H2. apply finish_match in H1. apply finish_match in H2.
  destruct H1 as (a & b & Ha & Hb & <-). destruct H2 as (c & d & Hc & Hd & Hdb).
  inversion Ha; inversion Hc; subst a c. clear Ha Hc. unfold fit in *.
  destruct (Nat.ltb n (length (enc k1))) eqn:E1; [discriminate|].
  destruct (Nat.ltb n (length (enc k2))) eqn:E2; [discriminate|].
  assert (Heq : enc k2 ++ repeat 0 (n - length (enc k2)) = enc k1 ++ repeat 0 (n - length (enc k1))) by congruence.
  apply Hne.
  assert (Hf : firstn (length (enc k2)) (enc k2 ++ repeat 0 (n - length (enc k2)))
             = firstn (length (enc k2)) (enc k1 ++ repeat 0 (n - length (enc k1)))) by (rewrite Heq; reflexivity).
  rewrite firstn_app_exact in Hf. rewrite <- Hlen in Hf. rewrite firstn_app_exact in Hf. symmetry. exact Hf.
Qed.
End S.
