(* Case evaluation for C14: the guard prefix of every Key function against the generated limits. *)
Require Import GC.Base.Bytes GC.Base.CaseLib GC.Schemes.Consts GC.Schemes.Keys GC.Schemes.SchemeCases GC.Schemes.GenLimits.

Definition key_by_tag (L : limits) (kdf : kdf_t) (rr : Z) (tag : Z) (bs : list bytes) (ns : list Z) (opts : option (bytes * Z)) : kres :=
  let b k := nth k bs [] in let n k := nth k ns 0 in
  if tag =? T_md5 then key_md5 L kdf (b 0%nat) (b 1%nat)
  else if tag =? T_sha256 then key_sha256 L kdf (b 0%nat) (b 1%nat) (n 0%nat)
  else if tag =? T_sha512 then key_sha512 L kdf (b 0%nat) (b 1%nat) (n 0%nat)
  else if tag =? T_sha1 then key_sha1 L kdf rr (b 0%nat) (b 1%nat) (n 0%nat)
  else if tag =? T_sunmd5 then key_sunmd5 L kdf (b 0%nat) (b 1%nat) (n 0%nat)
                                 (match opts with Some (p, f) => Some (p, negb (f =? 0)) | None => None end)
  else if tag =? T_des then key_des L kdf (b 0%nat) (b 1%nat)
  else if tag =? T_desext then key_desext L kdf (b 0%nat) (b 1%nat) (n 0%nat)
  else if tag =? T_bcrypt then key_bcrypt L kdf (b 0%nat) (b 1%nat) (n 0%nat)
                                 (match opts with Some (p, _) => Some p | None => None end)
  else if tag =? T_nthash then key_nthash L kdf (b 0%nat)
  else if tag =? T_argon2 then key_argon2 L kdf (b 0%nat) (b 1%nat) (n 0%nat) (n 1%nat) (n 2%nat) opts
  else KErr KMissing.

(* observed: None = a key was returned, Some e = the typed error *)
Definition ok_key (c : Z * list bytes * list Z * option (bytes * Z) * option kerr) : bool :=
  let '(tag, bs, ns, opts, obs) := c in
  match key_by_tag gen_limits (fun _ _ _ => Some []) 1 tag bs ns opts, obs with
  | KOk _, None => true
  | KErr e, Some e' => kerr_eqb e e'
  | _, _ => false
  end.
