(* Models of Check / Params / Salt of the ten scheme packages: Unmarshal into the shipped layout, implicit
   defaults, Key (guards + abstract derivation), re-encoding, comparison.  Definitions only. *)
Require Import GC.Base.Bytes GC.Base.CaseLib GC.Codec.Types GC.Codec.TypeInfo GC.Codec.Marshal GC.Codec.Unmarshal
               GC.Codec.Codec GC.B64.B64Model GC.Schemes.Consts GC.Schemes.Layouts GC.Schemes.Keys GC.Schemes.Encoders.

(* outcome of Check *)
Inductive verdict :=
| VMatch                          (* nil *)
| VMismatch                       (* crypt.ErrPasswordMismatch *)
| VCodec (e : cerr)               (* an error from hash.Unmarshal *)
| VKey (e : kerr)                 (* a typed error from Key *)
| VPanic.

Definition le_enc : encoding := {| e_alpha := crypt_alphabet; e_pad := None; e_strict := false |}.
Definition le64 (k : bytes) : bytes := encode le_enc k.
Definition be64 (k : bytes) : bytes := be64_encode crypt_alphabet k.

Definition getv (p : list nat) (m : list (list nat * fval)) : fval :=
  match lookup_path p m with Some v => v | None => VNil end.
Definition as_bytes (v : fval) : bytes := match v with VStr s | VBytes s | VArr s => s | _ => [] end.
Definition as_z (v : fval) : Z := match v with VInt z | VUint z => z | _ => 0 end.

(* subtle.ConstantTimeCompare: 1 iff equal length and content *)
Definition ct_equal (a b : bytes) : bool := bytes_eqb a b.

Definition finish (n : nat) (enc : bytes -> bytes) (k : kres) (sum : bytes) : verdict :=
  match k with
  | KErr e => VKey e
  | KOk key => match fit n (enc key) with
               | None => VPanic
               | Some b => if ct_equal b sum then VMatch else VMismatch
               end
  end.

Definition with_layout (st : list sfield) (h : bytes) (k : list (list nat * fval) -> verdict) : verdict :=
  match unmarshal_top std_cb st h with
  | Ok m => k m
  | Err e => VCodec e
  | Panic => VPanic
  end.

Section C.
Variable L : limits.
Variable kdf : kdf_t.
Variable nt_encode : bytes -> bytes.     (* nthash.encodePassword: UTF-8 string -> UTF-16LE bytes *)
Variable rr : Z.                         (* what sha1.randRounds() draws *)

Definition check_md5 (h pw : bytes) : verdict :=
  with_layout m_layout_md5 h (fun m =>
    finish 22 le64 (key_md5 L kdf pw (as_bytes (getv [1%nat] m))) (as_bytes (getv [2%nat] m))).

Definition sha2_rounds (implicit : Z) (m : list (list nat * fval)) : Z :=
  let r := as_z (getv [1%nat] m) in if r =? 0 then implicit else r.
Definition check_sha256 (h pw : bytes) : verdict :=
  with_layout m_layout_sha256 h (fun m =>
    finish 43 le64 (key_sha256 L kdf pw (as_bytes (getv [2%nat] m)) (sha2_rounds m_sha256_ImplicitRounds m))
           (as_bytes (getv [3%nat] m))).
Definition check_sha512 (h pw : bytes) : verdict :=
  with_layout m_layout_sha512 h (fun m =>
    finish 86 le64 (key_sha512 L kdf pw (as_bytes (getv [2%nat] m)) (sha2_rounds m_sha512_ImplicitRounds m))
           (as_bytes (getv [3%nat] m))).

Definition check_sha1 (h pw : bytes) : verdict :=
  with_layout m_layout_sha1 h (fun m =>
    finish 28 le64 (key_sha1 L kdf rr pw (as_bytes (getv [2%nat] m)) (as_z (getv [1%nat] m)))
           (as_bytes (getv [3%nat] m))).

(* sunmd5: scheme{saltScheme{HashPrefix,Rounds,Salt,Separator}; Sum} *)
Definition sunmd5_opts (m : list (list nat * fval)) : option (bytes * bool) :=
  Some (as_bytes (getv [0%nat; 0%nat] m), match getv [0%nat; 3%nat] m with VNil => true | _ => false end).
Definition check_sunmd5 (h pw : bytes) : verdict :=
  with_layout m_layout_sunmd5 h (fun m =>
    finish 22 le64 (key_sunmd5 L kdf pw (as_bytes (getv [0%nat; 2%nat] m)) (as_z (getv [0%nat; 1%nat] m)) (sunmd5_opts m))
           (as_bytes (getv [1%nat] m))).

Definition check_des (h pw : bytes) : verdict :=
  with_layout m_layout_des h (fun m =>
    finish 11 be64 (key_des L kdf pw (as_bytes (getv [1%nat] m))) (as_bytes (getv [2%nat] m))).
Definition check_desext (h pw : bytes) : verdict :=
  with_layout m_layout_desext h (fun m =>
    finish 11 be64 (key_desext L kdf pw (as_bytes (getv [2%nat] m)) (as_z (getv [1%nat] m)))
           (as_bytes (getv [3%nat] m))).

Definition check_bcrypt (h pw : bytes) : verdict :=
  with_layout m_layout_bcrypt h (fun m =>
    finish 31 (be64_encode bcrypt_std_alphabet)
           (key_bcrypt L kdf pw (as_bytes (getv [2%nat] m)) (as_z (getv [1%nat] m)) (Some (as_bytes (getv [0%nat] m))))
           (as_bytes (getv [3%nat] m))).

Definition check_nthash (h pw : bytes) : verdict :=
  with_layout m_layout_nthash h (fun m =>
    finish 32 hex_encode (key_nthash L kdf (nt_encode pw)) (as_bytes (getv [2%nat] m))).

(* argon2: HashPrefix, Version (v, omitempty), Memory, Time, Threads, Salt, Sum; the encoded key is compared
   with Sum as a slice of whatever length *)
Definition argon2_version (m : list (list nat * fval)) : Z :=
  let v := as_z (getv [1%nat] m) in if v =? 0 then m_argon2_Version10 else v.
Definition check_argon2 (h pw : bytes) : verdict :=
  with_layout m_layout_argon2 h (fun m =>
    match key_argon2 L kdf pw (as_bytes (getv [5%nat] m)) (as_z (getv [2%nat] m)) (as_z (getv [3%nat] m))
                     (as_z (getv [4%nat] m)) (Some (as_bytes (getv [0%nat] m), argon2_version m)) with
    | KErr e => VKey e
    | KOk key => if ct_equal (be64_encode base64_std_alphabet key) (as_bytes (getv [6%nat] m)) then VMatch else VMismatch
    end).

(* ---- Params / Salt ---- *)
Inductive pres := PErrC (e : cerr) | PPanic
                | POkP (salt : bytes) (nums : list Z) (prefix : bytes) (flag : bool).
Definition params_of (st : list sfield) (h : bytes) (k : list (list nat * fval) -> pres) : pres :=
  match unmarshal_top std_cb st h with Ok m => k m | Err e => PErrC e | Panic => PPanic end.

Definition salt_md5 h := params_of m_layout_md5 h (fun m => POkP (as_bytes (getv [1%nat] m)) [] [] false).
Definition salt_des h := params_of m_layout_des h (fun m => POkP (as_bytes (getv [1%nat] m)) [] [] false).
Definition params_sha256 h := params_of m_layout_sha256 h (fun m =>
  POkP (as_bytes (getv [2%nat] m)) [sha2_rounds m_sha256_ImplicitRounds m] [] false).
Definition params_sha512 h := params_of m_layout_sha512 h (fun m =>
  POkP (as_bytes (getv [2%nat] m)) [sha2_rounds m_sha512_ImplicitRounds m] [] false).
Definition params_sha1 h := params_of m_layout_sha1 h (fun m =>
  POkP (as_bytes (getv [2%nat] m)) [as_z (getv [1%nat] m)] [] false).
Definition params_desext h := params_of m_layout_desext h (fun m =>
  POkP (as_bytes (getv [2%nat] m)) [as_z (getv [1%nat] m)] [] false).
Definition params_bcrypt h := params_of m_layout_bcrypt h (fun m =>
  POkP (as_bytes (getv [2%nat] m)) [as_z (getv [1%nat] m)] (as_bytes (getv [0%nat] m)) false).
Definition params_sunmd5 h := params_of m_layout_sunmd5 h (fun m =>
  POkP (as_bytes (getv [0%nat; 2%nat] m)) [as_z (getv [0%nat; 1%nat] m)] (as_bytes (getv [0%nat; 0%nat] m))
       (match getv [0%nat; 3%nat] m with VNil => true | _ => false end)).
Definition params_argon2 h := params_of m_layout_argon2 h (fun m =>
  POkP (as_bytes (getv [5%nat] m)) [as_z (getv [2%nat] m); as_z (getv [3%nat] m); as_z (getv [4%nat] m); argon2_version m]
       (as_bytes (getv [0%nat] m)) false).
End C.

Definition committed_limits : limits := {|
  L_md5_MaxSalt := m_md5_MaxSaltLength;
  L_sha256_MaxSalt := m_sha256_MaxSaltLength; L_sha256_MinRounds := m_sha256_MinRounds; L_sha256_MaxRounds := m_sha256_MaxRounds;
  L_sha512_MaxSalt := m_sha512_MaxSaltLength; L_sha512_MinRounds := m_sha512_MinRounds; L_sha512_MaxRounds := m_sha512_MaxRounds;
  L_sha1_MaxSalt := m_sha1_MaxSaltLength; L_sha1_MinRounds := m_sha1_MinRounds; L_sha1_RandomRounds := m_sha1_RandomRounds;
  L_sunmd5_MaxPw := m_sunmd5_MaxPasswordLength; L_sunmd5_MaxSalt := m_sunmd5_MaxSaltLength; L_sunmd5_MaxRounds := m_sunmd5_MaxRounds;
  L_des_MaxPw := m_des_MaxPasswordLength; L_des_Salt := m_des_SaltLength;
  L_desext_Salt := m_desext_SaltLength; L_desext_MinRounds := m_desext_MinRounds; L_desext_MaxRounds := m_desext_MaxRounds;
  L_bcrypt_Salt := m_bcrypt_SaltLength; L_bcrypt_MinCost := m_bcrypt_MinCost; L_bcrypt_MaxCost := m_bcrypt_MaxCost;
  L_nthash_MaxPw := m_nthash_MaxPasswordLength;
  L_argon2_MinSalt := m_argon2_MinSaltLength; L_argon2_MinMemory := m_argon2_MinMemory; L_argon2_MinTime := m_argon2_MinTime;
  L_argon2_MinThreads := m_argon2_MinThreads |}.
