(* The limits record instantiated with the constants generated from /repo on this run (C14 is parametric). *)
Require Import GC.Base.Bytes GC.Schemes.Keys GC.Generated.Gen_consts.

Definition gen_limits : limits := {|
  L_md5_MaxSalt := md5_MaxSaltLength;
  L_sha256_MaxSalt := sha256_MaxSaltLength; L_sha256_MinRounds := sha256_MinRounds; L_sha256_MaxRounds := sha256_MaxRounds;
  L_sha512_MaxSalt := sha512_MaxSaltLength; L_sha512_MinRounds := sha512_MinRounds; L_sha512_MaxRounds := sha512_MaxRounds;
  L_sha1_MaxSalt := sha1_MaxSaltLength; L_sha1_MinRounds := sha1_MinRounds; L_sha1_RandomRounds := sha1_RandomRounds;
  L_sunmd5_MaxPw := sunmd5_MaxPasswordLength; L_sunmd5_MaxSalt := sunmd5_MaxSaltLength; L_sunmd5_MaxRounds := sunmd5_MaxRounds;
  L_des_MaxPw := des_MaxPasswordLength; L_des_Salt := des_SaltLength;
  L_desext_Salt := desext_SaltLength; L_desext_MinRounds := desext_MinRounds; L_desext_MaxRounds := desext_MaxRounds;
  L_bcrypt_Salt := bcrypt_SaltLength; L_bcrypt_MinCost := bcrypt_MinCost; L_bcrypt_MaxCost := bcrypt_MaxCost;
  L_nthash_MaxPw := nthash_MaxPasswordLength;
  L_argon2_MinSalt := argon2_MinSaltLength; L_argon2_MinMemory := argon2_MinMemory; L_argon2_MinTime := argon2_MinTime;
  L_argon2_MinThreads := argon2_MinThreads |}.
