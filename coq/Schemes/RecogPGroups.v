(* The parser's fragment list of a body WITH groups against the recognisers' splitting: every '$'-piece is one
   fragment; it is a group exactly when the piece has a comma, and (for a piece that is not the last) the
   group's members are the piece split at commas.  Used by the argon2 classification. *)
Require Import GC.Schemes.RecogPBase GC.Schemes.RecogPStr.

(* a fragment seen without positions: group?, texts *)
Definition fview (f : frag) : bool * list bytes :=
  match f with FV v => (false, [snd v]) | FG vs => (true, map snd vs) end.

(* sc with positions erased: ms = texts of the members already closed in the current segment (in order),
   hasc = a comma was seen in the current segment *)
Fixpoint exp (ms : list bytes) (hasc : bool) (cur : bytes) (r : bytes) : list (bool * list bytes) :=
  match r with
  | [] => match cur with
          | [] => if hasc then [(true, ms)] else []
          | _ => [(hasc, ms ++ [rev cur])]
          end
  | c :: r' => if c =? dollar then (hasc, ms ++ [rev cur]) :: exp [] false [] r'
               else if c =? comma then exp (ms ++ [rev cur]) true [] r'
               else exp ms hasc (c :: cur) r'
  end.

Definition gtexts (g : option (list vnode)) : list bytes := match g with Some l => map snd (rev l) | None => [] end.
Definition gsome (g : option (list vnode)) : bool := match g with Some _ => true | None => false end.

Lemma fview_close g v : fview (close g v) = (gsome g, gtexts g ++ [snd v]).
Proof.
  destruct g as [l|]; cbn [close fview gsome gtexts]. 2: reflexivity.
  cbn [rev]. rewrite map_app. reflexivity.
Qed.

Lemma sc_exp : forall r cur start pos g, map fview (sc cur start pos r g) = exp (gtexts g) (gsome g) cur r.
Proof.
  induction r as [|c r IH]; intros cur start pos g.
  - cbn [sc exp]. destruct cur.
    + destruct g; reflexivity.
    + cbn [map]. rewrite fview_close. reflexivity.
  - cbn [sc exp]. destruct (c =? dollar).
    + cbn [map]. rewrite fview_close, IH. reflexivity.
    + destruct (c =? comma).
      * rewrite IH. cbn [gtexts gsome gl rev]. f_equal.
        destruct g as [l|]; cbn [gtexts gl rev map]. rewrite map_app. reflexivity. reflexivity.
      * apply IH.
Qed.

(* ---- pieces against exp ---- *)
Definition rel1 (x : bool * list bytes) (p : bytes) : Prop := fst x = has_comma p /\ snd x = split_on comma [] p.
Definition relL (x : bool * list bytes) (p : bytes) : Prop := fst x = has_comma p /\ (fst x = false -> snd x = [p]).
Fixpoint rel (xs : list (bool * list bytes)) (ps : list bytes) : Prop :=
  match xs, ps with
  | [], [] => True
  | [x], [p] => relL x p
  | x :: xs', p :: ps' => rel1 x p /\ rel xs' ps'
  | _, _ => False
  end.

Definition no_comma (s : bytes) : Prop := has_comma s = false.

Lemma split_on_acc sep : forall a cur x, existsb (fun c => c =? sep) a = false ->
  split_on sep cur (a ++ x) = split_on sep (rev a ++ cur) x.
Proof.
  induction a as [|c a IH]; intros cur x H. reflexivity.
  cbn [existsb] in H. apply orb_false_iff in H. destruct H as [Hc Ha].
  cbn [app split_on]. rewrite Hc. rewrite IH by exact Ha. cbn [rev]. rewrite <- app_assoc. reflexivity.
Qed.

Lemma split_on_plain sep p : existsb (fun c => c =? sep) p = false -> split_on sep [] p = [p].
Proof.
  intros H. rewrite <- (app_nil_r p) at 1. rewrite split_on_acc by exact H. cbn [split_on].
  rewrite app_nil_r, rev_involutive. reflexivity.
Qed.

(* text of the closed members, each followed by its comma *)
Definition pre (ms : list bytes) : bytes := concat (map (fun m => m ++ [comma]) ms).

Lemma pre_snoc ms m : pre (ms ++ [m]) = pre ms ++ m ++ [comma].
Proof. unfold pre. rewrite map_app, concat_app. cbn [map concat]. rewrite app_nil_r. reflexivity. Qed.

Lemma split_pre : forall ms x, Forall no_comma ms -> split_on comma [] (pre ms ++ x) = ms ++ split_on comma [] x.
Proof.
  induction ms as [|m ms IH]; intros x H. reflexivity.
  inversion H; subst. unfold pre. cbn [map concat]. fold (pre ms). rewrite <- !app_assoc.
  rewrite split_on_acc by assumption. cbn [app split_on]. rewrite Z.eqb_refl, app_nil_r, rev_involutive.
  rewrite IH by assumption. reflexivity.
Qed.

Lemma has_comma_pre ms : ms <> [] -> has_comma (pre ms) = true.
Proof.
  destruct ms as [|m ms]. contradiction. intros _. unfold pre. cbn [map concat].
  rewrite !has_comma_app. cbn [has_comma existsb]. rewrite Z.eqb_refl. cbn. rewrite orb_true_r. reflexivity.
Qed.

Lemma rel1_relL x p : rel1 x p -> relL x p.
Proof.
  intros [A B]. split. exact A. intros H. rewrite B. apply split_on_plain. rewrite <- H, A. reflexivity.
Qed.

Lemma rel_cons x xs p ps : rel1 x p -> rel xs ps -> rel (x :: xs) (p :: ps).
Proof.
  intros H1 H2. destruct xs as [|y xs]; destruct ps as [|q ps]; cbn [rel] in *; try contradiction.
  - apply rel1_relL. exact H1.
  - destruct xs; contradiction.
  - split; assumption.
Qed.

(* the invariant between exp's state and the recogniser's current piece *)
Record inv (ms : list bytes) (hasc : bool) (cur curp : bytes) : Prop := {
  inv_cur : no_comma (rev cur);
  inv_ms : Forall no_comma ms;
  inv_hasc : hasc = negb (is_nil_b ms);
  inv_text : rev curp = pre ms ++ rev cur }.

Lemma inv_has_comma ms hasc cur curp : inv ms hasc cur curp -> has_comma (rev curp) = hasc.
Proof.
  intros [A B C D]. rewrite D, has_comma_app, A, orb_false_r. subst hasc.
  destruct ms as [|m ms]. reflexivity. apply has_comma_pre. discriminate.
Qed.

Lemma inv_split ms hasc cur curp : inv ms hasc cur curp -> split_on comma [] (rev curp) = ms ++ [rev cur].
Proof.
  intros [A B C D]. rewrite D, split_pre by exact B. f_equal. apply split_on_plain. exact A.
Qed.

Lemma inv_rel1 ms hasc cur curp : inv ms hasc cur curp -> rel1 (hasc, ms ++ [rev cur]) (rev curp).
Proof.
  intros I. split; cbn [fst snd]. symmetry. eapply inv_has_comma; eauto. symmetry. eapply inv_split; eauto.
Qed.

Lemma exp_pieces : forall r ms hasc cur curp, inv ms hasc cur curp ->
  rel (exp ms hasc cur r) (pieces dollar curp r).
Proof.
  induction r as [|c r IH]; intros ms hasc cur curp I.
  - cbn [exp pieces]. destruct cur as [|a cur].
    + destruct I as [A B C D]. cbn [rev] in D. rewrite app_nil_r in D.
      destruct ms as [|m ms]; cbn [is_nil_b negb] in C; subst hasc.
      * cbn [pre map concat] in D. destruct curp as [|x curp]. exact I.
        exfalso. cbn [rev] in D. destruct (rev curp); discriminate D.
      * destruct curp as [|x curp].
        { exfalso. cbn [rev] in D. unfold pre in D. cbn [map concat] in D. destruct m; discriminate D. }
        cbn [rel]. split; cbn [fst snd]. 2: discriminate.
        rewrite D. symmetry. apply has_comma_pre. discriminate.
    + destruct curp as [|x curp].
      { exfalso. destruct I as [A B C D]. cbn [rev] in D. destruct (pre ms); destruct (rev cur); discriminate D. }
      cbn [rel]. apply rel1_relL. apply inv_rel1. exact I.
  - cbn [exp pieces]. destruct (c =? dollar) eqn:Ed.
    + apply rel_cons. apply inv_rel1; exact I. apply IH. split; try reflexivity. constructor.
    + destruct (c =? comma) eqn:Ec.
      * apply IH. destruct I as [A B C D]. apply Z.eqb_eq in Ec. subst c. split.
        -- reflexivity.
        -- apply Forall_app. split. exact B. constructor. exact A. constructor.
        -- destruct ms; reflexivity.
        -- cbn [rev]. rewrite D, pre_snoc, <- !app_assoc. cbn [app]. reflexivity.
      * apply IH. destruct I as [A B C D]. split.
        -- unfold no_comma. cbn [rev]. rewrite has_comma_app, A. cbn [has_comma existsb]. rewrite Ec. reflexivity.
        -- exact B.
        -- exact C.
        -- cbn [rev]. rewrite D, <- app_assoc. reflexivity.
Qed.

(* the statement used by the argon2 proof *)
Theorem sc_rel body off : rel (map fview (sc [] off off body None)) (pieces dollar [] body).
Proof.
  rewrite sc_exp. cbn [gtexts gsome]. apply exp_pieces. split; try reflexivity. constructor.
Qed.

Lemma rel_nil_r xs : rel xs [] -> xs = [].
Proof. destruct xs as [|x [|y xs]]; cbn [rel]; intros H; try contradiction; reflexivity. Qed.

Lemma rel_length : forall xs ps, rel xs ps -> length xs = length ps.
Proof.
  induction xs as [|x xs IH]; intros ps H.
  - destruct ps; cbn [rel] in H; [reflexivity|contradiction].
  - destruct ps as [|p ps]. { apply rel_nil_r in H. discriminate H. }
    cbn [length]. f_equal. apply IH.
    destruct xs as [|y xs]; destruct ps as [|q ps]; cbn [rel] in H |- *; try tauto.
Qed.
