(* The argon2 recogniser of Schemes/Recognisers.v characterised by the documented layout written as an explicit
   concatenation:
     ("$argon2id$" | "$argon2i$" | "$argon2d$") ["v=" digits "$"] x1 "," x2 "," x3 "$" salt "$" sum ["$"]
   where x1 x2 x3 are "m=" digits, "t=" digits, "p=" digits in any order.
   Reading aids (GrammarBase.v): in_alpha EncBase64 s = true <-> every symbol of s is one of A-Za-z0-9+/
   (in_alpha_base64_over; no '=', '$' or ','); ParseUint10_iff for the numbers. *)
Require Import GC.Schemes.GrammarBase.
Require Import Permutation.

Definition k_m : bytes := [109; 61].     (* "m=" *)
Definition k_t : bytes := [116; 61].     (* "t=" *)
Definition k_p : bytes := [112; 61].     (* "p=" *)

Ltac eqb_consts :=
  repeat match goal with
         | |- context [?a =? ?b] =>
           let x := eval vm_compute in (a =? b) in
           match x with
           | true => change (a =? b) with true
           | false => change (a =? b) with false
           end
         end.

(* ---- one member of the parameter group ---- *)
Lemma member_num_iff a k v : member_num a = Some (k, v) <->
  exists ds, (a = k_m ++ ds /\ k = 109 /\ ParseUint ds 10 32 = inl v) \/
             (a = k_t ++ ds /\ k = 116 /\ ParseUint ds 10 32 = inl v) \/
             (a = k_p ++ ds /\ k = 112 /\ ParseUint ds 10 8 = inl v).
Proof.
  unfold member_num, member_kv. split.
  - destruct a as [|k' [|e ds]]; try discriminate.
    destruct (e =? equals) eqn:Ee; [|discriminate]. cbn [andb]. apply Z.eqb_eq in Ee. subst e.
    destruct (negb (k' =? equals)); [|discriminate].
    destruct (k' =? 109) eqn:E1; cbn [orb andb].
    { apply Z.eqb_eq in E1. subst k'. eqb_consts. cbv iota.
      destruct (in_alpha EncHash ds); [|discriminate]. destruct (ParseUint ds 10 32) eqn:U; [|discriminate].
      intros [= <- <-]. exists ds. left. auto. }
    destruct (k' =? 116) eqn:E2; cbn [orb andb].
    { apply Z.eqb_eq in E2. subst k'. eqb_consts. cbv iota.
      destruct (in_alpha EncHash ds); [|discriminate]. destruct (ParseUint ds 10 32) eqn:U; [|discriminate].
      intros [= <- <-]. exists ds. right. left. auto. }
    destruct (k' =? 112) eqn:E3; cbn [orb andb]; [|discriminate].
    apply Z.eqb_eq in E3. subst k'.
    destruct (in_alpha EncHash ds); [|discriminate]. destruct (ParseUint ds 10 8) eqn:U; [|discriminate].
    intros [= <- <-]. exists ds. right. right. auto.
  - intros (ds & [(-> & -> & U)|[(-> & -> & U)|(-> & -> & U)]]); unfold k_m, k_t, k_p; cbn [app]; eqb_consts;
      cbn [negb andb orb]; eqb_consts; cbn [negb andb orb]; cbv iota; rewrite (is_digits_alpha ds (ParseUint10_digits ds _ v U)), U; reflexivity.
Qed.

Lemma member_clean k ds bits v : ParseUint ds 10 bits = inl v -> mem k crypt_alphabet = true ->
  no_dollar ([k; 61] ++ ds) /\ has_comma ([k; 61] ++ ds) = false.
Proof.
  intros U Hk. destruct (ParseUint10_no_delims ds bits v U) as [A B]. split.
  - apply no_dollar_app. split; [|exact A]. apply no_dollar_cons. split.
    intros ->. discriminate Hk. reflexivity.
  - rewrite has_comma_app, B. cbn [has_comma existsb]. destruct (k =? comma) eqn:E; [|reflexivity].
    apply Z.eqb_eq in E. subst k. discriminate Hk.
Qed.

(* ---- permutations of three ---- *)
Lemma perm3_inv {A} (x1 x2 x3 a b c : A) : Permutation [x1; x2; x3] [a; b; c] ->
  (x1 = a /\ x2 = b /\ x3 = c) \/ (x1 = a /\ x2 = c /\ x3 = b) \/ (x1 = b /\ x2 = a /\ x3 = c) \/
  (x1 = b /\ x2 = c /\ x3 = a) \/ (x1 = c /\ x2 = a /\ x3 = b) \/ (x1 = c /\ x2 = b /\ x3 = a).
Proof.
  intros H. assert (In x1 [a; b; c]) as I by (eapply Permutation_in; [exact H|left; reflexivity]).
  destruct I as [<-|[<-|[<-|[]]]].
  - apply Permutation_cons_inv in H. apply Permutation_length_2_inv in H. destruct H as [H|H]; inversion H; auto 10.
  - change [a; b; c] with ([a] ++ b :: [c]) in H. apply Permutation_cons_app_inv in H.
    apply Permutation_length_2_inv in H. destruct H as [H|H]; inversion H; auto 10.
  - change [a; b; c] with ([a; b] ++ c :: []) in H. apply Permutation_cons_app_inv in H.
    apply Permutation_length_2_inv in H. destruct H as [H|H]; inversion H; auto 10.
Qed.

Lemma perm3_intro {A} (x1 x2 x3 a b c : A) :
  (x1 = a /\ x2 = b /\ x3 = c) \/ (x1 = a /\ x2 = c /\ x3 = b) \/ (x1 = b /\ x2 = a /\ x3 = c) \/
  (x1 = b /\ x2 = c /\ x3 = a) \/ (x1 = c /\ x2 = a /\ x3 = b) \/ (x1 = c /\ x2 = b /\ x3 = a) ->
  Permutation [x1; x2; x3] [a; b; c].
Proof.
  intros [(-> & -> & ->)|[(-> & -> & ->)|[(-> & -> & ->)|[(-> & -> & ->)|[(-> & -> & ->)|(-> & -> & ->)]]]]].
  - apply Permutation_refl.
  - apply perm_skip. apply perm_swap.
  - apply perm_swap.
  - apply Permutation_sym. apply (Permutation_cons_app [b; c] [] a). apply Permutation_refl.
  - apply (Permutation_cons_app [a; b] [] c). apply Permutation_refl.
  - apply (Permutation_cons_app [a; b] [] c). apply perm_swap.
Qed.

(* ---- the parameter group, salt and digest ---- *)
Lemma grammar_argon2_rest pre version params salt sum r :
  recog_argon2_rest pre version params salt sum = Some r <->
  exists dm m dt t dp p x1 x2 x3,
    params = x1 ++ [comma] ++ x2 ++ [comma] ++ x3 /\
    Permutation [x1; x2; x3] [k_m ++ dm; k_t ++ dt; k_p ++ dp] /\
    ParseUint dm 10 32 = inl m /\ ParseUint dt 10 32 = inl t /\ ParseUint dp 10 8 = inl p /\
    in_alpha EncBase64 salt = true /\ in_alpha EncBase64 sum = true /\
    r = mk_r salt [m; t; p; version] pre false sum.
Proof.
  unfold recog_argon2_rest. split.
  - destruct (split_on comma [] params) as [|a [|b [|c [|x l]]]] eqn:F; try discriminate.
    destruct (member_num a) as [[ka va]|] eqn:Ma; [|discriminate].
    destruct (member_num b) as [[kb vb]|] eqn:Mb; [|discriminate].
    destruct (member_num c) as [[kc vc]|] eqn:Mc; [|discriminate].
    match goal with |- (if ?c then _ else _) = _ -> _ => destruct c eqn:E; [|discriminate] end.
    repeat (apply andb_true_iff in E; let E' := fresh "E" in destruct E as [E E']).
    apply split_on_three_iff in F. destruct F as (-> & _).
    apply member_num_iff in Ma, Mb, Mc.
    apply negb_true_iff, Z.eqb_neq in E, E5, E4.
    destruct Ma as (da & [(-> & -> & Ua)|[(-> & -> & Ua)|(-> & -> & Ua)]]);
    destruct Mb as (db & [(-> & -> & Ub)|[(-> & -> & Ub)|(-> & -> & Ub)]]); try (exfalso; apply E; reflexivity);
    destruct Mc as (dc & [(-> & -> & Uc)|[(-> & -> & Uc)|(-> & -> & Uc)]]);
      try (exfalso; apply E5; reflexivity); try (exfalso; apply E4; reflexivity);
    repeat match goal with |- context [lookup_key ?k ?l] =>
             let x := eval cbv in (lookup_key k l) in change (lookup_key k l) with x end;
    intros [= <-].
    + exists da, va, db, vb, dc, vc. do 3 eexists. split. reflexivity. split. apply perm3_intro. auto 10. auto 10.
    + exists da, va, dc, vc, db, vb. do 3 eexists. split. reflexivity. split. apply perm3_intro. auto 10. auto 10.
    + exists db, vb, da, va, dc, vc. do 3 eexists. split. reflexivity. split. apply perm3_intro. auto 10. auto 10.
    + exists dc, vc, da, va, db, vb. do 3 eexists. split. reflexivity. split. apply perm3_intro. auto 10. auto 10.
    + exists db, vb, dc, vc, da, va. do 3 eexists. split. reflexivity. split. apply perm3_intro. auto 10. auto 10.
    + exists dc, vc, db, vb, da, va. do 3 eexists. split. reflexivity. split. apply perm3_intro. auto 10. auto 10.
  - intros (dm & m & dt & t & dp & p & x1 & x2 & x3 & -> & Hp & Um & Ut & Up & A1 & A2 & ->).
    assert (member_num (k_m ++ dm) = Some (109, m)) as Mm by (apply member_num_iff; exists dm; auto).
    assert (member_num (k_t ++ dt) = Some (116, t)) as Mt by (apply member_num_iff; exists dt; auto 6).
    assert (member_num (k_p ++ dp) = Some (112, p)) as Mp by (apply member_num_iff; exists dp; auto 6).
    destruct (member_clean 109 dm 32 m Um eq_refl) as [_ Cm].
    destruct (member_clean 116 dt 32 t Ut eq_refl) as [_ Ct].
    destruct (member_clean 112 dp 8 p Up eq_refl) as [_ Cp].
    destruct (base64_no_delims salt A1) as [_ C1]. destruct (base64_no_delims sum A2) as [_ C2].
    apply perm3_inv in Hp.
    destruct Hp as [(-> & -> & ->)|[(-> & -> & ->)|[(-> & -> & ->)|[(-> & -> & ->)|[(-> & -> & ->)|(-> & -> & ->)]]]]];
      (match goal with |- context [split_on comma [] (?a ++ [comma] ++ ?b ++ [comma] ++ ?c)] =>
         rewrite (proj2 (split_on_three_iff (a ++ [comma] ++ b ++ [comma] ++ c) a b c)) by auto
       end);
      rewrite Mm, Mt, Mp, C1, C2, A1, A2; eqb_consts; cbn [negb andb];
      repeat match goal with |- context [lookup_key ?k ?l] =>
               let x := eval cbv in (lookup_key k l) in change (lookup_key k l) with x end;
      reflexivity.
Qed.

(* ---- the '$'-fragments after the prefix ---- *)
Definition version_part (ver : bytes) (version : Z) : Prop :=
  (ver = [] /\ version = 16) \/
  (exists digits v, ver = k_v ++ digits ++ [dollar] /\ ParseUint digits 10 8 = inl v /\
                    version = if v =? 0 then 16 else v).

Lemma grammar_argon2_body pre body r : recog_argon2_body pre (pre ++ body) = Some r <->
  exists ver version params salt sum tail,
    body = ver ++ params ++ [dollar] ++ salt ++ [dollar] ++ sum ++ tail /\
    version_part ver version /\
    no_dollar params /\ no_dollar salt /\ no_dollar sum /\ last_tail sum tail /\
    recog_argon2_rest pre version params salt sum = Some r.
Proof.
  unfold recog_argon2_body. rewrite skipn_app_len. split.
  - destruct (pieces dollar [] body) as [|x1 [|x2 [|x3 [|x4 [|x l]]]]] eqn:F; try discriminate.
    + intros H. apply pieces_three_iff in F. destruct F as (tail & -> & N1 & N2 & N3 & Ht).
      exists [], 16, x1, x2, x3, tail. split. reflexivity. split. left. auto. auto 10.
    + destruct (has_prefix k_v x1) eqn:P; [|discriminate]. cbn [andb].
      apply has_prefix_spec in P. destruct P as [ds ->]. change (skipn 2 (k_v ++ ds)) with ds.
      destruct (negb (has_comma (k_v ++ ds))); [|discriminate]. cbn [andb].
      destruct (in_alpha EncHash ds); [|discriminate].
      destruct (ParseUint ds 10 8) as [v|] eqn:U; [|discriminate].
      intros H. apply pieces_four_iff in F. destruct F as (tail & -> & N1 & N2 & N3 & N4 & Ht).
      exists (k_v ++ ds ++ [dollar]), (if v =? 0 then 16 else v), x2, x3, x4, tail.
      split. rewrite <- !app_assoc. reflexivity. split. right. exists ds, v. auto. auto 10.
  - intros (ver & version & params & salt & sum & tail & -> & [(-> & ->)|(ds & v & -> & U & ->)] & N1 & N2 & N3 & Ht & H).
    + rewrite app_nil_l.
      rewrite (proj2 (pieces_three_iff (params ++ [dollar] ++ salt ++ [dollar] ++ sum ++ tail) params salt sum)).
      exact H. exists tail. auto.
    + rewrite (proj2 (pieces_four_iff ((k_v ++ ds ++ [dollar]) ++ params ++ [dollar] ++ salt ++ [dollar] ++ sum ++ tail)
                                     (k_v ++ ds) params salt sum)).
      * destruct (ParseUint10_no_delims ds 8 v U) as [Nd Cd].
        rewrite has_prefix_app. change (skipn 2 (k_v ++ ds)) with ds.
        rewrite has_comma_app, Cd, (is_digits_alpha ds (ParseUint10_digits ds 8 v U)), U. exact H.
      * destruct (ParseUint10_no_delims ds 8 v U) as [Nd Cd].
        exists tail. split. rewrite <- !app_assoc. reflexivity.
        split. apply no_dollar_app. split. reflexivity. exact Nd. auto.
Qed.

(* ---- argon2 ---- *)
Theorem grammar_argon2 h r : recog_argon2 h = Some r <->
  exists pre ver version dm m dt t dp p x1 x2 x3 salt sum tail,
    h = pre ++ ver ++ x1 ++ [comma] ++ x2 ++ [comma] ++ x3 ++ [dollar] ++ salt ++ [dollar] ++ sum ++ tail /\
    (pre = p_argon2id \/ pre = p_argon2i \/ pre = p_argon2d) /\
    ((ver = [] /\ version = 16) \/
     (exists digits v, ver = k_v ++ digits ++ [dollar] /\ ParseUint digits 10 8 = inl v /\
                       version = if v =? 0 then 16 else v)) /\
    Permutation [x1; x2; x3] [k_m ++ dm; k_t ++ dt; k_p ++ dp] /\
    ParseUint dm 10 32 = inl m /\ ParseUint dt 10 32 = inl t /\ ParseUint dp 10 8 = inl p /\
    in_alpha EncBase64 salt = true /\ in_alpha EncBase64 sum = true /\
    ((tail = [] /\ sum <> []) \/ tail = [dollar]) /\
    r = mk_r salt [m; t; p; version] pre false sum.
Proof.
  split.
  - unfold recog_argon2.
    destruct (has_prefix p_argon2id h) eqn:P1; [|destruct (has_prefix p_argon2i h) eqn:P2;
      [|destruct (has_prefix p_argon2d h) eqn:P3; [|discriminate]]];
    match goal with P : has_prefix ?p h = true |- _ => apply has_prefix_spec in P; destruct P as [body ->] end;
    intros H; match type of H with recog_argon2_body ?p _ = _ =>
      apply grammar_argon2_body in H;
      destruct H as (ver & version & params & salt & sum & tail & -> & Hv & N1 & N2 & N3 & Ht & H);
      apply grammar_argon2_rest in H;
      destruct H as (dm & m & dt & t & dp & p' & x1 & x2 & x3 & -> & Hp & Um & Ut & Up & A1 & A2 & ->);
      exists p, ver, version, dm, m, dt, t, dp, p', x1, x2, x3, salt, sum, tail end;
    (split; [rewrite <- !app_assoc; reflexivity|]); auto 15.
  - intros (pre & ver & version & dm & m & dt & t & dp & p & x1 & x2 & x3 & salt & sum & tail &
            -> & Hpre & Hv & Hp & Um & Ut & Up & A1 & A2 & Ht & ->).
    assert (recog_argon2_body pre (pre ++ ver ++ x1 ++ [comma] ++ x2 ++ [comma] ++ x3 ++ [dollar] ++ salt ++ [dollar] ++ sum ++ tail)
            = Some (mk_r salt [m; t; p; version] pre false sum)) as B.
    { apply grammar_argon2_body. exists ver, version, (x1 ++ [comma] ++ x2 ++ [comma] ++ x3), salt, sum, tail.
      split. rewrite <- !app_assoc. reflexivity. split. exact Hv.
      destruct (member_clean 109 dm 32 m Um eq_refl) as [Nm _].
      destruct (member_clean 116 dt 32 t Ut eq_refl) as [Nt _].
      destruct (member_clean 112 dp 8 p Up eq_refl) as [Np _].
      split.
      { apply perm3_inv in Hp.
        destruct Hp as [(-> & -> & ->)|[(-> & -> & ->)|[(-> & -> & ->)|[(-> & -> & ->)|[(-> & -> & ->)|(-> & -> & ->)]]]]];
          repeat (apply no_dollar_app; split); try assumption; reflexivity. }
      split. apply (base64_no_delims salt A1). split. apply (base64_no_delims sum A2). split. exact Ht.
      apply grammar_argon2_rest. exists dm, m, dt, t, dp, p, x1, x2, x3. auto 10. }
    unfold recog_argon2. destruct Hpre as [-> |[-> | ->]].
    + rewrite has_prefix_app. exact B.
    + change (has_prefix p_argon2id (p_argon2i ++ ?x)) with false. cbv iota. rewrite has_prefix_app. exact B.
    + change (has_prefix p_argon2id (p_argon2d ++ ?x)) with false.
      change (has_prefix p_argon2i (p_argon2d ++ ?x)) with false. cbv iota. rewrite has_prefix_app. exact B.
Qed.
Print Assumptions grammar_argon2.
