(* C05 (scheme part): Check / Params / Salt of the ten scheme packages never reach a panic outcome, for ALL
   hash strings and passwords, provided the abstract derivation returns keys of the scheme's size (the
   only panic source left after Codec/NoPanic.v is the key encoder writing past the digest buffer).
   No axioms. *)
Require Import GC.Base.Bytes GC.Codec.Types GC.Codec.Codec GC.Codec.NoPanic GC.B64.B64Model GC.B64.B64Proofs
               GC.Schemes.Consts GC.Schemes.Layouts GC.Schemes.Keys GC.Schemes.Encoders GC.Schemes.Checks
               GC.Schemes.CheckSound GC.Schemes.RandProofs.

(* ------------------------------------------------------------------ *)
(* 1. encoded lengths                                                  *)
(* ------------------------------------------------------------------ *)
Lemma le64_length k : length (le64 k) = ((length k * 8 + 5) / 6)%nat.
Proof.
  apply Nat2Z.inj. unfold le64. rewrite encoded_len. unfold EncodedLen, le_enc. cbv [e_pad].
  rewrite Nat2Z.inj_div, Nat2Z.inj_add, Nat2Z.inj_mul. reflexivity.
Qed.

Lemma be64_len k : length (be64 k) = ((length k * 8 + 5) / 6)%nat.
Proof. unfold be64. apply be64_length. Qed.

Lemma hex_length k : length (hex_encode k) = (2 * length k)%nat.
Proof.
  unfold hex_encode. induction k as [|b r IH]; [reflexivity|].
  cbn [flat_map app length]. rewrite IH. lia.
Qed.

Lemma le64_16 k : length k = 16%nat -> length (le64 k) = 22%nat.
Proof. intros H. rewrite le64_length, H. reflexivity. Qed.
Lemma le64_32 k : length k = 32%nat -> length (le64 k) = 43%nat.
Proof. intros H. rewrite le64_length, H. reflexivity. Qed.
Lemma le64_64 k : length k = 64%nat -> length (le64 k) = 86%nat.
Proof. intros H. rewrite le64_length, H. reflexivity. Qed.
Lemma le64_21 k : length k = 21%nat -> length (le64 k) = 28%nat.
Proof. intros H. rewrite le64_length, H. reflexivity. Qed.
Lemma be64_8 k : length k = 8%nat -> length (be64 k) = 11%nat.
Proof. intros H. rewrite be64_len, H. reflexivity. Qed.
Lemma be64_23 alpha k : length k = 23%nat -> length (be64_encode alpha k) = 31%nat.
Proof. intros H. rewrite be64_length, H. reflexivity. Qed.
Lemma hex_16 k : length k = 16%nat -> length (hex_encode k) = 32%nat.
Proof. intros H. rewrite hex_length, H. reflexivity. Qed.

(* ------------------------------------------------------------------ *)
(* 2. fit / finish                                                     *)
(* ------------------------------------------------------------------ *)
Lemma fit_some n enc : (length enc <= n)%nat -> fit n enc <> None.
Proof.
  intros H. unfold fit. destruct (Nat.ltb n (length enc)) eqn:E; [|discriminate].
  apply Nat.ltb_lt in E. lia.
Qed.

Lemma finish_no_panic n enc k sum :
  (forall key, k = KOk key -> (length (enc key) <= n)%nat) -> finish n enc k sum <> VPanic.
Proof.
  intros H E. pose proof (finish_cases n enc k sum) as Hc. rewrite E in Hc.
  destruct Hc as (key & Ek & Ef). exact (fit_some n (enc key) (H key Ek) Ef).
Qed.

(* ------------------------------------------------------------------ *)
(* 3. a key comes from the derivation of the scheme's tag              *)
(* ------------------------------------------------------------------ *)
Lemma run_kdf_ok kdf tag bs ns k : run_kdf kdf tag bs ns = KOk k -> kdf tag bs ns = Some k.
Proof. unfold run_kdf. destruct (kdf tag bs ns); [|discriminate]. intros H. inversion H. reflexivity. Qed.

Ltac key_tac H :=
  cbv zeta in H;
  repeat match type of H with
         | context [match ?x with _ => _ end] => destruct x eqn:?; try discriminate H
         end;
  apply run_kdf_ok in H; eauto.

Lemma key_md5_kdf L kdf pw salt k : key_md5 L kdf pw salt = KOk k -> exists bs ns, kdf T_md5 bs ns = Some k.
Proof. intros H. unfold key_md5 in H. key_tac H. Qed.
Lemma key_sha256_kdf L kdf pw salt r k : key_sha256 L kdf pw salt r = KOk k -> exists bs ns, kdf T_sha256 bs ns = Some k.
Proof. intros H. unfold key_sha256, key_sha2 in H. key_tac H. Qed.
Lemma key_sha512_kdf L kdf pw salt r k : key_sha512 L kdf pw salt r = KOk k -> exists bs ns, kdf T_sha512 bs ns = Some k.
Proof. intros H. unfold key_sha512, key_sha2 in H. key_tac H. Qed.
Lemma key_sha1_kdf L kdf rr pw salt r k : key_sha1 L kdf rr pw salt r = KOk k -> exists bs ns, kdf T_sha1 bs ns = Some k.
Proof. intros H. unfold key_sha1 in H. key_tac H. Qed.
Lemma key_sunmd5_kdf L kdf pw salt r o k : key_sunmd5 L kdf pw salt r o = KOk k -> exists bs ns, kdf T_sunmd5 bs ns = Some k.
Proof. intros H. unfold key_sunmd5 in H. key_tac H. Qed.
Lemma key_des_kdf L kdf pw salt k : key_des L kdf pw salt = KOk k -> exists bs ns, kdf T_des bs ns = Some k.
Proof. intros H. unfold key_des in H. key_tac H. Qed.
Lemma key_desext_kdf L kdf pw salt r k : key_desext L kdf pw salt r = KOk k -> exists bs ns, kdf T_desext bs ns = Some k.
Proof. intros H. unfold key_desext in H. key_tac H. Qed.
Lemma key_bcrypt_kdf L kdf pw salt c o k : key_bcrypt L kdf pw salt c o = KOk k -> exists bs ns, kdf T_bcrypt bs ns = Some k.
Proof. intros H. unfold key_bcrypt in H. key_tac H. Qed.
Lemma key_nthash_kdf L kdf enc k : key_nthash L kdf enc = KOk k -> exists bs ns, kdf T_nthash bs ns = Some k.
Proof. intros H. unfold key_nthash in H. key_tac H. Qed.
Lemma key_argon2_kdf L kdf pw salt m t p o k : key_argon2 L kdf pw salt m t p o = KOk k -> exists bs ns, kdf T_argon2 bs ns = Some k.
Proof. intros H. unfold key_argon2 in H. key_tac H. Qed.

(* ------------------------------------------------------------------ *)
(* 4. Check                                                            *)
(* ------------------------------------------------------------------ *)
Lemma with_layout_no_panic st h k :
  (forall cb h, unmarshal_top cb st h <> Panic) -> (forall m, k m <> VPanic) -> with_layout st h k <> VPanic.
Proof.
  intros Hu Hk. unfold with_layout. specialize (Hu std_cb h).
  destruct (unmarshal_top std_cb st h) as [m|e|]; [apply Hk|discriminate|congruence].
Qed.

Theorem check_md5_no_panic : forall L kdf h pw,
  (forall bs ns k, kdf T_md5 bs ns = Some k -> length k = 16%nat) -> check_md5 L kdf h pw <> VPanic.
Proof.
  intros L kdf h pw Hk. unfold check_md5. apply with_layout_no_panic; [exact unmarshal_md5_no_panic|].
  intros m. apply finish_no_panic. intros key Ek. apply key_md5_kdf in Ek. destruct Ek as (bs & ns & Ek).
  rewrite (le64_16 key (Hk bs ns key Ek)). lia.
Qed.

Theorem check_sha256_no_panic : forall L kdf h pw,
  (forall bs ns k, kdf T_sha256 bs ns = Some k -> length k = 32%nat) -> check_sha256 L kdf h pw <> VPanic.
Proof.
  intros L kdf h pw Hk. unfold check_sha256. apply with_layout_no_panic; [exact unmarshal_sha256_no_panic|].
  intros m. apply finish_no_panic. intros key Ek. apply key_sha256_kdf in Ek. destruct Ek as (bs & ns & Ek).
  rewrite (le64_32 key (Hk bs ns key Ek)). lia.
Qed.

Theorem check_sha512_no_panic : forall L kdf h pw,
  (forall bs ns k, kdf T_sha512 bs ns = Some k -> length k = 64%nat) -> check_sha512 L kdf h pw <> VPanic.
Proof.
  intros L kdf h pw Hk. unfold check_sha512. apply with_layout_no_panic; [exact unmarshal_sha512_no_panic|].
  intros m. apply finish_no_panic. intros key Ek. apply key_sha512_kdf in Ek. destruct Ek as (bs & ns & Ek).
  rewrite (le64_64 key (Hk bs ns key Ek)). lia.
Qed.

Theorem check_sha1_no_panic : forall L kdf rr h pw,
  (forall bs ns k, kdf T_sha1 bs ns = Some k -> length k = 21%nat) -> check_sha1 L kdf rr h pw <> VPanic.
Proof.
  intros L kdf rr h pw Hk. unfold check_sha1. apply with_layout_no_panic; [exact unmarshal_sha1_no_panic|].
  intros m. apply finish_no_panic. intros key Ek. apply key_sha1_kdf in Ek. destruct Ek as (bs & ns & Ek).
  rewrite (le64_21 key (Hk bs ns key Ek)). lia.
Qed.

Theorem check_sunmd5_no_panic : forall L kdf h pw,
  (forall bs ns k, kdf T_sunmd5 bs ns = Some k -> length k = 16%nat) -> check_sunmd5 L kdf h pw <> VPanic.
Proof.
  intros L kdf h pw Hk. unfold check_sunmd5. apply with_layout_no_panic; [exact unmarshal_sunmd5_no_panic|].
  intros m. apply finish_no_panic. intros key Ek. apply key_sunmd5_kdf in Ek. destruct Ek as (bs & ns & Ek).
  rewrite (le64_16 key (Hk bs ns key Ek)). lia.
Qed.

Theorem check_des_no_panic : forall L kdf h pw,
  (forall bs ns k, kdf T_des bs ns = Some k -> length k = 8%nat) -> check_des L kdf h pw <> VPanic.
Proof.
  intros L kdf h pw Hk. unfold check_des. apply with_layout_no_panic; [exact unmarshal_des_no_panic|].
  intros m. apply finish_no_panic. intros key Ek. apply key_des_kdf in Ek. destruct Ek as (bs & ns & Ek).
  rewrite (be64_8 key (Hk bs ns key Ek)). lia.
Qed.

Theorem check_desext_no_panic : forall L kdf h pw,
  (forall bs ns k, kdf T_desext bs ns = Some k -> length k = 8%nat) -> check_desext L kdf h pw <> VPanic.
Proof.
  intros L kdf h pw Hk. unfold check_desext. apply with_layout_no_panic; [exact unmarshal_desext_no_panic|].
  intros m. apply finish_no_panic. intros key Ek. apply key_desext_kdf in Ek. destruct Ek as (bs & ns & Ek).
  rewrite (be64_8 key (Hk bs ns key Ek)). lia.
Qed.

Theorem check_bcrypt_no_panic : forall L kdf h pw,
  (forall bs ns k, kdf T_bcrypt bs ns = Some k -> length k = 23%nat) -> check_bcrypt L kdf h pw <> VPanic.
Proof.
  intros L kdf h pw Hk. unfold check_bcrypt. apply with_layout_no_panic; [exact unmarshal_bcrypt_no_panic|].
  intros m. apply finish_no_panic. intros key Ek. apply key_bcrypt_kdf in Ek. destruct Ek as (bs & ns & Ek).
  rewrite (be64_23 bcrypt_std_alphabet key (Hk bs ns key Ek)). lia.
Qed.

Theorem check_nthash_no_panic : forall L kdf nt_encode h pw,
  (forall bs ns k, kdf T_nthash bs ns = Some k -> length k = 16%nat) -> check_nthash L kdf nt_encode h pw <> VPanic.
Proof.
  intros L kdf nt_encode h pw Hk. unfold check_nthash. apply with_layout_no_panic; [exact unmarshal_nthash_no_panic|].
  intros m. apply finish_no_panic. intros key Ek. apply key_nthash_kdf in Ek. destruct Ek as (bs & ns & Ek).
  rewrite (hex_16 key (Hk bs ns key Ek)). lia.
Qed.

(* argon2 compares the encoded key as a slice of whatever length: no buffer, no hypothesis *)
Theorem check_argon2_no_panic : forall L kdf h pw, check_argon2 L kdf h pw <> VPanic.
Proof.
  intros L kdf h pw. unfold check_argon2. apply with_layout_no_panic; [exact unmarshal_argon2_no_panic|].
  intros m. destruct (key_argon2 _ _ _ _ _ _ _ _); [|discriminate]. destruct (ct_equal _ _); discriminate.
Qed.

(* the hypotheses are necessary: a derivation returning a longer key does make the model panic (the Go
   encoder would index past the fixed-size digest array) *)
Lemma finish_long_key_panics n enc key sum : (n < length (enc key))%nat -> finish n enc (KOk key) sum = VPanic.
Proof.
  intros H. unfold finish, fit. apply Nat.ltb_lt in H. rewrite H. reflexivity.
Qed.

(* ------------------------------------------------------------------ *)
(* 5. Params / Salt                                                    *)
(* ------------------------------------------------------------------ *)
Lemma params_of_no_panic st h k :
  (forall cb h, unmarshal_top cb st h <> Panic) -> (forall m, k m <> PPanic) -> params_of st h k <> PPanic.
Proof.
  intros Hu Hk. unfold params_of. specialize (Hu std_cb h).
  destruct (unmarshal_top std_cb st h) as [m|e|]; [apply Hk|discriminate|congruence].
Qed.

Theorem params_md5_no_panic : forall h, salt_md5 h <> PPanic.
Proof. intros h. apply params_of_no_panic; [exact unmarshal_md5_no_panic|discriminate]. Qed.
Theorem params_des_no_panic : forall h, salt_des h <> PPanic.
Proof. intros h. apply params_of_no_panic; [exact unmarshal_des_no_panic|discriminate]. Qed.
Theorem params_sha256_no_panic : forall h, params_sha256 h <> PPanic.
Proof. intros h. apply params_of_no_panic; [exact unmarshal_sha256_no_panic|discriminate]. Qed.
Theorem params_sha512_no_panic : forall h, params_sha512 h <> PPanic.
Proof. intros h. apply params_of_no_panic; [exact unmarshal_sha512_no_panic|discriminate]. Qed.
Theorem params_sha1_no_panic : forall h, params_sha1 h <> PPanic.
Proof. intros h. apply params_of_no_panic; [exact unmarshal_sha1_no_panic|discriminate]. Qed.
Theorem params_desext_no_panic : forall h, params_desext h <> PPanic.
Proof. intros h. apply params_of_no_panic; [exact unmarshal_desext_no_panic|discriminate]. Qed.
Theorem params_bcrypt_no_panic : forall h, params_bcrypt h <> PPanic.
Proof. intros h. apply params_of_no_panic; [exact unmarshal_bcrypt_no_panic|discriminate]. Qed.
Theorem params_sunmd5_no_panic : forall h, params_sunmd5 h <> PPanic.
Proof. intros h. apply params_of_no_panic; [exact unmarshal_sunmd5_no_panic|discriminate]. Qed.
Theorem params_argon2_no_panic : forall h, params_argon2 h <> PPanic.
Proof. intros h. apply params_of_no_panic; [exact unmarshal_argon2_no_panic|discriminate]. Qed.

Print Assumptions check_md5_no_panic.
Print Assumptions check_sha256_no_panic.
Print Assumptions check_sha512_no_panic.
Print Assumptions check_sha1_no_panic.
Print Assumptions check_sunmd5_no_panic.
Print Assumptions check_des_no_panic.
Print Assumptions check_desext_no_panic.
Print Assumptions check_bcrypt_no_panic.
Print Assumptions check_nthash_no_panic.
Print Assumptions check_argon2_no_panic.
Print Assumptions params_md5_no_panic.
Print Assumptions params_des_no_panic.
Print Assumptions params_sha256_no_panic.
Print Assumptions params_sha512_no_panic.
Print Assumptions params_sha1_no_panic.
Print Assumptions params_desext_no_panic.
Print Assumptions params_bcrypt_no_panic.
Print Assumptions params_sunmd5_no_panic.
Print Assumptions params_argon2_no_panic.
