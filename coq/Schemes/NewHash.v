(* Models of the NewHash functions of the ten scheme packages: draw the salt from the random stream, derive
   (guards + abstract derivation), encode, marshal through the codec.  Definitions only. *)
Require Import GC.Base.Bytes GC.Codec.Types GC.Codec.TypeInfo GC.Codec.Marshal GC.Codec.Codec GC.B64.B64Model
               GC.Schemes.Consts GC.Schemes.Layouts GC.Schemes.Keys GC.Schemes.Encoders GC.Schemes.Checks
               GC.Schemes.RandModel.

Inductive nres := NOk (h : bytes) | NKeyErr (e : kerr) | NCodecErr (e : cerr) | NPanic.

Definition marshal_n (st : list sfield) (fields : list (list nat * fval)) : nres :=
  match marshal_top std_cb st {| sv_fields := fields; sv_embnil := [] |} with
  | Ok s => NOk s
  | Err e => NCodecErr e
  | Panic => NPanic
  end.

Definition fit0 (n : nat) (enc : bytes) : bytes :=
  match fit n enc with Some b => b | None => firstn n enc end.

Section N.
Variable L : limits.
Variable kdf : kdf_t.
Variable nt_encode : bytes -> bytes.

Definition salt_hash (n : nat) (stream : bytes) : bytes := fst (hashutil_rand crypt_alphabet n stream).

(* md5.NewHash ignores the errors of Key and Marshal (it returns whatever Marshal returned, "" on error) *)
Definition newhash_md5 (stream pw : bytes) : nres :=
  let salt := salt_hash 8 stream in
  let key := match key_md5 L kdf pw salt with KOk k => k | KErr _ => [] end in
  match marshal_n m_layout_md5 [([0%nat], VStr m_md5_Prefix); ([1%nat], VBytes salt); ([2%nat], VBytes (fit0 22 (le64 key)))] with
  | NOk s => NOk s
  | _ => NOk []
  end.

Definition newhash_sha2 (tag : Z) (st : list sfield) (prefix : bytes) (sumlen : nat)
           (keyf : bytes -> bytes -> Z -> kres) (stream pw : bytes) (rounds : Z) : nres :=
  let salt := salt_hash 16 stream in
  match keyf pw salt rounds with
  | KErr e => NKeyErr e
  | KOk key => marshal_n st [([0%nat], VStr prefix); ([1%nat], VUint rounds); ([2%nat], VBytes salt);
                             ([3%nat], VArr (fit0 sumlen (le64 key)))]
  end.
Definition newhash_sha256 := newhash_sha2 T_sha256 m_layout_sha256 m_sha256_Prefix 43 (key_sha256 L kdf).
Definition newhash_sha512 := newhash_sha2 T_sha512 m_layout_sha512 m_sha512_Prefix 86 (key_sha512 L kdf).

(* sha1.NewHash: RandomRounds is replaced by a draw (4 bytes) before the salt is drawn *)
Definition newhash_sha1 (stream pw : bytes) (rounds : Z) : nres :=
  let '(rounds', stream') := if rounds =? L_sha1_RandomRounds L then rand_rounds m_sha1_randomHint stream else (rounds, stream) in
  let salt := salt_hash 8 stream' in
  match key_sha1 L kdf 0 pw salt rounds' with
  | KErr e => NKeyErr e
  | KOk key => marshal_n m_layout_sha1 [([0%nat], VStr m_sha1_Prefix); ([1%nat], VUint rounds'); ([2%nat], VBytes salt);
                                        ([3%nat], VArr (fit0 28 (le64 key)))]
  end.

Definition newhash_sunmd5 (stream pw : bytes) (rounds : Z) : nres :=
  let salt := salt_hash 8 stream in
  let zero := rounds =? 0 in
  let prefix := if zero then m_sunmd5_PrefixZeroRounds else m_sunmd5_PrefixNonZeroRounds in
  match key_sunmd5 L kdf pw salt rounds (Some (prefix, zero)) with
  | KErr e => NKeyErr e
  | KOk key => marshal_n m_layout_sunmd5
      [([0%nat; 0%nat], VStr prefix); ([0%nat; 1%nat], VUint rounds); ([0%nat; 2%nat], VBytes salt);
       ([0%nat; 3%nat], if zero then VNil else VStr []); ([1%nat], VArr (fit0 22 (le64 key)))]
  end.

(* des.NewHash also ignores errors *)
Definition newhash_des (stream pw : bytes) : nres :=
  let salt := salt_hash 2 stream in
  let key := match key_des L kdf pw salt with KOk k => k | KErr _ => [] end in
  match marshal_n m_layout_des [([0%nat], VStr m_des_Prefix); ([1%nat], VBytes salt); ([2%nat], VArr (fit0 11 (be64 key)))] with
  | NOk s => NOk s
  | _ => NOk []
  end.

Definition newhash_desext (stream pw : bytes) (rounds : Z) : nres :=
  let salt := salt_hash 4 stream in
  match key_desext L kdf pw salt rounds with
  | KErr e => NKeyErr e
  | KOk key => marshal_n m_layout_desext [([0%nat], VStr m_desext_Prefix); ([1%nat], VUint rounds); ([2%nat], VBytes salt);
                                          ([3%nat], VArr (fit0 11 (be64 key)))]
  end.

Definition newhash_bcrypt (stream pw : bytes) (cost : Z) : nres :=
  let salt := be64_encode bcrypt_std_alphabet (firstn 16 stream) in
  match key_bcrypt L kdf pw salt cost (Some m_bcrypt_Prefix2b) with
  | KErr e => NKeyErr e
  | KOk key => marshal_n m_layout_bcrypt [([0%nat], VStr m_bcrypt_Prefix2b); ([1%nat], VUint cost); ([2%nat], VBytes salt);
                                          ([3%nat], VArr (fit0 31 (be64_encode bcrypt_std_alphabet key)))]
  end.

Definition newhash_nthash (pw : bytes) : nres :=
  match key_nthash L kdf (nt_encode pw) with
  | KErr e => NKeyErr e
  | KOk key => marshal_n m_layout_nthash [([0%nat], VStr m_nthash_Prefix); ([1%nat], VArr []); ([2%nat], VArr (fit0 32 (hex_encode key)))]
  end.

Definition newhash_argon2 (stream pw : bytes) (memory time : Z) : nres :=
  let salt := be64_encode base64_std_alphabet (firstn 8 stream) in
  match key_argon2 L kdf pw salt memory time m_argon2_DefaultThreads (Some (m_argon2_Prefix2id, m_argon2_Version13)) with
  | KErr e => NKeyErr e
  | KOk key => marshal_n m_layout_argon2
      [([0%nat], VStr m_argon2_Prefix2id); ([1%nat], VUint m_argon2_Version13); ([2%nat], VUint memory); ([3%nat], VUint time);
       ([4%nat], VUint m_argon2_DefaultThreads); ([5%nat], VBytes salt); ([6%nat], VBytes (be64_encode base64_std_alphabet key))]
  end.
End N.

(* case evaluation: (tag, stream, password, numeric arguments, kdf table, UTF-16 password, observed) *)
Require Import GC.Base.CaseLib GC.Schemes.SchemeCases.
Definition nres_eqb (a b : nres) : bool :=
  match a, b with
  | NOk x, NOk y => bytes_eqb x y
  | NKeyErr x, NKeyErr y => kerr_eqb x y
  | NCodecErr x, NCodecErr y => cerr_eqb x y
  | NPanic, NPanic => true
  | _, _ => false
  end.
Definition newhash_by_tag (L : limits) (kdf : kdf_t) (nt : bytes -> bytes) (tag : Z) (stream pw : bytes) (ns : list Z) : nres :=
  let n k := nth k ns 0 in
  if tag =? T_md5 then newhash_md5 L kdf stream pw
  else if tag =? T_sha256 then newhash_sha256 L kdf stream pw (n 0%nat)
  else if tag =? T_sha512 then newhash_sha512 L kdf stream pw (n 0%nat)
  else if tag =? T_sha1 then newhash_sha1 L kdf stream pw (n 0%nat)
  else if tag =? T_sunmd5 then newhash_sunmd5 L kdf stream pw (n 0%nat)
  else if tag =? T_des then newhash_des L kdf stream pw
  else if tag =? T_desext then newhash_desext L kdf stream pw (n 0%nat)
  else if tag =? T_bcrypt then newhash_bcrypt L kdf stream pw (n 0%nat)
  else if tag =? T_nthash then newhash_nthash L kdf nt pw
  else if tag =? T_argon2 then newhash_argon2 L kdf stream pw (n 0%nat) (n 1%nat)
  else NPanic.
Definition ok_newhash (c : Z * bytes * bytes * list Z * list kdf_entry * bytes * nres) : bool :=
  let '(tag, stream, pw, ns, tbl, ntenc, obs) := c in
  nres_eqb (newhash_by_tag committed_limits (mk_kdf tbl) (fun _ => ntenc) tag stream pw ns) obs.
