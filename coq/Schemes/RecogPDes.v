(* C06 classification of des (no prefix; salt 2 and digest 11 in one value) and desext (_; rounds 4, salt 4,
   digest 11 in one value).  The recognisers look at the whole text with one trailing '$' stripped. *)
Require Import GC.Schemes.RecogPBase GC.Schemes.RecogPPlain GC.Schemes.RecogPStr.

Definition TI_des : tinfo := Eval vm_compute in ti_or_dummy (type_info m_layout_des).
Lemma ti_des : type_info m_layout_des = Ok TI_des.
Proof. vm_compute. reflexivity. Qed.

(* des has no prefix: whatever prefix the parser finds is refused by the (empty-only) whitelist *)
Lemma des_prefix_reject c p hl fr :
  exists e, unmarshal_tree std_cb TI_des hl {| prefix := Some (c :: p); frags := fr |} = Err e.
Proof.
  unfold unmarshal_tree, TI_des. cbn [ti_prefix prefix]. unfold assign. cbn [fi_opts o_param o_haslen bind].
  unfold convert. cbn [fi_opts o_enc]. rewrite first_invalid_encnone. cbn. eexists. reflexivity.
Qed.

Section D.
Variable L : limits.
Variable kdf : kdf_t.
Hypothesis Hk : forall bs ns k, kdf T_des bs ns = Some k -> length k = 8%nat.

Theorem des_classified_ : forall h pw, class_of (check_des L kdf h pw) = spec_des L kdf h pw.
Proof.
  intros h pw. unfold check_des, with_layout, unmarshal_top. rewrite parse_eq, ti_des. unfold parse_fn.
  destruct h as [|c r].
  - reflexivity.
  - destruct (c =? dollar) eqn:Ed.
    { apply Z.eqb_eq in Ed. subst c.
      assert (spec_des L kdf (dollar :: r) pw = 2%nat) as ->.
      { unfold spec_des, recog_des. cbv zeta. rewrite bad_first_char by (reflexivity || lia). reflexivity. }
      destruct (break_delim r) as [a [[d b]|]]; destruct a; try reflexivity.
      cbn [bind]. unfold body_tree.
      destruct (des_prefix_reject dollar ((z :: a) ++ [d]) (length (dollar :: r)) (sc [] (length (dollar :: (z :: a) ++ [d])) (length (dollar :: (z :: a) ++ [d])) b None)) as [e ->].
      reflexivity. }
    destruct (c =? underscore) eqn:Eu.
    { apply Z.eqb_eq in Eu. subst c.
      assert (spec_des L kdf (underscore :: r) pw = 2%nat) as ->.
      { unfold spec_des, recog_des. cbv zeta. rewrite bad_first_char by (reflexivity || lia). reflexivity. }
      cbn [bind]. unfold body_tree.
      destruct (des_prefix_reject underscore [] (length (underscore :: r)) (sc [] 1 1 r None)) as [e ->].
      reflexivity. }
    cbn [bind]. unfold body_tree, TI_des.
    set (h := c :: r). 
    pose proof (sc_plain h [] 0 0) as HF.
    unfold spec_des, recog_des. cbv zeta.
    destruct (in_alpha EncHash (strip_dollar h)) eqn:EA.
    + destruct (alpha_strip_pieces h EA) as [Hc Hp]. rewrite Hc in HF.
      remember (strip_dollar h) as t eqn:Et.
      destruct Hp as [Hp|Hp]; rewrite Hp in HF.
      * apply pieces_nil in Hp. discriminate Hp.
      * destruct (sc [] 0 0 h None) as [|[[p1 t1]|g1] [|f2 fr]]; cbn [fv_texts snd] in HF; try discriminate HF.
        2:{ destruct f2 as [[? ?]|?]; [destruct (fv_texts fr)|]; discriminate HF. }
        injection HF as HF. subst t1.
        unfold unmarshal_tree; cbn [ti_prefix prefix ti_fields ti_numreq frags bind].
        rewrite (in_alpha_split 2 EncHash t) in EA. apply andb_true_iff in EA. destruct EA as [EA1 EA2].
        apply first_invalid_none in EA1. apply first_invalid_none in EA2.
        unfold slen.
        crunch. all: try reflexivity.
        arr_fix; apply finish_class; intros key Hkey; apply be64_len8; eapply key_des_len; eauto.
    + rewrite andb_false_r.
      destruct (sc [] 0 0 h None) as [|[[p1 t1]|g1] [|[[p2 t2]|g2] fr]];
        cbn [fv_texts snd] in HF; try (destruct (fv_texts fr)); destruct (has_comma h); try discriminate HF.
      all: unfold unmarshal_tree; cbn [ti_prefix prefix ti_fields ti_numreq frags bind].
      all: crunch. all: try reflexivity.
      exfalso. assert (pieces dollar [] h = [t1]) as HF' by congruence.
      apply pieces_single_strip in HF'. rewrite HF' in EA.
      rewrite (in_alpha_split 2 EncHash t1), !in_alpha_fi in EA.
      match goal with H1 : first_invalid _ (firstn 2 t1) = None, H2 : first_invalid _ (skipn 2 t1) = None |- _ =>
        rewrite H1, H2 in EA end.
      discriminate EA.
Qed.
End D.

Theorem des_classified : forall L kdf h pw,
  (forall bs ns k, kdf T_des bs ns = Some k -> length k = 8%nat) ->
  class_of (check_des L kdf h pw) = spec_des L kdf h pw.
Proof. intros L kdf h pw Hk. apply des_classified_. exact Hk. Qed.

(* ---------------------------------------------------------------- desext *)
Definition TI_desext : tinfo := Eval vm_compute in ti_or_dummy (type_info m_layout_desext).
Lemma ti_desext : type_info m_layout_desext = Ok TI_desext.
Proof. vm_compute. reflexivity. Qed.

Global Arguments DecodeInt : simpl never.

(* the codec's table lookup against the recogniser's position in the alphabet *)
Definition idx_check (c : Z) : bool :=
  implb (valid_char EncHash c)
        ((hash_decode_chr c =? index_byte crypt_alphabet c 0) && (0 <=? hash_decode_chr c) && (hash_decode_chr c <? 64)).

Lemma idx_check_all : forallb (fun n => idx_check (Z.of_nat n)) (seq 0 256) = true.
Proof. vm_compute. reflexivity. Qed.

Lemma valid_range c : valid_char EncHash c = true -> 0 <= c < 256.
Proof.
  unfold valid_char. intros H. apply negb_true_iff in H. apply Z.eqb_neq in H.
  destruct (Z_lt_dec c 0) as [Hn|Hn].
  - exfalso. apply H. destruct c; try lia. reflexivity.
  - split. lia. destruct (Z_lt_dec c 256) as [Hl|Hl]. exact Hl.
    exfalso. apply H. apply nth_overflow. change (length m_hashutil_hash_decode) with 256%nat. lia.
Qed.

Lemma valid_idx c : valid_char EncHash c = true ->
  hash_decode_chr c = index_byte crypt_alphabet c 0 /\ 0 <= hash_decode_chr c < 64.
Proof.
  intros H. pose proof (valid_range c H) as R.
  pose proof idx_check_all as A. rewrite forallb_forall in A.
  specialize (A (Z.to_nat c)). rewrite Z2Nat.id in A by lia.
  assert (In (Z.to_nat c) (seq 0 256)) as Hin by (apply in_seq; lia).
  specialize (A Hin). unfold idx_check in A. rewrite H in A. cbn [implb] in A.
  apply andb_true_iff in A. destruct A as [A A3]. apply andb_true_iff in A. destruct A as [A1 A2].
  apply Z.eqb_eq in A1. apply Z.leb_le in A2. apply Z.ltb_lt in A3. auto.
Qed.

Lemma decode_bridge s : length s = 4%nat -> in_alpha EncHash s = true -> DecodeInt s = decode_le6 s 0.
Proof.
  intros Hl Ha. do 5 (destruct s as [|? s]; try discriminate Hl).
  cbn [in_alpha forallb] in Ha. repeat (apply andb_true_iff in Ha; destruct Ha as [?H Ha]).
  repeat match goal with H : valid_char EncHash ?c = true |- _ => apply valid_idx in H; destruct H as [?E ?R] end.
  unfold DecodeInt. cbn [DecodeInt_from decode_le6]. rewrite <- E, <- E0, <- E1, <- E2.
  rewrite !Z.shiftl_mul_pow2 by lia.
  change (6 * 0) with 0. change (6 * (0 + 1)) with 6. change (6 * (0 + 1 + 1)) with 12. change (6 * (0 + 1 + 1 + 1)) with 18.
  change (2 ^ 0) with 1. change (2 ^ 6) with 64. change (2 ^ 12) with 4096. change (2 ^ 18) with 262144.
  change (2 ^ 32) with 4294967296.
  rewrite !Z.add_0_r.
  rewrite (Z.mod_small (hash_decode_chr z2 * 262144)) by lia.
  rewrite (Z.mod_small (hash_decode_chr z1 * 4096 + _)) by lia.
  rewrite (Z.mod_small (hash_decode_chr z0 * 64 + _)) by lia.
  rewrite Z.mod_small by lia. reflexivity.
Qed.

Lemma parse_desext t0 : parse (underscore :: t0) = POk (body_tree (Some [underscore]) 1 t0).
Proof. rewrite parse_eq. reflexivity. Qed.

Section X.
Variable L : limits.
Variable kdf : kdf_t.
Hypothesis Hk : forall bs ns k, kdf T_desext bs ns = Some k -> length k = 8%nat.

Theorem desext_classified_ : forall h pw, class_of (check_desext L kdf h pw) = spec_desext L kdf h pw.
Proof.
  intros h pw.
  assert (has_prefix [underscore] h = false ->
          class_of (check_desext L kdf h pw) = 2%nat) as Hforeign.
  { intros HP. unfold check_desext.
    eapply foreign_prefix with (id := 11%nat); try exact ti_desext; try reflexivity.
    intros q [<-|[]]. exact HP. }
  destruct h as [|c t0].
  { rewrite Hforeign by reflexivity. reflexivity. }
  unfold spec_desext, recog_desext.
  destruct (c =? underscore) eqn:Eu.
  2:{ apply Hforeign. unfold has_prefix. rewrite Z.eqb_sym, Eu. reflexivity. }
  apply Z.eqb_eq in Eu. subst c. cbv zeta.
  unfold check_desext, with_layout, unmarshal_top. rewrite parse_desext, ti_desext. unfold TI_desext.
  cbn [bind]. unfold body_tree.
  pose proof (sc_plain t0 [] 1 1) as HF.
  destruct (in_alpha EncHash (strip_dollar t0)) eqn:EA.
  - destruct (alpha_strip_pieces t0 EA) as [Hc Hp]. rewrite Hc in HF.
    remember (strip_dollar t0) as t eqn:Et.
    destruct Hp as [Hp|Hp]; rewrite Hp in HF.
    + apply pieces_nil in Hp. subst t0. cbn in Et. subst t. reflexivity.
    + destruct (sc [] 1 1 t0 None) as [|[[p1 t1]|g1] [|f2 fr]]; cbn [fv_texts snd] in HF; try discriminate HF.
      2:{ destruct f2 as [[? ?]|?]; [destruct (fv_texts fr)|]; discriminate HF. }
      injection HF as HF. subst t1.
      eval_prefix.
      pose proof EA as EA0.
      rewrite (in_alpha_split 4 EncHash t), (in_alpha_split 4 EncHash (skipn 4 t)), skipn_skipn' in EA.
      cbn [Nat.add] in EA.
      apply andb_true_iff in EA. destruct EA as [EA1 EA]. apply andb_true_iff in EA. destruct EA as [EA2 EA3].
      pose proof EA1 as EA1'.
      apply first_invalid_none in EA1. apply first_invalid_none in EA2. apply first_invalid_none in EA3.
      unfold slen, num0.
      crunch. all: try reflexivity.
      rewrite (decode_bridge (firstn 4 t)) by (try rewrite firstn_length; try assumption; lia).
      arr_fix; apply finish_class; intros key Hkey; apply be64_len8; eapply key_desext_len; eauto.
  - rewrite andb_false_r.
    destruct (sc [] 1 1 t0 None) as [|[[p1 t1]|g1] [|[[p2 t2]|g2] fr]];
      cbn [fv_texts snd] in HF; try (destruct (fv_texts fr)); destruct (has_comma t0); try discriminate HF.
    all: eval_prefix.
    all: crunch. all: try reflexivity.
    exfalso. assert (pieces dollar [] t0 = [t1]) as HF' by congruence.
    apply pieces_single_strip in HF'. rewrite HF' in EA.
    rewrite (in_alpha_split 4 EncHash t1), (in_alpha_split 4 EncHash (skipn 4 t1)), skipn_skipn', !in_alpha_fi in EA.
    cbn [Nat.add] in EA.
    repeat match goal with H1 : first_invalid _ _ = None |- _ => rewrite H1 in EA; clear H1 end.
    discriminate EA.
Qed.
End X.

Theorem desext_classified : forall L kdf h pw,
  (forall bs ns k, kdf T_desext bs ns = Some k -> length k = 8%nat) ->
  class_of (check_desext L kdf h pw) = spec_desext L kdf h pw.
Proof. intros L kdf h pw Hk. apply desext_classified_. exact Hk. Qed.
