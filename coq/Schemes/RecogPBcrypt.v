(* C06 classification of bcrypt: $2$ / $2a$ / $2b$, cost, then salt (22, inline) and digest (31) in one value. *)
Require Import GC.Schemes.RecogPBase GC.Schemes.RecogPPlain.

Definition TI_bcrypt : tinfo := Eval vm_compute in ti_or_dummy (type_info m_layout_bcrypt).
Lemma ti_bcrypt : type_info m_layout_bcrypt = Ok TI_bcrypt.
Proof. vm_compute. reflexivity. Qed.

Lemma parse_bcrypt_2 body : parse (p_bcrypt_2 ++ body) = POk (body_tree (Some p_bcrypt_2) 3 body).
Proof. rewrite parse_eq. reflexivity. Qed.
Lemma parse_bcrypt_2a body : parse (p_bcrypt_2a ++ body) = POk (body_tree (Some p_bcrypt_2a) 4 body).
Proof. rewrite parse_eq. reflexivity. Qed.
Lemma parse_bcrypt_2b body : parse (p_bcrypt_2b ++ body) = POk (body_tree (Some p_bcrypt_2b) 4 body).
Proof. rewrite parse_eq. reflexivity. Qed.

Section B.
Variable L : limits.
Variable kdf : kdf_t.
Hypothesis Hk : forall bs ns k, kdf T_bcrypt bs ns = Some k -> length k = 23%nat.

Lemma bcrypt_body pre n body pw :
  parse (pre ++ body) = POk (body_tree (Some pre) n body) ->
  In pre [p_bcrypt_2; p_bcrypt_2a; p_bcrypt_2b] ->
  class_of (check_bcrypt L kdf (pre ++ body) pw) =
  match recog_bcrypt_body pre (pre ++ body) with
  | None => 2%nat
  | Some r => class_key (be64_encode bcrypt_std_alphabet)
                        (key_bcrypt L kdf pw (r_salt r) (num0 r) (Some (r_prefix r))) (r_sum r)
  end.
Proof.
  intros HP Hin.
  unfold check_bcrypt, with_layout, unmarshal_top. rewrite HP, ti_bcrypt. unfold TI_bcrypt.
  cbn [bind]. unfold body_tree.
  unfold recog_bcrypt_body. rewrite skipn_app_exact. cbv zeta.
  pose proof (sc_plain body [] n n) as HF. unfold plain_frags.
  destruct (sc [] n n body None) as [|[[p1 t1]|g1] [|[[p2 t2]|g2] [|[[p3 t3]|g3] r]]];
    split_frags HF body.
  all: destruct Hin as [<-|[<-|[<-|[]]]]; eval_prefix.
  all: unfold slen, num0; try rewrite (in_alpha_split 22 EncHash t2); rewrite ?in_alpha_fi.
  all: crunch. all: try reflexivity. all: try digits_alpha.
  all: arr_fix; apply finish_class; intros key Hkey; apply be64_len23; eapply key_bcrypt_len; eauto.
Qed.

Theorem bcrypt_classified_ : forall h pw, class_of (check_bcrypt L kdf h pw) = spec_bcrypt L kdf h pw.
Proof.
  intros h pw. unfold spec_bcrypt, recog_bcrypt.
  destruct (has_prefix p_bcrypt_2b h) eqn:H2b.
  { apply has_prefix_spec in H2b. destruct H2b as [body ->].
    apply (bcrypt_body p_bcrypt_2b 4 body pw (parse_bcrypt_2b body)). cbn; auto. }
  destruct (has_prefix p_bcrypt_2a h) eqn:H2a.
  { apply has_prefix_spec in H2a. destruct H2a as [body ->].
    apply (bcrypt_body p_bcrypt_2a 4 body pw (parse_bcrypt_2a body)). cbn; auto. }
  destruct (has_prefix p_bcrypt_2 h) eqn:H2.
  { apply has_prefix_spec in H2. destruct H2 as [body ->].
    apply (bcrypt_body p_bcrypt_2 3 body pw (parse_bcrypt_2 body)). cbn; auto. }
  unfold check_bcrypt.
  eapply foreign_prefix with (id := 17%nat); try exact ti_bcrypt; try reflexivity.
  intros q [<-|[<-|[<-|[]]]]; assumption.
Qed.
End B.

Theorem bcrypt_classified : forall L kdf h pw,
  (forall bs ns k, kdf T_bcrypt bs ns = Some k -> length k = 23%nat) ->
  class_of (check_bcrypt L kdf h pw) = spec_bcrypt L kdf h pw.
Proof. intros L kdf h pw Hk. apply bcrypt_classified_. exact Hk. Qed.
