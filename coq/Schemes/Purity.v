(* C13: what each Key function does to the memory of its arguments and where its result lives.
   Arguments and results are slices in the heap of Base/GoSlice.v; the hash primitives only read their
   arguments and return fresh storage (their contract, part of the trusted base).  Model and proofs. *)
Require Import GC.Base.Bytes GC.Base.CaseLib GC.Base.GoSlice GC.Schemes.Consts.

(* ---- the one Key that manipulates its argument slice: bcrypt (Key + setup) ---- *)
(* password rewriting: $2b$ and len > 72 -> password[:72] (a re-slice of the caller's array!);
   older prefixes and len >= 254 -> bytes.Repeat("0", 72) (fresh) *)
Definition bcrypt_password (h : heap) (pw : slice) (is2b : bool) : heap * slice :=
  if is2b && Nat.ltb 72 (s_len pw) then (h, reslice pw 0 72)
  else if Nat.leb 254 (s_len pw) then alloc h (repeat 48 72)
  else (h, pw).
(* setup: key = append(key[:len(key):len(key)], 0) unless the prefix is $2$  (current code) *)
Definition bcrypt_setup (h : heap) (key : slice) (is2 : bool) : heap * slice :=
  if is2 then (h, key) else append h (reslice3 key 0 (s_len key) (s_len key)) [0].
(* the pinned tree had: key = append(key, 0) *)
Definition bcrypt_setup_pinned (h : heap) (key : slice) (is2 : bool) : heap * slice :=
  if is2 then (h, key) else append h key [0].

(* the whole call: rewrite, setup, derive (reads only), result in fresh storage of 23 bytes *)
Definition bcrypt_key_heap (setup : heap -> slice -> bool -> heap * slice)
           (h : heap) (pw : slice) (is2 is2b : bool) (result : bytes) : heap * slice :=
  let '(h1, pw1) := bcrypt_password h pw is2b in
  let '(h2, _) := setup h1 pw1 is2 in
  alloc h2 result.

(* every other Key only reads its arguments (possibly through re-slices) and allocates its result *)
Definition readonly_key_heap (h : heap) (result : bytes) : heap * slice := alloc h result.

(* ---- properties ---- *)
Definition unchanged (h h' : heap) (a : nat) : Prop := contents h' a = contents h a.
Definition fresh_in (h : heap) (s : slice) : Prop := (h_next h <= s_arr s)%nat.

Lemma arr_get_set_other l a b c : a <> b -> arr_get (arr_set l b c) a = arr_get l a.
Proof.
  intros Hne. induction l as [|[x d] r IH]; simpl.
  - destruct (Nat.eqb_spec a b); [contradiction|reflexivity].
  - destruct (Nat.eqb_spec b x) as [->|Hbx]; simpl.
    + destruct (Nat.eqb_spec a x); [contradiction|reflexivity].
    + destruct (Nat.eqb_spec a x); auto.
Qed.

Lemma alloc_unchanged h bs a : (a < h_next h)%nat -> unchanged h (fst (alloc h bs)) a.
Proof.
  intros Ha. unfold unchanged, contents, alloc. simpl.
  destruct (Nat.eqb_spec a (h_next h)); [lia|reflexivity].
Qed.
Lemma alloc_fresh h bs : fresh_in h (snd (alloc h bs)).
Proof. unfold fresh_in, alloc. simpl. lia. Qed.

(* append on a slice whose capacity equals its length never writes the old array *)
Lemma append_full_cap h s bs a : bs <> [] -> s_cap s = s_len s -> (a < h_next h)%nat ->
  unchanged h (fst (append h s bs)) a.
Proof.
  intros Hbs Hcap Ha. unfold append.
  destruct (Nat.leb_spec (s_len s + length bs) (s_cap s)) as [H|H].
  - destruct bs; [congruence|]. simpl in H. lia.
  - apply alloc_unchanged. exact Ha.
Qed.

(* C13 for bcrypt, current code: for every heap, every argument slice with any spare capacity, every prefix:
   every array that existed before the call keeps its contents over its full length, and the result is fresh *)
Theorem bcrypt_pure h pw is2 is2b result a :
  (a < h_next h)%nat ->
  unchanged h (fst (bcrypt_key_heap bcrypt_setup h pw is2 is2b result)) a
  /\ fresh_in h (snd (bcrypt_key_heap bcrypt_setup h pw is2 is2b result)).
Proof.
  intros Ha. unfold bcrypt_key_heap.
  destruct (bcrypt_password h pw is2b) as [h1 pw1] eqn:E1.
  assert (H1 : unchanged h h1 a /\ (h_next h <= h_next h1)%nat).
  { unfold bcrypt_password in E1.
    destruct (is2b && Nat.ltb 72 (s_len pw)); [inversion E1; subst; split; [reflexivity|lia]|].
    destruct (Nat.leb 254 (s_len pw)).
    - inversion E1; subst. split; [apply alloc_unchanged; exact Ha|simpl; lia].
    - inversion E1; subst. split; [reflexivity|lia]. }
  destruct H1 as [H1 Hn1].
  destruct (bcrypt_setup h1 pw1 is2) as [h2 k2] eqn:E2.
  assert (H2 : unchanged h1 h2 a /\ (h_next h1 <= h_next h2)%nat).
  { unfold bcrypt_setup in E2. destruct is2; [inversion E2; subst; split; [reflexivity|lia]|].
    pose proof (append_full_cap h1 (reslice3 pw1 0 (s_len pw1) (s_len pw1)) [0] a) as Hap.
    rewrite E2 in Hap. cbn [fst] in Hap. split.
    - apply Hap; [discriminate| unfold reslice3; simpl; lia | lia].
    - unfold append in E2. destruct (Nat.leb _ _) in E2; inversion E2; subst; simpl; lia. }
  destruct H2 as [H2 Hn2].
  split.
  - unfold unchanged in *. rewrite (alloc_unchanged h2 result a) by lia. rewrite H2. exact H1.
  - pose proof (alloc_fresh h2 result) as Hf. unfold fresh_in in *. lia.
Qed.

(* the same statement is FALSE of the pinned code: with spare capacity behind the password the caller's
   array is written at index off+len (witness: 8-byte password in a 16-byte buffer) *)
Example bcrypt_pinned_refuted :
  let h := {| h_arrays := [(0%nat, repeat 65 16)]; h_next := 1 |} in
  let pw := {| s_arr := 0; s_off := 0; s_len := 8; s_cap := 16 |} in
  contents (fst (bcrypt_key_heap bcrypt_setup_pinned h pw false true [])) 0 = repeat 65 8 ++ [0] ++ repeat 65 7.
Proof. vm_compute. reflexivity. Qed.

Theorem readonly_pure h result a : (a < h_next h)%nat ->
  unchanged h (fst (readonly_key_heap h result)) a /\ fresh_in h (snd (readonly_key_heap h result)).
Proof. intros Ha. split; [apply alloc_unchanged; exact Ha | apply alloc_fresh]. Qed.

(* two results never share storage: each is allocated after the other's array exists *)
Theorem results_disjoint h r1 r2 :
  let '(h1, s1) := readonly_key_heap h r1 in
  let '(_, s2) := readonly_key_heap h1 r2 in s_arr s1 <> s_arr s2.
Proof. unfold readonly_key_heap, alloc. simpl. lia. Qed.

(* case evaluation: bcrypt with a password of length n in a buffer with [spare] bytes of capacity behind it:
   the offsets of the buffer that change *)
Definition changed_offsets (before after : bytes) : list nat :=
  map (fun p => fst (fst p)) (filter (fun p => negb (snd (fst p) =? snd p))
                  (combine (combine (seq 0 (length before)) before) after)).

Definition ok_bcrypt_buffer (c : nat * nat * bool * bool * list nat) : bool :=
  let '(n, spare, is2, is2b, observed) := c in
  let buf := repeat 165 (n + spare) in
  let h := {| h_arrays := [(0%nat, buf)]; h_next := 1 |} in
  let pw := {| s_arr := 0; s_off := 0; s_len := n; s_cap := n + spare |} in
  let h' := fst (bcrypt_key_heap bcrypt_setup h pw is2 is2b []) in
  list_eqb Nat.eqb (changed_offsets buf (contents h' 0)) observed.
