(* kdf_ok for the concrete derivation [kdf_models] (ConcreteBase.v) and the concrete C01 theorems for sunmd5,
   argon2 (strong form: every argument list) and bcrypt (relativised form: the strong form is false, see below). *)
Require Import GC.Schemes.FreshBase GC.Schemes.FreshPlain GC.Schemes.FreshOther GC.Schemes.ConcreteBase.
Require Import GC.Schemes.RandProofs GC.Schemes.NoPanic.
Require Import GC.Kdf.KdfBase GC.Kdf.KdfBaseProofs GC.Extract.Wrap.
Require GC.Kdf.SunMd5 GC.Kdf.SafeSunMd5 GC.Kdf.Bcrypt GC.Kdf.BcryptProofs GC.Kdf.SafeBcrypt GC.Kdf.Argon2.

Local Notation salt_ok s := (in_alpha EncHash s = true).

(* ------------------------------------------------------------------ *)
(* sunmd5                                                              *)
(* ------------------------------------------------------------------ *)
Lemma sunmd5_rounds_wf H phrase n : (forall x, wf_bytes (H x) = true) ->
  forall d i, wf_bytes d = true -> wf_bytes (SunMd5.rounds H phrase n d i) = true.
Proof.
  intros HH. induction n as [|n IH]; intros d i Hd; cbn [SunMd5.rounds]. exact Hd.
  apply IH. unfold SunMd5.round. apply HH.
Qed.

(* whatever the salt string and the round count (uint32 wrap included) *)
Lemma sunmd5_ok H pw saltString nrounds : hash_contract H 16 ->
  exists k, x_sunmd5 H pw saltString nrounds = Some k /\ length k = 16%nat /\ wf_bytes k = true.
Proof.
  intros HH.
  assert (forall x, length (H x) = 16%nat) as HL by (intros x; apply HH).
  assert (forall x, wf_bytes (H x) = true) as HW by (intros x; apply HH).
  destruct (SafeSunMd5.sunmd5_Key_safe H HL pw saltString nrounds) as (k & _ & E & Lk).
  exists k. unfold x_sunmd5. split. exact E. split. exact Lk.
  unfold SunMd5.Key in E. cbv zeta in E. eapply permute_wf; [|exact E].
  apply sunmd5_rounds_wf. exact HW. apply HW.
Qed.

(* ------------------------------------------------------------------ *)
(* argon2: the key is H'(32, last block) = BLAKE2b-32 of something      *)
(* ------------------------------------------------------------------ *)
Lemma argon2_key_shape B2 mode version pw salt time memory threads keyLen :
  exists x, Argon2.Key B2 mode version pw salt time memory threads keyLen = Argon2.Hprime B2 keyLen x.
Proof. unfold Argon2.Key, Argon2.extractKey. cbv zeta. eexists. reflexivity. Qed.

Lemma argon2_ok B2 mode version pw salt time memory threads : blake2b_contract B2 ->
  length (x_argon2 B2 mode version pw salt time memory threads m_argon2_keyLen) = 32%nat /\
  wf_bytes (x_argon2 B2 mode version pw salt time memory threads m_argon2_keyLen) = true.
Proof.
  intros HB. unfold x_argon2.
  destruct (argon2_key_shape B2 mode version pw salt time memory threads m_argon2_keyLen) as (x & ->).
  unfold Argon2.Hprime. change (m_argon2_keyLen <=? 64) with true. cbv iota.
  apply (HB m_argon2_keyLen). unfold m_argon2_keyLen. lia.
Qed.

(* ------------------------------------------------------------------ *)
(* bcrypt                                                              *)
(* ------------------------------------------------------------------ *)
Lemma iter_enc_wf (C : Type) (f : bytes -> bytes) n b : (forall x, wf_bytes (f x) = true) ->
  wf_bytes (Bcrypt.iter (S n) f b) = true.
Proof.
  intros Hf. revert b. induction n as [|n IH]; intros b.
  - cbn [Bcrypt.iter]. apply Hf.
  - rewrite BcryptProofs.iter_S. apply IH.
Qed.

(* the derivation answers exactly when the Blowfish key is not empty (the 22 salt symbols decode to 16 bytes) *)
Lemma bcrypt_derive_ok C bf_new bf_expand bf_encrypt key salt22 cost :
  blowfish_contract C bf_new bf_encrypt -> key <> [] -> length salt22 = 22%nat ->
  exists k, x_bcrypt C bf_new bf_expand bf_encrypt key salt22 cost = Some k /\ length k = 23%nat /\ wf_bytes k = true.
Proof.
  intros (Hnew & Hlen & Hwf) Hkey Hsalt. unfold x_bcrypt.
  assert (be64_decode m_bcrypt_alphabet salt22 <> []) as Hdec.
  { pose proof (SafeBcrypt.be64_decode_22 m_bcrypt_alphabet salt22 Hsalt) as L.
    intros E. rewrite E in L. discriminate L. }
  destruct (Hnew key _ Hkey Hdec) as (c0 & Ec).
  rewrite (BcryptProofs.bcrypt_impl_spec C bf_new bf_expand bf_encrypt m_bcrypt_alphabet key salt22 cost Hlen).
  unfold Bcrypt.spec_derive. cbv zeta. rewrite Ec.
  match goal with |- context [Bcrypt.ecb C bf_encrypt ?c] => set (c1 := c) end.
  rewrite BcryptProofs.iter_ecb. cbn [map concat]. rewrite app_nil_r.
  eexists. split. reflexivity. split.
  - rewrite firstn_length, !app_length, !(BcryptProofs.iter_length C bf_encrypt) by exact Hlen. reflexivity.
  - apply wf_bytes_firstn. rewrite !B64Accept.wf_bytes_app.
    rewrite !(iter_enc_wf C (bf_encrypt c1) 63) by (intros x; apply Hwf). reflexivity.
Qed.

(* ------------------------------------------------------------------ *)
(* bcrypt: C01 re-proved under a hypothesis restricted to the argument  *)
(* lists key_bcrypt passes                                             *)
(* ------------------------------------------------------------------ *)
(* kdf_ok kdf T_bcrypt 23 asks an answer for EVERY argument list, including an empty Blowfish key, which
   NewSaltedCipher rejects: it is false of the concrete derivation (bcrypt_strong_form_fails below).  The
   relativised hypothesis: an answer whenever the key is not empty and there are 22 salt symbols (key_bcrypt
   tests both before calling the derivation), and 23 bytes whenever there is an answer. *)
Definition kdf_ok_bcrypt_on (kdf : kdf_t) : Prop :=
  (forall key salt cost, key <> [] -> length salt = 22%nat ->
     exists k, kdf T_bcrypt [key; salt] [cost] = Some k /\ length k = 23%nat /\ wf_bytes k = true) /\
  (forall bs ns k, kdf T_bcrypt bs ns = Some k -> length k = 23%nat).

Lemma kdf_ok_bcrypt_weaken kdf : kdf_ok kdf T_bcrypt 23 -> kdf_ok_bcrypt_on kdf.
Proof. intros H. split. intros key salt cost _ _. apply H. apply (kdf_ok_len _ _ _ H). Qed.

(* key_bcrypt_2b (FreshOther.v) with the extra fact that the Blowfish key is not empty *)
Lemma key_bcrypt_2b_ne kdf pw salt cost :
  length salt = 22%nat -> salt_ok salt -> L_bcrypt_MinCost L0 <= cost <= L_bcrypt_MaxCost L0 ->
  exists k, k <> [] /\ key_bcrypt L0 kdf pw salt cost (Some m_bcrypt_Prefix2b) = run_kdf kdf T_bcrypt [k; salt] [cost].
Proof.
  intros Hls Hs Hc. unfold key_bcrypt. cbv zeta.
  change (bytes_eqb m_bcrypt_Prefix2b m_bcrypt_Prefix2) with false.
  change (bytes_eqb m_bcrypt_Prefix2b m_bcrypt_Prefix2a) with false.
  change (bytes_eqb m_bcrypt_Prefix2b m_bcrypt_Prefix2b) with true. cbn [orb negb andb].
  unfold len. rewrite Hls. change (negb (Z.of_nat 22 =? L_bcrypt_Salt L0)) with false. cbv iota.
  unfold first_bad_hash. rewrite (in_alpha_fi_none _ _ Hs).
  destruct (cost <? L_bcrypt_MinCost L0) eqn:E1. apply Z.ltb_lt in E1. lia.
  destruct (L_bcrypt_MaxCost L0 <? cost) eqn:E2. apply Z.ltb_lt in E2. lia. cbn [orb].
  match goal with |- context [?p ++ [0]] => set (pw' := p) end.
  destruct (pw' ++ [0]) as [|a r] eqn:E.
  - apply app_eq_nil in E. destruct E as [_ E]. discriminate E.
  - exists (a :: r). split. discriminate. reflexivity.
Qed.

Section BCRYPT_ON.
Variables (kdf : kdf_t) (stream pw : bytes) (cost : Z).
Hypothesis Hk : kdf_ok_bcrypt_on kdf.
Hypothesis Hs : good_stream stream 16.
Hypothesis Hc : L_bcrypt_MinCost L0 <= cost <= L_bcrypt_MaxCost L0.
Let salt := be64_encode bcrypt_std_alphabet (firstn 16 stream).

Lemma bcrypt_fresh_facts_on :
  exists key, key_bcrypt L0 kdf pw salt cost (Some m_bcrypt_Prefix2b) = KOk key /\ length key = 23%nat /\
              wf_bytes key = true /\ salt_ok salt /\ length salt = 22%nat /\
              newhash_bcrypt L0 kdf stream pw cost =
              NOk (canon_bcrypt cost salt (be64_encode bcrypt_std_alphabet key)).
Proof.
  pose proof (bcrypt_salt_length stream Hs) as Hls. fold salt in Hls.
  assert (salt_ok salt) as Hsalt by (apply bcrypt_valid, (bcrypt_salt_over stream Hs)).
  destruct (key_bcrypt_2b_ne kdf pw salt cost Hls Hsalt Hc) as (k & Hne & Ekey).
  destruct Hk as (Hon & _). destruct (Hon k salt cost Hne Hls) as (key & Er & Hl & Hw).
  assert (key_bcrypt L0 kdf pw salt cost (Some m_bcrypt_Prefix2b) = KOk key) as Ek.
  { rewrite Ekey. unfold run_kdf. rewrite Er. reflexivity. }
  exists key. repeat (split; [assumption|]).
  unfold newhash_bcrypt. cbv zeta. fold salt. rewrite Ek.
  rewrite fit0_exact by (apply be64_23, Hl).
  apply marshal_bcrypt; [exact Hc|exact Hls|exact Hsalt|apply be64_23, Hl
                        |apply bcrypt_valid, be64_over; [reflexivity|exact Hw]].
Qed.

Theorem bcrypt_fresh_verifies_on :
  exists h, newhash_bcrypt L0 kdf stream pw cost = NOk h /\ check_bcrypt L0 kdf h pw = VMatch /\
            prefix_of h = Some m_bcrypt_Prefix2b /\ In (m_bcrypt_Prefix2b, S_bcrypt) documented_registrations.
Proof.
  destruct bcrypt_fresh_facts_on as (key & Ek & Hl & Hw & Hsalt & Hls & En).
  exists (canon_bcrypt cost salt (be64_encode bcrypt_std_alphabet key)). split. exact En.
  split. apply bcrypt_check_canon; auto. apply Hk.
  split. apply bcrypt_prefix. cbn. tauto.
Qed.

Theorem bcrypt_canonical_on :
  exists key, key_bcrypt L0 kdf pw (be64_encode bcrypt_std_alphabet (firstn 16 stream)) cost (Some m_bcrypt_Prefix2b) = KOk key /\
    newhash_bcrypt L0 kdf stream pw cost =
      NOk (canon_bcrypt cost (be64_encode bcrypt_std_alphabet (firstn 16 stream)) (be64_encode bcrypt_std_alphabet key)) /\
    len (be64_encode bcrypt_std_alphabet (firstn 16 stream)) = m_bcrypt_SaltLength /\
    over bcrypt_std_alphabet (be64_encode bcrypt_std_alphabet (firstn 16 stream)) /\
    len (be64_encode bcrypt_std_alphabet key) = m_bcrypt_sumLength /\
    over bcrypt_std_alphabet (be64_encode bcrypt_std_alphabet key) /\
    length (cost_text cost) = 2%nat /\ is_digits (cost_text cost) = true.
Proof.
  destruct bcrypt_fresh_facts_on as (key & Ek & Hl & Hw & Hsalt & Hls & En). exists key.
  split. exact Ek. split. exact En.
  split. unfold len. fold salt. rewrite Hls. reflexivity.
  split. apply (bcrypt_salt_over stream Hs).
  split. unfold len. rewrite (be64_23 _ key Hl). reflexivity.
  split. apply be64_over. reflexivity. exact Hw.
  destruct (cost_text_facts cost Hc) as (A & B & _). auto.
Qed.
End BCRYPT_ON.

(* ------------------------------------------------------------------ *)
(* kdf_ok for the concrete derivation, and C01 on it                   *)
(* ------------------------------------------------------------------ *)
Section Concrete.
Variables MD5 SHA256 SHA512 MD4 : bytes -> bytes.
Variable HMAC1 : bytes -> bytes -> bytes.
Variable C : Type.
Variable bf_new : bytes -> bytes -> option C.
Variable bf_expand : bytes -> C -> C.
Variable bf_encrypt : C -> bytes -> bytes.
Variable B2 : Z -> bytes -> bytes.

Local Notation KDF := (kdf_models MD5 SHA256 SHA512 MD4 HMAC1 C bf_new bf_expand bf_encrypt B2).

Theorem kdf_models_ok_sunmd5 : hash_contract MD5 16 -> kdf_ok KDF T_sunmd5 16.
Proof. intros HH bs ns. rewrite kdf_models_sunmd5. apply sunmd5_ok, HH. Qed.

Theorem kdf_models_ok_argon2 : blake2b_contract B2 -> kdf_ok KDF T_argon2 32.
Proof.
  intros HB bs ns. rewrite kdf_models_argon2. eexists. split. reflexivity. apply argon2_ok, HB.
Qed.

Theorem kdf_models_ok_bcrypt_on : blowfish_contract C bf_new bf_encrypt -> kdf_ok_bcrypt_on KDF.
Proof.
  intros HB. split.
  - intros key salt cost Hne Hls. rewrite kdf_models_bcrypt. cbn [barg narg nth].
    apply bcrypt_derive_ok; assumption.
  - intros bs ns k. rewrite kdf_models_bcrypt. unfold x_bcrypt.
    apply BcryptProofs.bcrypt_derive_length. apply HB.
Qed.

Theorem sunmd5_fresh_verifies_concrete : forall stream pw rounds,
  hash_contract MD5 16 -> good_stream stream 8 -> len pw <= L_sunmd5_MaxPw L0 ->
  0 <= rounds <= L_sunmd5_MaxRounds L0 ->
  exists h, newhash_sunmd5 L0 KDF stream pw rounds = NOk h /\ check_sunmd5 L0 KDF h pw = VMatch /\
            prefix_of h = Some (sunmd5_prefix_for rounds) /\
            In (sunmd5_prefix_for rounds, S_sunmd5) documented_registrations.
Proof.
  intros stream pw rounds HH Hs Hp Hr. apply sunmd5_fresh_verifies. apply kdf_models_ok_sunmd5, HH.
  exact Hs. exact Hp. exact Hr.
Qed.

Theorem argon2_fresh_verifies_concrete : forall stream pw memory time,
  blake2b_contract B2 -> good_stream stream 8 ->
  L_argon2_MinMemory L0 <= memory < 2 ^ 32 -> L_argon2_MinTime L0 <= time < 2 ^ 32 ->
  exists h, newhash_argon2 L0 KDF stream pw memory time = NOk h /\ check_argon2 L0 KDF h pw = VMatch /\
            prefix_of h = Some m_argon2_Prefix2id /\ In (m_argon2_Prefix2id, S_argon2) documented_registrations.
Proof.
  intros stream pw memory time HB Hs Hm Ht. apply argon2_fresh_verifies. apply kdf_models_ok_argon2, HB.
  exact Hs. exact Hm. exact Ht.
Qed.

Theorem bcrypt_fresh_verifies_concrete : forall stream pw cost,
  blowfish_contract C bf_new bf_encrypt -> good_stream stream 16 ->
  L_bcrypt_MinCost L0 <= cost <= L_bcrypt_MaxCost L0 ->
  exists h, newhash_bcrypt L0 KDF stream pw cost = NOk h /\ check_bcrypt L0 KDF h pw = VMatch /\
            prefix_of h = Some m_bcrypt_Prefix2b /\ In (m_bcrypt_Prefix2b, S_bcrypt) documented_registrations.
Proof.
  intros stream pw cost HB Hs Hc. apply bcrypt_fresh_verifies_on. apply kdf_models_ok_bcrypt_on, HB. exact Hs. exact Hc.
Qed.
End Concrete.

(* the strong form is false for bcrypt: a Blowfish that rejects the empty key (as the real one does) satisfies the
   contract, and then the concrete derivation has no answer for the argument list [[]; salt] [cost] *)
Theorem bcrypt_strong_form_fails :
  exists (C : Type) (bf_new : bytes -> bytes -> option C) (bf_expand : bytes -> C -> C) (bf_encrypt : C -> bytes -> bytes),
    blowfish_contract C bf_new bf_encrypt /\
    forall MD5 SHA256 SHA512 MD4 HMAC1 B2,
      ~ kdf_ok (kdf_models MD5 SHA256 SHA512 MD4 HMAC1 C bf_new bf_expand bf_encrypt B2) T_bcrypt 23.
Proof.
  exists unit, (fun key _ => match key with [] => None | _ => Some tt end), (fun _ c => c),
         (fun _ b => map (fun x => x mod 256) b).
  split.
  - split; [|split].
    + intros key salt Hk _. destruct key. contradiction. exists tt. reflexivity.
    + intros c b. apply map_length.
    + intros c b. apply wf_bytes_forall, Forall_forall. intros x Hx. apply in_map_iff in Hx.
      destruct Hx as (y & <- & _). apply Z.mod_pos_bound. lia.
  - intros MD5 SHA256 SHA512 MD4 HMAC1 B2 H. destruct (H [] []) as (k & E & _).
    rewrite kdf_models_bcrypt in E. discriminate E.
Qed.

Print Assumptions kdf_models_ok_sunmd5.
Print Assumptions kdf_models_ok_argon2.
Print Assumptions kdf_models_ok_bcrypt_on.
Print Assumptions sunmd5_fresh_verifies_concrete.
Print Assumptions argon2_fresh_verifies_concrete.
Print Assumptions bcrypt_fresh_verifies_on.
Print Assumptions bcrypt_canonical_on.
Print Assumptions bcrypt_fresh_verifies_concrete.
Print Assumptions bcrypt_strong_form_fails.
