(* Helpers for the correspondence check: the harness writes observed cases, Coq evaluates the model. *)
Require Import GC.Base.Bytes.

Fixpoint mism_from {A} (ok : A -> bool) (n : nat) (l : list A) : list nat :=
  match l with
  | [] => []
  | x :: r => if ok x then mism_from ok (S n) r else n :: mism_from ok (S n) r
  end.
Definition mismatches {A} (ok : A -> bool) (l : list A) : list nat := mism_from ok O l.

Definition opt_eqb {A} (eqb : A -> A -> bool) (a b : option A) : bool :=
  match a, b with
  | None, None => true
  | Some x, Some y => eqb x y
  | _, _ => false
  end.

Fixpoint list_eqb {A} (eqb : A -> A -> bool) (a b : list A) : bool :=
  match a, b with
  | [], [] => true
  | x :: a', y :: b' => eqb x y && list_eqb eqb a' b'
  | _, _ => false
  end.

Definition pair_eqb {A B} (ea : A -> A -> bool) (eb : B -> B -> bool) (a b : A * B) : bool :=
  ea (fst a) (fst b) && eb (snd a) (snd b).
