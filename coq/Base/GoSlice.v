(* A small heap model of Go byte slices: arrays by identifier, slices as (array, offset, length, capacity),
   append writing in place when capacity allows — exactly the aliasing behaviour C13 is about.  *)
Require Import GC.Base.Bytes.

Record slice := { s_arr : nat; s_off : nat; s_len : nat; s_cap : nat }.   (* cap counted from s_off *)
Record heap := { h_arrays : list (nat * bytes); h_next : nat }.

Fixpoint arr_get (l : list (nat * bytes)) (a : nat) : bytes :=
  match l with [] => [] | (b, c) :: r => if Nat.eqb a b then c else arr_get r a end.
Fixpoint arr_set (l : list (nat * bytes)) (a : nat) (c : bytes) : list (nat * bytes) :=
  match l with
  | [] => [(a, c)]
  | (b, d) :: r => if Nat.eqb a b then (b, c) :: r else (b, d) :: arr_set r a c
  end.
Definition contents (h : heap) (a : nat) : bytes := arr_get (h_arrays h) a.
Definition slice_bytes (h : heap) (s : slice) : bytes := firstn (s_len s) (skipn (s_off s) (contents h (s_arr s))).

(* overwrite positions [at, at+len bs) of a list *)
Definition write_at (c : bytes) (at_ : nat) (bs : bytes) : bytes :=
  firstn at_ c ++ bs ++ skipn (at_ + length bs) c.

(* make([]byte, n) / any fresh allocation holding bs *)
Definition alloc (h : heap) (bs : bytes) : heap * slice :=
  ({| h_arrays := (h_next h, bs) :: h_arrays h; h_next := S (h_next h) |},
   {| s_arr := h_next h; s_off := 0; s_len := length bs; s_cap := length bs |}).

(* s[lo:hi] and s[lo:hi:max] *)
Definition reslice (s : slice) (lo hi : nat) : slice :=
  {| s_arr := s_arr s; s_off := s_off s + lo; s_len := hi - lo; s_cap := s_cap s - lo |}.
Definition reslice3 (s : slice) (lo hi mx : nat) : slice :=
  {| s_arr := s_arr s; s_off := s_off s + lo; s_len := hi - lo; s_cap := mx - lo |}.

(* append(s, bs...): in place when len+|bs| <= cap, otherwise a new array holding the old elements *)
Definition append (h : heap) (s : slice) (bs : bytes) : heap * slice :=
  if Nat.leb (s_len s + length bs) (s_cap s) then
    ({| h_arrays := arr_set (h_arrays h) (s_arr s) (write_at (contents h (s_arr s)) (s_off s + s_len s) bs);
        h_next := h_next h |},
     {| s_arr := s_arr s; s_off := s_off s; s_len := s_len s + length bs; s_cap := s_cap s |})
  else alloc h (slice_bytes h s ++ bs).

(* a slice lies inside its array *)
Definition slice_wf (h : heap) (s : slice) : Prop :=
  (s_len s <= s_cap s)%nat /\ (s_off s + s_cap s <= length (contents h (s_arr s)))%nat /\ (s_arr s < h_next h)%nat.
Definition heap_wf (h : heap) : Prop := forall a c, In (a, c) (h_arrays h) -> (a < h_next h)%nat.
