(* Base conventions: byte strings are [list Z]; a few Go string primitives. *)
From Coq Require Export ZArith List Lia Bool.
Export ListNotations.
Open Scope Z_scope.

Definition bytes := list Z.

Definition dollar : Z := 36.
Definition comma : Z := 44.
Definition underscore : Z := 95.
Definition equals : Z := 61.

Definition wf_byte (b : Z) : bool := (0 <=? b) && (b <? 256).
Definition wf_bytes (s : bytes) : bool := forallb wf_byte s.

Fixpoint bytes_eqb (a b : bytes) : bool :=
  match a, b with
  | [], [] => true
  | x :: a', y :: b' => (x =? y) && bytes_eqb a' b'
  | _, _ => false
  end.

Lemma bytes_eqb_eq a b : bytes_eqb a b = true <-> a = b.
Proof.
  revert b; induction a as [|x a IH]; intros [|y b]; simpl; split; intros H;
    try reflexivity; try discriminate.
  - apply andb_true_iff in H. destruct H as [H1 H2].
    apply Z.eqb_eq in H1. apply IH in H2. subst; reflexivity.
  - inversion H; subst. rewrite Z.eqb_refl. simpl. apply IH. reflexivity.
Qed.

Lemma bytes_eqb_refl a : bytes_eqb a a = true.
Proof. apply bytes_eqb_eq; reflexivity. Qed.

Lemma bytes_eqb_neq a b : bytes_eqb a b = false <-> a <> b.
Proof.
  split; intros H.
  - intros E. apply bytes_eqb_eq in E. congruence.
  - destruct (bytes_eqb a b) eqn:E; auto. apply bytes_eqb_eq in E. contradiction.
Qed.

(* strings.HasPrefix *)
Fixpoint has_prefix (p s : bytes) : bool :=
  match p, s with
  | [], _ => true
  | a :: p', b :: s' => (a =? b) && has_prefix p' s'
  | _ :: _, [] => false
  end.

Lemma has_prefix_app p t : has_prefix p (p ++ t) = true.
Proof. induction p; simpl; auto. rewrite Z.eqb_refl. simpl. auto. Qed.

Lemma has_prefix_spec p s : has_prefix p s = true <-> exists t, s = p ++ t.
Proof.
  revert s; induction p as [|a p IH]; intros s; simpl.
  - split; eauto.
  - destruct s as [|b s].
    + split; [discriminate|]. intros [t H]. discriminate.
    + rewrite andb_true_iff, Z.eqb_eq, IH. split.
      * intros [-> [t ->]]. eauto.
      * intros [t H]. inversion H; subst. eauto.
Qed.

(* strings.TrimPrefix *)
Definition trim_prefix (p s : bytes) : bytes :=
  if has_prefix p s then skipn (length p) s else s.

Lemma skipn_app_exact {A} (p t : list A) : skipn (length p) (p ++ t) = t.
Proof. induction p; simpl; auto. Qed.

Lemma firstn_app_exact {A} (p t : list A) : firstn (length p) (p ++ t) = p.
Proof. induction p; simpl; auto. f_equal; auto. Qed.

Lemma trim_prefix_app p t : trim_prefix p (p ++ t) = t.
Proof. unfold trim_prefix. rewrite has_prefix_app. apply skipn_app_exact. Qed.

(* membership of a byte in a set of bytes (strings.IndexByte >= 0) *)
Fixpoint mem (c : Z) (s : bytes) : bool :=
  match s with [] => false | x :: r => (x =? c) || mem c r end.

Lemma mem_In c s : mem c s = true <-> In c s.
Proof.
  induction s as [|x s IH]; simpl. split; [discriminate|tauto].
  rewrite orb_true_iff, Z.eqb_eq, IH. tauto.
Qed.

(* strings.IndexAny(s, chars): index of the first byte of s that is in chars *)
Fixpoint index_any (chars s : bytes) : option nat :=
  match s with
  | [] => None
  | c :: r => if mem c chars then Some O
              else match index_any chars r with Some i => Some (S i) | None => None end
  end.

Lemma index_any_some chars s i :
  index_any chars s = Some i ->
  exists a d b, s = a ++ d :: b /\ length a = i /\ mem d chars = true /\
                forallb (fun c => negb (mem c chars)) a = true.
Proof.
  revert i; induction s as [|c r IH]; intros i H; simpl in H. discriminate.
  destruct (mem c chars) eqn:E.
  - inversion H; subst. exists [], c, r. simpl. auto.
  - destruct (index_any chars r) as [j|] eqn:Ej; [|discriminate]. inversion H; subst.
    destruct (IH j eq_refl) as (a & d & b & -> & Hl & Hd & Ha).
    exists (c :: a), d, b. simpl. rewrite E, Ha, Hl. auto.
Qed.

Lemma index_any_none chars s :
  index_any chars s = None <-> forallb (fun c => negb (mem c chars)) s = true.
Proof.
  induction s as [|c r IH]; simpl. tauto.
  destruct (mem c chars); simpl. split; discriminate.
  destruct (index_any chars r); simpl in *.
  - split; [discriminate|]. intros H. apply IH in H. discriminate.
  - tauto.
Qed.

Lemma index_any_app_found chars a d b :
  forallb (fun c => negb (mem c chars)) a = true -> mem d chars = true ->
  index_any chars (a ++ d :: b) = Some (length a).
Proof.
  intros Ha Hd. induction a as [|c a IH]; simpl in *. rewrite Hd; auto.
  apply andb_true_iff in Ha. destruct Ha as [Hc Ha]. apply negb_true_iff in Hc.
  rewrite Hc, (IH Ha). reflexivity.
Qed.

(* Go slicing s[lo:hi] on lists, total version (callers establish bounds) *)
Definition slice (s : bytes) (lo hi : nat) : bytes := firstn (hi - lo) (skipn lo s).

Fixpoint join (sep : Z) (l : list bytes) : bytes :=
  match l with [] => [] | [x] => x | x :: r => x ++ sep :: join sep r end.
