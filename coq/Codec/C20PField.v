(* C20 converse direction, part 5: what Marshal writes back for a value Unmarshal obtained from a text, per
   field kind: the same text (strings, bytes, sized arrays, coherent text types), or its normal spelling
   (plain integers); an optional field whose value came out empty was written as an explicitly empty text. *)
Require Import GC.Base.Bytes GC.Base.CaseLib GC.Codec.Types GC.Codec.Strconv GC.Codec.StrconvProofs GC.Codec.TypeInfo
               GC.Codec.Marshal GC.Codec.Unmarshal GC.Codec.Codec GC.Codec.Class GC.Codec.ClassPBase GC.Codec.Respell
               GC.Codec.ClassPStep GC.Codec.C20PBase GC.Codec.C20PNorm.
Require Import GC.Parse.ParseModel GC.Parse.ParseSpec GC.Parse.ParseProofs.
Arguments Z.add : simpl never. Arguments Z.sub : simpl never. Arguments Z.of_nat : simpl never.
Arguments Z.leb : simpl never. Arguments Z.ltb : simpl never.

(* what is known about one assignment (f, t, v) *)
Record fback (cb : callbacks) (f : finfo) (t : bytes) (v : fval) : Prop := {
  fb_drop : o_omit (fi_opts f) && is_empty (fi_type f) v = true ->
            explicit_empty (norm_text (keyof f ++ t)) = true;
  fb_keep : o_omit (fi_opts f) && is_empty (fi_type f) v = false ->
            exists s0, marshal_value cb f v = Ok s0 /\ no_delim (keyof f ++ s0) /\
                       norm_text (keyof f ++ s0) = norm_text (keyof f ++ t) /\
                       (plain_int f = false -> s0 = t) /\ (s0 = [] -> t = []) /\
                       (forall c r, keyof f ++ s0 = c :: r -> c <> underscore \/ exists r', keyof f ++ t = c :: r') }.

Lemma marshal_value_of1 cb f v t :
  marshal1 cb f v = Ok t -> len_ok f t -> first_invalid (o_enc (fi_opts f)) t = None -> marshal_value cb f v = Ok t.
Proof.
  intros H1 Hl Hf. unfold marshal_value. rewrite H1. cbn [bind]. rewrite Hf.
  destruct (o_haslen (fi_opts f)) eqn:E; cbn [andb]; [|reflexivity].
  rewrite (Hl E), Z.eqb_refl. reflexivity.
Qed.

Lemma convert_valid cb nk nend f t v : convert cb nk nend f t = Ok v -> first_invalid (o_enc (fi_opts f)) t = None.
Proof. unfold convert. destruct (first_invalid (o_enc (fi_opts f)) t); [discriminate|reflexivity]. Qed.

Lemma norm_text_noeq t : noeq t -> norm_text t = norm_body t.
Proof. intros H. unfold norm_text. rewrite (has_eq_noeq t H). reflexivity. Qed.

Lemma keyof_cases f : keyof f = [] \/ (keyof f = o_param (fi_opts f) ++ [equals] /\ o_param (fi_opts f) <> []).
Proof. unfold keyof. destruct (o_param (fi_opts f)); [left; reflexivity|right; split; [reflexivity|discriminate]]. Qed.

(* an empty text is explicitly empty, with or without its key *)
Lemma empty_text_explicit f : noeq (o_param (fi_opts f)) -> explicit_empty (norm_text (keyof f ++ [])) = true.
Proof.
  intros Hp. destruct (keyof_cases f) as [E|[E _]]; rewrite E.
  - reflexivity.
  - rewrite (norm_text_keyed _ [] Hp). cbn [norm_body app]. rewrite app_nil_r.
    rewrite <- (app_nil_r (o_param (fi_opts f) ++ [equals])). rewrite (explicit_empty_keyed _ [] Hp). reflexivity.
Qed.

(* a text whose normal form is "0" is explicitly empty, with or without its key *)
Lemma zero_text_explicit f t : noeq (o_param (fi_opts f)) -> noeq t -> norm_body t = [48] ->
  explicit_empty (norm_text (keyof f ++ t)) = true.
Proof.
  intros Hp Ht Hn. destruct (keyof_cases f) as [E|[E _]]; rewrite E.
  - cbn [app]. rewrite (norm_text_noeq t Ht), Hn. reflexivity.
  - rewrite (norm_text_keyed _ t Hp), Hn, (explicit_empty_keyed _ [48] Hp). reflexivity.
Qed.

Lemma norm_keyed_eq f s0 t : noeq (o_param (fi_opts f)) -> noeq s0 -> noeq t -> norm_body s0 = norm_body t ->
  norm_text (keyof f ++ s0) = norm_text (keyof f ++ t).
Proof.
  intros Hp H0 Ht Hn. destruct (keyof_cases f) as [E|[E _]]; rewrite E.
  - cbn [app]. rewrite !norm_text_noeq by assumption. exact Hn.
  - rewrite !norm_text_keyed by assumption. rewrite Hn. reflexivity.
Qed.

Lemma first_char_keyed f s0 t c r : keyof f <> [] -> keyof f ++ s0 = c :: r -> exists r', keyof f ++ t = c :: r'.
Proof. destruct (keyof f) as [|k ks]; [congruence|]. intros _ H. cbn [app] in *. inversion H. eauto. Qed.

(* the facts used about a plain integer text, the same for both signednesses *)
Definition int_like (t z : bytes) (zero : Prop) : Prop :=
  noeq t /\ noeq z /\ no_delim z /\ z <> [] /\ norm_body z = norm_body t /\ (zero -> norm_body t = [48]) /\
  (forall c, In c z -> drange c \/ (c = 45 /\ In 45 t)) /\
  (forall c r, z = c :: r -> c <> underscore).

Lemma uint_like base bits t v : 2 <= base <= 36 -> 1 <= bits <= 64 -> ParseUint t base bits = inl v ->
  int_like t (FormatUint v base) (v = 0).
Proof.
  intros Hb Hbits H.
  destruct (uint_facts base bits Hb Hbits t v H) as (Hv & Hne & Hal & FU & Hzne & Hzr & NB1 & NB2 & Z1 & Z2).
  set (z := FormatUint v base) in *.
  assert (Hzal : forallb is_alnum z = true) by (apply Forall_drange_alnum; exact Hzr).
  unfold int_like. split.
  { intros Hin. rewrite forallb_forall in Hal. specialize (Hal _ Hin). vm_compute in Hal. discriminate. }
  split. { intros Hin. rewrite forallb_forall in Hzal. specialize (Hzal _ Hin). vm_compute in Hzal. discriminate. }
  split. { unfold no_delim. apply forallb_forall. intros x Hx. rewrite forallb_forall in Hzal.
           destruct (alnum_not_sign x (Hzal x Hx)) as (_ & _ & _ & X). rewrite X. reflexivity. }
  split; [exact Hzne|]. split; [rewrite NB1, NB2; reflexivity|].
  split; [intros E; rewrite NB1; apply Z1; exact E|].
  split. { intros c Hc. left. rewrite Forall_forall in Hzr. apply Hzr. exact Hc. }
  intros c r E ->. rewrite E in Hzr. inversion Hzr as [|? ? X _]. unfold drange, underscore in X. lia.
Qed.

Lemma int_like_int base bits t v : 2 <= base <= 36 -> 1 <= bits <= 64 -> ParseInt t base bits = inl v ->
  int_like t (FormatInt v base) (v = 0).
Proof. intros Hb Hbits H. exact (int_facts base bits Hb Hbits t v H). Qed.

(* from int_like to the record, given that Marshal writes z *)
Lemma fback_int cb f t v z zero :
  noeq (o_param (fi_opts f)) -> plain_int f = true -> o_haslen (fi_opts f) = false ->
  no_delim (keyof f ++ t) -> first_invalid (o_enc (fi_opts f)) t = None ->
  int_like t z zero -> marshal1 cb f v = Ok z -> (is_empty (fi_type f) v = true -> zero) ->
  fback cb f t v.
Proof.
  intros Hp Hpi Hl Hnd Hfi (I1 & I2 & I3 & I4 & I5 & I6 & I7 & I8) Hm Hz. constructor.
  - intros E. apply andb_true_iff in E. destruct E as [_ E]. apply zero_text_explicit; auto.
  - intros _. exists z. split.
    + apply marshal_value_of1; auto.
      * intros E. congruence.
      * apply first_invalid_none. intros c Hc. destruct (I7 c Hc) as [Hd|[-> H45]].
        -- apply valid_drange. exact Hd.
        -- rewrite first_invalid_none in Hfi. apply Hfi. exact H45.
    + split. { apply no_delim_app in Hnd. apply no_delim_app. tauto. }
      split. { apply norm_keyed_eq; auto. }
      split. { intros X. congruence. }
      split. { intros X. congruence. }
      intros c r E. destruct (keyof f) as [|k ks] eqn:Ek.
      * left. cbn [app] in E. eapply I8; eauto.
      * right. cbn [app] in *. inversion E. eauto.
Qed.

(* from "Marshal writes the same text" to the record *)
Lemma fback_exact cb f t v :
  len_ok f t -> no_delim (keyof f ++ t) -> first_invalid (o_enc (fi_opts f)) t = None ->
  (o_omit (fi_opts f) && is_empty (fi_type f) v = false -> marshal1 cb f v = Ok t) ->
  (o_omit (fi_opts f) = true -> is_empty (fi_type f) v = true -> explicit_empty (norm_text (keyof f ++ t)) = true) ->
  fback cb f t v.
Proof.
  intros Hl Hnd Hfi Hm He. constructor.
  - intros E. apply andb_true_iff in E. destruct E. auto.
  - intros E. exists t. split; [apply marshal_value_of1; auto|]. split; [exact Hnd|]. split; [reflexivity|].
    split; [reflexivity|]. split; [auto|]. intros c r Ec. right. eauto.
Qed.

Lemma firstn_exact_app {A} (t x : list A) n : length t = n -> firstn n (t ++ x) = t.
Proof. intros <-. apply firstn_app_exact. Qed.

Lemma is_empty_text (ty : ftype) v t : (v = VStr t \/ v = VBytes t \/ v = VArr t) -> is_empty ty v = true -> t = [].
Proof.
  unfold is_empty. intros Hv. destruct (Nat.ltb 0 (t_ptr ty)).
  - destruct Hv as [-> | [-> | ->]]; discriminate.
  - destruct Hv as [-> | [-> | ->]]; destruct t; cbn; congruence.
Qed.

Theorem field_back cb f t v :
  noeq (o_param (fi_opts f)) ->
  (plain_int f = true -> o_haslen (fi_opts f) = false /\ 2 <= o_base (fi_opts f) <= 36 /\
      match t_kind (fi_type f) with KInt b | KUint b => 1 <= b <= 64 | _ => True end) ->
  (forall n, t_kind (fi_type f) = KArray n -> texty f = false ->
      o_haslen (fi_opts f) = true /\ o_len (fi_opts f) = Z.of_nat n) ->
  (texty f = true -> coh_rt cb f /\ (o_omit (fi_opts f) = true -> coh_empty cb f)) ->
  convert cb NValue 0 f t = Ok v -> len_ok f t -> no_delim (keyof f ++ t) ->
  fback cb f t v.
Proof.
  intros Hp Hint Harr Hcoh Hconv Hlen Hnd.
  pose proof (convert_valid _ _ _ _ _ _ Hconv) as Hfi.
  assert (Hndt : no_delim t) by (apply no_delim_app in Hnd; tauto).
  destruct (texty f) eqn:Etx.
  - (* text (un)marshalers *)
    destruct (Hcoh eq_refl) as [Hrt Hem].
    apply fback_exact; [exact Hlen|exact Hnd|exact Hfi| |].
    + intros E. apply (Hrt t v Hndt Hlen Hconv E).
    + intros Ho Hemp. apply (Hem Ho t v Hndt Hlen Hconv Hemp).
  - (* built-in conversion *)
    assert (Em : t_mtext (fi_type f) = None /\ t_utext (fi_type f) = None).
    { unfold texty in Etx. destruct (t_mtext (fi_type f)), (t_utext (fi_type f)); try discriminate. auto. }
    destruct Em as [Em Eu].
    unfold convert in Hconv. rewrite Hfi, Eu in Hconv.
    destruct (o_prefix (fi_opts f) && negb match t_kind (fi_type f) with KString => true | _ => false end) eqn:Epre;
      [discriminate|].
    assert (Hm1 : forall w s0, w <> VNil ->
              match t_kind (fi_type f), w with
              | KArray _, VArr s => Ok s | KBytes, VBytes s => Ok s
              | KInt _, VInt z => Ok (FormatInt z (o_base (fi_opts f)))
              | KUint _, VUint z => Ok (FormatUint z (o_base (fi_opts f)))
              | KString, VStr s => Ok s
              | KOther, _ => Err (EUnsupportedType (fi_name f))
              | _, _ => Panic end = Ok s0 -> marshal1 cb f w = Ok s0).
    { intros w s0 Hw H. unfold marshal1. rewrite Em, Epre. destruct w; try congruence; exact H. }
    assert (Hexact : forall w, (w = VStr t \/ w = VBytes t \/ w = VArr t) -> v = w -> marshal1 cb f w = Ok t ->
                     fback cb f t v).
    { intros w Hw -> Hm. apply fback_exact; auto. intros _ He.
      rewrite (is_empty_text _ _ _ Hw He). apply empty_text_explicit. exact Hp. }
    destruct (t_kind (fi_type f)) as [| |n|bits|bits|] eqn:Ek; try discriminate.
    + inversion Hconv; subst v. apply (Hexact (VStr t)); auto. apply Hm1; [discriminate|reflexivity].
    + inversion Hconv; subst v. apply (Hexact (VBytes t)); auto. apply Hm1; [discriminate|reflexivity].
    + destruct (Harr n eq_refl eq_refl) as [Hl Hn].
      assert (Et : firstn n (t ++ repeat 0 n) = t).
      { apply firstn_exact_app. specialize (Hlen Hl). lia. }
      rewrite Et in Hconv. inversion Hconv; subst v.
      apply (Hexact (VArr t)); auto. apply Hm1; [discriminate|reflexivity].
    + assert (Hpi : plain_int f = true) by (unfold plain_int; rewrite Etx, Ek; reflexivity).
      destruct (Hint Hpi) as (Hl & Hb & Hbits). try rewrite Ek in Hbits.
      destruct (ParseInt t (o_base (fi_opts f)) bits) as [z|e] eqn:EP; [|discriminate].
      inversion Hconv; subst v.
      apply (fback_int cb f t (VInt z) (FormatInt z (o_base (fi_opts f))) (z = 0)); auto.
      * apply (int_like_int _ bits); auto.
      * apply Hm1; [discriminate|reflexivity].
      * unfold is_empty. destruct (Nat.ltb 0 (t_ptr (fi_type f))); [discriminate|]. apply Z.eqb_eq.
    + assert (Hpi : plain_int f = true) by (unfold plain_int; rewrite Etx, Ek; reflexivity).
      destruct (Hint Hpi) as (Hl & Hb & Hbits). try rewrite Ek in Hbits.
      destruct (ParseUint t (o_base (fi_opts f)) bits) as [z|e] eqn:EP; [|discriminate].
      inversion Hconv; subst v.
      apply (fback_int cb f t (VUint z) (FormatUint z (o_base (fi_opts f))) (z = 0)); auto.
      * apply (uint_like _ bits); auto.
      * apply Hm1; [discriminate|reflexivity].
      * unfold is_empty. destruct (Nat.ltb 0 (t_ptr (fi_type f))); [discriminate|]. apply Z.eqb_eq.
Qed.
