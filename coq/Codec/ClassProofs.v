(* The class round trip (C10/C20): on unambiguous layouts, Unmarshal reads back what Marshal wrote for
   a presentable value. *)
Require Import GC.Base.Bytes GC.Base.CaseLib GC.Codec.Types GC.Codec.Strconv GC.Codec.TypeInfo GC.Codec.Marshal
               GC.Codec.Unmarshal GC.Codec.Codec GC.Codec.Class GC.Codec.ClassPBase GC.Codec.ClassPRender
               GC.Codec.ClassPFrag GC.Codec.ClassPStep GC.Codec.ClassPLoop GC.Codec.ClassPCount
               GC.Codec.ClassPAgree.
Require Import GC.Parse.ParseModel GC.Parse.ParseSpec GC.Parse.ParseProofs GC.Codec.ClassPParse.
Arguments Z.add : simpl never. Arguments Z.sub : simpl never. Arguments Z.of_nat : simpl never.
Arguments Z.leb : simpl never. Arguments Z.ltb : simpl never.

(* ---------- NumReqValues of a computed layout ---------- *)
Lemma normalize_numreq all : forall fs pre kept params ti,
  normalize_loop all fs pre kept params = Ok ti -> numreq_ok ti = true.
Proof.
  induction fs as [|f r IH]; intros pre kept params ti H; cbn [normalize_loop] in H.
  - inversion H. unfold numreq_ok. cbn [ti_numreq ti_fields]. apply Z.eqb_refl.
  - destruct (negb (tag_valid (fi_opts f))); [discriminate|].
    destruct (o_prefix (fi_opts f)); [eapply IH; eauto|].
    destruct (o_param (fi_opts f)) as [|c q]; [eapply IH; eauto|].
    destruct (existsb (bytes_eqb (c :: q)) params); [eapply IH; eauto|].
    destruct (field_of (c :: q) all); try discriminate. eapply IH; eauto.
Qed.

Theorem type_info_numreq : forall st ti, type_info st = Ok ti -> numreq_ok ti = true.
Proof. intros st ti H. unfold type_info in H. eapply normalize_numreq; eauto. Qed.

(* ---------- class conditions of the field list ---------- *)
Lemma shapes_last_req : forall r f, shapes_ok (f :: r) = true -> f_omit (last r f) = false.
Proof.
  induction r as [|g r IH]; intros f H.
  - apply shapes_cons in H. destruct H as [Hf _]. cbn [last]. apply (sf_last _ _ Hf eq_refl).
  - rewrite last_cons. apply IH. eapply shapes_tail; eauto.
Qed.

Lemma filter_last sv : forall r f, pr sv (last r f) = true ->
  exists X, filter (pr sv) (f :: r) = X ++ [last r f].
Proof.
  induction r as [|g r IH]; intros f H.
  - cbn [last] in *. exists []. cbn [filter]. rewrite H. reflexivity.
  - rewrite last_cons in *. destruct (IH g H) as [X E].
    exists ((if pr sv f then [f] else []) ++ X).
    change (filter (pr sv) (f :: g :: r)) with ((if pr sv f then f :: filter (pr sv) (g :: r) else filter (pr sv) (g :: r))).
    rewrite E. destruct (pr sv f); rewrite <- ?app_assoc; reflexivity.
Qed.

Lemma fld_ok_no_delim cb sv f : fld_ok cb sv f -> no_delim (kt cb sv f).
Proof.
  intros (s & H1 & H2 & H3 & _). rewrite (kt_eq cb sv f s H1). unfold keyof.
  destruct (o_param (fi_opts f)) as [|c q] eqn:E.
  - cbn [app]. apply clean_no_delim. exact H2.
  - apply no_delim_app. split; [|apply clean_no_delim; exact H2].
    apply no_delim_app. split; [apply clean_no_delim; exact H3|]. reflexivity.
Qed.

(* the prefix part of unmarshal_tree *)
Definition pre_of (cb : callbacks) (ti : tinfo) (hashlen : nat) (t : tree) : res (list (list nat * fval)) :=
    match ti_prefix ti, prefix t with
    | Some fi, Some p =>
      match assign cb NPrefix (prefix_end p) p fi with
      | Ok (v, _) => match fi_embptr fi with [] => Ok [(fi_index fi, v)] | _ => Panic end
      | Err e => Err e
      | Panic => Panic
      end
    | Some fi, None => if o_omit (fi_opts fi) then Ok []
                       else Err (EUnmarshal NEOF (fi_name fi) hashlen MPrefixNotFound)
    | None, Some p => Err (EUnmarshal NPrefix [] (prefix_end p) MExcessivePrefix)
    | None, None => Ok []
    end.

Lemma assign_nolen cb nk nend f s v :
  o_haslen (fi_opts f) = false -> o_param (fi_opts f) = [] -> convert cb NValue 0 f s = Ok v ->
  assign cb nk nend s f = Ok (v, None).
Proof.
  intros Hl Hp Hc. unfold assign. rewrite Hl, Hp. cbn [bind].
  rewrite (convert_ok_indep cb NValue 0 nk nend f s v Hc). reflexivity.
Qed.

Theorem class_roundtrip : forall cb ti sv s,
  unambiguous ti = true -> paths_ok ti = true -> numreq_ok ti = true -> presentable cb ti sv = true ->
  marshal cb ti sv = Ok s ->
  exists m, unmarshal cb ti s = Ok m /\ agree m (expected ti sv).
Proof.
  intros cb ti sv s Hun Hpaths Hnum Hpres Hm.
  unfold unambiguous in Hun. rewrite !andb_true_iff in Hun.
  destruct Hun as ((((Hupre & Hne) & Hshapes) & Hgso) & Hnodup).
  unfold presentable in Hpres. cbv zeta in Hpres. rewrite !andb_true_iff in Hpres.
  destruct Hpres as (((((_ & _) & HC) & HD) & HE) & HF).
  fold (pr sv) in HC, HD, HE.
  set (fs := ti_fields ti) in *.
  (* the class conditions on the field list *)
  assert (Hflds : flds_ok cb sv fs).
  { intros f Hin Hp. rewrite forallb_forall in HD. specialize (HD f).
    rewrite filter_In in HD. specialize (HD (conj Hin Hp)).
    rewrite !andb_true_iff in HD. destruct HD as ((H1 & H2) & H3).
    unfold field_rt in H3. destruct (text_of cb f sv) as [t|] eqn:Et; [|discriminate].
    exists t. split; [exact Et|]. split; [exact H1|]. split; [exact H2|].
    destruct (convert cb NValue 0 f t) as [v| |]; try discriminate. exists v. auto. }
  assert (Hcls : Cls cb sv fs).
  { constructor; auto.
    - destruct fs as [|f r]; [exact I|]. unfold lastne.
      pose proof (shapes_last_req r f Hshapes) as Hom.
      pose proof (required_present sv _ Hom) as Hp.
      destruct (filter_last sv r f Hp) as [X EX]. rewrite EX, rev_app_distr in HE. cbn [rev app] in HE.
      intros E. unfold kt in E. rewrite E in HE. discriminate.
    - exists false. exact HF. }
  assert (Hfirst : match filter (pr sv) fs with
                   | fi :: _ => match keyed_text cb fi sv with
                                | c :: _ => negb (c =? underscore) && negb (c =? dollar)
                                | [] => false end
                   | [] => false end = true ->
                   exists c r, ClassPBase.emit cb sv fs None = c :: r /\ (c =? dollar) = false /\ (c =? underscore) = false).
  { intros H. destruct (filter (pr sv) fs) as [|f1 rest] eqn:Efil; [discriminate|].
    destruct (emit_first cb sv fs f1 rest Efil) as [tl Etl].
    unfold kt in Etl. destruct (keyed_text cb f1 sv) as [|c k]; [discriminate|].
    exists c, (k ++ tl). split; [exact Etl|]. apply andb_true_iff in H. destruct H as [H1 H2].
    split; apply negb_true_iff; assumption. }
  destruct (marshal_emit cb ti sv s Hm) as (ptxt & -> & Hptxt). fold fs.
  (* parsing, and the prefix *)
  set (L0 := match ti_prefix ti with Some p => if present p sv then [p] else [] | None => [] end).
  assert (Hparse : exists t out0, parse (ptxt ++ ClassPBase.emit cb sv fs None) = POk t /\
            frags t = sc [] (length ptxt) (length ptxt) (ClassPBase.emit cb sv fs None) None /\
            pre_of cb ti (length (ptxt ++ ClassPBase.emit cb sv fs None)) t = Ok out0 /\ outrel sv L0 out0).
  { unfold pre_of, L0. destruct (ti_prefix ti) as [p|].
    - rewrite !andb_true_iff in Hupre. destruct Hupre as ((Hemb & Hlen) & Hpar).
      apply negb_true_iff in Hlen.
      destruct (o_param (fi_opts p)) eqn:Epar; [|discriminate].
      destruct (fi_embptr p) eqn:Eemb; [|discriminate].
      destruct (present p sv) eqn:Epp.
      + rewrite Hptxt in HC. apply andb_true_iff in HC. destruct HC as [Hsh Hrt].
        unfold field_rt in Hrt. rewrite Hptxt in Hrt.
        destruct (convert cb NValue 0 p ptxt) as [v| |] eqn:Econv; try discriminate.
        rewrite (parse_prefix_body ptxt _ Hsh).
        eexists. exists [(fi_index p, v)]. split; [reflexivity|]. split; [reflexivity|].
        cbn [prefix body_tree]. rewrite (assign_nolen cb NPrefix _ p ptxt v Hlen Epar Econv).
        split; [reflexivity|]. constructor; [|constructor]. split; [reflexivity|exact Hrt].
      + apply andb_true_iff in HC. destruct HC as [HC1 HC2]. rewrite Hptxt in HC2.
        destruct ptxt; [|discriminate]. cbn [app length].
        destruct (Hfirst HC1) as (c & r & Eem & Hd & Hu). rewrite Eem.
        rewrite (parse_body_noprefix c r Hd Hu).
        eexists. exists []. split; [reflexivity|]. split; [reflexivity|].
        cbn [prefix body_tree].
        assert (Hom : o_omit (fi_opts p) = true).
        { unfold present, f_omit in Epp. destruct (o_omit (fi_opts p)); auto. }
        rewrite Hom. split; [reflexivity|constructor].
    - subst ptxt. cbn [app length].
      destruct (Hfirst HC) as (c & r & Eem & Hd & Hu). rewrite Eem.
      rewrite (parse_body_noprefix c r Hd Hu).
      eexists. exists []. split; [reflexivity|]. split; [reflexivity|].
      cbn [prefix body_tree]. split; [reflexivity|constructor]. }
  destruct Hparse as (t & out0 & Hparse & Hfrags & Hpre & Hout0).
  assert (HFr : map tf (map ufrag_of (frags t)) = F cb sv fs).
  { rewrite map_tf_ufrag_of, Hfrags. rewrite (sc_emit cb sv fs None [] _ _ None).
    - reflexivity.
    - intros f Hin Hp. apply fld_ok_no_delim. apply Hflds; auto. }
  (* the field loop *)
  set (hl := length (ptxt ++ ClassPBase.emit cb sv fs None)) in *.
  set (s0 := {| u_frags := map ufrag_of (frags t); u_idx := 0; u_nv := Z.of_nat (length (frags t));
                u_nr := ti_numreq ti; u_group := None; u_ngv := 0; u_greq := false; u_out := out0 |}).
  assert (Hmode : Mode cb sv fs 0 L0 s0).
  { left. split; [|exists false, false; exact Hgso].
    unfold PInv, Dinv, s0; cbn [u_group u_idx u_frags u_nv u_nr u_out skipn].
    refine (conj eq_refl (conj HFr (conj _ Hout0))).
    split; [|split; [lia|intros; lia]].
    destruct (len_F cb sv fs Hcls) as [HA _]. specialize (HA _ _ Hgso).
    rewrite <- HFr, !map_length in HA. unfold numreq_ok in Hnum. apply Z.eqb_eq in Hnum.
    fold fs in Hnum. lia. }
  destruct (run_loop cb sv hl fs 0 L0 s0 Hcls Hmode) as (s' & K' & Hrun & Hmode').
  destruct (final_ok cb sv K' _ s' Hmode') as (idx & Hidx & Hnth & Hout).
  exists (result_value ti (u_out s')). split.
  - unfold unmarshal. rewrite Hparse. unfold unmarshal_tree. cbv zeta. unfold pre_of in Hpre.
    fold hl. rewrite Hpre. cbn [bind]. fold s0. fold fs. rewrite Hrun. rewrite Hidx. cbn [bind]. rewrite Hnth. reflexivity.
  - apply (agree_result sv ti (u_out s') _ Hpaths Hout).
    intros g. fold fs. rewrite in_app_iff, <- in_rev, filter_In. unfold pr, L0.
    destruct (ti_prefix ti) as [p|]; cbn [app In].
    + destruct (present p sv) eqn:Epp; cbn [In].
      * split.
        -- intros [[H1 H2]|[<-|[]]]; auto.
        -- intros [[<-|H1] H2]; auto.
      * split.
        -- intros [[H1 H2]|[]]; auto.
        -- intros [[<-|H1] H2]; [congruence|auto].
    + tauto.
Qed.

(* ---------- Marshal accepts presentable values ---------- *)
Lemma text_of_marshal_value cb f sv s : text_of cb f sv = Some s -> marshal_value cb f (value_of f sv) = Ok s.
Proof. unfold text_of. destruct (marshal_value cb f (value_of f sv)); try discriminate. congruence. Qed.

Lemma field_value_present fi sv :
  sv_embnil sv = [] -> (exists v, lookup_path (fi_index fi) (sv_fields sv) = Some v) ->
  field_value fi sv = Ok (value_of fi sv).
Proof.
  intros He [v Hv]. unfold field_value, value_of. rewrite He, Hv.
  assert (E : existsb (fun q : list nat => existsb (path_eqb q) []) (fi_embptr fi) = false).
  { induction (fi_embptr fi); cbn; auto. }
  rewrite E. reflexivity.
Qed.

Lemma marshal_fields_ok cb sv : forall fs prev buf,
  (forall f, In f fs -> field_value f sv = Ok (value_of f sv) /\
                        (pr sv f = true -> exists s, text_of cb f sv = Some s)) ->
  exists out, marshal_fields cb fs sv prev buf = Ok out.
Proof.
  induction fs as [|f r IH]; intros prev buf H; cbn [marshal_fields].
  - eauto.
  - destruct (H f (or_introl eq_refl)) as [Hv Ht]. rewrite Hv. cbn [bind].
    assert (H' : forall g, In g r -> field_value g sv = Ok (value_of g sv) /\
                                     (pr sv g = true -> exists s, text_of cb g sv = Some s)).
    { intros g Hg. apply H. right. exact Hg. }
    destruct (o_omit (fi_opts f) && is_empty (fi_type f) (value_of f sv)) eqn:E.
    + apply IH. exact H'.
    + destruct Ht as [s Hs]. { unfold pr, present, f_omit. rewrite E. reflexivity. }
      rewrite (text_of_marshal_value cb f sv s Hs). cbn [bind]. apply IH. exact H'.
Qed.

Theorem presentable_marshals : forall cb ti sv,
  unambiguous ti = true -> presentable cb ti sv = true -> exists s, marshal cb ti sv = Ok s.
Proof.
  intros cb ti sv _ Hpres.
  unfold presentable in Hpres. cbv zeta in Hpres. rewrite !andb_true_iff in Hpres.
  destruct Hpres as (((((HA & HB) & HC) & HD) & _) & _).
  assert (He : sv_embnil sv = []) by (destruct (sv_embnil sv); [reflexivity|discriminate]).
  rewrite forallb_forall in HB.
  assert (Hlk : forall f, In f ((match ti_prefix ti with Some p => [p] | None => [] end) ++ ti_fields ti) ->
                field_value f sv = Ok (value_of f sv)).
  { intros f Hf. apply field_value_present; auto. specialize (HB f Hf).
    destruct (lookup_path (fi_index f) (sv_fields sv)); [eauto|discriminate]. }
  assert (Hfs : forall f, In f (ti_fields ti) -> field_value f sv = Ok (value_of f sv) /\
                          (pr sv f = true -> exists s, text_of cb f sv = Some s)).
  { intros f Hf. split. apply Hlk. apply in_or_app. right. exact Hf.
    intros Hp. rewrite forallb_forall in HD. specialize (HD f).
    assert (Hin : In f (filter (fun fi => present fi sv) (ti_fields ti))) by (apply filter_In; split; assumption).
    specialize (HD Hin). rewrite !andb_true_iff in HD. destruct HD as ((H1 & _) & _).
    destruct (text_of cb f sv); [eauto|discriminate]. }
  unfold marshal. destruct (ti_prefix ti) as [p|].
  - rewrite (Hlk p (or_introl eq_refl)). cbn [bind].
    assert (Hp : exists t, text_of cb p sv = Some t).
    { destruct (present p sv).
      - destruct (text_of cb p sv); [eauto|discriminate].
      - apply andb_true_iff in HC. destruct HC as [_ HC]. destruct (text_of cb p sv); [eauto|discriminate]. }
    destruct Hp as [t Ht]. rewrite (text_of_marshal_value cb p sv t Ht). cbn [bind].
    apply marshal_fields_ok. exact Hfs.
  - cbn [bind]. apply marshal_fields_ok. exact Hfs.
Qed.

Print Assumptions class_roundtrip.
Print Assumptions type_info_numreq.
Print Assumptions presentable_marshals.
