(* C20, the converse direction of the class round trip: on an unambiguous layout, Unmarshal accepts a string only
   if it is a tolerated respelling of what Marshal writes for the value Unmarshal returns. *)
Require Import GC.Base.Bytes GC.Base.CaseLib GC.Codec.Types GC.Codec.Strconv GC.Codec.TypeInfo GC.Codec.Marshal
               GC.Codec.Unmarshal GC.Codec.Codec GC.Codec.Class GC.Codec.ClassPBase GC.Codec.ClassPRender
               GC.Codec.ClassPFrag GC.Codec.ClassPStep GC.Codec.ClassPLoop GC.Codec.ClassPAgree GC.Codec.ClassPParse
               GC.Codec.ClassProofs GC.Codec.Respell GC.Codec.C20Test
               GC.Codec.C20PBase GC.Codec.C20PStep GC.Codec.C20PLoop GC.Codec.C20PNorm GC.Codec.C20PField
               GC.Codec.C20PUnm GC.Codec.C20PMarshal.
Require Import GC.Parse.ParseModel GC.Parse.ParseSpec GC.Parse.ParseProofs.
Require Import Coq.Sorting.Permutation.
Arguments Z.add : simpl never. Arguments Z.sub : simpl never. Arguments Z.of_nat : simpl never.
Arguments Z.leb : simpl never. Arguments Z.ltb : simpl never.

(* ---------- small facts ---------- *)
Lemma field_shape_omit_noarray f nx : field_shape_ok f nx = true -> f_omit f = true ->
  forall n, t_kind (fi_type f) <> KArray n.
Proof.
  unfold field_shape_ok, f_omit. rewrite !andb_true_iff. intros ((((((_ & _) & _) & H4) & _) & _) & _) Ho n E.
  rewrite Ho, E in H4. rewrite andb_false_r in H4. discriminate.
Qed.

Lemma shapes_omit_noarray : forall fs f, shapes_ok fs = true -> In f fs -> f_omit f = true ->
  forall n, t_kind (fi_type f) <> KArray n.
Proof.
  induction fs as [|g r IH]; intros f H Hin Ho. destruct Hin.
  cbn [shapes_ok] in H. apply andb_true_iff in H. destruct H as [H1 H2]. destruct Hin as [<-|Hin].
  - eapply field_shape_omit_noarray; eauto.
  - apply IH; auto.
Qed.

Lemma zero_is_empty ty : (forall n, t_kind ty <> KArray n) -> is_empty ty (zero_value ty) = true.
Proof.
  intros H. unfold is_empty, zero_value. destruct (Nat.ltb 0 (t_ptr ty)); [reflexivity|].
  destruct (t_kind ty) eqn:E; try reflexivity. exfalso. eapply H; eauto.
Qed.

Lemma prefix_shaped_head p : prefix_shaped p = true -> exists c r, p = c :: r /\ (c = dollar \/ c = underscore).
Proof.
  unfold prefix_shaped. rewrite parse_eq. unfold parse_fn. destruct p as [|c r]; [discriminate|].
  destruct (c =? dollar) eqn:Ed; [apply Z.eqb_eq in Ed; eauto|].
  destruct (c =? underscore) eqn:Eu; [apply Z.eqb_eq in Eu; eauto|].
  cbn [body_tree prefix opt_eqb]. discriminate.
Qed.

Lemma parse_uint_prefix c r base bits : (c = dollar \/ c = underscore) -> exists e, ParseUint (c :: r) base bits = inr e.
Proof.
  intros [->| ->]; unfold ParseUint; cbn [parse_digits].
  - change (digit_val dollar) with (@None Z). eauto.
  - change (digit_val underscore) with (@None Z). eauto.
Qed.
Lemma parse_int_prefix c r base bits : (c = dollar \/ c = underscore) -> exists e, ParseInt (c :: r) base bits = inr e.
Proof.
  intros H. unfold ParseInt. cbv zeta.
  assert (E : (c =? 43) || (c =? 45) = false) by (destruct H as [->| ->]; reflexivity). rewrite E.
  destruct (parse_uint_prefix c r base bits H) as [e He]. rewrite He. eauto.
Qed.

(* the prefix: what Marshal writes back for the value obtained from a prefix text *)
Lemma prefix_back cb p ptxt v :
  o_haslen (fi_opts p) = false -> prefix_shaped ptxt = true ->
  (texty p = true -> coh_prefix cb p) ->
  (forall n, t_kind (fi_type p) = KArray n -> texty p = false -> False) ->
  convert cb NValue 0 p ptxt = Ok v -> marshal_value cb p v = Ok ptxt.
Proof.
  intros Hl Hsh Hcoh Harr Hconv.
  pose proof (convert_valid _ _ _ _ _ _ Hconv) as Hfi.
  apply marshal_value_of1; [|intros X; congruence|exact Hfi].
  destruct (texty p) eqn:Etx; [apply (Hcoh eq_refl ptxt v Hsh Hconv)|].
  assert (Em : t_mtext (fi_type p) = None /\ t_utext (fi_type p) = None).
  { unfold texty in Etx. destruct (t_mtext (fi_type p)), (t_utext (fi_type p)); try discriminate. auto. }
  destruct Em as [Em Eu]. destruct (prefix_shaped_head ptxt Hsh) as (c & r & -> & Hc).
  unfold convert in Hconv. rewrite Hfi, Eu in Hconv. unfold marshal1. rewrite Em.
  destruct (o_prefix (fi_opts p) && negb match t_kind (fi_type p) with KString => true | _ => false end) eqn:Epre;
    [discriminate|].
  destruct (t_kind (fi_type p)) as [| |n|bits|bits|] eqn:Ek; try discriminate.
  - inversion Hconv. reflexivity.
  - inversion Hconv. reflexivity.
  - exfalso. eapply Harr; eauto.
  - destruct (parse_int_prefix c r (o_base (fi_opts p)) bits Hc) as [e He]. rewrite He in Hconv. discriminate.
  - destruct (parse_uint_prefix c r (o_base (fi_opts p)) bits Hc) as [e He]. rewrite He in Hconv. discriminate.
Qed.

Lemma prefix_zero cb p :
  o_haslen (fi_opts p) = false ->
  (texty p = true -> marshal1 cb p (zero_value (fi_type p)) = Ok []) ->
  (texty p = false -> t_kind (fi_type p) = KString) ->
  marshal_value cb p (zero_value (fi_type p)) = Ok [].
Proof.
  intros Hl Hcoh Hk. apply marshal_value_of1; [|intros X; congruence|reflexivity].
  destruct (texty p) eqn:Etx; [apply Hcoh; reflexivity|].
  assert (Em : t_mtext (fi_type p) = None).
  { unfold texty in Etx. destruct (t_mtext (fi_type p)), (t_utext (fi_type p)); try discriminate. auto. }
  specialize (Hk eq_refl). unfold marshal1, zero_value. rewrite Em, Hk.
  destruct (Nat.ltb 0 (t_ptr (fi_type p))); [reflexivity|]. rewrite andb_false_r. reflexivity.
Qed.

Lemma plain_int_unsized ti f : ints_unsized ti = true -> In f (ti_fields ti) -> plain_int f = true ->
  o_haslen (fi_opts f) = false.
Proof.
  unfold ints_unsized, plain_int, texty. rewrite forallb_forall. intros H Hin Hp. specialize (H f Hin).
  destruct (t_mtext (fi_type f)), (t_utext (fi_type f)); try discriminate.
  destruct (t_kind (fi_type f)); try discriminate; apply negb_true_iff in H; exact H.
Qed.

Lemma plain_int_wf ti f : ints_wf ti = true -> In f (ti_fields ti) -> plain_int f = true ->
  2 <= o_base (fi_opts f) <= 36 /\ match t_kind (fi_type f) with KInt b | KUint b => 1 <= b <= 64 | _ => True end.
Proof.
  unfold ints_wf. rewrite forallb_forall. intros H Hin Hp. specialize (H f Hin). rewrite Hp in H.
  rewrite !andb_true_iff in H. destruct H as ((H1 & H2) & H3). apply Z.leb_le in H1, H2. split; [lia|].
  destruct (t_kind (fi_type f)); auto; rewrite andb_true_iff in H3; destruct H3 as [A B];
    apply Z.leb_le in A, B; lia.
Qed.

Lemma array_sized ti f n : arrays_sized ti = true -> In f (all_fields ti) -> t_kind (fi_type f) = KArray n ->
  texty f = false -> o_haslen (fi_opts f) = true /\ o_len (fi_opts f) = Z.of_nat n.
Proof.
  unfold arrays_sized. rewrite forallb_forall. intros H Hin Hk Ht. specialize (H f Hin). rewrite Hk, Ht in H.
  cbn [orb] in H. apply andb_true_iff in H. destruct H as [A B]. apply Z.eqb_eq in B. auto.
Qed.

(* ================================================================== *)
(* the main argument, for a given analysis of the accepted string      *)
(* ================================================================== *)
Section Main.
Variables (cb : callbacks) (ti : tinfo) (s : bytes) (t : tree) (sts : list fstat) (D : list bytes)
          (out0 : list (list nat * fval)).
Let fs := ti_fields ti.
Let asg := rev (outs sts) ++ out0.
Let m := result_value ti asg.
Let sv := sval_of m.

Hypothesis Hshapes : shapes_ok fs = true.
Hypothesis Hupre : forall p, ti_prefix ti = Some p ->
  fi_embptr p = [] /\ o_haslen (fi_opts p) = false /\ o_param (fi_opts p) = [].
Hypothesis Hpaths : paths_ok ti = true.
Hypothesis Hints : ints_unsized ti = true.
Hypothesis Hpnoeq : params_noeq ti = true.
Hypothesis Harr : arrays_sized ti = true.
Hypothesis Hwf : ints_wf ti = true.
Hypothesis Hinl : inline_next_exact fs = true.
Hypothesis Hhd : prefix t = None -> headed ti = true.
Hypothesis Hppo : prefix_plain_ok ti = true.
Hypothesis Hcoh : cb_coherent cb ti.
Hypothesis Hparse : parse s = POk t.
Hypothesis Ests : map fst sts = fs.
Hypothesis Hst : Forall (st_ok cb) sts.
Hypothesis HD : chunk_st sts = (D, None).
Hypothesis HPerm : Permutation (map snd (nodes t)) D.
Hypothesis Hpf : prefix_fact cb ti t out0.
Hypothesis Hhead : forall f r, fs = f :: r -> f_group f = false -> f_omit f = false ->
  exists t1 v1 u rest' fr0 frs, sts = (f, Some (t1, v1)) :: rest' /\ frags t = fr0 :: frs /\
    (exists n0, fr0 = FV n0 /\ snd n0 = keyof f ++ t1 ++ u) /\ (f_inline f = false -> u = []).

(* ---------- index paths ---------- *)
Lemma all_paths : nodup_paths (map fi_index (all_fields ti)) = true.
Proof. exact Hpaths. Qed.

Lemma fs_in_all f : In f fs -> In f (all_fields ti).
Proof. intros H. unfold all_fields. apply in_or_app. right. exact H. Qed.

Lemma inj_all f g : In f (all_fields ti) -> In g (all_fields ti) -> fi_index f = fi_index g -> f = g.
Proof. intros Hf Hg E. exact (nodup_paths_inj (all_fields ti) f g all_paths Hf Hg E). Qed.

Lemma NoDup_all : NoDup (all_fields ti).
Proof. apply nodup_paths_NoDup. exact all_paths. Qed.

Lemma NoDup_fs : NoDup fs.
Proof.
  pose proof NoDup_all as H. unfold all_fields in H. destruct (ti_prefix ti); cbn [app] in H.
  - inversion H. assumption.
  - exact H.
Qed.

Lemma prefix_notin p : ti_prefix ti = Some p -> ~ In p fs.
Proof.
  intros E. pose proof NoDup_all as H. unfold all_fields in H. rewrite E in H. cbn [app] in H.
  inversion H. assumption.
Qed.

Lemma prefix_in_all p : ti_prefix ti = Some p -> In p (all_fields ti).
Proof. intros E. unfold all_fields. rewrite E. left. reflexivity. Qed.

Lemma sts_in f o : In (f, o) sts -> In f fs.
Proof. intros H. rewrite <- Ests. apply (in_map fst) in H. exact H. Qed.

Lemma fs_has_st f : In f fs -> exists o, In (f, o) sts.
Proof.
  intros H. rewrite <- Ests in H. apply in_map_iff in H. destruct H as ([g o] & E & Hin).
  cbn [fst] in E. subst g. eauto.
Qed.

Lemma sts_unique f o o' : In (f, o) sts -> In (f, o') sts -> o = o'.
Proof. intros. eapply NoDup_fst_unique; eauto. rewrite Ests. exact NoDup_fs. Qed.

Lemma out0_shape q w : In (q, w) out0 -> exists p, ti_prefix ti = Some p /\ q = fi_index p.
Proof.
  intros H. unfold prefix_fact in Hpf. destruct (ti_prefix ti) as [p|], (prefix t) as [ptxt|].
  - destruct Hpf as (v & _ & E). rewrite E in H. destruct H as [H|[]]. inversion H. eauto.
  - destruct Hpf as [_ E]. rewrite E in H. destruct H.
  - destruct Hpf.
  - rewrite Hpf in H. destruct H.
Qed.

Lemma asg_in q w : In (q, w) asg ->
  (exists f tx, In (f, Some (tx, w)) sts /\ fi_index f = q) \/ In (q, w) out0.
Proof.
  unfold asg. intros H. apply in_app_or in H. destruct H as [H|H]; [|right; exact H].
  left. apply in_rev in H. apply in_outs in H. exact H.
Qed.

Lemma lk_some f tx v : In (f, Some (tx, v)) sts -> lookup_path (fi_index f) asg = Some v.
Proof.
  intros Hin. apply lookup_unique.
  - unfold asg. apply in_or_app. left. apply -> in_rev. apply in_outs. eauto.
  - intros v' Hv'. apply asg_in in Hv'. destruct Hv' as [(g & tx' & Hg & Ei)|Hv'].
    + assert (g = f). { apply inj_all; auto; apply fs_in_all; eapply sts_in; eauto. }
      subst g. pose proof (sts_unique _ _ _ Hg Hin) as E. inversion E. reflexivity.
    + exfalso. destruct (out0_shape _ _ Hv') as (p & Ep & Ei).
      assert (p = f).
      { apply inj_all; auto. apply prefix_in_all; exact Ep. apply fs_in_all. eapply sts_in; eauto. }
      subst p. apply (prefix_notin f Ep). eapply sts_in; eauto.
Qed.

Lemma lk_none f : In (f, None) sts -> lookup_path (fi_index f) asg = None.
Proof.
  intros Hin. apply lookup_none. intros w Hw. apply asg_in in Hw. destruct Hw as [(g & tx' & Hg & Ei)|Hw].
  - assert (g = f). { apply inj_all; auto; apply fs_in_all; eapply sts_in; eauto. }
    subst g. pose proof (sts_unique _ _ _ Hg Hin) as E. discriminate.
  - destruct (out0_shape _ _ Hw) as (p & Ep & Ei).
    assert (p = f).
    { apply inj_all; auto. apply prefix_in_all; exact Ep. apply fs_in_all. eapply sts_in; eauto. }
    subst p. apply (prefix_notin f Ep). eapply sts_in; eauto.
Qed.

Lemma lk_prefix p : ti_prefix ti = Some p -> lookup_path (fi_index p) asg = lookup_path (fi_index p) out0.
Proof.
  intros Ep.
  assert (Hno : forall w, ~ In (fi_index p, w) (rev (outs sts))).
  { intros w Hw. apply in_rev in Hw. apply in_outs in Hw. destruct Hw as (g & tx & Hg & Ei).
    assert (g = p). { apply inj_all; auto. apply fs_in_all; eapply sts_in; eauto. apply prefix_in_all; exact Ep. }
    subst g. apply (prefix_notin p Ep). eapply sts_in; eauto. }
  unfold asg. induction (rev (outs sts)) as [|[q w] l IH]; [reflexivity|].
  cbn [app lookup_path]. destruct (path_eqb q (fi_index p)) eqn:E.
  - apply path_eqb_eq in E. subst q. exfalso. apply (Hno w). left. reflexivity.
  - apply IH. intros w' Hw'. apply (Hno w'). right. exact Hw'.
Qed.

Lemma value_all f : In f (all_fields ti) ->
  lookup_path (fi_index f) (sv_fields sv)
  = Some (match lookup_path (fi_index f) asg with Some v => v | None => zero_value (fi_type f) end).
Proof.
  intros Hin. unfold sv, sval_of, m, result_value. cbn [sv_fields]. fold (all_fields ti).
  apply (lookup_map_fields (fun fi => match lookup_path (fi_index fi) asg with
                                      | Some v => v | None => zero_value (fi_type fi) end)); [exact all_paths|exact Hin].
Qed.

Lemma value_of_all f : In f (all_fields ti) ->
  value_of f sv = match lookup_path (fi_index f) asg with Some v => v | None => zero_value (fi_type f) end.
Proof. intros Hin. unfold value_of. rewrite (value_all f Hin). reflexivity. Qed.

Lemma field_value_all f : In f (all_fields ti) -> field_value f sv = Ok (value_of f sv).
Proof. intros Hin. apply field_value_present; [reflexivity|]. rewrite (value_all f Hin). eauto. Qed.

(* ---------- what is known of every field under the returned value ---------- *)
Definition keepfact (f : finfo) (tx : bytes) : Prop :=
  pr sv f = true /\ exists s0, text_of cb f sv = Some s0 /\ no_delim (keyof f ++ s0) /\
    norm_text (keyof f ++ s0) = norm_text (keyof f ++ tx) /\ (plain_int f = false -> s0 = tx) /\
    (s0 = [] -> tx = []) /\
    (forall c r, keyof f ++ s0 = c :: r -> c <> underscore \/ exists r', keyof f ++ tx = c :: r').

Definition stfact (x : fstat) : Prop :=
  match x with
  | (f, None) => f_omit f = true /\ pr sv f = false
  | (f, Some (tx, _)) =>
    (pr sv f = false /\ f_omit f = true /\ explicit_empty (norm_text (keyof f ++ tx)) = true) \/ keepfact f tx
  end.

Lemma st_facts x : In x sts -> stfact x.
Proof.
  intros Hin. rewrite Forall_forall in Hst. pose proof (Hst x Hin) as Hok.
  destruct x as [f [[tx v]|]]; cbn [st_ok stfact] in *.
  - destruct Hok as (Hconv & Hlen & Hnd & _).
    pose proof (sts_in _ _ Hin) as Hf.
    assert (Hval : value_of f sv = v).
    { rewrite (value_of_all f (fs_in_all f Hf)), (lk_some f tx v Hin). reflexivity. }
    assert (Hfb : fback cb f tx v).
    { apply field_back; auto.
      - apply noeq_mem. unfold params_noeq in Hpnoeq. rewrite forallb_forall in Hpnoeq.
        specialize (Hpnoeq f Hf). apply negb_true_iff in Hpnoeq. exact Hpnoeq.
      - intros Hp. split; [eapply plain_int_unsized; eauto|]. eapply plain_int_wf; eauto.
      - intros n Hk Ht. eapply array_sized; eauto. apply fs_in_all. exact Hf.
      - intros Ht. destruct Hcoh as [_ H2]. apply H2; auto. }
    destruct Hfb as [Hdrop Hkeep].
    destruct (o_omit (fi_opts f) && is_empty (fi_type f) v) eqn:E.
    + left. split; [unfold pr, present, f_omit; rewrite Hval, E; reflexivity|].
      apply andb_true_iff in E. destruct E as [E _]. split; [exact E|]. apply Hdrop. reflexivity.
    + right. destruct (Hkeep eq_refl) as (s0 & H1 & H2 & H3 & H4 & H5 & H6).
      split; [unfold pr, present, f_omit; rewrite Hval, E; reflexivity|].
      exists s0. split; [unfold text_of; rewrite Hval, H1; reflexivity|]. auto.
  - pose proof (sts_in _ _ Hin) as Hf. split; [exact Hok|].
    unfold pr, present. rewrite Hok. cbn [andb].
    rewrite (value_of_all f (fs_in_all f Hf)), (lk_none f Hin).
    rewrite zero_is_empty; [reflexivity|]. eapply shapes_omit_noarray; eauto.
Qed.

Lemma kt_keep f tx : keepfact f tx -> exists s0, kt cb sv f = keyof f ++ s0 /\ text_of cb f sv = Some s0.
Proof. intros (_ & s0 & H1 & _). exists s0. split; [apply kt_eq; exact H1|exact H1]. Qed.

Lemma present_nd f : In f fs -> pr sv f = true -> no_delim (kt cb sv f) /\ exists s0, text_of cb f sv = Some s0.
Proof.
  intros Hf Hp. destruct (fs_has_st f Hf) as [o Ho]. pose proof (st_facts _ Ho) as H.
  destruct o as [[tx v]|]; cbn [stfact] in H.
  - destruct H as [(X & _)|K]; [congruence|].
    destruct K as (_ & s0 & H1 & H2 & _). rewrite (kt_eq cb sv f s0 H1). eauto.
  - destruct H as [_ X]. congruence.
Qed.

Lemma stq_all : Forall (stq cb sv) sts.
Proof.
  apply Forall_forall. intros x Hx. pose proof (st_facts x Hx) as H.
  destruct x as [f [[tx v]|]]; cbn [stfact stq] in *; [|exact H].
  destruct H as [H|K]; [left; exact H|right].
  destruct K as (Hp & s0 & H1 & _ & H3 & H4 & _). split; [exact Hp|].
  exists s0. split; [apply kt_eq; exact H1|]. auto.
Qed.


(* ---------- Marshal accepts the returned value ---------- *)
Lemma marshal_ok : exists ptxt',
  marshal cb ti sv = Ok (ptxt' ++ ClassPBase.emit cb sv fs None) /\
  match prefix t with Some ptxt => ptxt' = ptxt | None => ptxt' = [] end.
Proof.
  assert (Hfs : forall f, In f fs -> field_value f sv = Ok (value_of f sv) /\
                  (pr sv f = true -> exists s0, text_of cb f sv = Some s0)).
  { intros f Hf. split; [apply field_value_all; apply fs_in_all; exact Hf|].
    intros Hp. apply (present_nd f Hf Hp). }
  assert (Hfields : forall buf, marshal_fields cb fs sv None buf = Ok (buf ++ ClassPBase.emit cb sv fs None)).
  { intros buf. destruct (marshal_fields_ok cb sv fs None buf Hfs) as [out Ho]. rewrite Ho.
    f_equal. eapply marshal_fields_emit; eauto. }
  pose proof (parse_info s t Hparse) as Hpi.
  unfold marshal. fold fs. unfold prefix_fact in Hpf.
  destruct (ti_prefix ti) as [p|] eqn:Ep.
  - destruct (Hupre p eq_refl) as (Hemb & Hl & Hpar).
    rewrite (field_value_all p (prefix_in_all p Ep)). cbn [bind].
    rewrite (value_of_all p (prefix_in_all p Ep)), (lk_prefix p Ep).
    destruct Hcoh as [Hc1 _]. specialize (Hc1 p Ep).
    destruct (prefix t) as [ptxt|] eqn:Et.
    + destruct Hpf as (v & Hconv & ->). destruct Hpi as [Hsh _].
      cbn [lookup_path]. rewrite path_eqb_refl.
      rewrite (prefix_back cb p ptxt v Hl Hsh); auto.
      * cbn [bind]. exists ptxt. split; [apply Hfields|reflexivity].
      * intros Ht. apply Hc1. exact Ht.
      * intros n Hk Ht. destruct (array_sized ti p n Harr (prefix_in_all p Ep) Hk Ht) as [X _]. congruence.
    + destruct Hpf as [Hom ->]. cbn [lookup_path].
      rewrite (prefix_zero cb p Hl).
      * cbn [bind]. exists []. split; [apply Hfields|reflexivity].
      * intros Ht. apply Hc1; auto.
      * intros Ht. unfold prefix_plain_ok in Hppo. rewrite Ep, Ht, Hom in Hppo. cbn [negb andb] in Hppo.
        destruct (t_kind (fi_type p)); try discriminate. reflexivity.
  - cbn [bind]. destruct (prefix t) as [ptxt|]; [destruct Hpf|].
    exists []. split; [apply Hfields|reflexivity].
Qed.

Lemma shapes_inline_haslen : forall l f, shapes_ok l = true -> In f l -> f_inline f = true ->
  o_haslen (fi_opts f) = true /\ 0 < o_len (fi_opts f).
Proof.
  induction l as [|g r IH]; intros f H Hin Hi. destruct Hin.
  apply shapes_cons in H. destruct H as [Hg Hr]. destruct Hin as [<-|Hin].
  - destruct (sf_inline _ _ Hg Hi) as (A & B & _). auto.
  - apply IH; auto.
Qed.

(* the first byte Marshal writes when there is no prefix *)
Lemma first_ok : prefix t = None ->
  ClassPBase.emit cb sv fs None = [] \/
  exists c r, ClassPBase.emit cb sv fs None = c :: r /\ (c =? dollar) = false /\ (c =? underscore) = false.
Proof.
  intros Et. pose proof (parse_info s t Hparse) as Hpi. rewrite Et in Hpi. destruct Hpi as [Hfr Hs].
  assert (Hfirst : exists f1 r, fs = f1 :: r /\ f_omit f1 = false /\ f_group f1 = false).
  { pose proof (Hhd Et) as Hh. unfold headed in Hh. unfold prefix_fact in Hpf. rewrite Et in Hpf. fold fs in Hh.
    destruct (ti_prefix ti) as [p|].
    - destruct Hpf as [Hom _]. rewrite Hom in Hh. cbn [negb orb] in Hh.
      destruct fs as [|f1 r]; [discriminate|]. apply andb_true_iff in Hh. destruct Hh as [A B].
      apply negb_true_iff in A, B. eauto.
    - cbn [orb] in Hh. destruct fs as [|f1 r]; [discriminate|]. apply andb_true_iff in Hh. destruct Hh as [A B].
      apply negb_true_iff in A, B. eauto. }
  destruct Hfirst as (f1 & r & Efs & Hom & Hgf).
  destruct (Hhead f1 r Efs Hgf Hom) as (t1 & v1 & u & rest' & fr0 & frs & Ests' & Efr & (n0 & -> & Hn0) & Hu).
  destruct Hs as [->|(c & r0 & -> & Hd & Hus)].
  { rewrite Efr in Hfr. discriminate. }
  rewrite Efr in Hfr. symmetry in Hfr. destruct (first_value_char c r0 n0 frs Hd Hfr) as [w Hw].
  assert (Hin : In (f1, Some (t1, v1)) sts) by (rewrite Ests'; left; reflexivity).
  pose proof (st_facts _ Hin) as Hsf. cbn [stfact] in Hsf.
  destruct Hsf as [(_ & X & _)|K]; [congruence|].
  destruct K as (Hp & s0 & Ht & Hnd & _ & _ & Hnil & Hfc).
  rewrite Efs. cbn [ClassPBase.emit]. rewrite Hp. cbn [sep app]. rewrite (kt_eq cb sv f1 s0 Ht).
  destruct (keyof f1 ++ s0) as [|c' r'] eqn:Ek.
  - exfalso. apply app_eq_nil in Ek. destruct Ek as [Ek1 Ek2]. specialize (Hnil Ek2). subst t1.
    rewrite Ek1 in Hn0. cbn [app] in Hn0.
    destruct (f_inline f1) eqn:Ei.
    + assert (Hf1 : In f1 fs) by (rewrite Efs; left; reflexivity).
      destruct (shapes_inline_haslen fs f1 Hshapes Hf1 Ei) as [Hl Hpos].
      rewrite Forall_forall in Hst. specialize (Hst _ Hin). cbn [st_ok] in Hst.
      destruct Hst as (_ & Hlen & _). specialize (Hlen Hl). cbn [length] in Hlen. lia.
    + rewrite (Hu eq_refl) in Hn0. congruence.
  - right. exists c', (r' ++ ClassPBase.emit cb sv r (Some f1)). split; [reflexivity|].
    apply no_delim_cons in Hnd. destruct Hnd as [Hdel _]. unfold is_delim in Hdel.
    apply orb_false_iff in Hdel. destruct Hdel as [Hd' _]. split; [exact Hd'|].
    destruct (Hfc c' r' eq_refl) as [Hne|[r'' Hr'']].
    + apply Z.eqb_neq. exact Hne.
    + rewrite app_assoc, Hr'' in Hn0. cbn [app] in Hn0. rewrite Hn0 in Hw. inversion Hw. subst c'. exact Hus.
Qed.

(* ---------- the marshalled string parses to the canonical chunks ---------- *)
Lemma parse_marshalled ptxt' :
  match prefix t with Some ptxt => ptxt' = ptxt | None => ptxt' = [] end ->
  exists t', parse (ptxt' ++ ClassPBase.emit cb sv fs None) = POk t' /\ prefix t' = prefix t /\
             map snd (nodes t') = dle (chunks (pitems cb sv fs) None).
Proof.
  intros Hp.
  assert (Hnodes : forall po off, map snd (nodes (body_tree po off (ClassPBase.emit cb sv fs None)))
                                  = dle (chunks (pitems cb sv fs) None)).
  { intros po off. unfold nodes, body_tree. cbn [frags]. rewrite nodes_flat.
    rewrite (sc_emit cb sv fs None [] off off None).
    - cbn [gT rev]. apply F_flat.
    - intros f Hf Hpf'. apply (present_nd f Hf Hpf'). }
  pose proof (parse_info s t Hparse) as Hpi. pose proof first_ok as Hfo.
  destruct (prefix t) as [ptxt|] eqn:Et.
  - subst ptxt'. destruct Hpi as [Hsh _].
    eexists. split; [apply parse_prefix_body; exact Hsh|]. split; [reflexivity|apply Hnodes].
  - subst ptxt'. cbn [app].
    eexists. split; [apply parse_noprefix; apply Hfo; reflexivity|]. split; [reflexivity|apply Hnodes].
Qed.

Lemma explicit_E2 E2 : E2 = [] \/ E2 = [[]] -> forallb explicit_empty (map norm_text E2) = true.
Proof. intros [->| ->]; reflexivity. Qed.

Theorem main_section : exists s', marshal cb ti sv = Ok s' /\ respell s s'.
Proof.
  destruct marshal_ok as (ptxt' & Hm & Hp).
  destruct (parse_marshalled ptxt' Hp) as (t' & Hparse' & Hpre' & Hnodes').
  exists (ptxt' ++ ClassPBase.emit cb sv fs None). split; [exact Hm|].
  exists t, t'. split; [exact Hparse|]. split; [exact Hparse'|].
  (* accepted against canonical items *)
  assert (Hirel : irel false (aitems sts) (pitems cb sv fs)).
  { rewrite <- Ests. apply build_irel.
    - exact stq_all.
    - rewrite Ests. exact Hshapes.
    - rewrite Ests. exact Hinl.
    - rewrite Ests. intros f Hf Hpi. destruct (f_inline f) eqn:Ei; auto.
      destruct (shapes_inline_haslen fs f Hshapes Hf Ei) as [X _].
      rewrite (plain_int_unsized ti f Hints Hf Hpi) in X. discriminate.
    - discriminate. }
  destruct (irel_chunks false _ _ Hirel None (fun _ => eq_refl)) as (E & HPE & HE).
  assert (ED : D = chunks (aitems sts) None).
  { pose proof (fold_chunks (aitems sts) [] None) as X. fold (chunk_st sts) in X. rewrite HD in X.
    unfold cfinal in X. cbn [fst snd app] in X. rewrite app_nil_r in X. exact X. }
  destruct (dle_split (chunks (pitems cb sv fs) None)) as (E2 & HE2 & HE2').
  set (N := map snd (nodes t)) in *. set (N' := map snd (nodes t')) in *.
  assert (HN : Permutation (map norm_text N) (map norm_text N' ++ (map norm_text E2 ++ E))).
  { eapply perm_trans; [apply Permutation_map; exact HPerm|]. rewrite ED.
    eapply perm_trans; [exact HPE|]. rewrite HE2 at 1. rewrite <- Hnodes'. fold N'.
    rewrite map_app, <- app_assoc. apply Permutation_refl. }
  unfold value_texts. rewrite Hpre'. fold N N'.
  apply (covers_perm _ _ (map norm_text E2 ++ E)).
  - rewrite !map_app, <- app_assoc. apply Permutation_app_head. exact HN.
  - rewrite forallb_app, HE, (explicit_E2 E2 HE2'). reflexivity.
Qed.

End Main.

(* ================================================================== *)
(* the theorem                                                         *)
(* ================================================================== *)
(* general form: [headed] is only needed for strings without a prefix *)
Theorem C20_converse_gen : forall cb ti s m,
  unambiguous ti = true -> paths_ok ti = true -> ints_unsized ti = true ->
  params_noeq ti = true -> arrays_sized ti = true -> ints_wf ti = true ->
  inline_next_exact (ti_fields ti) = true -> prefix_plain_ok ti = true ->
  cb_coherent cb ti ->
  (headed ti = true \/ exists t p, parse s = POk t /\ prefix t = Some p) ->
  unmarshal cb ti s = Ok m ->
  exists s', marshal cb ti (sval_of m) = Ok s' /\ respell s s'.
Proof.
  intros cb ti s m Hun Hpaths Hints Hpe Harr Hwf Hinl Hppo Hcoh Hhd Hu.
  destruct (unmarshal_analysis cb ti s m Hun Hpe Hu)
    as (t & sts & D & out0 & Hparse & Ests & Hst & HD & HPerm & Hm & Hpf & Hhead).
  unfold unambiguous in Hun. rewrite !andb_true_iff in Hun.
  destruct Hun as ((((Hupre & Hne) & Hshapes) & Hgso) & Hnodup).
  subst m.
  apply (main_section cb ti s t sts D out0); auto.
  - intros p Ep. rewrite Ep in Hupre. rewrite !andb_true_iff in Hupre. destruct Hupre as ((A & B) & C).
    apply negb_true_iff in B.
    destruct (fi_embptr p); [|discriminate]. destruct (o_param (fi_opts p)); [|discriminate]. auto.
  - intros Et. destruct Hhd as [H|(t0 & p & Hp0 & Hp1)]; [exact H|].
    rewrite Hparse in Hp0. inversion Hp0; subst t0. congruence.
Qed.

Theorem C20_converse : forall cb ti s m,
  unambiguous ti = true -> paths_ok ti = true -> ints_unsized ti = true ->
  params_noeq ti = true -> arrays_sized ti = true -> ints_wf ti = true ->
  inline_next_exact (ti_fields ti) = true -> headed ti = true -> prefix_plain_ok ti = true ->
  cb_coherent cb ti ->
  unmarshal cb ti s = Ok m ->
  exists s', marshal cb ti (sval_of m) = Ok s' /\ respell s s'.
Proof. intros. eapply C20_converse_gen; eauto. Qed.

(* the statement of C20Test.v, with the side conditions it needs *)
Corollary C20_statement_conditional :
  forall cb ti s m,
    unambiguous ti = true -> paths_ok ti = true -> numreq_ok ti = true -> ints_unsized ti = true ->
    params_noeq ti = true -> arrays_sized ti = true -> ints_wf ti = true ->
    inline_next_exact (ti_fields ti) = true -> headed ti = true -> prefix_plain_ok ti = true ->
    cb_coherent cb ti ->
    unmarshal cb ti s = Ok m ->
    exists s', marshal cb ti (sval_of m) = Ok s' /\ respell s s'.
Proof. intros. eapply C20_converse; eauto. Qed.

Check C20_converse.
Check C20_converse_gen.
Print Assumptions C20_converse.
Print Assumptions C20_converse_gen.
Print Assumptions C20_statement_conditional.
Print Assumptions unmarshal_analysis.
Print Assumptions field_back.
