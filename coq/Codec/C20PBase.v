(* C20 converse direction, part 1: the side conditions of the theorem, the chunk view of a list of emitted /
   accepted field texts, and the list lemmas about [covers]. *)
Require Import GC.Base.Bytes GC.Base.CaseLib GC.Codec.Types GC.Codec.Strconv GC.Codec.StrconvProofs GC.Codec.TypeInfo
               GC.Codec.Marshal GC.Codec.Unmarshal GC.Codec.Codec GC.Codec.Class GC.Codec.ClassPBase GC.Codec.Respell.
Require Import GC.Parse.ParseModel GC.Parse.ParseSpec GC.Parse.ParseProofs.
Require Import Coq.Sorting.Permutation.
Arguments Z.add : simpl never. Arguments Z.sub : simpl never. Arguments Z.of_nat : simpl never.
Arguments Z.leb : simpl never. Arguments Z.ltb : simpl never.

(* ------------------------------------------------------------------ *)
(* side conditions                                                     *)
(* ------------------------------------------------------------------ *)
(* a field whose conversion goes through a text marshaler or unmarshaler *)
Definition texty (fi : finfo) : bool :=
  match t_mtext (fi_type fi), t_utext (fi_type fi) with None, None => false | _, _ => true end.
Definition plain_int (fi : finfo) : bool :=
  negb (texty fi) && match t_kind (fi_type fi) with KInt _ | KUint _ => true | _ => false end.

Definition all_fields (ti : tinfo) : list finfo :=
  (match ti_prefix ti with Some p => [p] | None => [] end) ++ ti_fields ti.

(* no param name contains '=' *)
Definition params_noeq (ti : tinfo) : bool :=
  forallb (fun fi => negb (mem equals (o_param (fi_opts fi)))) (ti_fields ti).

(* a byte-array field has the length of its type *)
Definition arrays_sized (ti : tinfo) : bool :=
  forallb (fun fi => match t_kind (fi_type fi) with
                     | KArray n => texty fi || (o_haslen (fi_opts fi) && (o_len (fi_opts fi) =? Z.of_nat n))
                     | _ => true
                     end) (all_fields ti).

(* plain integer fields: base 2..36, 1..64 bits (true of every Go integer type and every parsed tag) *)
Definition ints_wf (ti : tinfo) : bool :=
  forallb (fun fi => if plain_int fi then
                       (2 <=? o_base (fi_opts fi)) && (o_base (fi_opts fi) <=? 36)
                       && match t_kind (fi_type fi) with
                          | KInt b | KUint b => (1 <=? b) && (b <=? 64)
                          | _ => true
                          end
                     else true) (ti_fields ti).

(* the field that shares a value with a preceding inline field is not a plain integer *)
Fixpoint inline_next_exact (fs : list finfo) : bool :=
  match fs with
  | f :: r => (if f_inline f then match r with nx :: _ => negb (plain_int nx) | [] => true end else true)
              && inline_next_exact r
  | [] => true
  end.

(* the string starts with something Unmarshal is bound to read: a required prefix, or a required first field
   that is not a group member *)
Definition headed (ti : tinfo) : bool :=
  match ti_prefix ti with Some p => negb (o_omit (fi_opts p)) | None => false end
  || match ti_fields ti with f :: _ => negb (f_omit f) && negb (f_group f) | [] => false end.

(* an optional prefix without text methods is a string *)
Definition prefix_plain_ok (ti : tinfo) : bool :=
  match ti_prefix ti with
  | Some p => if negb (texty p) && o_omit (fi_opts p)
              then match t_kind (fi_type p) with KString => true | _ => false end
              else true
  | None => true
  end.

(* coherence of the text (un)marshalers of a field: what the unmarshaler accepts, the marshaler writes back *)
Definition len_ok (fi : finfo) (s : bytes) : Prop :=
  o_haslen (fi_opts fi) = true -> Z.of_nat (length s) = o_len (fi_opts fi).
Definition coh_rt (cb : callbacks) (fi : finfo) : Prop :=
  forall s v, no_delim s -> len_ok fi s -> convert cb NValue 0 fi s = Ok v ->
    o_omit (fi_opts fi) && is_empty (fi_type fi) v = false ->
    marshal1 cb fi v = Ok s.
Definition coh_empty (cb : callbacks) (fi : finfo) : Prop :=
  forall s v, no_delim s -> len_ok fi s -> convert cb NValue 0 fi s = Ok v ->
    is_empty (fi_type fi) v = true -> explicit_empty (norm_text (keyof fi ++ s)) = true.
Definition coh_prefix (cb : callbacks) (p : finfo) : Prop :=
  forall s v, prefix_shaped s = true -> convert cb NValue 0 p s = Ok v -> marshal1 cb p v = Ok s.
Definition cb_coherent (cb : callbacks) (ti : tinfo) : Prop :=
  (forall p, ti_prefix ti = Some p -> texty p = true ->
      coh_prefix cb p /\ (o_omit (fi_opts p) = true -> marshal1 cb p (zero_value (fi_type p)) = Ok [])) /\
  (forall fi, In fi (ti_fields ti) -> texty fi = true ->
      coh_rt cb fi /\ (o_omit (fi_opts fi) = true -> coh_empty cb fi)).

(* ------------------------------------------------------------------ *)
(* chunks: the value texts a sequence of emitted texts forms           *)
(* ------------------------------------------------------------------ *)
(* an item is (inline?, text): the text of an inline field is glued in front of the next text *)
Definition item := (bool * bytes)%type.
Definition ptext (p : option bytes) : bytes := match p with Some c => c | None => [] end.

Fixpoint chunks (l : list item) (p : option bytes) : list bytes :=
  match l with
  | [] => match p with Some c => [c] | None => [] end
  | (il, t) :: r => if il then chunks r (Some (ptext p ++ t)) else (ptext p ++ t) :: chunks r None
  end.

Definition cstate := (list bytes * option bytes)%type.
Definition cstep (c : cstate) (it : item) : cstate :=
  if fst it then (fst c, Some (ptext (snd c) ++ snd it)) else (fst c ++ [ptext (snd c) ++ snd it], None).
Definition cfinal (c : cstate) : list bytes :=
  fst c ++ match snd c with Some x => [x] | None => [] end.

Lemma fold_chunks : forall l d p, cfinal (fold_left cstep l (d, p)) = d ++ chunks l p.
Proof.
  induction l as [|[il t] r IH]; intros d p; cbn [fold_left chunks].
  - reflexivity.
  - unfold cstep at 2. cbn [fst snd]. destruct il.
    + apply IH.
    + rewrite IH. rewrite <- app_assoc. reflexivity.
Qed.

Lemma chunks_some_nonnil : forall l c, chunks l (Some c) <> [].
Proof.
  induction l as [|[il t] r IH]; intros c; cbn [chunks]. discriminate.
  destruct il. apply IH. discriminate.
Qed.

Lemma chunks_some_nil l : l <> [] -> chunks l (Some []) = chunks l None.
Proof. destruct l as [|[il t] r]; [congruence|]. intros _. reflexivity. Qed.

(* drop the last chunk if it is empty (a trailing delimiter is not a value) *)
Fixpoint dle (l : list bytes) : list bytes :=
  match l with
  | [] => []
  | [x] => if is_nil_b x then [] else [x]
  | x :: r => x :: dle r
  end.

Lemma dle_cons x r : r <> [] -> dle (x :: r) = x :: dle r.
Proof. destruct r; [congruence|reflexivity]. Qed.

Lemma dle_split : forall l, exists E, l = dle l ++ E /\ (E = [] \/ E = [[]]).
Proof.
  induction l as [|x r IH].
  - exists []. split; [reflexivity|left; reflexivity].
  - destruct r as [|y r'].
    + cbn [dle]. destruct x as [|c x']; cbn [is_nil_b].
      * exists [[]]. split; [reflexivity|right; reflexivity].
      * exists []. split; [reflexivity|left; reflexivity].
    + destruct IH as (E & HE & HE'). exists E. split; [|exact HE'].
      rewrite dle_cons by discriminate. cbn [app]. rewrite <- HE. reflexivity.
Qed.

(* ------------------------------------------------------------------ *)
(* covers                                                              *)
(* ------------------------------------------------------------------ *)
Lemma remove_one_in c : forall acc, In c acc ->
  exists rest, remove_one c acc = Some rest /\ Permutation acc (c :: rest).
Proof.
  induction acc as [|y l IH]; intros H. destruct H.
  cbn [remove_one]. destruct (bytes_eqb c y) eqn:E.
  - apply bytes_eqb_eq in E. subst y. exists l. split; [reflexivity|apply Permutation_refl].
  - assert (Hin : In c l).
    { destruct H as [->|H]; [|exact H]. rewrite bytes_eqb_refl in E. discriminate. }
    destruct (IH Hin) as (r' & H1 & H2). rewrite H1. exists (y :: r'). split; [reflexivity|].
    eapply perm_trans; [apply perm_skip; exact H2|apply perm_swap].
Qed.

Lemma covers_perm : forall can acc E,
  Permutation acc (can ++ E) -> forallb explicit_empty E = true -> covers acc can = true.
Proof.
  induction can as [|c r IH]; intros acc E HP HE.
  - cbn [covers]. cbn [app] in HP. apply forallb_forall. intros x Hx.
    rewrite forallb_forall in HE. apply HE. eapply Permutation_in; eauto.
  - cbn [covers].
    assert (Hin : In c acc).
    { eapply Permutation_in; [apply Permutation_sym; exact HP|]. left. reflexivity. }
    destruct (remove_one_in c acc Hin) as (rest & H1 & H2). rewrite H1.
    apply (IH rest E); [|exact HE].
    apply (Permutation_cons_inv (a := c)).
    eapply perm_trans; [apply Permutation_sym; exact H2|exact HP].
Qed.

(* ------------------------------------------------------------------ *)
(* accepted items against canonical items                              *)
(* ------------------------------------------------------------------ *)
(* [irel pi A C]: C is A without some stand-alone explicitly empty texts and with stand-alone texts respelled;
   pi = the item before is inline (so the head is glued to it and has to be the same on both sides) *)
Inductive irel : bool -> list item -> list item -> Prop :=
| ir_nil pi : irel pi [] []
| ir_exact pi il t A C : irel il A C -> irel pi ((il, t) :: A) ((il, t) :: C)
| ir_norm t t' A C : norm_text t = norm_text t' -> irel false A C -> irel false ((false, t) :: A) ((false, t') :: C)
| ir_drop t A C : explicit_empty (norm_text t) = true -> irel false A C -> irel false ((false, t) :: A) C.

Lemma irel_chunks : forall pi A C, irel pi A C -> forall p, (pi = false -> p = None) ->
  exists E, Permutation (map norm_text (chunks A p)) (map norm_text (chunks C p) ++ E) /\
            forallb explicit_empty E = true.
Proof.
  induction 1 as [pi|pi il t A C H IH|t t' A C Hn H IH|t A C He H IH]; intros p Hp.
  - exists []. rewrite app_nil_r. split; [apply Permutation_refl|reflexivity].
  - cbn [chunks]. destruct il.
    + apply IH. discriminate.
    + destruct (IH None (fun _ => eq_refl)) as (E & HP & HE). exists E. split; [|exact HE].
      cbn [map app]. apply perm_skip. exact HP.
  - rewrite (Hp eq_refl). cbn [chunks ptext app map].
    destruct (IH None (fun _ => eq_refl)) as (E & HP & HE). exists E. split; [|exact HE].
    rewrite Hn. apply perm_skip. exact HP.
  - rewrite (Hp eq_refl). cbn [chunks ptext app map].
    destruct (IH None (fun _ => eq_refl)) as (E & HP & HE). exists (norm_text t :: E). split.
    + eapply perm_trans; [apply perm_skip; exact HP|]. apply Permutation_middle.
    + cbn [forallb]. rewrite He, HE. reflexivity.
Qed.

(* ------------------------------------------------------------------ *)
(* small facts                                                         *)
(* ------------------------------------------------------------------ *)
Lemma norm_text_nil : norm_text [] = [].
Proof. reflexivity. Qed.
Lemma explicit_empty_nil : explicit_empty [] = true.
Proof. reflexivity. Qed.

Lemma noeq_mem s : mem equals s = false -> noeq s.
Proof. intros H Hin. apply mem_In in Hin. congruence. Qed.

Lemma has_eq_noeq s : noeq s -> has_eq s = false.
Proof. intros H. unfold has_eq. destruct (mem equals s) eqn:E; auto. apply mem_In in E. contradiction. Qed.

Lemma split_eq_key : forall p r, noeq p -> split_eq (p ++ equals :: r) = (p ++ [equals], r).
Proof.
  induction p as [|c p IH]; intros r Hp.
  - reflexivity.
  - cbn [app split_eq]. destruct (c =? equals) eqn:E.
    + apply Z.eqb_eq in E. exfalso. apply Hp. left. exact E.
    + rewrite IH. reflexivity. intros H. apply Hp. right. exact H.
Qed.

Lemma has_eq_key p r : has_eq (p ++ equals :: r) = true.
Proof. unfold has_eq. apply mem_In. apply in_or_app. right. left. reflexivity. Qed.

(* norm_text of a keyed text whose param has no '=' *)
Lemma norm_text_keyed p r : noeq p -> norm_text ((p ++ [equals]) ++ r) = (p ++ [equals]) ++ norm_body r.
Proof.
  intros Hp. unfold norm_text. rewrite <- app_assoc. cbn [app]. rewrite has_eq_key, split_eq_key by exact Hp.
  reflexivity.
Qed.
Lemma explicit_empty_keyed p r : noeq p ->
  explicit_empty ((p ++ [equals]) ++ r) = (match r with [] => true | _ => false end) || bytes_eqb (norm_body r) [48].
Proof.
  intros Hp. unfold explicit_empty. rewrite <- app_assoc. cbn [app]. rewrite has_eq_key, split_eq_key by exact Hp.
  reflexivity.
Qed.

(* two keys with '='-free params that are both in front of the same text are the same key *)
Lemma keys_same p q t : noeq p -> noeq q ->
  has_prefix (p ++ [equals]) t = true -> has_prefix (q ++ [equals]) t = true -> p = q.
Proof.
  intros Hp Hq H1 H2. apply has_prefix_spec in H1. apply has_prefix_spec in H2.
  destruct H1 as [u ->]. destruct H2 as [w E].
  rewrite <- !app_assoc in E. cbn [app] in E.
  revert q Hq E. induction p as [|c p IH]; intros q Hq E.
  - destruct q as [|d q]; [reflexivity|]. cbn [app] in E. inversion E; subst. exfalso. apply Hq. left. reflexivity.
  - destruct q as [|d q].
    + cbn [app] in E. inversion E; subst. exfalso. apply Hp. left. reflexivity.
    + cbn [app] in E. inversion E; subst. f_equal. apply IH.
      * intros H. apply Hp. right. exact H.
      * intros H. apply Hq. right. exact H.
      * assumption.
Qed.

Lemma trim_has_prefix k t : has_prefix k t = true -> t = k ++ trim_prefix k t.
Proof.
  intros H. pose proof H as H'. apply has_prefix_spec in H'. destruct H' as [u ->].
  rewrite trim_prefix_app. reflexivity.
Qed.
