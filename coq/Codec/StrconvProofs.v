(* Round-trip theorems for the strconv model (Codec/Strconv.v):
   Parse(Format v) = v, the character set of formatted numbers, and the canonical-spelling
   theorems Format(Parse s) = s with leading zeros stripped and letters lower-cased. *)
Require Import GC.Base.Bytes GC.Codec.Strconv.

Arguments Z.pow : simpl never.
Arguments Z.mul : simpl never.
Arguments Z.add : simpl never.
Arguments Z.sub : simpl never.
Arguments Z.div : simpl never.
Arguments Z.modulo : simpl never.
Arguments Z.of_nat : simpl never.

(* ------------------------------------------------------------------ *)
(* Accumulator-free specification of fmt_digits                        *)

Fixpoint digits (n : nat) (base v : Z) : bytes :=
  match n with
  | O => []
  | S m => (if v / base =? 0 then [] else digits m base (v / base)) ++ [digit_char (v mod base)]
  end.

Lemma fmt_digits_digits n base : forall v acc,
  fmt_digits n base v acc = digits n base v ++ acc.
Proof.
  induction n as [|n IH]; intros v acc; cbn [fmt_digits digits]. reflexivity.
  destruct (v / base =? 0).
  - reflexivity.
  - rewrite IH, <- app_assoc. reflexivity.
Qed.

Lemma FormatUint_digits v base : FormatUint v base = digits 70 base v.
Proof. unfold FormatUint. rewrite fmt_digits_digits. apply app_nil_r. Qed.

Lemma digits_nonempty n base v : digits (S n) base v <> [].
Proof.
  cbn [digits]. intros H. apply app_eq_nil in H. destruct H as [_ H]. discriminate.
Qed.

(* ------------------------------------------------------------------ *)
(* Single digits                                                       *)

Ltac cmp :=
  repeat match goal with
  | |- context [?a <=? ?b] => destruct (Z.leb_spec a b)
  | |- context [?a <? ?b] => destruct (Z.ltb_spec a b)
  end; cbn [andb orb negb].

Lemma digit_val_char d : 0 <= d < 36 -> digit_val (digit_char d) = Some d.
Proof.
  intros Hd. unfold digit_char, digit_val. cmp; try lia; f_equal; lia.
Qed.

Lemma digit_char_range d : 0 <= d < 36 ->
  (48 <= digit_char d <= 57) \/ (97 <= digit_char d <= 122).
Proof. intros Hd. unfold digit_char. cmp; lia. Qed.

Definition lower (c : Z) : Z := if (65 <=? c) && (c <=? 90) then c + 32 else c.

Lemma digit_val_lower c d : digit_val c = Some d -> digit_char d = lower c /\ 0 <= d < 36.
Proof.
  unfold digit_val, lower. cmp; intros Hx; try discriminate Hx; try lia;
    injection Hx as <-; unfold digit_char; cmp; lia.
Qed.

Lemma digit_val_zero c : digit_val c = Some 0 -> c = 48.
Proof.
  unfold digit_val. cmp; intros Hx; try discriminate Hx; try lia; injection Hx as Hx; lia.
Qed.

(* ------------------------------------------------------------------ *)
(* parse_digits                                                        *)

Lemma parse_digits_app base maxv s1 : forall a s2,
  parse_digits base maxv a (s1 ++ s2) =
  match parse_digits base maxv a s1 with
  | inl v => parse_digits base maxv v s2
  | inr e => inr e
  end.
Proof.
  induction s1 as [|c r IH]; intros a s2; cbn [app parse_digits]. reflexivity.
  destruct (digit_val c) as [d|]; [|reflexivity].
  destruct (base <=? d); [reflexivity|]. cbv zeta.
  destruct (maxv <? a * base + d); [reflexivity|]. apply IH.
Qed.

Lemma parse_digits_of base maxv : 2 <= base <= 36 -> forall n v,
  0 <= v < base ^ Z.of_nat n -> v <= maxv ->
  parse_digits base maxv 0 (digits n base v) = inl v.
Proof.
  intros Hb. induction n as [|n IH]; intros v Hv Hm.
  - change (Z.of_nat 0) with 0 in Hv. rewrite Z.pow_0_r in Hv.
    assert (v = 0) by lia. subst. reflexivity.
  - cbn [digits]. rewrite parse_digits_app.
    pose proof (Z.div_mod v base ltac:(lia)) as E.
    pose proof (Z.mod_pos_bound v base ltac:(lia)) as M.
    assert (Hq : 0 <= v / base) by (apply Z.div_pos; lia).
    assert (Hq2 : v / base < base ^ Z.of_nat n).
    { apply Z.div_lt_upper_bound. lia.
      rewrite Nat2Z.inj_succ, Z.pow_succ_r in Hv; lia. }
    assert (Hq3 : v / base <= maxv) by nia.
    match goal with |- context [parse_digits base maxv 0 ?p] =>
      assert (P : parse_digits base maxv 0 p = inl (v / base)) end.
    { destruct (Z.eqb_spec (v / base) 0) as [e|ne]. rewrite e. reflexivity. apply IH; lia. }
    rewrite P. cbn [parse_digits]. rewrite digit_val_char by lia.
    destruct (Z.leb_spec base (v mod base)); [lia|]. cbv zeta.
    replace (v / base * base + v mod base) with v by lia.
    destruct (Z.ltb_spec maxv v); [lia|]. reflexivity.
Qed.

Lemma parse_zero base maxv : 2 <= base -> forall s a,
  0 <= a -> parse_digits base maxv a s = inl 0 -> a = 0 /\ Forall (fun c => c = 48) s.
Proof.
  intros Hb. induction s as [|c r IH]; intros a Ha H; cbn [parse_digits] in H.
  - injection H as H. split; [assumption|constructor].
  - destruct (digit_val c) as [d|] eqn:D; [|discriminate].
    destruct (base <=? d); [discriminate|]. cbv zeta in H.
    destruct (maxv <? a * base + d); [discriminate|].
    destruct (digit_val_lower _ _ D) as [_ Hd].
    apply IH in H; [|nia]. destruct H as [H1 H2].
    assert (a = 0) by nia. subst a. assert (d = 0) by lia. subst d.
    split; [reflexivity|]. constructor; [apply digit_val_zero; assumption|assumption].
Qed.

(* ------------------------------------------------------------------ *)
(* strip_zeros                                                         *)

Fixpoint strip_zeros (s : bytes) : bytes :=
  match s with
  | 48 :: ((_ :: _) as r) => strip_zeros r
  | _ => s
  end.

Lemma strip_zeros_48_cons b r : strip_zeros (48 :: b :: r) = strip_zeros (b :: r).
Proof. reflexivity. Qed.

Lemma strip_zeros_ne a r : a <> 48 -> strip_zeros (a :: r) = a :: r.
Proof.
  intros H. destruct a as [|p|p]; try reflexivity.
  repeat (destruct p as [p|p|]; try reflexivity).
  exfalso; apply H; reflexivity.
Qed.

Lemma strip_single x : strip_zeros [x] = [x].
Proof.
  destruct (Z.eq_dec x 48) as [->|n]; [reflexivity|apply strip_zeros_ne; assumption].
Qed.

Lemma strip_snoc t x : t <> [] -> strip_zeros t <> [48] ->
  strip_zeros (t ++ [x]) = strip_zeros t ++ [x].
Proof.
  induction t as [|a t IH]; [contradiction|]. intros _ H.
  destruct (Z.eq_dec a 48) as [->|n].
  - destruct t as [|b t]. exfalso; apply H; reflexivity.
    change ((48 :: b :: t) ++ [x]) with (48 :: b :: (t ++ [x])).
    rewrite strip_zeros_48_cons in *.
    change (b :: t ++ [x]) with ((b :: t) ++ [x]).
    apply IH; [discriminate|assumption].
  - cbn [app]. rewrite !strip_zeros_ne by assumption. reflexivity.
Qed.

Lemma strip_all_zeros s x : Forall (fun c => c = 48) s ->
  strip_zeros (map lower s ++ [x]) = [x].
Proof.
  induction 1 as [|c r Hc Hr IH]; cbn [map app].
  - apply strip_single.
  - subst c. change (lower 48) with 48.
    destruct (map lower r ++ [x]) as [|b t] eqn:E.
    + apply app_eq_nil in E. destruct E as [_ E]. discriminate.
    + rewrite strip_zeros_48_cons. exact IH.
Qed.

(* ------------------------------------------------------------------ *)
(* Core of the canonical-spelling direction                            *)

Lemma format_parse_core base maxv : 2 <= base <= 36 -> forall s v,
  parse_digits base maxv 0 s = inl v ->
  0 <= v /\
  (s <> [] -> v <= maxv /\
     forall n, (1 <= n)%nat -> v < base ^ Z.of_nat n ->
               digits n base v = strip_zeros (map lower s)).
Proof.
  intros Hb. induction s as [|c s' IH] using rev_ind; intros v H.
  - cbn [parse_digits] in H. injection H as <-. split; [lia|]. intros C; contradiction.
  - rewrite parse_digits_app in H.
    destruct (parse_digits base maxv 0 s') as [v'|] eqn:P; [|discriminate].
    cbn [parse_digits] in H.
    destruct (digit_val c) as [d|] eqn:D; [|discriminate].
    destruct (Z.leb_spec base d); [discriminate|]. cbv zeta in H.
    destruct (Z.ltb_spec maxv (v' * base + d)); [discriminate|].
    injection H as <-.
    destruct (IH v' eq_refl) as [Hv' IH'].
    destruct (digit_val_lower _ _ D) as [DL Dr].
    split; [nia|]. intros _. split; [lia|].
    intros n Hn Hlt. destruct n as [|n]; [lia|]. cbn [digits].
    assert (Eq : (v' * base + d) / base = v').
    { symmetry. apply Z.div_unique with d; lia. }
    assert (Er : (v' * base + d) mod base = d).
    { symmetry. apply Z.mod_unique with v'; lia. }
    rewrite Eq, Er, map_app. cbn [map]. rewrite <- DL.
    destruct (Z.eqb_spec v' 0) as [e|ne].
    + subst v'. apply (parse_zero base maxv ltac:(lia)) in P; [|lia].
      destruct P as [_ P]. cbn [app]. symmetry. apply strip_all_zeros. assumption.
    + assert (Hs : s' <> []).
      { intros ->. cbn [parse_digits] in P. injection P as P. lia. }
      destruct (IH' Hs) as [_ IHd].
      rewrite Nat2Z.inj_succ, Z.pow_succ_r in Hlt by lia.
      assert (Hlt' : v' < base ^ Z.of_nat n) by nia.
      assert (Hn' : (1 <= n)%nat).
      { destruct n; [|lia]. change (Z.of_nat 0) with 0 in Hlt'.
        rewrite Z.pow_0_r in Hlt'. lia. }
      pose proof (IHd n Hn' Hlt') as Ed.
      rewrite strip_snoc.
      * rewrite <- Ed. reflexivity.
      * intros C. apply Hs. apply map_eq_nil in C. assumption.
      * rewrite <- Ed. intros C.
        pose proof (parse_digits_of base v' Hb n v' ltac:(lia) ltac:(lia)) as Q.
        rewrite C in Q. cbn [parse_digits] in Q. change (digit_val 48) with (Some 0) in Q.
        cbv beta iota zeta in Q.
        destruct (base <=? 0); [discriminate|].
        destruct (v' <? 0 * base + 0); [discriminate|]. injection Q as Q. lia.
Qed.

Lemma pow70 base v : 2 <= base -> v < 2 ^ 64 -> v < base ^ Z.of_nat 70.
Proof.
  intros Hb Hv. change (Z.of_nat 70) with 70.
  assert (2 ^ 70 <= base ^ 70) by (apply Z.pow_le_mono_l; lia).
  assert (2 ^ 64 < 2 ^ 70) by (apply Z.pow_lt_mono_r; lia).
  lia.
Qed.

Lemma pow_bits bits : 1 <= bits <= 64 -> 2 ^ bits <= 2 ^ 64.
Proof. intros H. apply Z.pow_le_mono_r; lia. Qed.

Lemma pow_half bits : 1 <= bits <= 64 -> 2 ^ bits = 2 * 2 ^ (bits - 1) /\ 0 < 2 ^ (bits - 1).
Proof.
  intros H. split.
  - rewrite <- Z.pow_succ_r by lia. f_equal. lia.
  - apply Z.pow_pos_nonneg; lia.
Qed.

(* ------------------------------------------------------------------ *)
(* Character sets                                                      *)

Lemma digits_chars base : 2 <= base <= 36 -> forall n v,
  Forall (fun c => (48 <= c <= 57) \/ (97 <= c <= 122)) (digits n base v).
Proof.
  intros Hb. induction n as [|n IH]; intros v; cbn [digits]. constructor.
  apply Forall_app. split.
  - destruct (v / base =? 0); [constructor|apply IH].
  - constructor; [|constructor]. apply digit_char_range.
    pose proof (Z.mod_pos_bound v base ltac:(lia)). lia.
Qed.

Theorem format_uint_chars : forall v base, 2 <= base <= 36 -> 0 <= v < 2 ^ 64 ->
  FormatUint v base <> [] /\
  Forall (fun c => (48 <= c <= 57) \/ (97 <= c <= 122)) (FormatUint v base).
Proof.
  intros v base Hb _. rewrite FormatUint_digits. split.
  - apply (digits_nonempty 69).
  - apply digits_chars. assumption.
Qed.

Theorem format_int_chars : forall v base, 2 <= base <= 36 -> - 2 ^ 63 <= v < 2 ^ 63 ->
  FormatInt v base <> [] /\
  Forall (fun c => (48 <= c <= 57) \/ (97 <= c <= 122) \/ c = 45) (FormatInt v base).
Proof.
  intros v base Hb _. unfold FormatInt. rewrite !FormatUint_digits.
  assert (W : forall w, Forall (fun c => (48 <= c <= 57) \/ (97 <= c <= 122) \/ c = 45)
                          (digits 70 base w)).
  { intros w. eapply Forall_impl; [|apply digits_chars; assumption].
    cbv beta. intros a Ha. tauto. }
  destruct (v <? 0).
  - split; [discriminate|]. constructor; [tauto|apply W].
  - split; [apply (digits_nonempty 69)|apply W].
Qed.

(* ------------------------------------------------------------------ *)
(* Parse (Format v) = v                                                *)

Theorem parse_format_uint : forall v base bits,
  2 <= base <= 36 -> 1 <= bits <= 64 -> 0 <= v < 2 ^ bits ->
  ParseUint (FormatUint v base) base bits = inl v.
Proof.
  intros v base bits Hb Hbits Hv. rewrite FormatUint_digits. unfold ParseUint.
  destruct (digits 70 base v) as [|c r] eqn:E.
  - exfalso. exact (digits_nonempty 69 base v E).
  - rewrite <- E. pose proof (pow_bits bits Hbits).
    apply parse_digits_of; [assumption| |lia].
    split; [lia|]. apply pow70; lia.
Qed.

Theorem parse_format_int : forall v base bits,
  2 <= base <= 36 -> 1 <= bits <= 64 -> - 2 ^ (bits - 1) <= v < 2 ^ (bits - 1) ->
  ParseInt (FormatInt v base) base bits = inl v.
Proof.
  intros v base bits Hb Hbits Hv.
  destruct (pow_half bits Hbits) as [Hp Hpos].
  unfold FormatInt. destruct (Z.ltb_spec v 0) as [Hneg|Hnn].
  - unfold ParseInt. change (45 =? 45) with true. change (45 =? 43) with false.
    cbn [orb negb andb]. cbv zeta.
    rewrite parse_format_uint by (try assumption; lia).
    destruct (Z.ltb_spec (2 ^ (bits - 1)) (- v)); [lia|].
    f_equal. lia.
  - pose proof (parse_format_uint v base bits Hb Hbits ltac:(lia)) as PU.
    assert (Hv64 : 0 <= v < 2 ^ 64) by (pose proof (pow_bits bits Hbits); lia).
    destruct (format_uint_chars v base Hb Hv64) as [Hne Hch].
    destruct (FormatUint v base) as [|c r] eqn:E; [contradiction|].
    unfold ParseInt. inversion Hch as [|? ? Hc _]; subst.
    destruct (Z.eqb_spec c 45); [lia|]. destruct (Z.eqb_spec c 43); [lia|].
    cbn [orb negb andb]. cbv zeta. rewrite PU.
    destruct (Z.leb_spec (2 ^ (bits - 1)) v); [lia|]. reflexivity.
Qed.

(* ------------------------------------------------------------------ *)
(* Format (Parse s) = canonical s                                      *)

Theorem format_parse_uint : forall s base bits v,
  2 <= base <= 36 -> 1 <= bits <= 64 -> ParseUint s base bits = inl v ->
  FormatUint v base = strip_zeros (map lower s) /\ 0 <= v < 2 ^ bits.
Proof.
  intros s base bits v Hb Hbits H. unfold ParseUint in H.
  assert (Hs : s <> []) by (intros ->; discriminate).
  assert (H' : parse_digits base (2 ^ bits - 1) 0 s = inl v) by (destruct s; [discriminate|exact H]).
  destruct (format_parse_core base _ Hb s v H') as [Hv0 K].
  destruct (K Hs) as [Hmax Hd]. pose proof (pow_bits bits Hbits).
  split; [|lia]. rewrite FormatUint_digits. apply Hd; [lia|]. apply pow70; lia.
Qed.

Theorem format_parse_int : forall s base bits v,
  2 <= base <= 36 -> 1 <= bits <= 64 -> ParseInt s base bits = inl v ->
  - 2 ^ (bits - 1) <= v < 2 ^ (bits - 1) /\
  exists sign body, s = sign ++ body /\ (sign = [] \/ sign = [43] \/ sign = [45]) /\ body <> [] /\
    FormatInt v base = (if v <? 0 then [45] else []) ++ strip_zeros (map lower body).
Proof.
  intros s base bits v Hb Hbits H.
  destruct (pow_half bits Hbits) as [Hp Hpos].
  unfold ParseInt in H. destruct s as [|c r]; [discriminate|]. cbv zeta in H.
  set (body := if (c =? 43) || (c =? 45) then r else c :: r) in *.
  destruct (ParseUint body base bits) as [un|e] eqn:PU; [|discriminate].
  assert (Hbody : body <> []) by (intros E; rewrite E in PU; discriminate).
  destruct (format_parse_uint body base bits un Hb Hbits PU) as [FU Hun].
  assert (Hsign : exists sign, c :: r = sign ++ body /\
            (sign = [] \/ sign = [43] \/ sign = [45]) /\ (c =? 45) = (match sign with [45] => true | _ => false end)).
  { subst body. destruct (Z.eqb_spec c 43) as [->|n43].
    - exists [43]. cbn [orb]. split; [reflexivity|]. split; [tauto|reflexivity].
    - destruct (Z.eqb_spec c 45) as [->|n45]; cbn [orb].
      + exists [45]. split; [reflexivity|]. split; [tauto|reflexivity].
      + exists []. split; [reflexivity|]. split; [tauto|reflexivity]. }
  destruct Hsign as (sign & Es & Hsg & Eneg).
  destruct (c =? 45) eqn:N; cbn [negb andb] in H.
  - destruct (Z.ltb_spec (2 ^ (bits - 1)) un); [discriminate|]. injection H as <-.
    split; [lia|]. exists sign, body. split; [assumption|]. split; [assumption|].
    split; [assumption|]. unfold FormatInt.
    destruct (Z.ltb_spec (- un) 0).
    + rewrite Z.opp_involutive, FU. reflexivity.
    + assert (un = 0) by lia. subst un. change (- 0) with 0. rewrite FU. reflexivity.
  - destruct (Z.leb_spec (2 ^ (bits - 1)) un); [discriminate|]. injection H as <-.
    split; [lia|]. exists sign, body. split; [assumption|]. split; [assumption|].
    split; [assumption|]. unfold FormatInt.
    destruct (Z.ltb_spec un 0); [lia|]. rewrite FU. reflexivity.
Qed.

Print Assumptions parse_format_uint.
Print Assumptions parse_format_int.
Print Assumptions format_uint_chars.
Print Assumptions format_int_chars.
Print Assumptions format_parse_uint.
Print Assumptions format_parse_int.
