(* Class round trip, part 4: the fragments of a field list, in look-ahead form (what the field loop of
   Unmarshal sees), derived from the parser-state form under the class conditions. *)
Require Import GC.Base.Bytes GC.Codec.Types GC.Codec.Strconv GC.Codec.TypeInfo GC.Codec.Marshal
               GC.Codec.Unmarshal GC.Codec.Codec GC.Codec.Class GC.Codec.ClassPBase.
Arguments Z.add : simpl never. Arguments Z.sub : simpl never. Arguments Z.of_nat : simpl never.
Arguments Z.leb : simpl never. Arguments Z.ltb : simpl never.

Lemma last_cons {A} (l : list A) x d : last (x :: l) d = last l x.
Proof. revert x d. induction l as [|y l IH]; intros x d. reflexivity.
  change (last (x :: y :: l) d) with (last (y :: l) d). rewrite IH. cbn [last].
  destruct l; [reflexivity|]. symmetry. apply (IH y x). Qed.

(* ---------- what field_shape_ok says ---------- *)
Record shape_facts (f : finfo) (next : option finfo) : Prop := {
  sf_noprefix : o_prefix (fi_opts f) = false;
  sf_embptr : fi_embptr f = [];
  sf_group_param : f_group f = true -> has_param f = true;
  sf_omit : f_omit f = true -> f_inline f = false;
  sf_inline : f_inline f = true ->
     o_haslen (fi_opts f) = true /\ 0 < o_len (fi_opts f) /\ f_group f = false /\ has_param f = false /\
     exists nx, next = Some nx /\ positional nx = true /\ f_omit nx = false;
  sf_optpos : f_omit f = true -> positional f = true ->
     exists nx, next = Some nx /\ (f_omit nx && positional nx) = false;
  sf_last : next = None -> f_omit f = false /\ f_inline f = false }.

Lemma field_shape_facts f next : field_shape_ok f next = true -> shape_facts f next.
Proof.
  unfold field_shape_ok, f_group, f_omit, f_inline. rewrite !andb_true_iff.
  intros ((((((H1 & H2) & H3) & H4) & H5) & H6) & H7).
  constructor; unfold f_group, f_omit, f_inline.
  - apply negb_true_iff. exact H1.
  - destruct (fi_embptr f); [reflexivity|discriminate].
  - intros E. rewrite E in H3. exact H3.
  - intros E. rewrite E in H4. apply andb_true_iff in H4. destruct H4 as [H4 _].
    apply negb_true_iff. exact H4.
  - intros E. rewrite E in H5. rewrite !andb_true_iff in H5.
    destruct H5 as ((((A & B) & C) & D) & G).
    split; [exact A|]. split; [apply Z.ltb_lt; exact B|].
    split; [apply negb_true_iff; exact C|]. split; [apply negb_true_iff; exact D|].
    destruct next as [nx|]; [|discriminate]. exists nx. split; [reflexivity|].
    apply andb_true_iff in G. destruct G as [G1 G2]. split; [exact G1|apply negb_true_iff; exact G2].
  - intros E1 E2. unfold f_omit in *. rewrite E1, E2 in H6. cbn [andb] in H6.
    destruct next as [nx|]; [|discriminate]. exists nx. split; [reflexivity|].
    apply negb_true_iff. exact H6.
  - intros E. subst next. apply andb_true_iff in H7. destruct H7 as [A B].
    split; apply negb_true_iff; assumption.
Qed.

Lemma shapes_cons f r : shapes_ok (f :: r) = true -> shape_facts f (hd_error r) /\ shapes_ok r = true.
Proof. cbn [shapes_ok]. intros H. apply andb_true_iff in H. destruct H as [H1 H2].
  split; [apply field_shape_facts; exact H1|exact H2]. Qed.

Lemma shapes_tail f r : shapes_ok (f :: r) = true -> shapes_ok r = true.
Proof. intros H. apply shapes_cons in H. tauto. Qed.

Lemma positional_inv f : positional f = true -> has_param f = false /\ f_group f = false.
Proof. unfold positional. intros H. apply andb_true_iff in H. destruct H as [A B].
  split; apply negb_true_iff; assumption. Qed.

(* ---------- what groups_shape_ok says ---------- *)
Lemma gso_plain f r b n pi : groups_shape_ok (f :: r) b n pi = true -> f_group f = false ->
  n <> 1%nat /\ groups_shape_ok r (if required_plain f then false else b) 0 (f_inline f) = true.
Proof.
  cbn [groups_shape_ok]. intros H E. rewrite E in H. apply andb_true_iff in H. destruct H as [A B].
  split; [|exact B]. apply negb_true_iff in A. apply Nat.eqb_neq in A. exact A.
Qed.
Lemma gso_first f r b pi : groups_shape_ok (f :: r) b 0 pi = true -> f_group f = true ->
  b = false /\ f_omit f = false /\ groups_shape_ok r true 1 false = true.
Proof.
  cbn [groups_shape_ok]. intros H E. rewrite E in H. cbn [Nat.eqb Nat.ltb Nat.leb] in H.
  rewrite !andb_true_iff in H. destruct H as (((A & _) & B) & C).
  split; [apply negb_true_iff; exact A|]. split; [apply negb_true_iff; exact B|exact C].
Qed.
Lemma gso_second r : groups_shape_ok r true 1 false = true ->
  exists m2 r2, r = m2 :: r2 /\ f_group m2 = true /\ f_omit m2 = false /\ groups_shape_ok r2 true 2 false = true.
Proof.
  destruct r as [|m2 r2]; cbn [groups_shape_ok]. discriminate.
  destruct (f_group m2) eqn:E.
  - cbn [Nat.eqb Nat.ltb Nat.leb]. rewrite !andb_true_iff. intros ((_ & B) & C).
    exists m2, r2. split; [reflexivity|]. split; [exact E|]. split; [apply negb_true_iff; exact B|exact C].
  - cbn. discriminate.
Qed.
Lemma gso_member f r n : groups_shape_ok (f :: r) true n false = true -> (1 <= n)%nat -> f_group f = true ->
  groups_shape_ok r true (S n) false = true.
Proof.
  cbn [groups_shape_ok]. intros H Hn E. rewrite E in H. rewrite !andb_true_iff in H. tauto.
Qed.

Section Fr.
Variables (cb : callbacks) (sv : sval).
Notation kt := (kt cb sv).
Notation pr := (pr sv).
Notation mfrA := (mfrA cb sv).
Notation F := (F cb sv).
Notation haspr := (haspr sv).
Notation nogrp_first := (nogrp_first sv).
Notation fld_ok := (fld_ok cb sv).
Notation flds_ok := (flds_ok cb sv).

Lemma required_present f : f_omit f = false -> pr f = true.
Proof. unfold pr, present. intros ->. reflexivity. Qed.
Lemma absent_omit f : pr f = false -> f_omit f = true.
Proof. unfold pr, present. destruct (f_omit f); auto. Qed.

Lemma gso_true_nogrp : forall r pi, groups_shape_ok r true 0 pi = true -> nogrp_first r = true.
Proof.
  induction r as [|f r IH]; intros pi H. reflexivity.
  cbn [nogrp_first]. destruct (f_group f) eqn:E.
  - destruct (gso_first _ _ _ _ H E) as [H' _]. discriminate.
  - apply (gso_plain _ _ _ _ _) in H; [|exact E]. destruct H as [_ H]. cbn [negb andb].
    unfold required_plain in H. rewrite E in H. cbn [negb] in H. rewrite andb_true_r in H.
    destruct (f_omit f) eqn:Eo; cbn [negb] in H.
    + rewrite (IH _ H). apply orb_true_r.
    + rewrite (required_present f Eo). reflexivity.
Qed.

Lemma gso_dropW_nogrp : forall r n, groups_shape_ok r true n false = true -> (1 <= n)%nat ->
  nogrp_first (dropW r) = true.
Proof.
  induction r as [|f r IH]; intros n H Hn. reflexivity.
  cbn [dropW]. destruct (f_group f) eqn:E.
  - apply (IH (S n)). apply (gso_member f); auto. lia.
  - cbn [nogrp_first]. rewrite E. cbn [negb andb].
    apply (gso_plain _ _ _ _ _) in H; [|exact E]. destruct H as [_ H].
    unfold required_plain in H. rewrite E in H. cbn [negb] in H. rewrite andb_true_r in H.
    destruct (f_omit f) eqn:Eo; cbn [negb] in H.
    + rewrite (gso_true_nogrp _ _ H). apply orb_true_r.
    + rewrite (required_present f Eo). reflexivity.
Qed.

Lemma shapes_haspr : forall r, shapes_ok r = true -> r <> [] -> haspr r = true.
Proof.
  induction r as [|f r IH]; intros H Hn. congruence.
  apply shapes_cons in H. destruct H as [Hf Hr]. unfold ClassPBase.haspr. cbn [existsb].
  destruct r as [|g r'].
  - destruct (sf_last _ _ Hf eq_refl) as [Ho _]. rewrite (required_present f Ho). reflexivity.
  - unfold ClassPBase.haspr in IH. rewrite IH; auto. apply orb_true_r. discriminate.
Qed.

Lemma kt_param_nonnil f : has_param f = true -> kt f <> [].
Proof.
  unfold has_param, ClassPBase.kt, keyed_text. destruct (o_param (fi_opts f)) as [|c q]. discriminate.
  intros _. cbn. discriminate.
Qed.

(* a value (or the last group member) is closed when the next present field starts a new fragment *)
Lemma mfrA_close : forall r p g cur,
  f_inline p = false -> (f_group p = false \/ nogrp_first r = true) -> (cur <> [] \/ haspr r = true) ->
  mfrA r (Some p) g cur = closeT g cur :: F r.
Proof.
  induction r as [|f r IH]; intros p g cur Hi Hg Hc.
  - cbn [ClassPBase.mfrA]. destruct Hc as [Hc|Hc]; [|discriminate].
    destruct cur; [congruence|]. reflexivity.
  - unfold ClassPBase.F. cbn [ClassPBase.mfrA]. destruct (pr f) eqn:Ep.
    + rewrite Hi.
      assert (Eg : f_group p && f_group f = false).
      { destruct Hg as [Hg|Hg]. rewrite Hg. reflexivity.
        cbn [ClassPBase.nogrp_first] in Hg. apply andb_true_iff in Hg. destruct Hg as [Hg _].
        apply negb_true_iff in Hg. rewrite Hg. apply andb_false_r. }
      rewrite Eg. cbn [app]. reflexivity.
    + apply IH; auto.
      * destruct Hg as [Hg|Hg]; auto. right.
        cbn [ClassPBase.nogrp_first] in Hg. rewrite Ep in Hg. apply andb_true_iff in Hg. tauto.
      * destruct Hc as [Hc|Hc]; auto. right. unfold ClassPBase.haspr in *. cbn [existsb] in Hc.
        rewrite Ep in Hc. exact Hc.
Qed.

(* text already consumed in front of a value fragment (inline) *)
Lemma mfrA_prep : forall r p a c,
  shapes_ok (p :: r) = true -> f_group p = false -> kt (last r p) <> [] -> (c <> [] \/ haspr r = true) ->
  exists u rest, mfrA r (Some p) None c = TV u :: rest /\ mfrA r (Some p) None (a ++ c) = TV (a ++ u) :: rest /\
                 rest = match r with [] => [] | _ => rest end /\
                 (has_param p = false -> flds_ok r -> noeq c -> noeq u).
Proof.
  induction r as [|nx r IH]; intros p a c Hs Hg Hl Hc.
  - destruct Hc as [Hc|Hc]; [|discriminate]. exists c, []. cbn [ClassPBase.mfrA].
    destruct c as [|x c]; [congruence|]. split; [reflexivity|]. split.
    + destruct (a ++ x :: c) eqn:E; [destruct a; discriminate|]. reflexivity.
    + split; auto.
  - destruct (f_inline p) eqn:Ei.
    + apply shapes_cons in Hs. destruct Hs as [Hp Hr].
      destruct (sf_inline _ _ Hp Ei) as (_ & _ & _ & _ & nx' & Enx & Hpos & Homit).
      cbn [hd_error] in Enx. inversion Enx; subst nx'.
      destruct (positional_inv nx Hpos) as [Hnp Hng].
      cbn [ClassPBase.mfrA]. rewrite (required_present nx Homit), Ei.
      rewrite last_cons in Hl.
      destruct (IH nx a (c ++ kt nx) Hr Hng Hl) as (u & rest & E1 & E2 & _ & E4).
      { destruct r as [|y r'].
        - left. cbn [last] in Hl. destruct c; [exact Hl|discriminate].
        - right. apply shapes_haspr. eapply shapes_tail; eauto. discriminate. }
      exists u, rest. split; [exact E1|]. split; [rewrite <- app_assoc; exact E2|]. split; [reflexivity|].
      intros _ Hf Hn. apply E4; auto.
      * intros f Hin. apply Hf. right. exact Hin.
      * apply noeq_app; auto. apply (kt_positional_noeq cb sv); auto.
        apply Hf. left; reflexivity. apply required_present; exact Homit.
    + rewrite !mfrA_close; auto.
      * exists c, (F (nx :: r)). cbn [closeT]. split; [reflexivity|]. split; [reflexivity|]. split; auto.
      * destruct Hc as [Hc|Hc]; auto. left. intros E. apply app_eq_nil in E. tauto.
Qed.

Definition grp_wf (r : list finfo) : Prop :=
  forall f, In f r -> f_group f = true -> f_inline f = false /\ has_param f = true.

Lemma shapes_grp_wf : forall r, shapes_ok r = true -> grp_wf r.
Proof.
  induction r as [|f r IH]; intros H g Hin Hg. destruct Hin.
  apply shapes_cons in H. destruct H as [Hf Hr]. destruct Hin as [<-|Hin].
  - split; [|apply (sf_group_param _ _ Hf Hg)].
    destruct (f_inline f) eqn:Ei; auto.
    destruct (sf_inline _ _ Hf Ei) as (_ & _ & Hng & _). congruence.
  - apply IH; auto.
Qed.

(* the rest of a group run *)
Lemma mfrA_group : forall r p l cur,
  f_group p = true -> f_inline p = false -> cur <> [] -> grp_wf r -> nogrp_first (dropW r) = true ->
  mfrA r (Some p) (Some l) cur
  = TG (l ++ cur :: map kt (filter pr (takeW r))) :: F (dropW r).
Proof.
  induction r as [|f r IH]; intros p l cur Hg Hi Hc Hw Hn.
  - cbn [ClassPBase.mfrA takeW dropW filter map]. destruct cur; [congruence|]. reflexivity.
  - destruct (f_group f) eqn:Ef.
    + assert (Hw' : grp_wf r) by (intros x Hx; apply Hw; right; exact Hx).
      destruct (Hw f (or_introl eq_refl) Ef) as [Hfi Hfp].
      cbn [ClassPBase.mfrA takeW dropW]. rewrite Ef. cbn [filter]. destruct (pr f) eqn:Ep.
      * rewrite Hi, Hg. cbn [andb glT]. rewrite IH; auto.
        -- cbn [map]. rewrite <- app_assoc. reflexivity.
        -- apply kt_param_nonnil; auto.
        -- cbn [dropW] in Hn. rewrite Ef in Hn. exact Hn.
      * apply IH; auto. cbn [dropW] in Hn. rewrite Ef in Hn. exact Hn.
    + cbn [takeW dropW]. rewrite Ef. cbn [filter map].
      cbn [dropW] in Hn. rewrite Ef in Hn.
      rewrite mfrA_close; auto.
Qed.

(* a group run starts: its first two members are present *)
Lemma F_run_start f m2 r :
  f_group f = true -> f_inline f = false -> pr f = true ->
  f_group m2 = true -> pr m2 = true -> grp_wf (m2 :: r) -> nogrp_first (dropW r) = true ->
  F (f :: m2 :: r) = TG (kt f :: kt m2 :: map kt (filter pr (takeW r))) :: F (dropW r).
Proof.
  intros Hg Hi Hp Hg2 Hp2 Hw Hn.
  rewrite (F_present cb sv f _ Hp). cbn [ClassPBase.mfrA]. rewrite Hp2, Hi, Hg, Hg2. cbn [andb glT app].
  destruct (Hw m2 (or_introl eq_refl) Hg2) as [Hi2 Hpar2].
  rewrite mfrA_group; auto.
  - apply kt_param_nonnil; auto.
  - intros x Hx. apply Hw. right. exact Hx.
Qed.

End Fr.
