(* C20: the tolerated respellings, as a relation between an accepted string and the canonical marshalling.
   Definitions only. *)
Require Import GC.Base.Bytes GC.Base.CaseLib GC.Codec.Types GC.Codec.StrconvProofs GC.Parse.ParseModel.

(* value texts of a parsed string: the prefix and every value of every fragment *)
Definition value_texts (t : tree) : list bytes :=
  (match prefix t with Some p => [p] | None => [] end) ++ map snd (nodes t).

Definition is_alnum (c : Z) : bool := ((48 <=? c) && (c <=? 57)) || ((97 <=? c) && (c <=? 122)) || ((65 <=? c) && (c <=? 90)).

(* split "key=rest" at the first '=' *)
Fixpoint split_eq (s : bytes) : bytes * bytes :=
  match s with
  | [] => ([], [])
  | c :: r => if c =? equals then ([c], r) else let '(k, v) := split_eq r in (c :: k, v)
  end.
Definition has_eq (s : bytes) : bool := mem equals s.

(* normal form of one value text under the tolerated digit respellings: an alphanumeric body (after an optional
   key and sign) loses leading zeros and letter case; "+" and "-0" are spellings of no sign *)
Definition norm_body (v : bytes) : bytes :=
  let '(sign, body) := match v with
                       | 45 :: r => ([45], r)
                       | 43 :: r => ([], r)
                       | _ => ([], v)
                       end in
  match body with
  | [] => v
  | _ => if forallb is_alnum body then
           let z := strip_zeros (map lower body) in
           (if bytes_eqb z [48] then [] else sign) ++ z
         else v
  end.
Definition norm_text (v : bytes) : bytes :=
  if has_eq v then let '(k, r) := split_eq v in k ++ norm_body r else norm_body v.

(* an explicitly written empty or zero optional value *)
Definition explicit_empty (v : bytes) : bool :=
  let r := if has_eq v then snd (split_eq v) else v in
  (match r with [] => true | _ => false end) || bytes_eqb (norm_body r) [48].


Fixpoint remove_one (x : bytes) (l : list bytes) : option (list bytes) :=
  match l with
  | [] => None
  | y :: r => if bytes_eqb x y then Some r
              else match remove_one x r with Some r' => Some (y :: r') | None => None end
  end.

(* every canonical text occurs in the accepted string; what the accepted string has in addition is only
   explicitly written empty/zero optional values *)
Fixpoint covers (accepted canonical : list bytes) : bool :=
  match canonical with
  | [] => forallb explicit_empty accepted
  | c :: r => match remove_one c accepted with
              | Some rest => covers rest r
              | None => false
              end
  end.

(* [respell s s']: s is s' up to one trailing delimiter, integer digit spellings (leading zeros, letter case,
   redundant sign), the order of values, and explicitly written empty/zero optional values *)
Definition respell (s s' : bytes) : Prop :=
  exists t t', parse s = POk t /\ parse s' = POk t' /\
    covers (map norm_text (value_texts t)) (map norm_text (value_texts t')) = true.

Definition respell_b (s s' : bytes) : bool :=
  match parse s, parse s' with
  | POk t, POk t' => covers (map norm_text (value_texts t)) (map norm_text (value_texts t'))
  | _, _ => false
  end.
