(* Class round trip, part 6: the field loop of Unmarshal on the fragments of a marshalled value. *)
Require Import GC.Base.Bytes GC.Codec.Types GC.Codec.Strconv GC.Codec.TypeInfo GC.Codec.Marshal
               GC.Codec.Unmarshal GC.Codec.Codec GC.Codec.Class GC.Codec.ClassPBase GC.Codec.ClassPRender
               GC.Codec.ClassPFrag GC.Codec.ClassPStep.
Arguments Z.add : simpl never. Arguments Z.sub : simpl never. Arguments Z.of_nat : simpl never.
Arguments Z.leb : simpl never. Arguments Z.ltb : simpl never.

(* ---------- step = close the pending group, then the main part ---------- *)
Definition closed_of (fi : finfo) (s0 : ust) : step_res :=
  let o := fi_opts fi in
    match u_group s0 with
    | Some g =>
      if negb (o_group o) then
        if 0 <? u_ngv s0 then Fail (EUnmarshal NGroup (fi_name fi) (group_end g) MExcessiveFragment)
        else Next {| u_frags := u_frags s0; u_idx := S (u_idx s0); u_nv := u_nv s0 - 1;
                     u_nr := if u_greq s0 then u_nr s0 - 1 else u_nr s0;
                     u_group := None; u_ngv := u_ngv s0; u_greq := false; u_out := u_out s0 |}
      else Next s0
    | None => Next s0
    end.

Definition step_main (cb : callbacks) (hashlen : nat) (fi : finfo) (s : ust) : step_res :=
  let o := fi_opts fi in
    match nth_error (u_frags s) (u_idx s) with
    | None => if o_omit o then Next s else Fail (EUnmarshal NEOF (fi_name fi) hashlen MUnexpectedEOF)
    | Some fr =>
      if o_omit o && (match u_group s with None => true | _ => false end) && (u_nv s - u_nr s <=? 0)
      then Next {| u_frags := u_frags s; u_idx := u_idx s; u_nv := u_nv s - 1; u_nr := u_nr s;
                   u_group := u_group s; u_ngv := u_ngv s; u_greq := u_greq s; u_out := u_out s |}
      else
        let not_found := Fail (EUnmarshal (ufrag_kind fr) (fi_name fi) (ufrag_end fr) MNotFound) in
        let is_group_frag := match fr with UG _ => true | UV _ => false end in
        if o_group o && (is_group_frag || negb (o_omit o)) then
          let '(g, ngv) := match fr with
                           | UG ns => match u_group s with
                                      | None => (ns, Z.of_nat (length ns))
                                      | Some g0 => (g0, u_ngv s)
                                      end
                           | UV n => ([n], 1)
                           end in
          let greq := if negb (o_omit o) then true else u_greq s in
          match find_member (o_param o ++ [equals]) [] g with
          | Some (before, n, after) =>
            match assign cb NValue (n_end n) (n_text n) fi with
            | Ok (v, rest) =>
              let n' := match rest with Some t => {| n_end := n_end n; n_text := t |} | None => n end in
              let frags' := match fr, rest with
                            | UV _, Some _ => set_frag (u_frags s) (u_idx s) (UV n')
                            | _, _ => u_frags s
                            end in
              match store fi v s frags' (u_idx s) (u_nv s) (u_nr s) (Some (before ++ n' :: after)) (ngv - 1) greq with
              | Ok s' => Next s' | Err e => Fail e | Panic => Crash
              end
            | Err e => Fail e
            | Panic => Crash
            end
          | None =>
            if o_omit o then Next {| u_frags := u_frags s; u_idx := u_idx s; u_nv := u_nv s; u_nr := u_nr s;
                                     u_group := Some g; u_ngv := ngv; u_greq := greq; u_out := u_out s |}
            else not_found
          end
        else if negb (o_group o) && negb is_group_frag then
          match fr with
          | UV n =>
            let matches := match o_param o with [] => true | p => has_prefix (p ++ [equals]) (n_text n) end in
            if matches then
              match assign cb NValue (n_end n) (n_text n) fi with
              | Ok (v, rest) =>
                let frags' := match rest with
                              | Some t => set_frag (u_frags s) (u_idx s) (UV {| n_end := n_end n; n_text := t |})
                              | None => u_frags s
                              end in
                match store fi v s frags' (if o_inline o then u_idx s else S (u_idx s)) (u_nv s - 1)
                            (if o_omit o then u_nr s else u_nr s - 1) (u_group s) (u_ngv s) (u_greq s) with
                | Ok s' => Next s' | Err e => Fail e | Panic => Crash
                end
              | Err e => Fail e
              | Panic => Crash
              end
            else if o_omit o then Next s else not_found
          | UG _ => Crash
          end
        else if o_omit o then Next s else not_found
    end.

Lemma step_eq cb hashlen fi s0 :
  step cb hashlen fi s0 = match closed_of fi s0 with
                          | Fail e => Fail e | Crash => Crash
                          | Next s => step_main cb hashlen fi s
                          end.
Proof. reflexivity. Qed.

Section L.
Variables (cb : callbacks) (sv : sval) (hashlen : nat).
Notation kt := (kt cb sv).
Notation pr := (pr sv).
Notation F := (F cb sv).
Notation nopt := (nopt sv).
Notation Cls := (Cls cb sv).

Definition orel (f : finfo) (pv : list nat * fval) : Prop :=
  fst pv = fi_index f /\ fval_eqb (snd pv) (value_of f sv) = true.
Definition outrel (L : list finfo) (out : list (list nat * fval)) : Prop := Forall2 orel L out.

Definition Dinv (fs : list finfo) (K : Z) (s : ust) : Prop :=
  u_nv s - u_nr s = nopt fs - K /\ 0 <= K /\ (0 < K -> nopt fs = 0).

Definition PInv (fs : list finfo) (K : Z) (L : list finfo) (s : ust) : Prop :=
  u_group s = None /\ map tf (skipn (u_idx s) (u_frags s)) = F fs /\ Dinv fs K s /\ outrel L (u_out s).

Definition nocoll (fs : list finfo) (t : bytes) : Prop :=
  forall f, In f fs -> has_param f = true -> has_prefix (keyof f) t = false.

Definition GInv (fs : list finfo) (K : Z) (L : list finfo) (s : ust) : Prop :=
  exists g fr R pre,
    u_group s = Some g /\ skipn (u_idx s) (u_frags s) = UG fr :: R /\ map tf R = F (dropW fs) /\
    map n_text g = pre ++ map kt (filter pr (takeW fs)) /\
    u_ngv s = Z.of_nat (length (filter pr (takeW fs))) /\ u_greq s = true /\
    (forall t, In t pre -> nocoll fs t) /\ Dinv fs K s /\ outrel L (u_out s).

Lemma nopt_absent f r : pr f = false -> nopt (f :: r) = nopt r.
Proof. intros H. cbn [ClassPBase.nopt]. rewrite H, andb_false_r. lia. Qed.
Lemma nopt_required f r : f_omit f = false -> nopt (f :: r) = nopt r.
Proof. intros H. cbn [ClassPBase.nopt]. rewrite H. cbn [andb]. lia. Qed.
Lemma nopt_group f r : f_group f = true -> nopt (f :: r) = nopt r.
Proof. intros H. cbn [ClassPBase.nopt]. rewrite H. cbn [negb]. rewrite andb_false_r. cbn [andb]. lia. Qed.
Lemma nopt_optional f r : f_omit f = true -> f_group f = false -> pr f = true -> nopt (f :: r) = 1 + nopt r.
Proof. intros H1 H2 H3. cbn [ClassPBase.nopt]. rewrite H1, H2, H3. reflexivity. Qed.

Lemma Dinv_same f r K s : nopt (f :: r) = nopt r -> Dinv (f :: r) K s -> Dinv r K s.
Proof. unfold Dinv. intros E. rewrite E. auto. Qed.

Lemma fld_conv f : ClassPBase.fld_ok cb sv f ->
  exists s v, text_of cb f sv = Some s /\ kt f = keyof f ++ s /\ convert cb NValue 0 f s = Ok v /\
              fval_eqb v (value_of f sv) = true.
Proof.
  intros (s & H1 & _ & _ & v & H4 & H5). exists s, v. split; auto. split; auto. apply kt_eq. exact H1.
Qed.

(* ---------- plain mode, absent field ---------- *)
Lemma PS_absent f r K L s b pi :
  Cls (f :: r) -> groups_shape_ok (f :: r) b 0 pi = true -> f_group f = false -> pr f = false ->
  PInv (f :: r) K L s ->
  exists s' K', step_main cb hashlen f s = Next s' /\ PInv r K' L s'.
Proof.
  intros Hc Hgso Hg Hp (Hgrp & Hfr & (Hd & HK & HKn) & Hout).
  pose proof (absent_omit sv f Hp) as Hom. unfold f_omit in Hom. unfold f_group in Hg.
  rewrite (F_absent cb sv f r Hp) in Hfr. rewrite (nopt_absent f r Hp) in Hd, HKn.
  pose proof (nopt_nonneg sv r) as Hnn.
  unfold step_main. rewrite nth_error_hd_skipn, Hom, Hgrp, Hg.
  destruct (skipn (u_idx s) (u_frags s)) as [|fr more] eqn:Esk; cbn [hd_error andb negb orb].
  - exists s, K. split; [reflexivity|]. unfold PInv, Dinv. rewrite Esk.
    exact (conj Hgrp (conj Hfr (conj (conj Hd (conj HK HKn)) Hout))).
  - destruct (u_nv s - u_nr s <=? 0) eqn:El.
    + apply Z.leb_le in El. eexists. exists (K + 1). split; [reflexivity|].
      unfold PInv, Dinv; cbn [u_group u_idx u_frags u_nv u_nr u_out]. rewrite Esk.
      refine (conj eq_refl (conj Hfr (conj _ Hout))). split; [lia|]. split; [lia|].
      intros _. destruct (Z_lt_le_dec 0 K) as [HKp|HKz]; [auto|lia].
    + apply Z.leb_gt in El.
      assert (HK0 : K = 0).
      { destruct (Z.eq_dec K 0); auto. exfalso. assert (0 < K) by lia. rewrite (HKn H) in Hd. lia. }
      assert (Hpar : has_param f = true).
      { destruct (has_param f) eqn:Epar; auto. exfalso.
        pose proof (absent_positional_nopt cb sv f r Hc Hp Hg Epar). lia. }
      destruct fr as [n|ns]; cbn [negb andb orb].
      * destruct (gso_plain _ _ _ _ _ Hgso Hg) as [_ Hgso'].
        pose proof (head_nomatch cb sv (o_param (fi_opts f)) r _ _ (Cls_tail cb sv _ _ Hc) Hgso'
                      (fun g Hg' => pnodup_head f r (c_params _ _ _ Hc) Hpar g Hg') (TV (n_text n)) (map tf more)) as Hno.
        cbn [map tf] in Hfr. specialize (Hno (eq_sym Hfr)). cbn iota in Hno.
        unfold has_param in Hpar. revert Hno. destruct (o_param (fi_opts f)) as [|c q]; [discriminate|].
        intros Hno. rewrite Hno. exists s, K. split; [reflexivity|].
        unfold PInv, Dinv. rewrite Esk.
        exact (conj Hgrp (conj Hfr (conj (conj Hd (conj HK HKn)) Hout))).
      * exists s, K. split; [reflexivity|].
        unfold PInv, Dinv. rewrite Esk.
        exact (conj Hgrp (conj Hfr (conj (conj Hd (conj HK HKn)) Hout))).
Qed.

Lemma tf_TV fr t : tf fr = TV t -> exists n, fr = UV n /\ n_text n = t.
Proof. destruct fr as [n|ns]; cbn [tf]; intros H; inversion H. eauto. Qed.
Lemma tf_TG fr l : tf fr = TG l -> exists ns, fr = UG ns /\ map n_text ns = l.
Proof. destruct fr as [n|ns]; cbn [tf]; intros H; inversion H. eauto. Qed.

Lemma own_match f : match o_param (fi_opts f) with [] => true | p => has_prefix (p ++ [equals]) (kt f) end = true.
Proof.
  pose proof (kt_own_key cb sv f) as H. unfold keyof in H. destruct (o_param (fi_opts f)); auto.
Qed.

(* ---------- plain mode, present field that is not inline ---------- *)
Lemma PS_value f r K L s :
  Cls (f :: r) -> f_group f = false -> pr f = true -> f_inline f = false ->
  PInv (f :: r) K L s ->
  exists s', step_main cb hashlen f s = Next s' /\ PInv r K (f :: L) s'.
Proof.
  intros Hc Hg Hp Hi (Hgrp & Hfr & (Hd & HK & HKn) & Hout).
  rewrite (F_value cb sv f r Hc Hp Hi Hg) in Hfr.
  destruct (skipn (u_idx s) (u_frags s)) as [|fr more] eqn:Esk; [discriminate|].
  cbn [map] in Hfr. inversion Hfr as [[Hfr1 Hfr2]]. destruct (tf_TV _ _ Hfr1) as (n & -> & Hn).
  destruct (fld_conv f (c_flds _ _ _ Hc f (or_introl eq_refl) Hp)) as (s0 & v & Ht & Hk & Hconv & Heq).
  pose proof (shapes_cons _ _ (c_shapes _ _ _ Hc)) as [Hsf _].
  pose proof (nopt_nonneg sv r) as Hnn.
  assert (Hskip : o_omit (fi_opts f) && true && (u_nv s - u_nr s <=? 0) = false).
  { destruct (o_omit (fi_opts f)) eqn:Eo; [|reflexivity]. cbn [andb].
    rewrite (nopt_optional f r Eo Hg Hp) in Hd, HKn. apply Z.leb_gt.
    destruct (Z_lt_le_dec 0 K) as [HKp|HKz]; [specialize (HKn HKp)|]; lia. }
  unfold step_main. rewrite nth_error_hd_skipn, Esk. cbn [hd_error]. rewrite Hgrp, Hskip.
  unfold f_group in Hg. rewrite Hg. cbn [andb negb orb]. rewrite Hn, own_match.
  rewrite Hk. rewrite (assign_noninline cb sv NValue (n_end n) f s0 v Ht Hconv Hi).
  unfold store. rewrite (sf_embptr _ _ Hsf). unfold f_inline in Hi. rewrite Hi.
  eexists. split; [reflexivity|].
  unfold PInv, Dinv; cbn [u_group u_idx u_frags u_nv u_nr u_out].
  rewrite skipn_S_tl, Esk. cbn [tl].
  refine (conj eq_refl (conj Hfr2 (conj _ _))).
  - destruct (o_omit (fi_opts f)) eqn:Eo.
    + rewrite (nopt_optional f r Eo Hg Hp) in Hd, HKn. split; [lia|]. split; [lia|]. intros HKp. specialize (HKn HKp). lia.
    + rewrite (nopt_required f r Eo) in Hd, HKn. split; [lia|]. split; [lia|]. exact HKn.
  - constructor; [|exact Hout]. split; [reflexivity|exact Heq].
Qed.

(* ---------- plain mode, inline field ---------- *)
Lemma PS_inline f r K L s :
  Cls (f :: r) -> f_inline f = true -> PInv (f :: r) K L s ->
  exists s', step_main cb hashlen f s = Next s' /\ PInv r K (f :: L) s'.
Proof.
  intros Hc Hi (Hgrp & Hfr & (Hd & HK & HKn) & Hout).
  destruct (F_inline cb sv f r Hc Hi) as (Hp & Hl & Hpar & Hg & u & rest & EFr & EF & _).
  rewrite EF in Hfr.
  destruct (skipn (u_idx s) (u_frags s)) as [|fr more] eqn:Esk; [discriminate|].
  cbn [map] in Hfr. inversion Hfr as [[Hfr1 Hfr2]]. destruct (tf_TV _ _ Hfr1) as (n & -> & Hn).
  destruct (fld_conv f (c_flds _ _ _ Hc f (or_introl eq_refl) Hp)) as (s0 & v & Ht & Hk & Hconv & Heq).
  pose proof (shapes_cons _ _ (c_shapes _ _ _ Hc)) as [Hsf _].
  assert (Hom : o_omit (fi_opts f) = false).
  { destruct (o_omit (fi_opts f)) eqn:Eo; auto. rewrite (sf_omit _ _ Hsf Eo) in Hi. discriminate. }
  assert (Hk' : kt f = s0).
  { rewrite Hk. unfold keyof. unfold has_param in Hpar. destruct (o_param (fi_opts f)); [reflexivity|discriminate]. }
  unfold step_main. rewrite nth_error_hd_skipn, Esk. cbn [hd_error]. rewrite Hgrp, Hom.
  unfold f_group in Hg. rewrite Hg. cbn [andb negb orb].
  assert (Hm : match o_param (fi_opts f) with [] => true | p => has_prefix (p ++ [equals]) (n_text n) end = true).
  { unfold has_param in Hpar. destruct (o_param (fi_opts f)); [reflexivity|discriminate]. }
  rewrite Hm, Hn, Hk'. rewrite (assign_inline cb sv (n_end n) f s0 v u Ht Hconv Hi Hl Hpar).
  unfold store. rewrite (sf_embptr _ _ Hsf). unfold f_inline in Hi. rewrite Hi.
  eexists. split; [reflexivity|].
  unfold PInv, Dinv; cbn [u_group u_idx u_frags u_nv u_nr u_out].
  rewrite (skipn_set_frag _ _ _ _ _ Esk). cbn [map tf n_text]. rewrite Hfr2, EFr.
  refine (conj eq_refl (conj eq_refl (conj _ _))).
  - rewrite (nopt_required f r Hom) in Hd, HKn. split; [lia|]. split; [lia|]. exact HKn.
  - constructor; [|exact Hout]. split; [reflexivity|exact Heq].
Qed.

Lemma takeW_incl : forall r x, In x (takeW r) -> In x r.
Proof.
  induction r as [|f r IH]; intros x H; cbn [takeW] in H. destruct H.
  destruct (f_group f); [|destruct H]. destruct H as [<-|H]; [left; reflexivity|right; auto].
Qed.

(* ---------- plain mode, first member of a group run ---------- *)
Lemma PS_group_first f r K L s b pi :
  Cls (f :: r) -> groups_shape_ok (f :: r) b 0 pi = true -> f_group f = true ->
  PInv (f :: r) K L s ->
  exists s', step_main cb hashlen f s = Next s' /\ GInv r K (f :: L) s' /\ groups_shape_ok r true 1 false = true.
Proof.
  intros Hc Hgso Hg (Hgrp & Hfr & (Hd & HK & HKn) & Hout).
  destruct (F_group_first cb sv f r b pi Hc Hgso Hg) as (Hp & Hom & Hpar & Hi & m2 & r2 & -> & Hg2 & Hp2 & Hgso1 & EF).
  rewrite EF in Hfr.
  destruct (skipn (u_idx s) (u_frags s)) as [|fr R] eqn:Esk; [discriminate|].
  cbn [map] in Hfr. inversion Hfr as [[Hfr1 Hfr2]]. destruct (tf_TG _ _ Hfr1) as (ns & -> & Hns).
  destruct ns as [|n1 ns']; [discriminate|]. cbn [map] in Hns. inversion Hns as [[Hn1 Hns']].
  destruct (fld_conv f (c_flds _ _ _ Hc f (or_introl eq_refl) Hp)) as (s0 & v & Ht & Hk & Hconv & Heq).
  pose proof (shapes_cons _ _ (c_shapes _ _ _ Hc)) as [Hsf _].
  unfold step_main. rewrite nth_error_hd_skipn, Esk. cbn [hd_error]. rewrite Hgrp.
  unfold f_omit in Hom. unfold f_group in Hg. rewrite Hom, Hg. cbn [andb negb orb].
  cbn [find_member]. rewrite Hn1. rewrite <- (keyof_param f Hpar), (kt_own_key cb sv f).
  rewrite Hn1, Hk. rewrite (assign_noninline cb sv NValue (n_end n1) f s0 v Ht Hconv Hi).
  unfold store. rewrite (sf_embptr _ _ Hsf).
  eexists. split; [reflexivity|]. split; [|exact Hgso1].
  exists (n1 :: ns'), (n1 :: ns'), R, [kt f].
  cbn [u_group u_idx u_frags u_nv u_nr u_out u_ngv u_greq app].
  refine (conj eq_refl (conj Esk (conj _ (conj _ (conj _ (conj eq_refl (conj _ (conj _ _)))))))).
  - cbn [dropW]. rewrite Hg2. exact Hfr2.
  - cbn [takeW]. rewrite Hg2. cbn [filter]. fold (ClassPBase.pr sv m2). rewrite Hp2. cbn [map app].
    rewrite Hn1. f_equal. exact Hns'.
  - cbn [takeW]. rewrite Hg2. cbn [filter]. fold (ClassPBase.pr sv m2). rewrite Hp2.
    cbn [length]. rewrite <- (map_length n_text ns'), Hns'. cbn [length]. rewrite map_length. lia.
  - intros t [<-|[]] g Hgin Hgpar. rewrite (keyof_param g Hgpar).
    apply (key_kt cb sv). apply (c_flds _ _ _ Hc). left; reflexivity. exact Hp.
    apply (pnodup_head f _ (c_params _ _ _ Hc) Hpar g Hgin).
  - rewrite (nopt_group f _ Hg) in Hd, HKn. exact (conj Hd (conj HK HKn)).
  - constructor; [|exact Hout]. split; [reflexivity|exact Heq].
Qed.

(* ---------- inside a group run ---------- *)
Lemma GS_group f r K L s :
  Cls (f :: r) -> f_group f = true -> GInv (f :: r) K L s ->
  exists s', step cb hashlen f s = Next s' /\ GInv r K (if pr f then f :: L else L) s'.
Proof.
  intros Hc Hg (g & fr & R & pre & Hgrp & Esk & HR & Hmap & Hngv & Hgreq & Hpre & (Hd & HK & HKn) & Hout).
  destruct (shapes_grp_wf _ (c_shapes _ _ _ Hc) f (or_introl eq_refl) Hg) as [Hi Hpar].
  pose proof (shapes_cons _ _ (c_shapes _ _ _ Hc)) as [Hsf _].
  cbn [takeW dropW] in *. rewrite Hg in *. cbn [filter] in *. fold (ClassPBase.pr sv f) in *.
  rewrite step_eq. unfold closed_of. rewrite Hgrp. unfold f_group in Hg. rewrite Hg. cbn [negb].
  unfold step_main. rewrite nth_error_hd_skipn, Esk. cbn [hd_error]. rewrite Hgrp, Hg, Hgreq.
  rewrite andb_false_r. cbn [andb orb].
  rewrite (nopt_group f r Hg) in Hd, HKn.
  destruct (pr f) eqn:Hp.
  - cbn [map length] in *.
    destruct (map_eq_app _ _ _ _ Hmap) as (ga & gb & -> & Hga & Hgb).
    destruct (map_eq_cons _ _ Hgb) as (n & gc & -> & Hn & Hgc).
    destruct (fld_conv f (c_flds _ _ _ Hc f (or_introl eq_refl) Hp)) as (s0 & v & Ht & Hk & Hconv & Heq).
    rewrite <- (keyof_param f Hpar).
    rewrite (find_member_some (keyof f) ga [] n gc).
    + rewrite Hn, Hk. rewrite (assign_noninline cb sv NValue (n_end n) f s0 v Ht Hconv Hi).
      unfold store. rewrite (sf_embptr _ _ Hsf).
      eexists. split; [reflexivity|].
      exists (ga ++ n :: gc), fr, R, (pre ++ [kt f]).
      cbn [u_group u_idx u_frags u_nv u_nr u_out u_ngv u_greq app].
      refine (conj eq_refl (conj Esk (conj HR (conj _ (conj _ (conj _ (conj _ (conj _ _)))))))).
      * rewrite map_app. cbn [map]. rewrite Hga, Hn, Hgc, <- app_assoc. reflexivity.
      * rewrite Hngv. lia.
      * destruct (o_omit (fi_opts f)); reflexivity.
      * intros t Ht' g' Hg' Hgp. apply in_app_or in Ht'. destruct Ht' as [Ht'|[<-|[]]].
        -- apply (Hpre t Ht' g'); auto. right. exact Hg'.
        -- rewrite (keyof_param g' Hgp). apply (key_kt cb sv).
           apply (c_flds _ _ _ Hc). left; reflexivity. exact Hp.
           apply (pnodup_head f _ (c_params _ _ _ Hc) Hpar g' Hg').
      * exact (conj Hd (conj HK HKn)).
      * constructor; [|exact Hout]. split; [reflexivity|exact Heq].
    + intros m Hm. apply (Hpre (n_text m)). rewrite <- Hga. apply in_map. exact Hm.
      left; reflexivity. exact Hpar.
    + rewrite Hn. apply kt_own_key.
  - pose proof (absent_omit sv f Hp) as Hom. unfold f_omit in Hom. rewrite Hom.
    rewrite <- (keyof_param f Hpar).
    rewrite find_member_none.
    + eexists. split; [reflexivity|].
      exists g, fr, R, pre.
      cbn [u_group u_idx u_frags u_nv u_nr u_out u_ngv u_greq negb].
      refine (conj eq_refl (conj Esk (conj HR (conj Hmap (conj Hngv (conj eq_refl (conj _ (conj _ Hout)))))))).
      * intros t Ht' g' Hg' Hgp. apply (Hpre t Ht' g'); auto. right. exact Hg'.
      * exact (conj Hd (conj HK HKn)).
    + intros m Hm. assert (Hin : In (n_text m) (pre ++ map kt (filter pr (takeW r)))).
      { rewrite <- Hmap. apply in_map. exact Hm. }
      apply in_app_or in Hin. destruct Hin as [Hin|Hin].
      * apply (Hpre _ Hin f). left; reflexivity. exact Hpar.
      * apply in_map_iff in Hin. destruct Hin as (g' & <- & Hg'). apply filter_In in Hg'. destruct Hg' as [Hg' Hpg'].
        apply takeW_incl in Hg'. rewrite (keyof_param f Hpar). apply (key_kt cb sv).
        apply (c_flds _ _ _ Hc). right. exact Hg'. exact Hpg'.
        intros E. apply (pnodup_head f _ (c_params _ _ _ Hc) Hpar g' Hg'). symmetry. exact E.
Qed.

(* ---------- a plain field closes the pending group ---------- *)
Lemma GS_close f r K L s :
  f_group f = false -> GInv (f :: r) K L s ->
  exists s1, closed_of f s = Next s1 /\ PInv (f :: r) K L s1.
Proof.
  intros Hg (g & fr & R & pre & Hgrp & Esk & HR & Hmap & Hngv & Hgreq & Hpre & (Hd & HK & HKn) & Hout).
  cbn [takeW dropW] in *. rewrite Hg in *. cbn [filter length] in *.
  unfold closed_of. rewrite Hgrp. unfold f_group in Hg. rewrite Hg, Hngv, Hgreq. cbn [negb].
  change (0 <? Z.of_nat 0) with false. cbn iota.
  eexists. split; [reflexivity|].
  unfold PInv, Dinv; cbn [u_group u_idx u_frags u_nv u_nr u_out].
  rewrite skipn_S_tl, Esk. cbn [tl].
  refine (conj eq_refl (conj HR (conj _ Hout))). split; [lia|]. split; [exact HK|exact HKn].
Qed.

Lemma gso_plain_intro f r b pi : f_group f = false ->
  groups_shape_ok r (if required_plain f then false else b) 0 (f_inline f) = true ->
  groups_shape_ok (f :: r) b 0 pi = true.
Proof. intros Hg H. cbn [groups_shape_ok]. rewrite Hg. cbn [Nat.eqb negb andb]. exact H. Qed.

Definition Mode (fs : list finfo) (K : Z) (L : list finfo) (s : ust) : Prop :=
  (PInv fs K L s /\ exists b pi, groups_shape_ok fs b 0 pi = true) \/
  (GInv fs K L s /\ exists n, (1 <= n)%nat /\ groups_shape_ok fs true n false = true).

Lemma closed_plain_mode f s : u_group s = None -> closed_of f s = Next s.
Proof. intros H. unfold closed_of. rewrite H. reflexivity. Qed.

Lemma filter_rev_cons (f : finfo) r (L : list finfo) :
  rev (filter pr r) ++ (if pr f then f :: L else L) = rev (filter pr (f :: r)) ++ L.
Proof. cbn [filter]. destruct (pr f); [|reflexivity]. cbn [rev]. rewrite <- app_assoc. reflexivity. Qed.

Lemma run_loop : forall fs K L s, Cls fs -> Mode fs K L s ->
  exists s' K', run_fields cb hashlen fs s = Next s' /\ Mode [] K' (rev (filter pr fs) ++ L) s'.
Proof.
  induction fs as [|f r IH]; intros K L s Hc Hm.
  - exists s, K. split; [reflexivity|exact Hm].
  - pose proof (Cls_tail cb sv f r Hc) as Hc'.
    cbn [run_fields].
    destruct (f_group f) eqn:Hg.
    + destruct Hm as [[HP (b & pi & Hgso)]|[HG (n & Hn & Hgso)]].
      * destruct (PS_group_first f r K L s b pi Hc Hgso Hg HP) as (s1 & Hs1 & HG1 & Hgso1).
        destruct (F_group_first cb sv f r b pi Hc Hgso Hg) as (Hp & _).
        rewrite step_eq, (closed_plain_mode f s (proj1 HP)), Hs1.
        destruct (IH K (f :: L) s1 Hc') as (s' & K' & Hrun & Hm').
        { right. split; [exact HG1|]. exists 1%nat. split; [lia|exact Hgso1]. }
        exists s', K'. split; [exact Hrun|]. rewrite <- filter_rev_cons, Hp. exact Hm'.
      * destruct (GS_group f r K L s Hc Hg HG) as (s1 & Hs1 & HG1).
        rewrite Hs1.
        destruct (IH K (if pr f then f :: L else L) s1 Hc') as (s' & K' & Hrun & Hm').
        { right. split; [exact HG1|]. exists (S n). split; [lia|]. apply (gso_member f); auto. }
        exists s', K'. split; [exact Hrun|]. rewrite <- filter_rev_cons. exact Hm'.
    + assert (Hplain : exists s1 b pi, closed_of f s = Next s1 /\ PInv (f :: r) K L s1 /\
                                        groups_shape_ok (f :: r) b 0 pi = true).
      { destruct Hm as [[HP (b & pi & Hgso)]|[HG (n & Hn & Hgso)]].
        - exists s, b, pi. split; [apply closed_plain_mode; exact (proj1 HP)|]. split; assumption.
        - destruct (GS_close f r K L s Hg HG) as (s1 & Hs1 & HP1).
          exists s1, true, false. split; [exact Hs1|]. split; [exact HP1|].
          destruct (gso_plain _ _ _ _ _ Hgso Hg) as [_ H]. apply gso_plain_intro; auto. }
      destruct Hplain as (s1 & b & pi & Hcl & HP1 & Hgso).
      destruct (gso_plain _ _ _ _ _ Hgso Hg) as [_ Hgso'].
      rewrite step_eq, Hcl.
      destruct (pr f) eqn:Hp.
      * assert (Hstep : exists s2, step_main cb hashlen f s1 = Next s2 /\ PInv r K (f :: L) s2).
        { destruct (f_inline f) eqn:Hi.
          - apply PS_inline; auto.
          - apply PS_value; auto. }
        destruct Hstep as (s2 & Hs2 & HP2). rewrite Hs2.
        destruct (IH K (f :: L) s2 Hc') as (s' & K' & Hrun & Hm').
        { left. split; [exact HP2|]. eauto. }
        exists s', K'. split; [exact Hrun|]. rewrite <- filter_rev_cons, Hp. exact Hm'.
      * destruct (PS_absent f r K L s1 b pi Hc Hgso Hg Hp HP1) as (s2 & K2 & Hs2 & HP2). rewrite Hs2.
        destruct (IH K2 L s2 Hc') as (s' & K' & Hrun & Hm').
        { left. split; [exact HP2|]. eauto. }
        exists s', K'. split; [exact Hrun|]. rewrite <- filter_rev_cons, Hp. exact Hm'.
Qed.

(* when all fields are done no fragment is left *)
Lemma final_ok K L s : Mode [] K L s ->
  exists idx, match u_group s with
              | Some g => if 0 <? u_ngv s then Err (EUnmarshal NGroup [] (group_end g) MExcessiveFragment)
                          else Ok (S (u_idx s))
              | None => Ok (u_idx s)
              end = Ok idx /\ nth_error (u_frags s) idx = None /\ outrel L (u_out s).
Proof.
  intros [[(Hgrp & Hfr & _ & Hout) _]|[(g & fr & R & pre & Hgrp & Esk & HR & _ & Hngv & _ & _ & _ & Hout) _]].
  - rewrite Hgrp. exists (u_idx s). split; [reflexivity|]. split; [|exact Hout].
    rewrite nth_error_hd_skipn. destruct (skipn (u_idx s) (u_frags s)); [reflexivity|discriminate].
  - rewrite Hgrp, Hngv. cbn [takeW filter length]. change (0 <? Z.of_nat 0) with false. cbn iota.
    exists (S (u_idx s)). split; [reflexivity|]. split; [|exact Hout].
    rewrite nth_error_hd_skipn, skipn_S_tl, Esk. cbn [tl]. destruct R; [reflexivity|discriminate].
Qed.

End L.
