(* C20 converse direction, part 8: the text (un)marshalers of the shipped types are coherent, so the theorem
   applies to the shipped layouts with the standard callbacks. *)
Require Import GC.Base.Bytes GC.Base.CaseLib GC.Codec.Types GC.Codec.Strconv GC.Codec.StrconvProofs GC.Codec.TypeInfo
               GC.Codec.Marshal GC.Codec.Unmarshal GC.Codec.Codec GC.Codec.Class GC.Codec.ClassPBase GC.Codec.Respell
               GC.Codec.C20Test GC.Codec.C20PBase GC.Codec.C20PNorm GC.Codec.C20PField GC.Codec.C20Proofs
               GC.Schemes.Consts GC.Schemes.Layouts.
Require Import GC.Parse.ParseModel GC.Parse.ParseSpec GC.Parse.ParseProofs.
Arguments Z.add : simpl never. Arguments Z.sub : simpl never. Arguments Z.of_nat : simpl never.
Arguments Z.leb : simpl never. Arguments Z.ltb : simpl never.

(* ---------- prefix types: a whitelist, stored as the string itself ---------- *)
Lemma whitelist_prefix_coh p id wl :
  t_mtext (fi_type p) = None -> t_utext (fi_type p) = Some id -> t_kind (fi_type p) = KString ->
  prefix_whitelist id = Some wl -> coh_prefix std_cb p.
Proof.
  intros Em Eu Ek Ewl s v _ Hconv. unfold convert in Hconv.
  destruct (first_invalid (o_enc (fi_opts p)) s); [discriminate|]. rewrite Eu in Hconv.
  cbn [cb_unmarshal std_cb] in Hconv. rewrite Ewl in Hconv.
  destruct (existsb (bytes_eqb s) wl); [|discriminate]. inversion Hconv; subst v.
  unfold marshal1. rewrite Em, Ek, andb_false_r. reflexivity.
Qed.

Lemma string_zero_marshal cb p :
  t_mtext (fi_type p) = None -> t_kind (fi_type p) = KString -> marshal1 cb p (zero_value (fi_type p)) = Ok [].
Proof.
  intros Em Ek. unfold marshal1, zero_value. rewrite Em, Ek.
  destruct (Nat.ltb 0 (t_ptr (fi_type p))); [reflexivity|]. rewrite andb_false_r. reflexivity.
Qed.

(* ---------- bcrypt cost: parsed as a plain uint8, written as two decimal digits ---------- *)
Definition digs : list Z := map Z.of_nat (seq 48 10).

Lemma digit10 a da : digit_val a = Some da -> (10 <=? da) = false -> In a digs.
Proof.
  unfold digit_val. intros H Hd. apply Z.leb_gt in Hd.
  destruct ((48 <=? a) && (a <=? 57)) eqn:E1.
  - apply andb_true_iff in E1. destruct E1 as [A B]. apply Z.leb_le in A, B.
    unfold digs. replace a with (Z.of_nat (Z.to_nat a)) by lia. apply in_map. apply in_seq. lia.
  - destruct ((97 <=? a) && (a <=? 122)) eqn:E2.
    + apply andb_true_iff in E2. destruct E2 as [A B]. apply Z.leb_le in A, B. inversion H. lia.
    + destruct ((65 <=? a) && (a <=? 90)) eqn:E3; [|discriminate].
      apply andb_true_iff in E3. destruct E3 as [A B]. apply Z.leb_le in A, B. inversion H. lia.
Qed.

Lemma cost_all :
  forallb (fun a => forallb (fun b => match ParseUint [a; b] 10 8 with
                                      | inl z => bytes_eqb (cost_text z) [a; b]
                                      | inr _ => true
                                      end) digs) digs = true.
Proof. vm_compute. reflexivity. Qed.

Lemma cost_coh f :
  t_mtext (fi_type f) = Some 20%nat -> t_utext (fi_type f) = None -> t_kind (fi_type f) = KUint 8 ->
  o_base (fi_opts f) = 10 -> o_haslen (fi_opts f) = true -> o_len (fi_opts f) = 2 -> coh_rt std_cb f.
Proof.
  intros Em Eu Ek Eb El En s v _ Hlen Hconv _. unfold convert in Hconv.
  destruct (first_invalid (o_enc (fi_opts f)) s); [discriminate|]. rewrite Eu, Ek, Eb in Hconv.
  destruct (o_prefix (fi_opts f) && negb false); [discriminate|].
  destruct (ParseUint s 10 8) as [z|e] eqn:EP; [|discriminate]. inversion Hconv; subst v.
  unfold marshal1. rewrite Em. cbn [cb_marshal std_cb]. f_equal.
  specialize (Hlen El). rewrite En in Hlen.
  destruct s as [|a [|b [|c r]]]; cbn [length] in Hlen; try lia.
  assert (Ha : In a digs /\ In b digs).
  { unfold ParseUint in EP. cbn [parse_digits] in EP.
    destruct (digit_val a) as [da|] eqn:Eda; [|discriminate].
    destruct (10 <=? da) eqn:E1; [discriminate|].
    destruct (2 ^ 8 - 1 <? 0 * 10 + da); [discriminate|].
    destruct (digit_val b) as [db|] eqn:Edb; [|discriminate].
    destruct (10 <=? db) eqn:E2; [discriminate|].
    split; eapply digit10; eauto. }
  destruct Ha as [Ha Hb]. pose proof cost_all as H. rewrite forallb_forall in H. specialize (H a Ha).
  rewrite forallb_forall in H. specialize (H b Hb). rewrite EP in H. apply bytes_eqb_eq in H. exact H.
Qed.

(* ---------- desext rounds: four characters of the hash alphabet, 6 bits each ---------- *)
Lemma hash_valid_range c : valid_char EncHash c = true ->
  0 <= hash_decode_chr c < 64 /\ hash_encode_idx (hash_decode_chr c) = c.
Proof.
  intros Hv.
  assert (T : forallb (fun n => let c := Z.of_nat n in
                         if valid_char EncHash c
                         then (0 <=? hash_decode_chr c) && (hash_decode_chr c <? 64)
                              && (hash_encode_idx (hash_decode_chr c) =? c)
                         else true) (seq 0 256) = true) by (vm_compute; reflexivity).
  assert (Hr : 0 <= c < 256).
  { destruct (Z.ltb_spec c 0).
    - exfalso. unfold valid_char in Hv. replace (Z.to_nat c) with 0%nat in Hv by lia. vm_compute in Hv. discriminate.
    - destruct (Z.ltb_spec c 256); [lia|]. exfalso. unfold valid_char in Hv.
      rewrite nth_overflow in Hv; [vm_compute in Hv; discriminate|].
      change (length m_hashutil_hash_decode) with 256%nat. lia. }
  rewrite forallb_forall in T. specialize (T (Z.to_nat c)).
  assert (Hin : In (Z.to_nat c) (seq 0 256)) by (apply in_seq; lia).
  specialize (T Hin). cbv zeta in T. replace (Z.of_nat (Z.to_nat c)) with c in T by lia.
  rewrite Hv in T. rewrite !andb_true_iff in T. destruct T as ((A & B) & C).
  apply Z.leb_le in A. apply Z.ltb_lt in B. apply Z.eqb_eq in C. auto.
Qed.

Lemma land63 x : 0 <= x -> Z.land x 63 = x mod 64.
Proof. intros H. change 63 with (Z.ones 6). rewrite Z.land_ones by lia. reflexivity. Qed.

Lemma enc_dec4 a b c d :
  valid_char EncHash a = true -> valid_char EncHash b = true -> valid_char EncHash c = true ->
  valid_char EncHash d = true -> EncodeInt (DecodeInt [a; b; c; d]) = [a; b; c; d].
Proof.
  intros Ha Hb Hc Hd.
  destruct (hash_valid_range a Ha) as [Ra Ea]. destruct (hash_valid_range b Hb) as [Rb Eb].
  destruct (hash_valid_range c Hc) as [Rc Ec]. destruct (hash_valid_range d Hd) as [Rd Ed].
  set (da := hash_decode_chr a) in *. set (db := hash_decode_chr b) in *.
  set (dc := hash_decode_chr c) in *. set (dd := hash_decode_chr d) in *.
  assert (EV : DecodeInt [a; b; c; d] = da + 64 * db + 4096 * dc + 262144 * dd).
  { unfold DecodeInt. cbn [DecodeInt_from]. fold da db dc dd.
    change (6 * 0) with 0. change (6 * (0 + 1)) with 6. change (6 * (0 + 1 + 1)) with 12.
    change (6 * (0 + 1 + 1 + 1)) with 18.
    rewrite !Z.shiftl_mul_pow2 by lia.
    change (2 ^ 0) with 1. change (2 ^ 6) with 64. change (2 ^ 12) with 4096. change (2 ^ 18) with 262144.
    change (2 ^ 32) with 4294967296.
    rewrite (Z.mod_small (dd * 262144 + 0)) by lia.
    rewrite (Z.mod_small (dc * 4096 + (dd * 262144 + 0))) by lia.
    rewrite (Z.mod_small (db * 64 + (dc * 4096 + (dd * 262144 + 0)))) by lia.
    rewrite Z.mod_small by lia. lia. }
  rewrite EV. set (v := da + 64 * db + 4096 * dc + 262144 * dd).
  unfold EncodeInt. cbn [map].
  change (6 * 0) with 0. change (6 * 1) with 6. change (6 * 2) with 12. change (6 * 3) with 18.
  rewrite !Z.shiftr_div_pow2 by lia.
  change (2 ^ 0) with 1. change (2 ^ 6) with 64. change (2 ^ 12) with 4096. change (2 ^ 18) with 262144.
  assert (H0 : Z.land (v / 1) 63 = da).
  { rewrite land63 by (apply Z.div_pos; lia). unfold v. Z.div_mod_to_equations. lia. }
  assert (H1 : Z.land (v / 64) 63 = db).
  { rewrite land63 by (apply Z.div_pos; lia). unfold v. Z.div_mod_to_equations. lia. }
  assert (H2 : Z.land (v / 4096) 63 = dc).
  { rewrite land63 by (apply Z.div_pos; lia). unfold v. Z.div_mod_to_equations. lia. }
  assert (H3 : Z.land (v / 262144) 63 = dd).
  { rewrite land63 by (apply Z.div_pos; lia). unfold v. Z.div_mod_to_equations. lia. }
  rewrite H0, H1, H2, H3, Ea, Eb, Ec, Ed. reflexivity.
Qed.

Lemma desext_coh f :
  t_mtext (fi_type f) = Some 21%nat -> t_utext (fi_type f) = Some 21%nat -> o_enc (fi_opts f) = EncHash ->
  o_haslen (fi_opts f) = true -> o_len (fi_opts f) = 4 -> coh_rt std_cb f.
Proof.
  intros Em Eu Ee El En s v _ Hlen Hconv _. unfold convert in Hconv. rewrite Ee in Hconv.
  destruct (first_invalid EncHash s) eqn:Efi; [discriminate|]. rewrite Eu in Hconv.
  cbn [cb_unmarshal std_cb prefix_whitelist] in Hconv. inversion Hconv; subst v.
  unfold marshal1. rewrite Em. cbn [cb_marshal std_cb]. f_equal.
  specialize (Hlen El). rewrite En in Hlen.
  destruct s as [|a [|b [|c [|d [|e r]]]]]; cbn [length] in Hlen; try lia.
  rewrite first_invalid_none in Efi.
  apply enc_dec4; apply Efi; cbn; auto.
Qed.

(* ---------- a decidable sufficient condition for coherence under the standard callbacks ---------- *)
Definition is_cost (f : finfo) : bool :=
  match t_mtext (fi_type f), t_utext (fi_type f), t_kind (fi_type f) with
  | Some k, None, KUint b =>
    Nat.eqb k 20 && (b =? 8) && (o_base (fi_opts f) =? 10) && o_haslen (fi_opts f) && (o_len (fi_opts f) =? 2)
  | _, _, _ => false
  end.
Definition is_desext_rounds (f : finfo) : bool :=
  match t_mtext (fi_type f), t_utext (fi_type f), o_enc (fi_opts f) with
  | Some k, Some u, EncHash => Nat.eqb k 21 && Nat.eqb u 21 && o_haslen (fi_opts f) && (o_len (fi_opts f) =? 4)
  | _, _, _ => false
  end.
Definition std_ok_field (f : finfo) : bool :=
  negb (texty f) || (negb (o_omit (fi_opts f)) && (is_cost f || is_desext_rounds f)).
Definition std_ok_prefix (p : finfo) : bool :=
  negb (texty p)
  || (match t_mtext (fi_type p) with None => true | Some _ => false end
      && match t_utext (fi_type p) with
         | Some id => match prefix_whitelist id with Some _ => true | None => false end
         | None => false
         end
      && match t_kind (fi_type p) with KString => true | _ => false end).
Definition std_ok (ti : tinfo) : bool :=
  forallb std_ok_field (ti_fields ti)
  && match ti_prefix ti with Some p => std_ok_prefix p | None => true end.

Lemma is_cost_coh f : is_cost f = true -> coh_rt std_cb f.
Proof.
  unfold is_cost. intros H.
  destruct (t_mtext (fi_type f)) as [k|] eqn:Em; [|discriminate].
  destruct (t_utext (fi_type f)) eqn:Eu; [discriminate|].
  destruct (t_kind (fi_type f)) as [| | | |bits|] eqn:Ek; try discriminate.
  rewrite !andb_true_iff in H. destruct H as ((((A0 & A1) & A) & B) & C).
  apply Nat.eqb_eq in A0. apply Z.eqb_eq in A1, A, C. subst k bits.
  apply cost_coh; auto.
Qed.

Lemma is_desext_coh f : is_desext_rounds f = true -> coh_rt std_cb f.
Proof.
  unfold is_desext_rounds. intros H.
  destruct (t_mtext (fi_type f)) as [k|] eqn:Em; [|discriminate].
  destruct (t_utext (fi_type f)) as [u|] eqn:Eu; [|discriminate].
  destruct (o_enc (fi_opts f)) eqn:Ee; try discriminate.
  rewrite !andb_true_iff in H. destruct H as (((A0 & A1) & A) & B).
  apply Nat.eqb_eq in A0, A1. apply Z.eqb_eq in B. subst k u.
  apply desext_coh; auto.
Qed.

Theorem std_coherent ti : std_ok ti = true -> cb_coherent std_cb ti.
Proof.
  unfold std_ok. intros H. apply andb_true_iff in H. destruct H as [Hf Hp]. split.
  - intros p Ep Ht. rewrite Ep in Hp. unfold std_ok_prefix in Hp. rewrite Ht in Hp. cbn [negb orb] in Hp.
    rewrite !andb_true_iff in Hp. destruct Hp as ((A & B) & C).
    destruct (t_mtext (fi_type p)) eqn:Em; [discriminate|].
    destruct (t_utext (fi_type p)) as [id|] eqn:Eu; [|discriminate].
    destruct (prefix_whitelist id) as [wl|] eqn:Ew; [|discriminate].
    destruct (t_kind (fi_type p)) eqn:Ek; try discriminate.
    split; [eapply whitelist_prefix_coh; eauto|]. intros _. apply string_zero_marshal; auto.
  - intros f Hin Ht. rewrite forallb_forall in Hf. specialize (Hf f Hin). unfold std_ok_field in Hf.
    rewrite Ht in Hf. cbn [negb orb] in Hf. apply andb_true_iff in Hf. destruct Hf as [Ho Hk].
    apply negb_true_iff in Ho. split; [|intros X; congruence].
    apply orb_true_iff in Hk. destruct Hk as [Hk|Hk]; [apply is_cost_coh|apply is_desext_coh]; exact Hk.
Qed.

(* all side conditions of the theorem, as one computable test of a layout under the standard callbacks *)
Definition c20_side (ti : tinfo) : bool :=
  unambiguous ti && paths_ok ti && ints_unsized ti && params_noeq ti && arrays_sized ti && ints_wf ti
  && inline_next_exact (ti_fields ti) && headed ti && prefix_plain_ok ti && std_ok ti.

(* the statement evaluated by the model on a generated case (every string of the run): exactly C20_std, so it can only
   fail if the theorem's statement and the executable definitions drift apart; [c20_applies] counts the cases on which
   the hypotheses hold and the string is accepted (non-vacuity, reported in the evidence).  Layouts of the class that
   violate a side condition are NOT judged: e.g. with a plain integer right after an inline field, "abc007" is accepted
   and re-marshalled as "abc7" -- a tolerated digit respelling that the fragment-level [respell] cannot see. *)
Definition test_c20_side (c : list sfield * bytes * obs (list (list nat * fval))) : bool :=
  let '(st, h, _) := c in
  match type_info st with
  | Ok ti =>
    if c20_side ti then
      match unmarshal std_cb ti h with
      | Ok m => match marshal std_cb ti (sval_of m) with
                | Ok s' => respell_b h s'
                | _ => false
                end
      | _ => true
      end
    else true
  | _ => true
  end.

Theorem C20_std : forall ti s m, c20_side ti = true ->
  unmarshal std_cb ti s = Ok m -> exists s', marshal std_cb ti (sval_of m) = Ok s' /\ respell s s'.
Proof.
  intros ti s m H. unfold c20_side in H. rewrite !andb_true_iff in H.
  destruct H as (((((((((H1 & H2) & H3) & H4) & H5) & H6) & H7) & H8) & H9) & H10).
  apply C20_converse; auto. apply std_coherent. exact H10.
Qed.

(* the shipped layouts inside the unambiguous class (all but sunmd5, whose two trailing optional positional
   fields make it ambiguous) *)
Definition shipped_in_class : list (list sfield) :=
  [m_layout_argon2; m_layout_bcrypt; m_layout_des; m_layout_desext; m_layout_md5; m_layout_nthash;
   m_layout_sha1; m_layout_sha256; m_layout_sha512].

Theorem C20_shipped : forall st, In st shipped_in_class ->
  exists ti, type_info st = Ok ti /\ c20_side ti = true /\
    forall s m, unmarshal std_cb ti s = Ok m ->
      exists s', marshal std_cb ti (sval_of m) = Ok s' /\ respell s s'.
Proof.
  intros st Hin.
  assert (H : exists ti, type_info st = Ok ti /\ c20_side ti = true).
  { unfold shipped_in_class in Hin. cbn [In] in Hin.
    repeat (destruct Hin as [<-|Hin]; [eexists; split; [vm_compute; reflexivity|vm_compute; reflexivity]|]).
    destruct Hin. }
  destruct H as (ti & H1 & H2). exists ti. split; [exact H1|]. split; [exact H2|].
  intros s m. apply C20_std. exact H2.
Qed.

Print Assumptions std_coherent.
Print Assumptions C20_std.
Print Assumptions C20_shipped.
