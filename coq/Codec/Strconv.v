(* Models of the strconv functions the codec calls with an explicit base (2..36):
   ParseUint, ParseInt, FormatUint, FormatInt.  Definitions only. *)
Require Import GC.Base.Bytes.

Inductive perr := PSyntax | PRange.

(* value of one digit character; None = not a digit in any base *)
Definition digit_val (c : Z) : option Z :=
  if (48 <=? c) && (c <=? 57) then Some (c - 48)
  else if (97 <=? c) && (c <=? 122) then Some (c - 97 + 10)
  else if (65 <=? c) && (c <=? 90) then Some (c - 65 + 10)     (* lower(c) *)
  else None.

(* left to right; the first offending character decides (syntax error for a bad digit, range error as soon
   as the value exceeds maxVal) *)
Fixpoint parse_digits (base maxv : Z) (acc : Z) (s : bytes) : Z + perr :=
  match s with
  | [] => inl acc
  | c :: r =>
    match digit_val c with
    | None => inr PSyntax
    | Some d => if base <=? d then inr PSyntax
                else let v := acc * base + d in
                     if maxv <? v then inr PRange else parse_digits base maxv v r
    end
  end.

Definition ParseUint (s : bytes) (base bits : Z) : Z + perr :=
  match s with
  | [] => inr PSyntax
  | _ => parse_digits base (2 ^ bits - 1) 0 s
  end.

Definition ParseInt (s : bytes) (base bits : Z) : Z + perr :=
  match s with
  | [] => inr PSyntax
  | c :: r =>
    let neg := c =? 45 in
    let body := if (c =? 43) || (c =? 45) then r else s in
    match ParseUint body base bits with
    | inr e => inr e
    | inl un =>
      let cutoff := 2 ^ (bits - 1) in
      if negb neg && (cutoff <=? un) then inr PRange
      else if neg && (cutoff <? un) then inr PRange
      else inl (if neg then - un else un)
    end
  end.

Definition digit_char (d : Z) : Z := if d <? 10 then 48 + d else 97 + (d - 10).

(* digits of a non-negative number, most significant first; fuel bounds the number of digits *)
Fixpoint fmt_digits (fuel : nat) (base v : Z) (acc : bytes) : bytes :=
  match fuel with
  | O => acc
  | S f => let acc' := digit_char (v mod base) :: acc in
           if v / base =? 0 then acc' else fmt_digits f base (v / base) acc'
  end.

Definition FormatUint (v base : Z) : bytes := fmt_digits 70 base v [].
Definition FormatInt (v base : Z) : bytes :=
  if v <? 0 then 45 :: FormatUint (- v) base else FormatUint v base.
