(* Class round trip, part 1: generic lemmas and the text-level view of a marshalled value.
   [emit]: the bytes Marshal appends for a list of fields; [mfrA]: the fragments (texts only) the parser
   finds in them, in the accumulator form of the parser; [F]: the fragments a list of fields produces. *)
Require Import GC.Base.Bytes GC.Codec.Types GC.Codec.Strconv GC.Codec.TypeInfo GC.Codec.Marshal
               GC.Codec.Unmarshal GC.Codec.Codec GC.Codec.Class.
Arguments Z.add : simpl never. Arguments Z.sub : simpl never. Arguments Z.of_nat : simpl never.
Arguments Z.leb : simpl never. Arguments Z.ltb : simpl never.

(* ---------- lists ---------- *)
Lemma nth_error_hd_skipn {A} (l : list A) : forall i, nth_error l i = hd_error (skipn i l).
Proof. induction l as [|x l IH]; intros [|i]; cbn; auto. Qed.

Lemma skipn_S_tl {A} (l : list A) : forall i, skipn (S i) l = tl (skipn i l).
Proof.
  induction l as [|x l IH]; intros [|i]; try reflexivity.
  change (skipn (S (S i)) (x :: l)) with (skipn (S i) l).
  change (skipn (S i) (x :: l)) with (skipn i l). apply IH.
Qed.

Lemma skipn_cons_nth {A} (l : list A) i x r : skipn i l = x :: r -> (i < length l)%nat.
Proof.
  revert i. induction l as [|y l IH]; intros [|i]; cbn [skipn length]; intros H; try discriminate; try lia.
  apply IH in H. lia.
Qed.

Lemma skipn_set_frag l i f x r : skipn i l = x :: r -> skipn i (set_frag l i f) = f :: r.
Proof.
  intros H. unfold set_frag. pose proof (skipn_cons_nth l i x r H) as Hl.
  assert (E : length (firstn i l) = i) by (apply firstn_length_le; lia).
  rewrite <- E at 1. rewrite skipn_app_exact. f_equal.
  rewrite skipn_S_tl, H. reflexivity.
Qed.

Lemma path_eqb_eq a : forall b, path_eqb a b = true <-> a = b.
Proof.
  induction a as [|x a IH]; intros [|y b]; cbn; split; intros H; try reflexivity; try discriminate.
  - apply andb_true_iff in H. destruct H as [H1 H2]. apply Nat.eqb_eq in H1. apply IH in H2. congruence.
  - inversion H; subst. rewrite Nat.eqb_refl. cbn. apply IH. reflexivity.
Qed.
Lemma path_eqb_refl a : path_eqb a a = true.
Proof. apply path_eqb_eq. reflexivity. Qed.

(* ---------- texts without '=' / delimiters ---------- *)
Definition noeq (s : bytes) : Prop := ~ In equals s.

Lemma clean_noeq s : clean s = true -> noeq s.
Proof.
  unfold clean, noeq. intros H Hin. rewrite forallb_forall in H. specialize (H _ Hin).
  vm_compute in H. discriminate.
Qed.
Lemma noeq_app a b : noeq a -> noeq b -> noeq (a ++ b).
Proof. unfold noeq. intros Ha Hb H. apply in_app_or in H. tauto. Qed.
Lemma noeq_nil : noeq [].
Proof. intros H. destruct H. Qed.

Lemma clean_app a b : clean (a ++ b) = clean a && clean b.
Proof. unfold clean. apply forallb_app. Qed.

Lemma app_eq_key (e : Z) q : forall p u s, p ++ e :: u = q ++ e :: s -> ~ In e q -> ~ In e s -> p = q.
Proof.
  induction q as [|x q IH]; intros p u s H Hq Hs.
  - destruct p as [|y p]; auto. cbn in H. inversion H; subst. exfalso. apply Hs.
    apply in_or_app. right. left. reflexivity.
  - destruct p as [|y p].
    + cbn in H. inversion H; subst. exfalso. apply Hq. left. reflexivity.
    + cbn in H. inversion H; subst. f_equal. eapply IH; eauto. intros Hi. apply Hq. right. exact Hi.
Qed.

(* a key "p=" is not a prefix of a text without '=' *)
Lemma key_noeq p t : noeq t -> has_prefix (p ++ [equals]) t = false.
Proof.
  intros Ht. destruct (has_prefix (p ++ [equals]) t) eqn:E; auto.
  apply has_prefix_spec in E. destruct E as [u ->]. exfalso. apply Ht.
  apply in_or_app. left. apply in_or_app. right. left. reflexivity.
Qed.
(* nor of another field's keyed text *)
Lemma key_other p q s : p <> q -> noeq q -> noeq s -> has_prefix (p ++ [equals]) (q ++ [equals] ++ s) = false.
Proof.
  intros Hne Hq Hs. destruct (has_prefix (p ++ [equals]) (q ++ [equals] ++ s)) eqn:E; auto.
  apply has_prefix_spec in E. destruct E as [u E]. exfalso. apply Hne.
  rewrite <- app_assoc in E. cbn [app] in E. symmetry in E. eapply app_eq_key; eauto.
Qed.

(* ---------- text-level fragments ---------- *)
Inductive tfrag := TV (t : bytes) | TG (ts : list bytes).
Definition tf (f : ufrag) : tfrag :=
  match f with UV n => TV (n_text n) | UG ns => TG (map n_text ns) end.
Definition closeT (g : option (list bytes)) (cur : bytes) : tfrag :=
  match g with Some l => TG (l ++ [cur]) | None => TV cur end.
Definition glT (g : option (list bytes)) : list bytes := match g with Some l => l | None => [] end.

Definition keyof (fi : finfo) : bytes :=
  match o_param (fi_opts fi) with [] => [] | p => p ++ [equals] end.

Section Defs.
Variables (cb : callbacks) (sv : sval).
Definition kt (f : finfo) : bytes := keyed_text cb f sv.
Definition pr (f : finfo) : bool := present f sv.

Definition sep (prev : option finfo) (f : finfo) : bytes :=
  match prev with
  | Some p => if f_inline p then [] else if f_group p && f_group f then [comma] else [dollar]
  | None => []
  end.

Fixpoint emit (fs : list finfo) (prev : option finfo) : bytes :=
  match fs with
  | [] => []
  | f :: r => if pr f then sep prev f ++ kt f ++ emit r (Some f) else emit r prev
  end.

(* parser-state form: [g] the texts of the pending group, [cur] the text of the pending value *)
Fixpoint mfrA (fs : list finfo) (prev : option finfo) (g : option (list bytes)) (cur : bytes) : list tfrag :=
  match fs with
  | [] => match cur with
          | [] => match g with Some l => [TG l] | None => [] end
          | _ => [closeT g cur]
          end
  | f :: r =>
    if pr f then
      match prev with
      | None => mfrA r (Some f) g (cur ++ kt f)
      | Some p => if f_inline p then mfrA r (Some f) g (cur ++ kt f)
                  else if f_group p && f_group f then mfrA r (Some f) (Some (glT g ++ [cur])) (kt f)
                  else closeT g cur :: mfrA r (Some f) None (kt f)
      end
    else mfrA r prev g cur
  end.

Definition F (fs : list finfo) : list tfrag := mfrA fs None None [].

Lemma F_absent f r : pr f = false -> F (f :: r) = F r.
Proof. intros H. unfold F. cbn [mfrA]. rewrite H. reflexivity. Qed.
Lemma F_present f r : pr f = true -> F (f :: r) = mfrA r (Some f) None (kt f).
Proof. intros H. unfold F. cbn [mfrA]. rewrite H. reflexivity. Qed.

(* number of present optional non-group fields *)
Fixpoint nopt (fs : list finfo) : Z :=
  match fs with
  | [] => 0
  | f :: r => (if f_omit f && negb (f_group f) && pr f then 1 else 0) + nopt r
  end.
Lemma nopt_nonneg fs : 0 <= nopt fs.
Proof. induction fs as [|f r IH]; cbn [nopt]. lia. destruct (f_omit f && negb (f_group f) && pr f); lia. Qed.

Definition haspr (fs : list finfo) : bool := existsb pr fs.

(* the first present field is not a group member *)
Fixpoint nogrp_first (fs : list finfo) : bool :=
  match fs with
  | [] => true
  | f :: r => negb (f_group f) && (pr f || nogrp_first r)
  end.

Fixpoint takeW (fs : list finfo) : list finfo :=
  match fs with [] => [] | f :: r => if f_group f then f :: takeW r else [] end.
Fixpoint dropW (fs : list finfo) : list finfo :=
  match fs with [] => [] | f :: r => if f_group f then dropW r else fs end.
Lemma takeW_dropW fs : fs = takeW fs ++ dropW fs.
Proof. induction fs as [|f r IH]; cbn; auto. destruct (f_group f); cbn; congruence. Qed.

(* what the class says about one present field *)
Definition fld_ok (f : finfo) : Prop :=
  exists s, text_of cb f sv = Some s /\ clean s = true /\ clean (o_param (fi_opts f)) = true /\
            exists v, convert cb NValue 0 f s = Ok v /\ fval_eqb v (value_of f sv) = true.
Definition flds_ok (fs : list finfo) : Prop := forall f, In f fs -> pr f = true -> fld_ok f.

Lemma kt_eq f s : text_of cb f sv = Some s -> kt f = keyof f ++ s.
Proof. intros H. unfold kt, keyed_text, keyof. rewrite H. reflexivity. Qed.

Lemma fld_ok_noeq_text f s : fld_ok f -> text_of cb f sv = Some s -> noeq s.
Proof. intros (s' & H1 & H2 & _) H. rewrite H in H1. inversion H1; subst. apply clean_noeq; auto. Qed.

Lemma kt_positional_noeq f : fld_ok f -> has_param f = false -> noeq (kt f).
Proof.
  intros (s & H1 & H2 & _) Hp. rewrite (kt_eq f s H1). unfold keyof.
  unfold has_param in Hp. destruct (o_param (fi_opts f)); [|discriminate]. cbn. apply clean_noeq; auto.
Qed.

(* the key of a field with another param does not match a present field's text *)
Lemma key_kt p f : fld_ok f -> p <> o_param (fi_opts f) -> has_prefix (p ++ [equals]) (kt f) = false.
Proof.
  intros (s & H1 & H2 & H3 & _) Hne. rewrite (kt_eq f s H1). unfold keyof.
  destruct (o_param (fi_opts f)) as [|c q] eqn:Eq.
  - cbn [app]. apply key_noeq. apply clean_noeq; auto.
  - rewrite <- app_assoc. apply key_other; auto; apply clean_noeq; auto.
Qed.

Lemma kt_own_key f : has_prefix (keyof f) (kt f) = true.
Proof. unfold kt, keyed_text, keyof. apply has_prefix_app. Qed.

End Defs.
