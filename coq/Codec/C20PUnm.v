(* C20 converse direction, part 6: what an accepted string looks like: every value text of its parse tree was
   handed to exactly one field (or cut up between an inline field and its successors). *)
Require Import GC.Base.Bytes GC.Base.CaseLib GC.Codec.Types GC.Codec.Strconv GC.Codec.TypeInfo GC.Codec.Marshal
               GC.Codec.Unmarshal GC.Codec.Codec GC.Codec.Class GC.Codec.ClassPBase GC.Codec.ClassPRender
               GC.Codec.ClassPFrag GC.Codec.ClassPStep GC.Codec.ClassPLoop GC.Codec.C20PBase GC.Codec.C20PStep
               GC.Codec.C20PLoop.
Require Import GC.Parse.ParseModel GC.Parse.ParseSpec GC.Parse.ParseProofs.
Require Import Coq.Sorting.Permutation.
Arguments Z.add : simpl never. Arguments Z.sub : simpl never. Arguments Z.of_nat : simpl never.
Arguments Z.leb : simpl never. Arguments Z.ltb : simpl never.

Lemma ftexts_nodes : forall l, flat_map ftexts (map ufrag_of l) = map snd (flat_map values_of l).
Proof.
  induction l as [|f l IH]; [reflexivity|]. cbn [map flat_map]. rewrite map_app, IH. f_equal.
  destruct f as [v|vs]; cbn [ufrag_of ftexts values_of map unode_of n_text]. reflexivity.
  rewrite map_map. apply map_ext. reflexivity.
Qed.

Lemma frags_nd s t : parse s = POk t ->
  forall fr, In fr (map ufrag_of (frags t)) -> forall x, In x (ftexts fr) -> no_delim x.
Proof.
  intros H fr Hfr x Hx. apply parse_groups in H. unfold groups_ok in H. rewrite Forall_forall in H.
  apply in_map_iff in Hfr. destruct Hfr as (f0 & <- & Hf0). specialize (H f0 Hf0).
  destruct f0 as [v|vs]; cbn [ufrag_of ftexts frag_ok] in *.
  - destruct Hx as [<-|[]]. tauto.
  - destruct H as [_ H]. rewrite Forall_forall in H. rewrite map_map in Hx.
    apply in_map_iff in Hx. destruct Hx as (v & <- & Hv). apply (H v Hv).
Qed.

Lemma params_noeq_pnoeq ti : params_noeq ti = true -> pnoeq (ti_fields ti).
Proof.
  unfold params_noeq, pnoeq. rewrite forallb_forall. intros H h Hh. apply noeq_mem.
  specialize (H h Hh). apply negb_true_iff in H. exact H.
Qed.

(* what the prefix part of unmarshal_tree did *)
Definition prefix_fact (cb : callbacks) (ti : tinfo) (t : tree) (out0 : list (list nat * fval)) : Prop :=
  match ti_prefix ti, prefix t with
  | Some p, Some ptxt => exists v, convert cb NValue 0 p ptxt = Ok v /\ out0 = [(fi_index p, v)]
  | Some p, None => o_omit (fi_opts p) = true /\ out0 = []
  | None, None => out0 = []
  | None, Some _ => False
  end.

Theorem unmarshal_analysis cb ti s m :
  unambiguous ti = true -> params_noeq ti = true -> unmarshal cb ti s = Ok m ->
  exists t sts D out0,
    parse s = POk t /\ map fst sts = ti_fields ti /\ Forall (st_ok cb) sts /\
    chunk_st sts = (D, None) /\ Permutation (map snd (nodes t)) D /\
    m = result_value ti (rev (outs sts) ++ out0) /\ prefix_fact cb ti t out0 /\
    (forall f r, ti_fields ti = f :: r -> f_group f = false -> f_omit f = false ->
       exists t1 v1 u rest' fr0 frs, sts = (f, Some (t1, v1)) :: rest' /\ frags t = fr0 :: frs /\
         (exists n0, fr0 = FV n0 /\ snd n0 = keyof f ++ t1 ++ u) /\ (f_inline f = false -> u = [])).
Proof.
  intros Hun Hpe Hu.
  unfold unambiguous in Hun. rewrite !andb_true_iff in Hun.
  destruct Hun as ((((Hupre & Hne) & Hshapes) & Hgso) & Hnodup).
  unfold unmarshal in Hu. destruct (parse s) as [t| |] eqn:Hparse; try discriminate.
  unfold unmarshal_tree in Hu. cbv zeta in Hu.
  match type of Hu with bind ?p _ = _ => destruct p as [out0| |] eqn:Epre end; cbn [bind] in Hu; try discriminate.
  assert (Hpf : prefix_fact cb ti t out0).
  { unfold prefix_fact. destruct (ti_prefix ti) as [p|], (prefix t) as [ptxt|].
    - rewrite !andb_true_iff in Hupre. destruct Hupre as ((Hemb & Hlen) & Hpar).
      apply negb_true_iff in Hlen.
      destruct (assign cb NPrefix (prefix_end ptxt) ptxt p) as [[v rest]| |] eqn:Ea; try discriminate.
      destruct (fi_embptr p); [|discriminate]. inversion Epre; subst out0.
      destruct (assign_inv _ _ _ _ _ _ _ Ea) as [(_ & Hc & _)|(X & _)]; [|congruence].
      unfold key_trim in Hc. destruct (o_param (fi_opts p)); [|discriminate].
      exists v. split; [eapply convert_ok_indep; eauto|reflexivity].
    - destruct (o_omit (fi_opts p)); [|discriminate]. inversion Epre. auto.
    - discriminate.
    - inversion Epre. reflexivity. }
  clear Epre.
  set (frags0 := map ufrag_of (frags t)) in *.
  set (s0 := {| u_frags := frags0; u_idx := 0; u_nv := Z.of_nat (length (frags t));
                u_nr := ti_numreq ti; u_group := None; u_ngv := 0; u_greq := false; u_out := out0 |}) in *.
  destruct (run_fields cb (length s) (ti_fields ti) s0) as [s'| |] eqn:Erun; try discriminate.
  destruct (ti_fields ti) as [|f r] eqn:Efs; [discriminate|].
  assert (HI0 : Inv cb frags0 out0 (f :: r) s0 []).
  { split; [reflexivity|]. split; [constructor|]. left. split; [reflexivity|].
    exists [], None. split; [reflexivity|]. split; [apply Permutation_refl|]. split; [reflexivity|].
    exists false, false. exact Hgso. }
  assert (Hpe' : pnoeq (f :: r)) by (rewrite <- Efs; apply params_noeq_pnoeq; exact Hpe).
  destruct (run_inv_head cb (length s) frags0 out0 (frags_nd s t Hparse) f r s0 s' Hshapes Hnodup
              Hpe' HI0 eq_refl Erun) as (sts & Ests & HI' & Hhead).
  assert (Hfin : match u_group s' with
                 | Some g => u_ngv s' <= 0 /\ nth_error (u_frags s') (S (u_idx s')) = None
                 | None => nth_error (u_frags s') (u_idx s') = None
                 end /\ m = result_value ti (u_out s')).
  { destruct (u_group s') as [g|].
    - destruct (0 <? u_ngv s') eqn:En; cbn [bind] in Hu; [discriminate|].
      destruct (nth_error (u_frags s') (S (u_idx s'))); [discriminate|]. inversion Hu.
      apply Z.ltb_ge in En. auto.
    - cbn [bind] in Hu. destruct (nth_error (u_frags s') (u_idx s')); [discriminate|]. inversion Hu. auto. }
  destruct Hfin as [Hfin Hm].
  destruct (final_inv cb frags0 out0 s' sts HI' Hfin) as (D & HD & HPerm).
  destruct HI' as (Hout & Hst & _).
  exists t, sts, D, out0. split; [reflexivity|]. split; [exact Ests|]. split; [exact Hst|]. split; [exact HD|].
  split. { unfold frags0 in HPerm. rewrite ftexts_nodes in HPerm. exact HPerm. }
  split; [rewrite <- Hout; exact Hm|]. split; [exact Hpf|].
  intros f' r' E Hgf Hom. inversion E; subst f' r'.
  destruct (Hhead Hgf Hom) as (t1 & v1 & u & rest' & E1 & (n0 & Hn0 & Hn1) & Hu1).
  cbn [u_idx s0] in Hn0. unfold frags0 in Hn0.
  destruct (frags t) as [|fr0 frs]; [discriminate|]. cbn [map nth_error] in Hn0.
  exists t1, v1, u, rest', fr0, frs. split; [exact E1|]. split; [reflexivity|]. split; [|exact Hu1].
  destruct fr0 as [v0|vs]; cbn [ufrag_of] in Hn0; [|discriminate]. inversion Hn0; subst n0.
  exists v0. split; [reflexivity|exact Hn1].
Qed.
