(* C20 converse direction, part 3: the field loop of Unmarshal consumes every value text of the parse tree:
   the texts of the tree are, up to order, the chunks formed by the texts the loop assigned to fields. *)
Require Import GC.Base.Bytes GC.Codec.Types GC.Codec.Strconv GC.Codec.TypeInfo GC.Codec.Marshal
               GC.Codec.Unmarshal GC.Codec.Codec GC.Codec.Class GC.Codec.ClassPBase GC.Codec.ClassPRender
               GC.Codec.ClassPFrag GC.Codec.ClassPStep GC.Codec.ClassPLoop GC.Codec.C20PBase GC.Codec.C20PStep.
Require Import GC.Parse.ParseModel GC.Parse.ParseSpec GC.Parse.ParseProofs.
Require Import Coq.Sorting.Permutation.
Arguments Z.add : simpl never. Arguments Z.sub : simpl never. Arguments Z.of_nat : simpl never.
Arguments Z.leb : simpl never. Arguments Z.ltb : simpl never.

(* ---------- lists ---------- *)
Lemma nth_skipn_cons {A} (l : list A) i y : nth_error l i = Some y -> skipn i l = y :: skipn (S i) l.
Proof.
  rewrite nth_error_hd_skipn, skipn_S_tl. destruct (skipn i l); cbn; intros H; inversion H. reflexivity.
Qed.
Lemma firstn_S_nth {A} (l : list A) : forall i y, nth_error l i = Some y -> firstn (S i) l = firstn i l ++ [y].
Proof.
  induction l as [|x l IH]; intros [|i] y H; cbn in H; try discriminate.
  - inversion H. reflexivity.
  - cbn [firstn app]. f_equal. apply IH. exact H.
Qed.
Lemma skipn_eq_nth {A} (l l' : list A) i : skipn i l = skipn i l' -> nth_error l i = nth_error l' i.
Proof. intros H. rewrite !nth_error_hd_skipn, H. reflexivity. Qed.
Lemma skipn_eq_S {A} (l l' : list A) i : skipn i l = skipn i l' -> skipn (S i) l = skipn (S i) l'.
Proof. intros H. rewrite !skipn_S_tl, H. reflexivity. Qed.
Lemma set_frag_nth l i y x : nth_error l i = Some y ->
  nth_error (set_frag l i x) i = Some x /\ skipn (S i) (set_frag l i x) = skipn (S i) l.
Proof.
  intros H. apply nth_skipn_cons in H.
  pose proof (skipn_set_frag l i x y _ H) as E. split.
  - rewrite nth_error_hd_skipn, E. reflexivity.
  - rewrite skipn_S_tl, E. reflexivity.
Qed.

Lemma find_member_inv key : forall ns before b n a,
  find_member key before ns = Some (b, n, a) ->
  has_prefix key (n_text n) = true /\ exists a0, ns = a0 ++ n :: a /\ b = before ++ a0.
Proof.
  induction ns as [|x ns IH]; intros before b n a H; cbn [find_member] in H. discriminate.
  destruct (has_prefix key (n_text x)) eqn:E.
  - inversion H; subst. split; [exact E|]. exists []. split; [reflexivity|]. rewrite app_nil_r. reflexivity.
  - apply IH in H. destruct H as (H1 & a0 & -> & ->). split; [exact H1|].
    exists (x :: a0). split; [reflexivity|]. rewrite <- app_assoc. reflexivity.
Qed.

(* ---------- the record of what the loop did ---------- *)
(* per field, in field order: the text handed to the conversion and the value it gave, or nothing *)
Definition fstat := (finfo * option (bytes * fval))%type.
Definition aitem (x : fstat) : list item :=
  match x with (f, Some (t, _)) => [(f_inline f, keyof f ++ t)] | (_, None) => [] end.
Definition aitems (l : list fstat) : list item := flat_map aitem l.
Definition aout (x : fstat) : list (list nat * fval) :=
  match x with (f, Some (_, v)) => [(fi_index f, v)] | (_, None) => [] end.
Definition outs (l : list fstat) : list (list nat * fval) := flat_map aout l.
Definition st_ok (cb : callbacks) (x : fstat) : Prop :=
  match x with
  | (f, Some (t, v)) => convert cb NValue 0 f t = Ok v /\ len_ok f t /\ no_delim (keyof f ++ t) /\ fi_embptr f = []
  | (f, None) => f_omit f = true
  end.
Definition ftexts (fr : ufrag) : list bytes := match fr with UV n => [n_text n] | UG ns => map n_text ns end.
Definition chunk_st (sts : list fstat) : cstate := fold_left cstep (aitems sts) ([], None).
Definition pnoeq (fs : list finfo) : Prop := forall h, In h fs -> noeq (o_param (fi_opts h)).

Lemma aitems_snoc sts x : aitems (sts ++ [x]) = aitems sts ++ aitem x.
Proof. unfold aitems. rewrite flat_map_app. cbn [flat_map]. rewrite app_nil_r. reflexivity. Qed.
Lemma outs_snoc sts x : outs (sts ++ [x]) = outs sts ++ aout x.
Proof. unfold outs. rewrite flat_map_app. cbn [flat_map]. rewrite app_nil_r. reflexivity. Qed.
Lemma chunk_st_none sts f : chunk_st (sts ++ [(f, None)]) = chunk_st sts.
Proof. unfold chunk_st. rewrite aitems_snoc. cbn [aitem]. rewrite app_nil_r. reflexivity. Qed.
Lemma chunk_st_some sts f t v :
  chunk_st (sts ++ [(f, Some (t, v))]) = cstep (chunk_st sts) (f_inline f, keyof f ++ t).
Proof. unfold chunk_st. rewrite aitems_snoc. cbn [aitem]. rewrite fold_left_app. reflexivity. Qed.

Section Loop.
Variables (cb : callbacks) (hl : nat) (frags0 : list ufrag) (out0 : list (list nat * fval)).
Hypothesis Hnd : forall fr, In fr frags0 -> forall t, In t (ftexts fr) -> no_delim t.

Definition PM (rest : list finfo) (s : ust) (sts : list fstat) : Prop :=
  u_group s = None /\
  exists done pend, chunk_st sts = (done, pend) /\
    Permutation (flat_map ftexts (firstn (u_idx s) frags0)) done /\
    match pend with
    | None => skipn (u_idx s) (u_frags s) = skipn (u_idx s) frags0
    | Some pd =>
      (exists n0 n, nth_error frags0 (u_idx s) = Some (UV n0) /\ nth_error (u_frags s) (u_idx s) = Some (UV n) /\
                    n_text n0 = pd ++ n_text n /\
                    skipn (S (u_idx s)) (u_frags s) = skipn (S (u_idx s)) frags0)
      /\ (exists nx r', rest = nx :: r' /\ positional nx = true /\ f_omit nx = false)
    end /\
    exists b pi, groups_shape_ok rest b 0 pi = true.

Definition GM (rest : list finfo) (s : ust) (sts : list fstat) : Prop :=
  exists g A U inrun done,
    u_group s = Some g /\ nth_error frags0 (u_idx s) = Some (UG g) /\
    skipn (u_idx s) (u_frags s) = skipn (u_idx s) frags0 /\
    chunk_st sts = (done ++ A, None) /\
    Permutation (flat_map ftexts (firstn (u_idx s) frags0)) done /\
    Permutation (map n_text g) (A ++ U) /\ Z.of_nat (length U) = u_ngv s /\
    (forall a, In a A -> nocoll rest a) /\
    (1 <= inrun)%nat /\ groups_shape_ok rest true inrun false = true.

Definition Inv (rest : list finfo) (s : ust) (sts : list fstat) : Prop :=
  u_out s = rev (outs sts) ++ out0 /\ Forall (st_ok cb) sts /\ (PM rest s sts \/ GM rest s sts).

Lemma flat_firstn_S i fr : nth_error frags0 i = Some fr ->
  flat_map ftexts (firstn (S i) frags0) = flat_map ftexts (firstn i frags0) ++ ftexts fr.
Proof. intros H. rewrite (firstn_S_nth _ _ _ H), flat_map_app. cbn [flat_map]. rewrite app_nil_r. reflexivity. Qed.

Lemma nth_nd i fr : nth_error frags0 i = Some fr -> forall t, In t (ftexts fr) -> no_delim t.
Proof. intros H. apply Hnd. eapply nth_error_In; eauto. Qed.

(* closing a group run *)
Lemma closed_inv f r s sts sc :
  Inv (f :: r) s sts -> closed_of f s = Next sc ->
  Inv (f :: r) sc sts /\ (u_group sc = None \/ f_group f = true).
Proof.
  intros (Hout & Hst & Hmode) Hc. apply closed_of_inv in Hc. destruct Hc as [[-> Hg]|Hc].
  - split; [|exact Hg]. split; [exact Hout|]. split; [exact Hst|exact Hmode].
  - destruct Hc as (g & Eg & Ef & Hn & E1 & E2 & E3 & E4).
    split; [|left; exact E3]. split; [rewrite E4; exact Hout|]. split; [exact Hst|]. left.
    destruct Hmode as [[Hg0 _]|HG]; [congruence|].
    destruct HG as (g' & A & U & inrun & done & G1 & G2 & G3 & G4 & G5 & G6 & G7 & G8 & G9 & G10).
    assert (g' = g) by congruence. subst g'.
    assert (U = []). { destruct U; [reflexivity|]. cbn [length] in G7. lia. }
    subst U. rewrite app_nil_r in G6.
    split; [exact E3|]. exists (done ++ A), None. split; [exact G4|]. rewrite E2. split.
    + rewrite (flat_firstn_S _ _ G2). cbn [ftexts]. apply Permutation_app; assumption.
    + split.
      * rewrite E1. apply skipn_eq_S. exact G3.
      * exists true, false.
        cbn [groups_shape_ok] in G10 |- *. rewrite Ef in G10 |- *.
        apply andb_true_iff in G10. destruct G10 as [_ G10].
        cbn [Nat.eqb]. cbn [negb andb]. exact G10.
Qed.

Lemma Inv_core r s s1 sts : core_eq s s1 -> Inv r s sts -> Inv r s1 sts.
Proof.
  intros (E1 & E2 & E3 & E4 & E5) (Hout & Hst & Hmode). split; [rewrite E5; exact Hout|]. split; [exact Hst|].
  unfold PM, GM in *. rewrite E1, E2, E3, E4. exact Hmode.
Qed.

(* dropping an optional field that took nothing *)
Lemma Inv_skip f r s sts :
  shapes_ok (f :: r) = true -> f_omit f = true -> (u_group s = None \/ f_group f = true) ->
  Inv (f :: r) s sts -> Inv r s (sts ++ [(f, None)]).
Proof.
  intros Hsh Hom Hgf (Hout & Hst & Hmode). split.
  { rewrite outs_snoc. cbn [aout]. rewrite app_nil_r. exact Hout. }
  split. { apply Forall_app. split; [exact Hst|]. constructor; [exact Hom|constructor]. }
  destruct Hmode as [HP|HG].
  - left. destruct HP as (Hg0 & done & pend & C1 & C2 & C3 & b & pi & C4).
    assert (Hng : f_group f = false).
    { destruct (f_group f) eqn:E; auto. destruct (gso_first _ _ _ _ C4 E) as (_ & X & _). congruence. }
    split; [exact Hg0|]. exists done, pend. rewrite chunk_st_none. split; [exact C1|]. split; [exact C2|].
    destruct (gso_plain _ _ _ _ _ C4 Hng) as [_ C5]. split; [|eauto].
    destruct pend as [pd|]; [|exact C3].
    destruct C3 as (_ & nx & r' & E & _ & X). inversion E; subst. congruence.
  - right. destruct HG as (g & A & U & inrun & done & G1 & G2 & G3 & G4 & G5 & G6 & G7 & G8 & G9 & G10).
    assert (Hgf' : f_group f = true). { destruct Hgf as [X|X]; [congruence|exact X]. }
    exists g, A, U, (S inrun), done. rewrite chunk_st_none.
    repeat (split; [assumption|]). split.
    + intros a Ha h Hh. apply (G8 a Ha). right. exact Hh.
    + split; [lia|]. apply (gso_member f); auto.
Qed.

Lemma keyof_prefix_nd f t u : no_delim (keyof f ++ t ++ u) -> no_delim (keyof f ++ t).
Proof. rewrite !no_delim_app. tauto. Qed.


Lemma out_snoc s s1 sts f t v :
  u_out s = rev (outs sts) ++ out0 -> u_out s1 = (fi_index f, v) :: u_out s ->
  u_out s1 = rev (outs (sts ++ [(f, Some (t, v))])) ++ out0.
Proof. intros H H1. rewrite H1, H, outs_snoc. cbn [aout]. rewrite rev_app_distr. reflexivity. Qed.

(* when nothing is pending, the text a plain field takes is the front of the value fragment at the cursor *)
Definition headfact (f : finfo) (s : ust) (sts : list fstat) (x : fstat) : Prop :=
  forall done, chunk_st sts = (done, None) ->
  exists t v u, x = (f, Some (t, v)) /\
    (exists n0, nth_error frags0 (u_idx s) = Some (UV n0) /\ n_text n0 = keyof f ++ t ++ u) /\
    (f_inline f = false -> u = []).

(* a plain (non-group) field takes the value fragment in front of it, or its first bytes (inline) *)
Lemma PHit0 f r s sts s1 n v rest :
  shapes_ok (f :: r) = true -> Inv (f :: r) s sts -> u_group s = None -> f_group f = false ->
  nth_error (u_frags s) (u_idx s) = Some (UV n) ->
  match o_param (fi_opts f) with [] => true | p => has_prefix (p ++ [equals]) (n_text n) end = true ->
  assign cb NValue (n_end n) (n_text n) f = Ok (v, rest) -> fi_embptr f = [] ->
  u_frags s1 = match rest with
               | Some t => set_frag (u_frags s) (u_idx s) (UV {| n_end := n_end n; n_text := t |})
               | None => u_frags s
               end ->
  u_idx s1 = (if f_inline f then u_idx s else S (u_idx s)) ->
  u_out s1 = (fi_index f, v) :: u_out s -> u_group s1 = u_group s -> u_ngv s1 = u_ngv s ->
  exists x, fst x = f /\ Inv r s1 (sts ++ [x]) /\ headfact f s sts x.
Proof.
  intros Hsh (Hout & Hst & Hmode) Hg0 Hgf Hnth Hmatch Hasg Hemb E1 E2 E3 E4 E5.
  apply shapes_cons in Hsh. destruct Hsh as [Hf Hsr].
  destruct Hmode as [HP|HG]; [|destruct HG as (g & A & U & inrun & done & G1 & _); congruence].
  destruct HP as (_ & done & pend & C1 & C2 & C3 & b & pi & C4).
  destruct (gso_plain _ _ _ _ _ C4 Hgf) as [_ C5].
  pose proof (key_trim_eq f _ Hmatch) as Etext. pose proof (assign_inv _ _ _ _ _ _ _ Hasg) as Hai.
  set (t0 := key_trim f (n_text n)) in *.
  assert (Hndn : no_delim (n_text n)).
  { destruct pend as [pd|].
    - destruct C3 as ((n0 & n' & N1 & N2 & N3 & _) & _).
      assert (n' = n) by congruence. subst n'.
      pose proof (nth_nd _ _ N1 (n_text n0) (or_introl eq_refl)) as X. rewrite N3 in X.
      apply no_delim_app in X. tauto.
    - rewrite (skipn_eq_nth _ _ _ C3) in Hnth. apply (nth_nd _ _ Hnth). left. reflexivity. }
  destruct Hai as [(-> & Hconv & Hlen & Hhi)|(Hl & Hi & Hle & -> & Hconv)].
  - (* the whole text *)
    assert (Hni : f_inline f = false).
    { destruct (f_inline f) eqn:E; auto. destruct (sf_inline _ _ Hf E) as (X & _).
      unfold f_inline in E. rewrite X, E in Hhi. discriminate. }
    rewrite Hni in E2.
    exists (f, Some (t0, v)). split; [reflexivity|]. split.
    2:{ intros done' Hd'. rewrite C1 in Hd'. inversion Hd'; subst done' pend.
        exists t0, v, []. split; [reflexivity|]. split; [|reflexivity].
        exists n. split; [rewrite <- (skipn_eq_nth _ _ _ C3); exact Hnth|]. rewrite app_nil_r. exact Etext. }
    split; [eapply out_snoc; eauto|]. split.
    { apply Forall_app. split; [exact Hst|]. constructor; [|constructor]. cbn [st_ok].
      split; [eapply convert_ok_indep; eauto|]. split; [exact Hlen|]. split; [rewrite <- Etext; exact Hndn|exact Hemb]. }
    left. split; [congruence|].
    exists (done ++ [ptext pend ++ n_text n]), None. rewrite chunk_st_some, C1, <- Etext, Hni.
    split; [reflexivity|]. rewrite E2, E1. split; [|split; [|eauto]].
    + destruct pend as [pd|].
      * destruct C3 as ((n0 & n' & N1 & N2 & N3 & _) & _).
        assert (n' = n) by congruence. subst n'.
        rewrite (flat_firstn_S _ _ N1). cbn [ftexts ptext]. rewrite N3. apply Permutation_app; auto.
      * rewrite (skipn_eq_nth _ _ _ C3) in Hnth.
        rewrite (flat_firstn_S _ _ Hnth). cbn [ftexts ptext app]. apply Permutation_app; auto.
    + destruct pend as [pd|].
      * destruct C3 as ((n0 & n' & N1 & N2 & N3 & N4) & _). exact N4.
      * apply skipn_eq_S. exact C3.
  - (* inline: the first bytes *)
    assert (Hi' : f_inline f = true) by exact Hi.
    destruct (sf_inline _ _ Hf Hi') as (_ & Hpos & _ & Hnp & nx & Enx & Hnxp & Hnxo).
    rewrite Hi' in E2.
    assert (Hk : keyof f = []).
    { unfold keyof. unfold has_param in Hnp. destruct (o_param (fi_opts f)); [reflexivity|discriminate]. }
    rewrite Hk in Etext. cbn [app] in Etext.
    set (L := Z.to_nat (o_len (fi_opts f))) in *.
    assert (HL : (L <= length t0)%nat) by (unfold L; lia).
    assert (Esplit : n_text n = firstn L t0 ++ skipn L t0) by (rewrite firstn_skipn; exact Etext).
    exists (f, Some (firstn L t0, v)). split; [reflexivity|]. split.
    2:{ intros done' Hd'. rewrite C1 in Hd'. inversion Hd'; subst done' pend.
        exists (firstn L t0), v, (skipn L t0). split; [reflexivity|]. split; [|intros X; congruence].
        exists n. split; [rewrite <- (skipn_eq_nth _ _ _ C3); exact Hnth|]. rewrite Hk. exact Esplit. }
    split; [eapply out_snoc; eauto|]. split.
    { apply Forall_app. split; [exact Hst|]. constructor; [|constructor]. cbn [st_ok].
      split; [eapply convert_ok_indep; eauto|]. split.
      - intros _. rewrite firstn_length_le by exact HL. unfold L. lia.
      - split; [|exact Hemb]. rewrite Hk. cbn [app]. rewrite Esplit in Hndn. apply no_delim_app in Hndn. tauto. }
    left. split; [congruence|].
    exists done, (Some (ptext pend ++ firstn L t0)). rewrite chunk_st_some, C1, Hk, Hi'.
    split; [reflexivity|]. rewrite E2, E1. split; [exact C2|]. split; [|eauto].
    destruct (set_frag_nth (u_frags s) (u_idx s) (UV n) (UV {| n_end := n_end n; n_text := skipn L t0 |}) Hnth)
      as [S1 S2].
    split.
    + destruct pend as [pd|].
      * destruct C3 as ((n0 & n' & N1 & N2 & N3 & N4) & _).
        assert (n' = n) by congruence. subst n'.
        exists n0, {| n_end := n_end n; n_text := skipn L t0 |}. split; [exact N1|]. split; [exact S1|].
        split; [|rewrite S2; exact N4].
        cbn [ptext n_text]. rewrite N3, Esplit, <- app_assoc. reflexivity.
      * exists n, {| n_end := n_end n; n_text := skipn L t0 |}.
        split; [rewrite <- (skipn_eq_nth _ _ _ C3); exact Hnth|]. split; [exact S1|].
        split; [cbn [ptext n_text app]; exact Esplit|]. rewrite S2. apply skipn_eq_S. exact C3.
    + destruct r as [|nx' r']; [discriminate|]. cbn [hd_error] in Enx. inversion Enx; subst nx'.
      exists nx, r'. auto.
Qed.

Lemma PHit f r s sts s1 n v rest :
  shapes_ok (f :: r) = true -> Inv (f :: r) s sts -> u_group s = None -> f_group f = false ->
  nth_error (u_frags s) (u_idx s) = Some (UV n) ->
  match o_param (fi_opts f) with [] => true | p => has_prefix (p ++ [equals]) (n_text n) end = true ->
  assign cb NValue (n_end n) (n_text n) f = Ok (v, rest) -> fi_embptr f = [] ->
  u_frags s1 = match rest with
               | Some t => set_frag (u_frags s) (u_idx s) (UV {| n_end := n_end n; n_text := t |})
               | None => u_frags s
               end ->
  u_idx s1 = (if f_inline f then u_idx s else S (u_idx s)) ->
  u_out s1 = (fi_index f, v) :: u_out s -> u_group s1 = u_group s -> u_ngv s1 = u_ngv s ->
  exists x, fst x = f /\ Inv r s1 (sts ++ [x]).
Proof.
  intros. destruct (PHit0 f r s sts s1 n v rest) as (x & Hx1 & Hx2 & _); auto. eauto.
Qed.

(* a required group member in front of a value fragment whose text carries another key: the loop fails *)
Lemma uv_group_fails m2 r2 s1 g1 n0 :
  f_group m2 = true -> f_omit m2 = false -> u_group s1 = Some g1 ->
  nth_error (u_frags s1) (u_idx s1) = Some (UV n0) ->
  has_prefix (o_param (fi_opts m2) ++ [equals]) (n_text n0) = false ->
  forall s2, run_fields cb hl (m2 :: r2) s1 <> Next s2.
Proof.
  unfold f_group, f_omit. intros Hg Ho Hgr Hnth Hk s2. cbn [run_fields].
  rewrite step_eq. unfold closed_of. rewrite Hgr, Hg. cbn [negb].
  unfold step_main. cbv zeta. rewrite Hnth, Ho, Hg. cbn [andb orb negb find_member]. rewrite Hk.
  discriminate.
Qed.

Lemma nocoll_text f r text :
  pnodup (f :: r) -> pnoeq (f :: r) -> has_param f = true -> has_prefix (keyof f) text = true -> nocoll r text.
Proof.
  intros Hnd' Hne Hpf Hpre h Hh Hph.
  destruct (has_prefix (keyof h) text) eqn:E; auto. exfalso.
  rewrite (keyof_param f Hpf) in Hpre. rewrite (keyof_param h Hph) in E.
  apply (pnodup_head f r Hnd' Hpf h Hh). symmetry.
  eapply keys_same; eauto; apply Hne; [left; reflexivity|right; exact Hh].
Qed.

(* a group member takes the member of the group fragment that carries its key *)
Lemma GHit f r s sts s1 fr before n after v rest :
  shapes_ok (f :: r) = true -> pnodup (f :: r) -> pnoeq (f :: r) ->
  Inv (f :: r) s sts -> f_group f = true ->
  nth_error (u_frags s) (u_idx s) = Some fr ->
  find_member (o_param (fi_opts f) ++ [equals]) [] (fst (gsel fr s)) = Some (before, n, after) ->
  assign cb NValue (n_end n) (n_text n) f = Ok (v, rest) -> fi_embptr f = [] ->
  u_frags s1 = u_frags s -> u_idx s1 = u_idx s -> u_out s1 = (fi_index f, v) :: u_out s ->
  u_group s1 = Some (before ++ upd_node n rest :: after) -> u_ngv s1 = snd (gsel fr s) - 1 ->
  (exists x, fst x = f /\ Inv r s1 (sts ++ [x])) \/ (forall s2, run_fields cb hl r s1 <> Next s2).
Proof.
  intros Hsh Hpn Hpe (Hout & Hst & Hmode) Hgf Hnth Hfm Hasg Hemb E1 E2 E3 E4 E5.
  apply shapes_cons in Hsh. destruct Hsh as [Hf Hsr].
  pose proof (sf_group_param _ _ Hf Hgf) as Hpar.
  assert (Hni : o_inline (fi_opts f) = false).
  { destruct (f_inline f) eqn:E; [|exact E]. destruct (sf_inline _ _ Hf E) as (_ & _ & X & _). congruence. }
  pose proof (assign_inv _ _ _ _ _ _ _ Hasg) as Hai.
  destruct Hai as [(-> & Hconv & Hlen & _)|(_ & Hi & _)]; [|congruence].
  cbn [upd_node] in E4.
  apply find_member_inv in Hfm. destruct Hfm as (Hkey & a0 & Eg & ->). cbn [app] in E4.
  rewrite <- Eg in E4.
  assert (Hkey' : has_prefix (keyof f) (n_text n) = true) by (rewrite (keyof_param f Hpar); exact Hkey).
  assert (Hmatch : match o_param (fi_opts f) with [] => true | p => has_prefix (p ++ [equals]) (n_text n) end = true).
  { unfold has_param in Hpar. destruct (o_param (fi_opts f)); [discriminate|exact Hkey]. }
  pose proof (key_trim_eq f _ Hmatch) as Etext. set (t0 := key_trim f (n_text n)) in *.
  pose proof (nocoll_text f r (n_text n) Hpn Hpe Hpar Hkey') as Hnc.
  assert (Hstx : no_delim (n_text n) -> Forall (st_ok cb) (sts ++ [(f, Some (t0, v))])).
  { intros Hndn. apply Forall_app. split; [exact Hst|]. constructor; [|constructor]. cbn [st_ok].
    split; [eapply convert_ok_indep; eauto|]. split; [exact Hlen|]. split; [rewrite <- Etext; exact Hndn|exact Hemb]. }
  destruct Hmode as [HP|HG].
  - destruct HP as (Hg0 & done & pend & C1 & C2 & C3 & b & pi & C4).
    destruct pend as [pd|].
    { destruct C3 as (_ & nx & r' & E & Hpos & _). inversion E; subst nx r'.
      apply positional_inv in Hpos. destruct Hpos as [_ X]. congruence. }
    destruct (gso_first _ _ _ _ C4 Hgf) as (_ & Hom & C5).
    destruct (gso_second _ C5) as (m2 & r2 & -> & Hg2 & Hom2 & C6).
    pose proof Hnth as Hnth0. rewrite (skipn_eq_nth _ _ _ C3) in Hnth0.
    destruct fr as [n0|ns].
    + (* a value fragment: the next member fails *)
      right. cbn [gsel fst] in Eg.
      assert (n0 = n).
      { destruct a0 as [|x a0]; cbn [app] in Eg; inversion Eg; auto. destruct a0; discriminate. }
      subst n0. apply (uv_group_fails m2 r2 s1 _ n Hg2 Hom2 E4).
      * rewrite E1, E2. exact Hnth.
      * pose proof (shapes_cons _ _ Hsr) as [Hf2 _].
        pose proof (sf_group_param _ _ Hf2 Hg2) as Hpar2.
        rewrite <- (keyof_param m2 Hpar2). apply Hnc; auto. left. reflexivity.
    + left. unfold gsel in Eg, E4, E5. rewrite Hg0 in Eg, E4, E5. cbn [fst snd] in Eg, E4, E5.
      assert (Hndn : no_delim (n_text n)).
      { apply (nth_nd _ _ Hnth0). cbn [ftexts]. apply in_map. rewrite Eg. apply in_or_app. right. left. reflexivity. }
      exists (f, Some (t0, v)). split; [reflexivity|]. split; [eapply out_snoc; eauto|]. split; [auto|].
      right. exists ns, [n_text n], (map n_text (a0 ++ after)), 1%nat, done.
      rewrite chunk_st_some, C1, <- Etext. unfold f_inline. rewrite Hni. rewrite E1, E2.
      split; [exact E4|]. split; [exact Hnth0|]. split; [exact C3|]. split; [reflexivity|]. split; [exact C2|].
      split. { rewrite Eg, !map_app. cbn [map app]. apply Permutation_sym, Permutation_middle. }
      split. { rewrite E5, Eg, map_length, !app_length. cbn [length]. lia. }
      split. { intros a [<-|[]]. exact Hnc. }
      split; [lia|exact C5].
  - destruct HG as (g & A & U & inrun & done & G1 & G2 & G3 & G4 & G5 & G6 & G7 & G8 & G9 & G10).
    pose proof Hnth as Hnth0. rewrite (skipn_eq_nth _ _ _ G3), G2 in Hnth0. inversion Hnth0; subst fr.
    unfold gsel in Eg, E4, E5. rewrite G1 in Eg, E4, E5. cbn [fst snd] in Eg, E4, E5.
    assert (Hin : In (n_text n) (map n_text g)).
    { apply in_map. rewrite Eg. apply in_or_app. right. left. reflexivity. }
    assert (Hndn : no_delim (n_text n)) by (apply (nth_nd _ _ G2); exact Hin).
    assert (HinU : In (n_text n) U).
    { pose proof (Permutation_in _ G6 Hin) as X. apply in_app_or in X. destruct X as [X|X]; [|exact X].
      exfalso. pose proof (G8 _ X f (or_introl eq_refl) Hpar). congruence. }
    apply in_split in HinU. destruct HinU as (U1 & U2 & ->).
    left. exists (f, Some (t0, v)). split; [reflexivity|]. split; [eapply out_snoc; eauto|]. split; [auto|].
    right. exists g, (A ++ [n_text n]), (U1 ++ U2), (S inrun), done.
    rewrite chunk_st_some, G4, <- Etext. unfold f_inline. rewrite Hni. rewrite E1, E2.
    split; [exact E4|]. split; [exact G2|]. split; [exact G3|].
    split. { unfold cstep. cbn [fst snd ptext app]. rewrite <- app_assoc. reflexivity. }
    split; [exact G5|].
    split. { eapply perm_trans; [exact G6|]. rewrite <- app_assoc. apply Permutation_app_head.
             cbn [app]. apply Permutation_sym, Permutation_middle. }
    split. { rewrite E5, <- G7, !app_length. cbn [length]. lia. }
    split. { intros a Ha. apply in_app_or in Ha. destruct Ha as [Ha|[<-|[]]].
             - intros h Hh. apply (G8 a Ha). right. exact Hh.
             - exact Hnc. }
    split; [lia|]. apply (gso_member f); auto.
Qed.


(* an optional group member whose key is not in the group *)
Lemma GMiss f r s sts s1 ns :
  shapes_ok (f :: r) = true -> Inv (f :: r) s sts -> f_omit f = true -> f_group f = true ->
  nth_error (u_frags s) (u_idx s) = Some (UG ns) ->
  u_frags s1 = u_frags s -> u_idx s1 = u_idx s -> u_out s1 = u_out s ->
  u_group s1 = Some (fst (gsel (UG ns) s)) -> u_ngv s1 = snd (gsel (UG ns) s) ->
  Inv r s1 (sts ++ [(f, None)]).
Proof.
  intros Hsh HI Hom Hgf Hnth E1 E2 E3 E4 E5.
  assert (Hgr : exists g, u_group s = Some g).
  { destruct HI as (_ & _ & [HP|HG]).
    - destruct HP as (_ & done & pend & _ & _ & _ & b & pi & C4).
      destruct (gso_first _ _ _ _ C4 Hgf) as (_ & X & _). congruence.
    - destruct HG as (g & A & U & inrun & done & G1 & _). eauto. }
  destruct Hgr as [g Hgr].
  apply (Inv_core r s s1).
  - unfold gsel in E4, E5. rewrite Hgr in E4, E5. cbn [fst snd] in E4, E5.
    unfold core_eq. rewrite Hgr. auto.
  - apply Inv_skip; auto.
Qed.

Lemma step_inv f r s sts s1 :
  shapes_ok (f :: r) = true -> pnodup (f :: r) -> pnoeq (f :: r) ->
  Inv (f :: r) s sts -> step cb hl f s = Next s1 ->
  (exists x, fst x = f /\ Inv r s1 (sts ++ [x])) \/ (forall s2, run_fields cb hl r s1 <> Next s2).
Proof.
  intros Hsh Hpn Hpe HI Hstep. rewrite step_eq in Hstep.
  destruct (closed_of f s) as [sc| |] eqn:Ec; try discriminate.
  destruct (closed_inv f r s sts sc HI Ec) as [HIc Hg].
  apply step_main_inv in Hstep.
  destruct Hstep as [(Hom & Hcore)|[(Hom & Hgf & ns & Hnth & _ & E1 & E2 & E3 & E4 & E5)|[H3|H4]]].
  - left. exists (f, None). split; [reflexivity|].
    apply (Inv_core r sc s1 _ Hcore). apply Inv_skip; auto.
  - left. exists (f, None). split; [reflexivity|]. eapply GMiss; eauto.
  - destruct H3 as (Hgf & fr & before & n & after & v & rest & Hnth & _ & Hfm & Hasg & Hemb & E1 & E2 & E3 & E4 & E5).
    (* a group member of these layouts is never inline: nothing is left behind in the node *)
    assert (Hrest : rest = None).
    { pose proof Hsh as Hsh'. apply shapes_cons in Hsh'. destruct Hsh' as [Hf _].
      assert (Hni : o_inline (fi_opts f) = false).
      { destruct (f_inline f) eqn:E; [|exact E]. destruct (sf_inline _ _ Hf E) as (_ & _ & X & _). congruence. }
      destruct (assign_inv _ _ _ _ _ _ _ Hasg) as [(-> & _)|(_ & Hi & _)]; [reflexivity|congruence]. }
    subst rest.
    assert (E1' : u_frags s1 = u_frags sc) by (rewrite E1; destruct fr; reflexivity).
    eapply GHit; eauto.
  - destruct H4 as (Hgf & n & v & rest & Hnth & Hm & Hasg & Hemb & E1 & E2 & E3 & E4 & E5).
    left. eapply PHit; eauto. destruct Hg as [Hg|Hg]; [exact Hg|congruence].
Qed.

Lemma run_inv : forall rest s sts s',
  shapes_ok rest = true -> pnodup rest -> pnoeq rest -> Inv rest s sts ->
  run_fields cb hl rest s = Next s' ->
  exists sts', map fst sts' = rest /\ Inv [] s' (sts ++ sts').
Proof.
  induction rest as [|f r IH]; intros s sts s' Hsh Hpn Hpe HI Hrun.
  - cbn [run_fields] in Hrun. inversion Hrun; subst. exists []. rewrite app_nil_r. auto.
  - cbn [run_fields] in Hrun. destruct (step cb hl f s) as [s1| |] eqn:Es; try discriminate.
    destruct (step_inv f r s sts s1 Hsh Hpn Hpe HI Es) as [(x & Hx & HI1)|Hfail].
    + destruct (IH s1 (sts ++ [x]) s') as (sts' & E & HI'); auto.
      * eapply shapes_tail; eauto.
      * eapply pnodup_tail; eauto.
      * intros h Hh. apply Hpe. right. exact Hh.
      * exists (x :: sts'). cbn [map]. rewrite Hx, E. split; [reflexivity|].
        rewrite <- app_assoc in HI'. exact HI'.
    + exfalso. eapply Hfail; eauto.
Qed.

(* the first step, when the first field is a required plain field *)
Lemma step_head f r s sts s1 :
  shapes_ok (f :: r) = true -> Inv (f :: r) s sts -> u_group s = None ->
  f_group f = false -> f_omit f = false -> step cb hl f s = Next s1 ->
  exists x, fst x = f /\ Inv r s1 (sts ++ [x]) /\ headfact f s sts x.
Proof.
  intros Hsh HI Hg0 Hgf Hom Hstep. rewrite step_eq, (closed_plain_mode f s Hg0) in Hstep.
  apply step_main_inv in Hstep.
  destruct Hstep as [(X & _)|[(X & _)|[(X & _)|H4]]]; try congruence.
  destruct H4 as (_ & n & v & rest & Hnth & Hm & Hasg & Hemb & E1 & E2 & E3 & E4 & E5).
  eapply PHit0; eauto.
Qed.

Lemma run_inv_head f r s s' :
  shapes_ok (f :: r) = true -> pnodup (f :: r) -> pnoeq (f :: r) -> Inv (f :: r) s [] -> u_group s = None ->
  run_fields cb hl (f :: r) s = Next s' ->
  exists sts, map fst sts = f :: r /\ Inv [] s' sts /\
    (f_group f = false -> f_omit f = false ->
     exists t v u rest', sts = (f, Some (t, v)) :: rest' /\
       (exists n0, nth_error frags0 (u_idx s) = Some (UV n0) /\ n_text n0 = keyof f ++ t ++ u) /\
       (f_inline f = false -> u = [])).
Proof.
  intros Hsh Hpn Hpe HI Hg0 Hrun.
  destruct (f_group f) eqn:Hgf.
  { destruct (run_inv (f :: r) s [] s' Hsh Hpn Hpe HI Hrun) as (sts & E & HI').
    exists sts. split; [exact E|]. split; [exact HI'|]. discriminate. }
  destruct (f_omit f) eqn:Hom.
  { destruct (run_inv (f :: r) s [] s' Hsh Hpn Hpe HI Hrun) as (sts & E & HI').
    exists sts. split; [exact E|]. split; [exact HI'|]. discriminate. }
  cbn [run_fields] in Hrun. destruct (step cb hl f s) as [s1| |] eqn:Es; try discriminate.
  destruct (step_head f r s [] s1 Hsh HI Hg0 Hgf Hom Es) as (x & Hx & HI1 & Hhead).
  destruct (run_inv r s1 ([] ++ [x]) s') as (sts' & E & HI'); auto.
  - eapply shapes_tail; eauto.
  - eapply pnodup_tail; eauto.
  - intros h Hh. apply Hpe. right. exact Hh.
  - exists (x :: sts'). cbn [map]. rewrite Hx, E. split; [reflexivity|]. split; [exact HI'|].
    intros _ _. destruct (Hhead [] eq_refl) as (t & v & u & -> & H2 & H3).
    exists t, v, u, sts'. auto.
Qed.

Lemma nth_none_skipn {A} (l : list A) i : nth_error l i = None -> skipn i l = [].
Proof. rewrite nth_error_hd_skipn. destruct (skipn i l); [reflexivity|discriminate]. Qed.

(* when the loop is over and no fragment is left, every value text has been consumed *)
Lemma final_inv s sts :
  Inv [] s sts ->
  match u_group s with
  | Some g => u_ngv s <= 0 /\ nth_error (u_frags s) (S (u_idx s)) = None
  | None => nth_error (u_frags s) (u_idx s) = None
  end ->
  exists D, chunk_st sts = (D, None) /\ Permutation (flat_map ftexts frags0) D.
Proof.
  intros (_ & _ & [HP|HG]) Hfin.
  - destruct HP as (Hg0 & done & pend & C1 & C2 & C3 & _). rewrite Hg0 in Hfin.
    destruct pend as [pd|].
    { destruct C3 as (_ & nx & r' & E & _). discriminate. }
    exists done. split; [exact C1|].
    apply nth_none_skipn in Hfin. rewrite C3 in Hfin.
    rewrite <- (firstn_skipn (u_idx s) frags0) at 1. rewrite Hfin, app_nil_r. exact C2.
  - destruct HG as (g & A & U & inrun & done & G1 & G2 & G3 & G4 & G5 & G6 & G7 & _).
    rewrite G1 in Hfin. destruct Hfin as [Hn Hfin].
    assert (U = []). { destruct U; [reflexivity|]. cbn [length] in G7. lia. }
    subst U. rewrite app_nil_r in G6.
    exists (done ++ A). split; [exact G4|].
    apply nth_none_skipn in Hfin. rewrite (skipn_eq_S _ _ _ G3) in Hfin.
    rewrite <- (firstn_skipn (S (u_idx s)) frags0) at 1. rewrite Hfin, app_nil_r.
    rewrite (flat_firstn_S _ _ G2). cbn [ftexts]. apply Permutation_app; assumption.
Qed.

End Loop.
