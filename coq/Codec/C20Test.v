(* C20: the full statement and its evaluation by the model on generated cases. *)
Require Import GC.Base.Bytes GC.Base.CaseLib GC.Codec.Types GC.Codec.TypeInfo GC.Codec.Marshal GC.Codec.Unmarshal
               GC.Codec.Codec GC.Codec.Class GC.Codec.Respell GC.Parse.ParseModel.

Definition sval_of (m : list (list nat * fval)) : sval := {| sv_fields := m; sv_embnil := [] |}.

(* a plain integer field with a length: tag is outside: Unmarshal takes "03" for 3, Marshal writes "3" and then
   rejects its own text for having the wrong length (the shipped layouts use a text marshaler there) *)
Definition ints_unsized (ti : tinfo) : bool :=
  forallb (fun fi => match t_kind (fi_type fi), t_mtext (fi_type fi), t_utext (fi_type fi) with
                     | (KInt _ | KUint _), None, None => negb (o_haslen (fi_opts fi))
                     | _, _, _ => true
                     end) (ti_fields ti).

(* the property for layouts in the unambiguous class *)
Definition C20_statement : Prop :=
  forall cb ti s m,
    unambiguous ti = true -> paths_ok ti = true -> numreq_ok ti = true -> ints_unsized ti = true ->
    unmarshal cb ti s = Ok m ->
    exists s', marshal cb ti (sval_of m) = Ok s' /\ respell s s'.

Definition test_c20 (c : list sfield * bytes * obs (list (list nat * fval))) : bool :=
  let '(st, h, _) := c in
  match type_info st with
  | Ok ti =>
    if unambiguous ti && paths_ok ti && ints_unsized ti then
      match unmarshal std_cb ti h with
      | Ok m => match marshal std_cb ti (sval_of m) with
                | Ok s' => respell_b h s'
                | _ => false
                end
      | _ => true
      end
    else true
  | _ => true
  end.
Definition accepted_in_class (c : list sfield * bytes * obs (list (list nat * fval))) : bool :=
  let '(st, h, _) := c in
  match type_info st with
  | Ok ti => unambiguous ti && paths_ok ti && ints_unsized ti && match unmarshal std_cb ti h with Ok _ => true | _ => false end
  | _ => false
  end.
