(* Class round trip, part 8: the assignments made by the field loop give the expected value. *)
Require Import GC.Base.Bytes GC.Codec.Types GC.Codec.Strconv GC.Codec.TypeInfo GC.Codec.Marshal
               GC.Codec.Unmarshal GC.Codec.Codec GC.Codec.Class GC.Codec.ClassPBase GC.Codec.ClassPRender
               GC.Codec.ClassPFrag GC.Codec.ClassPStep GC.Codec.ClassPLoop.
Arguments Z.add : simpl never. Arguments Z.sub : simpl never. Arguments Z.of_nat : simpl never.
Arguments Z.leb : simpl never. Arguments Z.ltb : simpl never.

Lemma fval_eqb_refl v : fval_eqb v v = true.
Proof. destruct v; cbn [fval_eqb]; auto using bytes_eqb_refl, Z.eqb_refl. Qed.

Lemma nodup_paths_inj : forall (l : list finfo) g h,
  nodup_paths (map fi_index l) = true -> In g l -> In h l -> fi_index g = fi_index h -> g = h.
Proof.
  induction l as [|a l IH]; intros g h Hn Hg Hh E. destruct Hg.
  cbn [map nodup_paths] in Hn. apply andb_true_iff in Hn. destruct Hn as [Hn1 Hn2].
  apply negb_true_iff in Hn1.
  assert (Hex : forall x, In x l -> fi_index a = fi_index x -> False).
  { intros x Hx Ex. assert (existsb (path_eqb (fi_index a)) (map fi_index l) = true).
    { apply existsb_exists. exists (fi_index x). split. apply in_map; auto. rewrite Ex. apply path_eqb_refl. }
    congruence. }
  destruct Hg as [<-|Hg], Hh as [<-|Hh]; auto.
  - exfalso. eapply Hex; eauto.
  - exfalso. eapply Hex; eauto.
Qed.

Section A.
Variable sv : sval.

Lemma lookup_outrel : forall L out, outrel sv L out -> forall path,
  match lookup_path path out with
  | Some v => exists g, In g L /\ fi_index g = path /\ fval_eqb v (value_of g sv) = true
  | None => forall g, In g L -> fi_index g <> path
  end.
Proof.
  induction 1 as [|g pv L out [H1 H2] HF IH]; intros path; cbn [lookup_path].
  - intros g [].
  - destruct pv as [q v]. cbn [fst snd] in *. subst q.
    destruct (path_eqb (fi_index g) path) eqn:E.
    + apply path_eqb_eq in E. exists g. split; [left; reflexivity|]. split; assumption.
    + specialize (IH path). destruct (lookup_path path out) as [w|].
      * destruct IH as (h & Hh & Hi & Hv). exists h. split; [right; exact Hh|]. split; assumption.
      * intros h [<-|Hh]; [|apply IH; exact Hh].
        intros Ei. apply path_eqb_eq in Ei. congruence.
Qed.

Lemma Forall2_map_same {A B C} (R : B -> C -> Prop) (f : A -> B) (g : A -> C) l :
  (forall x, In x l -> R (f x) (g x)) -> Forall2 R (map f l) (map g l).
Proof.
  induction l as [|a l IH]; intros H; cbn [map]; constructor.
  - apply H. left; reflexivity.
  - apply IH. intros x Hx. apply H. right; exact Hx.
Qed.

Lemma agree_result ti out Lf :
  paths_ok ti = true -> outrel sv Lf out ->
  (forall g, In g Lf <->
             In g ((match ti_prefix ti with Some p => [p] | None => [] end) ++ ti_fields ti) /\ present g sv = true) ->
  agree (result_value ti out) (expected ti sv).
Proof.
  intros Hp Ho HL. unfold agree, result_value, expected.
  apply Forall2_map_same. intros fi Hfi. cbn [fst snd]. split; [reflexivity|].
  pose proof (lookup_outrel Lf out Ho (fi_index fi)) as Hl.
  destruct (lookup_path (fi_index fi) out) as [v|].
  - destruct Hl as (g & Hg & Hi & Hv). apply HL in Hg. destruct Hg as [Hg Hpg].
    assert (g = fi) by (eapply nodup_paths_inj; eauto). subst g. rewrite Hpg. exact Hv.
  - destruct (present fi sv) eqn:Epf.
    + exfalso. apply (Hl fi); auto. apply HL. split; assumption.
    + apply fval_eqb_refl.
Qed.

End A.
