(* Model of hash/typeinfo.go: getRawTypeInfo (tag grammar, embedding), field (shadowing/conflicts),
   normalize.  Definitions only. *)
Require Import GC.Base.Bytes GC.Codec.Types GC.Codec.Strconv.

Definition hashPrefix_name : bytes := [72;97;115;104;80;114;101;102;105;120].   (* "HashPrefix" *)
Definition s_param : bytes := [112;97;114;97;109;58].          (* "param:" *)
Definition s_omitempty : bytes := [111;109;105;116;101;109;112;116;121].
Definition s_group : bytes := [103;114;111;117;112].
Definition s_length : bytes := [108;101;110;103;116;104;58].   (* "length:" *)
Definition s_inline : bytes := [105;110;108;105;110;101].
Definition s_base : bytes := [98;97;115;101;58].               (* "base:" *)
Definition s_enc : bytes := [101;110;99;58].                   (* "enc:" *)
Definition s_base64 : bytes := [98;97;115;101;54;52].
Definition s_none : bytes := [110;111;110;101].
Definition s_dash : bytes := [45].

(* split a tag at ',' exactly as the loop in getRawTypeInfo does (a trailing comma yields no empty part) *)
Fixpoint split_tag (cur : bytes) (s : bytes) : list bytes :=
  match s with
  | [] => match cur with [] => [] | _ => [rev cur] end
  | c :: r => if c =? comma then rev cur :: split_tag [] r else split_tag (c :: cur) r
  end.
(* note: "a,,b" yields the empty part too, which no case matches; "a," yields [a] because the loop stops
   when the remaining tag is empty — split_tag [] "a," = [a] since cur = [] at the end *)

Definition default_opts : fopts :=
  {| o_prefix := false; o_omit := false; o_group := false; o_param := []; o_enc := EncHash;
     o_len := 0; o_haslen := false; o_inline := false; o_base := 10 |}.

Definition apply_part (o : fopts) (part : bytes) : fopts :=
  if has_prefix s_param part then
    {| o_prefix := o_prefix o; o_omit := o_omit o; o_group := o_group o; o_param := skipn 6 part;
       o_enc := o_enc o; o_len := o_len o; o_haslen := o_haslen o; o_inline := o_inline o; o_base := o_base o |}
  else if bytes_eqb part s_omitempty then
    {| o_prefix := o_prefix o; o_omit := true; o_group := o_group o; o_param := o_param o;
       o_enc := o_enc o; o_len := o_len o; o_haslen := o_haslen o; o_inline := o_inline o; o_base := o_base o |}
  else if bytes_eqb part s_group then
    {| o_prefix := o_prefix o; o_omit := o_omit o; o_group := true; o_param := o_param o;
       o_enc := o_enc o; o_len := o_len o; o_haslen := o_haslen o; o_inline := o_inline o; o_base := o_base o |}
  else if has_prefix s_length part then
    match ParseUint (skipn 7 part) 10 32 with
    | inl v =>
      {| o_prefix := o_prefix o; o_omit := o_omit o; o_group := o_group o; o_param := o_param o;
         o_enc := o_enc o;
         o_len := if negb (o_haslen o) || (v <? o_len o) then v else o_len o;
         o_haslen := true; o_inline := o_inline o; o_base := o_base o |}
    | inr _ => o
    end
  else if bytes_eqb part s_inline then
    {| o_prefix := o_prefix o; o_omit := o_omit o; o_group := o_group o; o_param := o_param o;
       o_enc := o_enc o; o_len := o_len o; o_haslen := o_haslen o; o_inline := true; o_base := o_base o |}
  else if has_prefix s_base part then
    match ParseUint (skipn 5 part) 10 8 with
    | inl v => if (2 <=? v) && (v <=? 36) then
      {| o_prefix := o_prefix o; o_omit := o_omit o; o_group := o_group o; o_param := o_param o;
         o_enc := o_enc o; o_len := o_len o; o_haslen := o_haslen o; o_inline := o_inline o; o_base := v |}
      else o
    | inr _ => o
    end
  else if has_prefix s_enc part then
    let e := skipn 4 part in
    if bytes_eqb e s_base64 then
      {| o_prefix := o_prefix o; o_omit := o_omit o; o_group := o_group o; o_param := o_param o;
         o_enc := EncBase64; o_len := o_len o; o_haslen := o_haslen o; o_inline := o_inline o; o_base := o_base o |}
    else if bytes_eqb e s_none then
      {| o_prefix := o_prefix o; o_omit := o_omit o; o_group := o_group o; o_param := o_param o;
         o_enc := EncNone; o_len := o_len o; o_haslen := o_haslen o; o_inline := o_inline o; o_base := o_base o |}
    else o
  else o.

Definition opts_of (name : bytes) (t : ftype) (tag : bytes) : fopts :=
  let o0 := if bytes_eqb name hashPrefix_name
            then {| o_prefix := true; o_omit := false; o_group := false; o_param := []; o_enc := EncNone;
                    o_len := 0; o_haslen := false; o_inline := false; o_base := 10 |}
            else default_opts in
  let o1 := match t_kind t with
            | KArray n => {| o_prefix := o_prefix o0; o_omit := false; o_group := false; o_param := [];
                             o_enc := o_enc o0; o_len := Z.of_nat n; o_haslen := true; o_inline := false; o_base := 10 |}
            | _ => o0
            end in
  fold_left apply_part (split_tag [] tag) o1.

Definition other_type : ftype := {| t_kind := KOther; t_ptr := 0; t_mtext := None; t_utext := None |}.

(* getRawTypeInfo: one struct field at position i yields zero, one or (embedded struct) several infos *)
Fixpoint raw_field (f : sfield) (i : nat) {struct f} : list finfo :=
  match f with
  | SField name exported anonymous tag _ t =>
    if (negb exported && negb anonymous) || bytes_eqb tag s_dash then []
    else
      let leaf (ft : ftype) :=
        [{| fi_index := [i]; fi_name := name; fi_type := ft; fi_opts := opts_of name ft tag;
            fi_tag := tag; fi_embptr := [] |}] in
      match t with
      | TField ft => leaf ft
      | TStruct p sub =>
        if anonymous then
          let inner := (fix go (l : list sfield) (j : nat) : list finfo :=
                          match l with
                          | [] => []
                          | g :: r => raw_field g j ++ go r (S j)
                          end) sub O in
          map (fun fi => {| fi_index := i :: fi_index fi; fi_name := fi_name fi; fi_type := fi_type fi;
                            fi_opts := fi_opts fi; fi_tag := fi_tag fi;
                            fi_embptr := (if Nat.ltb 0 p then [[i]] else [])
                                         ++ map (fun q => i :: q) (fi_embptr fi) |}) inner
        else leaf {| t_kind := KOther; t_ptr := p; t_mtext := None; t_utext := None |}
      end
  end.

Fixpoint raw_fields (l : list sfield) (j : nat) : list finfo :=
  match l with
  | [] => []
  | g :: r => raw_field g j ++ raw_fields r (S j)
  end.

(* typeInfo.field(param): the fields carrying this param; two at the same embedding depth conflict
   (Field1 = the later one); otherwise the shallowest wins *)
Fixpoint conflict_with (fi : finfo) (seen : list finfo) : option finfo :=
  match seen with
  | [] => None
  | g :: r => if Nat.eqb (length (fi_index fi)) (length (fi_index g)) then Some g else conflict_with fi r
  end.

Fixpoint field_scan (param : bytes) (fs : list finfo) (seen : list finfo) : res (list finfo) :=
  match fs with
  | [] => Ok seen
  | fi :: r =>
    if negb (bytes_eqb (o_param (fi_opts fi)) param) then field_scan param r seen
    else match conflict_with fi seen with
         | Some g => Err (ETagParam (fi_name fi) (fi_name g))
         | None => field_scan param r (seen ++ [fi])
         end
  end.

Fixpoint shallowest (best : finfo) (l : list finfo) : finfo :=
  match l with
  | [] => best
  | g :: r => shallowest (if Nat.ltb (length (fi_index g)) (length (fi_index best)) then g else best) r
  end.

Definition field_of (param : bytes) (fs : list finfo) : res finfo :=
  match field_scan param fs [] with
  | Ok (g :: r) => Ok (shallowest g r)
  | Ok [] => Panic                       (* fields[0] of an empty slice: cannot happen, param comes from fs *)
  | Err e => Err e
  | Panic => Panic
  end.

Definition is_nil_b {A} (l : list A) : bool := match l with [] => true | _ => false end.

Definition tag_valid (o : fopts) : bool :=
  (if o_omit o then negb (o_inline o) else true)
  && (if o_group o then negb (is_nil_b (o_param o)) else true)
  && (if negb (is_nil_b (o_param o)) then negb (o_prefix o) else true)
  && (if o_inline o then negb (o_prefix o) && (0 <? o_len o) else true).

(* NumReqValues, counted over the fields that are kept: one per required plain (non-inline) field and one
   per group run that has a required member *)
Fixpoint count_req (fs : list finfo) (gc : bool) : Z :=
  match fs with
  | [] => 0
  | f :: r =>
    let o := fi_opts f in
    (if negb (o_group o) && negb (o_omit o) && negb (o_inline o) then 1 else 0)
    + (if negb (o_group o) then count_req r false
       else if negb (o_omit o) && negb gc then 1 + count_req r true else count_req r gc)
  end.

(* normalize: the loop state is (prefix, kept fields (in order), params seen) *)
Fixpoint normalize_loop (all : list finfo) (fs : list finfo)
         (pre : option finfo) (kept : list finfo) (params : list bytes) : res tinfo :=
  match fs with
  | [] => Ok {| ti_prefix := pre; ti_fields := kept; ti_numreq := count_req kept false |}
  | f :: r =>
    let o := fi_opts f in
    if negb (tag_valid o) then Err (EInvalidTag (fi_name f))
    else if o_prefix o then normalize_loop all r (Some f) kept params
    else
      match o_param o with
      | [] => normalize_loop all r pre (kept ++ [f]) params
      | p => if existsb (bytes_eqb p) params then normalize_loop all r pre kept params
             else match field_of p all with
                  | Ok fi => normalize_loop all r pre (kept ++ [fi]) (p :: params)
                  | Err e => Err e
                  | Panic => Panic
                  end
      end
  end.

Definition type_info (st : list sfield) : res tinfo :=
  let raw := raw_fields st O in
  normalize_loop raw raw None [] [].
