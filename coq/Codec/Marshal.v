(* Model of hash/marshal.go: Marshal, marshalValue, marshal, indirect, isEmpty.  Definitions only. *)
Require Import GC.Base.Bytes GC.Codec.Types GC.Codec.Strconv GC.Codec.TypeInfo GC.Schemes.Consts.

(* hashutil.Encoding.IndexAnyInvalid through the decode tables *)
Definition valid_char (e : enc_kind) (c : Z) : bool :=
  match e with
  | EncNone => true
  | EncHash => negb (nth (Z.to_nat c) m_hashutil_hash_decode 255 =? 255)
  | EncBase64 => negb (nth (Z.to_nat c) m_hashutil_base64_decode 255 =? 255)
  end.
Fixpoint first_invalid (e : enc_kind) (s : bytes) : option Z :=
  match s with
  | [] => None
  | c :: r => if valid_char e c then first_invalid e r else Some c
  end.

Definition is_empty (t : ftype) (v : fval) : bool :=
  if Nat.ltb 0 (t_ptr t) then (match v with VNil => true | _ => false end) else
  match v with
  | VNil => true
  | VStr s | VBytes s | VArr s => is_nil_b s
  | VInt z | VUint z => z =? 0
  | VOther e => e
  end.

(* val.FieldByIndex(fi.Index): panics when the path steps through a nil embedded pointer *)
Definition field_value (fi : finfo) (sv : sval) : res fval :=
  if existsb (fun q => existsb (path_eqb q) (sv_embnil sv)) (fi_embptr fi) then Panic
  else match lookup_path (fi_index fi) (sv_fields sv) with
       | Some v => Ok v
       | None => Panic                      (* ill-formed model value *)
       end.

Definition marshal1 (cb : callbacks) (fi : finfo) (v : fval) : res bytes :=
  match v with
  | VNil => Ok []
  | _ =>
    match t_mtext (fi_type fi) with
    | Some id => match cb_marshal cb id v with
                 | TOk s => Ok s
                 | TErr m => Err (EUnsupportedValue (fi_name fi) (MText m))
                 end
    | None =>
      if o_prefix (fi_opts fi) && negb (match t_kind (fi_type fi) with KString => true | _ => false end)
      then Err (EUnsupportedType (fi_name fi))
      else match t_kind (fi_type fi), v with
           | KArray _, VArr s => Ok s
           | KBytes, VBytes s => Ok s
           | KInt _, VInt z => Ok (FormatInt z (o_base (fi_opts fi)))
           | KUint _, VUint z => Ok (FormatUint z (o_base (fi_opts fi)))
           | KString, VStr s => Ok s
           | KOther, _ => Err (EUnsupportedType (fi_name fi))
           | _, _ => Panic                  (* ill-typed model value *)
           end
    end
  end.

Definition marshal_value (cb : callbacks) (fi : finfo) (v : fval) : res bytes :=
  bind (marshal1 cb fi v) (fun s =>
    if o_haslen (fi_opts fi) && negb (Z.of_nat (length s) =? o_len (fi_opts fi))
    then Err (EUnsupportedValue (fi_name fi) MLength)
    else match first_invalid (o_enc (fi_opts fi)) s with
         | Some c => Err (EUnsupportedValue (fi_name fi) (MInvalidChar c))
         | None => Ok s
         end).

Fixpoint marshal_fields (cb : callbacks) (fs : list finfo) (sv : sval) (prev : option finfo) (buf : bytes) : res bytes :=
  match fs with
  | [] => Ok buf
  | fi :: r =>
    bind (field_value fi sv) (fun fv =>
      if o_omit (fi_opts fi) && is_empty (fi_type fi) fv then marshal_fields cb r sv prev buf
      else
        bind (marshal_value cb fi fv) (fun s =>
          let sep := match prev with
                     | Some p => if o_inline (fi_opts p) then []
                                 else if o_group (fi_opts p) && o_group (fi_opts fi) then [comma] else [dollar]
                     | None => []
                     end in
          let key := match o_param (fi_opts fi) with [] => [] | p => p ++ [equals] end in
          marshal_fields cb r sv (Some fi) (buf ++ sep ++ key ++ s)))
  end.

Definition marshal (cb : callbacks) (ti : tinfo) (sv : sval) : res bytes :=
  bind (match ti_prefix ti with
        | Some fi => bind (field_value fi sv) (fun fv => marshal_value cb fi fv)
        | None => Ok []
        end)
       (fun pre => marshal_fields cb (ti_fields ti) sv None pre).
