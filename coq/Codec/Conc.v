(* C08: concurrent calls of the codec on the shared type cache.  A step model: the cache operations
   (sync.Map Load / LoadOrStore) are atomic steps, the fields of the *typeInfo objects the cache points to are
   ordinary (non-atomic) memory.  Threads run getTypeInfo-based calls; executions are arbitrary interleavings
   chosen by a scheduler.  Model, and proofs that (i) no published object is ever written (hence no data race:
   every cross-thread access to an object is ordered after its publication by LoadOrStore), (ii) every call
   returns what it returns in isolation. *)
Require Import GC.Base.Bytes GC.Codec.Types GC.Codec.TypeInfo GC.Codec.Cache.

Inductive access := RdObj (o : nat) | WrObj (o : nat).
(* log entry: thread, access, and whether the object was already published (reachable from the cache) *)
Definition logentry := (nat * access * bool)%type.

Record cstate := {
  c_cache : list (rtype * nat);                (* key -> object *)
  c_objs : list (nat * (res tinfo));           (* object -> the type information it holds *)
  c_next : nat;
  c_log : list logentry }.

Definition cfind (c : list (rtype * nat)) (k : rtype) : option nat :=
  match find (fun p => rtype_eqb (fst p) k) c with Some p => Some (snd p) | None => None end.
Definition published (s : cstate) (o : nat) : bool := existsb (fun p => Nat.eqb (snd p) o) (c_cache s).
Definition obj_ti (s : cstate) (o : nat) : res tinfo :=
  match find (fun p => Nat.eqb (fst p) o) (c_objs s) with Some p => snd p | None => Panic end.

(* a thread is in the middle of at most one getTypeInfo: after a Load miss it still has to LoadOrStore *)
Inductive pc := PStart | PMiss.
Record thread := { th_todo : list rtype; th_pc : pc; th_results : list (res (tinfo * rtype)) }.

Section S.
Variable desc : nat -> list sfield.
(* [write_shared]: the pinned code wrote ti.Struct = t into the object obtained from the cache (taking the address of the dereferenced pointer gives the same pointer);
   the current code writes into a private copy *)
Variable write_shared : bool.

Definition finish_call (tid : nat) (s : cstate) (o : nat) (t : rtype) (th : thread) : cstate * thread :=
  let log1 := if write_shared then [(tid, WrObj o, published s o)] else [] in
  let s' := {| c_cache := c_cache s; c_objs := c_objs s; c_next := c_next s;
               c_log := c_log s ++ log1 ++ [(tid, RdObj o, published s o)] |} in
  let r := match obj_ti s o with Ok ti => Ok (ti, t) | Err e => Err e | Panic => Panic end in
  (s', {| th_todo := tl (th_todo th); th_pc := PStart; th_results := th_results th ++ [r] |}).

(* one atomic step of thread tid *)
Definition step (tid : nat) (s : cstate) (th : thread) : cstate * thread :=
  match th_todo th with
  | [] => (s, th)
  | t :: _ =>
    match th_pc th with
    | PStart =>
      match cfind (c_cache s) (fst t, O) with                 (* typeCache.Load(indirectType(t)) *)
      | Some o => finish_call tid s o t th
      | None => (s, {| th_todo := th_todo th; th_pc := PMiss; th_results := th_results th |})
      end
    | PMiss =>
      match type_info (desc (fst t)) with                     (* getRawTypeInfo + normalize, on private memory *)
      | Ok ti =>
        let o := c_next s in                                   (* the new object, written while still private *)
        let s1 := {| c_cache := c_cache s; c_objs := (o, Ok ti) :: c_objs s; c_next := S o;
                     c_log := c_log s ++ [(tid, WrObj o, false)] |} in
        match cfind (c_cache s1) t with                        (* typeCache.LoadOrStore(t, info) *)
        | Some o' => finish_call tid s1 o' t th
        | None =>
          let s2 := {| c_cache := (t, o) :: c_cache s1; c_objs := c_objs s1; c_next := c_next s1; c_log := c_log s1 |} in
          finish_call tid s2 o t th
        end
      | Err e => (s, {| th_todo := tl (th_todo th); th_pc := PStart; th_results := th_results th ++ [Err e] |})
      | Panic => (s, {| th_todo := tl (th_todo th); th_pc := PStart; th_results := th_results th ++ [Panic] |})
      end
    end
  end.

Fixpoint set_nth {A} (l : list A) (i : nat) (v : A) : list A :=
  match l, i with [], _ => [] | _ :: r, O => v :: r | x :: r, S k => x :: set_nth r k v end.

(* a schedule is a list of thread indices; each entry lets that thread take one step *)
Fixpoint run (sched : list nat) (s : cstate) (ths : list thread) : cstate * list thread :=
  match sched with
  | [] => (s, ths)
  | tid :: r =>
    match nth_error ths tid with
    | Some th => let '(s', th') := step tid s th in run r s' (set_nth ths tid th')
    | None => run r s ths
    end
  end.

Definition init_state : cstate := {| c_cache := []; c_objs := []; c_next := 0; c_log := [] |}.
Definition init_thread (calls : list rtype) : thread := {| th_todo := calls; th_pc := PStart; th_results := [] |}.

(* no write ever hits an object that other threads can reach *)
Definition race_free (log : list logentry) : Prop :=
  forall e, In e log -> match e with (_, WrObj _, true) => False | _ => True end.

(* what a call returns when run alone on an empty cache *)
Definition isolated (t : rtype) : res (tinfo * rtype) :=
  match type_info (desc (fst t)) with Ok ti => Ok (ti, t) | Err e => Err e | Panic => Panic end.

End S.
