(* Class round trip, part 7: the number of fragments is NumReqValues plus the number of optional
   fragments, which is what the counting rule of Unmarshal relies on. *)
Require Import GC.Base.Bytes GC.Codec.Types GC.Codec.Strconv GC.Codec.TypeInfo GC.Codec.Marshal
               GC.Codec.Unmarshal GC.Codec.Codec GC.Codec.Class GC.Codec.ClassPBase GC.Codec.ClassPRender
               GC.Codec.ClassPFrag GC.Codec.ClassPStep GC.Codec.ClassPLoop.
Arguments Z.add : simpl never. Arguments Z.sub : simpl never. Arguments Z.of_nat : simpl never.
Arguments Z.leb : simpl never. Arguments Z.ltb : simpl never.

Section C.
Variables (cb : callbacks) (sv : sval).
Notation kt := (kt cb sv).
Notation pr := (pr sv).
Notation F := (F cb sv).
Notation nopt := (nopt sv).
Notation Cls := (Cls cb sv).

Lemma count_req_plain f r gc : f_group f = false ->
  count_req (f :: r) gc =
  (if negb (f_omit f) && negb (f_inline f) then 1 else 0) + count_req r false.
Proof. unfold f_group, f_omit, f_inline. intros H. cbn [count_req]. rewrite H. reflexivity. Qed.

Lemma len_F : forall fs, Cls fs ->
  (forall b pi, groups_shape_ok fs b 0 pi = true ->
     Z.of_nat (length (F fs)) = count_req fs false + nopt fs) /\
  (forall n, (1 <= n)%nat -> groups_shape_ok fs true n false = true ->
     Z.of_nat (length (F (dropW fs))) = count_req fs true + nopt fs).
Proof.
  induction fs as [|f r IH]; intros Hc.
  - split; intros; reflexivity.
  - destruct (IH (Cls_tail cb sv f r Hc)) as [IHA IHB].
    assert (HA : forall b pi, groups_shape_ok (f :: r) b 0 pi = true ->
                 Z.of_nat (length (F (f :: r))) = count_req (f :: r) false + nopt (f :: r)).
    { intros b pi Hgso. destruct (f_group f) eqn:Hg.
      - destruct (F_group_first cb sv f r b pi Hc Hgso Hg) as (Hp & Hom & Hpar & Hi & m2 & r2 & -> & Hg2 & Hp2 & Hgso1 & EF).
        rewrite EF. cbn [length]. rewrite Nat2Z.inj_succ.
        specialize (IHB 1%nat (le_n 1) Hgso1). cbn [dropW] in IHB. rewrite Hg2 in IHB. rewrite IHB.
        rewrite (nopt_group sv f _ Hg).
        unfold f_group, f_omit in *. cbn [count_req]. rewrite Hg, Hom. cbn [negb andb]. lia.
      - destruct (gso_plain _ _ _ _ _ Hgso Hg) as [_ Hgso'].
        rewrite (count_req_plain f r false Hg). specialize (IHA _ _ Hgso').
        destruct (pr f) eqn:Hp.
        + destruct (f_inline f) eqn:Hi.
          * destruct (F_inline cb sv f r Hc Hi) as (_ & _ & _ & _ & u & rest & EFr & EF & _).
            rewrite EF. rewrite EFr in IHA. cbn [length] in *. rewrite andb_false_r.
            assert (Hom : f_omit f = false).
            { destruct (f_omit f) eqn:Eo; auto.
              pose proof (shapes_cons _ _ (c_shapes _ _ _ Hc)) as [Hsf _].
              rewrite (sf_omit _ _ Hsf Eo) in Hi. discriminate. }
            rewrite (nopt_required sv f r Hom). lia.
          * rewrite (F_value cb sv f r Hc Hp Hi Hg). cbn [length]. rewrite Nat2Z.inj_succ, IHA.
            destruct (f_omit f) eqn:Hom; cbn [negb andb].
            -- rewrite (nopt_optional sv f r Hom Hg Hp). lia.
            -- rewrite (nopt_required sv f r Hom). lia.
        + rewrite (F_absent cb sv f r Hp), (nopt_absent sv f r Hp), IHA.
          rewrite (absent_omit sv f Hp). cbn [negb andb]. lia. }
    split; [exact HA|].
    intros n Hn Hgso. destruct (f_group f) eqn:Hg.
    + cbn [dropW]. rewrite Hg. rewrite (IHB (S n)); [|lia|apply (gso_member f); auto].
      rewrite (nopt_group sv f r Hg). unfold f_group in Hg. cbn [count_req]. rewrite Hg.
      cbn [negb andb]. rewrite andb_false_r. lia.
    + cbn [dropW]. rewrite Hg.
      destruct (gso_plain _ _ _ _ _ Hgso Hg) as [_ Hgso'].
      rewrite (HA true false (gso_plain_intro f r true false Hg Hgso')).
      rewrite !(count_req_plain f r _ Hg). reflexivity.
Qed.

End C.
