(* Model of hash/unmarshal.go: Unmarshal (the fragment/field state machine) and unmarshal (one node into
   one field).  Definitions only.  The target is a fresh (zero) value of the struct type. *)
Require Import GC.Base.Bytes GC.Codec.Types GC.Codec.Strconv GC.Codec.TypeInfo GC.Codec.Marshal.
Require Import GC.Parse.ParseModel.

(* parse-tree nodes with their immutable End and their (mutable, see inline) text *)
Record unode := { n_end : nat; n_text : bytes }.
Inductive ufrag := UV (n : unode) | UG (ns : list unode).
Definition unode_of (v : vnode) : unode := {| n_end := v_end v; n_text := v_text v |}.
Definition ufrag_of (f : frag) : ufrag :=
  match f with FV v => UV (unode_of v) | FG vs => UG (map unode_of vs) end.
Definition group_end (ns : list unode) : nat := n_end (last ns {| n_end := 0; n_text := [] |}).
Definition ufrag_end (f : ufrag) : nat := match f with UV n => n_end n | UG ns => group_end ns end.
Definition ufrag_kind (f : ufrag) : node_kind := match f with UV _ => NValue | UG _ => NGroup end.

Definition zero_value (t : ftype) : fval :=
  if Nat.ltb 0 (t_ptr t) then VNil else
  match t_kind t with
  | KString => VStr [] | KBytes => VBytes [] | KArray n => VArr (repeat 0 n)
  | KInt _ => VInt 0 | KUint _ => VUint 0 | KOther => VOther true
  end.

Definition mk_err {A} (nk : node_kind) (fi : finfo) (nend : nat) (m : emsg) : res A :=
  Err (EUnmarshal nk (fi_name fi) nend m).

(* the conversion part of unmarshal(): alphabet check, text unmarshaler, or the built-in kinds *)
Definition convert (cb : callbacks) (nk : node_kind) (nend : nat) (fi : finfo) (s : bytes) : res fval :=
  let o := fi_opts fi in
  match first_invalid (o_enc o) s with
  | Some c => mk_err nk fi nend (MInvalidChar c)
  | None =>
    match t_utext (fi_type fi) with
    | Some id => match cb_unmarshal cb id s with
                 | TOk v => Ok v
                 | TErr m => mk_err nk fi nend (MText m)
                 end
    | None =>
      if o_prefix o && negb (match t_kind (fi_type fi) with KString => true | _ => false end)
      then mk_err nk fi nend MUnsupported
      else match t_kind (fi_type fi) with
           | KBytes => Ok (VBytes s)
           | KArray n => Ok (VArr (firstn n (s ++ repeat 0 n)))
           | KInt bits => match ParseInt s (o_base o) bits with
                          | inl z => Ok (VInt z)
                          | inr e => mk_err nk fi nend (MParse (match e with PRange => true | PSyntax => false end))
                          end
           | KUint bits => match ParseUint s (o_base o) bits with
                           | inl z => Ok (VUint z)
                           | inr e => mk_err nk fi nend (MParse (match e with PRange => true | PSyntax => false end))
                           end
           | KString => Ok (VStr s)
           | KOther => mk_err nk fi nend MUnsupported
           end
    end
  end.

(* unmarshal(node, ti, fi, v): returns the value stored and, for an inline field, the text left in the node *)
Definition assign (cb : callbacks) (nk : node_kind) (nend : nat) (text : bytes) (fi : finfo)
  : res (fval * option bytes) :=
  let o := fi_opts fi in
  let s0 := match o_param o with [] => text | p => trim_prefix (p ++ [equals]) text end in
  let cut : res (bytes * option bytes) :=
    if o_haslen o then
      if o_inline o then
        if Z.of_nat (length s0) <? o_len o then mk_err nk fi nend MLength
        else match nk with
             | NValue => Ok (firstn (Z.to_nat (o_len o)) s0, Some (skipn (Z.to_nat (o_len o)) s0))
             | _ => Panic                  (* type assertion to a value node fails on a prefix node *)
             end
      else if negb (Z.of_nat (length s0) =? o_len o) then mk_err nk fi nend MLength else Ok (s0, None)
    else Ok (s0, None) in
  bind cut (fun '(s, rest) => bind (convert cb nk nend fi s) (fun v => Ok (v, rest))).

Record ust := {
  u_frags : list ufrag;          (* tree.Fragments (value texts change under inline) *)
  u_idx : nat;                   (* fragIdx *)
  u_nv : Z; u_nr : Z;            (* numValues, numReqValues *)
  u_group : option (list unode); (* group *)
  u_ngv : Z;                     (* numGroupValues *)
  u_greq : bool;                 (* groupReq *)
  u_out : list (list nat * fval) (* assignments, newest first *) }.

Definition set_frag (l : list ufrag) (i : nat) (f : ufrag) : list ufrag :=
  firstn i l ++ f :: skipn (S i) l.

(* first group member with prefix "param=": (members before, it, members after) *)
Fixpoint find_member (key : bytes) (before ns : list unode) : option (list unode * unode * list unode) :=
  match ns with
  | [] => None
  | n :: r => if has_prefix key (n_text n) then Some (before, n, r) else find_member key (before ++ [n]) r
  end.

(* assigning into a field reached through a nil embedded pointer panics (FieldByIndex) *)
Definition store (fi : finfo) (v : fval) (s : ust) (frags' : list ufrag) (idx' : nat) (nv' nr' : Z)
           (g' : option (list unode)) (ngv' : Z) (greq' : bool) : res ust :=
  match fi_embptr fi with
  | _ :: _ => Panic
  | [] => Ok {| u_frags := frags'; u_idx := idx'; u_nv := nv'; u_nr := nr'; u_group := g'; u_ngv := ngv';
                u_greq := greq'; u_out := (fi_index fi, v) :: u_out s |}
  end.

Inductive step_res := Next (s : ust) | Fail (e : cerr) | Crash.

Definition step (cb : callbacks) (hashlen : nat) (fi : finfo) (s0 : ust) : step_res :=
  let o := fi_opts fi in
  (* end of group *)
  let closed : step_res :=
    match u_group s0 with
    | Some g =>
      if negb (o_group o) then
        if 0 <? u_ngv s0 then Fail (EUnmarshal NGroup (fi_name fi) (group_end g) MExcessiveFragment)
        else Next {| u_frags := u_frags s0; u_idx := S (u_idx s0); u_nv := u_nv s0 - 1;
                     u_nr := if u_greq s0 then u_nr s0 - 1 else u_nr s0;
                     u_group := None; u_ngv := u_ngv s0; u_greq := false; u_out := u_out s0 |}
      else Next s0
    | None => Next s0
    end in
  match closed with
  | Fail e => Fail e | Crash => Crash
  | Next s =>
    match nth_error (u_frags s) (u_idx s) with
    | None => if o_omit o then Next s else Fail (EUnmarshal NEOF (fi_name fi) hashlen MUnexpectedEOF)
    | Some fr =>
      if o_omit o && (match u_group s with None => true | _ => false end) && (u_nv s - u_nr s <=? 0)
      then Next {| u_frags := u_frags s; u_idx := u_idx s; u_nv := u_nv s - 1; u_nr := u_nr s;
                   u_group := u_group s; u_ngv := u_ngv s; u_greq := u_greq s; u_out := u_out s |}
      else
        let not_found := Fail (EUnmarshal (ufrag_kind fr) (fi_name fi) (ufrag_end fr) MNotFound) in
        let is_group_frag := match fr with UG _ => true | UV _ => false end in
        if o_group o && (is_group_frag || negb (o_omit o)) then
          (* param group *)
          let '(g, ngv) := match fr with
                           | UG ns => match u_group s with
                                      | None => (ns, Z.of_nat (length ns))
                                      | Some g0 => (g0, u_ngv s)
                                      end
                           | UV n => ([n], 1)
                           end in
          let greq := if negb (o_omit o) then true else u_greq s in
          match find_member (o_param o ++ [equals]) [] g with
          | Some (before, n, after) =>
            match assign cb NValue (n_end n) (n_text n) fi with
            | Ok (v, rest) =>
              let n' := match rest with Some t => {| n_end := n_end n; n_text := t |} | None => n end in
              (* a single value consumed as a group is wrapped again from tree.Fragments by every later field of the
                 group, and the node is shared: the text an inline field leaves behind is what they see *)
              let frags' := match fr, rest with
                            | UV _, Some _ => set_frag (u_frags s) (u_idx s) (UV n')
                            | _, _ => u_frags s
                            end in
              match store fi v s frags' (u_idx s) (u_nv s) (u_nr s) (Some (before ++ n' :: after)) (ngv - 1) greq with
              | Ok s' => Next s' | Err e => Fail e | Panic => Crash
              end
            | Err e => Fail e
            | Panic => Crash
            end
          | None =>
            if o_omit o then Next {| u_frags := u_frags s; u_idx := u_idx s; u_nv := u_nv s; u_nr := u_nr s;
                                     u_group := Some g; u_ngv := ngv; u_greq := greq; u_out := u_out s |}
            else not_found
          end
        else if negb (o_group o) && negb is_group_frag then
          match fr with
          | UV n =>
            let matches := match o_param o with [] => true | p => has_prefix (p ++ [equals]) (n_text n) end in
            if matches then
              match assign cb NValue (n_end n) (n_text n) fi with
              | Ok (v, rest) =>
                let frags' := match rest with
                              | Some t => set_frag (u_frags s) (u_idx s) (UV {| n_end := n_end n; n_text := t |})
                              | None => u_frags s
                              end in
                match store fi v s frags' (if o_inline o then u_idx s else S (u_idx s)) (u_nv s - 1)
                            (if o_omit o then u_nr s else u_nr s - 1) (u_group s) (u_ngv s) (u_greq s) with
                | Ok s' => Next s' | Err e => Fail e | Panic => Crash
                end
              | Err e => Fail e
              | Panic => Crash
              end
            else if o_omit o then Next s else not_found
          | UG _ => Crash
          end
        else if o_omit o then Next s else not_found
    end
  end.

Fixpoint run_fields (cb : callbacks) (hashlen : nat) (fs : list finfo) (s : ust) : step_res :=
  match fs with
  | [] => Next s
  | fi :: r => match step cb hashlen fi s with
               | Next s' => run_fields cb hashlen r s'
               | x => x
               end
  end.

(* the assignments made, oldest first; a field not assigned keeps its zero value *)
Definition result_value (ti : tinfo) (assigned : list (list nat * fval)) : list (list nat * fval) :=
  let all := (match ti_prefix ti with Some p => [p] | None => [] end) ++ ti_fields ti in
  map (fun fi => (fi_index fi,
                  match lookup_path (fi_index fi) assigned with
                  | Some v => v
                  | None => zero_value (fi_type fi)
                  end)) all.

Definition unmarshal_tree (cb : callbacks) (ti : tinfo) (hashlen : nat) (t : tree) : res (list (list nat * fval)) :=
  let pre : res (list (list nat * fval)) :=
    match ti_prefix ti, prefix t with
    | Some fi, Some p =>
      match assign cb NPrefix (prefix_end p) p fi with
      | Ok (v, _) => match fi_embptr fi with [] => Ok [(fi_index fi, v)] | _ => Panic end
      | Err e => Err e
      | Panic => Panic
      end
    | Some fi, None => if o_omit (fi_opts fi) then Ok []
                       else Err (EUnmarshal NEOF (fi_name fi) hashlen MPrefixNotFound)
    | None, Some p => Err (EUnmarshal NPrefix [] (prefix_end p) MExcessivePrefix)
    | None, None => Ok []
    end in
  bind pre (fun out0 =>
    let s0 := {| u_frags := map ufrag_of (frags t); u_idx := 0; u_nv := Z.of_nat (length (frags t));
                 u_nr := ti_numreq ti; u_group := None; u_ngv := 0; u_greq := false; u_out := out0 |} in
    match run_fields cb hashlen (ti_fields ti) s0 with
    | Fail e => Err e
    | Crash => Panic
    | Next s =>
      let after_group : res nat :=
        match u_group s with
        | Some g => if 0 <? u_ngv s then Err (EUnmarshal NGroup [] (group_end g) MExcessiveFragment)
                    else Ok (S (u_idx s))
        | None => Ok (u_idx s)
        end in
      bind after_group (fun idx =>
        match nth_error (u_frags s) idx with
        | Some fr => Err (EUnmarshal (ufrag_kind fr) [] (ufrag_end fr) MExcessiveFragment)
        | None => Ok (result_value ti (u_out s))
        end)
    end).

Definition unmarshal (cb : callbacks) (ti : tinfo) (h : bytes) : res (list (list nat * fval)) :=
  match parse h with
  | PErr off m => Err (ESyntax off m)
  | PStuck => Panic
  | POk t => unmarshal_tree cb ti (length h) t
  end.
