(* Datatypes of the reflection-codec model (hash/typeinfo.go, marshal.go, unmarshal.go). *)
Require Import GC.Base.Bytes.

(* --- Go types as the codec sees them --- *)
Inductive kind :=
| KString
| KBytes                       (* []byte *)
| KArray (n : nat)             (* [n]byte *)
| KInt (bits : Z)              (* int8..int64, int = 64 *)
| KUint (bits : Z)
| KOther.                      (* anything else: bool, float, map, struct field, []int, ... *)

(* a (named) field type: underlying kind, pointer depth, and which text methods its method sets have.
   t_mtext: MarshalText with value receiver (the only one Marshal can reach, it dereferences first);
   t_utext: UnmarshalText on T or *T.  The numbers identify behaviours in a callback table. *)
Record ftype := { t_kind : kind; t_ptr : nat; t_mtext : option nat; t_utext : option nat }.

(* struct fields as reflect reports them *)
Inductive stype :=
| TField (t : ftype)
| TStruct (ptr : nat) (fields : list sfield)        (* a struct type (ptr = pointer depth in front of it) *)
with sfield :=
| SField (name : bytes) (exported anonymous : bool) (tag : bytes) (has_tag : bool) (t : stype).

Definition sf_name (f : sfield) := match f with SField n _ _ _ _ _ => n end.
Definition sf_exported (f : sfield) := match f with SField _ e _ _ _ _ => e end.
Definition sf_anonymous (f : sfield) := match f with SField _ _ a _ _ _ => a end.
Definition sf_tag (f : sfield) := match f with SField _ _ _ t _ _ => t end.
Definition sf_type (f : sfield) := match f with SField _ _ _ _ _ t => t end.

(* --- tag options (fieldOpts) --- *)
Inductive enc_kind := EncHash | EncBase64 | EncNone.

Record fopts := {
  o_prefix : bool; o_omit : bool; o_group : bool; o_param : bytes (* [] = none *);
  o_enc : enc_kind; o_len : Z; o_haslen : bool; o_inline : bool; o_base : Z }.

(* fieldInfo: Index path, name, type, options; fi_tag is the raw `hash` tag (for error texts);
   fi_embptr: positions in the index path that step through an embedded pointer-to-struct *)
Record finfo := {
  fi_index : list nat; fi_name : bytes; fi_type : ftype; fi_opts : fopts; fi_tag : bytes;
  fi_embptr : list (list nat) }.

Record tinfo := { ti_prefix : option finfo; ti_fields : list finfo; ti_numreq : Z }.

(* --- values --- *)
Inductive fval :=
| VStr (s : bytes)
| VBytes (s : bytes)           (* nil and empty slices are both [] *)
| VArr (s : bytes)
| VInt (z : Z)
| VUint (z : Z)
| VNil                         (* nil pointer *)
| VOther (empty : bool).       (* a value of an unsupported kind; empty = what isEmpty reports for it *)

(* a struct value: the value of every leaf field, keyed by index path; [embnil] lists the index paths
   of embedded pointer-to-struct fields that are nil *)
Record sval := { sv_fields : list (list nat * fval); sv_embnil : list (list nat) }.

(* --- text (un)marshaler behaviours, by identifier --- *)
Inductive tres (A : Type) := TOk (a : A) | TErr (msg : bytes).
Arguments TOk {A}. Arguments TErr {A}.
Record callbacks := {
  cb_marshal : nat -> fval -> tres bytes;
  cb_unmarshal : nat -> bytes -> tres fval }.

(* --- errors, projected to what the correspondence compares --- *)
Inductive emsg :=
| MLength                      (* "length mismatch" *)
| MInvalidChar (c : Z)         (* "invalid character 'c'" *)
| MText (m : bytes)            (* error text of a text (un)marshaler *)
| MParse (e : bool)            (* strconv error: true = range, false = syntax *)
| MUnsupported                 (* "unsupported type" *)
| MPrefixNotFound | MUnexpectedEOF | MExcessiveFragment | MExcessivePrefix
| MNotFound.                   (* "<value|param|grouped param> not found" *)

Inductive node_kind := NPrefix | NGroup | NValue | NEOF.

Inductive cerr :=
| EUnsupportedType (field : bytes)                       (* *UnsupportedTypeError *)
| EUnsupportedValue (field : bytes) (m : emsg)           (* *UnsupportedValueError *)
| EInvalidTag (field : bytes)                            (* errors.New("invalid tag in field ...") *)
| ETagParam (f1 f2 : bytes)                              (* *TagParamError *)
| EUnmarshal (nk : node_kind) (field : bytes) (off : nat) (m : emsg)   (* *UnmarshalTypeError *)
| ESyntax (off : nat) (m : bytes).                       (* *parse.SyntaxError *)

Inductive res (A : Type) := Ok (a : A) | Err (e : cerr) | Panic.
Arguments Ok {A}. Arguments Err {A}. Arguments Panic {A}.

Definition bind {A B} (r : res A) (f : A -> res B) : res B :=
  match r with Ok a => f a | Err e => Err e | Panic => Panic end.

Fixpoint path_eqb (a b : list nat) : bool :=
  match a, b with
  | [], [] => true
  | x :: a', y :: b' => Nat.eqb x y && path_eqb a' b'
  | _, _ => false
  end.

Fixpoint lookup_path {A} (p : list nat) (l : list (list nat * A)) : option A :=
  match l with
  | [] => None
  | (q, v) :: r => if path_eqb q p then Some v else lookup_path p r
  end.

Fixpoint is_prefix_path (p q : list nat) : bool :=   (* p is a (non-strict) prefix of q *)
  match p, q with
  | [], _ => true
  | x :: p', y :: q' => Nat.eqb x y && is_prefix_path p' q'
  | _ :: _, [] => false
  end.
