(* The class of C10/C20: layouts that are unambiguous, and values that are presentable.
   Boolean predicates, so that membership is decided by computation (shipped layouts, generated cases). *)
Require Import GC.Base.Bytes GC.Base.CaseLib GC.Codec.Types GC.Codec.Strconv GC.Codec.TypeInfo
               GC.Codec.Marshal GC.Codec.Unmarshal GC.Codec.Codec GC.Parse.ParseModel.

Definition has_param (fi : finfo) : bool := negb (is_nil_b (o_param (fi_opts fi))).
Definition f_omit (fi : finfo) := o_omit (fi_opts fi).
Definition f_group (fi : finfo) := o_group (fi_opts fi).
Definition f_inline (fi : finfo) := o_inline (fi_opts fi).
Definition positional (fi : finfo) : bool := negb (has_param fi) && negb (f_group fi).
Definition required_plain (fi : finfo) : bool := negb (f_omit fi) && negb (f_group fi).

Fixpoint nodup_bytes (l : list bytes) : bool :=
  match l with [] => true | x :: r => negb (existsb (bytes_eqb x) r) && nodup_bytes r end.

(* per-field conditions, looking at the next field *)
Definition field_shape_ok (fi : finfo) (next : option finfo) : bool :=
  let o := fi_opts fi in
  negb (o_prefix o)
  && is_nil_b (fi_embptr fi)
  && (if o_group o then has_param fi else true)
  && (if o_omit o then negb (o_inline o) && negb (match t_kind (fi_type fi) with KArray _ => true | _ => false end) else true)
  && (if o_inline o then o_haslen o && (0 <? o_len o) && negb (o_group o) && negb (has_param fi)
                         && match next with
                            | Some nx => positional nx && negb (f_omit nx)
                            | None => false
                            end
      else true)
  && (if o_omit o && positional fi then
        match next with Some nx => negb (f_omit nx && positional nx) | None => false end
      else true)
  && match next with None => negb (o_omit o) && negb (o_inline o) | Some _ => true end.

Fixpoint shapes_ok (fs : list finfo) : bool :=
  match fs with
  | [] => true
  | fi :: r => field_shape_ok fi (hd_error r) && shapes_ok r
  end.

(* group runs: at least two members, the first two required; the field before a run is not inline;
   two runs are separated by a required non-group field.
   [since_req]: a group run has been seen since the last required plain field;
   [inrun]: number of members of the current run seen so far *)
Fixpoint groups_shape_ok (fs : list finfo) (since_req : bool) (inrun : nat) (prev_inline : bool) : bool :=
  match fs with
  | [] => negb (Nat.eqb inrun 1)
  | fi :: r =>
    if f_group fi then
      (if Nat.eqb inrun 0 then negb since_req && negb prev_inline else true)
      && (if Nat.ltb inrun 2 then negb (f_omit fi) else true)
      && groups_shape_ok r true (S inrun) false
    else
      negb (Nat.eqb inrun 1)
      && groups_shape_ok r (if required_plain fi then false else since_req) 0 (f_inline fi)
  end.

Definition unambiguous (ti : tinfo) : bool :=
  match ti_prefix ti with
  | Some p => is_nil_b (fi_embptr p) && negb (o_haslen (fi_opts p)) && is_nil_b (o_param (fi_opts p))
  | None => true
  end
  && negb (is_nil_b (ti_fields ti))
  && shapes_ok (ti_fields ti)
  && groups_shape_ok (ti_fields ti) false 0 false
  && nodup_bytes (filter (fun p => negb (is_nil_b p)) (map (fun fi => o_param (fi_opts fi)) (ti_fields ti))).

(* ---- value side ---- *)
Definition clean (s : bytes) : bool :=
  forallb (fun c => negb (c =? dollar) && negb (c =? comma) && negb (c =? equals)) s.

Definition value_of (fi : finfo) (sv : sval) : fval :=
  match lookup_path (fi_index fi) (sv_fields sv) with Some v => v | None => VNil end.
Definition present (fi : finfo) (sv : sval) : bool :=
  negb (f_omit fi && is_empty (fi_type fi) (value_of fi sv)).

(* the text Marshal emits for a field (without its key), when it accepts the value *)
Definition text_of (cb : callbacks) (fi : finfo) (sv : sval) : option bytes :=
  match marshal_value cb fi (value_of fi sv) with Ok s => Some s | _ => None end.

(* converting the emitted text back gives the value *)
Definition field_rt (cb : callbacks) (fi : finfo) (sv : sval) : bool :=
  match text_of cb fi sv with
  | Some s => match convert cb NValue 0 fi s with
              | Ok v => fval_eqb v (value_of fi sv)
              | _ => false
              end
  | None => false
  end.

Definition prefix_shaped (p : bytes) : bool :=
  match parse p with
  | POk t => opt_eqb bytes_eqb (prefix t) (Some p) && is_nil_b (frags t)
  | _ => false
  end.

(* once a positional optional field is absent, no later non-group optional field is present *)
Fixpoint suffix_rule (fs : list finfo) (sv : sval) (absent_seen : bool) : bool :=
  match fs with
  | [] => true
  | fi :: r =>
    if f_omit fi && negb (f_group fi) then
      if present fi sv then negb absent_seen && suffix_rule r sv absent_seen
      else suffix_rule r sv (absent_seen || positional fi)
    else suffix_rule r sv absent_seen
  end.

Definition keyed_text (cb : callbacks) (fi : finfo) (sv : sval) : bytes :=
  (match o_param (fi_opts fi) with [] => [] | p => p ++ [equals] end)
  ++ match text_of cb fi sv with Some s => s | None => [] end.

Definition presentable (cb : callbacks) (ti : tinfo) (sv : sval) : bool :=
  let fs := ti_fields ti in
  let pres := filter (fun fi => present fi sv) fs in
  is_nil_b (sv_embnil sv)
  && forallb (fun fi => match lookup_path (fi_index fi) (sv_fields sv) with Some _ => true | None => false end)
             ((match ti_prefix ti with Some p => [p] | None => [] end) ++ fs)
  && (let first_ok := match pres with
                      | fi :: _ => match keyed_text cb fi sv with
                                   | c :: _ => negb (c =? underscore) && negb (c =? dollar)
                                   | [] => false
                                   end
                      | [] => false
                      end in
      match ti_prefix ti with
      | Some p => if present p sv then
                    match text_of cb p sv with
                    | Some s => prefix_shaped s && field_rt cb p sv
                    | None => false
                    end
                  else first_ok        (* an omitted optional prefix: the text must not look like it has one ... *)
                       && match text_of cb p sv with Some [] => true | _ => false end
                                       (* ... and Marshal, which writes the prefix unconditionally, writes nothing *)
      | None => first_ok
      end)
  && forallb (fun fi => match text_of cb fi sv with Some s => clean s | None => false end
                        && clean (o_param (fi_opts fi)) && field_rt cb fi sv) pres
  && match rev pres with
     | fi :: _ => negb (is_nil_b (keyed_text cb fi sv))
     | [] => false
     end
  && suffix_rule fs sv false.

(* the value Unmarshal is expected to return: the given one for present fields, zero for absent ones *)
Definition expected (ti : tinfo) (sv : sval) : list (list nat * fval) :=
  map (fun fi => (fi_index fi, if present fi sv then value_of fi sv else zero_value (fi_type fi)))
      ((match ti_prefix ti with Some p => [p] | None => [] end) ++ ti_fields ti).

(* computational test of the class round trip on one (layout, value) *)
Definition test_class_rt (c : list sfield * sval * obs bytes) : bool :=
  let '(st, sv, _) := c in
  match type_info st with
  | Ok ti =>
    if unambiguous ti && presentable std_cb ti sv then
      match marshal std_cb ti sv with
      | Ok s => match unmarshal std_cb ti s with
                | Ok m => values_agree m (expected ti sv) && values_agree (expected ti sv) m
                | _ => false
                end
      | _ => false              (* presentable values are accepted by Marshal *)
      end
    else true
  | _ => true
  end.
(* how many cases are inside the class (to see that the test is not vacuous) *)
Definition in_class_case (c : list sfield * sval * obs bytes) : bool :=
  let '(st, sv, _) := c in
  match type_info st with
  | Ok ti => unambiguous ti && presentable std_cb ti sv
  | _ => false
  end.

(* index paths identify fields *)
Fixpoint nodup_paths (l : list (list nat)) : bool :=
  match l with [] => true | x :: r => negb (existsb (path_eqb x) r) && nodup_paths r end.
Definition paths_ok (ti : tinfo) : bool :=
  nodup_paths (map fi_index ((match ti_prefix ti with Some p => [p] | None => [] end) ++ ti_fields ti)).

(* NumReqValues is the count normalize computes (true of every tinfo built by type_info) *)
Definition numreq_ok (ti : tinfo) : bool := ti_numreq ti =? count_req (ti_fields ti) false.

(* the field-wise agreement used in the round-trip statements *)
Definition agree (m e : list (list nat * fval)) : Prop :=
  Forall2 (fun a b => fst a = fst b /\ fval_eqb (snd a) (snd b) = true) m e.
