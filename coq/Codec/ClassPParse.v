(* Class round trip, part 3: parsing what Marshal wrote gives the fragments [mfrA]. *)
Require Import GC.Base.Bytes GC.Base.CaseLib GC.Codec.Types GC.Codec.Strconv GC.Codec.TypeInfo GC.Codec.Marshal
               GC.Codec.Unmarshal GC.Codec.Codec GC.Codec.Class GC.Codec.ClassPBase.
Require Import GC.Parse.ParseModel GC.Parse.ParseSpec GC.Parse.ParseProofs.
Arguments Z.add : simpl never. Arguments Z.sub : simpl never. Arguments Z.of_nat : simpl never.
Arguments Z.leb : simpl never. Arguments Z.ltb : simpl never.

Definition tfr (f : frag) : tfrag :=
  match f with FV v => TV (snd v) | FG vs => TG (map snd vs) end.
Lemma tf_ufrag_of f : tf (ufrag_of f) = tfr f.
Proof. destruct f as [v|vs]; cbn. reflexivity. rewrite map_map. reflexivity. Qed.
Lemma map_tf_ufrag_of l : map tf (map ufrag_of l) = map tfr l.
Proof. rewrite map_map. apply map_ext. apply tf_ufrag_of. Qed.

Definition gT (g : option (list vnode)) : option (list bytes) :=
  match g with Some l => Some (map snd (rev l)) | None => None end.

Lemma clean_no_delim s : clean s = true -> no_delim s.
Proof.
  unfold clean, no_delim. intros H. rewrite forallb_forall in *. intros c Hc. specialize (H c Hc).
  unfold is_delim. destruct (c =? dollar), (c =? comma); cbn in *; auto; discriminate.
Qed.

Lemma sc_text : forall t cur start pos r g, no_delim t ->
  sc cur start pos (t ++ r) g = sc (rev t ++ cur) start (pos + length t)%nat r g.
Proof.
  induction t as [|c t IH]; intros cur start pos r g H.
  - cbn [app rev length]. rewrite Nat.add_0_r. reflexivity.
  - apply no_delim_cons in H. destruct H as [Hc Ht]. unfold is_delim in Hc.
    apply orb_false_iff in Hc. destruct Hc as [Hd Hm].
    cbn [app sc]. rewrite Hd, Hm. rewrite (IH _ _ _ _ _ Ht).
    cbn [rev length]. rewrite <- app_assoc. cbn [app]. f_equal. lia.
Qed.

Lemma tfr_close g v : tfr (close g v) = closeT (gT g) (snd v).
Proof.
  destruct g as [l|]; cbn [close tfr gT closeT]; auto.
  cbn [rev]. rewrite map_app. reflexivity.
Qed.

Lemma glT_gT g : glT (gT g) = map snd (rev (gl g)).
Proof. destruct g; reflexivity. Qed.

Section P.
Variables (cb : callbacks) (sv : sval).
Notation kt := (kt cb sv).
Notation pr := (pr sv).
Notation emit := (ClassPBase.emit cb sv).
Notation mfrA := (mfrA cb sv).

Lemma sc_emit : forall fs prev cur start pos g,
  (forall f, In f fs -> pr f = true -> no_delim (kt f)) ->
  map tfr (sc cur start pos (emit fs prev) g) = mfrA fs prev (gT g) (rev cur).
Proof.
  induction fs as [|f r IH]; intros prev cur start pos g Hnd.
  - cbn [emit sc mfrA]. destruct cur as [|c cur].
    + cbn [rev]. destruct g as [l|]; reflexivity.
    + destruct (rev (c :: cur)) as [|x y] eqn:E.
      { cbn [rev] in E. destruct (rev cur); discriminate. }
      rewrite <- E. cbn [map]. rewrite tfr_close. reflexivity.
  - assert (Hnd' : forall f0, In f0 r -> pr f0 = true -> no_delim (kt f0)).
    { intros f0 H0. apply Hnd. right. exact H0. }
    cbn [emit mfrA]. destruct (pr f) eqn:Ep; [|apply IH; exact Hnd'].
    assert (Hk : no_delim (kt f)) by (apply Hnd; [left; reflexivity|exact Ep]).
    assert (Hcont : forall cur0 start0 pos0 g0,
               map tfr (sc cur0 start0 pos0 (kt f ++ emit r (Some f)) g0)
               = mfrA r (Some f) (gT g0) (rev cur0 ++ kt f)).
    { intros. rewrite sc_text by exact Hk. rewrite IH by exact Hnd'.
      rewrite rev_app_distr, rev_involutive. reflexivity. }
    destruct prev as [p|]; cbn [sep].
    + destruct (f_inline p).
      * cbn [app]. apply Hcont.
      * destruct (f_group p && f_group f).
        -- cbn [app sc]. change (comma =? dollar) with false. change (comma =? comma) with true.
           cbn iota. rewrite Hcont. cbn [rev app gT]. rewrite glT_gT.
           cbn [rev]. rewrite map_app. reflexivity.
        -- cbn [app sc]. change (dollar =? dollar) with true. cbn iota. cbn [map].
           rewrite tfr_close, Hcont. reflexivity.
    + cbn [app]. apply Hcont.
Qed.

Lemma parse_body_noprefix c r : (c =? dollar) = false -> (c =? underscore) = false ->
  parse (c :: r) = POk (body_tree None 0 (c :: r)).
Proof. intros H1 H2. rewrite parse_eq. unfold parse_fn. rewrite H1, H2. reflexivity. Qed.

Lemma parse_prefix_body p body : prefix_shaped p = true ->
  parse (p ++ body) = POk (body_tree (Some p) (length p) body).
Proof.
  unfold prefix_shaped. rewrite !parse_eq. unfold parse_fn at 1.
  destruct p as [|c r].
  { cbn. discriminate. }
  destruct (c =? dollar) eqn:Ed.
  - apply Z.eqb_eq in Ed. subst c.
    destruct (break_delim r) as [a [[d b]|]] eqn:E.
    + destruct a as [|i0 a]. discriminate.
      cbn [body_tree prefix frags opt_eqb]. intros H. apply andb_true_iff in H. destruct H as [H _].
      apply bytes_eqb_eq in H. inversion H as [Hr].
      apply break_delim_some in E. destruct E as (Er & Ha & Hd).
      assert (b = []).
      { rewrite Er in Hr. cbn [app] in Hr. inversion Hr as [Hr']. apply app_inv_head in Hr'.
        inversion Hr'. reflexivity. }
      subst b. clear Er H Hr. unfold parse_fn. cbn [app]. rewrite Z.eqb_refl.
      rewrite <- app_assoc. cbn [app].
      change (i0 :: a ++ d :: body) with ((i0 :: a) ++ d :: body).
      rewrite (break_delim_app (i0 :: a) d body Ha Hd).
      cbn [app]. reflexivity.
    + destruct a; discriminate.
  - destruct (c =? underscore) eqn:Eu.
    + apply Z.eqb_eq in Eu. subst c.
      cbn [body_tree prefix frags opt_eqb]. intros H. apply andb_true_iff in H. destruct H as [H _].
      apply bytes_eqb_eq in H. inversion H; subst.
      unfold parse_fn. cbn [app]. rewrite Ed, Z.eqb_refl. reflexivity.
    + cbn [body_tree prefix opt_eqb]. discriminate.
Qed.

End P.
