(* Class round trip, part 2: what Marshal writes is [prefix text ++ emit fields]. *)
Require Import GC.Base.Bytes GC.Codec.Types GC.Codec.Strconv GC.Codec.TypeInfo GC.Codec.Marshal
               GC.Codec.Unmarshal GC.Codec.Codec GC.Codec.Class GC.Codec.ClassPBase.
Arguments Z.add : simpl never. Arguments Z.sub : simpl never. Arguments Z.of_nat : simpl never.
Arguments Z.leb : simpl never. Arguments Z.ltb : simpl never.

Lemma field_value_ok fi sv v : field_value fi sv = Ok v -> value_of fi sv = v.
Proof.
  unfold field_value, value_of. destruct (existsb _ (fi_embptr fi)); [discriminate|].
  destruct (lookup_path (fi_index fi) (sv_fields sv)); [|discriminate]. congruence.
Qed.

Lemma marshal_fields_emit cb sv : forall fs prev buf out,
  marshal_fields cb fs sv prev buf = Ok out -> out = buf ++ emit cb sv fs prev.
Proof.
  induction fs as [|f r IH]; intros prev buf out H; cbn [marshal_fields emit] in *.
  - inversion H. rewrite app_nil_r. reflexivity.
  - destruct (field_value f sv) as [v| |] eqn:Ev; cbn [bind] in H; try discriminate.
    apply field_value_ok in Ev.
    unfold pr, present, f_omit. rewrite Ev.
    destruct (o_omit (fi_opts f) && is_empty (fi_type f) v) eqn:Eo; cbn [negb].
    + apply IH. exact H.
    + destruct (marshal_value cb f v) as [s| |] eqn:Em; cbn [bind] in H; try discriminate.
      apply IH in H. rewrite H.
      assert (Et : text_of cb f sv = Some s) by (unfold text_of; rewrite Ev, Em; reflexivity).
      rewrite (kt_eq cb sv f s Et). unfold keyof, sep, f_inline, f_group.
      repeat rewrite <- app_assoc. reflexivity.
Qed.

Lemma marshal_emit cb ti sv s : marshal cb ti sv = Ok s ->
  exists ptxt, s = ptxt ++ emit cb sv (ti_fields ti) None /\
    match ti_prefix ti with Some p => text_of cb p sv = Some ptxt | None => ptxt = [] end.
Proof.
  unfold marshal. destruct (ti_prefix ti) as [p|].
  - destruct (field_value p sv) as [v| |] eqn:Ev; cbn [bind]; try discriminate.
    apply field_value_ok in Ev.
    destruct (marshal_value cb p v) as [t| |] eqn:Em; cbn [bind]; try discriminate.
    intros H. apply marshal_fields_emit in H. exists t. split; auto.
    unfold text_of. rewrite Ev, Em. reflexivity.
  - cbn [bind]. intros H. apply marshal_fields_emit in H. exists []. split; auto.
Qed.

(* the text of a value accepted by marshal_value has the declared length *)
Lemma marshal_value_len cb f v s : marshal_value cb f v = Ok s ->
  o_haslen (fi_opts f) = true -> Z.of_nat (length s) = o_len (fi_opts f).
Proof.
  unfold marshal_value. destruct (marshal1 cb f v) as [t| |]; cbn [bind]; try discriminate.
  intros H Hl. rewrite Hl in H. cbn [andb] in H.
  destruct (Z.of_nat (length t) =? o_len (fi_opts f)) eqn:E; cbn [negb] in H; [|discriminate].
  destruct (first_invalid (o_enc (fi_opts f)) t); [discriminate|]. inversion H; subst.
  apply Z.eqb_eq. exact E.
Qed.

Lemma emit_first cb sv : forall fs f rest, filter (pr sv) fs = f :: rest ->
  exists tl, emit cb sv fs None = kt cb sv f ++ tl.
Proof.
  induction fs as [|g r IH]; intros f rest H; cbn [filter emit] in *. discriminate.
  destruct (pr sv g) eqn:Eg.
  - inversion H; subst. cbn [sep app]. eauto.
  - eapply IH; eauto.
Qed.
