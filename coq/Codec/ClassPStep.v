(* Class round trip, part 5: conversion and assignment of one node, group lookup, class conditions on a
   suffix of the field list, and what the head fragment of the remaining fragments looks like. *)
Require Import GC.Base.Bytes GC.Codec.Types GC.Codec.Strconv GC.Codec.TypeInfo GC.Codec.Marshal
               GC.Codec.Unmarshal GC.Codec.Codec GC.Codec.Class GC.Codec.ClassPBase GC.Codec.ClassPRender
               GC.Codec.ClassPFrag.
Arguments Z.add : simpl never. Arguments Z.sub : simpl never. Arguments Z.of_nat : simpl never.
Arguments Z.leb : simpl never. Arguments Z.ltb : simpl never.

(* success of a conversion does not depend on the node kind or position (they only occur in errors) *)
Lemma convert_ok_indep cb nk nend nk' nend' f s v :
  convert cb nk nend f s = Ok v -> convert cb nk' nend' f s = Ok v.
Proof.
  unfold convert, mk_err.
  destruct (first_invalid (o_enc (fi_opts f)) s); [discriminate|].
  destruct (t_utext (fi_type f)).
  - destruct (cb_unmarshal cb n s); [auto|discriminate].
  - destruct (o_prefix (fi_opts f) && negb match t_kind (fi_type f) with KString => true | _ => false end);
      [discriminate|].
    destruct (t_kind (fi_type f)); auto; try discriminate.
    + destruct (ParseInt s (o_base (fi_opts f)) bits); [auto|discriminate].
    + destruct (ParseUint s (o_base (fi_opts f)) bits); [auto|discriminate].
Qed.

Lemma text_of_len cb sv f s : text_of cb f sv = Some s -> o_haslen (fi_opts f) = true ->
  Z.of_nat (length s) = o_len (fi_opts f).
Proof.
  unfold text_of. destruct (marshal_value cb f (value_of f sv)) eqn:E; try discriminate.
  intros H. inversion H; subst. eapply marshal_value_len; eauto.
Qed.

Lemma trim_key f s : match o_param (fi_opts f) with [] => keyof f ++ s | p => trim_prefix (p ++ [equals]) (keyof f ++ s) end = s.
Proof. unfold keyof. destruct (o_param (fi_opts f)). reflexivity. apply trim_prefix_app. Qed.

Lemma assign_noninline cb sv nk nend f s v :
  text_of cb f sv = Some s -> convert cb NValue 0 f s = Ok v -> f_inline f = false ->
  assign cb nk nend (keyof f ++ s) f = Ok (v, None).
Proof.
  intros Ht Hc Hi. unfold assign. rewrite trim_key. unfold f_inline in Hi. rewrite Hi.
  assert (Hcut : (if o_haslen (fi_opts f)
                  then if negb (Z.of_nat (length s) =? o_len (fi_opts f)) then @mk_err (bytes * option bytes) nk f nend MLength else Ok (s, None)
                  else Ok (s, None)) = Ok (s, None)).
  { destruct (o_haslen (fi_opts f)) eqn:El; auto.
    rewrite (text_of_len cb sv f s Ht El), Z.eqb_refl. reflexivity. }
  rewrite Hcut. cbn [bind]. rewrite (convert_ok_indep cb NValue 0 nk nend f s v Hc). reflexivity.
Qed.

Lemma assign_inline cb sv nend f s v rest :
  text_of cb f sv = Some s -> convert cb NValue 0 f s = Ok v -> f_inline f = true ->
  o_haslen (fi_opts f) = true -> has_param f = false ->
  assign cb NValue nend (s ++ rest) f = Ok (v, Some rest).
Proof.
  intros Ht Hc Hi Hl Hp. unfold assign. unfold f_inline in Hi. rewrite Hi, Hl.
  unfold has_param in Hp. destruct (o_param (fi_opts f)) as [|c q]; [|discriminate].
  pose proof (text_of_len cb sv f s Ht Hl) as Hlen.
  assert (E : (Z.of_nat (length (s ++ rest)) <? o_len (fi_opts f)) = false).
  { apply Z.ltb_ge. rewrite app_length, Nat2Z.inj_add. lia. }
  rewrite E. rewrite <- Hlen, Nat2Z.id, firstn_app_exact, skipn_app_exact. cbn [bind].
  rewrite (convert_ok_indep cb NValue 0 NValue nend f s v Hc). reflexivity.
Qed.

(* ---------- group lookup ---------- *)
Lemma find_member_none key : forall ns before,
  (forall n, In n ns -> has_prefix key (n_text n) = false) -> find_member key before ns = None.
Proof.
  induction ns as [|n r IH]; intros before H; cbn [find_member]. reflexivity.
  rewrite (H n (or_introl eq_refl)). apply IH. intros m Hm. apply H. right. exact Hm.
Qed.
Lemma find_member_some key : forall a before n c,
  (forall m, In m a -> has_prefix key (n_text m) = false) -> has_prefix key (n_text n) = true ->
  find_member key before (a ++ n :: c) = Some (before ++ a, n, c).
Proof.
  induction a as [|x a IH]; intros before n c Ha Hn; cbn [app find_member].
  - rewrite Hn, app_nil_r. reflexivity.
  - rewrite (Ha x (or_introl eq_refl)). rewrite IH; auto.
    + rewrite <- app_assoc. reflexivity.
    + intros m Hm. apply Ha. right. exact Hm.
Qed.

(* ---------- params ---------- *)
Definition params (fs : list finfo) : list bytes :=
  filter (fun p => negb (is_nil_b p)) (map (fun fi => o_param (fi_opts fi)) fs).
Definition pnodup (fs : list finfo) : Prop := nodup_bytes (params fs) = true.

Lemma keyof_param f : has_param f = true -> keyof f = o_param (fi_opts f) ++ [equals].
Proof. unfold has_param, keyof. destruct (o_param (fi_opts f)). discriminate. reflexivity. Qed.

Lemma pnodup_tail f r : pnodup (f :: r) -> pnodup r.
Proof.
  unfold pnodup, params. cbn [map filter]. destruct (negb (is_nil_b (o_param (fi_opts f)))); auto.
  cbn [nodup_bytes]. intros H. apply andb_true_iff in H. tauto.
Qed.
Lemma pnodup_head f r : pnodup (f :: r) -> has_param f = true ->
  forall g, In g r -> o_param (fi_opts g) <> o_param (fi_opts f).
Proof.
  unfold pnodup, params, has_param. cbn [map filter]. intros H Hp. rewrite Hp in H.
  cbn [nodup_bytes] in H. apply andb_true_iff in H. destruct H as [H _].
  apply negb_true_iff in H. intros g Hg E.
  assert (X : existsb (bytes_eqb (o_param (fi_opts f)))
               (filter (fun p => negb (is_nil_b p)) (map (fun fi => o_param (fi_opts fi)) r)) = true).
  { apply existsb_exists. exists (o_param (fi_opts g)). split.
    - apply filter_In. split. apply in_map_iff. exists g. auto. rewrite E. exact Hp.
    - rewrite E. apply bytes_eqb_refl. }
  congruence.
Qed.
(* same, the other way round: a field before f *)
Lemma pnodup_head_sym f r : pnodup (f :: r) ->
  forall g, In g r -> has_param g = true -> o_param (fi_opts g) <> o_param (fi_opts f).
Proof.
  intros H g Hg Hp E. destruct (has_param f) eqn:Ef.
  - eapply pnodup_head; eauto.
  - unfold has_param in *. rewrite E in Hp. congruence.
Qed.

Section S.
Variables (cb : callbacks) (sv : sval).
Notation kt := (kt cb sv).
Notation pr := (pr sv).
Notation mfrA := (mfrA cb sv).
Notation F := (F cb sv).
Notation haspr := (haspr sv).
Notation nopt := (nopt sv).
Notation fld_ok := (fld_ok cb sv).
Notation flds_ok := (flds_ok cb sv).

Definition lastne (fs : list finfo) : Prop :=
  match fs with [] => True | f :: r => kt (last r f) <> [] end.

Record Cls (fs : list finfo) : Prop := {
  c_shapes : shapes_ok fs = true;
  c_flds : flds_ok fs;
  c_params : pnodup fs;
  c_last : lastne fs;
  c_suffix : exists ab, suffix_rule fs sv ab = true }.

Lemma Cls_tail f r : Cls (f :: r) -> Cls r.
Proof.
  intros [H1 H2 H3 H4 [ab H5]]. constructor.
  - eapply shapes_tail; eauto.
  - intros g Hg. apply H2. right. exact Hg.
  - eapply pnodup_tail; eauto.
  - destruct r as [|g r']. exact I. unfold lastne in *. rewrite last_cons in H4. exact H4.
  - cbn [suffix_rule] in H5. destruct (f_omit f && negb (f_group f)).
    + destruct (present f sv). apply andb_true_iff in H5. destruct H5 as [_ H5]. eauto. eauto.
    + eauto.
Qed.

Lemma suffix_true_nopt : forall r, suffix_rule r sv true = true -> nopt r = 0.
Proof.
  induction r as [|f r IH]; intros H. reflexivity.
  cbn [suffix_rule ClassPBase.nopt] in *. unfold ClassPBase.pr.
  destruct (f_omit f && negb (f_group f)) eqn:E.
  - destruct (present f sv).
    + cbn in H. discriminate.
    + cbn [orb] in H. rewrite (IH H). reflexivity.
  - cbn [andb]. rewrite (IH H). reflexivity.
Qed.

(* an absent positional optional field: nothing optional follows *)
Lemma absent_positional_nopt f r : Cls (f :: r) -> pr f = false -> f_group f = false -> has_param f = false ->
  nopt r = 0.
Proof.
  intros [_ _ _ _ [ab H]] Hp Hg Hpar. cbn [suffix_rule] in H.
  rewrite (absent_omit sv f Hp), Hg in H. cbn [negb andb] in H. unfold ClassPBase.pr in Hp. rewrite Hp in H.
  unfold positional in H. rewrite Hpar, Hg in H. cbn [negb andb] in H. rewrite orb_true_r in H.
  apply suffix_true_nopt. exact H.
Qed.

Lemma Cls_nonlast_or f r : Cls (f :: r) -> kt f <> [] \/ haspr r = true.
Proof.
  intros H. destruct r as [|g r'].
  - left. exact (c_last _ H).
  - right. apply shapes_haspr. eapply shapes_tail. exact (c_shapes _ H). discriminate.
Qed.

(* a present plain field that is not inline is a fragment of its own *)
Lemma F_value f r : Cls (f :: r) -> pr f = true -> f_inline f = false -> f_group f = false ->
  F (f :: r) = TV (kt f) :: F r.
Proof.
  intros H Hp Hi Hg. rewrite (F_present cb sv f r Hp). rewrite mfrA_close; auto.
  apply Cls_nonlast_or. exact H.
Qed.

(* an inline field: its text sits in front of the following fragment *)
Lemma F_inline f r : Cls (f :: r) -> f_inline f = true ->
  pr f = true /\ o_haslen (fi_opts f) = true /\ has_param f = false /\ f_group f = false /\
  exists u rest, F r = TV u :: rest /\ F (f :: r) = TV (kt f ++ u) :: rest /\ noeq u.
Proof.
  intros H Hi. pose proof (c_shapes _ H) as Hs. apply shapes_cons in Hs. destruct Hs as [Hf Hr].
  destruct (sf_inline _ _ Hf Hi) as (Hl & _ & Hg & Hpar & nx & Enx & Hpos & Hom).
  destruct r as [|nx' r']; [discriminate|]. cbn [hd_error] in Enx. inversion Enx; subst nx'.
  assert (Hpf : pr f = true).
  { apply required_present. destruct (f_omit f) eqn:Eo; auto. rewrite (sf_omit _ _ Hf Eo) in Hi. discriminate. }
  split; [exact Hpf|]. split; [exact Hl|]. split; [exact Hpar|]. split; [exact Hg|].
  destruct (positional_inv nx Hpos) as [Hnp Hng].
  pose proof (required_present sv nx Hom) as Hpn.
  pose proof (Cls_tail _ _ H) as Hc'.
  assert (Hl' : kt (last r' nx) <> []).
  { pose proof (c_last _ H) as X. unfold lastne in X. rewrite last_cons in X. exact X. }
  destruct (mfrA_prep cb sv r' nx (kt f) (kt nx) Hr Hng Hl') as (u & rest & E1 & E2 & _ & E4).
  { pose proof (Cls_nonlast_or nx r' Hc'). tauto. }
  exists u, rest. split; [|split].
  - rewrite (F_present cb sv nx r' Hpn). exact E1.
  - rewrite (F_present cb sv f _ Hpf). cbn [ClassPBase.mfrA]. fold (ClassPBase.pr sv nx). rewrite Hpn, Hi. exact E2.
  - apply E4; auto.
    + intros g Hg'. apply (c_flds _ Hc'). right. exact Hg'.
    + apply (kt_positional_noeq cb sv); auto. apply (c_flds _ Hc'). left; reflexivity. exact Hpn.
Qed.

(* a group run starts *)
Lemma F_group_first f r b pi : Cls (f :: r) -> groups_shape_ok (f :: r) b 0 pi = true -> f_group f = true ->
  pr f = true /\ f_omit f = false /\ has_param f = true /\ f_inline f = false /\
  exists m2 r2, r = m2 :: r2 /\ f_group m2 = true /\ pr m2 = true /\ groups_shape_ok r true 1 false = true /\
    F (f :: r) = TG (kt f :: kt m2 :: map kt (filter pr (takeW r2))) :: F (dropW r2).
Proof.
  intros H Hgso Hg. destruct (gso_first _ _ _ _ Hgso Hg) as (_ & Hom & Hgso1).
  destruct (gso_second _ Hgso1) as (m2 & r2 & -> & Hg2 & Hom2 & Hgso2).
  pose proof (shapes_grp_wf _ (c_shapes _ H)) as Hw.
  destruct (Hw f (or_introl eq_refl) Hg) as [Hi Hpar].
  pose proof (required_present sv f Hom) as Hp. pose proof (required_present sv m2 Hom2) as Hp2.
  split; [exact Hp|]. split; [exact Hom|]. split; [exact Hpar|]. split; [exact Hi|].
  exists m2, r2. split; [reflexivity|]. split; [exact Hg2|]. split; [exact Hp2|]. split; [exact Hgso1|].
  apply F_run_start; auto.
  - intros x Hx. apply Hw. right. exact Hx.
  - apply (gso_dropW_nogrp sv r2 2); auto.
Qed.

(* the head of the remaining fragments does not carry the key of a field that is not among them *)
Lemma head_nomatch p : forall r b pi, Cls r -> groups_shape_ok r b 0 pi = true ->
  (forall g, In g r -> o_param (fi_opts g) <> p) ->
  forall fr rest, F r = fr :: rest ->
  match fr with TV u => has_prefix (p ++ [equals]) u = false | TG _ => True end.
Proof.
  induction r as [|g r IH]; intros b pi Hc Hgso Hp fr rest HF.
  - discriminate.
  - assert (Hp' : forall g0, In g0 r -> o_param (fi_opts g0) <> p) by (intros g0 H0; apply Hp; right; exact H0).
    destruct (f_group g) eqn:Eg.
    + destruct (F_group_first g r b pi Hc Hgso Eg) as (_ & _ & _ & _ & m2 & r2 & _ & _ & _ & _ & E).
      rewrite E in HF. inversion HF. exact I.
    + destruct (gso_plain _ _ _ _ _ Hgso Eg) as [_ Hgso'].
      destruct (pr g) eqn:Epg.
      * destruct (f_inline g) eqn:Ei.
        -- destruct (F_inline g r Hc Ei) as (_ & _ & Hpar & _ & u & rest' & _ & E & Hn).
           rewrite E in HF. inversion HF. apply key_noeq. apply noeq_app; auto.
           apply (kt_positional_noeq cb sv); auto. apply (c_flds _ Hc). left; reflexivity. exact Epg.
        -- rewrite (F_value g r Hc Epg Ei Eg) in HF. inversion HF.
           apply (key_kt cb sv). apply (c_flds _ Hc). left; reflexivity. exact Epg.
           intros E. apply (Hp g (or_introl eq_refl)). symmetry. exact E.
      * rewrite (F_absent cb sv g r Epg) in HF. eapply IH; eauto. eapply Cls_tail; eauto.
Qed.

End S.
