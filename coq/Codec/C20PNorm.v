(* C20 converse direction, part 4: an accepted integer text and its canonical spelling have the same normal
   form; the canonical spelling passes the alphabet check whenever the accepted text did. *)
Require Import GC.Base.Bytes GC.Base.CaseLib GC.Codec.Types GC.Codec.Strconv GC.Codec.StrconvProofs GC.Codec.TypeInfo
               GC.Codec.Marshal GC.Codec.Unmarshal GC.Codec.Codec GC.Codec.Class GC.Codec.ClassPBase GC.Codec.Respell
               GC.Codec.C20PBase.
Require Import GC.Parse.ParseModel GC.Parse.ParseSpec GC.Parse.ParseProofs.
Arguments Z.add : simpl never. Arguments Z.sub : simpl never. Arguments Z.of_nat : simpl never.
Arguments Z.leb : simpl never. Arguments Z.ltb : simpl never.

Definition nb_core (sign body v : bytes) : bytes :=
  match body with
  | [] => v
  | _ => if forallb is_alnum body then
           let z := strip_zeros (map lower body) in
           (if bytes_eqb z [48] then [] else sign) ++ z
         else v
  end.

Lemma norm_body_eq v :
  norm_body v = match v with
                | [] => []
                | c :: r => if c =? 45 then nb_core [45] r v else if c =? 43 then nb_core [] r v else nb_core [] v v
                end.
Proof.
  destruct v as [|c r]; [reflexivity|].
  destruct c as [|p|p]; try reflexivity.
  do 6 (destruct p as [p|p|]; try reflexivity).
Qed.

Definition drange (c : Z) : Prop := (48 <= c <= 57) \/ (97 <= c <= 122).

Lemma drange_alnum c : drange c -> is_alnum c = true.
Proof.
  unfold drange, is_alnum. intros [H|H].
  - assert ((48 <=? c) = true) by (apply Z.leb_le; lia). assert ((c <=? 57) = true) by (apply Z.leb_le; lia).
    rewrite H0, H1. reflexivity.
  - assert ((97 <=? c) = true) by (apply Z.leb_le; lia). assert ((c <=? 122) = true) by (apply Z.leb_le; lia).
    rewrite H0, H1. cbn [andb]. rewrite orb_true_r. reflexivity.
Qed.
Lemma drange_lower c : drange c -> lower c = c.
Proof.
  unfold drange, lower. intros H.
  destruct (Z.leb_spec 65 c), (Z.leb_spec c 90); cbn [andb]; try reflexivity. lia.
Qed.
Lemma alnum_not_sign c : is_alnum c = true -> (c =? 45) = false /\ (c =? 43) = false /\ c <> equals /\ is_delim c = false.
Proof.
  unfold is_alnum, is_delim, equals, dollar, comma. intros H.
  destruct (Z.eqb_spec c 45) as [->|]; [vm_compute in H; discriminate|].
  destruct (Z.eqb_spec c 43) as [->|]; [vm_compute in H; discriminate|].
  destruct (Z.eqb_spec c 36) as [->|]; [vm_compute in H; discriminate|].
  destruct (Z.eqb_spec c 44) as [->|]; [vm_compute in H; discriminate|].
  repeat split; auto. intros ->. vm_compute in H. discriminate.
Qed.

Lemma digit_alnum c d : digit_val c = Some d -> is_alnum c = true.
Proof.
  unfold digit_val, is_alnum.
  destruct ((48 <=? c) && (c <=? 57)); [reflexivity|].
  destruct ((97 <=? c) && (c <=? 122)); [reflexivity|].
  destruct ((65 <=? c) && (c <=? 90)); [reflexivity|discriminate].
Qed.

Lemma parse_digits_alnum base maxv : forall s a v, parse_digits base maxv a s = inl v -> forallb is_alnum s = true.
Proof.
  induction s as [|c r IH]; intros a v H; cbn [parse_digits forallb] in *. reflexivity.
  destruct (digit_val c) as [d|] eqn:Ed; [|discriminate].
  destruct (base <=? d); [discriminate|]. destruct (maxv <? a * base + d); [discriminate|].
  rewrite (digit_alnum c d Ed). cbn [andb]. eapply IH; eauto.
Qed.

Lemma ParseUint_alnum s base bits v : ParseUint s base bits = inl v -> s <> [] /\ forallb is_alnum s = true.
Proof.
  unfold ParseUint. destruct s as [|c r]; [discriminate|]. intros H. split; [discriminate|].
  eapply parse_digits_alnum; eauto.
Qed.

Lemma strip_zeros_idem : forall s, strip_zeros (strip_zeros s) = strip_zeros s.
Proof.
  induction s as [|a s IH]; [reflexivity|].
  destruct s as [|b r].
  - rewrite !strip_single. reflexivity.
  - destruct (Z.eq_dec a 48) as [->|n].
    + rewrite strip_zeros_48_cons. exact IH.
    + rewrite !strip_zeros_ne by assumption. reflexivity.
Qed.

Lemma map_lower_fixed z : Forall drange z -> map lower z = z.
Proof. induction 1 as [|c r Hc Hr IH]; cbn [map]. reflexivity. rewrite (drange_lower c Hc), IH. reflexivity. Qed.
Lemma Forall_drange_alnum z : Forall drange z -> forallb is_alnum z = true.
Proof. induction 1 as [|c r Hc Hr IH]; cbn [forallb]. reflexivity. rewrite (drange_alnum c Hc), IH. reflexivity. Qed.

(* the normal form of a non-empty alphanumeric text *)
Lemma norm_body_alnum body : body <> [] -> forallb is_alnum body = true ->
  norm_body body = strip_zeros (map lower body).
Proof.
  intros Hne Ha. rewrite norm_body_eq. destruct body as [|c r]; [congruence|].
  pose proof Ha as Ha'. cbn [forallb] in Ha'. apply andb_true_iff in Ha'. destruct Ha' as [Hc _].
  destruct (alnum_not_sign c Hc) as (E1 & E2 & _). rewrite E1, E2.
  unfold nb_core. rewrite Ha. destruct (bytes_eqb _ [48]); reflexivity.
Qed.

Section U.
Variables (base bits : Z).
Hypothesis Hb : 2 <= base <= 36.
Hypothesis Hbits : 1 <= bits <= 64.

Lemma FormatUint_zero : FormatUint 0 base = [48].
Proof.
  unfold FormatUint. cbn [fmt_digits]. rewrite Z.mod_0_l, Z.div_0_l by lia. reflexivity.
Qed.

Lemma FormatUint_48 v : 0 <= v < 2 ^ bits -> FormatUint v base = [48] -> v = 0.
Proof.
  intros Hv E. pose proof (parse_format_uint v base bits Hb Hbits Hv) as P. rewrite E in P.
  unfold ParseUint in P. cbn [parse_digits] in P. change (digit_val 48) with (Some 0) in P. cbv iota in P.
  destruct (Z.leb_spec base 0); [lia|].
  assert (2 ^ 1 <= 2 ^ bits) by (apply Z.pow_le_mono_r; lia).
  change (0 * base + 0) with (0 * base + 0) in P.
  destruct (Z.ltb_spec (2 ^ bits - 1) (0 * base + 0)); [lia|]. inversion P. lia.
Qed.

Lemma FormatUint_props v : 0 <= v < 2 ^ bits ->
  let z := FormatUint v base in
  z <> [] /\ Forall drange z.
Proof.
  intros Hv z. assert (Hv64 : 0 <= v < 2 ^ 64) by (pose proof (pow_bits bits Hbits); lia).
  destruct (format_uint_chars v base Hb Hv64) as [H1 H2]. split; [exact H1|exact H2].
Qed.

(* facts about an accepted unsigned text *)
Lemma uint_facts s v : ParseUint s base bits = inl v ->
  let z := FormatUint v base in
  0 <= v < 2 ^ bits /\ s <> [] /\ forallb is_alnum s = true /\
  z = strip_zeros (map lower s) /\ z <> [] /\ Forall drange z /\
  norm_body s = z /\ norm_body z = z /\ (v = 0 -> z = [48]) /\ (z = [48] -> v = 0).
Proof.
  intros H z. destruct (format_parse_uint s base bits v Hb Hbits H) as [FU Hv].
  destruct (ParseUint_alnum _ _ _ _ H) as [Hne Hal].
  destruct (FormatUint_props v Hv) as [Hzne Hzr]. fold z in Hzne, Hzr, FU.
  split; [exact Hv|]. split; [exact Hne|]. split; [exact Hal|]. split; [exact FU|].
  split; [exact Hzne|]. split; [exact Hzr|].
  split. { rewrite (norm_body_alnum s Hne Hal). symmetry. exact FU. }
  split. { rewrite (norm_body_alnum z Hzne (Forall_drange_alnum z Hzr)), (map_lower_fixed z Hzr).
           rewrite FU at 1. rewrite strip_zeros_idem. symmetry. exact FU. }
  split. { intros ->. apply FormatUint_zero. }
  apply FormatUint_48. exact Hv.
Qed.

Lemma nb_core_sign sign body v : body <> [] -> forallb is_alnum body = true ->
  nb_core sign body v = (if bytes_eqb (strip_zeros (map lower body)) [48] then [] else sign) ++ strip_zeros (map lower body).
Proof. intros Hne Ha. unfold nb_core. rewrite Ha. destruct body; [congruence|reflexivity]. Qed.

Lemma int_facts s v : ParseInt s base bits = inl v ->
  let z := FormatInt v base in
  noeq s /\ noeq z /\ no_delim z /\ z <> [] /\ norm_body z = norm_body s /\ (v = 0 -> norm_body s = [48]) /\
  (forall c, In c z -> drange c \/ (c = 45 /\ In 45 s)) /\
  (forall c r, z = c :: r -> c <> underscore).
Proof.
  intros H z. unfold ParseInt in H. destruct s as [|c r]; [discriminate|]. cbv zeta in H.
  set (body := if (c =? 43) || (c =? 45) then r else c :: r) in *.
  destruct (ParseUint body base bits) as [un|e] eqn:PU; [|discriminate].
  destruct (uint_facts body un PU) as (Hun & Hbne & Hbal & FU & Hzne & Hzr & NB1 & NB2 & Z1 & Z2).
  set (zu := FormatUint un base) in *.
  assert (Hzal : forallb is_alnum zu = true) by (apply Forall_drange_alnum; exact Hzr).
  assert (Hzu_noeq : noeq zu).
  { intros Hin. rewrite forallb_forall in Hzal. specialize (Hzal _ Hin). vm_compute in Hzal. discriminate. }
  assert (Hzu_nd : no_delim zu).
  { unfold no_delim. apply forallb_forall. intros x Hx. rewrite forallb_forall in Hzal.
    destruct (alnum_not_sign x (Hzal x Hx)) as (_ & _ & _ & X). rewrite X. reflexivity. }
  assert (Hbody_noeq : noeq body).
  { intros Hin. rewrite forallb_forall in Hbal. specialize (Hbal _ Hin). vm_compute in Hbal. discriminate. }
  assert (Hzu_first : forall c0 r0, zu = c0 :: r0 -> c0 <> underscore).
  { intros c0 r0 E ->. rewrite E in Hzr. inversion Hzr as [|? ? X _]. unfold drange, underscore in X. lia. }
  assert (Hzu_dr : forall c0, In c0 zu -> drange c0) by (apply Forall_forall; exact Hzr).
  assert (NBz : forall sg, nb_core sg zu (sg ++ zu) = (if bytes_eqb zu [48] then [] else sg) ++ zu).
  { assert (Hstrip : strip_zeros zu = zu) by (rewrite FU at 1; rewrite strip_zeros_idem; symmetry; exact FU).
    intros sg. rewrite (nb_core_sign sg zu _ Hzne Hzal), (map_lower_fixed zu Hzr), Hstrip. reflexivity. }
  destruct (c =? 45) eqn:E45; [apply Z.eqb_eq in E45; subst c|].
  - (* minus sign *)
    change (45 =? 43) with false in *. cbn [orb negb andb] in *. subst body.
    destruct (2 ^ (bits - 1) <? un); [discriminate|]. inversion H; subst v. clear H.
    assert (Hs_noeq : noeq (45 :: r)).
    { intros [X|X]; [discriminate|]. apply Hbody_noeq. exact X. }
    assert (NBs : norm_body (45 :: r) = (if bytes_eqb zu [48] then [] else [45]) ++ zu).
    { rewrite norm_body_eq. change (45 =? 45) with true. cbv iota.
      rewrite (nb_core_sign [45] r _ Hbne Hbal), <- FU. reflexivity. }
    destruct (Z.eq_dec un 0) as [->|Hnz].
    + subst z. change (- 0) with 0. unfold FormatInt. change (0 <? 0) with false. cbv iota.
      fold zu. rewrite (Z1 eq_refl) in *.
      split; [exact Hs_noeq|]. split; [exact Hzu_noeq|]. split; [exact Hzu_nd|]. split; [discriminate|].
      split; [rewrite NBs; reflexivity|]. split; [intros _; rewrite NBs; reflexivity|].
      split; [intros c0 Hc0; left; apply Hzu_dr; exact Hc0|]. exact Hzu_first.
    + assert (Hneg : (- un <? 0) = true) by (apply Z.ltb_lt; lia).
      subst z. unfold FormatInt. rewrite Hneg, Z.opp_involutive. fold zu.
      assert (Hz48 : bytes_eqb zu [48] = false).
      { apply bytes_eqb_neq. intros E. apply Hnz. apply Z2. exact E. }
      split; [exact Hs_noeq|].
      split. { intros [X|X]; [discriminate|]. apply Hzu_noeq. exact X. }
      split. { apply no_delim_cons. split; [reflexivity|exact Hzu_nd]. }
      split; [discriminate|].
      split. { rewrite NBs, Hz48. rewrite norm_body_eq. change (45 =? 45) with true. cbv iota.
               change (45 :: zu) with ([45] ++ zu). rewrite NBz, Hz48. reflexivity. }
      split; [intros X; lia|].
      split. { intros c0 [<-|Hc0]; [right; split; [reflexivity|left; reflexivity]|left; apply Hzu_dr; exact Hc0]. }
      intros c0 r0 E. inversion E. discriminate.
  - (* plus sign or none *)
    cbn [negb andb] in H.
    assert (Ebody : body = if c =? 43 then r else c :: r) by (unfold body; rewrite ?E45, orb_false_r; reflexivity).
    clearbody body.
    destruct (2 ^ (bits - 1) <=? un); [discriminate|]. inversion H; subst v. clear H.
    assert (Hnn : (un <? 0) = false) by (apply Z.ltb_ge; lia).
    subst z. unfold FormatInt. rewrite Hnn. fold zu.
    assert (NBzu : norm_body zu = zu) by exact NB2.
    assert (Hs_noeq : noeq (c :: r)).
    { revert Ebody. destruct (c =? 43) eqn:E43; intros Ebody; subst body.
      - apply Z.eqb_eq in E43. subst c. intros [X|X]; [discriminate|]. apply Hbody_noeq. exact X.
      - exact Hbody_noeq. }
    assert (NBs : norm_body (c :: r) = zu).
    { revert Ebody. destruct (c =? 43) eqn:E43; intros Ebody; subst body.
      - apply Z.eqb_eq in E43. subst c.
        rewrite norm_body_eq. change (43 =? 45) with false. change (43 =? 43) with true. cbv iota.
        rewrite (nb_core_sign [] r _ Hbne Hbal), <- FU. destruct (bytes_eqb zu [48]); reflexivity.
      - exact NB1. }
    split; [exact Hs_noeq|]. split; [exact Hzu_noeq|]. split; [exact Hzu_nd|]. split; [exact Hzne|].
    split; [rewrite NBs; exact NBzu|]. split; [intros ->; rewrite NBs; apply Z1; reflexivity|].
    split; [intros c0 Hc0; left; apply Hzu_dr; exact Hc0|]. exact Hzu_first.
Qed.

End U.

(* the digits and lower-case letters are in every alphabet *)
Lemma valid_drange e c : drange c -> valid_char e c = true.
Proof.
  intros H.
  assert (L : forallb (valid_char e) (map Z.of_nat (seq 48 10 ++ seq 97 26)) = true) by (destruct e; vm_compute; reflexivity).
  rewrite forallb_forall in L. apply L.
  replace c with (Z.of_nat (Z.to_nat c)) by (unfold drange in H; lia).
  apply in_map. apply in_or_app. unfold drange in H.
  destruct H as [H|H]; [left|right]; apply in_seq; lia.
Qed.

Lemma first_invalid_none e s : first_invalid e s = None <-> (forall c, In c s -> valid_char e c = true).
Proof.
  induction s as [|c r IH]; cbn [first_invalid].
  - split; [intros _ c []|reflexivity].
  - destruct (valid_char e c) eqn:E.
    + rewrite IH. split.
      * intros H x [<-|Hx]; auto.
      * intros H x Hx. apply H. right. exact Hx.
    + split; [discriminate|]. intros H. specialize (H c (or_introl eq_refl)). congruence.
Qed.
