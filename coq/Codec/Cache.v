(* C18: the type cache of hash/typeinfo.go (getTypeInfo) and the value / pointer / pointer-to-pointer forms
   of Marshal and Unmarshal.  Model and proofs (the proofs are short; the statements are in Properties/C18.v). *)
Require Import GC.Base.Bytes GC.Codec.Types GC.Codec.TypeInfo GC.Codec.Marshal GC.Codec.Unmarshal GC.Codec.Codec.

(* a reflect.Type handed to the codec: a struct type (by identifier) behind d pointers *)
Definition rtype := (nat * nat)%type.          (* (struct type id, pointer depth) *)
Definition rtype_eqb (a b : rtype) : bool := Nat.eqb (fst a) (fst b) && Nat.eqb (snd a) (snd b).

(* a cache entry: the normalized type information and the Struct field it was stored with *)
Record centry := { ce_ti : tinfo; ce_struct : rtype }.
Definition cache := list (rtype * centry).     (* sync.Map: at most one binding per key *)

Fixpoint cload (c : cache) (k : rtype) : option centry :=
  match c with
  | [] => None
  | (k', e) :: r => if rtype_eqb k' k then Some e else cload r k
  end.
(* LoadOrStore: returns the existing binding if there is one *)
Definition cload_or_store (c : cache) (k : rtype) (e : centry) : centry * cache :=
  match cload c k with
  | Some e' => (e', c)
  | None => (e, (k, e) :: c)
  end.

Section C.
Variable desc : nat -> list sfield.            (* the struct types of the program *)

(* getTypeInfo(t): Load(indirectType t); on a miss build, normalize, LoadOrStore under t itself;
   the result is a COPY whose Struct is set to t.  Returns the type info with its Struct, and the new cache. *)
Definition get_type_info (c : cache) (t : rtype) : res (tinfo * rtype) * cache :=
  match cload c (fst t, O) with
  | Some e => (Ok (ce_ti e, t), c)
  | None =>
    match type_info (desc (fst t)) with
    | Ok ti => let '(e, c') := cload_or_store c t {| ce_ti := ti; ce_struct := t |} in (Ok (ce_ti e, t), c')
    | Err x => (Err x, c)
    | Panic => (Panic, c)
    end
  end.

(* what a call reports: the outcome, and the Struct the error text would name (the type of the argument) *)
Inductive form := ByVal | ByPtr | ByPtrPtr.
Definition depth_of (f : form) : nat := match f with ByVal => 0 | ByPtr => 1 | ByPtrPtr => 2 end.

Inductive call :=
| CMarshal (ty : nat) (f : form) (sv : sval)
| CUnmarshal (ty : nat) (f : form) (h : bytes).

Inductive outcome :=
| OMarshal (r : res bytes) (struct : rtype)
| OUnmarshal (r : res (list (list nat * fval))) (struct : rtype)
| ONotPointer.                                  (* Unmarshal of a non-pointer: InvalidUnmarshalError *)

Definition run_call (cb : callbacks) (c : cache) (o : call) : outcome * cache :=
  match o with
  | CMarshal ty f sv =>
    let t := (ty, depth_of f) in
    match get_type_info c t with
    | (Ok (ti, s), c') => (OMarshal (marshal cb ti sv) s, c')
    | (Err x, c') => (OMarshal (Err x) t, c')
    | (Panic, c') => (OMarshal Panic t, c')
    end
  | CUnmarshal ty f h =>
    match f with
    | ByVal => (ONotPointer, c)
    | _ =>
      let t := (ty, depth_of f) in
      (* Unmarshal parses first, then asks for the type information *)
      match GC.Parse.ParseModel.parse h with
      | GC.Parse.ParseModel.PErr off m => (OUnmarshal (Err (ESyntax off m)) t, c)
      | GC.Parse.ParseModel.PStuck => (OUnmarshal Panic t, c)
      | GC.Parse.ParseModel.POk tr =>
        match get_type_info c t with
        | (Ok (ti, s), c') => (OUnmarshal (unmarshal_tree cb ti (length h) tr) s, c')
        | (Err x, c') => (OUnmarshal (Err x) t, c')
        | (Panic, c') => (OUnmarshal Panic t, c')
        end
      end
    end
  end.

Fixpoint run_calls (cb : callbacks) (c : cache) (os : list call) : list outcome * cache :=
  match os with
  | [] => ([], c)
  | o :: r => let '(x, c1) := run_call cb c o in
              let '(xs, c2) := run_calls cb c1 r in (x :: xs, c2)
  end.

(* ---- invariant: every cached entry holds exactly what normalize computes for its struct type ---- *)
Definition cache_ok (c : cache) : Prop :=
  forall k e, cload c k = Some e -> type_info (desc (fst k)) = Ok (ce_ti e).

Lemma cache_ok_nil : cache_ok [].
Proof. intros k e H. discriminate. Qed.

Lemma get_type_info_cold c t : cache_ok c ->
  fst (get_type_info c t) = fst (get_type_info [] t) /\ cache_ok (snd (get_type_info c t)).
Proof.
  intros Hc. unfold get_type_info. cbn [cload].
  destruct (cload c (fst t, O)) as [e|] eqn:El.
  - pose proof (Hc _ _ El) as Hti. cbn [fst] in Hti. rewrite Hti.
    unfold cload_or_store. cbn [cload fst snd]. split; [reflexivity|exact Hc].
  - destruct (type_info (desc (fst t))) as [ti|x|] eqn:Eti; cbn [fst snd]; try (split; [reflexivity|exact Hc]).
    unfold cload_or_store. cbn [cload].
    destruct (cload c t) as [e'|] eqn:El'.
    + pose proof (Hc _ _ El') as Hti. rewrite Eti in Hti. inversion Hti; subst. cbn [fst snd]. split; [reflexivity|exact Hc].
    + cbn [fst snd]. split; [reflexivity|].
      intros k e H. cbn [cload] in H. destruct (rtype_eqb t k) eqn:Ek.
      * inversion H; subst. cbn [ce_ti].
        unfold rtype_eqb in Ek. apply andb_true_iff in Ek. destruct Ek as [E1 _]. apply Nat.eqb_eq in E1. rewrite <- E1. exact Eti.
      * apply Hc. exact H.
Qed.

Lemma run_call_cold cb c o : cache_ok c ->
  fst (run_call cb c o) = fst (run_call cb [] o) /\ cache_ok (snd (run_call cb c o)).
Proof.
  intros Hc. destruct o as [ty f sv|ty f h]; unfold run_call.
  - destruct (get_type_info_cold c (ty, depth_of f) Hc) as [H1 H2].
    destruct (get_type_info c (ty, depth_of f)) as [r c'] eqn:E1.
    destruct (get_type_info [] (ty, depth_of f)) as [r0 c0] eqn:E0.
    cbn [fst snd] in H1, H2. subst r0.
    destruct r as [[ti s]|x|]; cbn [fst snd]; split; auto.
  - destruct f; cbn [fst snd]; try (split; [reflexivity|exact Hc]);
      (destruct (GC.Parse.ParseModel.parse h) as [tr|off m|]; cbn [fst snd]; try (split; [reflexivity|exact Hc]);
       match goal with |- context [get_type_info c ?t] =>
         destruct (get_type_info_cold c t Hc) as [H1 H2];
         destruct (get_type_info c t) as [r c'] eqn:E1;
         destruct (get_type_info [] t) as [r0 c0] eqn:E0;
         cbn [fst snd] in H1, H2; subst r0;
         destruct r as [[ti s]|x|]; cbn [fst snd]; split; auto
       end).
Qed.

(* every call of any history returns what the same call returns on the empty cache *)
Theorem history_independent cb : forall os c, cache_ok c ->
  fst (run_calls cb c os) = map (fun o => fst (run_call cb [] o)) os.
Proof.
  induction os as [|o r IH]; intros c Hc; cbn [run_calls map]. reflexivity.
  destruct (run_call_cold cb c o Hc) as [H1 H2].
  destruct (run_call cb c o) as [x c1] eqn:E1. cbn [fst snd] in H1, H2.
  specialize (IH c1 H2). destruct (run_calls cb c1 r) as [xs c2]. cbn [fst] in *.
  rewrite H1, IH. reflexivity.
Qed.

(* the three forms marshal to the same string (or the same error), whatever the history *)
Theorem forms_agree cb c ty sv f1 f2 : cache_ok c ->
  match fst (run_call cb c (CMarshal ty f1 sv)), fst (run_call cb c (CMarshal ty f2 sv)) with
  | OMarshal r1 _, OMarshal r2 _ => r1 = r2
  | _, _ => False
  end.
Proof.
  intros Hc.
  destruct (run_call_cold cb c (CMarshal ty f1 sv) Hc) as [H1 _].
  destruct (run_call_cold cb c (CMarshal ty f2 sv) Hc) as [H2 _].
  rewrite H1, H2. unfold run_call, get_type_info, cload_or_store. cbn [cload fst snd].
  destruct (type_info (desc ty)) as [ti|x|]; simpl; reflexivity.
Qed.
End C.
