(* C20 converse direction, part 7: the value texts of what Marshal writes, as chunks; facts about parse results;
   looking a field up in the value Unmarshal returns; building the relation between accepted and canonical
   items. *)
Require Import GC.Base.Bytes GC.Base.CaseLib GC.Codec.Types GC.Codec.Strconv GC.Codec.TypeInfo GC.Codec.Marshal
               GC.Codec.Unmarshal GC.Codec.Codec GC.Codec.Class GC.Codec.ClassPBase GC.Codec.ClassPRender
               GC.Codec.ClassPFrag GC.Codec.ClassPStep GC.Codec.ClassPLoop GC.Codec.ClassPAgree GC.Codec.ClassPParse
               GC.Codec.Respell GC.Codec.C20PBase GC.Codec.C20PStep GC.Codec.C20PLoop.
Require Import GC.Parse.ParseModel GC.Parse.ParseSpec GC.Parse.ParseProofs.
Require Import Coq.Sorting.Permutation.
Arguments Z.add : simpl never. Arguments Z.sub : simpl never. Arguments Z.of_nat : simpl never.
Arguments Z.leb : simpl never. Arguments Z.ltb : simpl never.

(* ---------- value texts of the fragments Marshal's output parses to ---------- *)
Definition flatT (f : tfrag) : list bytes := match f with TV t => [t] | TG ts => ts end.
Definition pinl (prev : option finfo) : bool := match prev with None => true | Some p => f_inline p end.

Section M.
Variables (cb : callbacks) (sv : sval).
Notation kt := (kt cb sv).
Notation pr := (pr sv).
Notation mfrA := (mfrA cb sv).

Definition pitem (f : finfo) : list item := if pr f then [(f_inline f, kt f)] else [].
Definition pitems (fs : list finfo) : list item := flat_map pitem fs.

Lemma flat_closeT g cur : flatT (closeT g cur) = glT g ++ [cur].
Proof. destruct g; reflexivity. Qed.

Lemma mfrA_flat : forall fs prev g cur,
  flat_map flatT (mfrA fs prev g cur)
  = glT g ++ dle (if pinl prev then chunks (pitems fs) (Some cur) else cur :: chunks (pitems fs) None).
Proof.
  induction fs as [|f r IH]; intros prev g cur.
  - cbn [ClassPBase.mfrA pitems flat_map chunks].
    assert (E : dle (if pinl prev then [cur] else [cur]) = if is_nil_b cur then [] else [cur])
      by (destruct (pinl prev); reflexivity).
    rewrite E. destruct cur as [|c cur']; cbn [is_nil_b].
    + destruct g as [l|]; cbn [flat_map flatT glT app]; rewrite ?app_nil_r; reflexivity.
    + cbn [flat_map]. rewrite flat_closeT, app_nil_r. reflexivity.
  - cbn [ClassPBase.mfrA]. unfold pitems. cbn [flat_map]. fold (pitems r). unfold pitem.
    fold (ClassPBase.pr sv f). destruct (pr f) eqn:Ep; cbn [app]; [|apply IH].
    assert (Hacc : flat_map flatT (mfrA r (Some f) g (cur ++ kt f))
                   = glT g ++ dle (chunks ((f_inline f, kt f) :: pitems r) (Some cur))).
    { rewrite IH. cbn [pinl chunks ptext]. reflexivity. }
    assert (Hnew : forall g', flat_map flatT (mfrA r (Some f) g' (kt f))
                   = glT g' ++ dle (chunks ((f_inline f, kt f) :: pitems r) None)).
    { intros g'. rewrite IH. cbn [pinl chunks ptext app]. reflexivity. }
    assert (Hne : chunks ((f_inline f, kt f) :: pitems r) None <> []).
    { cbn [chunks]. destruct (f_inline f); [apply chunks_some_nonnil|discriminate]. }
    destruct prev as [p|]; cbn [pinl].
    + destruct (f_inline p).
      * exact Hacc.
      * rewrite dle_cons by exact Hne. destruct (f_group p && f_group f).
        -- rewrite Hnew. cbn [glT]. rewrite <- app_assoc. reflexivity.
        -- cbn [flat_map]. rewrite flat_closeT, Hnew. cbn [glT app]. rewrite <- app_assoc. reflexivity.
    + exact Hacc.
Qed.

Lemma dle_chunks_start l : dle (chunks l (Some [])) = dle (chunks l None).
Proof. destruct l as [|x l']; [reflexivity|]. rewrite chunks_some_nil by discriminate. reflexivity. Qed.

Lemma F_flat fs : flat_map flatT (F cb sv fs) = dle (chunks (pitems fs) None).
Proof. unfold F. rewrite mfrA_flat. cbn [glT pinl app]. apply dle_chunks_start. Qed.

End M.

Lemma nodes_flat : forall l, map snd (flat_map values_of l) = flat_map flatT (map tfr l).
Proof.
  induction l as [|f l IH]; [reflexivity|].
  change (flat_map values_of (f :: l)) with (values_of f ++ flat_map values_of l).
  change (flat_map flatT (map tfr (f :: l))) with (flatT (tfr f) ++ flat_map flatT (map tfr l)).
  rewrite map_app. f_equal; [destruct f; reflexivity|exact IH].
Qed.

(* ---------- parse results ---------- *)
Lemma prefix_shaped_dollar id d : id <> [] -> no_delim id -> is_delim d = true ->
  prefix_shaped (dollar :: id ++ [d]) = true.
Proof.
  intros Hne Hid Hd. unfold prefix_shaped. rewrite parse_eq. unfold parse_fn.
  change (dollar =? dollar) with true. cbv iota.
  rewrite (break_delim_app id d [] Hid Hd). destruct id as [|i0 id']; [congruence|].
  cbn [body_tree prefix frags sc is_nil_b opt_eqb]. rewrite bytes_eqb_refl. reflexivity.
Qed.

Lemma parse_info s t : parse s = POk t ->
  match prefix t with
  | Some p => prefix_shaped p = true /\ exists body, s = p ++ body /\ frags t = sc [] (length p) (length p) body None
  | None => frags t = sc [] 0 0 s None /\
            (s = [] \/ exists c r, s = c :: r /\ (c =? dollar) = false /\ (c =? underscore) = false)
  end.
Proof.
  rewrite parse_eq. unfold parse_fn. destruct s as [|c r].
  - intros H. inversion H. cbn [prefix body_tree frags]. split; [reflexivity|left; reflexivity].
  - destruct (c =? dollar) eqn:Ed.
    + apply Z.eqb_eq in Ed. subst c.
      destruct (break_delim r) as [a [[d b]|]] eqn:E.
      * destruct a as [|i0 a]; [discriminate|]. intros H. inversion H. cbn [prefix body_tree frags].
        apply break_delim_some in E. destruct E as (-> & Ha & Hd).
        split; [apply (prefix_shaped_dollar (i0 :: a) d); [discriminate|exact Ha|exact Hd]|].
        exists b. split; [|reflexivity]. cbn [app]. rewrite <- app_assoc. reflexivity.
      * destruct a; discriminate.
    + destruct (c =? underscore) eqn:Eu.
      * apply Z.eqb_eq in Eu. subst c. intros H. inversion H. cbn [prefix body_tree frags].
        split; [reflexivity|]. exists r. split; reflexivity.
      * intros H. inversion H. cbn [prefix body_tree frags]. split; [reflexivity|]. right. eauto.
Qed.

Lemma parse_noprefix e :
  (e = [] \/ exists c r, e = c :: r /\ (c =? dollar) = false /\ (c =? underscore) = false) ->
  parse e = POk (body_tree None 0 e).
Proof.
  intros [->|(c & r & -> & H1 & H2)].
  - rewrite parse_eq. reflexivity.
  - apply parse_body_noprefix; assumption.
Qed.

(* the first fragment of a body: when a group is pending it is a group; otherwise, if it is a value, its text
   starts with what has been read so far *)
Lemma sc_group_first : forall r cur start pos l, exists vs rest, sc cur start pos r (Some l) = FG vs :: rest.
Proof.
  induction r as [|c r IH]; intros cur start pos l; cbn [sc].
  - destruct cur; cbn [close]; eauto.
  - destruct (c =? dollar); [cbn [close]; eauto|]. destruct (c =? comma); apply IH.
Qed.

Lemma sc_value_first : forall r cur start pos v rest,
  sc cur start pos r None = FV v :: rest -> cur <> [] -> exists u, snd v = rev cur ++ u.
Proof.
  induction r as [|c r IH]; intros cur start pos v rest H Hc; cbn [sc] in H.
  - destruct cur as [|x cur']; [congruence|]. cbn [close] in H. inversion H. exists []. rewrite app_nil_r. reflexivity.
  - destruct (c =? dollar).
    + cbn [close] in H. inversion H. exists []. rewrite app_nil_r. reflexivity.
    + destruct (c =? comma).
      * exfalso. match type of H with sc ?a ?b ?c ?d (Some ?l) = _ =>
          destruct (sc_group_first d a b c l) as (vs & rest' & E);
          pose proof (eq_trans (eq_sym E) H) as X; discriminate X end.
      * apply IH in H; [|discriminate]. destruct H as [u Hu]. cbn [rev] in Hu. rewrite <- app_assoc in Hu.
        eauto.
Qed.

Lemma first_value_char c r v rest : (c =? dollar) = false ->
  sc [] 0 0 (c :: r) None = FV v :: rest -> exists w, snd v = c :: w.
Proof.
  intros Hd H. cbn [sc] in H. rewrite Hd in H. destruct (c =? comma).
  - exfalso. match type of H with sc ?a ?b ?c ?d (Some ?l) = _ =>
      destruct (sc_group_first d a b c l) as (vs & rest' & E);
          pose proof (eq_trans (eq_sym E) H) as X; discriminate X end.
  - apply sc_value_first in H; [|discriminate]. destruct H as [u Hu]. cbn [rev app] in Hu. eauto.
Qed.

(* ---------- looking up fields in the returned value ---------- *)
Lemma lookup_unique {A} : forall (l : list (list nat * A)) p v,
  In (p, v) l -> (forall v', In (p, v') l -> v' = v) -> lookup_path p l = Some v.
Proof.
  induction l as [|[q w] l IH]; intros p v Hin Hu. destruct Hin.
  cbn [lookup_path]. destruct (path_eqb q p) eqn:E.
  - apply path_eqb_eq in E. subst q. f_equal. apply Hu. left. reflexivity.
  - apply IH.
    + destruct Hin as [X|X]; [|exact X]. inversion X; subst. rewrite path_eqb_refl in E. discriminate.
    + intros v' Hv'. apply Hu. right. exact Hv'.
Qed.
Lemma lookup_none {A} : forall (l : list (list nat * A)) p, (forall v, ~ In (p, v) l) -> lookup_path p l = None.
Proof.
  induction l as [|[q w] l IH]; intros p H. reflexivity.
  cbn [lookup_path]. destruct (path_eqb q p) eqn:E.
  - apply path_eqb_eq in E. subst q. exfalso. apply (H w). left. reflexivity.
  - apply IH. intros v Hv. apply (H v). right. exact Hv.
Qed.

Lemma lookup_map_fields (g : finfo -> fval) : forall (all : list finfo) f,
  nodup_paths (map fi_index all) = true -> In f all ->
  lookup_path (fi_index f) (map (fun fi => (fi_index fi, g fi)) all) = Some (g f).
Proof.
  intros all f Hn Hf. apply lookup_unique.
  - apply in_map_iff. exists f. auto.
  - intros v' Hv'. apply in_map_iff in Hv'. destruct Hv' as (h & Eh & Hh). inversion Eh as [[E1 E2]].
    assert (h = f) by (eapply nodup_paths_inj; eauto). subst h. reflexivity.
Qed.

Lemma nodup_paths_NoDup : forall (l : list finfo), nodup_paths (map fi_index l) = true -> NoDup l.
Proof.
  induction l as [|a l IH]; intros H. constructor.
  cbn [map nodup_paths] in H. apply andb_true_iff in H. destruct H as [H1 H2]. constructor; [|apply IH; exact H2].
  intros Hin. apply negb_true_iff in H1.
  assert (existsb (path_eqb (fi_index a)) (map fi_index l) = true).
  { apply existsb_exists. exists (fi_index a). split; [apply in_map; exact Hin|apply path_eqb_refl]. }
  congruence.
Qed.

Lemma NoDup_fst_unique {A B} : forall (l : list (A * B)) a b b',
  NoDup (map fst l) -> In (a, b) l -> In (a, b') l -> b = b'.
Proof.
  induction l as [|[x y] l IH]; intros a b b' Hn H1 H2. destruct H1.
  cbn [map fst] in Hn. inversion Hn as [|? ? Hx Hn']; subst.
  destruct H1 as [E1|H1], H2 as [E2|H2].
  - congruence.
  - inversion E1; subst. exfalso. apply Hx. apply in_map_iff. exists (a, b'). auto.
  - inversion E2; subst. exfalso. apply Hx. apply in_map_iff. exists (a, b). auto.
  - eapply IH; eauto.
Qed.

Lemma in_outs sts p v : In (p, v) (outs sts) <-> exists f t, In (f, Some (t, v)) sts /\ fi_index f = p.
Proof.
  unfold outs. rewrite in_flat_map. split.
  - intros ([f o] & Hx & Hin). destruct o as [[t w]|]; cbn [aout] in Hin; [|destruct Hin].
    destruct Hin as [E|[]]. inversion E; subst. eauto.
  - intros (f & t & Hin & <-). exists (f, Some (t, v)). split; [exact Hin|left; reflexivity].
Qed.

(* ---------- accepted items against canonical items ---------- *)
Section R.
Variables (cb : callbacks) (sv : sval).

(* what is known of one field status under the returned value *)
Definition stq (x : fstat) : Prop :=
  match x with
  | (f, None) => f_omit f = true /\ pr sv f = false
  | (f, Some (t, _)) =>
    (pr sv f = false /\ f_omit f = true /\ explicit_empty (norm_text (keyof f ++ t)) = true)
    \/ (pr sv f = true /\ exists s0, kt cb sv f = keyof f ++ s0 /\
          norm_text (keyof f ++ s0) = norm_text (keyof f ++ t) /\ (plain_int f = false -> s0 = t))
  end.

Lemma pitems_cons f r : pitems cb sv (f :: r) = pitem cb sv f ++ pitems cb sv r.
Proof. reflexivity. Qed.

Lemma build_irel : forall sts pi,
  Forall stq sts -> shapes_ok (map fst sts) = true -> inline_next_exact (map fst sts) = true ->
  (forall f, In f (map fst sts) -> plain_int f = true -> f_inline f = false) ->
  (pi = true -> exists nx tv r, sts = (nx, Some tv) :: r /\ plain_int nx = false /\ f_omit nx = false) ->
  irel pi (aitems sts) (pitems cb sv (map fst sts)).
Proof.
  induction sts as [|[f o] r IH]; intros pi HQ Hsh Hin Hpi Hhead.
  - cbn. constructor.
  - inversion HQ as [|? ? Hq HQ']; subst. cbn [map fst] in *.
    pose proof (shapes_cons _ _ Hsh) as [Hf Hsr].
    cbn [inline_next_exact] in Hin. apply andb_true_iff in Hin. destruct Hin as [Hin1 Hin2].
    assert (Hpi' : forall g, In g (map fst r) -> plain_int g = true -> f_inline g = false).
    { intros g Hg. apply Hpi. right. exact Hg. }
    (* the condition handed to the tail when f is inline *)
    assert (Hnext : f_inline f = true ->
              exists nx tv r', r = (nx, Some tv) :: r' /\ plain_int nx = false /\ f_omit nx = false).
    { intros Hi. destruct (sf_inline _ _ Hf Hi) as (_ & _ & _ & _ & nx & Enx & _ & Hom).
      destruct r as [|[nx' o'] r']; [discriminate|]. cbn [map fst hd_error] in Enx. inversion Enx; subst nx'.
      rewrite Hi in Hin1. cbn [map fst] in Hin1. apply negb_true_iff in Hin1.
      destruct o' as [tv|].
      - exists nx, tv, r'. auto.
      - inversion HQ' as [|? ? Hq' _]; subst. cbn [stq] in Hq'. destruct Hq' as [X _]. congruence. }
    rewrite pitems_cons. unfold aitems. cbn [flat_map]. fold (aitems r).
    destruct o as [[t v]|]; cbn [stq aitem] in *.
    + destruct Hq as [(Hp & Hom & He)|(Hp & s0 & Hk & Hn & Hs)].
      * (* dropped *)
        unfold pitem. rewrite Hp. cbn [app].
        assert (pi = false).
        { destruct pi; auto. destruct (Hhead eq_refl) as (nx & tv & r' & E & _ & X). inversion E; subst. congruence. }
        subst pi. rewrite (sf_omit _ _ Hf Hom). apply ir_drop; [exact He|].
        apply IH; auto. discriminate.
      * unfold pitem. rewrite Hp, Hk. cbn [app].
        destruct (plain_int f) eqn:Epi.
        -- assert (pi = false).
           { destruct pi; auto. destruct (Hhead eq_refl) as (nx & tv & r' & E & X & _). inversion E; subst. congruence. }
           subst pi. rewrite (Hpi f (or_introl eq_refl) Epi). apply ir_norm; [symmetry; exact Hn|].
           apply IH; auto. discriminate.
        -- rewrite (Hs eq_refl). apply ir_exact. apply IH; auto.
    + destruct Hq as [Hom Hp]. unfold pitem. rewrite Hp. cbn [app].
      assert (pi = false).
      { destruct pi; auto. destruct (Hhead eq_refl) as (nx & tv & r' & E & _). inversion E. }
      subst pi. apply IH; auto. discriminate.
Qed.

End R.
