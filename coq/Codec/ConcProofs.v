(* C08: proofs about the step model of concurrent getTypeInfo calls (Codec/Conc.v). *)
Require Import GC.Base.Bytes GC.Codec.Types GC.Codec.TypeInfo GC.Codec.Cache GC.Codec.Conc.

(* ---------- sanity tests on small instances ---------- *)
Module Sanity.
  Definition desc0 : nat -> list sfield := fun _ => [].
  Definition callsA : list rtype := [(0%nat, 1%nat); (1%nat, 0%nat); (0%nat, 0%nat)].
  Definition callsB : list rtype := [(0%nat, 1%nat); (0%nat, 2%nat); (1%nat, 1%nat)].
  Definition scheds : list (list nat) :=
    [ [0;0;0;0;0;0;1;1;1;1;1;1];
      [0;1;0;1;0;1;0;1;0;1;0;1];
      [0;1;1;0;0;1;1;0;0;1;1;0;2;5];
      [1;1;0;0;1;0;1;0;0;0;1;1;1;0];
      [0;1;1;1;1;1;1] ]%nat.
  Definition results_match (ws : bool) (sched : list nat) : Prop :=
    map th_results (snd (run desc0 ws sched init_state (map init_thread [callsA; callsB])))
    = map (fun p => map (isolated desc0) (firstn (length (th_results (fst p))) (snd p)))
          (combine (snd (run desc0 ws sched init_state (map init_thread [callsA; callsB]))) [callsA; callsB]).
  Goal Forall (fun sc => results_match false sc /\ results_match true sc) scheds.
  Proof. repeat constructor; vm_compute; reflexivity. Qed.
  Definition wr_pub (e : logentry) : bool := match e with (_, WrObj _, true) => true | _ => false end.
  Definition racy (ws : bool) (sched : list nat) : bool :=
    existsb wr_pub (c_log (fst (run desc0 ws sched init_state (map init_thread [callsA; callsB])))).
  Eval vm_compute in type_info [].
  Eval vm_compute in map (racy false) scheds.
  Eval vm_compute in map (racy true) scheds.
  Eval vm_compute in map (fun sc => map (fun th => (length (th_todo th), length (th_results th)))
                                        (snd (run desc0 false sc init_state (map init_thread [callsA; callsB])))) scheds.
  Eval vm_compute in c_log (fst (run desc0 true [0;0;1;1]%nat init_state (map init_thread [[(0%nat,1%nat)]; [(0%nat,1%nat)]]))).
  Eval vm_compute in c_log (fst (run desc0 true [0;1;0;1]%nat init_state (map init_thread [[(0%nat,1%nat)]; [(0%nat,1%nat)]]))).
End Sanity.

(* ---------- run over a concatenated schedule ---------- *)
Lemma run_app desc ws : forall a b s ths,
  run desc ws (a ++ b) s ths = let '(s', ths') := run desc ws a s ths in run desc ws b s' ths'.
Proof.
  induction a as [|tid a IH]; intros b s ths; cbn [app run].
  - reflexivity.
  - destruct (nth_error ths tid) as [th|].
    + destruct (step desc ws tid s th) as [s' th']. apply IH.
    + apply IH.
Qed.

(* ---------- (i) the current code never writes a published object ---------- *)
Lemma race_free_nil : race_free [].
Proof. intros e []. Qed.

Lemma race_free_app l1 l2 : race_free l1 -> race_free l2 -> race_free (l1 ++ l2).
Proof. intros H1 H2 e He. apply in_app_or in He. destruct He as [He|He]; [exact (H1 e He)|exact (H2 e He)]. Qed.

Lemma step_race_free desc tid s th :
  race_free (c_log s) -> race_free (c_log (fst (step desc false tid s th))).
Proof.
  intros Hs. unfold step.
  destruct (th_todo th) as [|t rest]; [exact Hs|].
  destruct (th_pc th).
  - destruct (cfind (c_cache s) (fst t, O)) as [o|]; [|exact Hs].
    unfold finish_call; cbn [fst c_log app].
    apply race_free_app; [exact Hs|]. intros e [<-|[]]. exact I.
  - destruct (type_info (desc (fst t))) as [ti|x|]; try exact Hs.
    cbn [c_cache].
    destruct (cfind (c_cache s) t) as [o'|]; unfold finish_call; cbn [fst c_log app];
      (apply race_free_app; [apply race_free_app; [exact Hs|intros e [<-|[]]; exact I]|intros e [<-|[]]; exact I]).
Qed.

Lemma run_race_free desc : forall sched s ths,
  race_free (c_log s) -> race_free (c_log (fst (run desc false sched s ths))).
Proof.
  induction sched as [|tid r IH]; intros s ths Hs; cbn [run].
  - exact Hs.
  - destruct (nth_error ths tid) as [th|]; [|apply IH; exact Hs].
    pose proof (step_race_free desc tid s th Hs) as H.
    destruct (step desc false tid s th) as [s' th']. apply IH. exact H.
Qed.

Theorem conc_race_free : forall desc sched ths,
  (forall th, In th ths -> th_pc th = PStart /\ th_results th = []) ->
  race_free (c_log (fst (run desc false sched init_state ths))).
Proof. intros desc sched ths _. apply run_race_free. exact race_free_nil. Qed.

(* ---------- (ii) every completed call returns what it returns in isolation ---------- *)
Definition sinv (desc : nat -> list sfield) (s : cstate) : Prop :=
  forall k o, In (k, o) (c_cache s) -> (o < c_next s)%nat /\ obj_ti s o = type_info (desc (fst k)).

Definition tinv (desc : nat -> list sfield) (th : thread) (cs : list rtype) : Prop :=
  exists pre, cs = pre ++ th_todo th /\ th_results th = map (isolated desc) pre.

Lemma sinv_init desc : sinv desc init_state.
Proof. intros k o []. Qed.

Lemma tinv_init desc cs : tinv desc (init_thread cs) cs.
Proof. exists []. split; reflexivity. Qed.

Lemma cfind_In c k o : cfind c k = Some o -> exists k', In (k', o) c /\ fst k' = fst k.
Proof.
  unfold cfind. destruct (find (fun p => rtype_eqb (fst p) k) c) as [[k' o']|] eqn:E; [|discriminate].
  intros H. inversion H; subst. apply find_some in E. destruct E as [Hin He]. cbn [fst snd] in *.
  exists k'. split; [exact Hin|].
  unfold rtype_eqb in He. apply andb_true_iff in He. destruct He as [He _]. apply Nat.eqb_eq in He. exact He.
Qed.

Lemma tinv_advance desc th cs t rest r :
  tinv desc th cs -> th_todo th = t :: rest -> r = isolated desc t ->
  tinv desc {| th_todo := tl (th_todo th); th_pc := PStart; th_results := th_results th ++ [r] |} cs.
Proof.
  intros [pre [Hc Hr]] Ht ->. exists (pre ++ [t]). cbn [th_todo th_results]. rewrite Ht in *. cbn [tl]. split.
  - rewrite <- app_assoc. exact Hc.
  - rewrite map_app, Hr. reflexivity.
Qed.

Lemma finish_call_inv desc ws tid s o t rest th cs :
  sinv desc s -> obj_ti s o = type_info (desc (fst t)) -> th_todo th = t :: rest -> tinv desc th cs ->
  sinv desc (fst (finish_call ws tid s o t th)) /\ tinv desc (snd (finish_call ws tid s o t th)) cs.
Proof.
  intros Hs Ho Ht Hth. unfold finish_call. cbn [fst snd]. split.
  - exact Hs.
  - eapply tinv_advance; eauto. unfold isolated. rewrite Ho. reflexivity.
Qed.

Lemma step_inv desc ws tid s th cs :
  sinv desc s -> tinv desc th cs ->
  sinv desc (fst (step desc ws tid s th)) /\ tinv desc (snd (step desc ws tid s th)) cs.
Proof.
  intros Hs Hth. unfold step.
  destruct (th_todo th) as [|t rest] eqn:Ht; [split; assumption|].
  destruct (th_pc th).
  - destruct (cfind (c_cache s) (fst t, O)) as [o|] eqn:Ef.
    + apply cfind_In in Ef. destruct Ef as [k' [Hin Hk]]. cbn [fst] in Hk.
      apply (finish_call_inv desc ws tid s o t rest th cs Hs); auto.
      destruct (Hs _ _ Hin) as [_ H]. rewrite H, Hk. reflexivity.
    + cbn [fst snd]. split; [exact Hs|].
      destruct Hth as [pre [Hc Hr]]. exists pre. cbn [th_todo th_results]. rewrite Ht in Hc. split; assumption.
  - destruct (type_info (desc (fst t))) as [ti|x|] eqn:Eti.
    + set (s1 := {| c_cache := c_cache s; c_objs := (c_next s, Ok ti) :: c_objs s; c_next := S (c_next s);
                    c_log := c_log s ++ [(tid, WrObj (c_next s), false)] |}).
      assert (Hs1 : sinv desc s1).
      { intros k o Hin. cbn [c_cache s1] in Hin. destruct (Hs _ _ Hin) as [Hlt Hti]. split.
        - cbn [c_next s1]. lia.
        - unfold obj_ti. cbn [c_objs s1 find fst].
          destruct (Nat.eqb (c_next s) o) eqn:E; [apply Nat.eqb_eq in E; lia|]. exact Hti. }
      destruct (cfind (c_cache s1) t) as [o'|] eqn:Ef.
      * apply cfind_In in Ef. destruct Ef as [k' [Hin Hk]].
        apply (finish_call_inv desc ws tid s1 o' t rest th cs Hs1); auto.
        destruct (Hs1 _ _ Hin) as [_ H]. rewrite H, Hk. reflexivity.
      * set (s2 := {| c_cache := _; c_objs := _; c_next := _; c_log := _ |}).
        assert (Hnew : obj_ti s2 (c_next s) = type_info (desc (fst t))).
        { unfold obj_ti. cbn [c_objs s2 s1 find fst snd]. rewrite Nat.eqb_refl. cbn [snd]. symmetry. exact Eti. }
        assert (Hs2 : sinv desc s2).
        { intros k o Hin. cbn [c_cache s2] in Hin. destruct Hin as [E|Hin].
          - inversion E; subst k o. split; [cbn; lia|exact Hnew].
          - exact (Hs1 _ _ Hin). }
        apply (finish_call_inv desc ws tid s2 (c_next s) t rest th cs Hs2); auto.
    + cbn [fst snd]. split; [exact Hs|]. rewrite <- Ht. eapply tinv_advance; eauto. unfold isolated. rewrite Eti. reflexivity.
    + cbn [fst snd]. split; [exact Hs|]. rewrite <- Ht. eapply tinv_advance; eauto. unfold isolated. rewrite Eti. reflexivity.
Qed.

Lemma Forall2_set_nth {A B} (P : A -> B -> Prop) x' : forall l l2 i x,
  Forall2 P l l2 -> nth_error l i = Some x -> (forall y, P x y -> P x' y) -> Forall2 P (set_nth l i x') l2.
Proof.
  induction l as [|a l IH]; intros l2 i x HF Hn HP.
  - destruct i; discriminate.
  - inversion HF as [|a0 b l0 l2' Hab HF']; subst. destruct i as [|i]; cbn [set_nth nth_error] in *.
    + inversion Hn; subst. constructor; auto.
    + constructor; [exact Hab|]. eapply IH; eauto.
Qed.

Lemma set_nth_length {A} (v : A) : forall l i, length (set_nth l i v) = length l.
Proof. induction l as [|a l IH]; intros [|i]; cbn [set_nth length]; auto. Qed.

Lemma Forall2_nth_error_l {A B} (P : A -> B -> Prop) : forall l l2 i x,
  Forall2 P l l2 -> nth_error l i = Some x -> exists y, nth_error l2 i = Some y /\ P x y.
Proof.
  induction l as [|a l IH]; intros l2 i x HF Hn.
  - destruct i; discriminate.
  - inversion HF; subst. destruct i as [|i]; cbn [nth_error] in *.
    + inversion Hn; subst. eauto.
    + eauto.
Qed.

Lemma run_inv desc ws : forall sched s ths calls,
  sinv desc s -> Forall2 (tinv desc) ths calls ->
  sinv desc (fst (run desc ws sched s ths)) /\ Forall2 (tinv desc) (snd (run desc ws sched s ths)) calls.
Proof.
  induction sched as [|tid r IH]; intros s ths calls Hs HF; cbn [run].
  - split; assumption.
  - destruct (nth_error ths tid) as [th|] eqn:En; [|apply IH; assumption].
    destruct (step desc ws tid s th) as [s' th'] eqn:Est.
    apply IH.
    + destruct (Forall2_nth_error_l _ _ _ _ _ HF En) as [cs [_ Hcs]].
      pose proof (step_inv desc ws tid s th cs Hs Hcs) as H. rewrite Est in H. apply H.
    + eapply Forall2_set_nth; eauto. intros cs Hcs.
      pose proof (step_inv desc ws tid s th cs Hs Hcs) as H. rewrite Est in H. apply H.
Qed.

Lemma tinv_results desc th cs :
  tinv desc th cs -> th_results th = map (isolated desc) (firstn (length (th_results th)) cs).
Proof.
  intros [pre [Hc Hr]]. rewrite Hr at 2. rewrite map_length. subst cs.
  rewrite firstn_app, Nat.sub_diag, firstn_all. cbn [firstn]. rewrite app_nil_r. exact Hr.
Qed.

Lemma Forall2_mono {A B} (P Q : A -> B -> Prop) :
  (forall a b, P a b -> Q a b) -> forall l l2, Forall2 P l l2 -> Forall2 Q l l2.
Proof. intros HPQ l l2 H. induction H; constructor; auto. Qed.

Theorem conc_results : forall desc ws sched calls,
  let '(s, ths') := run desc ws sched init_state (map init_thread calls) in
  Forall2 (fun th cs => th_results th = map (isolated desc) (firstn (length (th_results th)) cs)) ths' calls.
Proof.
  intros desc ws sched calls.
  assert (H0 : Forall2 (tinv desc) (map init_thread calls) calls).
  { induction calls as [|c cl IH]; cbn [map]; constructor; [apply tinv_init|exact IH]. }
  destruct (run_inv desc ws sched init_state _ calls (sinv_init desc) H0) as [_ H].
  destruct (run desc ws sched init_state (map init_thread calls)) as [s ths']. cbn [snd] in H.
  apply (Forall2_mono _ _ (tinv_results desc) _ _ H).
Qed.

(* ---------- (iii) the historical variant writes a published object ---------- *)
Theorem conc_pinned_refuted : exists desc sched ths,
  ~ race_free (c_log (fst (run desc true sched init_state ths))).
Proof.
  exists (fun _ => []), [0; 0; 1; 1]%nat,
         [init_thread [(0%nat, 1%nat)]; init_thread [(0%nat, 1%nat)]].
  intros H.
  (* thread 1's LoadOrStore returned thread 0's published object 0, and thread 1 wrote it *)
  apply (H (1%nat, WrObj 0, true)).
  vm_compute. tauto.
Qed.

Print Assumptions run_app.
Print Assumptions conc_race_free.
Print Assumptions conc_results.
Print Assumptions conc_pinned_refuted.
