(* Top-level entry points of the codec model, the concrete text-(un)marshaler behaviours of the shipped
   types and of the harness's test types, and decidable comparisons for the correspondence. *)
Require Import GC.Base.Bytes GC.Base.CaseLib GC.Codec.Types GC.Codec.Strconv GC.Codec.TypeInfo
               GC.Codec.Marshal GC.Codec.Unmarshal GC.Parse.ParseModel GC.Schemes.Consts.

Definition marshal_top (cb : callbacks) (st : list sfield) (sv : sval) : res bytes :=
  bind (type_info st) (fun ti => marshal cb ti sv).

(* Unmarshal parses first, then builds the type information *)
Definition unmarshal_top (cb : callbacks) (st : list sfield) (h : bytes) : res (list (list nat * fval)) :=
  match parse h with
  | PErr off m => Err (ESyntax off m)
  | PStuck => Panic
  | POk t => bind (type_info st) (fun ti => unmarshal_tree cb ti (length h) t)
  end.

(* ---- text types ---- *)
(* 10..19: hashPrefix types: UnmarshalText accepts exactly a whitelist and stores the text *)
Definition prefix_whitelist (id : nat) : option (list bytes) :=
  match id with
  | 10%nat => Some [m_des_Prefix]
  | 11%nat => Some [m_desext_Prefix]
  | 12%nat => Some [m_md5_Prefix]
  | 13%nat => Some [m_nthash_Prefix]
  | 14%nat => Some [m_sha1_Prefix]
  | 15%nat => Some [m_sha256_Prefix]
  | 16%nat => Some [m_sha512_Prefix]
  | 17%nat => Some [m_bcrypt_Prefix2; m_bcrypt_Prefix2a; m_bcrypt_Prefix2b]
  | 18%nat => Some [m_argon2_Prefix2d; m_argon2_Prefix2i; m_argon2_Prefix2id]
  | 19%nat => Some [m_sunmd5_PrefixNonZeroRounds; m_sunmd5_PrefixZeroRounds]
  | _ => None
  end.

Definition unsupported_prefix_msg (s : bytes) : bytes := 1 :: s.   (* "unsupported prefix <s>", abstracted *)

(* descrypt.EncodeInt / DecodeInt over hashutil.HashEncoding *)
Definition hash_encode_idx (i : Z) : Z := nth (Z.to_nat i) m_hashutil_hash_encode 255.
Definition hash_decode_chr (c : Z) : Z := nth (Z.to_nat c) m_hashutil_hash_decode 255.
Definition EncodeInt (v : Z) : bytes :=
  map (fun i => hash_encode_idx (Z.land (Z.shiftr v (6 * i)) 63)) [0; 1; 2; 3].
Fixpoint DecodeInt_from (b : bytes) (i : Z) (fuel : nat) : Z :=
  match fuel, b with
  | S f, c :: r => (Z.shiftl (hash_decode_chr c) (6 * i) + DecodeInt_from r (i + 1) f) mod 2 ^ 32
  | _, _ => 0
  end.
Definition DecodeInt (b : bytes) : Z := DecodeInt_from b 0 4.

(* bcrypt.hashCost.MarshalText: two decimal digits *)
Definition cost_text (v : Z) : bytes := if v <? 10 then 48 :: FormatUint v 10 else FormatUint v 10.

(* harness test types: 100 hex16 (uint16, 4 lower-case hex digits both ways),
   101 revstr (string, reversed both ways), 102 picky (string; marshal fails on "fail", unmarshal on "bad") *)
Definition s_fail : bytes := [102;97;105;108].
Definition s_bad : bytes := [98;97;100].
Definition pad4 (s : bytes) : bytes := repeat 48 (4 - length s) ++ s.
Definition is_lower_hex (c : Z) : bool := ((48 <=? c) && (c <=? 57)) || ((97 <=? c) && (c <=? 102)).

Definition std_cb : callbacks := {|
  cb_marshal := fun id v =>
    match id, v with
    | 20%nat, VUint z => TOk (cost_text z)
    | 21%nat, VUint z => TOk (EncodeInt z)
    | 100%nat, VUint z => TOk (pad4 (FormatUint z 16))
    | 101%nat, VStr s => TOk (rev s)
    | 102%nat, VStr s => if bytes_eqb s s_fail then TErr [2] else TOk s
    | _, _ => TErr [0]
    end;
  cb_unmarshal := fun id s =>
    match prefix_whitelist id with
    | Some wl => if existsb (bytes_eqb s) wl then TOk (VStr s) else TErr (unsupported_prefix_msg s)
    | None =>
      match id with
      | 21%nat => TOk (VUint (DecodeInt s))
      | 100%nat => if Nat.eqb (length s) 4 && forallb is_lower_hex s
                   then match ParseUint s 16 16 with inl z => TOk (VUint z) | inr _ => TErr [3] end
                   else TErr [3]
      | 101%nat => TOk (VStr (rev s))
      | 102%nat => if bytes_eqb s s_bad then TErr [4] else TOk (VStr s)
      | _ => TErr [0]
      end
    end |}.

(* ---- comparisons ---- *)
Definition fval_eqb (a b : fval) : bool :=
  match a, b with
  | VStr x, VStr y | VBytes x, VBytes y | VArr x, VArr y => bytes_eqb x y
  | VInt x, VInt y | VUint x, VUint y => x =? y
  | VNil, VNil => true
  | VOther _, VOther _ => true
  | _, _ => false
  end.
Definition is_zero_val (v : fval) : bool :=
  match v with
  | VStr s | VBytes s => is_nil_b s
  | VArr s => forallb (fun c => c =? 0) s
  | VInt z | VUint z => z =? 0
  | VNil | VOther _ => true
  end.
Definition emsg_eqb (a b : emsg) : bool :=
  match a, b with
  | MLength, MLength | MUnsupported, MUnsupported | MPrefixNotFound, MPrefixNotFound
  | MUnexpectedEOF, MUnexpectedEOF | MExcessiveFragment, MExcessiveFragment
  | MExcessivePrefix, MExcessivePrefix | MNotFound, MNotFound => true
  | MInvalidChar x, MInvalidChar y => x =? y
  | MText x, MText y => bytes_eqb x y
  | MParse x, MParse y => Bool.eqb x y
  | _, _ => false
  end.
Definition nk_eqb (a b : node_kind) : bool :=
  match a, b with
  | NPrefix, NPrefix | NGroup, NGroup | NValue, NValue | NEOF, NEOF => true
  | _, _ => false
  end.
Definition cerr_eqb (a b : cerr) : bool :=
  match a, b with
  | EUnsupportedType f, EUnsupportedType g => bytes_eqb f g
  | EUnsupportedValue f m, EUnsupportedValue g n => bytes_eqb f g && emsg_eqb m n
  | EInvalidTag f, EInvalidTag g => bytes_eqb f g
  | ETagParam a1 a2, ETagParam b1 b2 => bytes_eqb a1 b1 && bytes_eqb a2 b2
  | EUnmarshal k f o m, EUnmarshal k' f' o' m' => nk_eqb k k' && bytes_eqb f f' && Nat.eqb o o' && emsg_eqb m m'
  | ESyntax o m, ESyntax o' m' => Nat.eqb o o' && bytes_eqb m m'
  | _, _ => false
  end.

(* observed outcome of Marshal / Unmarshal as the harness reports it *)
Inductive obs (A : Type) := OOk (a : A) | OErr (e : cerr) | OPanic.
Arguments OOk {A}. Arguments OErr {A}. Arguments OPanic {A}.

Definition ok_marshal (c : list sfield * sval * obs bytes) : bool :=
  let '(st, sv, o) := c in
  match marshal_top std_cb st sv, o with
  | Ok s, OOk s' => bytes_eqb s s'
  | Err e, OErr e' => cerr_eqb e e'
  | Panic, OPanic => true
  | _, _ => false
  end.

Definition values_agree (model obs : list (list nat * fval)) : bool :=
  forallb (fun pv => match lookup_path (fst pv) model with
                     | Some mv => fval_eqb mv (snd pv)
                     | None => is_zero_val (snd pv)
                     end) obs
  && forallb (fun pv => match lookup_path (fst pv) obs with Some _ => true | None => false end) model.

Definition ok_unmarshal (c : list sfield * bytes * obs (list (list nat * fval))) : bool :=
  let '(st, h, o) := c in
  match unmarshal_top std_cb st h, o with
  | Ok m, OOk v => values_agree m v
  | Err e, OErr e' => cerr_eqb e e'
  | Panic, OPanic => true
  | _, _ => false
  end.
