(* C20 converse direction, part 9: every side condition of C20_converse is satisfiable (the shipped layouts, see
   C20PShipped.v) and necessary: for each one, a layout and an accepted string that meet all the other conditions
   and for which the conclusion fails.  All by computation in the model. *)
Require Import GC.Base.Bytes GC.Base.CaseLib GC.Codec.Types GC.Codec.TypeInfo GC.Codec.Marshal GC.Codec.Unmarshal
               GC.Codec.Codec GC.Codec.Class GC.Codec.Respell GC.Codec.C20Test GC.Parse.ParseModel
               GC.Codec.ClassProofs GC.Codec.C20PBase GC.Codec.C20Proofs GC.Codec.C20PShipped.
Require Import Coq.Strings.String Coq.Strings.Ascii.

Definition b (s : string) : bytes := map (fun c => Z.of_nat (nat_of_ascii c)) (list_ascii_of_string s).
Definition ft k := {| t_kind := k; t_ptr := 0%nat; t_mtext := None; t_utext := None |}.
Definition fld (name tag : string) (k : kind) := SField (b name) true false (b tag) true (TField (ft k)).
Definition fldt (name tag : string) (t : ftype) := SField (b name) true false (b tag) true (TField t).

Lemma respell_b_complete s s' : respell s s' -> respell_b s s' = true.
Proof. intros (t & t' & H1 & H2 & H3). unfold respell_b. rewrite H1, H2. exact H3. Qed.

(* Unmarshal accepts h, and Marshal of the returned value fails or writes something h is not a respelling of *)
Definition c20_fails (cb : callbacks) (ti : tinfo) (h : bytes) : bool :=
  match unmarshal cb ti h with
  | Ok m => match marshal cb ti (sval_of m) with Ok s' => negb (respell_b h s') | _ => true end
  | _ => false
  end.

Lemma c20_fails_sound cb ti h : c20_fails cb ti h = true ->
  exists m, unmarshal cb ti h = Ok m /\ ~ (exists s', marshal cb ti (sval_of m) = Ok s' /\ respell h s').
Proof.
  unfold c20_fails. destruct (unmarshal cb ti h) as [m| |]; try discriminate. intros H. exists m.
  split; [reflexivity|]. intros (s' & Hm & Hr). rewrite Hm in H. rewrite (respell_b_complete _ _ Hr) in H.
  discriminate.
Qed.

(* the conditions, as a vector: (unambiguous, paths_ok, ints_unsized), (params_noeq, arrays_sized, ints_wf),
   (inline_next_exact, headed, prefix_plain_ok), std_ok (=> cb_coherent std_cb), and whether C20 fails on h *)
Definition flags (st : list sfield) (h : bytes) :=
  match type_info st with
  | Ok ti => Some ((unambiguous ti, paths_ok ti, ints_unsized ti), (params_noeq ti, arrays_sized ti, ints_wf ti),
                   (inline_next_exact (ti_fields ti), headed ti, prefix_plain_ok ti), std_ok ti,
                   c20_fails std_cb ti h)
  | _ => None
  end.

(* headed: an optional keyed first field written as an explicit zero, followed by a text starting with '_':
   Marshal drops the zero and its output then starts with a prefix *)
Definition L_headed := [fld "A" "param:a,omitempty" (KUint 32); fld "B" "enc:none" KString].
Example cx_headed : flags L_headed (b "a=0$_x")
  = Some ((true, true, true), (true, true, true), (true, false, true), true, true).
Proof. vm_compute. reflexivity. Qed.

(* inline_next_exact: a plain integer glued to an inline field: "abc007" comes back as "abc7" *)
Definition L_inline := [fld "HashPrefix" "" KString; fld "S" "length:3,inline" KString; fld "N" "" (KUint 32)].
Example cx_inline_next : flags L_inline (b "$1$abc007")
  = Some ((true, true, true), (true, true, true), (false, true, true), true, true).
Proof. vm_compute. reflexivity. Qed.

(* arrays_sized: [8]byte with length:4: Unmarshal pads to 8 bytes, Marshal then reports a length mismatch *)
Definition L_array := [fld "HashPrefix" "" KString; fld "S" "length:4" (KArray 8)].
Example cx_arrays_sized : flags L_array (b "$1$abcd")
  = Some ((true, true, true), (true, false, true), (true, true, true), true, true).
Proof. vm_compute. reflexivity. Qed.

(* cb_coherent (round trip): the harness type "picky" unmarshals "fail" and refuses to marshal it *)
Definition L_picky := [fld "HashPrefix" "" KString;
  fldt "S" "" {| t_kind := KString; t_ptr := 0%nat; t_mtext := Some 102%nat; t_utext := Some 102%nat |}].
Example cx_coherent_rt : flags L_picky (b "$1$fail")
  = Some ((true, true, true), (true, true, true), (true, true, true), false, true).
Proof. vm_compute. reflexivity. Qed.

(* cb_coherent (empty values): an optional field of the desext rounds type: "...." decodes to 0, Marshal omits
   the field, and "r=...." is not an explicitly empty text *)
Definition L_desext_omit := [fld "HashPrefix" "" KString;
  fldt "R" "param:r,omitempty,length:4" {| t_kind := KUint 32; t_ptr := 0%nat; t_mtext := Some 21%nat; t_utext := Some 21%nat |};
  fld "S" "" KString].
Example cx_coherent_empty : flags L_desext_omit (b "$1$r=....$x")
  = Some ((true, true, true), (true, true, true), (true, true, true), false, true).
Proof. vm_compute. reflexivity. Qed.

(* params_noeq: a param name with '=': the digits after "a=b=" are respelled but norm_text splits at the first '=' *)
Definition L_param_eq := [fld "HashPrefix" "" KString; fld "N" "param:a=b" (KUint 32); fld "S" "" KString].
Example cx_params_noeq : flags L_param_eq (b "$1$a=b=007$x")
  = Some ((true, true, true), (false, true, true), (true, true, true), true, true).
Proof. vm_compute. reflexivity. Qed.

(* params_noeq, in a group: keys "a=" and "a=b=" both match the member "a=b=1"; the member "a=2" is never read *)
Definition L_param_eq_group := [fld "HashPrefix" "" KString; fld "A" "param:a,group,enc:none" KString;
  fld "B" "param:a=b,group,enc:none" KString; fld "S" "" KString].
Example cx_params_noeq_group : flags L_param_eq_group (b "$1$a=b=1,a=2$x")
  = Some ((true, true, true), (false, true, true), (true, true, true), true, true).
Proof. vm_compute. reflexivity. Qed.

(* prefix_plain_ok: an optional HashPrefix of type []byte: the string without prefix is accepted, Marshal then
   reports an unsupported type *)
Definition L_prefix_bytes := [fld "HashPrefix" "omitempty" KBytes; fld "S" "" KString].
Example cx_prefix_plain : flags L_prefix_bytes (b "x")
  = Some ((true, true, true), (true, true, true), (true, true, false), true, true).
Proof. vm_compute. reflexivity. Qed.

(* ints_wf: an integer type wider than 64 bits (not a Go type): FormatUint writes at most 70 digits *)
Definition L_wide := [fld "HashPrefix" "" KString; fld "N" "base:2" (KUint 100)].
Example cx_ints_wf : flags L_wide (b "$1$" ++ repeat 49 71)
  = Some ((true, true, true), (true, true, false), (true, true, true), true, true).
Proof. vm_compute. reflexivity. Qed.

(* ints_unsized (already in C20Test.v): a plain integer with a length: "03" is read as 3, "3" has the wrong length *)
Definition L_sized_int := [fld "HashPrefix" "" KString; fld "N" "length:2" (KUint 8)].
Example cx_ints_unsized : flags L_sized_int (b "$1$03")
  = Some ((true, true, false), (true, true, true), (true, true, true), true, true).
Proof. vm_compute. reflexivity. Qed.

(* as stated in C20Test.v (arbitrary callbacks, no further side conditions) the property is false *)
Theorem C20_statement_false : ~ C20_statement.
Proof.
  intros H.
  destruct (type_info L_headed) as [ti| |] eqn:E; [|vm_compute in E; discriminate|vm_compute in E; discriminate].
  assert (F : flags L_headed (b "a=0$_x") = Some ((true, true, true), (true, true, true), (true, false, true), true, true))
    by exact cx_headed.
  unfold flags in F. rewrite E in F. injection F as F1 F2 F3 F4 F5 F6 F7 F8 F9 F10 F11.
  destruct (c20_fails_sound std_cb ti _ F11) as (m & Hu & Hn).
  apply Hn. apply (H std_cb ti _ m); auto.
  apply type_info_numreq in E. exact E.
Qed.

(* the coherence hypothesis fails for the two text-type examples (by the theorem itself) *)
Theorem picky_not_coherent : forall ti, type_info L_picky = Ok ti -> ~ cb_coherent std_cb ti.
Proof.
  intros ti E Hc.
  assert (F : flags L_picky (b "$1$fail") = Some ((true, true, true), (true, true, true), (true, true, true), false, true))
    by exact cx_coherent_rt.
  unfold flags in F. rewrite E in F. injection F as F1 F2 F3 F4 F5 F6 F7 F8 F9 F10 F11.
  destruct (c20_fails_sound std_cb ti _ F11) as (m & Hu & Hn).
  apply Hn. apply (C20_converse std_cb ti _ m); auto.
Qed.

Print Assumptions C20_statement_false.
Print Assumptions picky_not_coherent.
