(* C20 converse direction, part 2: what a successful assignment and a successful step of the field loop of
   Unmarshal say (inversion lemmas). *)
Require Import GC.Base.Bytes GC.Codec.Types GC.Codec.Strconv GC.Codec.TypeInfo GC.Codec.Marshal
               GC.Codec.Unmarshal GC.Codec.Codec GC.Codec.Class GC.Codec.ClassPBase GC.Codec.ClassPRender
               GC.Codec.ClassPFrag GC.Codec.ClassPStep GC.Codec.ClassPLoop GC.Codec.C20PBase.
Require Import GC.Parse.ParseModel GC.Parse.ParseSpec GC.Parse.ParseProofs.
Arguments Z.add : simpl never. Arguments Z.sub : simpl never. Arguments Z.of_nat : simpl never.
Arguments Z.leb : simpl never. Arguments Z.ltb : simpl never.

Definition key_trim (f : finfo) (text : bytes) : bytes :=
  match o_param (fi_opts f) with [] => text | p => trim_prefix (p ++ [equals]) text end.

Lemma assign_inv cb nk nend text f v rest :
  assign cb nk nend text f = Ok (v, rest) ->
  (rest = None /\ convert cb nk nend f (key_trim f text) = Ok v /\ len_ok f (key_trim f text) /\
   (o_haslen (fi_opts f) && o_inline (fi_opts f)) = false)
  \/ (o_haslen (fi_opts f) = true /\ o_inline (fi_opts f) = true /\
      o_len (fi_opts f) <= Z.of_nat (length (key_trim f text)) /\
      rest = Some (skipn (Z.to_nat (o_len (fi_opts f))) (key_trim f text)) /\
      convert cb nk nend f (firstn (Z.to_nat (o_len (fi_opts f))) (key_trim f text)) = Ok v).
Proof.
  unfold assign. fold (key_trim f text). set (s0 := key_trim f text). unfold len_ok.
  destruct (o_haslen (fi_opts f)) eqn:Hl.
  - destruct (o_inline (fi_opts f)) eqn:Hi.
    + destruct (Z.of_nat (length s0) <? o_len (fi_opts f)) eqn:E; [discriminate|].
      destruct nk; try discriminate. cbn [bind].
      destruct (convert cb NValue nend f _) as [w| |] eqn:Ec; cbn [bind]; try discriminate.
      intros H. inversion H; subst. right. apply Z.ltb_ge in E. repeat split; auto.
    + destruct (Z.of_nat (length s0) =? o_len (fi_opts f)) eqn:E; cbn [negb]; [|discriminate].
      cbn [bind]. destruct (convert cb nk nend f s0) as [w| |] eqn:Ec; cbn [bind]; try discriminate.
      intros H. inversion H; subst. left. apply Z.eqb_eq in E. repeat split; auto.
  - cbn [bind]. destruct (convert cb nk nend f s0) as [w| |] eqn:Ec; cbn [bind]; try discriminate.
    intros H. inversion H; subst. left. repeat split; auto. discriminate.
Qed.

Lemma key_trim_eq f text :
  match o_param (fi_opts f) with [] => true | p => has_prefix (p ++ [equals]) text end = true ->
  text = keyof f ++ key_trim f text.
Proof.
  unfold keyof, key_trim. destruct (o_param (fi_opts f)) as [|c q]. reflexivity.
  apply trim_has_prefix.
Qed.

(* ---------- one step ---------- *)
Definition gsel (fr : ufrag) (s : ust) : list unode * Z :=
  match fr with
  | UG ns => match u_group s with
             | None => (ns, Z.of_nat (length ns))
             | Some g0 => (g0, u_ngv s)
             end
  | UV n => ([n], 1)
  end.

Definition core_eq (s s1 : ust) : Prop :=
  u_frags s1 = u_frags s /\ u_idx s1 = u_idx s /\ u_group s1 = u_group s /\ u_ngv s1 = u_ngv s /\
  u_out s1 = u_out s.

Definition upd_node (n : unode) (rest : option bytes) : unode :=
  match rest with Some t => {| n_end := n_end n; n_text := t |} | None => n end.

Lemma step_main_inv cb hl f s s1 : step_main cb hl f s = Next s1 ->
  (f_omit f = true /\ core_eq s s1)
  \/ (f_omit f = true /\ f_group f = true /\ exists ns,
        nth_error (u_frags s) (u_idx s) = Some (UG ns) /\
        find_member (o_param (fi_opts f) ++ [equals]) [] (fst (gsel (UG ns) s)) = None /\
        u_frags s1 = u_frags s /\ u_idx s1 = u_idx s /\ u_out s1 = u_out s /\
        u_group s1 = Some (fst (gsel (UG ns) s)) /\ u_ngv s1 = snd (gsel (UG ns) s))
  \/ (f_group f = true /\ exists fr before n after v rest,
        nth_error (u_frags s) (u_idx s) = Some fr /\
        ((exists ns, fr = UG ns) \/ f_omit f = false) /\
        find_member (o_param (fi_opts f) ++ [equals]) [] (fst (gsel fr s)) = Some (before, n, after) /\
        assign cb NValue (n_end n) (n_text n) f = Ok (v, rest) /\ fi_embptr f = [] /\
        u_frags s1 = match fr, rest with
                     | UV _, Some _ => set_frag (u_frags s) (u_idx s) (UV (upd_node n rest))
                     | _, _ => u_frags s
                     end /\
        u_idx s1 = u_idx s /\ u_out s1 = (fi_index f, v) :: u_out s /\
        u_group s1 = Some (before ++ upd_node n rest :: after) /\
        u_ngv s1 = snd (gsel fr s) - 1)
  \/ (f_group f = false /\ exists n v rest,
        nth_error (u_frags s) (u_idx s) = Some (UV n) /\
        match o_param (fi_opts f) with [] => true | p => has_prefix (p ++ [equals]) (n_text n) end = true /\
        assign cb NValue (n_end n) (n_text n) f = Ok (v, rest) /\ fi_embptr f = [] /\
        u_frags s1 = match rest with
                     | Some t => set_frag (u_frags s) (u_idx s) (UV {| n_end := n_end n; n_text := t |})
                     | None => u_frags s
                     end /\
        u_idx s1 = (if f_inline f then u_idx s else S (u_idx s)) /\
        u_out s1 = (fi_index f, v) :: u_out s /\ u_group s1 = u_group s /\ u_ngv s1 = u_ngv s).
Proof.
  unfold step_main, f_omit, f_group, f_inline, core_eq. cbv zeta.
  destruct (nth_error (u_frags s) (u_idx s)) as [fr|] eqn:Enth.
  2:{ destruct (o_omit (fi_opts f)) eqn:Eo; [|discriminate]. intros H. inversion H; subst. left. tauto. }
  destruct (o_omit (fi_opts f) && match u_group s with None => true | Some _ => false end
            && (u_nv s - u_nr s <=? 0)) eqn:Eskip.
  { intros H. inversion H; subst. cbn. left. apply andb_true_iff in Eskip. destruct Eskip as [E _].
    apply andb_true_iff in E. tauto. }
  destruct (o_group (fi_opts f) && ((match fr with UG _ => true | UV _ => false end) || negb (o_omit (fi_opts f)))) eqn:Eg.
  - apply andb_true_iff in Eg. destruct Eg as [Eg Eg2].
    fold (gsel fr s). destruct (gsel fr s) as [g ngv] eqn:Egs.
    destruct (find_member (o_param (fi_opts f) ++ [equals]) [] g) as [[[before n] after]|] eqn:Efm.
    + destruct (assign cb NValue (n_end n) (n_text n) f) as [[v rest]| |] eqn:Ea; try discriminate.
      unfold store. destruct (fi_embptr f) eqn:Eemb; [|discriminate].
      intros H. inversion H; subst. cbn. right. right. left. split; [exact Eg|].
      exists fr, before, n, after, v, rest. rewrite Egs. cbn [fst snd].
      split; [reflexivity|]. split.
      { destruct fr. right. cbn in Eg2. apply negb_true_iff in Eg2. exact Eg2. left. eauto. }
      repeat split; auto.
    + destruct (o_omit (fi_opts f)) eqn:Eo; [|discriminate].
      intros H. inversion H; subst. right. left. split; [reflexivity|]. split; [exact Eg|].
      destruct fr as [n|ns]; [cbn in Eg2; discriminate|].
      exists ns. rewrite Egs. cbn [fst snd u_frags u_idx u_out u_group u_ngv]. repeat split; auto.
  - destruct (negb (o_group (fi_opts f)) && negb (match fr with UG _ => true | UV _ => false end)) eqn:Ep.
    + apply andb_true_iff in Ep. destruct Ep as [Ep1 Ep2]. apply negb_true_iff in Ep1.
      destruct fr as [n|ns]; [|cbn in Ep2; discriminate].
      destruct (match o_param (fi_opts f) with [] => true | p => has_prefix (p ++ [equals]) (n_text n) end) eqn:Em.
      * destruct (assign cb NValue (n_end n) (n_text n) f) as [[v rest]| |] eqn:Ea; try discriminate.
        unfold store. destruct (fi_embptr f) eqn:Eemb; [|discriminate].
        intros H. inversion H; subst. cbn. right. right. right. split; [exact Ep1|].
        exists n, v, rest. repeat split; auto.
      * destruct (o_omit (fi_opts f)) eqn:Eo; [|discriminate]. intros H. inversion H; subst. left. tauto.
    + destruct (o_omit (fi_opts f)) eqn:Eo; [|discriminate]. intros H. inversion H; subst. left. tauto.
Qed.

Lemma closed_of_inv f s sc : closed_of f s = Next sc ->
  (sc = s /\ (u_group s = None \/ f_group f = true))
  \/ (exists g, u_group s = Some g /\ f_group f = false /\ u_ngv s <= 0 /\
      u_frags sc = u_frags s /\ u_idx sc = S (u_idx s) /\ u_group sc = None /\ u_out sc = u_out s).
Proof.
  unfold closed_of, f_group. destruct (u_group s) as [g|] eqn:Eg.
  - destruct (o_group (fi_opts f)) eqn:Ef; cbn [negb].
    + intros H. inversion H. left. split; auto.
    + destruct (0 <? u_ngv s) eqn:En; [discriminate|]. intros H. inversion H; subst. cbn. right.
      exists g. apply Z.ltb_ge in En. repeat split; auto.
  - intros H. inversion H. left. split; auto.
Qed.
