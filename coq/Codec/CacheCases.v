Require Import GC.Base.Bytes GC.Base.CaseLib GC.Codec.Types GC.Codec.Codec GC.Codec.Cache.

(* observed outcome of one call: marshal string / unmarshal values / projected error, and for errors the pointer
   depth of the Struct named in the error (None when the error names no struct) *)
Inductive oobs :=
| ObsM (r : obs bytes) (sd : option nat)
| ObsU (r : obs (list (list nat * fval))) (sd : option nat)
| ObsNotPointer.

Definition sd_ok (t : rtype) (sd : option nat) : bool :=
  match sd with Some d => Nat.eqb d (snd t) | None => true end.

Definition outcome_ok (m : outcome) (o : oobs) : bool :=
  match m, o with
  | OMarshal (Ok s) _, ObsM (OOk s') _ => bytes_eqb s s'
  | OMarshal (Err e) t, ObsM (OErr e') sd => cerr_eqb e e' && sd_ok t sd
  | OMarshal Panic _, ObsM OPanic _ => true
  | OUnmarshal (Ok v) _, ObsU (OOk v') _ => values_agree v v'
  | OUnmarshal (Err e) t, ObsU (OErr e') sd => cerr_eqb e e' && sd_ok t sd
  | OUnmarshal Panic _, ObsU OPanic _ => true
  | ONotPointer, ObsNotPointer => true
  | _, _ => false
  end.

(* one case = one whole history, run from the empty cache *)
Definition ok_history (c : list (list sfield) * list call * list oobs) : bool :=
  let '(descs, calls, observed) := c in
  let desc := fun i => nth i descs [] in
  (fix go (ms : list outcome) (os : list oobs) : bool :=
     match ms, os with
     | [], [] => true
     | m :: ms', o :: os' => outcome_ok m o && go ms' os'
     | _, _ => false
     end) (fst (run_calls desc std_cb [] calls)) observed.
