(* C05 (codec part): Unmarshal / Marshal of the reflection-codec model never reach a [Panic] outcome on
   type informations without embedded-pointer steps and without an inline prefix; [type_info] of the
   eleven shipped layouts is such a type information, hence Unmarshal of every shipped layout is
   panic-free for ALL hash strings and all text-unmarshaler behaviours.  No axioms. *)
Require Import GC.Base.Bytes GC.Codec.Types GC.Codec.Strconv GC.Codec.TypeInfo GC.Codec.Marshal
               GC.Codec.Unmarshal GC.Codec.Codec GC.Parse.ParseModel GC.Parse.ParseProofs GC.Schemes.Layouts.

Definition no_embptr (ti : tinfo) : Prop :=
  (forall fi, In fi (ti_fields ti) -> fi_embptr fi = []) /\
  (forall p, ti_prefix ti = Some p -> fi_embptr p = [] /\ o_inline (fi_opts p) = false).

(* ------------------------------------------------------------------ *)
(* 1. one node into one field                                          *)
(* ------------------------------------------------------------------ *)
Lemma convert_no_panic cb nk nend fi s : convert cb nk nend fi s <> Panic.
Proof.
  unfold convert, mk_err.
  destruct (first_invalid _ _); [discriminate|].
  destruct (t_utext (fi_type fi)).
  - destruct (cb_unmarshal cb n s); discriminate.
  - destruct (_ && _); [discriminate|].
    destruct (t_kind (fi_type fi)); try discriminate.
    + destruct (ParseInt _ _ _); discriminate.
    + destruct (ParseUint _ _ _); discriminate.
Qed.

Lemma bind_convert_no_panic cb nk nend fi s (rest : option bytes) :
  bind (convert cb nk nend fi s) (fun v => Ok (v, rest)) <> Panic.
Proof.
  pose proof (convert_no_panic cb nk nend fi s) as H.
  destruct (convert cb nk nend fi s); [discriminate|discriminate|congruence].
Qed.

(* a value node never panics *)
Lemma assign_value_no_panic cb nend text fi : assign cb NValue nend text fi <> Panic.
Proof.
  unfold assign, mk_err.
  destruct (o_haslen (fi_opts fi)).
  - destruct (o_inline (fi_opts fi)).
    + destruct (_ <? _); [discriminate|]. apply bind_convert_no_panic.
    + destruct (negb _); [discriminate|]. apply bind_convert_no_panic.
  - apply bind_convert_no_panic.
Qed.

(* any node, field not inline *)
Lemma assign_noinline_no_panic cb nk nend text fi :
  o_inline (fi_opts fi) = false -> assign cb nk nend text fi <> Panic.
Proof.
  intros Hi. unfold assign, mk_err. rewrite Hi.
  destruct (o_haslen (fi_opts fi)).
  - destruct (negb _); [discriminate|]. apply bind_convert_no_panic.
  - apply bind_convert_no_panic.
Qed.

Lemma store_no_panic fi v s fr i nv nr g ngv greq :
  fi_embptr fi = [] -> store fi v s fr i nv nr g ngv greq <> Panic.
Proof. intros He. unfold store. rewrite He. discriminate. Qed.

(* ------------------------------------------------------------------ *)
(* 2. the field loop                                                   *)
(* ------------------------------------------------------------------ *)
Lemma step_no_crash cb n fi s0 : fi_embptr fi = [] -> step cb n fi s0 <> Crash.
Proof.
  intros He. unfold step.
  set (closed := match u_group s0 with Some g => _ | None => _ end).
  assert (Hc : closed <> Crash).
  { subst closed. destruct (u_group s0); [|discriminate].
    destruct (negb _); [|discriminate]. destruct (_ <? _); discriminate. }
  destruct closed as [s|e|]; [|discriminate|congruence]. clear Hc.
  destruct (nth_error (u_frags s) (u_idx s)) as [fr|].
  2:{ destruct (o_omit (fi_opts fi)); discriminate. }
  destruct (_ && _ && _); [discriminate|].
  cbv zeta.
  destruct (o_group (fi_opts fi) && _) eqn:E1.
  - (* param group *)
    match goal with |- context [let '(g, ngv) := ?x in _] => destruct x as [g ngv] end.
    destruct (find_member _ _ _) as [[[before nd] after]|].
    + pose proof (assign_value_no_panic cb (n_end nd) (n_text nd) fi) as Ha.
      destruct (assign cb NValue (n_end nd) (n_text nd) fi) as [[v rest]|e|]; [|discriminate|congruence].
      match goal with |- context [store ?a ?b ?c ?d ?e ?f ?g ?h ?i ?j] =>
        pose proof (@store_no_panic a b c d e f g h i j He) as Hs;
        destruct (store a b c d e f g h i j) end; [discriminate|discriminate|congruence].
    + destruct (o_omit (fi_opts fi)); discriminate.
  - destruct (negb (o_group (fi_opts fi)) && _) eqn:E2.
    + destruct fr as [nd|ns].
      * destruct (match o_param (fi_opts fi) with [] => true | _ => _ end).
        -- pose proof (assign_value_no_panic cb (n_end nd) (n_text nd) fi) as Ha.
           destruct (assign cb NValue (n_end nd) (n_text nd) fi) as [[v rest]|e|]; [|discriminate|congruence].
           match goal with |- context [store ?a ?b ?c ?d ?e ?f ?g ?h ?i ?j] =>
             pose proof (@store_no_panic a b c d e f g h i j He) as Hs;
             destruct (store a b c d e f g h i j) end; [discriminate|discriminate|congruence].
        -- destruct (o_omit (fi_opts fi)); discriminate.
      * (* the [UG _ => Crash] branch: entered only when the fragment is not a group *)
        exfalso. cbn in E2. rewrite andb_false_r in E2. discriminate.
    + destruct (o_omit (fi_opts fi)); discriminate.
Qed.

Lemma run_fields_no_crash cb n fs : (forall fi, In fi fs -> fi_embptr fi = []) ->
  forall s, run_fields cb n fs s <> Crash.
Proof.
  induction fs as [|fi r IH]; intros H s; cbn [run_fields]; [discriminate|].
  pose proof (@step_no_crash cb n fi s (H fi (or_introl eq_refl))) as Hs.
  destruct (step cb n fi s) as [s'|e|]; [|discriminate|congruence].
  apply IH. intros g Hg. apply H. right. exact Hg.
Qed.

(* ------------------------------------------------------------------ *)
(* 3. Unmarshal                                                        *)
(* ------------------------------------------------------------------ *)
Theorem unmarshal_tree_no_panic : forall cb ti n t, no_embptr ti -> unmarshal_tree cb ti n t <> Panic.
Proof.
  intros cb ti n t [Hf Hp]. unfold unmarshal_tree.
  set (pre := match ti_prefix ti with Some fi => _ | None => _ end).
  assert (Hpre : pre <> Panic).
  { subst pre. destruct (ti_prefix ti) as [fi|].
    - destruct (Hp fi eq_refl) as [He Hi].
      destruct (prefix t) as [p|].
      + pose proof (@assign_noinline_no_panic cb NPrefix (prefix_end p) p fi Hi) as Ha.
        destruct (assign cb NPrefix (prefix_end p) p fi) as [[v rest]|e|]; [|discriminate|congruence].
        rewrite He. discriminate.
      + destruct (o_omit (fi_opts fi)); discriminate.
    - destruct (prefix t); discriminate. }
  destruct pre as [out0|e|]; [|discriminate|congruence]. cbn [bind].
  match goal with |- context [run_fields ?a ?b ?c ?d] =>
    pose proof (@run_fields_no_crash a b c Hf d) as Hr; destruct (run_fields a b c d) as [s|e|] end;
    [|discriminate|congruence].
  destruct (u_group s) as [g|].
  - destruct (_ <? _); [discriminate|]. cbn [bind]. destruct (nth_error _ _); discriminate.
  - cbn [bind]. destruct (nth_error _ _); discriminate.
Qed.

Theorem unmarshal_no_panic : forall cb ti h, no_embptr ti -> unmarshal cb ti h <> Panic.
Proof.
  intros cb ti h H. unfold unmarshal. pose proof (parse_total h) as Hp.
  destruct (parse h); [|discriminate|congruence]. apply unmarshal_tree_no_panic. exact H.
Qed.

(* the public entry point: whenever the type information is panic-free (an invalid one is an error) *)
Theorem unmarshal_top_no_panic : forall cb st h,
  (forall ti, type_info st = Ok ti -> no_embptr ti) -> type_info st <> Panic ->
  unmarshal_top cb st h <> Panic.
Proof.
  intros cb st h H Hn. unfold unmarshal_top. pose proof (parse_total h) as Hp.
  destruct (parse h); [|discriminate|congruence].
  destruct (type_info st) as [ti|e|]; cbn [bind]; [|discriminate|congruence].
  apply unmarshal_tree_no_panic. apply H. reflexivity.
Qed.

(* ------------------------------------------------------------------ *)
(* 4. type_info never yields an inline prefix (tag_valid rejects it)    *)
(* ------------------------------------------------------------------ *)
Lemma tag_valid_prefix_not_inline o : tag_valid o = true -> o_prefix o = true -> o_inline o = false.
Proof.
  unfold tag_valid. intros Hv Hp. destruct (o_inline o); [|reflexivity].
  rewrite Hp in Hv. cbn in Hv. rewrite !andb_false_r in Hv. discriminate.
Qed.

Lemma normalize_loop_prefix all fs : forall pre kept params ti,
  (forall p, pre = Some p -> o_inline (fi_opts p) = false) ->
  normalize_loop all fs pre kept params = Ok ti ->
  forall p, ti_prefix ti = Some p -> o_inline (fi_opts p) = false.
Proof.
  induction fs as [|f r IH]; intros pre kept params ti Hpre; cbn [normalize_loop].
  - intros E. inversion E; subst ti. cbn. exact Hpre.
  - destruct (tag_valid (fi_opts f)) eqn:Ev; cbn [negb]; [|discriminate].
    destruct (o_prefix (fi_opts f)) eqn:Ep.
    + apply IH. intros p E. inversion E; subst p. apply tag_valid_prefix_not_inline; assumption.
    + destruct (o_param (fi_opts f)) as [|c q].
      * apply IH. exact Hpre.
      * destruct (existsb _ _).
        -- apply IH. exact Hpre.
        -- destruct (field_of _ _); [|discriminate|discriminate]. apply IH. exact Hpre.
Qed.

Theorem type_info_prefix_not_inline : forall st ti p,
  type_info st = Ok ti -> ti_prefix ti = Some p -> o_inline (fi_opts p) = false.
Proof.
  intros st ti p H. unfold type_info in H. revert p.
  eapply normalize_loop_prefix; [|exact H]. discriminate.
Qed.

(* ------------------------------------------------------------------ *)
(* 5. the shipped layouts                                              *)
(* ------------------------------------------------------------------ *)
Definition no_embptr_b (ti : tinfo) : bool :=
  forallb (fun fi => is_nil_b (fi_embptr fi)) (ti_fields ti)
  && match ti_prefix ti with
     | Some p => is_nil_b (fi_embptr p) && negb (o_inline (fi_opts p))
     | None => true
     end.

Lemma is_nil_b_true {A} (l : list A) : is_nil_b l = true -> l = [].
Proof. destruct l; [reflexivity|discriminate]. Qed.

Lemma no_embptr_b_sound ti : no_embptr_b ti = true -> no_embptr ti.
Proof.
  unfold no_embptr_b, no_embptr. intros H. apply andb_true_iff in H. destruct H as [Hf Hp]. split.
  - intros fi Hi. rewrite forallb_forall in Hf. apply is_nil_b_true. apply Hf. exact Hi.
  - intros p E. rewrite E in Hp. apply andb_true_iff in Hp. destruct Hp as [H1 H2].
    split; [apply is_nil_b_true; exact H1|]. destruct (o_inline (fi_opts p)); [discriminate|reflexivity].
Qed.

Definition ti_ok_b (st : list sfield) : bool :=
  match type_info st with Ok ti => no_embptr_b ti | _ => false end.

Lemma ti_ok_b_sound st : ti_ok_b st = true -> exists ti, type_info st = Ok ti /\ no_embptr ti.
Proof.
  unfold ti_ok_b. destruct (type_info st) as [ti|e|]; [|discriminate|discriminate].
  intros H. exists ti. split; [reflexivity|]. apply no_embptr_b_sound. exact H.
Qed.

Lemma ti_ok_argon2 : exists ti, type_info m_layout_argon2 = Ok ti /\ no_embptr ti.
Proof. apply ti_ok_b_sound. vm_compute. reflexivity. Qed.
Lemma ti_ok_bcrypt : exists ti, type_info m_layout_bcrypt = Ok ti /\ no_embptr ti.
Proof. apply ti_ok_b_sound. vm_compute. reflexivity. Qed.
Lemma ti_ok_des : exists ti, type_info m_layout_des = Ok ti /\ no_embptr ti.
Proof. apply ti_ok_b_sound. vm_compute. reflexivity. Qed.
Lemma ti_ok_desext : exists ti, type_info m_layout_desext = Ok ti /\ no_embptr ti.
Proof. apply ti_ok_b_sound. vm_compute. reflexivity. Qed.
Lemma ti_ok_md5 : exists ti, type_info m_layout_md5 = Ok ti /\ no_embptr ti.
Proof. apply ti_ok_b_sound. vm_compute. reflexivity. Qed.
Lemma ti_ok_nthash : exists ti, type_info m_layout_nthash = Ok ti /\ no_embptr ti.
Proof. apply ti_ok_b_sound. vm_compute. reflexivity. Qed.
Lemma ti_ok_sha1 : exists ti, type_info m_layout_sha1 = Ok ti /\ no_embptr ti.
Proof. apply ti_ok_b_sound. vm_compute. reflexivity. Qed.
Lemma ti_ok_sha256 : exists ti, type_info m_layout_sha256 = Ok ti /\ no_embptr ti.
Proof. apply ti_ok_b_sound. vm_compute. reflexivity. Qed.
Lemma ti_ok_sha512 : exists ti, type_info m_layout_sha512 = Ok ti /\ no_embptr ti.
Proof. apply ti_ok_b_sound. vm_compute. reflexivity. Qed.
Lemma ti_ok_sunmd5 : exists ti, type_info m_layout_sunmd5 = Ok ti /\ no_embptr ti.
Proof. apply ti_ok_b_sound. vm_compute. reflexivity. Qed.
Lemma ti_ok_sunmd5_salt : exists ti, type_info m_layout_sunmd5_salt = Ok ti /\ no_embptr ti.
Proof. apply ti_ok_b_sound. vm_compute. reflexivity. Qed.

Definition shipped_layouts : list (list sfield) :=
  [m_layout_argon2; m_layout_bcrypt; m_layout_des; m_layout_desext; m_layout_md5; m_layout_nthash;
   m_layout_sha1; m_layout_sha256; m_layout_sha512; m_layout_sunmd5; m_layout_sunmd5_salt].

Theorem type_info_no_embptr_shipped : forall st, In st shipped_layouts ->
  exists ti, type_info st = Ok ti /\ no_embptr ti.
Proof.
  intros st H. unfold shipped_layouts in H. cbn [In] in H.
  repeat (destruct H as [<-|H]; [first [exact ti_ok_argon2|exact ti_ok_bcrypt|exact ti_ok_des|exact ti_ok_desext
    |exact ti_ok_md5|exact ti_ok_nthash|exact ti_ok_sha1|exact ti_ok_sha256|exact ti_ok_sha512
    |exact ti_ok_sunmd5|exact ti_ok_sunmd5_salt]|]).
  contradiction.
Qed.

Lemma unmarshal_top_ok_no_panic cb st h :
  (exists ti, type_info st = Ok ti /\ no_embptr ti) -> unmarshal_top cb st h <> Panic.
Proof.
  intros (ti & E & H). apply unmarshal_top_no_panic.
  - intros ti' E'. rewrite E in E'. inversion E'; subst ti'. exact H.
  - rewrite E. discriminate.
Qed.

Theorem unmarshal_top_shipped_no_panic : forall st, In st shipped_layouts ->
  forall cb h, unmarshal_top cb st h <> Panic.
Proof. intros st H cb h. apply unmarshal_top_ok_no_panic. apply type_info_no_embptr_shipped. exact H. Qed.

Lemma unmarshal_argon2_no_panic cb h : unmarshal_top cb m_layout_argon2 h <> Panic.
Proof. apply unmarshal_top_ok_no_panic. exact ti_ok_argon2. Qed.
Lemma unmarshal_bcrypt_no_panic cb h : unmarshal_top cb m_layout_bcrypt h <> Panic.
Proof. apply unmarshal_top_ok_no_panic. exact ti_ok_bcrypt. Qed.
Lemma unmarshal_des_no_panic cb h : unmarshal_top cb m_layout_des h <> Panic.
Proof. apply unmarshal_top_ok_no_panic. exact ti_ok_des. Qed.
Lemma unmarshal_desext_no_panic cb h : unmarshal_top cb m_layout_desext h <> Panic.
Proof. apply unmarshal_top_ok_no_panic. exact ti_ok_desext. Qed.
Lemma unmarshal_md5_no_panic cb h : unmarshal_top cb m_layout_md5 h <> Panic.
Proof. apply unmarshal_top_ok_no_panic. exact ti_ok_md5. Qed.
Lemma unmarshal_nthash_no_panic cb h : unmarshal_top cb m_layout_nthash h <> Panic.
Proof. apply unmarshal_top_ok_no_panic. exact ti_ok_nthash. Qed.
Lemma unmarshal_sha1_no_panic cb h : unmarshal_top cb m_layout_sha1 h <> Panic.
Proof. apply unmarshal_top_ok_no_panic. exact ti_ok_sha1. Qed.
Lemma unmarshal_sha256_no_panic cb h : unmarshal_top cb m_layout_sha256 h <> Panic.
Proof. apply unmarshal_top_ok_no_panic. exact ti_ok_sha256. Qed.
Lemma unmarshal_sha512_no_panic cb h : unmarshal_top cb m_layout_sha512 h <> Panic.
Proof. apply unmarshal_top_ok_no_panic. exact ti_ok_sha512. Qed.
Lemma unmarshal_sunmd5_no_panic cb h : unmarshal_top cb m_layout_sunmd5 h <> Panic.
Proof. apply unmarshal_top_ok_no_panic. exact ti_ok_sunmd5. Qed.
Lemma unmarshal_sunmd5_salt_no_panic cb h : unmarshal_top cb m_layout_sunmd5_salt h <> Panic.
Proof. apply unmarshal_top_ok_no_panic. exact ti_ok_sunmd5_salt. Qed.

(* ------------------------------------------------------------------ *)
(* 6. Marshal                                                          *)
(* ------------------------------------------------------------------ *)
(* the value stored for a field has the shape of the field's Go type: the constructor matches the kind;
   a nil pointer only for a pointer type *)
Definition val_matches (t : ftype) (v : fval) : Prop :=
  match v with
  | VNil => (0 < t_ptr t)%nat
  | VStr _ => t_kind t = KString
  | VBytes _ => t_kind t = KBytes
  | VArr _ => exists n, t_kind t = KArray n
  | VInt _ => exists b, t_kind t = KInt b
  | VUint _ => exists b, t_kind t = KUint b
  | VOther _ => t_kind t = KOther
  end.

Definition all_fields (ti : tinfo) : list finfo :=
  (match ti_prefix ti with Some p => [p] | None => [] end) ++ ti_fields ti.

Definition well_typed_sv (ti : tinfo) (sv : sval) : Prop :=
  forall fi, In fi (all_fields ti) ->
    exists v, lookup_path (fi_index fi) (sv_fields sv) = Some v /\ val_matches (fi_type fi) v.

Lemma marshal1_no_panic cb fi v : val_matches (fi_type fi) v -> marshal1 cb fi v <> Panic.
Proof.
  intros H. unfold marshal1.
  destruct v; try discriminate;
    (destruct (t_mtext (fi_type fi)); [destruct (cb_marshal cb _ _); discriminate|]);
    (destruct (_ && _); [discriminate|]); cbn in H.
  - rewrite H. discriminate.
  - rewrite H. discriminate.
  - destruct H as [n ->]. discriminate.
  - destruct H as [n ->]. discriminate.
  - destruct H as [n ->]. discriminate.
  - rewrite H. discriminate.
Qed.

Lemma marshal_value_no_panic cb fi v : val_matches (fi_type fi) v -> marshal_value cb fi v <> Panic.
Proof.
  intros H. unfold marshal_value. pose proof (marshal1_no_panic cb fi v H) as Hm.
  destruct (marshal1 cb fi v) as [s|e|]; cbn [bind]; [|discriminate|congruence].
  destruct (_ && _); [discriminate|]. destruct (first_invalid _ _); discriminate.
Qed.

Lemma field_value_ok fi sv v : fi_embptr fi = [] -> lookup_path (fi_index fi) (sv_fields sv) = Some v ->
  field_value fi sv = Ok v.
Proof. intros He Hl. unfold field_value. rewrite He. cbn [existsb]. rewrite Hl. reflexivity. Qed.

Lemma marshal_fields_no_panic cb sv fs :
  (forall fi, In fi fs -> fi_embptr fi = []) ->
  (forall fi, In fi fs -> exists v, lookup_path (fi_index fi) (sv_fields sv) = Some v /\ val_matches (fi_type fi) v) ->
  forall prev buf, marshal_fields cb fs sv prev buf <> Panic.
Proof.
  induction fs as [|fi r IH]; intros He Hw prev buf; cbn [marshal_fields]; [discriminate|].
  destruct (Hw fi (or_introl eq_refl)) as (v & Hl & Hv).
  rewrite (field_value_ok fi sv v (He fi (or_introl eq_refl)) Hl). cbn [bind].
  assert (IH' : forall prev buf, marshal_fields cb r sv prev buf <> Panic).
  { apply IH; intros g Hg; [apply He|apply Hw]; right; exact Hg. }
  destruct (_ && _); [apply IH'|].
  pose proof (marshal_value_no_panic cb fi v Hv) as Hm.
  destruct (marshal_value cb fi v) as [s|e|]; cbn [bind]; [|discriminate|congruence].
  apply IH'.
Qed.

(* the hypothesis [sv_embnil sv = []] (no nil embedded pointer in the value) is implied by [no_embptr ti]
   as far as panics are concerned; it is kept to state the theorem for well-formed values only *)
Theorem marshal_no_panic : forall cb ti sv,
  no_embptr ti -> sv_embnil sv = [] -> well_typed_sv ti sv -> marshal cb ti sv <> Panic.
Proof.
  intros cb ti sv [Hf Hp] _ Hw. unfold marshal.
  assert (Hpre : match ti_prefix ti with
                 | Some fi => bind (field_value fi sv) (fun fv => marshal_value cb fi fv)
                 | None => Ok []
                 end <> Panic).
  { destruct (ti_prefix ti) as [p|] eqn:E; [|discriminate].
    destruct (Hp p eq_refl) as [He _].
    destruct (Hw p) as (v & Hl & Hv). { unfold all_fields. rewrite E. left. reflexivity. }
    rewrite (field_value_ok p sv v He Hl). cbn [bind]. apply marshal_value_no_panic. exact Hv. }
  destruct (match ti_prefix ti with Some fi => _ | None => _ end) as [pre|e|]; cbn [bind];
    [|discriminate|congruence].
  apply marshal_fields_no_panic; [exact Hf|].
  intros fi Hi. apply Hw. unfold all_fields. apply in_or_app. right. exact Hi.
Qed.

(* Marshal through the public entry point, for a layout whose type information is fine *)
Theorem marshal_top_no_panic : forall cb st sv,
  (exists ti, type_info st = Ok ti /\ no_embptr ti /\ well_typed_sv ti sv) -> sv_embnil sv = [] ->
  marshal_top cb st sv <> Panic.
Proof.
  intros cb st sv (ti & E & H & Hw) Hn. unfold marshal_top. rewrite E. cbn [bind].
  apply marshal_no_panic; assumption.
Qed.

Print Assumptions unmarshal_tree_no_panic.
Print Assumptions unmarshal_no_panic.
Print Assumptions unmarshal_top_no_panic.
Print Assumptions type_info_prefix_not_inline.
Print Assumptions type_info_no_embptr_shipped.
Print Assumptions unmarshal_top_shipped_no_panic.
Print Assumptions unmarshal_md5_no_panic.
Print Assumptions unmarshal_sunmd5_no_panic.
Print Assumptions marshal_no_panic.
Print Assumptions marshal_top_no_panic.
