(* C19 soundness, part 4: projection-form equations for the simple statements. *)
Require Import GC.Base.Bytes GC.CT.IR GC.CT.Leak GC.CT.CTSoundP1 GC.CT.CTSoundP2 GC.CT.CTSoundP3.
Open Scope Z_scope.

Lemma ct_list_eq a l : forall t r,
  (fix go (t r : tset) (l : list stmt) : option (tset * tset) :=
     match l with
     | [] => Some (t, r)
     | x :: rest => match ct_stmt' a t r x with Some (t', r') => go t' r' rest | None => None end
     end) t r l = ct_stmts' a t r l.
Proof.
  induction l as [|x l IH]; intros t r; [reflexivity|].
  simpl. destruct (ct_stmt' a t r x) as [[t' r']|]; [apply IH|reflexivity].
Qed.

Definition key_env (k : bytes) (lhs : list ident) (e : env) : env :=
  match lhs with
  | [] => e
  | x :: rr => (x, VBytes k) :: map (fun y => (y, VNilV)) rr ++ e
  end.

Definition assign_env (lhs : expr) (v : value) (e : env) : env :=
  match lhs with
  | EId x => (x, v) :: e
  | ESel (EId x) f => set_field x f v e
  | _ => e
  end.

Definition sexpr_env (pend : env) (f : expr) (args : list expr) (v : value) (e : env) : env :=
  if is_encoder f then
    match args with
    | [dst; _] => match base_var dst with Some x => (x, v) :: e | None => e end
    | _ => e
    end
  else deliver pend (out_params f args) e.

Section Eqs.
  Variable fsem : expr -> list value -> value.
  Variable k : bytes.
  Variable pend : env.
  Notation exs := (exec_stmt fsem k pend).
  Notation ev := (eval fsem k).
  Notation evl := (eval_list fsem k).

  Local Opaque eval eval_list.

  Lemma exec_decl_some n e x i :
    exs (S n) e (SDecl x (Some i)) = Some ((x, fst (ev e i)) :: e, None, snd (ev e i)).
  Proof. simpl. destruct (ev e i); reflexivity. Qed.

  Lemma exec_define_key n e lhs f args :
    is_key f = true ->
    exs (S n) e (SDefine lhs (ECall f args)) =
    Some (key_env k lhs e, None, snd (evl e args) ++ [LCall f (call_leak f (fst (evl e args)))]).
  Proof. intros H. simpl. rewrite H. destruct (evl e args). destruct lhs; reflexivity. Qed.

  Lemma exec_define_call n e lhs f args :
    is_key f = false ->
    exs (S n) e (SDefine lhs (ECall f args)) =
    Some (deliver pend (out_params f args) (bind lhs (fst (ev e (ECall f args))) e), None,
          snd (ev e (ECall f args))).
  Proof. intros H. simpl. rewrite H. destruct (ev e (ECall f args)). reflexivity. Qed.

  Lemma exec_define_other n e lhs i :
    match i with ECall _ _ => False | _ => True end ->
    exs (S n) e (SDefine lhs i) = Some (bind lhs (fst (ev e i)) e, None, snd (ev e i)).
  Proof. intros H. destruct i; try contradiction; simpl; destruct (ev e _); reflexivity. Qed.

  Lemma exec_assign n e lhs rhs :
    exs (S n) e (SAssign lhs rhs) = Some (assign_env lhs (fst (ev e rhs)) e, None, snd (ev e rhs)).
  Proof.
    simpl. destruct (ev e rhs). destruct lhs; try reflexivity. destruct lhs; reflexivity.
  Qed.

  Lemma exec_sexpr_call n e f args :
    exs (S n) e (SExpr (ECall f args)) =
    Some (sexpr_env pend f args (fst (ev e (ECall f args))) e, None, snd (ev e (ECall f args))).
  Proof.
    simpl. destruct (ev e (ECall f args)). unfold sexpr_env. simpl.
    destruct (is_encoder f); [|reflexivity].
    destruct args as [|d [|s [|]]]; try reflexivity. destruct (base_var d); reflexivity.
  Qed.

  Lemma exec_return n e es :
    exs (S n) e (SReturn es) = Some (e, Some (fst (evl e es)), snd (evl e es)).
  Proof. simpl. destruct (evl e es); reflexivity. Qed.
End Eqs.
