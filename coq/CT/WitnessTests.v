(* C19: tests of the leakage-witness search of CT/Witness.v.
   (a) the ten generated Check bodies run to completion under fsem_w, reach ConstantTimeCompare and the final
       return, and no witness is found for them (consistent with C19_sound);
   (b) hand-made leaky variants of nthash / md5 are rejected by ct_ok' AND a witness is found for each. *)
Require Import GC.Base.Bytes GC.CT.IR GC.CT.Leak GC.CT.Witness GC.Generated.Gen_check_ir.
Require Import Coq.Strings.String.
Open Scope Z_scope.

(* ------------------------------------------------------------------------------------------ IR shorthands *)
Definition v (s : string) : expr := EId (wbs s).
Definition dot (e : expr) (s : string) : expr := ESel e (wbs s).
Definition ap (f : expr) (args : list expr) : expr := ECall f args.
Definition amp (e : expr) : expr := EUnary (wbs "&") e.
Definition e_nil : expr := ELit.
Definition e_mismatch : expr := dot (v "crypt") "ErrPasswordMismatch".
Definition e_sum : expr := dot (v "scheme") "Sum".
Definition e_sum_all : expr := ESlice e_sum [].
Definition e_b_all : expr := ESlice (v "b") [].
Definition e_ctc : expr := dot (v "subtle") "ConstantTimeCompare".
Definition if_err : stmt := SIf None (EBinary (wbs "!=") (v "err") e_nil) [SReturn [v "err"]] [].
Definition ret_mismatch : stmt := SReturn [e_mismatch].
Definition ret_nil : stmt := SReturn [e_nil].

(* ---- a copy of nthash.Check as generated on the day this file was written:
     var scheme scheme
     if err := crypthash.Unmarshal(hash, &scheme); err != nil { return err }
     key, err := Key(encodePassword(password))
     if err != nil { return err }
     var b [32]byte
     hex.Encode(b[:], key)
     if subtle.ConstantTimeCompare(b[:], scheme.Sum[:]) == 0 { return crypt.ErrPasswordMismatch }
     return nil                                                                                      ---- *)
Definition nthash_prefix : list stmt :=
  [ SDecl (wbs "scheme") None;
    SIf (Some (SDefine [wbs "err"] (ap (dot (v "crypthash") "Unmarshal") [v "hash"; amp (v "scheme")])))
        (EBinary (wbs "!=") (v "err") e_nil) [SReturn [v "err"]] [];
    SDefine [wbs "key"; wbs "err"] (ap (v "Key") [ap (v "encodePassword") [v "password"]]);
    if_err ].
Definition nthash_encode : list stmt :=
  [ SDecl (wbs "b") None;
    SExpr (ap (dot (v "hex") "Encode") [e_b_all; v "key"]) ].
Definition ctc_guard : stmt :=
  SIf None (EBinary (wbs "==") (ap e_ctc [e_b_all; e_sum_all]) ELit) [ret_mismatch] [].
Definition nthash_copy : list stmt := nthash_prefix ++ nthash_encode ++ [ctc_guard; ret_nil].

(* informational (not a theorem, so that an edit of nthash.Check does not break this file here): is the copy
   still what the generator produces? *)
Definition nthash_copy_is_current : bool := stmts_eqb nthash_copy check_ir_nthash.
Eval vm_compute in nthash_copy_is_current.

Example nthash_copy_fine :
  ct_ok' nthash_copy = true /\ leak_witness nthash_copy = None /\ all_runs_complete nthash_copy = true.
Proof. vm_compute. repeat split. Qed.

(* ------------------------------------------------------------------------------------------ (a) real programs *)
Definition real_programs : list (bytes * list stmt) :=
  [ (wbs "argon2", check_ir_argon2); (wbs "bcrypt", check_ir_bcrypt); (wbs "des", check_ir_des);
    (wbs "desext", check_ir_desext); (wbs "md5", check_ir_md5); (wbs "nthash", check_ir_nthash);
    (wbs "sha1", check_ir_sha1); (wbs "sha256", check_ir_sha256); (wbs "sha512", check_ir_sha512);
    (wbs "sunmd5", check_ir_sunmd5) ].

Example input_pairs_ok : input_pairs_wf = true.
Proof. vm_compute. reflexivity. Qed.

(* they RUN: every run of the search completes; with the right key the single ConstantTimeCompare answers 1 and
   the body returns nil (the literal, VInt 0); with a wrong key it answers 0 and the mismatch sentinel is returned *)
Example real_programs_run :
  forallb (fun p => all_runs_complete (snd p)) real_programs = true /\
  forallb (fun p => match run_summary (snd p) d_base d_base with
                    | Some (_, [VInt 1], Some [VInt 0]) => true | _ => false end) real_programs = true /\
  forallb (fun p => match run_summary (snd p) d_base d_last with
                    | Some (_, [VInt 0], Some [VErrV 1]) => true | _ => false end) real_programs = true.
Proof. vm_compute. repeat split. Qed.

Example no_witness_argon2 : leak_witness check_ir_argon2 = None. Proof. vm_compute. reflexivity. Qed.
Example no_witness_bcrypt : leak_witness check_ir_bcrypt = None. Proof. vm_compute. reflexivity. Qed.
Example no_witness_des    : leak_witness check_ir_des = None.    Proof. vm_compute. reflexivity. Qed.
Example no_witness_desext : leak_witness check_ir_desext = None. Proof. vm_compute. reflexivity. Qed.
Example no_witness_md5    : leak_witness check_ir_md5 = None.    Proof. vm_compute. reflexivity. Qed.
Example no_witness_nthash : leak_witness check_ir_nthash = None. Proof. vm_compute. reflexivity. Qed.
Example no_witness_sha1   : leak_witness check_ir_sha1 = None.   Proof. vm_compute. reflexivity. Qed.
Example no_witness_sha256 : leak_witness check_ir_sha256 = None. Proof. vm_compute. reflexivity. Qed.
Example no_witness_sha512 : leak_witness check_ir_sha512 = None. Proof. vm_compute. reflexivity. Qed.
Example no_witness_sunmd5 : leak_witness check_ir_sunmd5 = None. Proof. vm_compute. reflexivity. Qed.

Example real_report :
  map (fun r => snd r) (witness_report real_programs) = repeat false 10 /\
  map (fun r => snd (fst r)) (witness_report real_programs) = repeat true 10.
Proof. vm_compute. split; reflexivity. Qed.

(* ------------------------------------------------------------------------------------------ (b) leaky variants *)
(* L1: bytes.Equal in place of ConstantTimeCompare
     if !bytes.Equal(b[:], scheme.Sum[:]) { return crypt.ErrPasswordMismatch } *)
Definition leaky_equal : list stmt :=
  nthash_prefix ++ nthash_encode ++
  [ SIf None (EUnary (wbs "!") (ap (dot (v "bytes") "Equal") [e_b_all; e_sum_all])) [ret_mismatch] [];
    ret_nil ].

(* L2: a case-insensitive fallback after a failed ConstantTimeCompare (seeded change C19-nthash-equalfold-fallback)
     if subtle.ConstantTimeCompare(b[:], scheme.Sum[:]) == 0 {
         if !bytes.EqualFold(b[:], scheme.Sum[:]) { return crypt.ErrPasswordMismatch } }
     return nil *)
Definition leaky_equalfold : list stmt :=
  nthash_prefix ++ nthash_encode ++
  [ SIf None (EBinary (wbs "==") (ap e_ctc [e_b_all; e_sum_all]) ELit)
        [ SIf None (EUnary (wbs "!") (ap (dot (v "bytes") "EqualFold") [e_b_all; e_sum_all])) [ret_mismatch] [] ] [];
    ret_nil ].

(* L3: an early exit on the first byte, before the constant-time comparison
     if key[0] != scheme.Sum[0] { return crypt.ErrPasswordMismatch } *)
Definition leaky_early : list stmt :=
  nthash_prefix ++
  [ SIf None (EBinary (wbs "!=") (EIndex (v "key") ELit) (EIndex e_sum ELit)) [ret_mismatch] [] ] ++
  nthash_encode ++ [ctc_guard; ret_nil].

(* L4: == on arrays
     last := b; fp := scheme.Sum
     if last != fp { return crypt.ErrPasswordMismatch } *)
Definition leaky_array_eq : list stmt :=
  nthash_prefix ++ nthash_encode ++
  [ SDefine [wbs "last"] (v "b");
    SDefine [wbs "fp"] e_sum;
    SIf None (EBinary (wbs "!=") (v "last") (v "fp")) [ret_mismatch] [];
    ret_nil ].

(* L5: comparison of hex strings
     if hex.EncodeToString(key) != string(scheme.Sum[:]) { return crypt.ErrPasswordMismatch } *)
Definition leaky_string_ne : list stmt :=
  nthash_prefix ++
  [ SIf None (EBinary (wbs "!=") (ap (dot (v "hex") "EncodeToString") [v "key"])
                                 (ap (v "string") [e_sum_all])) [ret_mismatch] [];
    ret_nil ].

(* L6: a hand-written comparison loop with an early exit
     for i := 0; i < len(b); i++ { if b[i] != scheme.Sum[i] { return crypt.ErrPasswordMismatch } } *)
Definition leaky_loop : list stmt :=
  nthash_prefix ++ nthash_encode ++
  [ SDefine [wbs "i"] ELit;
    SFor [EBinary (wbs "<") (v "i") (ap (v "len") [v "b"])]
         [ SIf None (EBinary (wbs "!=") (EIndex (v "b") (v "i")) (EIndex e_sum (v "i"))) [ret_mismatch] [];
           SAssign (v "i") (EBinary (wbs "++") (v "i") ELit) ];
    ret_nil ].

(* L7: the constant-time comparison is kept, but its failure is "explained" by a leaky second look
     if subtle.ConstantTimeCompare(b[:], scheme.Sum[:]) == 0 {
         if bytes.HasPrefix(scheme.Sum[:], b[:4]) { log() }
         return crypt.ErrPasswordMismatch } *)
Definition leaky_prefix_log : list stmt :=
  nthash_prefix ++ nthash_encode ++
  [ SIf None (EBinary (wbs "==") (ap e_ctc [e_b_all; e_sum_all]) ELit)
        [ SIf None (ap (dot (v "bytes") "HasPrefix") [e_sum_all; e_b_all]) [SExpr (ap (v "log") [])] [];
          ret_mismatch ] [];
    ret_nil ].

(* L8 (md5 shape: scheme.Sum is a slice and is passed unsliced): the key handed to a non-constant-time helper *)
Definition leaky_md5_helper : list stmt :=
  firstn 4 nthash_prefix ++
  [ SIf None (EUnary (wbs "!") (ap (v "equalDigest") [v "key"; e_sum])) [ret_mismatch] []; ret_nil ].

(* L9: a remembered-success fast path compared with == on arrays (seeded change C19-argon2-last-verified-fastpath)
     fp := fingerprint(hash, password)
     if last, ok := lastVerified.Load().([sha256.Size]byte); ok && last == fp { return nil }
     ... the unchanged body ...
     lastVerified.Store(fp)
     return nil
   The type assertion is EUnknown for the translator.  Neither hash nor password is secret in this model; what
   the == reveals is the remembered state, which the search takes to be secret-derived (unknown_w). *)
Definition leaky_fastpath : list stmt :=
  firstn 2 nthash_prefix ++
  [ SDefine [wbs "fp"] (ap (v "fingerprint") [v "hash"; v "password"]);
    SIf (Some (SDefine [wbs "last"; wbs "ok"] EUnknown))
        (EBinary (wbs "&&") (v "ok") (EBinary (wbs "==") (v "last") (v "fp"))) [ret_nil] [] ] ++
  skipn 2 nthash_prefix ++ nthash_encode ++
  [ ctc_guard; SExpr (ap (dot (v "lastVerified") "Store") [v "fp"]); ret_nil ].

Definition leaky_programs : list (bytes * list stmt) :=
  [ (wbs "equal", leaky_equal); (wbs "equalfold", leaky_equalfold); (wbs "early", leaky_early);
    (wbs "array_eq", leaky_array_eq); (wbs "string_ne", leaky_string_ne); (wbs "loop", leaky_loop);
    (wbs "prefix_log", leaky_prefix_log); (wbs "md5_helper", leaky_md5_helper); (wbs "fastpath", leaky_fastpath) ].

Definition found (body : list stmt) : bool := match leak_witness body with Some _ => true | None => false end.

Example leaky_equal_witness      : ct_ok' leaky_equal = false /\ found leaky_equal = true.
Proof. vm_compute. split; reflexivity. Qed.
Example leaky_equalfold_witness  : ct_ok' leaky_equalfold = false /\ found leaky_equalfold = true.
Proof. vm_compute. split; reflexivity. Qed.
Example leaky_early_witness      : ct_ok' leaky_early = false /\ found leaky_early = true.
Proof. vm_compute. split; reflexivity. Qed.
Example leaky_array_eq_witness   : ct_ok' leaky_array_eq = false /\ found leaky_array_eq = true.
Proof. vm_compute. split; reflexivity. Qed.
Example leaky_string_ne_witness  : ct_ok' leaky_string_ne = false /\ found leaky_string_ne = true.
Proof. vm_compute. split; reflexivity. Qed.
Example leaky_loop_witness       : ct_ok' leaky_loop = false /\ found leaky_loop = true.
Proof. vm_compute. split; reflexivity. Qed.
Example leaky_prefix_log_witness : ct_ok' leaky_prefix_log = false /\ found leaky_prefix_log = true.
Proof. vm_compute. split; reflexivity. Qed.
Example leaky_md5_helper_witness : ct_ok' leaky_md5_helper = false /\ found leaky_md5_helper = true.
Proof. vm_compute. split; reflexivity. Qed.

Example leaky_fastpath_witness   : ct_ok' leaky_fastpath = false /\ found leaky_fastpath = true.
Proof. vm_compute. split; reflexivity. Qed.

Example leaky_report :
  map (fun r => (snd (fst r), snd r)) (witness_report leaky_programs) = repeat (false, true) 9.
Proof. vm_compute. reflexivity. Qed.

(* every leaky run completed as well (the witnesses are not artefacts of fuel exhaustion) *)
Example leaky_runs_complete : forallb (fun p => all_runs_complete (snd p)) leaky_programs = true.
Proof. vm_compute. reflexivity. Qed.

(* the witnesses, compactly: name, ct_ok', (input pair, strict?, position, kind in run 1, kind in run 2, callee),
   success without a positive ConstantTimeCompare? *)
Eval vm_compute in witness_report_full leaky_programs.

(* the early exit sits BEFORE the constant-time comparison: the run whose first byte is wrong never reaches it, so
   no pair has agreeing verdict lists; the witness is of the second kind (Leak.tsim fails: the traces part at a
   BRANCH, before any verdict) on the pair "first byte wrong" / "last byte wrong" *)
Example leaky_early_shape :
  option_map show_witness (leak_witness leaky_early) = Some (O, 7%nat, Some (LBranch true), Some (LBranch false)) /\
  option_map w_strict (leak_witness leaky_early) = Some false.
Proof. vm_compute. split; reflexivity. Qed.

(* all the others are strict witnesses: every ConstantTimeCompare verdict agrees in the two runs *)
Example others_strict :
  map (fun p => option_map w_strict (leak_witness (snd p))) leaky_programs =
  [Some true; Some true; Some false; Some true; Some true; Some true; Some true; Some true; Some true].
Proof. vm_compute. reflexivity. Qed.

(* the comparison loop: the two runs leave the loop after a different number of iterations *)
Example leaky_loop_shape :
  option_map show_witness (leak_witness leaky_loop) = Some (O, 10%nat, Some (LBranch true), Some (LBranch false)).
Proof. vm_compute. reflexivity. Qed.

(* the fast path: what == reveals is the remembered state *)
Example leaky_fastpath_shape :
  option_map show_witness (leak_witness leaky_fastpath) =
  Some (1%nat, 3%nat, Some (LCompare (VBytes d_first) VNilV), Some (LCompare (VBytes d_last) VNilV)).
Proof. vm_compute. reflexivity. Qed.

(* the EqualFold fallback is found on pair 0 already (the arguments of EqualFold are leaked); on pair 4 — stored
   digest equal to the computed one up to letter case / not even so — the runs also branch differently *)
Example leaky_equalfold_pair4 :
  match try_pair leaky_equalfold 4 (nth 4 input_pairs (([], []), ([], []))) with
  | Some w => negb (list_eqb leak_eqb
                      (filter (fun l => match l with LBranch _ => true | _ => false end) (w_tr1 w))
                      (filter (fun l => match l with LBranch _ => true | _ => false end) (w_tr2 w)))
  | None => false
  end = true.
Proof. vm_compute. reflexivity. Qed.

(* ---- success without a positive ConstantTimeCompare ---- *)
Definition bypassed (body : list stmt) : bool := match bypass_witness body with Some _ => true | None => false end.
Example real_no_bypass : forallb (fun p => negb (bypassed (snd p))) real_programs = true.
Proof. vm_compute. reflexivity. Qed.
(* bytes.Equal, ==, the loop: success never goes through ConstantTimeCompare; EqualFold: upper-case stored digest;
   the fast path: remembered state (the unknown expression) equal to the fingerprint it is compared with.
   early / prefix_log / md5_helper only ever return success through ConstantTimeCompare or not at all. *)
Example leaky_bypass :
  map (fun p => bypassed (snd p)) leaky_programs = [true; true; false; true; true; true; false; false; true].
Proof. vm_compute. reflexivity. Qed.
Example fastpath_bypass_shape :
  option_map (fun b => (b_in b, b_unknown b)) (bypass_witness leaky_fastpath) =
  Some ((d_base, d_first), VTup [VNilV; VInt 1]).
Proof. vm_compute. reflexivity. Qed.

(* ---- a limitation, recorded: a `for i := range b` loop is translated to SFor [b] body with no binding of i and
   no termination (a byte string is truthy), so a run that does not leave through the early return exhausts the
   fuel and the pair is skipped; runs that do leave do so in the first iteration with equal traces.  ct_ok'
   rejects the program; the search finds nothing; the three-clause loop L6 above is found. ---- *)
Definition leaky_range_loop : list stmt :=
  nthash_prefix ++ nthash_encode ++
  [ SFor [v "b"]
         [ SIf None (EBinary (wbs "!=") (EIndex (v "b") (v "i")) (EIndex e_sum (v "i"))) [ret_mismatch] [] ];
    ret_nil ].
Example range_loop_not_exhibited :
  ct_ok' leaky_range_loop = false /\ found leaky_range_loop = false /\ all_runs_complete leaky_range_loop = false.
Proof. vm_compute. repeat split. Qed.
