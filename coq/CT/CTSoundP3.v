(* C19 soundness, part 3: structure of exec (sequencing combinators), environment updates. *)
Require Import GC.Base.Bytes GC.CT.IR GC.CT.Leak GC.CT.CTSoundP1 GC.CT.CTSoundP2.
Open Scope Z_scope.

(* ---- callee classes are disjoint ---- *)
Lemma is_ctc_not_encoder f : is_ctc f = true -> is_encoder f = false.
Proof.
  destruct f; try discriminate. simpl. destruct f; try discriminate.
  intros H. apply andb_true_iff in H. destruct H as [_ H]. apply bytes_eqb_eq in H. subst. reflexivity.
Qed.
Lemma is_encoder_not_key f : is_encoder f = true -> is_key f = false.
Proof. destruct f; try discriminate. reflexivity. Qed.
Lemma is_ctc_not_key f : is_ctc f = true -> is_key f = false.
Proof. destruct f; try discriminate. reflexivity. Qed.
Lemma is_encoder_not_len_only f : is_encoder f = true -> is_len_only f = false.
Proof.
  destruct f; try discriminate. simpl. intros H. apply bytes_eqb_eq in H. subst. reflexivity.
Qed.

(* ---- sequencing combinators ---- *)
Definition obind {A B} (o : option A) (f : A -> option B) : option B :=
  match o with Some a => f a | None => None end.
Definition then_ (first : result) (k : env -> option result) : option result :=
  match first with
  | (e', Some rv, tr) => Some (e', Some rv, tr)
  | (e', None, tr) => match k e' with
                      | None => None
                      | Some (e'', rv, tr') => Some (e'', rv, tr ++ tr')
                      end
  end.
Definition pre (p : trace) (res : result) : result :=
  let '(e, rv, tr) := res in (e, rv, p ++ tr).

Section Eqs.
  Variable fsem : expr -> list value -> value.
  Variable k : bytes.
  Variable pend : env.
  Notation exs := (exec_stmt fsem k pend).
  Notation exl := (exec_list fsem k pend).
  Notation ev := (eval fsem k).
  Notation evl := (eval_list fsem k).

  Lemma exec_list_cons fuel e x l :
    exl fuel e (x :: l) = obind (exs fuel e x) (fun f => then_ f (fun e' => exl fuel e' l)).
  Proof.
    simpl. destruct (exs fuel e x) as [[[e' [rv|]] tr]|]; reflexivity.
  Qed.

  Lemma inner_exec_list n l : forall e,
    (fix go (e : env) (l : list stmt) : option result :=
       match l with
       | [] => Some (e, None, [])
       | x :: r =>
         match exs n e x with
         | None => None
         | Some (e', Some rv, tr) => Some (e', Some rv, tr)
         | Some (e', None, tr) =>
           match go e' r with
           | None => None
           | Some (e'', rv, tr') => Some (e'', rv, tr ++ tr')
           end
         end
       end) e l = exl n e l.
  Proof.
    induction l as [|x l IH]; intros e; [reflexivity|].
    simpl. destruct (exs n e x) as [[[e' [rv|]] tr]|]; try reflexivity. rewrite IH. reflexivity.
  Qed.

  Lemma exec_if n e init c thn els :
    exs (S n) e (SIf init c thn els) =
    obind (match init with Some i => exs n e i | None => Some (e, None, []) end)
          (fun f => then_ f (fun e1 =>
             option_map (fun res => pre (snd (ev e1 c)) (pre [LBranch (truthy (fst (ev e1 c)))] res))
                        (exl n e1 (if truthy (fst (ev e1 c)) then thn else els)))).
  Proof.
    simpl.
    destruct (match init with Some i => exs n e i | None => Some (e, None, []) end) as [[[e1 [rv|]] tr1]|];
      try reflexivity.
    simpl. destruct (ev e1 c) as [cv trc]. simpl. rewrite inner_exec_list.
    destruct (exl n e1 (if truthy cv then thn else els)) as [[[e2 rv2] tr2]|]; reflexivity.
  Qed.

  Definition loop_cond (vs : list value) : bool := match vs with v :: _ => truthy v | [] => true end.

  Lemma exec_for n e parts body :
    exs (S n) e (SFor parts body) =
    if loop_cond (fst (evl e parts)) then
      option_map (fun res => pre (snd (evl e parts)) (pre [LBranch true] res))
                 (obind (exl n e body) (fun f => then_ f (fun e' => exs n e' (SFor parts body))))
    else Some (e, None, snd (evl e parts) ++ [LBranch false]).
  Proof.
    simpl. destruct (evl e parts) as [vs tr]. simpl fst. simpl snd. fold (loop_cond vs).
    destruct (loop_cond vs); [|reflexivity]. rewrite inner_exec_list.
    destruct (exl n e body) as [[[e1 [rv|]] tr1]|]; try reflexivity.
    simpl. destruct n; [reflexivity|].
    destruct (exs (S n) e1 (SFor parts body)) as [[[e2 rv2] tr2]|]; reflexivity.
  Qed.
End Eqs.

(* ---- the relation on results ---- *)
Definition SR (t r : tset) (res1 res2 : result) : Prop :=
  let '(e1, rv1, tr1) := res1 in
  let '(e2, rv2, tr2) := res2 in
  R (rv1 = rv2 /\ (rv1 = None -> env_low_equiv2 t r e1 e2)) tr1 tr2.

Lemma SR_weaken t r t' r' res1 res2 :
  (forall x, tmem x t = true -> tmem x t' = true) ->
  (forall x, tmem x r = true -> tmem x r' = true) ->
  SR t r res1 res2 -> SR t' r' res1 res2.
Proof.
  intros Ht Hr. destruct res1 as [[e1 rv1] tr1], res2 as [[e2 rv2] tr2]. simpl. intros H.
  eapply R_mono; [exact H|]. intros [E K]. split; [exact E|]. intros N. eapply env_weaken; eauto.
Qed.

Lemma SR_pre t r (P : Prop) p1 p2 res1 res2 :
  R P p1 p2 -> (P -> SR t r res1 res2) -> SR t r (pre p1 res1) (pre p2 res2).
Proof.
  destruct res1 as [[e1 rv1] tr1], res2 as [[e2 rv2] tr2]. simpl. intros H K.
  eapply R_app; [exact H|exact K].
Qed.

Lemma then_sound tm rm t' r' f1 f2 k1 k2 res1 res2 :
  SR tm rm f1 f2 ->
  (forall e1 e2 q1 q2, env_low_equiv2 tm rm e1 e2 -> k1 e1 = Some q1 -> k2 e2 = Some q2 -> SR t' r' q1 q2) ->
  then_ f1 k1 = Some res1 -> then_ f2 k2 = Some res2 -> SR t' r' res1 res2.
Proof.
  destruct f1 as [[e1 rv1] tr1], f2 as [[e2 rv2] tr2]. simpl. intros H K X1 X2.
  destruct rv1 as [a|], rv2 as [b|].
  - injection X1 as <-. injection X2 as <-. simpl.
    eapply R_mono; [exact H|]. intros [E _]. split; [exact E|discriminate].
  - injection X1 as <-. destruct (k2 e2) as [[[e2' rv2'] tr2']|]; [|discriminate]. injection X2 as <-. simpl.
    rewrite <- (app_nil_r tr1). eapply R_app; [exact H|]. intros [E _]. discriminate.
  - injection X2 as <-. destruct (k1 e1) as [[[e1' rv1'] tr1']|]; [|discriminate]. injection X1 as <-. simpl.
    rewrite <- (app_nil_r tr2). eapply R_app; [exact H|]. intros [E _]. discriminate.
  - destruct (k1 e1) as [[[e1' rv1'] tr1']|] eqn:K1; [|discriminate].
    destruct (k2 e2) as [[[e2' rv2'] tr2']|] eqn:K2; [|discriminate].
    injection X1 as <-. injection X2 as <-. simpl.
    eapply R_app; [exact H|]. intros [_ E]. apply (K _ _ _ _ (E eq_refl) K1 K2).
Qed.

(* ---- environment updates ---- *)
Lemma bind_equiv t r lhs v e1 e2 :
  env_low_equiv2 t r e1 e2 -> env_low_equiv2 t r (bind lhs v e1) (bind lhs v e2).
Proof.
  intros H. unfold bind. destruct lhs as [|x [|y l]].
  - destruct v; apply (env_app_eq t r); exact H.
  - apply env_cons_eq, H.
  - destruct v; apply (env_app_eq t r); exact H.
Qed.

Lemma deliver_equiv t r p1 p2 xs e1 e2 :
  pend_low_equiv p1 p2 -> env_low_equiv2 t r e1 e2 ->
  env_low_equiv2 t (xs ++ r) (deliver p1 xs e1) (deliver p2 xs e2).
Proof.
  intros Hp H. induction xs as [|x xs IH]; simpl; [exact H|].
  assert (W : env_low_equiv2 t (x :: xs ++ r) (deliver p1 xs e1) (deliver p2 xs e2)).
  { eapply env_weaken; [| |exact IH]; auto. intros y Hy. rewrite tmem_cons, Hy. apply orb_true_r. }
  pose proof (Hp x) as Hx. destruct (lookup x p1) as [a|], (lookup x p2) as [b|]; try contradiction; [|exact W].
  apply env_cons; [|exact W]. unfold var_rel. destruct (tmem x t); [right; exact Hx|].
  rewrite tmem_cons, bytes_eqb_refl. exact Hx.
Qed.

Lemma set_field_equiv t r x f v e1 e2 :
  env_low_equiv2 t r e1 e2 -> tmem x t = false -> bytes_eqb f s_Sum = false ->
  env_low_equiv2 t r (set_field x f v e1) (set_field x f v e2).
Proof.
  intros H Hx Hf. unfold set_field. pose proof (H x) as Hl.
  destruct (lookup x e1) as [a|], (lookup x e2) as [b|]; try contradiction; [|apply env_cons_eq, H].
  assert (Hp : pub_eq a b).
  { unfold var_rel in Hl. rewrite Hx in Hl. destruct (tmem x r); [exact Hl|subst; apply pub_eq_refl]. }
  assert (Heq : a = b -> env_low_equiv2 t r
     match a with VRec fs => (x, VRec ((f, v) :: fs)) :: e1 | _ => (x, VRec [(f, v)]) :: e1 end
     match b with VRec fs => (x, VRec ((f, v) :: fs)) :: e2 | _ => (x, VRec [(f, v)]) :: e2 end).
  { intros E; subst. destruct b; apply env_cons_eq, H. }
  unfold var_rel in Hl. rewrite Hx in Hl. destruct (tmem x r) eqn:Er; [|apply Heq, Hl].
  destruct Hl as [E|[fs1 [fs2 [E1 [E2 HF]]]]]; [apply Heq, E|]. subst.
  apply env_cons; [|exact H]. unfold var_rel. rewrite Hx, Er.
  right. exists ((f, v) :: fs1), ((f, v) :: fs2). split; [reflexivity|]. split; [reflexivity|].
  constructor; [|exact HF]. split; [reflexivity|]. simpl. rewrite Hf. reflexivity.
Qed.
