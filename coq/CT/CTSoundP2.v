(* C19 soundness, part 2: unfolding lemmas and soundness of expression evaluation. *)
Require Import GC.Base.Bytes GC.CT.IR GC.CT.Leak GC.CT.CTSoundP1.
Open Scope Z_scope.

(* ---- unfolding the nested fixpoints ---- *)
Definition recv_eval fsem k (e : env) (f : expr) : list value * trace :=
  match f with
  | ESel x' _ => let (v, tr) := eval fsem k e x' in ([v], tr)
  | _ => ([], [])
  end.

Lemma eval_call fsem k e f args :
  eval fsem k e (ECall f args) =
  call fsem k f (fst (recv_eval fsem k e f)) (fst (eval_list fsem k e args))
       (snd (recv_eval fsem k e f) ++ snd (eval_list fsem k e args)).
Proof.
  simpl. unfold recv_eval.
  match goal with |- call _ _ _ _ (fst ?a) _ = call _ _ _ _ (fst ?b) _ => assert (E : a = b) end.
  { induction args as [|a l IH]; simpl; [reflexivity|]. rewrite IH. reflexivity. }
  rewrite E. reflexivity.
Qed.

Lemma go_eval_list fsem k e l :
  (fix go (l : list expr) : list value * trace :=
     match l with
     | [] => ([], [])
     | a :: r => let (v, tr) := eval fsem k e a in
                 let (vs, trs) := go r in (v :: vs, tr ++ trs)
     end) l = eval_list fsem k e l.
Proof. induction l as [|a l IH]; simpl; [reflexivity|]. rewrite IH. reflexivity. Qed.

Lemma eval_slice fsem k e x bs :
  eval fsem k e (ESlice x bs) =
  match bs with
  | [] => eval fsem k e x
  | _ => (fsem (ESlice ELit []) (fst (eval fsem k e x) :: fst (eval_list fsem k e bs)),
          snd (eval fsem k e x) ++ snd (eval_list fsem k e bs) ++ map LIndex (fst (eval_list fsem k e bs)))
  end.
Proof.
  destruct bs as [|b bs]; simpl; [destruct (eval fsem k e x); reflexivity|].
  rewrite go_eval_list.
  destruct (eval fsem k e x), (eval fsem k e b), (eval_list fsem k e bs); reflexivity.
Qed.

Lemma eval_composite fsem k e es :
  eval fsem k e (EComposite es) = (VTup (fst (eval_list fsem k e es)), snd (eval_list fsem k e es)).
Proof.
  simpl.
  match goal with |- (VTup (fst ?a), _) = (VTup (fst ?b), _) => assert (E : a = b) end.
  { induction es as [|a l IH]; simpl; [reflexivity|]. rewrite IH. reflexivity. }
  rewrite E. reflexivity.
Qed.

Lemma carr_argbad t r a :
  (fix carr (a : expr) : bool :=
     match a with
     | EId _ => false
     | ESel e' _ => match e' with EId y => tmem y t | _ => tainted' t r e' end
     | ESlice a' [] => carr a'
     | _ => tainted' t r a
     end) a = argbad t r a.
Proof.
  induction a; try reflexivity.
  destruct bounds; [|reflexivity]. simpl. exact IHa.
Qed.

Lemma tainted'_call t r f args :
  tainted' t r (ECall f args) =
  if is_key f then true
  else callee_bad t r f ||
       (if is_ctc f || is_len_only f then existsb (argbad t r) args else existsb (tainted' t r) args).
Proof.
  simpl. destruct (is_key f); [reflexivity|]. f_equal.
  destruct (is_ctc f || is_len_only f).
  - induction args as [|a l IH]; [reflexivity|]. simpl existsb. rewrite <- IH, <- carr_argbad. reflexivity.
  - induction args as [|a l IH]; [reflexivity|]. simpl existsb. rewrite <- IH. reflexivity.
Qed.

Lemma tainted'_slice t r e bs :
  tainted' t r (ESlice e bs) = tainted' t r e || existsb (tainted' t r) bs.
Proof.
  reflexivity.
Qed.

Lemma tainted'_composite t r es :
  tainted' t r (EComposite es) = existsb (tainted' t r) es.
Proof.
  reflexivity.
Qed.

Definition sel_base_bad (t r : tset) (e' : expr) : bool :=
  match e' with EId x => tmem x t | _ => tainted' t r e' end.

Lemma tainted'_sel t r e' f :
  tainted' t r (ESel e' f) = bytes_eqb f s_Sum || sel_base_bad t r e'.
Proof. reflexivity. Qed.

Lemma argbad_sel t r e' f : argbad t r (ESel e' f) = sel_base_bad t r e'.
Proof. reflexivity. Qed.

(* ---- projection forms of eval ---- *)
Lemma eval_sel fsem k e x f :
  eval fsem k e (ESel x f) = (sel fsem x f (fst (eval fsem k e x)), snd (eval fsem k e x)).
Proof. simpl. destruct (eval fsem k e x); reflexivity. Qed.
Lemma eval_index fsem k e x i :
  eval fsem k e (EIndex x i) =
  (fsem (EIndex ELit ELit) [fst (eval fsem k e x); fst (eval fsem k e i)],
   snd (eval fsem k e x) ++ snd (eval fsem k e i) ++ [LIndex (fst (eval fsem k e i))]).
Proof. simpl. destruct (eval fsem k e x), (eval fsem k e i); reflexivity. Qed.
Lemma eval_unary fsem k e op x :
  eval fsem k e (EUnary op x) = (fsem (EUnary op ELit) [fst (eval fsem k e x)], snd (eval fsem k e x)).
Proof. simpl. destruct (eval fsem k e x); reflexivity. Qed.
Lemma eval_binary fsem k e op a b :
  eval fsem k e (EBinary op a b) =
  (fsem (EBinary op ELit ELit) [fst (eval fsem k e a); fst (eval fsem k e b)],
   snd (eval fsem k e a) ++ snd (eval fsem k e b) ++ binop_leak (fst (eval fsem k e a)) (fst (eval fsem k e b))).
Proof. simpl. destruct (eval fsem k e a), (eval fsem k e b); reflexivity. Qed.
Lemma eval_list_cons fsem k e a l :
  eval_list fsem k e (a :: l) =
  (fst (eval fsem k e a) :: fst (eval_list fsem k e l), snd (eval fsem k e a) ++ snd (eval_list fsem k e l)).
Proof. simpl. destruct (eval fsem k e a), (eval_list fsem k e l); reflexivity. Qed.

(* ---- value relations under selection and length ---- *)
Lemma low_b_low_t v1 v2 : low_b v1 v2 -> low_t v1 v2.
Proof. intros H; left; exact H. Qed.
Lemma pub_eq_low_t v1 v2 : pub_eq v1 v2 -> low_t v1 v2.
Proof. intros H; right; exact H. Qed.

Lemma len_of_low_t v1 v2 : low_t v1 v2 -> len_of v1 = len_of v2.
Proof.
  intros [[E|[b1 [b2 [E1 [E2 L]]]]]|[E|[f1 [f2 [E1 [E2 _]]]]]]; subst; simpl; try reflexivity.
  rewrite L; reflexivity.
Qed.

Lemma map_len_of_low_t a1 a2 : Forall2 low_t a1 a2 -> map len_of a1 = map len_of a2.
Proof.
  induction 1 as [|x y l l' H _ IH]; simpl; [reflexivity|]. rewrite IH, (len_of_low_t _ _ H). reflexivity.
Qed.

Lemma lookup_field f fs1 fs2 :
  Forall2 field_rel fs1 fs2 ->
  match lookup f fs1, lookup f fs2 with
  | Some a, Some b => if bytes_eqb f s_Sum then low_b a b else a = b
  | None, None => True
  | _, _ => False
  end.
Proof.
  induction 1 as [|[n1 w1] [n2 w2] l l' [Hn Hw] _ IH]; simpl; [exact I|].
  simpl in Hn, Hw. subst n2. destruct (bytes_eqb f n1) eqn:E; [|exact IH].
  apply bytes_eqb_eq in E. subst n1. exact Hw.
Qed.

Lemma sel_pub fsem x' f v1 v2 :
  pub_eq v1 v2 ->
  low_t (sel fsem x' f v1) (sel fsem x' f v2) /\
  (bytes_eqb f s_Sum = false -> sel fsem x' f v1 = sel fsem x' f v2).
Proof.
  intros [E|[fs1 [fs2 [E1 [E2 HF]]]]].
  - subst. split; [apply low_t_refl|reflexivity].
  - subst. simpl. pose proof (lookup_field f _ _ HF) as K.
    destruct (lookup f fs1), (lookup f fs2); try contradiction.
    + destruct (bytes_eqb f s_Sum).
      * split; [apply low_b_low_t, K|discriminate].
      * subst. split; [apply low_t_refl|reflexivity].
    + split; [apply low_t_refl|reflexivity].
Qed.

Lemma existsb_cons_false {A} (p : A -> bool) a l :
  existsb p (a :: l) = false -> p a = false /\ existsb p l = false.
Proof. simpl. apply orb_false_iff. Qed.

Section ExprSound.
  Variable fsem : expr -> list value -> value.
  Variables k1 k2 : bytes.
  Hypothesis HLR : len_respecting fsem.
  Variables t r : tset.
  Variables e1 e2 : env.
  Hypothesis Henv : env_low_equiv2 t r e1 e2.

  Notation ev1 := (eval fsem k1 e1).
  Notation ev2 := (eval fsem k2 e2).
  Notation evl1 := (eval_list fsem k1 e1).
  Notation evl2 := (eval_list fsem k2 e2).

  Definition EQ (x : expr) : Prop := R (fst (ev1 x) = fst (ev2 x)) (snd (ev1 x)) (snd (ev2 x)).
  Definition LT (x : expr) : Prop := R (low_t (fst (ev1 x)) (fst (ev2 x))) (snd (ev1 x)) (snd (ev2 x)).
  Definition PB (x : expr) : Prop := R (pub_eq (fst (ev1 x)) (fst (ev2 x))) (snd (ev1 x)) (snd (ev2 x)).
  Definition Pe (x : expr) : Prop :=
    (tainted' t r x = false -> EQ x) /\ (argbad t r x = false -> LT x).

  Lemma EQ_LT x : EQ x -> LT x.
  Proof. intros H. eapply R_mono; [exact H|]. intros E; rewrite E; apply low_t_refl. Qed.

  Lemma lookup_or_rel x : var_rel t r x (lookup_or fsem e1 x) (lookup_or fsem e2 x).
  Proof.
    unfold lookup_or. pose proof (Henv x) as H.
    destruct (lookup x e1), (lookup x e2); try contradiction; [exact H|apply var_rel_refl].
  Qed.

  Lemma sel_base x' : Pe x' -> sel_base_bad t r x' = false -> PB x'.
  Proof.
    intros [HP _] Hb. destruct x'; simpl in Hb;
      try (eapply R_mono; [apply HP, Hb|]; intros E; rewrite E; apply pub_eq_refl).
    unfold PB. simpl. apply R_nil. pose proof (lookup_or_rel x) as H.
    unfold var_rel in H. rewrite Hb in H. destruct (tmem x r); [exact H|subst; rewrite H; apply pub_eq_refl].
  Qed.

  Lemma evl_eq l :
    Forall Pe l -> existsb (tainted' t r) l = false ->
    R (fst (evl1 l) = fst (evl2 l)) (snd (evl1 l)) (snd (evl2 l)).
  Proof.
    induction 1 as [|a l [Ha _] _ IH]; intros Hb.
    - simpl. apply R_nil. reflexivity.
    - apply existsb_cons_false in Hb. destruct Hb as [Hb1 Hb2].
      rewrite !eval_list_cons. cbn [fst snd].
      eapply R_app; [apply Ha, Hb1|]. intros E1.
      eapply R_mono; [apply IH, Hb2|]. intros E2. congruence.
  Qed.

  Lemma evl_lt l :
    Forall Pe l -> existsb (argbad t r) l = false ->
    R (Forall2 low_t (fst (evl1 l)) (fst (evl2 l))) (snd (evl1 l)) (snd (evl2 l)).
  Proof.
    induction 1 as [|a l [_ Ha] _ IH]; intros Hb.
    - simpl. apply R_nil. constructor.
    - apply existsb_cons_false in Hb. destruct Hb as [Hb1 Hb2].
      rewrite !eval_list_cons. cbn [fst snd].
      eapply R_app; [apply Ha, Hb1|]. intros E1.
      eapply R_mono; [apply IH, Hb2|]. intros E2. constructor; assumption.
  Qed.

  Lemma call_sound_ct f rv1 rv2 vs1 vs2 tr1 tr2 :
    is_key f = false -> is_ctc f || is_len_only f = true ->
    R (Forall2 low_t vs1 vs2) tr1 tr2 ->
    R (fst (call fsem k1 f rv1 vs1 tr1) = fst (call fsem k2 f rv2 vs2 tr2))
      (snd (call fsem k1 f rv1 vs1 tr1)) (snd (call fsem k2 f rv2 vs2 tr2)).
  Proof.
    intros Hk Hc HR. unfold call. rewrite Hk.
    assert (Hct : is_const_time f = true).
    { unfold is_const_time. destruct (is_ctc f); [reflexivity|]. simpl in Hc. rewrite Hc. apply orb_true_r. }
    unfold call_leak. rewrite Hct.
    destruct (is_ctc f) eqn:Ec; cbn [fst snd].
    - eapply R_app; [exact HR|]. intros HF. rewrite (map_len_of_low_t _ _ HF).
      apply (R_app True _ [_] [_] [_] [_]); [apply R_same; exact I|]. intros _. apply R_verdict.
    - simpl in Hc. eapply R_app; [exact HR|]. intros HF. rewrite (map_len_of_low_t _ _ HF).
      destruct HLR as [HL _]. rewrite (HL f vs1 vs2 Hc HF). apply R_same. reflexivity.
  Qed.

  Lemma call_sound_gen f rv1 rv2 vs1 vs2 tr1 tr2 :
    is_key f = false -> is_ctc f || is_len_only f = false ->
    R (rv1 = rv2 /\ vs1 = vs2) tr1 tr2 ->
    R (fst (call fsem k1 f rv1 vs1 tr1) = fst (call fsem k2 f rv2 vs2 tr2))
      (snd (call fsem k1 f rv1 vs1 tr1)) (snd (call fsem k2 f rv2 vs2 tr2)).
  Proof.
    intros Hk Hc HR. unfold call. rewrite Hk.
    apply orb_false_iff in Hc. destruct Hc as [Hc1 Hc2]. rewrite Hc1.
    destruct (is_const_time f); cbn [fst snd];
      (eapply R_app; [exact HR|]); intros [E1 E2]; subst; apply R_same; reflexivity.
  Qed.

  Lemma recv_sound f :
    (forall e' n, f = ESel e' n -> Pe e') -> callee_bad t r f = false ->
    R (fst (recv_eval fsem k1 e1 f) = fst (recv_eval fsem k2 e2 f))
      (snd (recv_eval fsem k1 e1 f)) (snd (recv_eval fsem k2 e2 f)).
  Proof.
    intros HP Hb. destruct f; try (simpl; apply R_nil; reflexivity).
    destruct (HP _ _ eq_refl) as [HP1 _]. simpl in Hb. specialize (HP1 Hb).
    unfold recv_eval. unfold EQ in HP1.
    destruct (ev1 f), (ev2 f). simpl in *. eapply R_mono; [exact HP1|]. intros E; subst; reflexivity.
  Qed.

  Theorem eval_sound : forall x, Pe x.
  Proof.
    induction x as [x|x f IH|f args IHf IHr IHa|x bs IH IHb|x i IHx IHi|op x IH|op a b IHa IHb| |es IH| ]
      using expr_ind'.
    - (* EId *)
      split; intros Hb.
      + unfold EQ. simpl. apply R_nil. simpl in Hb. apply orb_false_iff in Hb. destruct Hb as [H1 H2].
        pose proof (lookup_or_rel x) as H. unfold var_rel in H. rewrite H1, H2 in H. exact H.
      + unfold LT. simpl. apply R_nil. eapply var_rel_low_t, lookup_or_rel.
    - (* ESel *)
      assert (HL : sel_base_bad t r x = false -> LT (ESel x f) /\ (bytes_eqb f s_Sum = false -> EQ (ESel x f))).
      { intros Hb. pose proof (sel_base x IH Hb) as HP. unfold LT, EQ, PB in *. rewrite !eval_sel. cbn [fst snd].
        split; [|intros Hf]; (eapply R_mono; [exact HP|]); intros Hp;
          destruct (sel_pub fsem x f _ _ Hp) as [S1 S2]; auto. }
      split; intros Hb.
      + rewrite tainted'_sel in Hb. apply orb_false_iff in Hb. destruct Hb as [H1 H2].
        apply (proj2 (HL H2) H1).
      + rewrite argbad_sel in Hb. apply (proj1 (HL Hb)).
    - (* ECall *)
      assert (HE : tainted' t r (ECall f args) = false -> EQ (ECall f args)).
      { intros Hb. rewrite tainted'_call in Hb. destruct (is_key f) eqn:Ek; [discriminate|].
        apply orb_false_iff in Hb. destruct Hb as [Hc Hargs].
        unfold EQ. rewrite !eval_call. pose proof (recv_sound f IHr Hc) as HR.
        destruct (is_ctc f || is_len_only f) eqn:Ec.
        - apply call_sound_ct; auto. eapply R_app; [exact HR|]. intros _. apply evl_lt; auto.
        - apply call_sound_gen; auto. eapply R_app; [exact HR|]. intros E1.
          eapply R_mono; [apply evl_eq; auto|]. intros E2; auto. }
      split; [exact HE|]. intros Hb. apply EQ_LT, HE, Hb.
    - (* ESlice *)
      assert (HE : tainted' t r (ESlice x bs) = false -> EQ (ESlice x bs)).
      { intros Hb. rewrite tainted'_slice in Hb. apply orb_false_iff in Hb. destruct Hb as [H1 H2].
        destruct IH as [IH1 _]. specialize (IH1 H1). unfold EQ in *. rewrite !eval_slice.
        destruct bs as [|b bs]; [exact IH1|]. cbn [fst snd].
        eapply R_app; [exact IH1|]. intros E1.
        pose proof (evl_eq (b :: bs) IHb H2) as HL.
        apply (R_app _ _ _ _ _ _ HL). intros E2. rewrite E1, E2. apply R_same. reflexivity. }
      split; [exact HE|]. intros Hb.
      destruct bs as [|b bs]; [|apply EQ_LT, HE, Hb].
      simpl in Hb. destruct IH as [_ IH2]. specialize (IH2 Hb). unfold LT in *. rewrite !eval_slice. exact IH2.
    - (* EIndex *)
      assert (HE : tainted' t r (EIndex x i) = false -> EQ (EIndex x i)).
      { intros Hb. simpl in Hb. apply orb_false_iff in Hb. destruct Hb as [H1 H2].
        destruct IHx as [IHx _], IHi as [IHi _]. specialize (IHx H1). specialize (IHi H2).
        unfold EQ in *. rewrite !eval_index. cbn [fst snd].
        eapply R_app; [exact IHx|]. intros E1. eapply R_app; [exact IHi|]. intros E2.
        rewrite E1, E2. apply R_same. reflexivity. }
      split; [exact HE|]. intros Hb. apply EQ_LT, HE, Hb.
    - (* EUnary *)
      assert (HE : tainted' t r (EUnary op x) = false -> EQ (EUnary op x)).
      { intros Hb. simpl in Hb. destruct IH as [IH _]. specialize (IH Hb).
        unfold EQ in *. rewrite !eval_unary. cbn [fst snd].
        eapply R_mono; [exact IH|]. intros E; rewrite E; reflexivity. }
      split; [exact HE|]. intros Hb. apply EQ_LT, HE, Hb.
    - (* EBinary *)
      assert (HE : tainted' t r (EBinary op a b) = false -> EQ (EBinary op a b)).
      { intros Hb. simpl in Hb. apply orb_false_iff in Hb. destruct Hb as [H1 H2].
        destruct IHa as [IHa _], IHb as [IHb _]. specialize (IHa H1). specialize (IHb H2).
        unfold EQ in *. rewrite !eval_binary. cbn [fst snd].
        eapply R_app; [exact IHa|]. intros E1. eapply R_app; [exact IHb|]. intros E2.
        rewrite E1, E2. apply R_same. reflexivity. }
      split; [exact HE|]. intros Hb. apply EQ_LT, HE, Hb.
    - (* ELit *)
      assert (HE : EQ ELit) by (unfold EQ; simpl; apply R_nil; reflexivity).
      split; intros _; [exact HE|apply EQ_LT, HE].
    - (* EComposite *)
      assert (HE : tainted' t r (EComposite es) = false -> EQ (EComposite es)).
      { intros Hb. rewrite tainted'_composite in Hb. unfold EQ. rewrite !eval_composite. cbn [fst snd].
        eapply R_mono; [apply evl_eq; auto|]. intros E; rewrite E; reflexivity. }
      split; [exact HE|]. intros Hb. apply EQ_LT, HE, Hb.
    - (* EUnknown *)
      split; intros Hb; simpl in Hb; discriminate.
  Qed.
End ExprSound.
