(* C19: non-vacuity of the leakage semantics.  A concrete fsem; check_ir_md5 runs and its traces coincide
   for different keys / stored digests; a bytes.Equal variant is rejected and really leaks; and programs that
   the ORIGINAL ct_ok of CT/IR.v accepts although they leak (all rejected by ct_ok'). *)
Require Import GC.Base.Bytes GC.CT.IR GC.CT.Leak GC.CT.CTSoundP1 GC.CT.CTSoundP2 GC.Generated.Gen_check_ir.
Require Import Coq.Strings.String Coq.Strings.Ascii.
Open Scope Z_scope.

Fixpoint bs (s : string) : bytes :=
  match s with
  | EmptyString => []
  | String c r => Z.of_N (N_of_ascii c) :: bs r
  end.

Definition s_Equal : ident := Eval vm_compute in bs "Equal".

(* a concrete meaning of the abstract functions *)
Definition fsem_ex (f : expr) (vs : list value) : value :=
  match f with
  | EBinary op _ _ =>
    match vs with
    | [a; _] => if bytes_eqb op s_ne then VInt (if truthy a then 1 else 0)
                else VInt (if truthy a then 0 else 1)          (* the literal is always 0 / nil here *)
    | _ => VNilV
    end
  | ESel _ n =>
    if is_ctc f then
      match vs with
      | [VBytes a; VBytes b] => VInt (if bytes_eqb a b then 1 else 0)
      | _ => VInt 0
      end
    else if bytes_eqb n s_Encode then
      match vs with [_; VBytes s] => VBytes (s ++ s) | _ => VNilV end      (* hex-like *)
    else if bytes_eqb n s_Equal then
      match vs with [_; VBytes a; VBytes b] => VInt (if bytes_eqb a b then 1 else 0) | _ => VInt 0 end
    else if bytes_eqb n s_Mismatch then VErrV 1
    else VNilV                                                            (* Unmarshal: nil error *)
  | EId n => if bytes_eqb n s_len then match vs with [v] => len_of v | _ => VNilV end
             else if bytes_eqb n s_make then VNilV
             else if bytes_eqb n (bs "dec") then match vs with [VInt z] => VInt (z - 1) | _ => VNilV end
             else match vs with [v] => v | _ => VNilV end                  (* conversions; unbound names *)
  | _ => VNilV
  end.

Lemma fsem_ex_len_respecting : len_respecting fsem_ex.
Proof.
  split.
  - intros f a1 a2 Hf HF. destruct f; try discriminate.
    + (* len / make *) simpl in Hf. apply orb_true_iff in Hf.
      destruct Hf as [Hf|Hf]; apply bytes_eqb_eq in Hf; subst; [|reflexivity].
      change (match a1 with [v] => len_of v | _ => VNilV end = match a2 with [v] => len_of v | _ => VNilV end).
      destruct HF as [|v1 v2 l1 l2 Hv HF]; [reflexivity|].
      destruct HF; [apply len_of_low_t, Hv|reflexivity].
    + (* EncodedLen *) simpl in Hf. apply bytes_eqb_eq in Hf. subst.
      assert (Ec : is_ctc (ESel f s_EncodedLen) = false).
      { destruct f; try reflexivity. simpl. apply andb_false_r. }
      unfold fsem_ex. rewrite Ec. reflexivity.
  - intros f a1 a2 Hf HF. destruct f; try discriminate. simpl in Hf. apply bytes_eqb_eq in Hf. subst.
    assert (E : forall vs, fsem_ex (ESel f s_Encode) vs =
                           match vs with [_; VBytes s] => VBytes (s ++ s) | _ => VNilV end).
    { intros vs. assert (Ec : is_ctc (ESel f s_Encode) = false).
      { destruct f; try reflexivity. simpl. apply andb_false_r. }
      unfold fsem_ex. rewrite Ec. reflexivity. }
    rewrite !E.
    destruct HF as [|d1 d2 l1 l2 Hd HF]; [left; reflexivity|].
    destruct HF as [|x1 x2 l1 l2 Hs HF]; [destruct d1, d2; left; reflexivity|].
    destruct HF as [|y1 y2 l1 l2 Hy HF].
    + destruct Hs as [[E1|[b1 [b2 [E1 [E2 L]]]]]|[E1|[f1 [f2 [E1 [E2 _]]]]]]; subst; try (left; reflexivity).
      right. exists (b1 ++ b1), (b2 ++ b2). rewrite !app_length, L. auto.
    + destruct x1, x2; left; reflexivity.
Qed.

(* ---- names ---- *)
Definition n (s : string) : expr := EId (bs s).
Definition env0 : env := [(bs "hash", VBytes (bs "$1$ab$xyz")); (bs "password", VBytes (bs "pw")); (bs "n", VInt 3)].
Definition scheme_rec (sum : bytes) : value := VRec [(bs "Salt", VBytes (bs "ab")); (s_Sum, VBytes sum)].
Definition pend_of (sum : bytes) : env := [(bs "scheme", scheme_rec sum)].

Definition run (prog : list stmt) (k sum : bytes) := exec 100 fsem_ex k (pend_of sum) env0 prog.

(* the encoded key is k ++ k under fsem_ex *)
Definition kA : bytes := [1; 2; 3].
Definition kB : bytes := [4; 5; 6].
Definition sumA : bytes := [7; 7; 7; 7; 7; 7].
Definition sumB : bytes := [1; 2; 3; 9; 9; 9].
Definition sum_kA : bytes := kA ++ kA.

Definition same_leak (prog : list stmt) (k1 s1 k2 s2 : bytes) : Prop :=
  exists e1 r1 tr1 e2 r2 tr2,
    run prog k1 s1 = Some (e1, r1, tr1) /\ run prog k2 s2 = Some (e2, r2, tr2) /\
    tr1 <> [] /\ tr1 = tr2.
Definition leaky (prog : list stmt) (k1 s1 k2 s2 : bytes) : Prop :=
  exists e1 r1 tr1 e2 r2 tr2,
    run prog k1 s1 = Some (e1, r1, tr1) /\ run prog k2 s2 = Some (e2, r2, tr2) /\
    ctc_verdicts tr1 = ctc_verdicts tr2 /\ strip_verdicts tr1 <> strip_verdicts tr2.

Ltac run_both := do 6 eexists; split; [vm_compute; reflexivity|]; split; [vm_compute; reflexivity|].

(* ---- check_ir_md5: accepted; runs; different keys and different stored digests give the same trace ---- *)
Example md5_accepted : ct_ok check_ir_md5 = true /\ ct_ok' check_ir_md5 = true.
Proof. split; vm_compute; reflexivity. Qed.

Example md5_same_trace : same_leak check_ir_md5 kA sumA kB sumB.
Proof. run_both. split; [vm_compute; discriminate|vm_compute; reflexivity]. Qed.

(* the run with the right password returns nil, the others the mismatch sentinel: the semantics is not trivial *)
Example md5_verdicts :
  (exists e tr, run check_ir_md5 kA sum_kA = Some (e, Some [VNilV], tr) /\ ctc_verdicts tr = [VInt 1]) /\
  (exists e tr, run check_ir_md5 kB sum_kA = Some (e, Some [VErrV 1], tr) /\ ctc_verdicts tr = [VInt 0]).
Proof. split; do 2 eexists; split; vm_compute; reflexivity. Qed.

(* all ten generated bodies are accepted by the corrected analysis as well *)
Example all_accepted :
  forallb ct_ok' [check_ir_argon2; check_ir_bcrypt; check_ir_des; check_ir_desext; check_ir_md5;
                  check_ir_nthash; check_ir_sha1; check_ir_sha256; check_ir_sha512; check_ir_sunmd5] = true.
Proof. vm_compute; reflexivity. Qed.

(* ---- variants ---- *)
Definition e_b_all : expr := ESlice (n "b") [].
Definition e_sum : expr := ESel (n "scheme") s_Sum.
Definition e_mismatch : expr := ESel (n "crypt") s_Mismatch.
Definition bytes_fn (s : string) : expr := ESel (n "bytes") (bs s).
Definition e_ctc : expr := ESel (EId s_subtle) s_CTC.
Definition e_enc : expr := ESel (ESel (n "crypthash") (bs "LittleEndianEncoding")) s_Encode.
Definition if_eq0 (c : expr) : stmt := SIf None (EBinary s_eq c ELit) [SReturn [e_mismatch]] [].

(* BAD: bytes.Equal(b[:], scheme.Sum) in place of ConstantTimeCompare: rejected, and it leaks *)
Definition bad_md5 : list stmt :=
  firstn 6 check_ir_md5 ++ [if_eq0 (ECall (bytes_fn "Equal") [e_b_all; e_sum]); SReturn [ELit]].
Example bad_rejected : ct_ok bad_md5 = false /\ ct_ok' bad_md5 = false.
Proof. split; vm_compute; reflexivity. Qed.
Example bad_leaks : leaky bad_md5 kA sumA kB sumA.
Proof. run_both. split; [vm_compute; reflexivity|vm_compute; discriminate]. Qed.

(* ---- programs accepted by the ORIGINAL ct_ok although they leak ---- *)
(* U1: a leaky call nested in an argument of ConstantTimeCompare *)
Definition u1 : list stmt :=
  firstn 6 check_ir_md5 ++
  [if_eq0 (ECall e_ctc [ECall (bytes_fn "ToLower") [e_b_all]; e_sum]); SReturn [ELit]].
(* U2: the whole parsed record (with its Sum) handed to an arbitrary function *)
Definition u2 : list stmt :=
  firstn 2 check_ir_md5 ++ [SExpr (ECall (n "inspect") [n "scheme"])] ++ skipn 2 check_ir_md5.
(* U3: taint that needs three loop iterations to reach c; two analysis passes are not a fixpoint *)
Definition hexenc (d s : string) : stmt := SExpr (ECall (ESel (n "hex") s_Encode) [n d; n s]).
Definition u3 : list stmt :=
  firstn 6 check_ir_md5 ++
  [SFor [n "n"] [hexenc "c" "b2"; hexenc "b2" "a"; hexenc "a" "key"; SAssign (n "n") (ECall (n "dec") [n "n"])];
   SExpr (ECall (bytes_fn "Equal") [n "c"; ELit])] ++ skipn 6 check_ir_md5.
(* U4: a secret-dependent slice bound in the destination of an encoder *)
Definition u4 : list stmt :=
  firstn 5 check_ir_md5 ++
  [SExpr (ECall e_enc [ESlice (n "b") [ECall (n "first") [n "key"]]; n "key"])] ++ skipn 6 check_ir_md5.
(* U5: a nested call of Key is not recognised as a source *)
Definition u5 : list stmt :=
  firstn 2 check_ir_md5 ++
  [SDefine [bs "x"] (ECall (n "first") [ECall (EId s_Key) [ELit]]);
   SExpr (ECall (bytes_fn "Equal") [n "x"; ELit])] ++ skipn 2 check_ir_md5.

Example unsound_accepted :
  map ct_ok [u1; u2; u3; u4; u5] = [true; true; true; true; true] /\
  map ct_ok' [u1; u2; u3; u4; u5] = [false; false; false; false; false].
Proof. split; vm_compute; reflexivity. Qed.

Example u1_leaks : leaky u1 kA sumA kB sumA.
Proof. run_both. split; [vm_compute; reflexivity|vm_compute; discriminate]. Qed.
Example u2_leaks : leaky u2 kA sumA kA sumB.
Proof. run_both. split; [vm_compute; reflexivity|vm_compute; discriminate]. Qed.
Example u3_leaks : leaky u3 kA sumA kB sumA.
Proof. run_both. split; [vm_compute; reflexivity|vm_compute; discriminate]. Qed.
Example u4_leaks : leaky u4 kA sumA kB sumA.
Proof. run_both. split; [vm_compute; reflexivity|vm_compute; discriminate]. Qed.
Example u5_leaks : leaky u5 kA sumA kB sumA.
Proof. run_both. split; [vm_compute; reflexivity|vm_compute; discriminate]. Qed.
