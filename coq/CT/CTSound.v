(* C19: soundness of the (corrected) taint analysis ct_ok' for the leakage semantics of CT/Leak.v. *)
Require Import GC.Base.Bytes GC.CT.IR GC.CT.Leak.
Require Import GC.CT.CTSoundP1 GC.CT.CTSoundP2 GC.CT.CTSoundP3 GC.CT.CTSoundP4.
Open Scope Z_scope.

Local Opaque eval eval_list.

Section Main.
  Variable fsem : expr -> list value -> value.
  Variables k1 k2 : bytes.
  Hypothesis Hk : length k1 = length k2.
  Hypothesis HLR : len_respecting fsem.
  Variables p1 p2 : env.
  Hypothesis Hp : pend_low_equiv p1 p2.

  Notation exs1 := (exec_stmt fsem k1 p1).
  Notation exs2 := (exec_stmt fsem k2 p2).
  Notation exl1 := (exec_list fsem k1 p1).
  Notation exl2 := (exec_list fsem k2 p2).
  Notation ev1 := (eval fsem k1).
  Notation ev2 := (eval fsem k2).
  Notation evl1 := (eval_list fsem k1).
  Notation evl2 := (eval_list fsem k2).

  Lemma all_Pe t r e1 e2 (He : env_low_equiv2 t r e1 e2) l : Forall (Pe fsem k1 k2 t r e1 e2) l.
  Proof. apply Forall_forall. intros x _. apply eval_sound; assumption. Qed.

  Lemma ev_eq t r e1 e2 x :
    env_low_equiv2 t r e1 e2 -> tainted' t r x = false ->
    R (fst (ev1 e1 x) = fst (ev2 e2 x)) (snd (ev1 e1 x)) (snd (ev2 e2 x)).
  Proof. intros He Hb. destruct (eval_sound fsem k1 k2 HLR t r e1 e2 He x) as [H _]. apply H, Hb. Qed.

  Lemma evs_eq t r e1 e2 l :
    env_low_equiv2 t r e1 e2 -> existsb (tainted' t r) l = false ->
    R (fst (evl1 e1 l) = fst (evl2 e2 l)) (snd (evl1 e1 l)) (snd (evl2 e2 l)).
  Proof. intros He Hb. apply (evl_eq fsem k1 k2 t r e1 e2); [apply all_Pe, He|exact Hb]. Qed.

  Lemma SR_simple t r (P : Prop) e1 e2 tr1 tr2 :
    R P tr1 tr2 -> (P -> env_low_equiv2 t r e1 e2) -> SR t r (e1, None, tr1) (e2, None, tr2).
  Proof. intros H K. simpl. eapply R_mono; [exact H|]. intros p. split; [reflexivity|]. intros _. apply K, p. Qed.

  (* ---- statement-level calls ---- *)
  Lemma call_stmt_sound t r f args t' r' :
    call_ok' t r f args = Some (t', r') -> is_encoder f = false ->
    tainted' t r (ECall f args) = false /\
    (forall e1 e2, env_low_equiv2 t r e1 e2 ->
       env_low_equiv2 t' r' (deliver p1 (out_params f args) e1) (deliver p2 (out_params f args) e2)).
  Proof.
    unfold call_ok'. intros H Een. rewrite Een in H. destruct (is_ctc f) eqn:Ec.
    - destruct (tainted' t r (ECall f args)) eqn:Et; [discriminate|]. injection H as <- <-.
      split; [reflexivity|]. intros e1 e2 He. unfold out_params, is_const_time. rewrite Ec. simpl. exact He.
    - destruct (tainted' t r (ECall f args)) eqn:Et; [discriminate|]. injection H as <- <-.
      split; [reflexivity|]. intros e1 e2 He. apply deliver_equiv; assumption.
  Qed.

  Lemma enc_stmt_sound t r f args t' r' e1 e2 :
    is_encoder f = true -> call_ok' t r f args = Some (t', r') -> env_low_equiv2 t r e1 e2 ->
    SR t' r' (sexpr_env p1 f args (fst (ev1 e1 (ECall f args))) e1, None, snd (ev1 e1 (ECall f args)))
             (sexpr_env p2 f args (fst (ev2 e2 (ECall f args))) e2, None, snd (ev2 e2 (ECall f args))).
  Proof.
    intros Een H He. unfold call_ok' in H.
    assert (Ec : is_ctc f = false).
    { destruct (is_ctc f) eqn:E; [|reflexivity]. apply is_ctc_not_encoder in E. congruence. }
    rewrite Ec, Een in H.
    destruct args as [|dst [|src [|x l]]]; try discriminate.
    destruct (callee_bad t r f || argbad t r dst || argbad t r src) eqn:Eb; [discriminate|].
    apply orb_false_iff in Eb. destruct Eb as [Eb Esrc]. apply orb_false_iff in Eb. destruct Eb as [Ecal Edst].
    pose proof (is_encoder_not_key f Een) as Ek.
    assert (Ect : is_const_time f = true) by (unfold is_const_time; rewrite Een, Ec; reflexivity).
    rewrite !eval_call. unfold call. rewrite Ek, Ec, Ect. cbn [fst snd]. unfold call_leak. rewrite Ect.
    unfold sexpr_env. rewrite Een.
    pose proof (recv_sound fsem k1 k2 t r e1 e2 f
                  (fun e' n _ => eval_sound fsem k1 k2 HLR t r e1 e2 He e') Ecal) as HRr.
    destruct (tainted' t r src || tainted' t r dst) eqn:Et.
    - destruct (base_var dst) as [x|]; [|discriminate]. injection H as <- <-.
      assert (Hab : existsb (argbad t r) [dst; src] = false) by (simpl; rewrite Edst, Esrc; reflexivity).
      pose proof (evl_lt fsem k1 k2 t r e1 e2 [dst; src] (all_Pe t r e1 e2 He _) Hab) as HRa.
      cbv beta iota delta [SR]. eapply R_app; [eapply R_app; [exact HRr|]; intros _; exact HRa|].
      intros HF. rewrite (map_len_of_low_t _ _ HF). apply R_same. split; [reflexivity|]. intros _.
      apply env_cons; [|apply env_taint, He].
      unfold var_rel. rewrite tmem_cons, bytes_eqb_refl. simpl.
      destruct HLR as [_ HE]. left. apply (HE f _ _ Een HF).
    - apply orb_false_iff in Et. destruct Et as [Ets Etd]. injection H as <- <-.
      assert (Hab : existsb (tainted' t r) [dst; src] = false) by (simpl; rewrite Etd, Ets; reflexivity).
      pose proof (evs_eq t r e1 e2 [dst; src] He Hab) as HRa.
      cbv beta iota delta [SR]. eapply R_app; [eapply R_app; [exact HRr|]; intros _; exact HRa|].
      intros E. rewrite E. apply R_same. split; [reflexivity|]. intros _.
      destruct (base_var dst); [apply env_cons_eq, He|exact He].
  Qed.

  (* ---- statements ---- *)
  Definition stmt_ok (af : nat) : Prop :=
    forall s t r t' r', ct_stmt' af t r s = Some (t', r') ->
    forall ef e1 e2 res1 res2, env_low_equiv2 t r e1 e2 ->
      exs1 ef e1 s = Some res1 -> exs2 ef e2 s = Some res2 -> SR t' r' res1 res2.

  Lemma list_sound af : stmt_ok af ->
    forall l t r t' r', ct_stmts' af t r l = Some (t', r') ->
    forall ef e1 e2 res1 res2, env_low_equiv2 t r e1 e2 ->
      exl1 ef e1 l = Some res1 -> exl2 ef e2 l = Some res2 -> SR t' r' res1 res2.
  Proof.
    intros Hs. induction l as [|x l IH]; intros t r t' r' Hct ef e1 e2 res1 res2 He X1 X2.
    - simpl in *. injection Hct as <- <-. injection X1 as <-. injection X2 as <-.
      apply (SR_simple _ _ True); [apply R_nil; exact I|]. intros _; exact He.
    - simpl in Hct. destruct (ct_stmt' af t r x) as [[tm rm]|] eqn:Ex; [|discriminate].
      rewrite exec_list_cons in X1, X2.
      destruct (exs1 ef e1 x) as [f1|] eqn:F1; [|discriminate].
      destruct (exs2 ef e2 x) as [f2|] eqn:F2; [|discriminate].
      simpl in X1, X2.
      eapply then_sound; [exact (Hs x t r tm rm Ex ef e1 e2 f1 f2 He F1 F2)| |exact X1|exact X2].
      intros e1' e2' q1 q2 He' Q1 Q2. exact (IH tm rm t' r' Hct ef e1' e2' q1 q2 He' Q1 Q2).
  Qed.

  Theorem stmt_sound : forall af, stmt_ok af.
  Proof.
    induction af as [|af IHaf]; intros s t r t' r' Hct ef e1 e2 res1 res2 He X1 X2; [discriminate|].
    destruct ef as [|ef]; [discriminate|].
    destruct s as [x init|lhs rhs|lhs rhs|ex|init c thn els|es|parts body| ].
    - (* SDecl *)
      destruct init as [i|].
      + simpl in Hct. destruct (tainted' t r i) eqn:Et; [discriminate|]. injection Hct as <- <-.
        rewrite exec_decl_some in X1, X2. injection X1 as <-. injection X2 as <-.
        eapply SR_simple; [apply (ev_eq t r); eauto|]. intros E. rewrite E. apply env_cons_eq, He.
      + simpl in *. injection Hct as <- <-. injection X1 as <-. injection X2 as <-.
        apply (SR_simple _ _ True); [apply R_nil; exact I|]. intros _. apply env_cons_eq, He.
    - (* SDefine *)
      assert (Hother : match rhs with ECall _ _ => False | _ => True end ->
                       (if tainted' t r rhs then None else Some (t, r)) = Some (t', r') ->
                       SR t' r' res1 res2).
      { intros Hn H. destruct (tainted' t r rhs) eqn:Et; [discriminate|]. injection H as <- <-.
        rewrite exec_define_other in X1, X2 by exact Hn. injection X1 as <-. injection X2 as <-.
        eapply SR_simple; [apply (ev_eq t r); eauto|]. intros E. rewrite E. apply bind_equiv, He. }
      destruct rhs as [y|y f|f args|y bs|y i|op y|op a b| |es0| ]; try (apply Hother; [exact I|exact Hct]).
      clear Hother. simpl in Hct. destruct (is_key f) eqn:Ek.
      + destruct (existsb (tainted' t r) args) eqn:Ea; [discriminate|].
        destruct lhs as [|kx rest]; [discriminate|]. injection Hct as <- <-.
        rewrite exec_define_key in X1, X2 by exact Ek. injection X1 as <-. injection X2 as <-.
        eapply SR_simple.
        * eapply R_app; [apply (evs_eq t r); eauto|]. intros E. rewrite E. apply R_same. exact I.
        * intros _. simpl. apply env_cons.
          { unfold var_rel. rewrite tmem_cons, bytes_eqb_refl. simpl. left. right. exists k1, k2. auto. }
          apply (env_app_eq (kx :: t) r), env_taint, He.
      + destruct (is_encoder f) eqn:Een; [discriminate|].
        destruct (call_stmt_sound _ _ _ _ _ _ Hct Een) as [Ht Hd].
        rewrite exec_define_call in X1, X2 by exact Ek. injection X1 as <-. injection X2 as <-.
        eapply SR_simple; [exact (ev_eq t r e1 e2 (ECall f args) He Ht)|]. intros E. rewrite E.
        apply Hd, bind_equiv, He.
    - (* SAssign *)
      simpl in Hct. destruct (tainted' t r rhs) eqn:Et; [discriminate|].
      rewrite exec_assign in X1, X2. injection X1 as <-. injection X2 as <-.
      destruct lhs as [x|y f| | | | | | | | ]; try discriminate.
      + injection Hct as <- <-. eapply SR_simple; [apply (ev_eq t r); eauto|]. intros E. rewrite E.
        simpl. apply env_cons_eq, He.
      + destruct y as [x| | | | | | | | | ]; try discriminate.
        destruct (bytes_eqb f s_Sum || tmem x t) eqn:Eb; [discriminate|]. injection Hct as <- <-.
        apply orb_false_iff in Eb. destruct Eb as [Ef Ex].
        eapply SR_simple; [apply (ev_eq t r); eauto|]. intros E. rewrite E.
        simpl. apply set_field_equiv; assumption.
    - (* SExpr *)
      destruct ex as [y|y f|f args|y bs|y i|op y|op a b| |es0| ]; try discriminate.
      simpl in Hct. rewrite exec_sexpr_call in X1, X2. injection X1 as <-. injection X2 as <-.
      destruct (is_encoder f) eqn:Een.
      + exact (enc_stmt_sound t r f args t' r' e1 e2 Een Hct He).
      + destruct (call_stmt_sound _ _ _ _ _ _ Hct Een) as [Ht Hd].
        unfold sexpr_env. rewrite Een.
        eapply SR_simple; [exact (ev_eq t r e1 e2 (ECall f args) He Ht)|]. intros _. apply Hd, He.
    - (* SIf *)
      simpl in Hct. rewrite exec_if in X1, X2.
      destruct (match init with Some i => ct_stmt' af t r i | None => Some (t, r) end) as [[t1 r1]|] eqn:Ei;
        [|discriminate].
      rewrite !ct_list_eq in Hct.
      destruct (tainted' t1 r1 c) eqn:Ec; [discriminate|].
      destruct (ct_stmts' af t1 r1 thn) as [[ta ra]|] eqn:Ea; [|discriminate].
      destruct (ct_stmts' af t1 r1 els) as [[tb rb]|] eqn:Eb; [|discriminate].
      injection Hct as <- <-.
      destruct (match init with Some i => exs1 ef e1 i | None => Some (e1, None, []) end) as [f1|] eqn:F1;
        [|discriminate].
      destruct (match init with Some i => exs2 ef e2 i | None => Some (e2, None, []) end) as [f2|] eqn:F2;
        [|discriminate].
      simpl in X1, X2.
      assert (HS : SR t1 r1 f1 f2).
      { destruct init as [i|].
        - eapply IHaf; eauto.
        - injection Ei as <- <-. injection F1 as <-. injection F2 as <-.
          apply (SR_simple _ _ True); [apply R_nil; exact I|]. intros _; exact He. }
      eapply then_sound; [exact HS| |exact X1|exact X2].
      intros e1' e2' q1 q2 He' Q1 Q2. cbv beta in Q1, Q2.
      destruct (exl1 ef e1' (if truthy (fst (ev1 e1' c)) then thn else els)) as [b1|] eqn:B1; [|simpl in Q1; discriminate].
      destruct (exl2 ef e2' (if truthy (fst (ev2 e2' c)) then thn else els)) as [b2|] eqn:B2; [|simpl in Q2; discriminate].
      simpl in Q1, Q2. injection Q1 as <-. injection Q2 as <-.
      eapply SR_pre; [apply (ev_eq t1 r1); eauto|]. intros E. rewrite E in *.
      apply (SR_pre _ _ True); [apply R_same; exact I|]. intros _.
      destruct (truthy (fst (ev2 e2' c))).
      + apply (SR_weaken ta ra).
        * intros x Hx. rewrite tmem_app, Hx. reflexivity.
        * intros x Hx. rewrite tmem_app, Hx. reflexivity.
        * eapply (list_sound af IHaf); eauto.
      + apply (SR_weaken tb rb).
        * intros x Hx. rewrite tmem_app, Hx. apply orb_true_r.
        * intros x Hx. rewrite tmem_app, Hx. apply orb_true_r.
        * eapply (list_sound af IHaf); eauto.
    - (* SReturn *)
      simpl in Hct. destruct (existsb (tainted' t r) es) eqn:Ea; [discriminate|]. injection Hct as <- <-.
      rewrite exec_return in X1, X2. injection X1 as <-. injection X2 as <-.
      simpl. eapply R_mono; [apply (evs_eq t r); eauto|]. intros E. rewrite E. split; [reflexivity|discriminate].
    - (* SFor *)
      simpl in Hct. rewrite ct_list_eq in Hct.
      destruct (ct_stmts' af t r body) as [[ti ri]|] eqn:Eb1; [|discriminate].
      rewrite ct_list_eq in Hct.
      destruct (existsb (tainted' ti ri) parts || negb (subset t ti && subset r ri)) eqn:Ex; [discriminate|].
      apply orb_false_iff in Ex. destruct Ex as [Epar Esub]. apply negb_false_iff in Esub.
      apply andb_true_iff in Esub. destruct Esub as [Est Esr].
      destruct (ct_stmts' af ti ri body) as [[t2 r2]|] eqn:Eb2; [|discriminate].
      destruct (subset t2 ti && subset r2 ri) eqn:Es2; [|discriminate]. injection Hct as <- <-.
      apply andb_true_iff in Es2. destruct Es2 as [Es2t Es2r].
      assert (He' : env_low_equiv2 ti ri e1 e2).
      { eapply env_weaken; [| |exact He]; intros x Hx;
          [exact (subset_tmem _ _ x Est Hx)|exact (subset_tmem _ _ x Esr Hx)]. }
      clear He Eb1 Est Esr. revert e1 e2 res1 res2 He' X1 X2.
      induction (S ef) as [|n IHn]; intros e1 e2 res1 res2 He X1 X2; [discriminate|].
      rewrite exec_for in X1, X2.
      pose proof (evs_eq ti ri e1 e2 parts He Epar) as HR.
      assert (Hbody : forall f1 f2 q1 q2,
                 exl1 n e1 body = Some f1 -> exl2 n e2 body = Some f2 ->
                 then_ f1 (fun e' => exs1 n e' (SFor parts body)) = Some q1 ->
                 then_ f2 (fun e' => exs2 n e' (SFor parts body)) = Some q2 ->
                 SR ti ri q1 q2).
      { intros f1 f2 q1 q2 B1 B2 T1 T2.
        eapply then_sound; [| |exact T1|exact T2].
        - apply (SR_weaken t2 r2);
            [intros x Hx; exact (subset_tmem _ _ x Es2t Hx)|intros x Hx; exact (subset_tmem _ _ x Es2r Hx)|].
          eapply (list_sound af IHaf); eauto.
        - intros e1' e2' a1 a2 He'' A1 A2. eapply IHn; eauto. }
      destruct (loop_cond (fst (evl1 e1 parts))) eqn:C1, (loop_cond (fst (evl2 e2 parts))) eqn:C2.
      + destruct (exl1 n e1 body) as [f1|] eqn:B1; [|discriminate].
        destruct (exl2 n e2 body) as [f2|] eqn:B2; [|discriminate].
        simpl in X1, X2.
        destruct (then_ f1 (fun e' => exs1 n e' (SFor parts body))) as [q1|] eqn:T1; [|discriminate].
        destruct (then_ f2 (fun e' => exs2 n e' (SFor parts body))) as [q2|] eqn:T2; [|discriminate].
        simpl in X1, X2. injection X1 as <-. injection X2 as <-.
        eapply SR_pre; [exact HR|]. intros _.
        apply (SR_pre _ _ True); [apply R_same; exact I|]. intros _.
        eapply Hbody; eauto.
      + destruct (exl1 n e1 body) as [f1|] eqn:B1; [|discriminate]. simpl in X1.
        destruct (then_ f1 (fun e' => exs1 n e' (SFor parts body))) as [q1|] eqn:T1; [|discriminate].
        simpl in X1. injection X1 as <-. injection X2 as <-.
        change (SR ti ri (pre (snd (evl1 e1 parts)) (pre [LBranch true] q1))
                         (pre (snd (evl2 e2 parts)) (e2, None, [LBranch false]))).
        eapply SR_pre; [exact HR|]. intros E. rewrite E in C1. congruence.
      + destruct (exl2 n e2 body) as [f2|] eqn:B2; [|discriminate]. simpl in X2.
        destruct (then_ f2 (fun e' => exs2 n e' (SFor parts body))) as [q2|] eqn:T2; [|discriminate].
        simpl in X2. injection X1 as <-. injection X2 as <-.
        change (SR ti ri (pre (snd (evl1 e1 parts)) (e1, None, [LBranch false]))
                         (pre (snd (evl2 e2 parts)) (pre [LBranch true] q2))).
        eapply SR_pre; [exact HR|]. intros E. rewrite E in C1. congruence.
      + injection X1 as <-. injection X2 as <-.
        change (SR ti ri (pre (snd (evl1 e1 parts)) (e1, None, [LBranch false]))
                         (pre (snd (evl2 e2 parts)) (e2, None, [LBranch false]))).
        eapply SR_pre; [exact HR|]. intros _. simpl. apply R_same. split; [reflexivity|]. intros _; exact He.
    - (* SUnknown *)
      discriminate.
  Qed.
End Main.

(* ------------------------------------------------------------------------------------------- main results *)
(* The two runs differ in the secret key (k1 / k2, equal lengths) and in the parsed hash record that
   Unmarshal delivers through its out-parameter (pend1 / pend2: equal except for the content of field Sum,
   equal lengths); everything else is equal.  Their traces agree up to the first ConstantTimeCompare whose
   verdict differs; if all verdicts agree the traces (and the returned values) are identical. *)
Theorem ct_sound_strong :
  forall body fuel fsem k1 k2 pend1 pend2 env1 env2 r1 r2 tr1 tr2 e1' e2',
    ct_ok' body = true -> len_respecting fsem -> length k1 = length k2 ->
    pend_low_equiv pend1 pend2 -> env_low_equiv [] env1 env2 ->
    exec fuel fsem k1 pend1 env1 body = Some (e1', r1, tr1) ->
    exec fuel fsem k2 pend2 env2 body = Some (e2', r2, tr2) ->
    tsim tr1 tr2 /\ (ctc_verdicts tr1 = ctc_verdicts tr2 -> tr1 = tr2 /\ r1 = r2).
Proof.
  intros body fuel fsem k1 k2 pend1 pend2 env1 env2 r1 r2 tr1 tr2 e1' e2' Hok HLR Hk Hp He X1 X2.
  unfold ct_ok' in Hok. apply andb_true_iff in Hok. destruct Hok as [_ Hok].
  destruct (ct_stmts' 50 [] [] body) as [[t' r']|] eqn:Hct; [|discriminate].
  pose proof (list_sound fsem k1 k2 pend1 pend2 50 (stmt_sound fsem k1 k2 Hk HLR pend1 pend2 Hp 50)
                body [] [] t' r' Hct fuel env1 env2 _ _ He X1 X2) as HS.
  simpl in HS. destruct HS as [HT HE]. split; [exact HT|].
  intros Hv. pose proof (tsim_verdicts_eq _ _ HT Hv) as E. split; [exact E|]. apply (HE E).
Qed.

Theorem ct_sound :
  forall body fuel fsem k1 k2 pend1 pend2 env1 env2 r1 r2 tr1 tr2 e1' e2',
    ct_ok' body = true -> len_respecting fsem -> length k1 = length k2 ->
    pend_low_equiv pend1 pend2 ->                       (* the stored hashes differ only in the bytes of .Sum *)
    env_low_equiv [] env1 env2 ->                       (* initially nothing is tainted *)
    exec fuel fsem k1 pend1 env1 body = Some (e1', r1, tr1) ->
    exec fuel fsem k2 pend2 env2 body = Some (e2', r2, tr2) ->
    ctc_verdicts tr1 = ctc_verdicts tr2 ->              (* the declassified verdicts of ConstantTimeCompare agree *)
    strip_verdicts tr1 = strip_verdicts tr2.            (* then everything timing can reveal is identical *)
Proof.
  intros body fuel fsem k1 k2 pend1 pend2 env1 env2 r1 r2 tr1 tr2 e1' e2' Hok HLR Hk Hp He X1 X2 Hv.
  destruct (ct_sound_strong body fuel fsem k1 k2 pend1 pend2 env1 env2 r1 r2 tr1 tr2 e1' e2'
              Hok HLR Hk Hp He X1 X2) as [_ H].
  destruct (H Hv) as [E _]. rewrite E. reflexivity.
Qed.

(* initially-untainted low-equivalence is plain agreement of the two environments *)
Lemma env_low_equiv_nil_refl e : env_low_equiv [] e e.
Proof. intros x. destruct (lookup x e); [reflexivity|exact I]. Qed.

(* the theorem applies to the ten generated Check bodies, e.g. md5, with the concrete fsem of CTSoundP5 *)
Require Import GC.CT.CTSoundP5 GC.Generated.Gen_check_ir.
Corollary ct_sound_md5 :
  forall fuel k1 k2 sum1 sum2 env0 r1 r2 tr1 tr2 e1' e2',
    length k1 = length k2 -> length sum1 = length sum2 ->
    exec fuel fsem_ex k1 (pend_of sum1) env0 check_ir_md5 = Some (e1', r1, tr1) ->
    exec fuel fsem_ex k2 (pend_of sum2) env0 check_ir_md5 = Some (e2', r2, tr2) ->
    ctc_verdicts tr1 = ctc_verdicts tr2 -> strip_verdicts tr1 = strip_verdicts tr2.
Proof.
  intros fuel k1 k2 sum1 sum2 env0 r1 r2 tr1 tr2 e1' e2' Hk Hs X1 X2 Hv.
  assert (Hp : pend_low_equiv (pend_of sum1) (pend_of sum2)).
  { intros x. unfold pend_of. simpl. match goal with |- context [bytes_eqb x ?s] => destruct (bytes_eqb x s) end; [|exact I].
    right. do 2 eexists. split; [reflexivity|]. split; [reflexivity|].
    constructor; [split; [reflexivity|reflexivity]|].
    constructor; [|constructor]. split; [reflexivity|]. simpl.
    right. exists sum1, sum2. auto. }
  exact (ct_sound check_ir_md5 fuel fsem_ex k1 k2 _ _ env0 env0 r1 r2 tr1 tr2 e1' e2'
           (proj2 md5_accepted) fsem_ex_len_respecting Hk Hp (env_low_equiv_nil_refl env0) X1 X2 Hv).
Qed.

Print Assumptions ct_sound_strong.
Print Assumptions ct_sound_md5.
Print Assumptions ct_sound.
