(* C19: an executable SEARCH for leakage witnesses on top of the leakage semantics of CT/Leak.v.

   When ct_ok' rejects a Check body, [leak_witness] runs the body under a concrete callee semantics [fsem_w] on a
   fixed list of input pairs that differ only in secret-derived bytes (the key returned by Key, the stored digest
   scheme.Sum; equal lengths) and returns
     - the first pair on which all subtle.ConstantTimeCompare verdicts agree (Leak.ctc_verdicts) but the leakage
       traces differ after Leak.strip_verdicts — what CTSound.ct_sound excludes for accepted programs; failing that
     - the first pair whose traces part before the first differing verdict (Leak.tsim fails) — what
       CTSound.ct_sound_strong excludes; this is the only possible shape for an early exit placed before the
       constant-time comparison.
   [bypass_witness] looks for a single run that returns success although no ConstantTimeCompare answered 1.

   This is a search, not a proof: None means "nothing among the tried inputs".  Definitions only; everything
   computes by vm_compute in well under a second. *)
Require Import GC.Base.Bytes GC.CT.IR GC.CT.Leak.
Require Import Coq.Strings.String Coq.Strings.Ascii.
Open Scope Z_scope.

(* ------------------------------------------------------------------------------------------------ names *)
Fixpoint wbs (s : string) : bytes :=
  match s with
  | EmptyString => []
  | String c r => Z.of_N (N_of_ascii c) :: wbs r
  end.

Definition n_Equal          : ident := Eval vm_compute in wbs "Equal".
Definition n_EqualFold      : ident := Eval vm_compute in wbs "EqualFold".
Definition n_Compare        : ident := Eval vm_compute in wbs "Compare".
Definition n_HasPrefix      : ident := Eval vm_compute in wbs "HasPrefix".
Definition n_ToLower        : ident := Eval vm_compute in wbs "ToLower".
Definition n_ToUpper        : ident := Eval vm_compute in wbs "ToUpper".
Definition n_EncodeToString : ident := Eval vm_compute in wbs "EncodeToString".
Definition n_AppendEncode   : ident := Eval vm_compute in wbs "AppendEncode".
Definition n_copy           : ident := Eval vm_compute in wbs "copy".
Definition n_true           : ident := Eval vm_compute in wbs "true".
Definition n_Salt           : ident := Eval vm_compute in wbs "Salt".
Definition n_hash           : ident := Eval vm_compute in wbs "hash".
Definition n_password       : ident := Eval vm_compute in wbs "password".
Definition n_scheme         : ident := Eval vm_compute in wbs "scheme".

(* ------------------------------------------------------------------------------------ decidable equalities *)
Fixpoint value_eqb (a b : value) {struct a} : bool :=
  match a, b with
  | VBytes x, VBytes y => bytes_eqb x y
  | VInt x, VInt y => x =? y
  | VNilV, VNilV => true
  | VErrV x, VErrV y => x =? y
  | VRec f, VRec g =>
    (fix go (l m : list (ident * value)) : bool :=
       match l, m with
       | [], [] => true
       | (i, v) :: l', (j, w) :: m' => bytes_eqb i j && value_eqb v w && go l' m'
       | _, _ => false
       end) f g
  | VTup f, VTup g =>
    (fix go (l m : list value) : bool :=
       match l, m with
       | [], [] => true
       | v :: l', w :: m' => value_eqb v w && go l' m'
       | _, _ => false
       end) f g
  | _, _ => false
  end.

Fixpoint list_eqb {A} (eqb : A -> A -> bool) (l m : list A) : bool :=
  match l, m with
  | [], [] => true
  | x :: l', y :: m' => eqb x y && list_eqb eqb l' m'
  | _, _ => false
  end.

Fixpoint expr_eqb (a b : expr) {struct a} : bool :=
  let all := fix go (l m : list expr) : bool :=
               match l, m with
               | [], [] => true
               | x :: l', y :: m' => expr_eqb x y && go l' m'
               | _, _ => false
               end in
  match a, b with
  | EId x, EId y => bytes_eqb x y
  | ESel e f, ESel e' f' => bytes_eqb f f' && expr_eqb e e'
  | ECall f l, ECall f' l' => expr_eqb f f' && all l l'
  | ESlice e l, ESlice e' l' => expr_eqb e e' && all l l'
  | EIndex e i, EIndex e' i' => expr_eqb e e' && expr_eqb i i'
  | EUnary o e, EUnary o' e' => bytes_eqb o o' && expr_eqb e e'
  | EBinary o x y, EBinary o' x' y' => bytes_eqb o o' && expr_eqb x x' && expr_eqb y y'
  | ELit, ELit => true
  | EComposite l, EComposite l' => all l l'
  | EUnknown, EUnknown => true
  | _, _ => false
  end.

Definition option_eqb {A} (eqb : A -> A -> bool) (a b : option A) : bool :=
  match a, b with
  | None, None => true
  | Some x, Some y => eqb x y
  | _, _ => false
  end.

Fixpoint stmt_eqb (a b : stmt) {struct a} : bool :=
  let all := fix go (l m : list stmt) : bool :=
               match l, m with
               | [], [] => true
               | x :: l', y :: m' => stmt_eqb x y && go l' m'
               | _, _ => false
               end in
  match a, b with
  | SDecl x i, SDecl y j => bytes_eqb x y && option_eqb expr_eqb i j
  | SDefine l e, SDefine m f => list_eqb bytes_eqb l m && expr_eqb e f
  | SAssign l r, SAssign l' r' => expr_eqb l l' && expr_eqb r r'
  | SExpr e, SExpr f => expr_eqb e f
  | SIf i c t e, SIf i' c' t' e' =>
    match i, i' with
    | None, None => true
    | Some x, Some y => stmt_eqb x y
    | _, _ => false
    end && expr_eqb c c' && all t t' && all e e'
  | SReturn l, SReturn m => list_eqb expr_eqb l m
  | SFor p l, SFor q m => list_eqb expr_eqb p q && all l m
  | SUnknown, SUnknown => true
  | _, _ => false
  end.
Definition stmts_eqb : list stmt -> list stmt -> bool := list_eqb stmt_eqb.

Definition leak_eqb (a b : leak) : bool :=
  match a, b with
  | LBranch x, LBranch y => Bool.eqb x y
  | LCall f l, LCall g m => expr_eqb f g && list_eqb value_eqb l m
  | LIndex v, LIndex w => value_eqb v w
  | LCompare x y, LCompare x' y' => value_eqb x x' && value_eqb y y'
  | LVerdict v, LVerdict w => value_eqb v w
  | _, _ => false
  end.
Definition trace_eqb : trace -> trace -> bool := list_eqb leak_eqb.

(* ------------------------------------------------------------------------------------ Go-like primitives *)
Definition vbool (b : bool) : value := VInt (if b then 1 else 0).
Definition is_zero (v : value) : bool := match v with VNilV => true | VInt z => z =? 0 | _ => false end.
(* ==: every literal (0, "", nil, false) is the one value ELit, so nil and 0 are identified *)
Definition go_eq (a b : value) : bool := (is_zero a && is_zero b) || value_eqb a b.
Definition as_int (v : value) : Z := match v with VInt z => z | _ => 0 end.
Definition as_bytes (v : value) : bytes := match v with VBytes b => b | _ => [] end.

Definition lower_byte (c : Z) : Z := if (65 <=? c) && (c <=? 90) then c + 32 else c.
Definition upper_byte (c : Z) : Z := if (97 <=? c) && (c <=? 122) then c - 32 else c.
Definition fold_eqb (a b : bytes) : bool := bytes_eqb (map lower_byte a) (map lower_byte b).

Definition op_is (op : ident) (s : string) : bool := bytes_eqb op (wbs s).

Definition binop (op : ident) (a b : value) : value :=
  if op_is op "==" then vbool (go_eq a b)
  else if op_is op "!=" then vbool (negb (go_eq a b))
  else if op_is op "&&" then vbool (truthy a && truthy b)
  else if op_is op "||" then vbool (truthy a || truthy b)
  else if op_is op "<" then vbool (as_int a <? as_int b)
  else if op_is op "<=" then vbool (as_int a <=? as_int b)
  else if op_is op ">" then vbool (as_int b <? as_int a)
  else if op_is op ">=" then vbool (as_int b <=? as_int a)
  else if op_is op "++" then VInt (as_int a + 1)          (* i++ is translated to  i = i ++ <lit> *)
  else if op_is op "--" then VInt (as_int a - 1)
  else if op_is op "+" then VInt (as_int a + as_int b)
  else if op_is op "-" then VInt (as_int a - as_int b)
  else if op_is op "*" then VInt (as_int a * as_int b)
  else if op_is op "|" then VInt (Z.lor (as_int a) (as_int b))
  else if op_is op "&" then VInt (Z.land (as_int a) (as_int b))
  else if op_is op "^" then VInt (Z.lxor (as_int a) (as_int b))
  else VNilV.

Definition unop (op : ident) (a : value) : value :=
  if op_is op "!" then vbool (negb (truthy a))
  else if op_is op "-" then VInt (- as_int a)
  else a.                                                 (* &x, *x: the value itself *)

(* e[lo:hi] (and e[lo:hi:max]); a single bound is read as e[:hi] *)
Definition slice_of (vs : list value) : value :=
  match vs with
  | [VBytes b; VInt hi] => VBytes (firstn (Z.to_nat hi) b)
  | VBytes b :: VInt lo :: VInt hi :: _ => VBytes (firstn (Z.to_nat (hi - lo)) (skipn (Z.to_nat lo) b))
  | v :: _ => v
  | [] => VNilV
  end.
Definition index_of (vs : list value) : value :=
  match vs with
  | [VBytes b; i] => VInt (nth (Z.to_nat (as_int i)) b 0)
  | _ => VNilV
  end.

(* the first byte-string among the arguments *)
Fixpoint first_bytes (vs : list value) : value :=
  match vs with
  | [] => VNilV
  | VBytes b :: _ => VBytes b
  | _ :: r => first_bytes r
  end.
Fixpoint last_value (vs : list value) : value :=
  match vs with [] => VNilV | [v] => v | _ :: r => last_value r end.

(* ------------------------------------------------------------------------------- the callee semantics *)
(* [exec] hands fsem: the arguments alone for the constant-time callees (ConstantTimeCompare, X.Encode, len,
   make, X.EncodedLen); receiver :: arguments for every other callee of the form x.f; and [v] for the selection
   x.f on a non-record v.  Key itself never reaches fsem (exec returns its parameter k).
     key : what a METHOD called Key returns (x.Key(...) is not Leak.is_key), with a nil error
     sum : what .Sum yields on a value that is not a record (scheme filled by something other than an &x
           out-parameter); the normal route for the digest is the record in [pend_w]
     u   : what an expression the translator does not understand (EUnknown: a type assertion, a closure, ...)
           evaluates to. *)
Definition fsem_wu (u : value) (key sum : bytes) (f : expr) (vs : list value) : value :=
  match f with
  | ELit => VInt 0
  | EUnknown => u
  | EBinary op _ _ => match vs with [a; b] => binop op a b | _ => VNilV end
  | EUnary op _ => match vs with [a] => unop op a | _ => VNilV end
  | ESlice _ _ => slice_of vs
  | EIndex _ _ => index_of vs
  | EComposite _ | ECall _ _ => VNilV
  | EId n =>
    match vs with
    | [] => if bytes_eqb n n_true then VInt 1 else VNilV          (* unbound names: packages, constants *)
    | _ =>
      if bytes_eqb n s_len then (match vs with [v] => len_of v | _ => VNilV end)
      else if bytes_eqb n s_make then VBytes (repeat 0 (Z.to_nat (as_int (last_value vs))))
      else if bytes_eqb n n_copy then first_bytes (tl vs)
      else match vs with [v] => v | _ => VNilV end                (* conversions []byte(x), string(x), uint8(x) *)
    end
  | ESel _ n =>
    if is_ctc f then
      match vs with
      | [VBytes a; VBytes b] => vbool (bytes_eqb a b)
      | _ => VInt 0
      end
    else if bytes_eqb n s_Encode then                             (* every encoder: byte-wise identity *)
      match vs with [_; VBytes s] => VBytes s | _ => VNilV end
    else if bytes_eqb n s_EncodedLen then (match vs with [v] => v | _ => VNilV end)
    else if bytes_eqb n s_Mismatch then VErrV 1
    else if bytes_eqb n s_Sum then VBytes sum
    else if bytes_eqb n s_Key then VTup [VBytes key; VNilV]
    else
      let a := tl vs in                                           (* drop the receiver / package value *)
      if bytes_eqb n n_Equal then
        (match a with [VBytes x; VBytes y] => vbool (bytes_eqb x y) | _ => VInt 0 end)
      else if bytes_eqb n n_EqualFold then
        (match a with [VBytes x; VBytes y] => vbool (fold_eqb x y) | _ => VInt 0 end)
      else if bytes_eqb n n_Compare then
        (match a with [VBytes x; VBytes y] => VInt (if bytes_eqb x y then 0 else 1) | _ => VInt 1 end)
      else if bytes_eqb n n_HasPrefix then
        (match a with [VBytes x; VBytes y] => vbool (has_prefix y x) | _ => VInt 0 end)
      else if bytes_eqb n n_ToLower then
        (match a with [VBytes x] => VBytes (map lower_byte x) | _ => VNilV end)
      else if bytes_eqb n n_ToUpper then
        (match a with [VBytes x] => VBytes (map upper_byte x) | _ => VNilV end)
      else if bytes_eqb n n_EncodeToString || bytes_eqb n n_AppendEncode then first_bytes (rev a)
      else VNilV                                                  (* Unmarshal &c.: nil error, public *)
  end.

(* The analysis treats EUnknown as tainted (it may be anything, e.g. state kept from an earlier call with the
   same secrets), and so does the search: an unknown expression yields (secret-derived bytes, true) — the shape
   of  v, ok := x.(T)  — so that whatever is done with it shows up in the trace. *)
Definition unknown_w (key : bytes) : value := VTup [VBytes key; VInt 1].
Definition fsem_w (key sum : bytes) : expr -> list value -> value := fsem_wu (unknown_w key) key sum.

(* ------------------------------------------------------------------------------------------ the inputs *)
(* every &x in the body: the out-parameters through which a parsed scheme may be delivered *)
Fixpoint amp_expr (e : expr) {struct e} : list ident :=
  let all := fix go (l : list expr) : list ident :=
               match l with [] => [] | x :: r => amp_expr x ++ go r end in
  match e with
  | EUnary op (EId x) => if bytes_eqb op s_amp then [x] else []
  | EUnary _ e' | ESel e' _ => amp_expr e'
  | ECall f l => amp_expr f ++ all l
  | ESlice e' l => amp_expr e' ++ all l
  | EIndex a b | EBinary _ a b => amp_expr a ++ amp_expr b
  | EComposite l => all l
  | EId _ | ELit | EUnknown => []
  end.
Fixpoint amp_stmt (s : stmt) {struct s} : list ident :=
  let all := fix go (l : list stmt) : list ident :=
               match l with [] => [] | x :: r => amp_stmt x ++ go r end in
  match s with
  | SDecl _ (Some e) | SDefine _ e | SExpr e => amp_expr e
  | SAssign a b => amp_expr a ++ amp_expr b
  | SIf i c t e => match i with Some x => amp_stmt x | None => [] end ++ amp_expr c ++ all t ++ all e
  | SReturn l => flat_map amp_expr l
  | SFor p l => flat_map amp_expr p ++ all l
  | SDecl _ None | SUnknown => []
  end.
Definition amp_vars (body : list stmt) : list ident := n_scheme :: flat_map amp_stmt body.

(* the parsed hash: public fields fixed, the stored digest in .Sum (absent fields read as nil / 0) *)
Definition scheme_rec_w (sum : bytes) : value := VRec [(n_Salt, VBytes [97; 98]); (s_Sum, VBytes sum)].
Definition pend_w (body : list stmt) (sum : bytes) : env := map (fun x => (x, scheme_rec_w sum)) (amp_vars body).
Definition env_w : env :=
  [(n_hash, VBytes (wbs "$1$ab$xyz")); (n_password, VBytes (wbs "pw"))].

Definition fuel_w : nat := 300.
Definition run_wu (u : value) (body : list stmt) (key sum : bytes) : option result :=
  exec fuel_w (fsem_wu u key sum) key (pend_w body sum) env_w body.
Definition run_w (body : list stmt) (key sum : bytes) : option result :=
  exec fuel_w (fsem_w key sum) key (pend_w body sum) env_w body.

(* ---- the input pairs: (key1, sum1) vs (key2, sum2); every encoder is the identity, so ConstantTimeCompare
        sees key against sum.  Within a pair lengths agree and so do the verdicts (0/0 or 1/1). ---- *)
Definition d_base  : bytes := Eval vm_compute in wbs "0a1b2c3d".
Definition d_first : bytes := Eval vm_compute in wbs "9a1b2c3d".     (* differs from d_base in the FIRST byte *)
Definition d_last  : bytes := Eval vm_compute in wbs "0a1b2c3e".     (* differs from d_base in the LAST byte *)
Definition d_mid   : bytes := Eval vm_compute in wbs "0a1f2c3d".     (* differs in a middle byte *)
Definition d_mixed : bytes := Eval vm_compute in wbs "0a1B2c3D".     (* case-folds to d_base, equals neither case *)
Definition d_upper : bytes := Eval vm_compute in wbs "0A1B2C3D".     (* d_base in upper case *)
Definition d_upper_last : bytes := Eval vm_compute in wbs "0A1B2C3E".
Definition d_other : bytes := Eval vm_compute in wbs "ffeeddcc".     (* differs from d_base everywhere *)

Definition input := (bytes * bytes)%type.                            (* (key, sum) *)
Definition input_pairs : list (input * input) :=
  [ ((d_base, d_first), (d_base, d_last));       (* 0 same key; stored digest wrong in first / last byte *)
    ((d_first, d_base), (d_last, d_base));       (* 1 same stored digest; key wrong in first / last byte *)
    ((d_base, d_first), (d_base, d_mid));        (* 2 first / middle byte *)
    ((d_mixed, d_base), (d_mixed, d_upper));     (* 3 stored hex digest differs only in letter case *)
    ((d_base, d_upper), (d_base, d_upper_last)); (* 4 equal up to case  vs  not equal even up to case *)
    ((d_base, d_base), (d_other, d_other));      (* 5 both match (verdict 1), different secrets *)
    ((d_base, d_other), (d_other, d_base));      (* 6 both mismatch in every byte *)
    ((d_base, d_last), (d_other, d_base)) ].     (* 7 wrong in the last byte only  vs  wrong everywhere *)

Definition pair_wf (p : input * input) : bool :=
  let '((k1, s1), (k2, s2)) := p in
  (List.length k1 =? List.length k2)%nat && (List.length s1 =? List.length s2)%nat.
Definition input_pairs_wf : bool := forallb pair_wf input_pairs.

(* ------------------------------------------------------------------------------------------ the search *)
(* Leak.tsim, decided: the traces agree up to the first ConstantTimeCompare whose verdicts differ *)
Fixpoint tsim_b (a b : trace) : bool :=
  match a, b with
  | [], [] => true
  | LVerdict v1 :: a', LVerdict v2 :: b' => if value_eqb v1 v2 then tsim_b a' b' else true
  | x :: a', y :: b' => leak_eqb x y && tsim_b a' b'
  | _, _ => false
  end.

Record witness := {
  w_pair : nat;                    (* index in input_pairs *)
  w_strict : bool;                 (* true: all verdicts agree (contradicts ct_sound);
                                      false: the traces part BEFORE the first differing verdict (ct_sound_strong) *)
  w_in1 : input; w_in2 : input;    (* (key, sum) of the two runs *)
  w_tr1 : trace; w_tr2 : trace     (* their full leakage traces (verdict events included) *)
}.

(* strict = true : both runs complete, Leak.ctc_verdicts agree, the traces differ after Leak.strip_verdicts —
                   exactly the situation CTSound.ct_sound excludes for accepted programs;
   strict = false: both runs complete and Leak.tsim fails — the situation ct_sound_strong excludes; needed for an
                   early exit placed BEFORE the constant-time comparison, where one run never reaches it *)
Definition try_pair_gen (strict : bool) (body : list stmt) (i : nat) (p : input * input) : option witness :=
  let '((k1, s1), (k2, s2)) := p in
  if pair_wf p then
    match run_w body k1 s1, run_w body k2 s2 with
    | Some (_, _, t1), Some (_, _, t2) =>
      if (if strict
          then list_eqb value_eqb (ctc_verdicts t1) (ctc_verdicts t2)
               && negb (trace_eqb (strip_verdicts t1) (strip_verdicts t2))
          else negb (tsim_b t1 t2))
      then Some {| w_pair := i; w_strict := strict; w_in1 := (k1, s1); w_in2 := (k2, s2);
                   w_tr1 := t1; w_tr2 := t2 |}
      else None
    | _, _ => None
    end
  else None.
Definition try_pair : list stmt -> nat -> input * input -> option witness := try_pair_gen true.

Fixpoint search (strict : bool) (body : list stmt) (i : nat) (ps : list (input * input)) : option witness :=
  match ps with
  | [] => None
  | p :: r => match try_pair_gen strict body i p with Some w => Some w | None => search strict body (S i) r end
  end.

(* first a pair with agreeing verdicts; failing that, a pair whose traces part before the verdicts do *)
Definition leak_witness (body : list stmt) : option witness :=
  match search true body O input_pairs with
  | Some w => Some w
  | None => search false body O input_pairs
  end.

(* did every run of the search complete (no fuel exhaustion)?  and how many ConstantTimeCompare calls did the
   first run reach, did it return? — used to check that the real programs are not stuck early *)
Definition all_runs_complete (body : list stmt) : bool :=
  forallb (fun p : input * input =>
             let '((k1, s1), (k2, s2)) := p in
             match run_w body k1 s1, run_w body k2 s2 with Some _, Some _ => true | _, _ => false end)
          input_pairs.
Definition run_summary (body : list stmt) (key sum : bytes) : option (nat * list value * option (list value)) :=
  match run_w body key sum with
  | Some (_, rv, tr) => Some (List.length tr, ctc_verdicts tr, rv)
  | None => None
  end.

(* ---------------------------------------------------------------------------- success without comparison *)
(* A second, simpler search: a single run that returns success (nil) although no ConstantTimeCompare answered 1
   (a fast path, a fallback comparison).  Unknown expressions are tried as: (secret bytes, true), (nil, true) —
   remembered state that equals whatever public value it is compared with — and nil. *)
Record bypass := {
  b_in : input;                    (* (key, sum) *)
  b_unknown : value;               (* what EUnknown evaluated to *)
  b_tr : trace
}.
Definition is_success (rv : option (list value)) : bool :=
  match rv with Some [x] => is_zero x | _ => false end.
Definition bypass_inputs : list input :=
  flat_map (fun p : input * input => [fst p; snd p]) input_pairs.
Definition unknowns_w (key : bytes) : list value := [unknown_w key; VTup [VNilV; VInt 1]; VNilV].

Definition try_bypass (body : list stmt) (i : input) (u : value) : option bypass :=
  match run_wu u body (fst i) (snd i) with
  | Some (_, rv, tr) =>
    if is_success rv && negb (existsb (fun x => value_eqb x (VInt 1)) (ctc_verdicts tr))
    then Some {| b_in := i; b_unknown := u; b_tr := tr |} else None
  | None => None
  end.
Fixpoint first_some {A B} (f : A -> option B) (l : list A) : option B :=
  match l with
  | [] => None
  | x :: r => match f x with Some y => Some y | None => first_some f r end
  end.
Definition bypass_witness (body : list stmt) : option bypass :=
  first_some (fun i : input => first_some (try_bypass body i) (unknowns_w (fst i))) bypass_inputs.

(* ------------------------------------------------------------------------------------------ reporting *)
(* first position at which two traces differ, with the two events there (None: that trace has ended) *)
Fixpoint first_diff (i : nat) (a b : trace) : option (nat * option leak * option leak) :=
  match a, b with
  | [], [] => None
  | x :: a', y :: b' => if leak_eqb x y then first_diff (S i) a' b' else Some (i, Some x, Some y)
  | x :: _, [] => Some (i, Some x, None)
  | [], y :: _ => Some (i, None, Some y)
  end.

(* (index of the input pair, position, the event of run 1 there, the event of run 2 there); the position is in the
   verdict-stripped traces for a strict witness, in the full traces otherwise *)
Definition show_witness (w : witness) : nat * nat * option leak * option leak :=
  let pre := if w_strict w then strip_verdicts else (fun t : trace => t) in
  match first_diff O (pre (w_tr1 w)) (pre (w_tr2 w)) with
  | Some (i, x, y) => (w_pair w, i, x, y)
  | None => (w_pair w, O, None, None)
  end.

(* the same with the events reduced to their kind: "branch", "call", "index", "compare", "verdict", "end" *)
Definition leak_kind (l : option leak) : bytes :=
  match l with
  | Some (LBranch _) => wbs "branch"
  | Some (LCall _ _) => wbs "call"
  | Some (LIndex _) => wbs "index"
  | Some (LCompare _ _) => wbs "compare"
  | Some (LVerdict _) => wbs "verdict"
  | None => wbs "end"
  end.
(* for a call, the name of the callee *)
Definition leak_callee (l : option leak) : bytes :=
  match l with
  | Some (LCall (EId n) _) | Some (LCall (ESel _ n) _) => n
  | _ => []
  end.
(* (input pair, strict?, position, kind in run 1, kind in run 2, callee if the event of run 1 is a call) *)
Definition show_witness_kind (w : witness) : nat * bool * nat * bytes * bytes * bytes :=
  let '(p, i, x, y) := show_witness w in (p, w_strict w, i, leak_kind x, leak_kind y, leak_callee x).

Definition witness_report (progs : list (bytes * list stmt)) : list (bytes * bool * bool) :=
  map (fun p : bytes * list stmt =>
         (fst p, ct_ok' (snd p), match leak_witness (snd p) with Some _ => true | None => false end))
      progs.

(* the same, with the compact description of the witness when there is one, and whether a run succeeds without
   a positive ConstantTimeCompare *)
Definition witness_report_full (progs : list (bytes * list stmt))
  : list (bytes * bool * option (nat * bool * nat * bytes * bytes * bytes) * bool) :=
  map (fun p : bytes * list stmt =>
         (fst p, ct_ok' (snd p), option_map show_witness_kind (leak_witness (snd p)),
          match bypass_witness (snd p) with Some _ => true | None => false end))
      progs.
