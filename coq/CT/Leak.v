(* C19: a leakage semantics for the Check-body IR (CT/IR.v), the low-equivalence relations, and the corrected
   taint analysis ct_ok' whose soundness is proved in CT/CTSound.v.  Definitions only. *)
Require Import GC.Base.Bytes GC.CT.IR.
Open Scope Z_scope.

(* ------------------------------------------------------------------------------------------------ values *)
Inductive value :=
| VBytes (b : bytes)
| VInt (z : Z)
| VNilV
| VErrV (id : Z)
| VRec (fields : list (ident * value))
| VTup (vs : list value).

(* ------------------------------------------------------------------------------------------------ leakage *)
Inductive leak :=
| LBranch (b : bool)                        (* an if / a loop condition: the direction taken *)
| LCall (callee : expr) (what : list value) (* a call: what its running time may depend on *)
| LIndex (v : value)                        (* an index or slice bound *)
| LCompare (a b : value)                    (* == / != on non-scalars: both operands *)
| LVerdict (v : value).                     (* the declassified result of subtle.ConstantTimeCompare *)

Definition trace := list leak.

Definition env := list (ident * value).
Fixpoint lookup (x : ident) (e : env) : option value :=
  match e with
  | [] => None
  | (y, v) :: r => if bytes_eqb x y then Some v else lookup x r
  end.

Definition s_amp : ident := [38].           (* "&" *)

Definition is_const_time (f : expr) : bool := is_ctc f || is_encoder f || is_len_only f.

(* what a constant-time callee's timing may depend on: lengths of byte strings, integer arguments *)
Definition len_of (v : value) : value :=
  match v with
  | VBytes b => VInt (Z.of_nat (length b))
  | VInt z => VInt z
  | _ => VNilV
  end.

Definition call_leak (f : expr) (vals : list value) : list value :=
  if is_const_time f then map len_of vals
  else if is_key f then []
  else vals.

Definition is_scalar (v : value) : bool :=
  match v with VInt _ | VNilV | VErrV _ => true | _ => false end.

Definition truthy (v : value) : bool :=
  match v with VInt z => negb (z =? 0) | VNilV => false | _ => true end.

Section Sem.
  Variable fsem : expr -> list value -> value.   (* abstract meanings: callee / operator, argument values *)
  Variable k : bytes.                            (* the secret key of this run: what Key returns *)

  Definition lookup_or (e : env) (x : ident) : value :=
    match lookup x e with Some v => v | None => fsem (EId x) [] end.

  (* field selection: on a record its field (nil if absent), on anything else through fsem *)
  Definition sel (e' : expr) (f : ident) (v : value) : value :=
    match v with
    | VRec fs => match lookup f fs with Some w => w | None => VNilV end
    | _ => fsem (ESel e' f) [v]
    end.

  (* a call, once the receiver (for method-like callees e.f) and the arguments are evaluated *)
  Definition call (f : expr) (recv vals : list value) (tr : trace) : value * trace :=
    if is_key f then (VTup [VBytes k; VNilV], tr ++ [LCall f (call_leak f vals)])
    else if is_ctc f then
      let v := fsem f vals in (v, tr ++ [LCall f (call_leak f vals); LVerdict v])
    else if is_const_time f then (fsem f vals, tr ++ [LCall f (call_leak f vals)])
    else (fsem f (recv ++ vals), tr ++ [LCall f (call_leak f (recv ++ vals))]).

  Definition binop_leak (a b : value) : trace :=
    if is_scalar a && is_scalar b then [] else [LCompare a b].

  Fixpoint eval (e : env) (x : expr) {struct x} : value * trace :=
    match x with
    | EId n => (lookup_or e n, [])
    | ESel x' f => let (v, tr) := eval e x' in (sel x' f v, tr)
    | ECall f args =>
      let rv := match f with
                | ESel x' _ => let (v, tr) := eval e x' in ([v], tr)
                | _ => ([], [])
                end in
      let av := (fix go (l : list expr) : list value * trace :=
                   match l with
                   | [] => ([], [])
                   | a :: r => let (v, tr) := eval e a in
                               let (vs, trs) := go r in (v :: vs, tr ++ trs)
                   end) args in
      call f (fst rv) (fst av) (snd rv ++ snd av)
    | ESlice x' bs =>
      let (v, tr) := eval e x' in
      let bv := (fix go (l : list expr) : list value * trace :=
                   match l with
                   | [] => ([], [])
                   | a :: r => let (v, tr) := eval e a in
                               let (vs, trs) := go r in (v :: vs, tr ++ trs)
                   end) bs in
      match bs with
      | [] => (v, tr)                                       (* x[:] is x *)
      | _ => (fsem (ESlice ELit []) (v :: fst bv), tr ++ snd bv ++ map LIndex (fst bv))
      end
    | EIndex x' i =>
      let (v, tr) := eval e x' in
      let (iv, tri) := eval e i in
      (fsem (EIndex ELit ELit) [v; iv], tr ++ tri ++ [LIndex iv])
    | EUnary op x' => let (v, tr) := eval e x' in (fsem (EUnary op ELit) [v], tr)
    | EBinary op a b =>
      let (va, tra) := eval e a in
      let (vb, trb) := eval e b in
      (fsem (EBinary op ELit ELit) [va; vb], tra ++ trb ++ binop_leak va vb)
    | ELit => (fsem ELit [], [])
    | EComposite es =>
      let ev := (fix go (l : list expr) : list value * trace :=
                   match l with
                   | [] => ([], [])
                   | a :: r => let (v, tr) := eval e a in
                               let (vs, trs) := go r in (v :: vs, tr ++ trs)
                   end) es in
      (VTup (fst ev), snd ev)
    | EUnknown => (fsem EUnknown [], [])
    end.

  Fixpoint eval_list (e : env) (l : list expr) : list value * trace :=
    match l with
    | [] => ([], [])
    | a :: r => let (v, tr) := eval e a in
                let (vs, trs) := eval_list e r in (v :: vs, tr ++ trs)
    end.

  (* ---- statements ---- *)
  (* a, b := v *)
  Definition bind (lhs : list ident) (v : value) (e : env) : env :=
    match lhs with
    | [x] => (x, v) :: e
    | _ => match v with
           | VTup vs => combine lhs vs ++ e
           | _ => map (fun x => (x, v)) lhs ++ e
           end
    end.

  (* out-parameters  &x  of an ordinary (non constant-time, non Key) statement-level call *)
  Definition out_params (f : expr) (args : list expr) : list ident :=
    if is_const_time f || is_key f then []
    else flat_map (fun a => match a with
                            | EUnary op (EId x) => if bytes_eqb op s_amp then [x] else []
                            | _ => []
                            end) args.

  (* what such calls deliver through their out-parameters (Unmarshal(hash, &scheme) fills scheme) *)
  Variable pend : env.
  Definition deliver (xs : list ident) (e : env) : env :=
    fold_right (fun x e' => match lookup x pend with Some v => (x, v) :: e' | None => e' end) e xs.

  Definition set_field (x f : ident) (v : value) (e : env) : env :=
    match lookup x e with
    | Some (VRec fs) => (x, VRec ((f, v) :: fs)) :: e
    | _ => (x, VRec [(f, v)]) :: e
    end.

  Definition result := (env * option (list value) * trace)%type.

  Fixpoint exec_stmt (fuel : nat) (e : env) (s : stmt) {struct fuel} : option result :=
    match fuel with
    | O => None
    | S n =>
      let exec_list := fix go (e : env) (l : list stmt) : option result :=
        match l with
        | [] => Some (e, None, [])
        | x :: r =>
          match exec_stmt n e x with
          | None => None
          | Some (e', Some rv, tr) => Some (e', Some rv, tr)
          | Some (e', None, tr) =>
            match go e' r with
            | None => None
            | Some (e'', rv, tr') => Some (e'', rv, tr ++ tr')
            end
          end
        end in
      match s with
      | SDecl x None => Some ((x, VNilV) :: e, None, [])
      | SDecl x (Some i) => let (v, tr) := eval e i in Some ((x, v) :: e, None, tr)
      | SDefine lhs (ECall f args) =>
        if is_key f then
          let (vs, tr) := eval_list e args in
          match lhs with
          | [] => Some (e, None, tr ++ [LCall f (call_leak f vs)])
          | x :: r => Some ((x, VBytes k) :: map (fun y => (y, VNilV)) r ++ e, None,
                            tr ++ [LCall f (call_leak f vs)])
          end
        else
          let (v, tr) := eval e (ECall f args) in
          Some (deliver (out_params f args) (bind lhs v e), None, tr)
      | SDefine lhs i => let (v, tr) := eval e i in Some (bind lhs v e, None, tr)
      | SAssign lhs rhs =>
        let (v, tr) := eval e rhs in
        match lhs with
        | EId x => Some ((x, v) :: e, None, tr)
        | ESel (EId x) f => Some (set_field x f v e, None, tr)
        | _ => Some (e, None, tr)
        end
      | SExpr (ECall f args) =>
        let (v, tr) := eval e (ECall f args) in
        if is_encoder f then
          match args with
          | [dst; _] => match base_var dst with
                        | Some x => Some ((x, v) :: e, None, tr)
                        | None => Some (e, None, tr)
                        end
          | _ => Some (e, None, tr)
          end
        else Some (deliver (out_params f args) e, None, tr)
      | SExpr i => let (_, tr) := eval e i in Some (e, None, tr)
      | SIf init c thn els =>
        match (match init with Some i => exec_stmt n e i | None => Some (e, None, []) end) with
        | None => None
        | Some (e1, Some rv, tr1) => Some (e1, Some rv, tr1)
        | Some (e1, None, tr1) =>
          let (cv, trc) := eval e1 c in
          let b := truthy cv in
          match exec_list e1 (if b then thn else els) with
          | None => None
          | Some (e2, rv, tr2) => Some (e2, rv, tr1 ++ trc ++ [LBranch b] ++ tr2)
          end
        end
      | SReturn es => let (vs, tr) := eval_list e es in Some (e, Some vs, tr)
      | SFor parts body =>
        let (vs, tr) := eval_list e parts in
        let b := match vs with v :: _ => truthy v | [] => true end in
        if b then
          match exec_list e body with
          | None => None
          | Some (e1, Some rv, tr1) => Some (e1, Some rv, tr ++ [LBranch true] ++ tr1)
          | Some (e1, None, tr1) =>
            match exec_stmt n e1 (SFor parts body) with
            | None => None
            | Some (e2, rv, tr2) => Some (e2, rv, tr ++ [LBranch true] ++ tr1 ++ tr2)
            end
          end
        else Some (e, None, tr ++ [LBranch false])
      | SUnknown => Some (e, None, [])
      end
    end.

  Fixpoint exec_list (fuel : nat) (e : env) (l : list stmt) : option result :=
    match l with
    | [] => Some (e, None, [])
    | x :: r =>
      match exec_stmt fuel e x with
      | None => None
      | Some (e', Some rv, tr) => Some (e', Some rv, tr)
      | Some (e', None, tr) =>
        match exec_list fuel e' r with
        | None => None
        | Some (e'', rv, tr') => Some (e'', rv, tr ++ tr')
        end
      end
    end.
End Sem.

(* the evaluator of a Check body *)
Definition exec (fuel : nat) (fsem : expr -> list value -> value) (k : bytes) (pend : env)
           (e : env) (body : list stmt) : option result :=
  exec_list fsem k pend fuel e body.
