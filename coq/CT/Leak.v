(* C19: a leakage semantics for the Check-body IR (CT/IR.v), the low-equivalence relations, and the corrected
   taint analysis ct_ok' whose soundness is proved in CT/CTSound.v.  Definitions only. *)
Require Import GC.Base.Bytes GC.CT.IR.
Open Scope Z_scope.

(* ------------------------------------------------------------------------------------------------ values *)
Inductive value :=
| VBytes (b : bytes)
| VInt (z : Z)
| VNilV
| VErrV (id : Z)
| VRec (fields : list (ident * value))
| VTup (vs : list value).

(* ------------------------------------------------------------------------------------------------ leakage *)
Inductive leak :=
| LBranch (b : bool)                        (* an if / a loop condition: the direction taken *)
| LCall (callee : expr) (what : list value) (* a call: what its running time may depend on *)
| LIndex (v : value)                        (* an index or slice bound *)
| LCompare (a b : value)                    (* == / != on non-scalars: both operands *)
| LVerdict (v : value).                     (* the declassified result of subtle.ConstantTimeCompare *)

Definition trace := list leak.

Definition env := list (ident * value).
Fixpoint lookup (x : ident) (e : env) : option value :=
  match e with
  | [] => None
  | (y, v) :: r => if bytes_eqb x y then Some v else lookup x r
  end.

Definition s_amp : ident := [38].           (* "&" *)

Definition is_const_time (f : expr) : bool := is_ctc f || is_encoder f || is_len_only f.

(* what a constant-time callee's timing may depend on: lengths of byte strings, integer arguments *)
Definition len_of (v : value) : value :=
  match v with
  | VBytes b => VInt (Z.of_nat (length b))
  | VInt z => VInt z
  | _ => VNilV
  end.

Definition call_leak (f : expr) (vals : list value) : list value :=
  if is_const_time f then map len_of vals
  else if is_key f then []
  else vals.

Definition is_scalar (v : value) : bool :=
  match v with VInt _ | VNilV | VErrV _ => true | _ => false end.

Definition truthy (v : value) : bool :=
  match v with VInt z => negb (z =? 0) | VNilV => false | _ => true end.

Section Sem.
  Variable fsem : expr -> list value -> value.   (* abstract meanings: callee / operator, argument values *)
  Variable k : bytes.                            (* the secret key of this run: what Key returns *)

  Definition lookup_or (e : env) (x : ident) : value :=
    match lookup x e with Some v => v | None => fsem (EId x) [] end.

  (* field selection: on a record its field (nil if absent), on anything else through fsem *)
  Definition sel (e' : expr) (f : ident) (v : value) : value :=
    match v with
    | VRec fs => match lookup f fs with Some w => w | None => VNilV end
    | _ => fsem (ESel e' f) [v]
    end.

  (* a call, once the receiver (for method-like callees e.f) and the arguments are evaluated *)
  Definition call (f : expr) (recv vals : list value) (tr : trace) : value * trace :=
    if is_key f then (VTup [VBytes k; VNilV], tr ++ [LCall f (call_leak f vals)])
    else if is_ctc f then
      let v := fsem f vals in (v, tr ++ [LCall f (call_leak f vals); LVerdict v])
    else if is_const_time f then (fsem f vals, tr ++ [LCall f (call_leak f vals)])
    else (fsem f (recv ++ vals), tr ++ [LCall f (call_leak f (recv ++ vals))]).

  Definition binop_leak (a b : value) : trace :=
    if is_scalar a && is_scalar b then [] else [LCompare a b].

  Fixpoint eval (e : env) (x : expr) {struct x} : value * trace :=
    match x with
    | EId n => (lookup_or e n, [])
    | ESel x' f => let (v, tr) := eval e x' in (sel x' f v, tr)
    | ECall f args =>
      let rv := match f with
                | ESel x' _ => let (v, tr) := eval e x' in ([v], tr)
                | _ => ([], [])
                end in
      let av := (fix go (l : list expr) : list value * trace :=
                   match l with
                   | [] => ([], [])
                   | a :: r => let (v, tr) := eval e a in
                               let (vs, trs) := go r in (v :: vs, tr ++ trs)
                   end) args in
      call f (fst rv) (fst av) (snd rv ++ snd av)
    | ESlice x' bs =>
      let (v, tr) := eval e x' in
      let bv := (fix go (l : list expr) : list value * trace :=
                   match l with
                   | [] => ([], [])
                   | a :: r => let (v, tr) := eval e a in
                               let (vs, trs) := go r in (v :: vs, tr ++ trs)
                   end) bs in
      match bs with
      | [] => (v, tr)                                       (* x[:] is x *)
      | _ => (fsem (ESlice ELit []) (v :: fst bv), tr ++ snd bv ++ map LIndex (fst bv))
      end
    | EIndex x' i =>
      let (v, tr) := eval e x' in
      let (iv, tri) := eval e i in
      (fsem (EIndex ELit ELit) [v; iv], tr ++ tri ++ [LIndex iv])
    | EUnary op x' => let (v, tr) := eval e x' in (fsem (EUnary op ELit) [v], tr)
    | EBinary op a b =>
      let (va, tra) := eval e a in
      let (vb, trb) := eval e b in
      (fsem (EBinary op ELit ELit) [va; vb], tra ++ trb ++ binop_leak va vb)
    | ELit => (fsem ELit [], [])
    | EComposite es =>
      let ev := (fix go (l : list expr) : list value * trace :=
                   match l with
                   | [] => ([], [])
                   | a :: r => let (v, tr) := eval e a in
                               let (vs, trs) := go r in (v :: vs, tr ++ trs)
                   end) es in
      (VTup (fst ev), snd ev)
    | EUnknown => (fsem EUnknown [], [])
    end.

  Fixpoint eval_list (e : env) (l : list expr) : list value * trace :=
    match l with
    | [] => ([], [])
    | a :: r => let (v, tr) := eval e a in
                let (vs, trs) := eval_list e r in (v :: vs, tr ++ trs)
    end.

  (* ---- statements ---- *)
  (* a, b := v *)
  Definition bind (lhs : list ident) (v : value) (e : env) : env :=
    match lhs with
    | [x] => (x, v) :: e
    | _ => match v with
           | VTup vs => combine lhs vs ++ e
           | _ => map (fun x => (x, v)) lhs ++ e
           end
    end.

  (* out-parameters  &x  of an ordinary (non constant-time, non Key) statement-level call *)
  Definition out_params (f : expr) (args : list expr) : list ident :=
    if is_const_time f || is_key f then []
    else flat_map (fun a => match a with
                            | EUnary op (EId x) => if bytes_eqb op s_amp then [x] else []
                            | _ => []
                            end) args.

  (* what such calls deliver through their out-parameters (Unmarshal(hash, &scheme) fills scheme) *)
  Variable pend : env.
  Definition deliver (xs : list ident) (e : env) : env :=
    fold_right (fun x e' => match lookup x pend with Some v => (x, v) :: e' | None => e' end) e xs.

  Definition set_field (x f : ident) (v : value) (e : env) : env :=
    match lookup x e with
    | Some (VRec fs) => (x, VRec ((f, v) :: fs)) :: e
    | _ => (x, VRec [(f, v)]) :: e
    end.

  Definition result := (env * option (list value) * trace)%type.

  Fixpoint exec_stmt (fuel : nat) (e : env) (s : stmt) {struct fuel} : option result :=
    match fuel with
    | O => None
    | S n =>
      let exec_list := fix go (e : env) (l : list stmt) : option result :=
        match l with
        | [] => Some (e, None, [])
        | x :: r =>
          match exec_stmt n e x with
          | None => None
          | Some (e', Some rv, tr) => Some (e', Some rv, tr)
          | Some (e', None, tr) =>
            match go e' r with
            | None => None
            | Some (e'', rv, tr') => Some (e'', rv, tr ++ tr')
            end
          end
        end in
      match s with
      | SDecl x None => Some ((x, VNilV) :: e, None, [])
      | SDecl x (Some i) => let (v, tr) := eval e i in Some ((x, v) :: e, None, tr)
      | SDefine lhs (ECall f args) =>
        if is_key f then
          let (vs, tr) := eval_list e args in
          match lhs with
          | [] => Some (e, None, tr ++ [LCall f (call_leak f vs)])
          | x :: r => Some ((x, VBytes k) :: map (fun y => (y, VNilV)) r ++ e, None,
                            tr ++ [LCall f (call_leak f vs)])
          end
        else
          let (v, tr) := eval e (ECall f args) in
          Some (deliver (out_params f args) (bind lhs v e), None, tr)
      | SDefine lhs i => let (v, tr) := eval e i in Some (bind lhs v e, None, tr)
      | SAssign lhs rhs =>
        let (v, tr) := eval e rhs in
        match lhs with
        | EId x => Some ((x, v) :: e, None, tr)
        | ESel (EId x) f => Some (set_field x f v e, None, tr)
        | _ => Some (e, None, tr)
        end
      | SExpr (ECall f args) =>
        let (v, tr) := eval e (ECall f args) in
        if is_encoder f then
          match args with
          | [dst; _] => match base_var dst with
                        | Some x => Some ((x, v) :: e, None, tr)
                        | None => Some (e, None, tr)
                        end
          | _ => Some (e, None, tr)
          end
        else Some (deliver (out_params f args) e, None, tr)
      | SExpr i => let (_, tr) := eval e i in Some (e, None, tr)
      | SIf init c thn els =>
        match (match init with Some i => exec_stmt n e i | None => Some (e, None, []) end) with
        | None => None
        | Some (e1, Some rv, tr1) => Some (e1, Some rv, tr1)
        | Some (e1, None, tr1) =>
          let (cv, trc) := eval e1 c in
          let b := truthy cv in
          match exec_list e1 (if b then thn else els) with
          | None => None
          | Some (e2, rv, tr2) => Some (e2, rv, tr1 ++ trc ++ [LBranch b] ++ tr2)
          end
        end
      | SReturn es => let (vs, tr) := eval_list e es in Some (e, Some vs, tr)
      | SFor parts body =>
        let (vs, tr) := eval_list e parts in
        let b := match vs with v :: _ => truthy v | [] => true end in
        if b then
          match exec_list e body with
          | None => None
          | Some (e1, Some rv, tr1) => Some (e1, Some rv, tr ++ [LBranch true] ++ tr1)
          | Some (e1, None, tr1) =>
            match exec_stmt n e1 (SFor parts body) with
            | None => None
            | Some (e2, rv, tr2) => Some (e2, rv, tr ++ [LBranch true] ++ tr1 ++ tr2)
            end
          end
        else Some (e, None, tr ++ [LBranch false])
      | SUnknown => Some (e, None, [])
      end
    end.

  Fixpoint exec_list (fuel : nat) (e : env) (l : list stmt) : option result :=
    match l with
    | [] => Some (e, None, [])
    | x :: r =>
      match exec_stmt fuel e x with
      | None => None
      | Some (e', Some rv, tr) => Some (e', Some rv, tr)
      | Some (e', None, tr) =>
        match exec_list fuel e' r with
        | None => None
        | Some (e'', rv, tr') => Some (e'', rv, tr ++ tr')
        end
      end
    end.
End Sem.

(* the evaluator of a Check body *)
Definition exec (fuel : nat) (fsem : expr -> list value -> value) (k : bytes) (pend : env)
           (e : env) (body : list stmt) : option result :=
  exec_list fsem k pend fuel e body.

(* ------------------------------------------------------------------------------------- verdicts in traces *)
Fixpoint ctc_verdicts (tr : trace) : list value :=
  match tr with
  | [] => []
  | LVerdict v :: r => v :: ctc_verdicts r
  | _ :: r => ctc_verdicts r
  end.
Fixpoint strip_verdicts (tr : trace) : trace :=
  match tr with
  | [] => []
  | LVerdict _ :: r => strip_verdicts r
  | x :: r => x :: strip_verdicts r
  end.

(* two traces agree up to (and including the position of) the first ConstantTimeCompare on which the two runs
   got different verdicts; nothing is claimed after that point *)
Inductive tsim : trace -> trace -> Prop :=
| ts_nil : tsim [] []
| ts_same : forall x a b, tsim a b -> tsim (x :: a) (x :: b)
| ts_verdict : forall v1 v2 a b, (v1 = v2 -> tsim a b) -> tsim (LVerdict v1 :: a) (LVerdict v2 :: b).

(* ------------------------------------------------------------------------------------- low-equivalence *)
(* secret bytes: same length, content free *)
Definition low_b (v1 v2 : value) : Prop :=
  v1 = v2 \/ exists b1 b2, v1 = VBytes b1 /\ v2 = VBytes b2 /\ length b1 = length b2.
(* records: field-wise equal, the field Sum only low_b *)
Definition field_rel (p1 p2 : ident * value) : Prop :=
  fst p1 = fst p2 /\ (if bytes_eqb (fst p1) s_Sum then low_b (snd p1) (snd p2) else snd p1 = snd p2).
Definition pub_eq (v1 v2 : value) : Prop :=
  v1 = v2 \/ exists fs1 fs2, v1 = VRec fs1 /\ v2 = VRec fs2 /\ Forall2 field_rel fs1 fs2.
(* at a tainted position *)
Definition low_t (v1 v2 : value) : Prop := low_b v1 v2 \/ pub_eq v1 v2.

(* t: variables holding secret-derived bytes;  r: variables holding a parsed hash record (secret only in .Sum) *)
Definition var_rel (t r : tset) (x : ident) : value -> value -> Prop :=
  if tmem x t then low_t else if tmem x r then pub_eq else eq.
Definition env_rel (R : ident -> value -> value -> Prop) (e1 e2 : env) : Prop :=
  forall x, match lookup x e1, lookup x e2 with
            | Some a, Some b => R x a b
            | None, None => True
            | _, _ => False
            end.
Definition env_low_equiv2 (t r : tset) : env -> env -> Prop := env_rel (var_rel t r).
Definition env_low_equiv (t : tset) : env -> env -> Prop := env_low_equiv2 t [].
Definition pend_low_equiv : env -> env -> Prop := env_rel (fun _ => pub_eq).

(* the assumption on the abstract function meanings *)
Definition len_respecting (fsem : expr -> list value -> value) : Prop :=
  (forall f a1 a2, is_len_only f = true -> Forall2 low_t a1 a2 -> fsem f a1 = fsem f a2) /\
  (forall f a1 a2, is_encoder f = true -> Forall2 low_t a1 a2 -> low_b (fsem f a1) (fsem f a2)).

(* ------------------------------------------------------------------------------------- corrected analysis *)
(* may the VALUE of e, or anything its evaluation leaks, depend on secret bytes?
   t: secret byte variables; r: record variables whose field Sum is secret (filled through an out-parameter) *)
Fixpoint tainted' (t r : tset) (e : expr) {struct e} : bool :=
  match e with
  | EId x => tmem x t || tmem x r
  | ESel e' f => bytes_eqb f s_Sum || match e' with EId x => tmem x t | _ => tainted' t r e' end
  | ECall f args =>
    if is_key f then true
    else
      (match f with
       | ESel e' _ => tainted' t r e'
       | EId x => tmem x t || tmem x r
       | _ => tainted' t r f
       end)
      || (if is_ctc f || is_len_only f then
            (* secret carriers x, e.f, and [:] of those may be passed; anything else must be public *)
            (fix any (l : list expr) : bool :=
               match l with
               | [] => false
               | x :: rest =>
                 (fix carr (a : expr) : bool :=
                    match a with
                    | EId _ => false
                    | ESel e' _ => match e' with EId y => tmem y t | _ => tainted' t r e' end
                    | ESlice a' [] => carr a'
                    | _ => tainted' t r a
                    end) x || any rest
               end) args
          else (fix any (l : list expr) : bool :=
                  match l with [] => false | x :: rest => tainted' t r x || any rest end) args)
  | ESlice e' bs => tainted' t r e' || (fix any (l : list expr) : bool :=
                                          match l with [] => false | x :: rest => tainted' t r x || any rest end) bs
  | EIndex e' i => tainted' t r e' || tainted' t r i
  | EUnary _ e' => tainted' t r e'
  | EBinary _ a b => tainted' t r a || tainted' t r b
  | ELit => false
  | EComposite es => (fix any (l : list expr) : bool :=
                        match l with [] => false | x :: rest => tainted' t r x || any rest end) es
  | EUnknown => true
  end.

(* an argument of a constant-time callee that is neither public nor a plain secret carrier *)
Fixpoint argbad (t r : tset) (a : expr) : bool :=
  match a with
  | EId _ => false
  | ESel e' _ => match e' with EId y => tmem y t | _ => tainted' t r e' end
  | ESlice a' [] => argbad t r a'
  | _ => tainted' t r a
  end.

Definition callee_bad (t r : tset) (f : expr) : bool :=
  match f with
  | ESel e' _ => tainted' t r e'
  | EId x => tmem x t || tmem x r
  | _ => tainted' t r f
  end.

Definition subset (a b : tset) : bool := forallb (fun x => tmem x b) a.

Definition call_ok' (t r : tset) (f : expr) (args : list expr) : option (tset * tset) :=
  if is_ctc f then (if tainted' t r (ECall f args) then None else Some (t, r))
  else if is_encoder f then
    match args with
    | [dst; src] =>
      if callee_bad t r f || argbad t r dst || argbad t r src then None
      else if tainted' t r src || tainted' t r dst then
             match base_var dst with Some x => Some (x :: t, r) | None => None end
           else Some (t, r)
    | _ => None
    end
  else if tainted' t r (ECall f args) then None else Some (t, out_params f args ++ r).

Fixpoint ct_stmt' (fuel : nat) (t r : tset) (s : stmt) {struct fuel} : option (tset * tset) :=
  match fuel with
  | O => None
  | S fuel' =>
    let ct_list := fix go (t r : tset) (l : list stmt) : option (tset * tset) :=
                     match l with
                     | [] => Some (t, r)
                     | x :: rest => match ct_stmt' fuel' t r x with Some (t', r') => go t' r' rest | None => None end
                     end in
    match s with
    | SDecl x None => Some (t, r)
    | SDecl x (Some e) => if tainted' t r e then None else Some (t, r)
    | SDefine lhs (ECall f args) =>
      if is_key f then
        if existsb (tainted' t r) args then None
        else match lhs with k :: _ => Some (k :: t, r) | [] => None end
      else if is_encoder f then None
      else call_ok' t r f args
    | SDefine lhs e => if tainted' t r e then None else Some (t, r)
    | SAssign lhs rhs =>
      if tainted' t r rhs then None
      else match lhs with
           | EId _ => Some (t, r)
           | ESel (EId x) f => if bytes_eqb f s_Sum || tmem x t then None else Some (t, r)
           | _ => None
           end
    | SExpr (ECall f args) => call_ok' t r f args
    | SExpr _ => None
    | SIf init c thn els =>
      match (match init with Some i => ct_stmt' fuel' t r i | None => Some (t, r) end) with
      | None => None
      | Some (t1, r1) =>
        if tainted' t1 r1 c then None
        else match ct_list t1 r1 thn, ct_list t1 r1 els with
             | Some (ta, ra), Some (tb, rb) => Some (ta ++ tb, ra ++ rb)
             | _, _ => None
             end
      end
    | SReturn es => if existsb (tainted' t r) es then None else Some (t, r)
    | SFor parts body =>
      match ct_list t r body with
      | Some (t', r') =>
        (* (t', r') must be a loop invariant: it contains the entry state and the body maps it into itself *)
        if existsb (tainted' t' r') parts || negb (subset t t' && subset r r') then None
        else match ct_list t' r' body with
             | Some (t'', r'') => if subset t'' t' && subset r'' r' then Some (t', r') else None
             | None => None
             end
      | None => None
      end
    | SUnknown => None
    end
  end.

Fixpoint ct_stmts' (fuel : nat) (t r : tset) (l : list stmt) : option (tset * tset) :=
  match l with
  | [] => Some (t, r)
  | x :: rest => match ct_stmt' fuel t r x with Some (t', r') => ct_stmts' fuel t' r' rest | None => None end
  end.

(* the corrected analysis: everything ct_ok demands, and the stricter taint discipline *)
Definition ct_ok' (body : list stmt) : bool :=
  ct_ok body && match ct_stmts' 50 [] [] body with Some _ => true | None => false end.
