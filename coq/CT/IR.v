(* C19: a small deep-embedded imperative IR for the bodies of the ten Check functions (generated from the Go
   source on every run by go/ast) and the taint analysis that decides constant-time digest comparison.
   Definitions only. *)
Require Import GC.Base.Bytes.

Definition ident := bytes.                      (* names as byte strings; "pkg.Name" for qualified ones *)

Inductive expr :=
| EId (x : ident)                               (* local variable, parameter or package-level name *)
| ESel (e : expr) (f : ident)                   (* e.f *)
| ECall (f : expr) (args : list expr)
| ESlice (e : expr) (bounds : list expr)        (* e[lo:hi]; the bound expressions that are present *)
| EIndex (e i : expr)
| EUnary (op : ident) (e : expr)
| EBinary (op : ident) (a b : expr)
| ELit                                          (* literal or named constant *)
| EComposite (elems : list expr)                (* T{...} *)
| EUnknown.                                     (* anything the translator does not understand *)

Inductive stmt :=
| SDecl (x : ident) (init : option expr)        (* var x T [= init] *)
| SDefine (lhs : list ident) (rhs : expr)       (* a, b := e   (also  a, b = e  on plain identifiers) *)
| SAssign (lhs rhs : expr)
| SExpr (e : expr)
| SIf (init : option stmt) (cond : expr) (thn els : list stmt)
| SReturn (es : list expr)
| SFor (parts : list expr) (body : list stmt)   (* any loop; its condition / range / post expressions *)
| SUnknown.

(* ---- names the analysis knows ---- *)
Definition s_Key : ident := [75;101;121].                                  (* "Key" *)
Definition s_len : ident := [108;101;110].                                 (* "len" *)
Definition s_make : ident := [109;97;107;101].                             (* "make" *)
Definition s_Sum : ident := [83;117;109].                                  (* "Sum" *)
Definition s_Encode : ident := [69;110;99;111;100;101].                    (* "Encode" *)
Definition s_EncodedLen : ident := [69;110;99;111;100;101;100;76;101;110]. (* "EncodedLen" *)
Definition s_CTC : ident := [67;111;110;115;116;97;110;116;84;105;109;101;67;111;109;112;97;114;101]. (* "ConstantTimeCompare" *)
Definition s_subtle : ident := [115;117;98;116;108;101].                   (* "subtle" *)
Definition s_eq : ident := [61;61].
Definition s_ne : ident := [33;61].
Definition s_Mismatch : ident := [69;114;114;80;97;115;115;119;111;114;100;77;105;115;109;97;116;99;104]. (* "ErrPasswordMismatch" *)

Definition is_ctc (f : expr) : bool :=
  match f with ESel (EId p) n => bytes_eqb p s_subtle && bytes_eqb n s_CTC | _ => false end.
(* encoders: any method or function called Encode taking (dst, src): hash.LittleEndianEncoding.Encode,
   hash.BigEndianEncoding.Encode, bcrypt's Encoding.Encode, base64.RawStdEncoding.Encode, hex.Encode *)
Definition is_encoder (f : expr) : bool :=
  match f with ESel _ n => bytes_eqb n s_Encode | _ => false end.
Definition is_len_only (f : expr) : bool :=
  match f with
  | EId n => bytes_eqb n s_len || bytes_eqb n s_make
  | ESel _ n => bytes_eqb n s_EncodedLen
  | _ => false
  end.
Definition is_key (f : expr) : bool := match f with EId n => bytes_eqb n s_Key | _ => false end.

Definition tset := list ident.
Definition tmem (x : ident) (t : tset) : bool := existsb (bytes_eqb x) t.

(* does evaluating e touch secret-derived bytes?  len(x) of a secret is public; the result of
   ConstantTimeCompare is the declassified verdict; the stored digest (any selector .Sum) is secret-like *)
Fixpoint tainted (t : tset) (e : expr) {struct e} : bool :=
  match e with
  | EId x => tmem x t
  | ESel e' f => bytes_eqb f s_Sum || tainted t e'
  | ECall f args =>
    if is_ctc f then false
    else if is_len_only f then
      (fix any (l : list expr) : bool := match l with
         | [] => false
         | x :: r => (match x with
                      | EId _ | ESel _ _ => false      (* len(x), make(T, n): only lengths are used *)
                      | _ => tainted t x
                      end) || any r
         end) args
    else tainted t f || (fix any (l : list expr) : bool := match l with [] => false | x :: r => tainted t x || any r end) args
  | ESlice e' bs => tainted t e' || (fix any (l : list expr) : bool := match l with [] => false | x :: r => tainted t x || any r end) bs
  | EIndex e' i => tainted t e' || tainted t i
  | EUnary _ e' => tainted t e'
  | EBinary _ a b => tainted t a || tainted t b
  | ELit => false
  | EComposite es => (fix any (l : list expr) : bool := match l with [] => false | x :: r => tainted t x || any r end) es
  | EUnknown => true
  end.

(* expressions that must not occur at all *)
Fixpoint has_unknown (e : expr) {struct e} : bool :=
  match e with
  | EUnknown => true
  | EId _ | ELit => false
  | ESel e' _ | EUnary _ e' => has_unknown e'
  | ECall f args => has_unknown f || (fix any (l : list expr) : bool := match l with [] => false | x :: r => has_unknown x || any r end) args
  | ESlice e' bs => has_unknown e' || (fix any (l : list expr) : bool := match l with [] => false | x :: r => has_unknown x || any r end) bs
  | EIndex a b | EBinary _ a b => has_unknown a || has_unknown b
  | EComposite es => (fix any (l : list expr) : bool := match l with [] => false | x :: r => has_unknown x || any r end) es
  end.

(* the variable a destination expression writes into: b, b[:], b[lo:hi] *)
Fixpoint base_var (e : expr) : option ident :=
  match e with
  | EId x => Some x
  | ESlice e' _ => base_var e'
  | EUnary _ e' => base_var e'
  | _ => None
  end.

(* a secret may only be consumed by: an encoder (taints its destination), ConstantTimeCompare (declassifies),
   len/EncodedLen/make (length only).  Everything else that touches a secret is a violation. *)
Definition call_ok (t : tset) (f : expr) (args : list expr) : option tset :=
  if existsb has_unknown (f :: args) then None
  else if is_ctc f then Some t
  else if is_encoder f then
    match args with
    | [dst; src] => if tainted t src then
                      match base_var dst with Some x => Some (x :: t) | None => None end
                    else if tainted t dst then None else Some t
    | _ => None
    end
  else if tainted t (ECall f args) then None else Some t.

(* a condition may depend on secrets only through the verdict of ConstantTimeCompare *)
Definition cond_ok (t : tset) (c : expr) : bool := negb (has_unknown c) && negb (tainted t c).

Fixpoint ct_stmt (fuel : nat) (t : tset) (s : stmt) {struct fuel} : option tset :=
  match fuel with
  | O => None
  | S fuel' =>
    let ct_list := fix go (t : tset) (l : list stmt) : option tset :=
                     match l with
                     | [] => Some t
                     | x :: r => match ct_stmt fuel' t x with Some t' => go t' r | None => None end
                     end in
    match s with
    | SDecl x None => Some t
    | SDecl x (Some e) => if has_unknown e || tainted t e then None else Some t
    | SDefine lhs (ECall f args) =>
      if is_key f then
        if existsb has_unknown args || existsb (tainted t) args then None
        else match lhs with k :: _ => Some (k :: t) | [] => None end
      else match call_ok t f args with
           | Some t' => if tainted t' (ECall f args) then None else Some t'
           | None => None
           end
    | SDefine lhs e => if has_unknown e || tainted t e then None else Some t
    | SAssign lhs rhs =>
      if has_unknown lhs || has_unknown rhs then None
      else if tainted t rhs then None
      else match lhs with
           | EId _ => Some t
           | ESel (EId _) _ => if tainted t lhs then None else Some t
           | _ => None
           end
    | SExpr (ECall f args) => call_ok t f args
    | SExpr _ => None
    | SIf init c thn els =>
      match (match init with Some i => ct_stmt fuel' t i | None => Some t end) with
      | None => None
      | Some t1 =>
        if cond_ok t1 c then
          match ct_list t1 thn, ct_list t1 els with
          | Some a, Some b => Some (a ++ b)
          | _, _ => None
          end
        else None
      end
    | SReturn es => if existsb has_unknown es || existsb (tainted t) es then None else Some t
    | SFor parts body =>
      if existsb has_unknown parts || existsb (tainted t) parts then None
      else match ct_list t body with
           | Some t' => (* one more pass with the taints the body may have added *)
             if existsb (tainted t') parts then None
             else match ct_list t' body with Some t'' => Some t'' | None => None end
           | None => None
           end
    | SUnknown => None
    end
  end.

Fixpoint ct_stmts (fuel : nat) (t : tset) (l : list stmt) : option tset :=
  match l with
  | [] => Some t
  | x :: r => match ct_stmt fuel t x with Some t' => ct_stmts fuel t' r | None => None end
  end.

(* the verdict is taken by ConstantTimeCompare on the encoded key and the stored digest, and the mismatch
   sentinel is returned only under a condition on that call's result *)
Fixpoint mentions_ctc (e : expr) {struct e} : bool :=
  match e with
  | ECall f args => is_ctc f || (fix any (l : list expr) : bool := match l with [] => false | x :: r => mentions_ctc x || any r end) args
  | EBinary _ a b => mentions_ctc a || mentions_ctc b
  | EUnary _ a => mentions_ctc a
  | _ => false
  end.
Definition returns_mismatch (es : list expr) : bool :=
  existsb (fun e => match e with ESel _ n => bytes_eqb n s_Mismatch | EId n => bytes_eqb n s_Mismatch | _ => false end) es.
Fixpoint sentinel_guarded (fuel : nat) (under_ctc : bool) (s : stmt) {struct fuel} : bool :=
  match fuel with
  | O => false
  | S f =>
    match s with
    | SReturn es => if returns_mismatch es then under_ctc else true
    | SIf _ c thn els => forallb (sentinel_guarded f (under_ctc || mentions_ctc c)) thn
                         && forallb (sentinel_guarded f under_ctc) els
    | SFor _ body => forallb (sentinel_guarded f under_ctc) body
    | _ => true
    end
  end.
Fixpoint has_guarded_mismatch (fuel : nat) (s : stmt) {struct fuel} : bool :=
  match fuel with
  | O => false
  | S f =>
    match s with
    | SIf _ c thn els => (mentions_ctc c && existsb (fun x => match x with SReturn es => returns_mismatch es | _ => false end) thn)
                         || existsb (has_guarded_mismatch f) thn || existsb (has_guarded_mismatch f) els
    | SFor _ body => existsb (has_guarded_mismatch f) body
    | _ => false
    end
  end.

Definition ct_ok (body : list stmt) : bool :=
  match ct_stmts 50 [] body with Some _ => true | None => false end
  && forallb (sentinel_guarded 50 false) body
  && existsb (has_guarded_mismatch 50) body.
