(* C19 soundness, part 1: induction principle for expr, trace-similarity algebra, low-equivalence facts. *)
Require Import GC.Base.Bytes GC.CT.IR GC.CT.Leak.
Open Scope Z_scope.

(* ---- a usable induction principle for expr ---- *)
Lemma expr_ind' (P : expr -> Prop)
  (HId : forall x, P (EId x))
  (HSel : forall e f, P e -> P (ESel e f))
  (HCall : forall f args, P f -> (forall e' n, f = ESel e' n -> P e') -> Forall P args -> P (ECall f args))
  (HSlice : forall e bs, P e -> Forall P bs -> P (ESlice e bs))
  (HIndex : forall e i, P e -> P i -> P (EIndex e i))
  (HUnary : forall op e, P e -> P (EUnary op e))
  (HBinary : forall op a b, P a -> P b -> P (EBinary op a b))
  (HLit : P ELit)
  (HComp : forall es, Forall P es -> P (EComposite es))
  (HUnk : P EUnknown) : forall e, P e.
Proof.
  fix IH 1. intros e. destruct e as [x|e f|f args|e bs|e i|op e|op a b| |es| ].
  - apply HId.
  - apply HSel, IH.
  - apply HCall; [apply IH| |].
    { destruct f; intros e' n' E; try discriminate E. injection E as E _. rewrite <- E. apply IH. }
    induction args as [|a l IHl]; constructor; [apply IH|exact IHl].
  - apply HSlice; [apply IH|]. induction bs as [|a l IHl]; constructor; [apply IH|exact IHl].
  - apply HIndex; apply IH.
  - apply HUnary, IH.
  - apply HBinary; apply IH.
  - apply HLit.
  - apply HComp. induction es as [|a l IHl]; constructor; [apply IH|exact IHl].
  - apply HUnk.
Qed.

(* ---- tsim ---- *)
Lemma tsim_refl a : tsim a a.
Proof. induction a; constructor; auto. Qed.

Lemma tsim_app a1 a2 b1 b2 :
  tsim a1 a2 -> (a1 = a2 -> tsim b1 b2) -> tsim (a1 ++ b1) (a2 ++ b2).
Proof.
  intros H. induction H as [|x a b H IH|v1 v2 a b H IH]; intros K; simpl.
  - apply K; reflexivity.
  - apply ts_same. apply IH. intros E. apply K. congruence.
  - apply ts_verdict. intros E. apply IH; [exact E|]. intros E2. apply K. congruence.
Qed.

Lemma tsim_app_inv a1 a2 b1 b2 :
  tsim a1 a2 -> a1 ++ b1 = a2 ++ b2 -> a1 = a2 /\ b1 = b2.
Proof.
  intros H. induction H as [|x a b H IH|v1 v2 a b H IH]; simpl; intros E.
  - auto.
  - injection E as E. destruct (IH E) as [E1 E2]. subst. auto.
  - injection E as Ev E. destruct (IH Ev E) as [E1 E2]. subst. auto.
Qed.

Lemma tsim_verdicts_eq a b : tsim a b -> ctc_verdicts a = ctc_verdicts b -> a = b.
Proof.
  intros H. induction H as [|x a b H IH|v1 v2 a b H IH]; simpl; intros E.
  - reflexivity.
  - destruct x; try (f_equal; apply IH; exact E).
    injection E as E. f_equal. apply IH; exact E.
  - injection E as Ev E. subst. f_equal. apply IH; auto.
Qed.

(* R P a b: the traces agree up to the first differing verdict, and if they agree completely then P *)
Definition R (P : Prop) (a b : trace) : Prop := tsim a b /\ (a = b -> P).

Lemma R_nil (P : Prop) : P -> R P [] [].
Proof. intros H; split; [constructor|auto]. Qed.

Lemma R_same (P : Prop) a : P -> R P a a.
Proof. intros H; split; [apply tsim_refl|auto]. Qed.

Lemma R_mono (P Q : Prop) a b : R P a b -> (P -> Q) -> R Q a b.
Proof. intros [H1 H2] K; split; auto. Qed.

Lemma R_app (P Q : Prop) a1 a2 b1 b2 :
  R P a1 a2 -> (P -> R Q b1 b2) -> R Q (a1 ++ b1) (a2 ++ b2).
Proof.
  intros [H1 H2] K. split.
  - apply tsim_app; [exact H1|]. intros E. apply K, H2, E.
  - intros E. destruct (tsim_app_inv _ _ _ _ H1 E) as [E1 E2].
    destruct (K (H2 E1)) as [_ K2]. apply K2, E2.
Qed.

Lemma R_verdict v1 v2 : R (v1 = v2) [LVerdict v1] [LVerdict v2].
Proof.
  split.
  - apply ts_verdict. intros _. constructor.
  - intros E. congruence.
Qed.

(* ---- tmem / subset ---- *)
Lemma tmem_cons x y t : tmem x (y :: t) = bytes_eqb x y || tmem x t.
Proof. reflexivity. Qed.

Lemma tmem_app x a b : tmem x (a ++ b) = tmem x a || tmem x b.
Proof. unfold tmem. apply existsb_app. Qed.

Lemma tmem_In x t : tmem x t = true <-> In x t.
Proof.
  unfold tmem. rewrite existsb_exists. split.
  - intros [y [Hy E]]. apply bytes_eqb_eq in E. subst; auto.
  - intros H. exists x. split; [auto|apply bytes_eqb_refl].
Qed.

Lemma subset_tmem a b x : subset a b = true -> tmem x a = true -> tmem x b = true.
Proof.
  unfold subset. rewrite forallb_forall. intros H Hx. apply tmem_In in Hx. apply H, Hx.
Qed.

(* ---- relations ---- *)
Lemma low_b_refl v : low_b v v.
Proof. left; reflexivity. Qed.
Lemma pub_eq_refl v : pub_eq v v.
Proof. left; reflexivity. Qed.
Lemma low_t_refl v : low_t v v.
Proof. left; apply low_b_refl. Qed.

Lemma var_rel_refl t r x v : var_rel t r x v v.
Proof.
  unfold var_rel. destruct (tmem x t); [apply low_t_refl|].
  destruct (tmem x r); [apply pub_eq_refl|reflexivity].
Qed.

Lemma var_rel_low_t t r x v1 v2 : var_rel t r x v1 v2 -> low_t v1 v2.
Proof.
  unfold var_rel. destruct (tmem x t); [auto|].
  destruct (tmem x r); intros H; [right; exact H|subst; apply low_t_refl].
Qed.

Lemma var_rel_weaken t r t' r' x v1 v2 :
  (tmem x t = true -> tmem x t' = true) ->
  (tmem x r = true -> tmem x t' = true \/ tmem x r' = true) ->
  var_rel t r x v1 v2 -> var_rel t' r' x v1 v2.
Proof.
  unfold var_rel. intros Ht Hr.
  destruct (tmem x t) eqn:E1.
  - rewrite (Ht eq_refl). auto.
  - destruct (tmem x r) eqn:E2.
    + intros H. destruct (tmem x t') eqn:E3; [right; exact H|].
      destruct (Hr eq_refl) as [K|K]; [discriminate|]. rewrite K. exact H.
    + intros H; subst. destruct (tmem x t'); [apply low_t_refl|].
      destruct (tmem x r'); [apply pub_eq_refl|reflexivity].
Qed.

Lemma env_weaken t r t' r' e1 e2 :
  (forall x, tmem x t = true -> tmem x t' = true) ->
  (forall x, tmem x r = true -> tmem x r' = true) ->
  env_low_equiv2 t r e1 e2 -> env_low_equiv2 t' r' e1 e2.
Proof.
  intros Ht Hr H x. specialize (H x).
  destruct (lookup x e1), (lookup x e2); auto. revert H.
  apply (var_rel_weaken t r); [apply Ht|intros K; right; apply Hr, K].
Qed.

Lemma env_cons (Rr : ident -> value -> value -> Prop) x v1 v2 e1 e2 :
  Rr x v1 v2 -> env_rel Rr e1 e2 -> env_rel Rr ((x, v1) :: e1) ((x, v2) :: e2).
Proof.
  intros Hv H y. simpl. destruct (bytes_eqb y x) eqn:E.
  - apply bytes_eqb_eq in E. subst. exact Hv.
  - apply H.
Qed.

Lemma env_cons_eq t r x v e1 e2 :
  env_low_equiv2 t r e1 e2 -> env_low_equiv2 t r ((x, v) :: e1) ((x, v) :: e2).
Proof. intros H. apply env_cons; [apply var_rel_refl|exact H]. Qed.

Lemma env_app_eq t r l e1 e2 :
  env_low_equiv2 t r e1 e2 -> env_low_equiv2 t r (l ++ e1) (l ++ e2).
Proof.
  intros H. induction l as [|[x v] l IH]; simpl; [exact H|]. apply env_cons_eq, IH.
Qed.

(* adding x to the tainted set only weakens the requirement on x *)
Lemma env_taint t r x e1 e2 :
  env_low_equiv2 t r e1 e2 -> env_low_equiv2 (x :: t) r e1 e2.
Proof.
  apply env_weaken; auto. intros y Hy. rewrite tmem_cons, Hy. apply orb_true_r.
Qed.
