(* END-TO-END: the table-driven DES of des/descrypt/des.go (Kdf/DesCrypt.v over the committed tables of
   Kdf/DesTables.v) computes the bit-level specification of Kdf/DesSpec.v.

     Encrypt tables key input salt rounds = spec_encrypt key input salt rounds      (identity encoding:
     key, input and output are big-endian 64-bit blocks, FIPS bit j = Z bit 64 - j)

   for every 64-bit key and input, EVERY integer salt (only its 24 low bits are used, by both sides) and every
   round count; and the crypt(3) wrappers (Key, desext.key, DecodeInt, des_derive, desext_derive).             *)
Require Import GC.Base.Bytes GC.Kdf.DesSpec GC.Kdf.DesSpecLemmas GC.Kdf.DesCrypt GC.Kdf.DesTables
               GC.Kdf.DesEquivTables GC.Kdf.DesEquivRound GC.Schemes.Consts.

(* ---------------------------------------------------------------------------------------------------- *)
(* ranges *)
Lemma range_of_bits : forall n x, 0 <= n -> 0 <= x -> (forall k, n <= k -> Z.testbit x k = false) -> 0 <= x < 2 ^ n.
Proof.
  intros n x Hn Hx H. assert (E : x = x mod 2 ^ n).
  { apply Z.bits_inj'. intros k Hk. destruct (Z_lt_dec k n).
    - rewrite Z.mod_pow2_bits_low by lia. reflexivity.
    - rewrite Z.mod_pow2_bits_high by lia. apply H. lia. }
  rewrite E. apply Z.mod_pos_bound. lia.
Qed.

Lemma lxor_range : forall n a b, 0 <= n -> 0 <= a < 2 ^ n -> 0 <= b < 2 ^ n -> 0 <= Z.lxor a b < 2 ^ n.
Proof.
  intros n a b Hn Ha Hb. apply range_of_bits; [lia | apply Z.lxor_nonneg; lia |].
  intros k Hk. rewrite Z.lxor_spec, (testbit_small n a k), (testbit_small n b k) by lia. reflexivity.
Qed.

Lemma lor_range : forall n a b, 0 <= n -> 0 <= a < 2 ^ n -> 0 <= b < 2 ^ n -> 0 <= Z.lor a b < 2 ^ n.
Proof.
  intros n a b Hn Ha Hb. apply range_of_bits; [lia | apply Z.lor_nonneg; lia |].
  intros k Hk. rewrite Z.lor_spec, (testbit_small n a k), (testbit_small n b k) by lia. reflexivity.
Qed.

Lemma join_range : forall a b, 0 <= a < 2 ^ 32 -> 0 <= b < 2 ^ 32 -> 0 <= Z.lor (Z.shiftl a 32) b < 2 ^ 64.
Proof.
  intros a b Ha Hb. apply lor_range; [lia | | lia].
  rewrite Z.shiftl_mul_pow2 by lia. change (2 ^ 64) with (2 ^ 32 * 2 ^ 32). nia.
Qed.

Lemma join_hi : forall a b, 0 <= b < 2 ^ 32 -> Z.shiftr (Z.lor (Z.shiftl a 32) b) 32 = a.
Proof.
  intros a b Hb. rewrite Z.shiftr_lor, Z.shiftr_shiftl_l by lia. change (32 - 32) with 0. rewrite Z.shiftl_0_r.
  rewrite (Z.shiftr_div_pow2 b) by lia. rewrite Z.div_small by lia. apply Z.lor_0_r.
Qed.

Lemma join_lo : forall a b, 0 <= b < 2 ^ 32 -> Z.lor (Z.shiftl a 32) b mod 2 ^ 32 = b.
Proof.
  intros a b Hb. rewrite <- Z.land_ones by lia. rewrite Z.land_lor_distr_l, !Z.land_ones by lia.
  rewrite Z.shiftl_mul_pow2 by lia. rewrite Z.mod_mul by lia. rewrite Z.mod_small by lia. apply Z.lor_0_l.
Qed.

(* ---------------------------------------------------------------------------------------------------- *)
(* the code's Encrypt, with its three bit-twiddling expressions named *)
Definition prel (x : Z) : Z := Z.lor (Z.land (Z.shiftr x 31) 2863311530) (Z.land x 1431655765).
Definition prer (x : Z) : Z := Z.lor (Z.land (Z.shiftr x 32) 2863311530) (Z.land (Z.shiftr x 1) 1431655765).
Definition cfin (l r : Z) : Z :=
  Z.lor (Z.lor (Z.lor (Z.land (Z.shiftr l 3) 1085102592318504960)
                      (Z.land (u64 (Z.shiftl l 33)) 17361641477096079360))
               (Z.land (Z.shiftr r 35) 252645135))
        (Z.land (u64 (Z.shiftl r 1)) 4042322160).

Lemma Encrypt_unfold : forall ie cf spe pcx mask key input salt rounds,
  Encrypt ie cf spe pcx mask key input salt rounds =
  let '(l0, r0) := if input =? 0 then (0, 0) else (permute816 ie (prel input), permute816 ie (prer input)) in
  let '(l, r) := des_rounds spe (Z.to_nat rounds) (key_schedules mask pcx key) (saltx salt) l0 r0 in
  permute1616 cf (cfin l r).
Proof. reflexivity. Qed.

(* the representation of the two halves of IP(x) *)
Definition ErepL (x : Z) : Z := Erep (Z.shiftr (fperm 64 IP x) 32).
Definition ErepR (x : Z) : Z := Erep (fperm 64 IP x mod 2 ^ 32).

Lemma orlin_ErepL : orlin ErepL.
Proof.
  unfold ErepL, Erep, fperm.
  apply (orlin_zsel Erepsel (fun x => Z.shiftr (zsel (fsel 64 IP) x) 32)).
  apply (orlin_shiftr (fun x => zsel (fsel 64 IP) x)). apply orlin_zsel. apply orlin_id.
Qed.

Lemma orlin_ErepR : orlin ErepR.
Proof.
  unfold ErepR, Erep, fperm.
  apply (orlin_zsel Erepsel (fun x => zsel (fsel 64 IP) x mod 2 ^ 32)).
  apply (orlin_modpow2 (fun x => zsel (fsel 64 IP) x) 32); [lia|]. apply orlin_zsel. apply orlin_id.
Qed.

(* ---------------------------------------------------------------------------------------------------- *)
(* entry: IE3264 on the compacted even / odd bits = E-expanded halves of IP(input) *)
Lemma orlin_prel : orlin prel.
Proof.
  unfold prel. apply orlin_lor.
  - apply (orlin_land (fun x => Z.shiftr x 31)). apply (orlin_shiftr (fun x => x)). apply orlin_id.
  - apply (orlin_land (fun x => x)). apply orlin_id.
Qed.
Lemma orlin_prer : orlin prer.
Proof.
  unfold prer. apply orlin_lor.
  - apply (orlin_land (fun x => Z.shiftr x 32)). apply (orlin_shiftr (fun x => x)). apply orlin_id.
  - apply (orlin_land (fun x => Z.shiftr x 1)). apply (orlin_shiftr (fun x => x)). apply orlin_id.
Qed.

Theorem entry_l : forall x, 0 <= x < 2 ^ 64 -> permute816 m_des_ie3264 (prel x) = ErepL x.
Proof.
  apply (orlin_basis_check 64 (fun x => permute816 m_des_ie3264 (prel x)) ErepL).
  - unfold permute816. destruct des_tables_generated as (-> & _). apply orlin_permute_gen. apply orlin_prel.
  - apply orlin_ErepL.
  - vm_compute. reflexivity.
Qed.

Theorem entry_r : forall x, 0 <= x < 2 ^ 64 -> permute816 m_des_ie3264 (prer x) = ErepR x.
Proof.
  apply (orlin_basis_check 64 (fun x => permute816 m_des_ie3264 (prer x)) ErepR).
  - unfold permute816. destruct des_tables_generated as (-> & _). apply orlin_permute_gen. apply orlin_prer.
  - apply orlin_ErepR.
  - vm_compute. reflexivity.
Qed.

(* exit: CF6464 on the compacted l, r undoes IP and the E expansion *)
Lemma orlin_cfin : forall F G, orlin F -> orlin G -> orlin (fun x => cfin (F x) (G x)).
Proof.
  intros F G HF HG. unfold cfin, u64. repeat apply orlin_lor.
  - apply (orlin_land (fun x => Z.shiftr (F x) 3)). apply orlin_shiftr. exact HF.
  - apply (orlin_land (fun x => Z.shiftl (F x) 33 mod 2 ^ 64)).
    apply (orlin_modpow2 (fun x => Z.shiftl (F x) 33) 64); [lia|]. apply orlin_shiftl. exact HF.
  - apply (orlin_land (fun x => Z.shiftr (G x) 35)). apply orlin_shiftr. exact HG.
  - apply (orlin_land (fun x => Z.shiftl (G x) 1 mod 2 ^ 64)).
    apply (orlin_modpow2 (fun x => Z.shiftl (G x) 1) 64); [lia|]. apply orlin_shiftl. exact HG.
Qed.

Theorem exit_cf : forall x, 0 <= x < 2 ^ 64 -> permute1616 m_des_cf6464 (cfin (ErepL x) (ErepR x)) = x.
Proof.
  apply (orlin_basis_check 64 (fun x => permute1616 m_des_cf6464 (cfin (ErepL x) (ErepR x))) (fun x => x)).
  - unfold permute1616. destruct des_tables_generated as (_ & -> & _).
    apply (orlin_permute_gen cf_sel 16 (fun x => cfin (ErepL x) (ErepR x))).
    apply orlin_cfin; [apply orlin_ErepL | apply orlin_ErepR].
  - apply orlin_id.
  - vm_compute. reflexivity.
Qed.

(* ---------------------------------------------------------------------------------------------------- *)
(* key schedule *)
Fixpoint pairs2 {A : Type} (l : list A) : list (A * A) :=
  match l with a :: b :: r => (a, b) :: pairs2 r | _ => [] end.

Lemma pairs2_map : forall (A B : Type) (fn : A -> B) l, pairs2 (map fn l) = map (fun ab => (fn (fst ab), fn (snd ab))) (pairs2 l).
Proof.
  intros A B fn. fix IH 1. intros [|a [|b l]]; simpl; try reflexivity. f_equal. apply IH.
Qed.

Lemma flat_pairs2 : forall n l, length l = (2 * n)%nat -> flat (pairs2 l) = l.
Proof.
  induction n as [|n IH]; intros l Hl.
  - destruct l; [reflexivity | simpl in Hl; lia].
  - destruct l as [|a [|b l]]; simpl in Hl; try lia. simpl. f_equal. f_equal. apply IH. lia.
Qed.

(* selections of the key bits, propagated through the table chain ... *)
Fixpoint ks_sels (mask : Z) (sels : list (list Z * list Z)) (k0 : list Z) : list (list Z * list Z) :=
  match sels with
  | [] => []
  | (sE, sO) :: rest => let e := comp sE k0 in let o := comp sO e in
                        (masksel mask 0 e, masksel mask 0 o) :: ks_sels mask rest o
  end.
(* ... and through the specification's PC-1 / rotations / PC-2 *)
Fixpoint subkeys_sels (c : list Z) (sh : list Z) : list (list Z) :=
  match sh with
  | [] => []
  | s :: r => let c' := comp (rotsel s) c in comp PC2sel c' :: subkeys_sels c' r
  end.

Lemma key_schedules_cons : forall mask pE pO rest k,
  key_schedules mask ((pE, pO) :: rest) k =
  (Z.land (permute1616 pE k) mask, Z.land (permute1616 pO (permute1616 pE k)) mask)
    :: key_schedules mask rest (permute1616 pO (permute1616 pE k)).
Proof. reflexivity. Qed.

Lemma comp_length : forall a b, length (comp a b) = length a.
Proof. intros. unfold comp. apply map_length. Qed.

Lemma zsel_range64 : forall l x, length l = 64%nat -> 0 <= zsel l x < 2 ^ 64.
Proof. intros l x H. pose proof (zsel_range l x) as R. rewrite H in R. exact R. Qed.

Lemma key_schedules_sel : forall mask pcx sels, Forall2 pcx_ok pcx sels ->
  Forall (fun s => length (fst s) = 64%nat /\ length (snd s) = 64%nat) sels ->
  forall k0 key, length k0 = 64%nat ->
  key_schedules mask pcx (zsel k0 key)
  = map (fun ab => (zsel (fst ab) key, zsel (snd ab) key)) (ks_sels mask sels k0).
Proof.
  intros mask pcx sels H. induction H as [|[pE pO] [sE sO] pcx sels Hok H IH]; intros HL k0 key Hk0.
  - reflexivity.
  - inversion HL as [|? ? [HE HO] HL']; subst. simpl in HE, HO.
    rewrite key_schedules_cons.
    destruct (Hok (zsel k0 key) (zsel_range64 _ _ Hk0)) as [E1 _]. simpl in E1. rewrite E1, zsel_comp.
    assert (Le : length (comp sE k0) = 64%nat) by (rewrite comp_length; exact HE).
    destruct (Hok (zsel (comp sE k0) key) (zsel_range64 _ _ Le)) as [_ E2]. simpl in E2. rewrite E2, zsel_comp.
    rewrite !land_zsel.
    simpl ks_sels. rewrite map_cons. simpl fst. simpl snd. f_equal.
    apply IH; [exact HL' | unfold comp; rewrite map_length; exact HO].
Qed.

Lemma rotsel_length : forall s, length (rotsel s) = 56%nat.
Proof. intros. unfold rotsel. rewrite map_length, zseq_length. reflexivity. Qed.

Lemma subkeys_from_cons : forall cd s r,
  subkeys_from cd (s :: r) = fperm 56 PC2 (rotCD s cd) :: subkeys_from (rotCD s cd) r.
Proof. reflexivity. Qed.
Lemma subkeys_sels_cons : forall c s r,
  subkeys_sels c (s :: r) = comp PC2sel (comp (rotsel s) c) :: subkeys_sels (comp (rotsel s) c) r.
Proof. reflexivity. Qed.

Lemma subkeys_from_sel : forall sh, Forall (fun s => s = 1 \/ s = 2) sh ->
  forall c key, length c = 56%nat ->
  subkeys_from (zsel c key) sh = map (fun l => zsel l key) (subkeys_sels c sh).
Proof.
  intros sh H. induction H as [|s sh Hs H IH]; intros c key Hc.
  - reflexivity.
  - rewrite subkeys_from_cons, subkeys_sels_cons, map_cons.
    assert (R : 0 <= zsel c key < 2 ^ 56) by (pose proof (zsel_range c key) as R; rewrite Hc in R; exact R).
    rewrite (rotCD_sel s _ Hs R), zsel_comp. unfold fperm. change (fsel 56 PC2) with PC2sel. rewrite zsel_comp.
    apply (f_equal (cons (zsel (comp PC2sel (comp (rotsel s) c)) key))).
    apply IH. rewrite comp_length. apply rotsel_length.
Qed.

Definition Ksels : list (list Z) := subkeys_sels PC1sel shifts.

Lemma subkeys_sel : forall key, subkeys key = map (fun l => zsel l key) Ksels.
Proof.
  intros. unfold subkeys, fperm. fold PC1sel. apply subkeys_from_sel.
  - unfold shifts. repeat (apply Forall_cons; [lia|]). apply Forall_nil.
  - reflexivity.
Qed.

Lemma subkeys_length : forall key, length (subkeys key) = 16%nat.
Proof. intros. rewrite subkeys_sel, map_length. reflexivity. Qed.

(* the sixteen (masked) schedule words of the code are the sixteen subkeys of the specification in word layout *)
Theorem key_schedule_equiv : forall key, 0 <= key < 2 ^ 64 ->
  key_schedules m_des_ksMask m_des_pcxRot key = map (fun ab => (W (fst ab), W (snd ab))) (pairs2 (subkeys key)).
Proof.
  intros key Hkey.
  rewrite <- (zsel_id 64 key) at 1 by exact Hkey.
  rewrite (key_schedules_sel m_des_ksMask m_des_pcxRot pcx_sels pcx_char).
  - rewrite subkeys_sel, pairs2_map, map_map.
    assert (C : ks_sels m_des_ksMask pcx_sels (zseq 64)
                = map (fun ab => (comp Wsel (fst ab), comp Wsel (snd ab))) (pairs2 Ksels)) by (vm_compute; reflexivity).
    rewrite C, map_map. apply map_ext. intros [a b]. simpl fst. simpl snd.
    unfold W. rewrite !zsel_comp. reflexivity.
  - assert (C : forallb (fun s => Nat.eqb (length (fst s)) 64 && Nat.eqb (length (snd s)) 64) pcx_sels = true)
      by (vm_compute; reflexivity).
    rewrite forallb_forall in C. apply Forall_forall. intros s Hs. specialize (C s Hs).
    apply andb_true_iff in C. destruct C as [C1 C2]. apply Nat.eqb_eq in C1. apply Nat.eqb_eq in C2. tauto.
  - apply zseq_length.
Qed.

(* ---------------------------------------------------------------------------------------------------- *)
(* the whole cipher and its iteration *)
Definition in32 (lr : Z * Z) : Prop := 0 <= fst lr < 2 ^ 32 /\ 0 <= snd lr < 2 ^ 32.

Lemma fperm32_range : forall tbl x, length tbl = 32%nat -> 0 <= fperm 32 tbl x < 2 ^ 32.
Proof.
  intros tbl x H. unfold fperm. pose proof (zsel_range (fsel 32 tbl) x) as R.
  unfold fsel in R. rewrite map_length, rev_length, H in R. exact R.
Qed.

Lemma rounds_in32 : forall salt ks lr, in32 lr -> in32 (fold_left (round salt) ks lr).
Proof.
  intros salt ks. induction ks as [|K ks IH]; intros [L R] [HL HR]; [split; assumption|].
  simpl fold_left. apply IH. unfold round, in32. simpl fst. simpl snd. simpl in HL, HR. split; [exact HR|].
  apply lxor_range; [lia | exact HL |]. unfold f. apply fperm32_range. reflexivity.
Qed.

Lemma IP_range : forall x, 0 <= fperm 64 IP x < 2 ^ 64.
Proof. intros. apply zsel_range64. reflexivity. Qed.

Lemma IP_FP : forall y, 0 <= y < 2 ^ 64 -> fperm 64 IP (fperm 64 FP y) = y.
Proof.
  intros y Hy. unfold fperm. rewrite zsel_comp.
  replace (comp (fsel 64 IP) (fsel 64 FP)) with (zseq 64) by (vm_compute; reflexivity).
  apply zsel_id. exact Hy.
Qed.

Lemma des_block_range : forall salt key x, 0 <= des_block salt key x < 2 ^ 64.
Proof.
  intros. unfold des_block. destruct (fold_left _ _ _) as [L R]. apply zsel_range64. reflexivity.
Qed.

(* one pass of the code's sixteen rounds + swap, on representations = the block cipher, on blocks *)
Lemma one_pass : forall salt key x, 0 <= key < 2 ^ 64 -> 0 <= x < 2 ^ 64 ->
  feistel m_des_spe (key_schedules m_des_ksMask m_des_pcxRot key) (zsel saltsel salt) (ErepL x) (ErepR x)
  = (ErepR (des_block salt key x), ErepL (des_block salt key x)).
Proof.
  intros salt key x Hkey Hx. rewrite key_schedule_equiv by exact Hkey.
  unfold ErepL at 1, ErepR at 1. rewrite feistel_spec.
  rewrite (flat_pairs2 8) by apply subkeys_length.
  unfold des_block.
  assert (I : in32 (Z.shiftr (fperm 64 IP x) 32, fperm 64 IP x mod 2 ^ 32)).
  { split; simpl; [| apply Z.mod_pos_bound; lia].
    pose proof (IP_range x) as R. rewrite Z.shiftr_div_pow2 by lia. split.
    - apply Z.div_pos; lia.
    - apply Z.div_lt_upper_bound; [lia|]. change (2 ^ 32 * 2 ^ 32) with (2 ^ 64). lia. }
  pose proof (rounds_in32 salt (subkeys key) _ I) as [HL HR].
  destruct (fold_left (round salt) (subkeys key) (Z.shiftr (fperm 64 IP x) 32, fperm 64 IP x mod 2 ^ 32)) as [L16 R16].
  simpl fst in *. simpl snd in *.
  unfold ErepL, ErepR. rewrite IP_FP by (apply join_range; assumption).
  rewrite join_hi, join_lo by assumption. reflexivity.
Qed.

Lemma iter_succ_r : forall (A : Type) (fn : A -> A) n x, Nat.iter (S n) fn x = Nat.iter n fn (fn x).
Proof. intros A fn n x. induction n as [|n IH]; [reflexivity|]. simpl in *. rewrite IH. reflexivity. Qed.

Lemma des_rounds_S : forall spe n kss salt l r,
  des_rounds spe (S n) kss salt l r = des_rounds spe n kss salt (snd (feistel spe kss salt l r)) (fst (feistel spe kss salt l r)).
Proof. intros. simpl. destruct (feistel spe kss salt l r). reflexivity. Qed.

Lemma des_rounds_spec : forall salt key n x, 0 <= key < 2 ^ 64 -> 0 <= x < 2 ^ 64 ->
  des_rounds m_des_spe n (key_schedules m_des_ksMask m_des_pcxRot key) (zsel saltsel salt) (ErepL x) (ErepR x)
  = (ErepL (Nat.iter n (des_block salt key) x), ErepR (Nat.iter n (des_block salt key) x)).
Proof.
  intros salt key n. induction n as [|n IH]; intros x Hkey Hx.
  - reflexivity.
  - rewrite des_rounds_S, one_pass by assumption. simpl fst. simpl snd.
    rewrite IH by (try assumption; apply des_block_range). rewrite iter_succ_r. reflexivity.
Qed.

Lemma iter_range : forall salt key n x, 0 <= x < 2 ^ 64 -> 0 <= Nat.iter n (des_block salt key) x < 2 ^ 64.
Proof. intros salt key n x Hx. destruct n; [exact Hx | simpl; apply des_block_range]. Qed.

(* ---------------------------------------------------------------------------------------------------- *)
(* THE MAIN THEOREM *)
Theorem des_Encrypt_correct : forall key input salt rounds : Z,
  0 <= key < 2 ^ 64 -> 0 <= input < 2 ^ 64 ->
  Encrypt m_des_ie3264 m_des_cf6464 m_des_spe m_des_pcxRot m_des_ksMask key input salt rounds
  = spec_encrypt key input salt rounds.
Proof.
  intros key input salt rounds Hkey Hin. rewrite Encrypt_unfold.
  assert (E0 : (if input =? 0 then (0, 0) else (permute816 m_des_ie3264 (prel input), permute816 m_des_ie3264 (prer input)))
               = (ErepL input, ErepR input)).
  { destruct (input =? 0) eqn:E.
    - apply Z.eqb_eq in E. subst. vm_compute. reflexivity.
    - rewrite entry_l, entry_r by exact Hin. reflexivity. }
  rewrite E0, saltx_sel, des_rounds_spec by assumption.
  unfold spec_encrypt. apply exit_cf. apply iter_range. exact Hin.
Qed.

Check key_schedule_equiv.
Check entry_l.
Check entry_r.
Check exit_cf.
Check one_pass.
Check des_Encrypt_correct.
Print Assumptions key_schedule_equiv.
Print Assumptions entry_l.
Print Assumptions entry_r.
Print Assumptions exit_cf.
Print Assumptions one_pass.
Print Assumptions des_Encrypt_correct.
