(* md5crypt.Encrypt (literal model with checked slices and fuelled loops) = the PHK MD5-crypt specification,
   for every password, salt and prefix; and it never panics / always terminates within the fuel. *)
Require Import GC.Base.Bytes GC.Kdf.KdfBase GC.Kdf.KdfBaseProofs GC.Kdf.Md5Crypt.

Arguments Z.add : simpl never.
Arguments Z.sub : simpl never.
Arguments Z.of_nat : simpl never.
Arguments Z.shiftr : simpl never.
Arguments Z.land : simpl never.

(* for i := len(password); i > 0; i -= 16: appends len(password) bytes of d, cyclically *)
Lemma loop1_spec : forall fuel d i acc, length d = 16%nat -> i <= Z.of_nat fuel ->
  loop1 fuel d i acc = Some (acc ++ take_cyclic d (Z.to_nat i)).
Proof.
  induction fuel as [|f IH]; intros d i acc Hd Hi; cbn [loop1].
  - destruct (Z.leb_spec i 0); [|lia].
    replace (Z.to_nat i) with 0%nat by lia. now rewrite take_cyclic_0, app_nil_r.
  - destruct (Z.leb_spec i 0).
    + replace (Z.to_nat i) with 0%nat by lia. now rewrite take_cyclic_0, app_nil_r.
    + destruct (Z.ltb_spec 16 i).
      * rewrite IH by lia. rewrite (take_cyclic_step d 16 i) by lia. now rewrite app_assoc.
      * rewrite (take_cyclic_last d 16 i) by lia. cbn [obind].
        rewrite IH by lia. replace (Z.to_nat (i - 16)) with 0%nat by lia.
        now rewrite take_cyclic_0, app_nil_r.
Qed.

(* for i := len(password); i > 0; i >>= 1: one byte per binary digit of len(password) *)
Lemma loop2_spec : forall fuel pw i acc, i <= Z.of_nat fuel -> i <= lenZ pw ->
  loop2 fuel pw i acc
  = Some (acc ++ flat_map (fun b : bool => if b then [0] else firstn 1 pw) (bits_lsb fuel i)).
Proof.
  induction fuel as [|f IH]; intros pw i acc Hi Hp; cbn [loop2 bits_lsb].
  - destruct (Z.leb_spec i 0); [|lia]. cbn [flat_map]. now rewrite app_nil_r.
  - destruct (Z.leb_spec i 0).
    + cbn [flat_map]. now rewrite app_nil_r.
    + pose proof (shiftr1_lt i ltac:(lia)) as Hs.
      destruct (negb (Z.land i 1 =? 0)); cbn [flat_map].
      * rewrite IH by lia. now rewrite <- app_assoc.
      * rewrite (sl_prefix pw 1) by lia. cbn [obind].
        rewrite IH by lia. rewrite <- app_assoc. reflexivity.
Qed.

Lemma rounds_length : forall H n pw salt d i, (forall x, length (H x) = 16%nat) -> length d = 16%nat ->
  length (rounds H n pw salt d i) = 16%nat.
Proof.
  intros H n; induction n as [|n IH]; intros pw salt d i HH Hd; cbn [rounds]; [assumption|].
  apply IH; [assumption|]. unfold round. apply HH.
Qed.

(* Without the digest-length hypothesis the statement is false: with H := fun _ => [] and pw = [1] the
   implementation panics on d[:1] whereas the specification returns Some [] (for perm = []). *)
Theorem md5crypt_impl_spec : forall H perm pw salt prefix, (forall x, length (H x) = 16%nat) ->
  Md5Crypt.Encrypt H perm pw salt prefix = Md5Crypt.spec_Encrypt H perm pw salt prefix.
Proof.
  intros H perm pw salt prefix HH. unfold Encrypt, spec_Encrypt.
  rewrite loop1_spec by (try apply HH; unfold lenZ; lia). cbn [obind].
  rewrite loop2_spec by (unfold lenZ; lia). cbn [obind].
  unfold lenZ at 1. rewrite Nat2Z.id.
  repeat rewrite <- app_assoc. reflexivity.
Qed.

Theorem md5crypt_total : forall H perm pw salt prefix, (forall x, length (H x) = 16%nat) ->
  Forall (fun j => 0 <= j < 16) perm ->
  exists k, Md5Crypt.Encrypt H perm pw salt prefix = Some k /\ length k = length perm.
Proof.
  intros H perm pw salt prefix HH Hperm.
  rewrite md5crypt_impl_spec by assumption. unfold spec_Encrypt.
  apply permute_some. rewrite rounds_length by (try assumption; apply HH).
  exact Hperm.
Qed.

Print Assumptions md5crypt_impl_spec.
Print Assumptions md5crypt_total.
