(* des/descrypt/des.go: permute816/1616, keySchedules, Encrypt, Key, EncodeInt, DecodeInt and desext.key,
   literally, over 64-bit words (explicit wrap where Go wraps).  Tables are parameters (Kdf/DesTables.v). *)
Require Import GC.Base.Bytes.

Definition u64 (x : Z) : Z := x mod 2 ^ 64.
Definition u32 (x : Z) : Z := x mod 2 ^ 32.
Definition nthz (l : list Z) (i : Z) : Z := nth (Z.to_nat i) l 0.

Section D.
Variable ie3264 cf6464 spe : list (list Z).
Variable pcxRot : list (list (list Z) * list (list Z)).
Variable ksMask : Z.
Variable hash_decode hash_encode : bytes.        (* hashutil.HashEncoding tables *)

(* for _, r := range p { v |= r[c&0x0F]; c >>= 4 } *)
Fixpoint permute_tab (p : list (list Z)) (c v : Z) : Z :=
  match p with
  | [] => v
  | r :: rest => permute_tab rest (Z.shiftr c 4) (Z.lor v (nthz r (Z.land c 15)))
  end.
Definition permute816 (c : Z) := permute_tab ie3264 c 0.
Definition permute1616 (p : list (list Z)) (c : Z) := permute_tab p c 0.

(* keySchedules(ksOdd) *)
Fixpoint key_schedules (pcx : list (list (list Z) * list (list Z))) (ksOdd : Z) : list (Z * Z) :=
  match pcx with
  | [] => []
  | (pEven, pOdd) :: rest =>
    let ksEven := permute1616 pEven ksOdd in
    let ksOdd' := permute1616 pOdd ksEven in
    (Z.land ksEven ksMask, Z.land ksOdd' ksMask) :: key_schedules rest ksOdd'
  end.

Definition spe_mix (b : Z) : Z :=
  fold_left Z.lxor
    (map (fun k => nthz (nth k spe []) (Z.land (Z.shiftr b (58 - 8 * Z.of_nat k)) 63)) (seq 0 8)) 0.

(* one pass over the eight (even, odd) schedule pairs *)
Fixpoint feistel (kss : list (Z * Z)) (salt l r : Z) : Z * Z :=
  match kss with
  | [] => (l, r)
  | (ksEven, ksOdd) :: rest =>
    let k := Z.land (Z.lxor (Z.shiftr r 32) r) salt in
    let b := Z.lxor (Z.lxor (Z.lxor (u64 (Z.shiftl k 32)) k) r) ksEven in
    let l' := Z.lxor l (spe_mix b) in
    let k2 := Z.land (Z.lxor (Z.shiftr l' 32) l') salt in
    let b2 := Z.lxor (Z.lxor (Z.lxor (u64 (Z.shiftl k2 32)) k2) l') ksOdd in
    let r' := Z.lxor r (spe_mix b2) in
    feistel rest salt l' r'
  end.

Fixpoint des_rounds (n : nat) (kss : list (Z * Z)) (salt l r : Z) : Z * Z :=
  match n with
  | O => (l, r)
  | S n' => let '(l', r') := feistel kss salt l r in des_rounds n' kss salt r' l'   (* swap *)
  end.

Definition Encrypt (key input salt rounds : Z) : Z :=
  let kss := key_schedules pcxRot key in
  let salt' := u32 (Z.lor (Z.lor (Z.lor (u32 (Z.shiftl (Z.land salt 63) 26)) (u32 (Z.shiftl (Z.land salt 4032) 12)))
                                 (Z.shiftr (Z.land salt 258048) 2)) (Z.shiftr (Z.land salt 16515072) 16)) in
  let '(l0, r0) :=
    if input =? 0 then (0, 0)
    else (permute816 (Z.lor (Z.land (Z.shiftr input 31) 2863311530) (Z.land input 1431655765)),
          permute816 (Z.lor (Z.land (Z.shiftr input 32) 2863311530) (Z.land (Z.shiftr input 1) 1431655765))) in
  let '(l, r) := des_rounds (Z.to_nat rounds) kss salt' l0 r0 in
  let c := Z.lor (Z.lor (Z.lor (Z.land (Z.shiftr l 3) 1085102592318504960)
                               (Z.land (u64 (Z.shiftl l 33)) 17361641477096079360))
                        (Z.land (Z.shiftr r 35) 252645135))
                 (Z.land (u64 (Z.shiftl r 1)) 4042322160) in
  permute1616 cf6464 c.

(* Key(password): v += uint64(password[i]&0x7F) << (57 - i*8) for i < 8 *)
Fixpoint des_key_from (pw : bytes) (i : Z) (fuel : nat) : Z :=
  match fuel, pw with
  | S f, c :: r => u64 (Z.shiftl (Z.land c 127) (57 - i * 8) + des_key_from r (i + 1) f)
  | _, _ => 0
  end.
Definition Key (pw : bytes) : Z := des_key_from pw 0 8.

(* DecodeInt(b): v += uint32(Decode(b[i])) << (i*6) for i < 4 *)
Fixpoint decode_int_from (b : bytes) (i : Z) (fuel : nat) : Z :=
  match fuel, b with
  | S f, c :: r => u32 (Z.shiftl (nthz hash_decode c) (6 * i) + decode_int_from r (i + 1) f)
  | _, _ => 0
  end.
Definition DecodeInt (b : bytes) : Z := decode_int_from b 0 4.

(* desext.key(password): fold 8-byte blocks *)
Fixpoint ext_key_loop (fuel : nat) (pw : bytes) (kv : Z) : Z :=
  match fuel with
  | O => kv
  | S f => match pw with
           | [] => kv
           | _ => let t := Key (firstn 8 pw) in
                  ext_key_loop f (skipn 8 pw) (Z.lxor (Encrypt kv kv 0 1) t)
           end
  end.
Definition ext_key (pw : bytes) : Z := ext_key_loop (length pw) (skipn 8 pw) (Key (firstn 8 pw)).

(* binary.BigEndian.PutUint64 *)
Definition be8 (v : Z) : bytes := map (fun k => Z.shiftr v (8 * (7 - k)) mod 256) [0;1;2;3;4;5;6;7].

Definition des_derive (pw salt : bytes) : bytes := be8 (Encrypt (Key pw) 0 (DecodeInt salt) 25).
Definition desext_derive (pw salt : bytes) (rounds : Z) : bytes := be8 (Encrypt (ext_key pw) 0 (DecodeInt salt) rounds).
End D.
