(* Sun MD5: Key runs exactly rounds + BasicRounds rounds with the counters 0, 1, 2, ... (the uint32 addition cannot wrap below MaxRounds). *)
Require Import GC.Base.Bytes GC.Kdf.KdfBase GC.Kdf.SunMd5 GC.Schemes.Consts.

Section R.
Variable H : bytes -> bytes.
Variable phrase permFinal : bytes.

Lemma rounds_fold : forall n d i,
  rounds H phrase n d i = fold_left (fun acc k => round H phrase acc k) (map (fun k => i + Z.of_nat k) (seq 0 n)) d.
Proof.
  induction n as [|n IH]; intros d i; [reflexivity|].
  cbn [rounds seq map fold_left]. rewrite IH. rewrite <- seq_shift, map_map.
  replace (i + Z.of_nat 0) with i by lia.
  f_equal. apply map_ext. intros k. lia.
Qed.

(* the uint32 addition `rounds += BasicRounds` never wraps inside the accepted range: MaxRounds + BasicRounds = 2^32 - 1 *)
Lemma total_rounds_exact : forall nrounds, 0 <= nrounds <= m_sunmd5_MaxRounds ->
  u32 (nrounds + m_sunmd5_BasicRounds) = nrounds + 4096.
Proof.
  intros nrounds Hn. unfold u32, m_sunmd5_BasicRounds, m_sunmd5_MaxRounds in *.
  apply Z.mod_small. change (2 ^ 32) with 4294967296. lia.
Qed.

Theorem Key_round_sequence : forall pw saltString nrounds, 0 <= nrounds <= m_sunmd5_MaxRounds ->
  Key H phrase permFinal pw saltString nrounds m_sunmd5_BasicRounds
  = permute (fold_left (fun acc k => round H phrase acc k)
                       (map Z.of_nat (seq 0 (Z.to_nat (nrounds + 4096)))) (H (pw ++ saltString))) permFinal.
Proof.
  intros pw saltString nrounds Hn. unfold Key. cbv zeta.
  rewrite total_rounds_exact by exact Hn. rewrite rounds_fold. reflexivity.
Qed.

Lemma round_sequence_length : forall nrounds, 0 <= nrounds ->
  Z.of_nat (length (map Z.of_nat (seq 0 (Z.to_nat (nrounds + 4096))))) = nrounds + 4096.
Proof. intros nrounds Hn. rewrite map_length, seq_length. lia. Qed.
End R.

Example max_plus_basic : m_sunmd5_MaxRounds + m_sunmd5_BasicRounds = 2 ^ 32 - 1.
Proof. reflexivity. Qed.

Print Assumptions Key_round_sequence.
