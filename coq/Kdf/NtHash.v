(* nthash/nthash.go: encodePassword (Go string -> []rune -> UTF-16 -> little-endian bytes).  Literal model of
   Go's UTF-8 decoding of a string into runes (invalid bytes become U+FFFD one byte at a time) and of
   unicode/utf16.Encode. *)
Require Import GC.Base.Bytes.

Definition RuneError : Z := 65533.

(* the first rune of s and how many bytes it occupies (unicode/utf8.DecodeRuneInString) *)
Definition decode_rune (s : bytes) : Z * nat :=
  match s with
  | [] => (RuneError, 0%nat)
  | b0 :: r =>
    if b0 <? 128 then (b0, 1%nat)
    else if (b0 <? 194) || (244 <? b0) then (RuneError, 1%nat)
    else
      let cont c := (128 <=? c) && (c <=? 191) in
      if b0 <? 224 then
        match r with
        | b1 :: _ => if cont b1 then ((b0 - 192) * 64 + (b1 - 128), 2%nat) else (RuneError, 1%nat)
        | _ => (RuneError, 1%nat)
        end
      else if b0 <? 240 then
        match r with
        | b1 :: b2 :: _ =>
          let lo := if b0 =? 224 then 160 else 128 in
          let hi := if b0 =? 237 then 159 else 191 in
          if (lo <=? b1) && (b1 <=? hi) && cont b2
          then ((b0 - 224) * 4096 + (b1 - 128) * 64 + (b2 - 128), 3%nat) else (RuneError, 1%nat)
        | _ => (RuneError, 1%nat)
        end
      else
        match r with
        | b1 :: b2 :: b3 :: _ =>
          let lo := if b0 =? 240 then 144 else 128 in
          let hi := if b0 =? 244 then 143 else 191 in
          if (lo <=? b1) && (b1 <=? hi) && cont b2 && cont b3
          then ((b0 - 240) * 262144 + (b1 - 128) * 4096 + (b2 - 128) * 64 + (b3 - 128), 4%nat)
          else (RuneError, 1%nat)
        | _ => (RuneError, 1%nat)
        end
  end.

Fixpoint runes (fuel : nat) (s : bytes) : list Z :=
  match fuel with
  | O => []
  | S f => match s with
           | [] => []
           | _ => let '(r, n) := decode_rune s in r :: runes f (skipn (Nat.max n 1) s)
           end
  end.

(* utf16.Encode: surrogate pairs above 0xFFFF; surrogate code points and out-of-range values become U+FFFD *)
Definition utf16_units (r : Z) : list Z :=
  if ((0 <=? r) && (r <? 55296)) || ((57344 <=? r) && (r <? 65536)) then [r]
  else if (65536 <=? r) && (r <=? 1114111) then
    let v := r - 65536 in [55296 + v / 1024; 56320 + v mod 1024]
  else [RuneError].

Definition encodePassword (s : bytes) : bytes :=
  flat_map (fun u => [u mod 256; u / 256]) (flat_map utf16_units (runes (length s) s)).
